(* C15: proofs about the model, for every float structure that satisfies the
   IEEE-754 facts of Lib/C15_Float.v (order_laws, grow_laws, jitter_laws). *)
From Boltons Require Import Lib.Prelude Lib.C15_Float Spec.C15_Spec Model.C15_Model.

Section Order.
  Context {F : Type} (fo : fops F) (OL : order_laws fo).
  Local Notation le x y := (fleb fo x y = true).
  Local Notation lt x y := (fltb fo x y = true).
  Local Notation zero := (f0 fo).
  Local Notation one := (f1 fo).

  Lemma lt_le : forall x y, lt x y -> le x y.
  Proof. intros x y H. rewrite (ltb_def fo OL) in H. apply andb_true_iff in H. tauto. Qed.

  Lemma lt_nle : forall x y, lt x y -> fleb fo y x = false.
  Proof.
    intros x y H. rewrite (ltb_def fo OL) in H. apply andb_true_iff in H as [_ H].
    now apply negb_true_iff in H.
  Qed.

  Lemma nle_le : forall x y, num fo x -> num fo y -> fleb fo x y = false -> le y x.
  Proof. intros x y Hx Hy H. destruct (leb_total fo OL x y Hx Hy) as [E|E]; congruence. Qed.

  Lemma le_nlt : forall x y, le x y -> fltb fo y x = false.
  Proof. intros x y H. rewrite (ltb_def fo OL), H. simpl. apply andb_false_r. Qed.

  Lemma nlt_le : forall x y, num fo x -> num fo y -> fltb fo x y = false -> le y x.
  Proof.
    intros x y Hx Hy H. rewrite (ltb_def fo OL) in H.
    destruct (fleb fo x y) eqn:E.
    - simpl in H. now apply negb_false_iff in H.
    - now apply nle_le.
  Qed.

  Lemma ltb_negb_leb : forall x y, num fo x -> num fo y -> fltb fo x y = negb (fleb fo y x).
  Proof.
    intros x y Hx Hy. rewrite (ltb_def fo OL).
    destruct (fleb fo y x) eqn:E; simpl.
    - apply andb_false_r.
    - rewrite (nle_le y x Hy Hx E). reflexivity.
  Qed.

  Lemma le_refl_of_le_l : forall x y, le x y -> le x x.
  Proof. intros. eapply (leb_num_l fo OL); eauto. Qed.
  Lemma le_refl_of_le_r : forall x y, le x y -> le y y.
  Proof. intros. eapply (leb_num_r fo OL); eauto. Qed.

  Lemma num_0 : num fo zero.
  Proof. eapply (leb_num_l fo OL). apply lt_le. apply (lt_0_1 fo OL). Qed.
  Lemma num_1 : num fo one.
  Proof. eapply (leb_num_r fo OL). apply lt_le. apply (lt_0_1 fo OL). Qed.

  Lemma eqb_0_le : forall x, feqb fo x zero = true -> le x zero /\ le zero x.
  Proof. intros x H. rewrite (eqb_def fo OL) in H. now apply andb_true_iff in H. Qed.

  Lemma neqb_0_lt : forall x, le zero x -> feqb fo x zero = false -> lt zero x.
  Proof.
    intros x H E. rewrite (eqb_def fo OL), H, andb_true_r in E.
    rewrite (ltb_def fo OL), H, E. reflexivity.
  Qed.

  Lemma same_refl : forall x, fsame fo x x = true.
  Proof. intro x. now apply (same_spec fo OL). Qed.

  Lemma fmin_le_r : forall x y, num fo y -> le (fmin fo x y) y.
  Proof. intros x y Hy. unfold fmin. destruct (fleb fo x y) eqn:E; auto. Qed.

  Lemma fmin_ge : forall z x y, le z x -> le z y -> le z (fmin fo x y).
  Proof. intros z x y Hx Hy. unfold fmin. destruct (fleb fo x y); auto. Qed.
End Order.

(* ---- the un-jittered sequence --------------------------------------------- *)
Section Sequence.
  Context {F : Type} (fo : fops F) (OL : order_laws fo) (GL : grow_laws fo).
  Local Notation le x y := (fleb fo x y = true).
  Local Notation lt x y := (fltb fo x y = true).
  Local Notation zero := (f0 fo).
  Local Notation one := (f1 fo).
  Variables start stop factor : F.
  Hypothesis Hvalid : valid fo start stop factor = true.

  Lemma valid_parts : le zero start /\ le start stop /\ lt zero stop /\ le one factor.
  Proof.
    unfold valid in Hvalid. repeat (apply andb_true_iff in Hvalid as [Hvalid ?]). tauto.
  Qed.

  Let H0s := proj1 valid_parts.
  Let Hss := proj1 (proj2 valid_parts).
  Let H0t := proj1 (proj2 (proj2 valid_parts)).
  Let H1f := proj2 (proj2 (proj2 valid_parts)).

  Lemma num_stop : num fo stop.
  Proof. eapply (leb_num_r fo OL); exact Hss. Qed.

  (* states reachable by the loop: 0 <= cur <= stop *)
  Definition Inv (cur : F) : Prop := le zero cur /\ le cur stop.

  Lemma Inv_start : Inv start.
  Proof. split; assumption. Qed.

  Lemma Inv_num : forall a, Inv a -> num fo a.
  Proof. intros a [H _]. eapply (leb_num_r fo OL); eauto. Qed.

  (* the product in the growth branch is a number not below cur *)
  Lemma grow_ok : forall a, lt zero a -> le a (fmul fo a factor).
  Proof. intros a H. apply (mul_grow fo GL); assumption. Qed.

  (* next value: stays in range and does not decrease *)
  Lemma ideal_next_Inv : forall a, Inv a ->
    Inv (ideal_next fo stop factor a) /\ le a (ideal_next fo stop factor a).
  Proof.
    intros a [Ha0 Has]. unfold ideal_next.
    destruct (feqb fo a zero) eqn:E.
    - apply (eqb_0_le fo OL) in E as [Ea0 _].
      assert (le zero (fmin fo one stop)).
      { apply fmin_ge. apply (lt_le fo OL), (lt_0_1 fo OL). apply (lt_le fo OL), H0t. }
      repeat split; auto.
      + apply (fmin_le_r fo), num_stop.
      + eapply (leb_trans fo OL); eauto.
    - pose proof (neqb_0_lt fo OL a Ha0 E) as Hpos.
      pose proof (grow_ok a Hpos) as Hg.
      assert (le a (fmin fo (fmul fo a factor) stop)) by (apply fmin_ge; auto).
      repeat split; auto.
      + eapply (leb_trans fo OL); eauto.
      + apply (fmin_le_r fo), num_stop.
  Qed.

  (* the three statements after the yield compute exactly the next ideal value *)
  Lemma step_ideal_next : forall a, Inv a -> step fo stop factor a = ideal_next fo stop factor a.
  Proof.
    intros a [Ha0 Has]. unfold step, ideal_next, fmin.
    pose proof num_stop as Hns.
    destruct (feqb fo a zero) eqn:E.
    - rewrite (ltb_negb_leb fo OL stop one Hns (num_1 fo OL)).
      destruct (fleb fo one stop); reflexivity.
    - pose proof (neqb_0_lt fo OL a Ha0 E) as Hpos.
      pose proof (grow_ok a Hpos) as Hg.
      assert (Hnm : num fo (fmul fo a factor)) by (eapply (leb_num_r fo OL); eauto).
      destruct (fltb fo a stop) eqn:L.
      + rewrite (ltb_negb_leb fo OL stop _ Hns Hnm).
        destruct (fleb fo (fmul fo a factor) stop); reflexivity.
      + (* a = stop *)
        assert (Hsa : le stop a).
        { apply (nlt_le fo OL); auto. eapply (leb_num_r fo OL); eauto. }
        assert (Ea : a = stop) by (apply (leb_antisym_pos fo OL); auto).
        rewrite (le_nlt fo OL a stop Has).
        destruct (fleb fo (fmul fo a factor) stop) eqn:M; [|auto].
        apply (leb_antisym_pos fo OL); auto.
        eapply (leb_trans fo OL); eauto.
  Qed.

  Lemma ideal_length : forall n a, length (ideal fo stop factor a n) = n.
  Proof. induction n; simpl; intros; auto. Qed.

  (* without jitter the loop yields the ideal sequence *)
  Lemma gen_loop_plain : forall n j a draws, Inv a ->
    gen_loop fo n false j stop factor a draws = Some (ideal fo stop factor a n).
  Proof.
    induction n as [|n IH]; intros j a draws Ha; simpl; [reflexivity|].
    rewrite (step_ideal_next a Ha), IH; [reflexivity|].
    apply ideal_next_Inv, Ha.
  Qed.

  (* every clause of the property about the un-jittered values holds of the ideal sequence *)
  Lemma ideal_S : forall n a,
    ideal fo stop factor a (S n) = a :: ideal fo stop factor (ideal_next fo stop factor a) n.
  Proof. reflexivity. Qed.
  Lemma chain_cons2 : forall a b r,
    chain_ok fo stop factor (a :: b :: r)
    = fsame fo b (ideal_next fo stop factor a) && chain_ok fo stop factor (b :: r).
  Proof. reflexivity. Qed.
  Lemma nondecr_cons2 : forall a b r,
    nondecreasing fo (a :: b :: r) = fleb fo a b && nondecreasing fo (b :: r).
  Proof. reflexivity. Qed.

  Lemma ideal_chain : forall n a, chain_ok fo stop factor (ideal fo stop factor a n) = true.
  Proof.
    induction n as [|n IH]; intros a; [reflexivity|].
    rewrite ideal_S. destruct n; [reflexivity|].
    rewrite ideal_S, chain_cons2, (same_refl fo OL), <- ideal_S. apply IH.
  Qed.

  Lemma ideal_nondecreasing : forall n a, Inv a -> nondecreasing fo (ideal fo stop factor a n) = true.
  Proof.
    induction n as [|n IH]; intros a Ha; [reflexivity|].
    rewrite ideal_S. destruct n; [reflexivity|].
    destruct (ideal_next_Inv a Ha) as [Hi Hle].
    rewrite ideal_S, nondecr_cons2, Hle, <- ideal_S. apply IH, Hi.
  Qed.

  Lemma ideal_capped : forall n a, Inv a -> capped fo stop (ideal fo stop factor a n) = true.
  Proof.
    induction n as [|n IH]; intros a Ha; simpl; [reflexivity|].
    destruct Ha as [Ha0 Has]. rewrite Has. simpl. apply IH, ideal_next_Inv. split; auto.
  Qed.

  Lemma ideal_Inv : forall n a, Inv a -> Forall Inv (ideal fo stop factor a n).
  Proof.
    induction n as [|n IH]; intros a Ha; simpl; constructor; auto.
    apply IH, ideal_next_Inv, Ha.
  Qed.

  Lemma ideal_plain_ok : forall n, plain_ok fo start stop factor (ideal fo stop factor start n) = true.
  Proof.
    intro n. unfold plain_ok.
    rewrite ideal_chain, (ideal_nondecreasing n start Inv_start), (ideal_capped n start Inv_start).
    destruct n; simpl; [reflexivity|]. rewrite (same_refl fo OL). reflexivity.
  Qed.

  (* ---- the default count --------------------------------------------------- *)
  Lemma last_is_cons2 : forall a b r, last_is fo stop (a :: b :: r) = last_is fo stop (b :: r).
  Proof.
    intros a b r. unfold last_is. simpl. destruct (rev r) as [|x l]; reflexivity.
  Qed.

  Lemma fmin_lt_l : forall u, lt u stop -> fmin fo u stop = u.
  Proof. intros u L. unfold fmin. now rewrite (lt_le fo OL u stop L). Qed.

  Lemma fmin_ge_stop : forall u, num fo u -> fltb fo u stop = false -> fmin fo u stop = stop.
  Proof.
    intros u Hu L. unfold fmin. destruct (fleb fo u stop) eqn:E; [|reflexivity].
    symmetry. apply (leb_antisym_pos fo OL); auto. apply (nlt_le fo OL); auto. apply num_stop.
  Qed.

  Lemma next_of_count_step : forall u,
    ideal_next fo stop factor u
    = fmin fo (if negb (feqb fo u zero) then fmul fo u factor else one) stop.
  Proof. intro u. unfold ideal_next. destruct (feqb fo u zero); reflexivity. Qed.

  (* the count loop returns m only if the ideal sequence of m values ends at stop;
     [u] is the loop's un-capped cur, min(u, stop) the corresponding ideal value *)
  Lemma default_count_ok : forall fuel u n m, le zero u ->
    default_count fo fuel stop factor u n = DCOk m ->
    (n <= m)%Z /\
    last_is fo stop (ideal fo stop factor (fmin fo u stop) (Z.to_nat (m - n + 1))) = true.
  Proof.
    induction fuel as [|k IH]; intros u n m Hu H; simpl in H; [discriminate|].
    assert (Hnu : num fo u) by (eapply (leb_num_r fo OL); eauto).
    destruct (fltb fo u stop) eqn:L.
    - set (nxt := if negb (feqb fo u zero) then fmul fo u factor else one) in *.
      destruct (fltb fo u nxt) eqn:G; simpl in H; [|discriminate].
      assert (Hn0 : le zero nxt).
      { eapply (leb_trans fo OL); eauto. apply (lt_le fo OL), G. }
      destruct (IH nxt (n + 1)%Z m Hn0 H) as [Hle Hlast].
      split; [lia|].
      replace (Z.to_nat (m - n + 1)) with (S (Z.to_nat (m - (n + 1) + 1))) by lia.
      rewrite ideal_S, (fmin_lt_l u L), next_of_count_step. fold nxt.
      destruct (Z.to_nat (m - (n + 1) + 1)) as [|k'] eqn:K; [lia|].
      rewrite ideal_S, last_is_cons2, <- ideal_S. exact Hlast.
    - inversion H; subst m. split; [lia|].
      replace (Z.to_nat (n - n + 1)) with 1%nat by lia.
      simpl. unfold last_is. simpl. rewrite (fmin_ge_stop u Hnu L). apply (same_refl fo OL).
  Qed.

  (* ... and it reports a stall only if the ideal sequence stalls below stop *)
  Lemma default_count_stall : forall fuel u n, le zero u ->
    default_count fo fuel stop factor u n = DCStall ->
    stalls fo stop factor (fmin fo u stop) fuel = true.
  Proof.
    induction fuel as [|k IH]; intros u n Hu H; simpl in H; [discriminate|].
    destruct (fltb fo u stop) eqn:L; [|discriminate].
    set (nxt := if negb (feqb fo u zero) then fmul fo u factor else one) in *.
    assert (Hnn : num fo nxt).
    { unfold nxt. destruct (feqb fo u zero) eqn:E; simpl.
      - apply (num_1 fo OL).
      - eapply (leb_num_r fo OL). apply grow_ok. apply (neqb_0_lt fo OL); auto. }
    assert (Hnu : num fo u) by (eapply (leb_num_r fo OL); eauto).
    simpl. rewrite (fmin_lt_l u L), L, next_of_count_step. fold nxt. simpl.
    destruct (fltb fo u nxt) eqn:G; simpl in H.
    - assert (Hn0 : le zero nxt).
      { eapply (leb_trans fo OL); eauto. apply (lt_le fo OL), G. }
      rewrite (IH nxt (n + 1)%Z Hn0 H). apply orb_true_r.
    - (* nxt <= u < stop: the capped successor is nxt itself, not above u *)
      assert (Hle : le nxt u) by (apply (nlt_le fo OL); auto).
      assert (Hlt : lt nxt stop).
      { rewrite (ltb_def fo OL).
        assert (le nxt stop) by (eapply (leb_trans fo OL); eauto; apply (lt_le fo OL), L).
        rewrite H0. simpl. apply negb_true_iff.
        destruct (fleb fo stop nxt) eqn:E; [|reflexivity].
        assert (le stop u) by (eapply (leb_trans fo OL); eauto).
        rewrite (lt_nle fo OL u stop L) in H1. discriminate. }
      rewrite (fmin_lt_l nxt Hlt), G. reflexivity.
  Qed.
End Sequence.

(* ---- jitter ------------------------------------------------------------------ *)
Section Jitter.
  Context {F : Type} (fo : fops F) (OL : order_laws fo) (GL : grow_laws fo) (JL : jitter_laws fo).
  Local Notation le x y := (fleb fo x y = true).
  Local Notation lt x y := (fltb fo x y = true).
  Local Notation zero := (f0 fo).
  Local Notation one := (f1 fo).
  Variables start stop factor j : F.
  Hypothesis Hvalid : valid fo start stop factor = true.
  Hypothesis Hjv : jitter_valid fo j = true.
  Hypothesis Hon : jitter_off fo j = false.

  (* a value random.random() may return *)
  Definition unit_draw (r : F) : Prop := le zero r /\ le r one.

  Lemma j_range : le (fm1 fo) j /\ le j one.
  Proof.
    unfold jitter_valid in Hjv. rewrite Hon in Hjv. simpl in Hjv.
    now apply andb_true_iff in Hjv.
  Qed.

  Lemma emit_between : forall b r, Inv fo stop b -> fin fo b -> unit_draw r ->
    between fo b (jitter_bound fo j b) (emit fo true j b r) = true.
  Proof.
    intros b r [Hb0 Hbs] Hfb [Hr0 Hr1]. destruct j_range as [Hjm Hj1].
    assert (Hnj : num fo j) by (eapply (leb_num_l fo OL); eauto).
    assert (Hz : feqb fo zero zero = true).
    { rewrite (eqb_def fo OL). now rewrite (num_0 fo OL). }
    destruct (sub_zero_le fo JL b zero Hfb Hz) as [Hsz1 Hsz2].
    unfold between, jitter_bound, emit.
    destruct (leb_total fo OL zero j (num_0 fo OL) Hnj) as [Hj0|Hj0].
    - (* 0 <= j <= 1 : bound <= v <= b *)
      destruct (mul_j_nonneg fo JL b j Hfb Hb0 Hj0 Hj1) as [Hfy Hy0].
      destruct (mul_r_nonneg fo JL _ r Hfy Hy0 Hr0 Hr1) as [Hyr0 Hyr].
      assert (Hfyr : fin fo (fmul fo (fmul fo b j) r)).
      { eapply (fin_between fo JL); [exact Hyr0|exact Hyr|apply (fin_0 fo JL)|exact Hfy]. }
      assert (A : le (fsub fo b (fmul fo b j)) (fsub fo b (fmul fo (fmul fo b j) r))).
      { apply (sub_antitone fo JL); auto. }
      assert (B : le (fsub fo b (fmul fo (fmul fo b j) r)) b).
      { eapply (leb_trans fo OL); [|exact Hsz1].
        apply (sub_antitone fo JL); auto. apply (fin_0 fo JL). }
      rewrite A, B. simpl. apply orb_true_r.
    - (* -1 <= j <= 0 : b <= v <= bound *)
      destruct (mul_j_nonpos fo JL b j Hfb Hb0 Hjm Hj0) as [Hfy Hy0].
      destruct (mul_r_nonpos fo JL _ r Hfy Hy0 Hr0 Hr1) as [Hyr Hyr0].
      assert (Hfyr : fin fo (fmul fo (fmul fo b j) r)).
      { eapply (fin_between fo JL); [exact Hyr|exact Hyr0|exact Hfy|apply (fin_0 fo JL)]. }
      assert (A : le (fsub fo b (fmul fo (fmul fo b j) r)) (fsub fo b (fmul fo b j))).
      { apply (sub_antitone fo JL); auto. }
      assert (B : le b (fsub fo b (fmul fo (fmul fo b j) r))).
      { eapply (leb_trans fo OL); [exact Hsz2|].
        apply (sub_antitone fo JL); auto. apply (fin_0 fo JL). }
      rewrite A, B. reflexivity.
  Qed.

  (* with jitter the loop yields, position by position, a value within the bound
     of the ideal sequence; it stops early only for lack of draws *)
  Lemma gen_loop_jitter : forall n a draws vs, Inv fo stop a -> Forall unit_draw draws ->
    gen_loop fo n true j stop factor a draws = Some vs ->
    length vs = n /\ jitter_ok fo j (ideal fo stop factor a n) vs = true.
  Proof.
    induction n as [|n IH]; intros a draws vs Ha Hd H; simpl in H.
    - inversion H; subst. split; reflexivity.
    - destruct draws as [|r ds]; [discriminate|].
      inversion Hd as [|? ? Hr Hds]; subst.
      destruct (gen_loop fo n true j stop factor (step fo stop factor a) ds) as [ws|] eqn:G;
        simpl in H; [|discriminate].
      inversion H; subst vs.
      rewrite (step_ideal_next fo OL GL start stop factor Hvalid a Ha) in G.
      destruct (IH _ ds ws (proj1 (ideal_next_Inv fo OL GL start stop factor Hvalid a Ha)) Hds G)
        as [Hlen Hok].
      split; [simpl; congruence|].
      simpl. rewrite Hok, andb_true_r.
      destruct (ffin fo a) eqn:Fa; [|reflexivity]. simpl.
      apply emit_between; auto.
  Qed.
End Jitter.

(* ---- validation and the main refinement theorem ---------------------------------- *)
Section Refinement.
  Context {F : Type} (fo : fops F) (OL : order_laws fo) (GL : grow_laws fo) (JL : jitter_laws fo).
  Local Notation le x y := (fleb fo x y = true).
  Local Notation lt x y := (fltb fo x y = true).
  Local Notation zero := (f0 fo).
  Local Notation one := (f1 fo).

  (* the four tests of the code accept exactly the valid parameters *)
  Lemma valid_model_checks : forall start stop factor,
    valid fo start stop factor
    = fleb fo zero start && fleb fo one factor && negb (feqb fo stop zero) && fleb fo start stop.
  Proof.
    intros start stop factor. unfold valid.
    destruct (fleb fo zero start) eqn:A; [|reflexivity].
    destruct (fleb fo start stop) eqn:D; [|simpl; now rewrite !andb_false_r].
    assert (Hs : le zero stop) by (eapply (leb_trans fo OL); eauto).
    rewrite (ltb_def fo OL), (eqb_def fo OL), Hs. simpl. rewrite andb_true_r.
    destruct (fleb fo one factor), (fleb fo stop zero); reflexivity.
  Qed.

  Definition count_neg (n : cnt) : bool := match n with NFin z => Z.ltb z 0 | NInf => false end.

  Definition after_count (j : F) (n : cnt) : pre :=
    if count_neg n then PreRaise ValueError
    else if jitter_valid fo j then PreOk n (negb (jitter_off fo j)) else PreRaise ValueError.

  Lemma prepare_invalid : forall fuel start stop factor c j,
    valid fo start stop factor = false -> prepare fo fuel start stop factor c j = PreRaise ValueError.
  Proof.
    intros fuel start stop factor c j H. rewrite valid_model_checks in H. unfold prepare.
    destruct (fleb fo zero start); [|reflexivity].
    destruct (fleb fo one factor); [|reflexivity].
    destruct (feqb fo stop zero); [reflexivity|].
    destruct (fleb fo start stop); [discriminate|reflexivity].
  Qed.

  Lemma prepare_valid : forall fuel start stop factor c j,
    valid fo start stop factor = true ->
    prepare fo fuel start stop factor c j =
      match c with
      | CNone => match default_count fo fuel stop factor start 1 with
                 | DCOk n => after_count j (NFin n)
                 | DCStall => PreRaise ValueError
                 | DCFuel => PreFuel
                 end
      | CNum z => after_count j (NFin z)
      | CRepeat => after_count j NInf
      end.
  Proof.
    intros fuel start stop factor c j H. rewrite valid_model_checks in H. unfold prepare.
    destruct (fleb fo zero start); [|discriminate].
    destruct (fleb fo one factor); [|discriminate].
    destruct (feqb fo stop zero); [discriminate|].
    destruct (fleb fo start stop); [|discriminate]. cbv zeta. simpl negb. cbv iota.
    assert (E : forall n,
      (if match n with NFin z => (z <? 0)%Z | NInf => false end then PreRaise ValueError
       else if negb (feqb fo j zero)
            then if negb (fleb fo (fm1 fo) j && fleb fo j one) then PreRaise ValueError else PreOk n true
            else PreOk n false) = after_count j n).
    { intro n. unfold after_count, count_neg, jitter_valid, jitter_off.
      destruct (match n with NFin z => (z <? 0)%Z | NInf => false end); [reflexivity|].
      destruct (feqb fo j zero); simpl; [reflexivity|].
      destruct (fleb fo (fm1 fo) j && fleb fo j one); reflexivity. }
    destruct c; [destruct (default_count fo fuel stop factor start 1)|..]; try reflexivity;
      first [exact (E (NFin _)) | exact (E NInf)].
  Qed.

  Definition draws_ok (draws : list F) : Prop := Forall (unit_draw fo) draws.

  (* must_raise without its validity and api parts *)
  Definition mr0 (c : count) (j : F) : bool :=
    negb (jitter_valid fo j) || (match c with CNum z => Z.ltb z 0 | _ => false end).

  Lemma prepare_cases : forall fuel start stop factor c j,
    valid fo start stop factor = true ->
    match prepare fo fuel start stop factor c j with
    | PreRaise e => e = ValueError /\
        (mr0 c j = true \/ (c = CNone /\ stalls fo stop factor start fuel = true))
    | PreFuel => True
    | PreOk n jit =>
        mr0 c j = false /\ jit = negb (jitter_off fo j) /\ jitter_valid fo j = true /\
        match c with
        | CNum z => n = NFin z /\ (0 <= z)%Z
        | CRepeat => n = NInf
        | CNone => exists m, n = NFin m /\ (1 <= m)%Z /\
                     last_is fo stop (ideal fo stop factor start (Z.to_nat m)) = true
        end
    end.
  Proof.
    intros fuel start stop factor c j V. rewrite (prepare_valid fuel _ _ _ c j V).
    destruct (valid_parts fo start stop factor V) as (H0s & Hss & H0t & H1f).
    assert (Hfm : fmin fo start stop = start) by (unfold fmin; now rewrite Hss).
    unfold mr0, after_count, count_neg.
    destruct c as [|z|].
    - destruct (default_count fo fuel stop factor start 1) as [m| |] eqn:D; [| |exact I].
      + destruct (default_count_ok fo OL start stop factor V fuel start 1%Z m H0s D) as [Hm Hl].
        rewrite Hfm in Hl. replace (m - 1 + 1)%Z with m in Hl by lia.
        destruct (Z.ltb_spec m 0); [lia|].
        destruct (jitter_valid fo j); simpl.
        * repeat split; auto. exists m. auto.
        * split; auto.
      + split; [reflexivity|]. right. split; [reflexivity|].
        rewrite <- Hfm. eapply (default_count_stall fo OL GL start stop factor V); eauto.
    - destruct (Z.ltb_spec z 0).
      + split; [reflexivity|]. left. apply orb_true_r.
      + destruct (jitter_valid fo j); simpl.
        * repeat split; auto.
        * split; auto.
    - destruct (jitter_valid fo j); simpl.
      + repeat split; auto.
      + split; auto.
  Qed.

  (* what a validated run of n turns yields *)
  Lemma produce_values : forall n e jit p draws,
    valid fo (p_start p) (p_stop p) (p_factor p) = true ->
    jitter_valid fo (p_jitter p) = true -> jit = negb (jitter_off fo (p_jitter p)) ->
    draws_ok draws ->
    let o := produce fo n e jit p draws in
    o_end o = EFuel \/
    (o_end o = e /\ length (o_vals o) = n /\ values_ok fo p (o_vals o) = true /\
     (if jitter_off fo (p_jitter p) then o_vals o
      else ideal fo (p_stop p) (p_factor p) (p_start p) (length (o_vals o)))
     = ideal fo (p_stop p) (p_factor p) (p_start p) n).
  Proof.
    intros n e jit p draws V Hjv Hjit Hd. unfold produce, values_ok.
    pose proof (Inv_start fo _ _ _ V) as Hi.
    destruct (jitter_off fo (p_jitter p)) eqn:Off; simpl in Hjit; subst jit.
    - rewrite (gen_loop_plain fo OL GL _ _ _ V n (p_jitter p) (p_start p) draws Hi). simpl.
      right. repeat split; auto.
      + apply ideal_length.
      + apply (ideal_plain_ok fo OL GL _ _ _ V).
    - destruct (gen_loop fo n true (p_jitter p) (p_stop p) (p_factor p) (p_start p) draws) as [vs|] eqn:G.
      + destruct (gen_loop_jitter fo OL GL JL _ _ _ _ V Hjv Off n (p_start p) draws vs Hi Hd G)
          as [Hlen Hok].
        simpl. right. rewrite Hlen. repeat split; auto.
      + left. reflexivity.
  Qed.

  Lemma values_ok_nil : forall p, values_ok fo p [] = true.
  Proof. intro p. unfold values_ok. destruct (jitter_off fo (p_jitter p)); reflexivity. Qed.

  Lemma must_raise_valid : forall a start stop c factor j take,
    valid fo start stop factor = true ->
    must_raise fo (mkP a start stop c factor j take)
    = mr0 c j || (match a, c with ApiList, CRepeat => true | _, _ => false end).
  Proof. intros. unfold must_raise, mr0. simpl. rewrite H. reflexivity. Qed.

  Lemma must_raise_invalid : forall a start stop c factor j take,
    valid fo start stop factor = false ->
    must_raise fo (mkP a start stop c factor j take) = true.
  Proof. intros. unfold must_raise. simpl. rewrite H. reflexivity. Qed.

  Ltac fuel_contra H := exfalso; apply H; reflexivity.

  (* MAIN THEOREM.  Whatever the parameters, the draws in [0,1] and the fuel: unless
     the model ran out of fuel/draws, the model's observation satisfies the Spec
     predicate that the check evaluates on the implementation's observation, or
     the call lies inside the recorded finding (default count on a stalling
     sequence). *)
  Theorem run_refines_spec : forall p fuel draws, draws_ok draws ->
    o_end (run fo p fuel draws) <> EFuel ->
    spec_holds fo p (run fo p fuel draws) = true \/ spec_known fo p fuel = true.
  Proof.
    intros [a start stop c factor j take] fuel draws Hd Hfuel.
    unfold spec_holds, spec_known. unfold run in *.
    cbn [p_api p_start p_stop p_count p_factor p_jitter p_take] in *.
    set (p := mkP a start stop c factor j take) in *.
    destruct (valid fo start stop factor) eqn:V.
    2:{ (* invalid parameters *)
      left. pose proof (must_raise_invalid a start stop c factor j take V) as MR. fold p in MR. rewrite MR.
      rewrite (prepare_invalid fuel start stop factor c j V) in *.
      destruct a; [destruct c; reflexivity|]. destruct take; reflexivity. }
    pose proof (must_raise_valid a start stop c factor j take V) as MR. fold p in MR. rewrite MR. clear MR.
    pose proof (prepare_cases fuel start stop factor c j V) as PC.
    pose proof (fun n e jit => produce_values n e jit p draws V) as PV.
    cbn [p_api p_start p_stop p_count p_factor p_jitter p_take] in PV.
    assert (TakeCase : forall (X : Type) (x y : X) t, match t with O => x | S _ => y end = match t with O => x | _ => y end)
      by (intros; destruct t; reflexivity).
    destruct a.
    - (* backoff *)
      destruct c as [|z|].
      + (* default count *)
        destruct (prepare fo fuel start stop factor CNone j) as [e| |[|m] jit] eqn:P.
        * destruct PC as [-> [M|[_ St]]].
          { left. rewrite M. reflexivity. }
          destruct (mr0 CNone j) eqn:M; [left; reflexivity|]. simpl orb. cbv iota.
          unfold ending_ok. cbn [o_vals o_end p_count p_factor p]. rewrite (values_ok_nil p).
          destruct (fltb fo one factor) eqn:L; [right|left]; simpl; auto.
        * fuel_contra Hfuel.
        * destruct PC as (_ & _ & _ & m & E & _). discriminate.
        * destruct PC as (M & Hjit & Hjv & m' & E & Hm & Hl). inversion E; subst m'.
          destruct (PV (Z.to_nat m) EStop jit Hjv Hjit Hd) as [Ef|(He & Hlen & Hv & Hb)];
            [contradiction|].
          left. rewrite M. simpl orb. cbv iota. rewrite Hv. unfold ending_ok.
          cbn [p_count p_api p_stop p_factor p_start p_jitter p]. rewrite He.
          cbn [p_count p_api p_stop p_factor p_start p_jitter p] in Hb. rewrite Hb, Hl. reflexivity.
      + (* count = z *)
        destruct (prepare fo fuel start stop factor (CNum z) j) as [e| |[|m] jit] eqn:P.
        * destruct PC as [-> [M|[E _]]]; [|discriminate]. left. rewrite M. reflexivity.
        * fuel_contra Hfuel.
        * destruct PC as (_ & _ & _ & E & _). discriminate.
        * destruct PC as (M & Hjit & Hjv & E & Hz). inversion E; subst m.
          destruct (PV (Z.to_nat z) EStop jit Hjv Hjit Hd) as [Ef|(He & Hlen & Hv & Hb)];
            [contradiction|].
          left. rewrite M. simpl orb. cbv iota. rewrite Hv. unfold ending_ok, len_is.
          cbn [p_count p_api p]. rewrite He, Hlen, Z2Nat.id, Z.eqb_refl by lia. reflexivity.
      + (* 'repeat' is refused by backoff *)
        left. rewrite orb_true_r. reflexivity.
    - (* backoff_iter, take values pulled *)
      destruct take as [|t]; [left; reflexivity|].
      set (take := S t) in *.
      replace (mr0 c j || match c with CNone | _ => false end) with (mr0 c j) by (destruct c; now rewrite orb_false_r).
      destruct (prepare fo fuel start stop factor c j) as [e| |n jit] eqn:P.
      + destruct PC as [-> [M|[-> St]]].
        { left. rewrite M. reflexivity. }
        destruct (mr0 CNone j) eqn:M; [left; reflexivity|].
        unfold ending_ok. cbn [o_vals o_end p_count p_factor p]. rewrite (values_ok_nil p).
        destruct (fltb fo one factor) eqn:L; [right|left]; simpl; auto.
      + fuel_contra Hfuel.
      + destruct PC as (M & Hjit & Hjv & PC). rewrite M.
        destruct c as [|z|].
        * destruct PC as (m & -> & Hm & Hl).
          destruct (Z.leb_spec (Z.of_nat take) m).
          { destruct (PV take EMore jit Hjv Hjit Hd) as [Ef|(He & Hlen & Hv & Hb)]; [contradiction|].
            left. rewrite Hv. unfold ending_ok, len_is. cbn [p_count p_api p_take p].
            rewrite He, Hlen, Z.eqb_refl. reflexivity. }
          { destruct (PV (Z.to_nat m) EStop jit Hjv Hjit Hd) as [Ef|(He & Hlen & Hv & Hb)]; [contradiction|].
            left. rewrite Hv. unfold ending_ok. cbn [p_count p_api p_take p_stop p_factor p_start p_jitter p].
            cbn [p_count p_api p_stop p_factor p_start p_jitter p] in Hb.
            rewrite He, Hb, Hl, Hlen. replace (Nat.leb (Z.to_nat m) take) with true; [reflexivity|].
            symmetry. apply Nat.leb_le. lia. }
        * destruct PC as (-> & Hz).
          destruct (Z.leb_spec (Z.of_nat take) z) as [Hle|Hlt].
          { destruct (PV take EMore jit Hjv Hjit Hd) as [Ef|(He & Hlen & Hv & Hb)]; [contradiction|].
            left. rewrite Hv. unfold ending_ok, len_is. cbn [p_count p_api p_take p].
            apply Z.leb_le in Hle. rewrite Hle, He, Hlen, Z.eqb_refl. reflexivity. }
          { destruct (PV (Z.to_nat z) EStop jit Hjv Hjit Hd) as [Ef|(He & Hlen & Hv & Hb)]; [contradiction|].
            left. rewrite Hv. unfold ending_ok, len_is. cbn [p_count p_api p_take p].
            apply Z.leb_gt in Hlt. rewrite Hlt, He, Hlen, Z2Nat.id, Z.eqb_refl by lia. reflexivity. }
        * subst n.
          destruct (PV take EMore jit Hjv Hjit Hd) as [Ef|(He & Hlen & Hv & Hb)]; [contradiction|].
          left. rewrite Hv. unfold ending_ok, len_is. cbn [p_count p_api p_take p].
          rewrite He, Hlen, Z.eqb_refl. reflexivity.
  Qed.
End Refinement.

(* ---- the clauses of the property, read off the main theorem ------------------------ *)
Section Clauses.
  Context {F : Type} (fo : fops F) (OL : order_laws fo) (GL : grow_laws fo) (JL : jitter_laws fo).
  Local Notation zero := (f0 fo).
  Local Notation one := (f1 fo).

  (* parameters outside the valid ranges: ValueError before anything is yielded *)
  Theorem invalid_raises : forall p fuel draws, draws_ok fo draws ->
    must_raise fo p = true -> (p_api p = ApiList \/ p_take p <> O) ->
    o_end (run fo p fuel draws) <> EFuel ->
    run fo p fuel draws = mkObs [] (ERaise ValueError).
  Proof.
    intros p fuel draws Hd M Hap Hf.
    destruct (run_refines_spec fo OL GL JL p fuel draws Hd Hf) as [H|H].
    - unfold spec_holds in H. rewrite M in H.
      assert (R : raises_value_error (run fo p fuel draws) = true).
      { destruct (p_api p); [assumption|]. destruct (p_take p); [|assumption].
        destruct Hap; [discriminate|congruence]. }
      unfold raises_value_error in R.
      destruct (run fo p fuel draws) as [vs e]. simpl in R.
      destruct vs; [|discriminate]. destruct e as [| |x|]; try discriminate.
      destruct x; try discriminate. reflexivity.
    - unfold spec_known in H. rewrite M in H. discriminate.
  Qed.

  (* valid parameters and an integer count >= 0: backoff returns exactly count values,
     which satisfy every clause on the values *)
  Theorem count_exact : forall start stop z factor j take fuel draws,
    let p := mkP ApiList start stop (CNum z) factor j take in
    draws_ok fo draws -> must_raise fo p = false ->
    let o := run fo p fuel draws in
    o_end o <> EFuel ->
    o_end o = EStop /\ Z.of_nat (length (o_vals o)) = z /\ values_ok fo p (o_vals o) = true.
  Proof.
    intros start stop z factor j take fuel draws p Hd M o Hf.
    destruct (run_refines_spec fo OL GL JL p fuel draws Hd Hf) as [H|H].
    - unfold spec_holds in H. rewrite M in H. cbn [p_api p] in H.
      apply andb_true_iff in H as [Hv He]. unfold ending_ok, len_is in He. cbn [p_count p_api p] in He.
      apply andb_true_iff in He as [Hl He]. fold o in Hl, He, Hv.
      apply Z.eqb_eq in Hl. destruct (o_end o); try discriminate. auto.
    - unfold spec_known in H. cbn [p_count p] in H. rewrite andb_false_r in H. discriminate.
  Qed.

  (* 'repeat': backoff_iter never ends: any number of values can be pulled *)
  Theorem repeat_endless : forall start stop factor j take fuel draws,
    let p := mkP ApiIter start stop CRepeat factor j take in
    draws_ok fo draws -> must_raise fo p = false ->
    let o := run fo p fuel draws in
    o_end o <> EFuel ->
    o_end o = EMore /\ length (o_vals o) = take /\ values_ok fo p (o_vals o) = true.
  Proof.
    intros start stop factor j take fuel draws p Hd M o Hf.
    destruct (run_refines_spec fo OL GL JL p fuel draws Hd Hf) as [H|H].
    - unfold spec_holds in H. cbn [p_api p_take p] in H. fold o in H.
      destruct take as [|t].
      + destruct (o_vals o) eqn:Ev; [|discriminate]. destruct (o_end o); try discriminate.
        repeat split. unfold values_ok. destruct (jitter_off fo (p_jitter p)); reflexivity.
      + rewrite M in H. apply andb_true_iff in H as [Hv He].
        unfold ending_ok, len_is in He. cbn [p_count p_take p] in He. fold o in He.
        apply andb_true_iff in He as [Hl He]. apply Z.eqb_eq in Hl.
        destruct (o_end o); try discriminate. repeat split; auto. lia.
    - unfold spec_known in H. cbn [p_count p] in H. rewrite andb_false_r in H. discriminate.
  Qed.

  (* default count, factor > 1, sequence not stalling: backoff does not raise and the last
     (un-jittered) value is stop *)
  Theorem default_count_last_is_stop : forall start stop factor j take fuel draws,
    let p := mkP ApiList start stop CNone factor j take in
    draws_ok fo draws -> must_raise fo p = false -> fltb fo one factor = true ->
    stalls fo stop factor start fuel = false ->
    let o := run fo p fuel draws in
    o_end o <> EFuel ->
    o_end o = EStop /\ values_ok fo p (o_vals o) = true /\
    last_is fo stop (if jitter_off fo j then o_vals o
                     else ideal fo stop factor start (length (o_vals o))) = true.
  Proof.
    intros start stop factor j take fuel draws p Hd M Lf St o Hf.
    destruct (run_refines_spec fo OL GL JL p fuel draws Hd Hf) as [H|H].
    - unfold spec_holds in H. rewrite M in H. cbn [p_api p] in H.
      apply andb_true_iff in H as [Hv He]. unfold ending_ok in He.
      cbn [p_count p_api p_stop p_factor p_start p_jitter p] in He. fold o in He, Hv.
      destruct (o_end o) eqn:E; try discriminate.
      + auto.
      + rewrite Lf in He. discriminate.
    - unfold spec_known in H. cbn [p_count p_stop p_factor p_start p] in H.
      rewrite St, andb_false_r in H. discriminate.
  Qed.

  (* ... and through backoff_iter: pulling it to exhaustion ends on stop *)
  Theorem default_count_iter_last_is_stop : forall start stop factor j take fuel draws,
    let p := mkP ApiIter start stop CNone factor j take in
    draws_ok fo draws -> must_raise fo p = false -> fltb fo one factor = true ->
    stalls fo stop factor start fuel = false -> take <> O ->
    let o := run fo p fuel draws in
    o_end o <> EFuel ->
    values_ok fo p (o_vals o) = true /\
    ((o_end o = EMore /\ length (o_vals o) = take) \/
     (o_end o = EStop /\
      last_is fo stop (if jitter_off fo j then o_vals o
                       else ideal fo stop factor start (length (o_vals o))) = true)).
  Proof.
    intros start stop factor j take fuel draws p Hd M Lf St Ht o Hf.
    destruct (run_refines_spec fo OL GL JL p fuel draws Hd Hf) as [H|H].
    - unfold spec_holds in H. cbn [p_api p_take p] in H. destruct take as [|t]; [congruence|].
      rewrite M in H. apply andb_true_iff in H as [Hv He]. unfold ending_ok, len_is in He.
      cbn [p_count p_api p_stop p_factor p_start p_jitter p_take p] in He. fold o in He, Hv.
      split; [assumption|].
      destruct (o_end o) eqn:E; try discriminate.
      + right. apply andb_true_iff in He as [_ He]. auto.
      + left. apply Z.eqb_eq in He. split; [reflexivity|lia].
      + rewrite Lf in He. discriminate.
    - unfold spec_known in H. cbn [p_count p_stop p_factor p_start p] in H.
      rewrite St, andb_false_r in H. discriminate.
  Qed.
End Clauses.

(* ---- the full default-count statement fails in binary64 ------------------------------- *)
From Coq Require Import Floats.
Lemma default_count_refuted :
  exists start stop factor,
    valid prim_ops start stop factor = true /\ PrimFloat.ltb 1%float factor = true /\
    forall fuel, run prim_ops (mkP ApiList start stop CNone factor 0%float 0%nat) (S fuel) []
                 = mkObs [] (ERaise ValueError).
Proof.
  exists 0x0.0000000000001p-1022%float, 1%float, 0x1.199999999999ap+0%float.
  split; [vm_compute; reflexivity|]. split; [vm_compute; reflexivity|].
  intro fuel. vm_compute. reflexivity.
Qed.

(* ---- when the count loop finishes, a run without jitter does not run out of fuel --------- *)
Section Totality.
  Context {F : Type} (fo : fops F) (OL : order_laws fo) (GL : grow_laws fo).

  Lemma must_raise_false_parts : forall p, must_raise fo p = false ->
    valid fo (p_start p) (p_stop p) (p_factor p) = true /\ jitter_valid fo (p_jitter p) = true.
  Proof.
    intros p H. unfold must_raise in H.
    repeat (apply orb_false_iff in H as [H ?]).
    apply negb_false_iff in H, H2. auto.
  Qed.

  Lemma run_list_default_not_fuel : forall start stop factor j take fuel draws,
    valid fo start stop factor = true -> jitter_off fo j = true ->
    default_count fo fuel stop factor start 1 <> DCFuel ->
    o_end (run fo (mkP ApiList start stop CNone factor j take) fuel draws) <> EFuel.
  Proof.
    intros start stop factor j take fuel draws V Off D.
    unfold run. cbn [p_api p_start p_stop p_count p_factor p_jitter p_take].
    rewrite (prepare_valid fo OL fuel start stop factor CNone j V).
    destruct (default_count fo fuel stop factor start 1) as [m| |]; [| |congruence].
    - unfold after_count. destruct (count_neg (NFin m)); [discriminate|].
      unfold jitter_valid. rewrite Off. simpl orb. cbv iota. simpl negb.
      unfold produce. cbn [p_start p_stop p_factor p_jitter].
      rewrite (gen_loop_plain fo OL GL start stop factor V (Z.to_nat m) j start draws
                 (Inv_start fo start stop factor V)).
      discriminate.
    - discriminate.
  Qed.
End Totality.

(* ---- the same with jitter, given enough draws ------------------------------------------------- *)
Section TotalityJitter.
  Context {F : Type} (fo : fops F) (OL : order_laws fo) (GL : grow_laws fo).

  Lemma gen_loop_enough : forall n jit j stop factor a draws, (n <= length draws)%nat ->
    gen_loop fo n jit j stop factor a draws <> None.
  Proof.
    induction n as [|n IH]; intros jit j stop factor a draws H; simpl; [discriminate|].
    destruct jit.
    - destruct draws as [|r ds]; [simpl in H; lia|].
      simpl in H. specialize (IH true j stop factor (step fo stop factor a) ds).
      destruct (gen_loop fo n true j stop factor (step fo stop factor a) ds); [discriminate|].
      exfalso. apply IH; [lia|reflexivity].
    - assert (n <= length draws)%nat by lia.
      specialize (IH false j stop factor (step fo stop factor a) draws H0).
      destruct (gen_loop fo n false j stop factor (step fo stop factor a) draws); [discriminate|].
      exfalso. now apply IH.
  Qed.

  (* number of values the default count asks for (0 when the loop does not return a count) *)
  Definition default_len (fuel : nat) (start stop factor : F) : nat :=
    match default_count fo fuel stop factor start 1 with DCOk m => Z.to_nat m | _ => O end.

  Lemma run_list_default_not_fuel_draws : forall start stop factor j take fuel draws,
    valid fo start stop factor = true ->
    default_count fo fuel stop factor start 1 <> DCFuel ->
    (default_len fuel start stop factor <= length draws)%nat ->
    o_end (run fo (mkP ApiList start stop CNone factor j take) fuel draws) <> EFuel.
  Proof.
    intros start stop factor j take fuel draws V D L.
    unfold run. cbn [p_api p_start p_stop p_count p_factor p_jitter p_take].
    rewrite (prepare_valid fo OL fuel start stop factor CNone j V).
    unfold default_len in L.
    destruct (default_count fo fuel stop factor start 1) as [m| |]; [| |congruence].
    - unfold after_count. destruct (count_neg (NFin m)); [discriminate|].
      destruct (jitter_valid fo j); [|discriminate].
      unfold produce. cbn [p_start p_stop p_factor p_jitter].
      pose proof (gen_loop_enough (Z.to_nat m) (negb (jitter_off fo j)) j stop factor start draws L) as G.
      destruct (gen_loop fo (Z.to_nat m) (negb (jitter_off fo j)) j stop factor start draws);
        [discriminate|congruence].
    - discriminate.
  Qed.
End TotalityJitter.

(* ---- the same through backoff_iter ------------------------------------------------------------ *)
Section TotalityIter.
  Context {F : Type} (fo : fops F) (OL : order_laws fo) (GL : grow_laws fo).

  Lemma run_iter_default_not_fuel_draws : forall start stop factor j take fuel draws,
    valid fo start stop factor = true ->
    default_count fo fuel stop factor start 1 <> DCFuel ->
    (default_len fo fuel start stop factor <= length draws)%nat -> (take <= length draws)%nat ->
    o_end (run fo (mkP ApiIter start stop CNone factor j take) fuel draws) <> EFuel.
  Proof.
    intros start stop factor j take fuel draws V D L T.
    unfold run. cbn [p_api p_start p_stop p_count p_factor p_jitter p_take].
    destruct take as [|t]; [discriminate|].
    rewrite (prepare_valid fo OL fuel start stop factor CNone j V).
    unfold default_len in L.
    destruct (default_count fo fuel stop factor start 1) as [m| |]; [| |congruence].
    - unfold after_count. destruct (count_neg (NFin m)); [discriminate|].
      destruct (jitter_valid fo j); [|discriminate].
      destruct (Z.leb (Z.of_nat (S t)) m); unfold produce; cbn [p_start p_stop p_factor p_jitter].
      + pose proof (gen_loop_enough fo (S t) (negb (jitter_off fo j)) j stop factor start draws T) as G.
        destruct (gen_loop fo (S t) (negb (jitter_off fo j)) j stop factor start draws);
          [discriminate|congruence].
      + pose proof (gen_loop_enough fo (Z.to_nat m) (negb (jitter_off fo j)) j stop factor start draws L) as G.
        destruct (gen_loop fo (Z.to_nat m) (negb (jitter_off fo j)) j stop factor start draws);
          [discriminate|congruence].
    - discriminate.
  Qed.
End TotalityIter.


(* ---- inside the guard of the open finding the code fails closed: ValueError, nothing yielded ---- *)
Section KnownMeansValueError.
  Context {F : Type} (fo : fops F) (OL : order_laws fo).
  Local Notation le x y := (fleb fo x y = true).
  Local Notation lt x y := (fltb fo x y = true).
  Local Notation zero := (f0 fo).
  Variables start stop factor : F.
  Hypothesis Hvalid : valid fo start stop factor = true.

  Lemma stall_detected : forall fuel u n, le zero u ->
    stalls fo stop factor (fmin fo u stop) fuel = true ->
    default_count fo fuel stop factor u n = DCStall.
  Proof.
    pose proof (num_stop fo OL start stop factor Hvalid) as Hns.
    induction fuel as [|k IH]; intros u n Hu H; [discriminate|].
    cbn [stalls] in H. apply andb_true_iff in H as [La H].
    assert (L : lt u stop).
    { unfold fmin in La. destruct (fleb fo u stop) eqn:E; [exact La|].
      rewrite (le_nlt fo OL stop stop Hns) in La. discriminate. }
    rewrite (fmin_lt_l fo OL stop u L) in H.
    rewrite (next_of_count_step fo stop factor u) in H.
    cbn [default_count]. rewrite L.
    set (nxt := if negb (feqb fo u zero) then fmul fo u factor else f1 fo) in *.
    destruct (fltb fo u nxt) eqn:G; simpl negb; cbv iota; [|reflexivity].
    assert (G' : lt u (fmin fo nxt stop)) by (unfold fmin; destruct (fleb fo nxt stop); assumption).
    rewrite G' in H. simpl in H.
    apply IH; auto.
    eapply (leb_trans fo OL); eauto. apply (lt_le fo OL), G.
  Qed.

  Theorem known_raises_value_error : forall api c j take fuel draws,
    let p := mkP api start stop c factor j take in
    spec_known fo p fuel = true -> (api = ApiList \/ take <> O) ->
    run fo p fuel draws = mkObs [] (ERaise ValueError).
  Proof.
    intros api c j take fuel draws p K Hap. unfold spec_known in K.
    apply andb_true_iff in K as [K St]. apply andb_true_iff in K as [K Hc].
    apply andb_true_iff in K as [M _]. cbn [p p_count p_stop p_factor p_start] in *.
    destruct c; try discriminate.
    destruct (valid_parts fo start stop factor Hvalid) as (H0 & Hss & _).
    assert (Hfm : fmin fo start stop = start) by (unfold fmin; now rewrite Hss).
    rewrite <- Hfm in St.
    pose proof (stall_detected fuel start 1%Z H0 St) as D.
    subst p. unfold run. cbn [p_api p_start p_stop p_count p_factor p_jitter p_take].
    rewrite (prepare_valid fo OL fuel start stop factor CNone j Hvalid), D.
    destruct api; [reflexivity|]. destruct take; [|reflexivity].
    destruct Hap; [discriminate|congruence].
  Qed.
End KnownMeansValueError.

Theorem known_means_value_error : forall (F : Type) (fo : fops F), order_laws fo ->
  forall p fuel draws, spec_known fo p fuel = true -> (p_api p = ApiList \/ p_take p <> O) ->
  run fo p fuel draws = mkObs [] (ERaise ValueError).
Proof.
  intros F fo OL [api start stop c factor j take] fuel draws K Hap.
  assert (V : valid fo start stop factor = true).
  { unfold spec_known in K. repeat (apply andb_true_iff in K as [K _]).
    apply negb_true_iff in K. now destruct (must_raise_false_parts fo _ K). }
  exact (known_raises_value_error fo OL start stop factor V api c j take fuel draws K Hap).
Qed.

(* ---- the default count is minimal: stop is reached by the last value only ---------------------- *)
Section DefaultCountMinimal.
  Context {F : Type} (fo : fops F) (OL : order_laws fo) (GL : grow_laws fo).
  Local Notation le x y := (fleb fo x y = true).
  Local Notation lt x y := (fltb fo x y = true).
  Local Notation zero := (f0 fo).

  Fixpoint all_but_last_below (stop : F) (l : list F) : bool :=
    match l with
    | [] => true
    | x :: r => match r with [] => true | _ :: _ => fltb fo x stop && all_but_last_below stop r end
    end.

  Variables start stop factor : F.
  Hypothesis Hvalid : valid fo start stop factor = true.

  Lemma default_count_minimal : forall fuel u n m, le zero u ->
    default_count fo fuel stop factor u n = DCOk m ->
    all_but_last_below stop (ideal fo stop factor (fmin fo u stop) (Z.to_nat (m - n + 1))) = true.
  Proof.
    induction fuel as [|k IH]; intros u n m Hu H; simpl in H; [discriminate|].
    destruct (fltb fo u stop) eqn:L.
    - set (nxt := if negb (feqb fo u zero) then fmul fo u factor else f1 fo) in *.
      destruct (fltb fo u nxt) eqn:G; simpl in H; [|discriminate].
      assert (Hn0 : le zero nxt).
      { eapply (leb_trans fo OL); eauto. apply (lt_le fo OL), G. }
      destruct (default_count_ok fo OL start stop factor Hvalid k nxt (n + 1)%Z m Hn0 H) as [Hle _].
      pose proof (IH nxt (n + 1)%Z m Hn0 H) as R.
      replace (Z.to_nat (m - n + 1)) with (S (Z.to_nat (m - (n + 1) + 1))) by lia.
      rewrite (ideal_S fo stop factor), (fmin_lt_l fo OL stop u L), (next_of_count_step fo stop factor u).
      fold nxt.
      destruct (Z.to_nat (m - (n + 1) + 1)) as [|k'] eqn:K; [lia|].
      rewrite (ideal_S fo stop factor) in *. cbn [all_but_last_below]. rewrite L. exact R.
    - inversion H; subst m. replace (Z.to_nat (n - n + 1)) with 1%nat by lia. reflexivity.
  Qed.

  Theorem default_count_stop_only_last : forall j take fuel draws,
    jitter_off fo j = true ->
    let o := run fo (mkP ApiList start stop CNone factor j take) fuel draws in
    o_end o = EStop -> all_but_last_below stop (o_vals o) = true.
  Proof.
    intros j take fuel draws Off o E. subst o. unfold run in *.
    cbn [p_api p_start p_stop p_count p_factor p_jitter p_take] in *.
    rewrite (prepare_valid fo OL fuel start stop factor CNone j Hvalid) in *.
    destruct (valid_parts fo start stop factor Hvalid) as (H0 & Hss & _).
    destruct (default_count fo fuel stop factor start 1) as [m| |] eqn:D; try discriminate.
    unfold after_count in *. destruct (count_neg (NFin m)); [discriminate|].
    unfold jitter_valid in *. rewrite Off in *. simpl orb in *. cbv iota in *. simpl negb in *.
    unfold produce in *. cbn [p_start p_stop p_factor p_jitter] in *.
    rewrite (gen_loop_plain fo OL GL start stop factor Hvalid (Z.to_nat m) j start draws
               (Inv_start fo start stop factor Hvalid)) in *.
    cbn [o_vals].
    pose proof (default_count_minimal fuel start 1%Z m H0 D) as R.
    replace (fmin fo start stop) with start in R by (unfold fmin; now rewrite Hss).
    replace (m - 1 + 1)%Z with m in R by lia. exact R.
  Qed.
End DefaultCountMinimal.
