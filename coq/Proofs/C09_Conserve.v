(* C09: bucketize / partition conserve the elements (multiset statement):
   the buckets together are a permutation of the accepted (transformed) input. *)
From Coq Require Import Permutation.
From Boltons Require Import Lib.Prelude Spec.C09_Spec Model.C09_Model Proofs.C09_Group.

Definition all_values (d : pydict (list K)) : list K := concat (map snd d).

Lemma setdefault_append_cons k' vs' r k v :
  setdefault_append ((k', vs') :: r) k v
  = if Nat.eqb k k' then (k', vs' ++ [v]) :: r else (k', vs') :: setdefault_append r k v.
Proof.
  unfold setdefault_append. cbn [d_get d_set]. destruct (Nat.eqb k k') eqn:E.
  - cbn [d_set]. try rewrite E. reflexivity.
  - destruct (d_get r k); cbn [d_set]; try rewrite E; reflexivity.
Qed.

Lemma setdefault_append_values : forall d k v,
  Permutation (all_values (setdefault_append d k v)) (all_values d ++ [v]).
Proof.
  induction d as [|[k' vs'] r IH]; intros k v.
  - apply Permutation_refl.
  - rewrite setdefault_append_cons. unfold all_values in *. destruct (Nat.eqb k k'); cbn [map snd concat].
    + rewrite <- !app_assoc. apply Permutation_app_head. apply Permutation_app_comm.
    + rewrite <- app_assoc. apply Permutation_app_head. apply IH.
Qed.

Lemma bucketize_fold_values key vt kf : forall l d,
  Permutation (all_values (fold_left (bucket_step key vt kf) l d))
              (all_values d ++ map vt (filter (fun x => kf (key x)) l)).
Proof.
  induction l as [|x r IH]; intro d; cbn [fold_left filter map].
  - rewrite app_nil_r. apply Permutation_refl.
  - eapply Permutation_trans; [apply IH|]. unfold bucket_step. destruct (kf (key x)).
    + cbn [map]. eapply Permutation_trans.
      * apply Permutation_app_tail. apply setdefault_append_values.
      * rewrite <- app_assoc. apply Permutation_refl.
    + apply Permutation_refl.
Qed.

(* every accepted element lands in exactly one bucket, none is lost or duplicated *)
Lemma m_bucketize_conserves key vt kf l :
  Permutation (all_values (m_bucketize key vt kf l)) (map vt (filter (fun x => kf (key x)) l)).
Proof. unfold m_bucketize. apply (bucketize_fold_values key vt kf l []). Qed.

Lemma spec_bucketize_conserves key vt kf l :
  Permutation (all_values (spec_bucketize key vt kf l)) (map vt (filter (fun x => kf (key x)) l)).
Proof. rewrite <- m_bucketize_spec. apply m_bucketize_conserves. Qed.

Lemma partition_conserves (p : K -> bool) (l : list K) :
  Permutation (filter p l ++ filter (fun x => negb (p x)) l) l.
Proof.
  induction l as [|x r IH]; [apply Permutation_refl|]. cbn [filter].
  destruct (p x); cbn [negb app].
  - apply perm_skip. exact IH.
  - apply Permutation_sym. eapply Permutation_trans; [|apply Permutation_middle].
    apply perm_skip. apply Permutation_sym. exact IH.
Qed.

Lemma m_partition_conserves p l :
  Permutation (fst (m_partition p l) ++ snd (m_partition p l)) l.
Proof. rewrite m_partition_spec. unfold spec_partition. cbn [fst snd]. apply partition_conserves. Qed.
