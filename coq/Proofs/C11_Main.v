(* C11: the refinement theorems. *)
From Boltons Require Import Lib.Prelude Lib.C11_Iface Spec.C11_Spec Model.C11_Model
     Proofs.C11_Lists Proofs.C11_Dead Proofs.C11_Inv Proofs.C11_Sets Proofs.C11_Refine Proofs.C11_Slice.

Definition refines_step1 (c : cfg) (s : iset) (o : op) : Prop :=
  Inv (fst (m_step1 c s o)) /\
  m_live (fst (m_step1 c s o)) = fst (spec_step1 (m_live s) o) /\
  snd (m_step1 c s o) = snd (spec_step1 (m_live s) o).

Definition refines_step (c : cfg) (s : iset) (o : op) : Prop :=
  Inv (fst (m_step c s o)) /\
  m_live (fst (m_step c s o)) = fst (spec_step (m_live s) o) /\
  snd (m_step c s o) = snd (spec_step (m_live s) o).

Lemma forallb_ext' {A} (f g : A -> bool) l : (forall x, f x = g x) -> forallb f l = forallb g l.
Proof. intros H. induction l as [|x l IH]; simpl; [reflexivity|]. rewrite H, IH. reflexivity. Qed.

Theorem step_refines1 c s o : Inv s -> valid_op (m_live s) o = true -> refines_step1 c s o.
Proof.
  intros H V. pose proof H as [H0 HL]. pose proof (Inv0_nodup s H0) as ND.
  destruct o; try (unfold refines_step1; cbn [m_step1 spec_step1 fst snd]).
  - (* Add *) destruct (add_inv s x H) as [A B]. auto.
  - (* Remove *) destruct (remove_inv c s x H) as (A & B & C). rewrite C.
    destruct (l_mem x (m_live s)) eqn:M; cbn [fst snd]; rewrite ?B; auto.
    split; [exact A|]. split; [|reflexivity]. apply l_remove_notin. apply l_mem_false. exact M.
  - (* Discard *) destruct (discard_inv c s x H) as [A B]. auto.
  - (* Pop *) apply pop_inv; assumption.
  - (* Clear *) split; [apply Inv_empty|]. split; reflexivity.
  - (* Sort *) destruct (sort_inv s reverse H) as [A B]. auto.
  - (* Reverse *) destruct (reverse_inv s H) as [A B]. auto.
  - (* SortKey *) destruct (sort_key_inv s m reverse H) as [A B]. auto.
  - (* Update *) destruct (update_inv s os H) as [A B]. auto.
  - (* IntersectionUpdate *) destruct (intersection_update_inv c s os H) as [A B]. auto.
  - (* DifferenceUpdate *) destruct (difference_update_inv c s os H) as [A B]. auto.
  - (* SymDiffUpdate *) destruct (symmetric_difference_update_inv c s o H) as [A B]. auto.
  - (* Union *) rewrite (union_ok s os H). auto.
  - (* Intersection *) rewrite (proj2 (intersection_ok s os H)). auto.
  - (* Difference *) rewrite (proj2 (difference_ok s os H)). auto.
  - (* SymDiff *) rewrite (symmetric_difference_ok s o H). auto.
  - (* RSub *) split; [exact H|]. split; [reflexivity|]. do 3 f_equal.
    apply filter_ext. intros y. rewrite (contains_eq s y H0). reflexivity.
  - (* IsSubset *) rewrite (issubset_ok s o H). auto.
  - (* IsSuperset *) split; [exact H|]. split; [reflexivity|]. do 2 f_equal.
    apply forallb_ext'. intros y. apply contains_eq. exact H0.
  - (* IsDisjoint *) split; [exact H|]. split; [reflexivity|]. do 2 f_equal.
    apply forallb_ext'. intros y. rewrite (contains_eq s y H0). reflexivity.
  - (* GetItem *) cbn [valid_op] in V. destruct (norm_index (length (m_live s)) i) as [j|] eqn:N; [|discriminate].
    rewrite (getitem_ok s i j H0 N). cbn [res_map fst snd]. auto.
  - (* Slice *) rewrite (slice_ok s a b k H V).
    split; [exact H|]. split; [|reflexivity]. destruct k as [[|k]|]; reflexivity.
  - (* Index *) rewrite (index_ok s x H0). destruct (l_index x (m_live s)); cbn [res_map fst snd]; auto.
  - (* Count *) rewrite (contains_eq s x H0), (l_count_nodup x _ ND). auto.
  - (* Contains *) rewrite (contains_eq s x H0). auto.
  - (* Len *) unfold m_len. rewrite (inv_len s H0). auto.
  - (* Iter *) auto.
  - (* Reversed *) auto.
  - (* Snapshot *) rewrite (snapshot_ok s H0). auto.
  - (* SelfOp: not an operation with an explicit operand *) auto.
  - (* Cmp *) rewrite (cmp_ok s k o H V). auto.
  - (* SelfMix: not an operation with explicit operands *) auto.
Qed.

Lemma s_symdiff_self l : s_symdiff l (Opd true l) = [].
Proof.
  unfold s_symdiff, opd_mem. cbn [o_elems].
  assert (E : filter (fun x => negb (l_mem x l)) l = []).
  { apply filter_none. intros x Hx. apply negb_false_iff. apply l_mem_In. exact Hx. }
  rewrite E. reflexivity.
Qed.

Theorem step_refines c s o : Inv s -> valid_op (m_live s) o = true -> refines_step c s o.
Proof.
  intros H V.
  assert (G : forall o', valid_op (m_live s) o' = true ->
              m_step c s o' = m_step1 c s o' -> spec_step (m_live s) o' = spec_step1 (m_live s) o' ->
              refines_step c s o').
  { intros o' V' E1 E2. unfold refines_step. rewrite E1, E2. apply step_refines1; assumption. }
  destruct o; try (apply G; [exact V|reflexivity|reflexivity]).
  2: { (* several operands, some of them the set itself *)
       unfold refines_step. cbn [m_step spec_step].
       apply (step_refines1 c s _ H). destruct k; reflexivity. }
  (* the operand is the set itself *)
  assert (X : forall k', k' <> SSymDiffUpdate -> m_step c s (SelfOp k') = m_step1 c s (expand_self k' (as_operand s))).
  { intros k' N. destruct k'; try reflexivity. contradiction. }
  destruct k;
    try (unfold refines_step; rewrite X by discriminate;
         change (spec_step (m_live s) (SelfOp ?k')) with (spec_step1 (m_live s) (expand_self k' (Opd true (m_live s))));
         apply (step_refines1 c s _ H); reflexivity).
  (* symmetric_difference_update(self): clear *)
  unfold refines_step. cbn [m_step spec_step expand_self spec_step1 fst snd].
  split; [apply Inv_empty|]. split; [|reflexivity]. rewrite s_symdiff_self. reflexivity.
Qed.

(* whole histories: every recorded observation coincides *)
Theorem run_refines c dg : forall ops s, Inv s -> valid_run (m_live s) ops = true ->
  m_run c dg s ops = spec_run dg (m_live s) ops.
Proof.
  induction ops as [|o ops IH]; intros s H V; [reflexivity|].
  cbn [valid_run] in V. apply andb_true_iff in V. destruct V as [V1 V2].
  destruct (step_refines c s o H V1) as (A & B & C).
  cbn [m_run spec_run]. destruct (m_step c s o) as [s' r]. destruct (spec_step (m_live s) o) as [l' r'].
  cbn [fst snd] in *. subst l' r'. rewrite (obs_ok dg s' r (proj1 A)). f_equal. apply IH; assumption.
Qed.

Theorem refinement c dg ops : valid_run [] ops = true -> m_run c dg m_empty ops = spec_run dg [] ops.
Proof. intros V. apply (run_refines c dg ops m_empty Inv_empty V). Qed.

(* the invariant holds after every valid history *)
Theorem invariant_reachable c : forall ops s, Inv s -> valid_run (m_live s) ops = true ->
  Inv (fold_left (fun st o => fst (m_step c st o)) ops s).
Proof.
  induction ops as [|o ops IH]; intros s H V; [exact H|].
  cbn [valid_run] in V. apply andb_true_iff in V. destruct V as [V1 V2].
  destruct (step_refines c s o H V1) as (A & B & C). cbn [fold_left]. apply IH; [exact A|].
  rewrite B. exact V2.
Qed.

Theorem invariant_from_empty c ops :
  valid_run [] ops = true -> Inv (fold_left (fun st o => fst (m_step c st o)) ops m_empty).
Proof. intros V. exact (invariant_reachable c ops m_empty Inv_empty V). Qed.

Theorem sorted_contract l : Sorted.Sorted N.le (sort_nat l) /\ Permutation.Permutation (sort_nat l) l.
Proof. split; [exact (sort_nat_sorted l)|exact (sort_nat_perm l)]. Qed.
