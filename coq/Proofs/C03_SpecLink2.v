(* C03: every atomic step of the micro-step model is accepted by C03's own reference
   (Spec/C03_Spec.r_accepts), the reference state being the ring of the C02 model state the
   shared state stands for. *)
From Boltons Require Import Lib.Prelude Lib.C03_Syntax Lib.C03_Conc Model.C03_Model Spec.C03_Spec
     Proofs.C03_Link1 Proofs.C03_Link2 Proofs.C03_Link4 Proofs.C03_Link3 Proofs.C03_SpecLink Proofs.C03_FinalOk.
From Boltons Require Lib.C02_Syntax Spec.C02_Spec Model.C02_Model Proofs.C02_Inv.

Theorem op_accepted_by_c03_spec tb c s m o :
  1 <= cf_max c -> wf_op o -> stands_for c s m ->
  let '(s', r) := run_op tb c s o in
  exists m', stands_for c s' m' /\ r_accepts (rc_of c) (M2.ring m) o r = Some (M2.ring m').
Proof.
  intros Hmax WF SF.
  destruct (tr o) as [o1|] eqn:T.
  - pose proof (op_accepted_by_c02_spec tb c s m o o1 Hmax T SF) as OA.
    destruct (run_op tb c s o) as [s' r]. destruct OA as [m' [out [Er [SF' A]]]].
    exists m'. split; [exact SF'|]. subst r.
    destruct SF as [I _]. destruct I as [NR _ _ _ _ _].
    apply (spec_accept_link c (I2.abs m) o o1 out (I2.abs m')); assumption.
  - pose proof (op_link_all tb c Hmax s m o SF) as OL. unfold c02_op in OL. rewrite T in OL.
    destruct (run_op tb c s o) as [s' r].
    destruct o; simpl in T; try discriminate; destruct OL as [Er SF']; subst r; exists m; (split; [exact SF'|]);
      try (unfold r_accepts, r_step; rewrite rv_eqb_refl; reflexivity).
    (* Snapshot: the sorted items of the storage are exactly the items of the ring *)
    destruct (final_items_ok c s' m SF') as [F1 [F2 _]].
    unfold view_items in F1, F2. rewrite (stands_for_store _ _ _ SF') in F1, F2.
    unfold r_accepts. rewrite F1, F2. reflexivity.

Qed.
