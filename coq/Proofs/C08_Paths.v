(* C08: every (path, value) research reports below the root is retrievable with
   get_path, unless the path goes through a member of a set/frozenset (the guard
   of finding C08-set-path).  Proved on the recursion, transferred to the stack
   machine by C08_Machine. *)
From Boltons Require Import Lib.Prelude Lib.C08_Py Spec.C08_Spec Model.C08_Model
  Proofs.C08_Machine.

(* keys as Python produces them: enumerate() positions for list/tuple/set items,
   pairwise distinct keys for dict items *)
Fixpoint wf_keys (o : obj) : Prop :=
  match o with
  | ONode _ k items =>
      (match k with
       | KDict => NoDup (map fst items)
       | _ => map fst items = map KI (seq 0 (length items))
       end)
      /\ (fix all (l : list (key * obj)) : Prop :=
            match l with [] => True | kv :: r => wf_keys (snd kv) /\ all r end) items
  | _ => True
  end.

Definition child_at (k : kind) (items : list (key * obj)) (seg : key) : option obj :=
  match k with
  | KList | KTuple =>
      match seg_index seg with
      | Some i => match nth_error items i with Some (_, c) => Some c | None => None end
      | None => None
      end
  | KDict => kd_get items seg
  | _ => None
  end.

Inductive wres := WFound (o : obj) | WSet | WMissing.

(* follow a path through the term itself *)
Fixpoint walkr (cur : obj) (p : path) : wres :=
  match p with
  | [] => WFound cur
  | seg :: rest =>
      match cur with
      | ONode _ k items =>
          if is_set k then WSet
          else match child_at k items seg with Some c => walkr c rest | None => WMissing end
      | _ => WMissing
      end
  end.

Lemma walk_get : forall defs s cur c, walkr cur s = WFound c -> get_path_from defs cur s = Ok (oref_of c).
Proof.
  induction s as [|seg rest IH]; intros cur c H; cbn in *.
  - inversion H. reflexivity.
  - destruct cur as [|id k items| | | |]; try discriminate.
    destruct (is_set k) eqn:Es; [discriminate|].
    destruct (child_at k items seg) as [c'|] eqn:Ec; [|discriminate].
    unfold getitem. cbn [resolve].
    destruct k; cbn in Es; try discriminate; cbn [child_at] in Ec.
    + destruct (seg_index seg) as [i|]; try discriminate.
      destruct (nth_error items i) as [[k' c'']|]; [|discriminate]. inversion Ec; subst. apply IH. assumption.
    + destruct (seg_index seg) as [i|]; try discriminate.
      destruct (nth_error items i) as [[k' c'']|]; [|discriminate]. inversion Ec; subst. apply IH. assumption.
    + rewrite Ec. apply IH. assumption.
Qed.

Lemma walk_cross : forall defs s cur, walkr cur s = WSet -> crosses_set defs cur s = true.
Proof.
  induction s as [|seg rest IH]; intros cur H; cbn in *; [discriminate|].
  destruct cur as [|id k items| | | |]; try discriminate. cbn [resolve].
  destruct (is_set k) eqn:Es; [reflexivity|].
  destruct (child_at k items seg) as [c'|] eqn:Ec; [|discriminate].
  destruct k; cbn in Es; try discriminate; cbn [child_at] in Ec.
  - destruct (seg_index seg) as [i|]; try discriminate.
    destruct (nth_error items i) as [[k' c'']|]; [|discriminate]. inversion Ec; subst. apply IH. assumption.
  - destruct (seg_index seg) as [i|]; try discriminate.
    destruct (nth_error items i) as [[k' c'']|]; [|discriminate]. inversion Ec; subst. apply IH. assumption.
  - rewrite Ec. apply IH. assumption.
Qed.

(* a well-keyed container finds each of its items under the item's key *)
Lemma kd_get_in : forall (items : list (key * obj)) ck c,
  NoDup (map fst items) -> In (ck, c) items -> kd_get items ck = Some c.
Proof.
  induction items as [|[k v] r IH]; intros ck c Hn Hin; [inversion Hin|].
  cbn [map fst] in Hn. inversion Hn; subst. cbn [kd_get].
  destruct Hin as [E|Hin].
  - inversion E; subst. destruct ck; cbn; rewrite ?Nat.eqb_refl; reflexivity.
  - destruct (key_eqb ck k) eqn:Ek.
    + exfalso. apply H1. apply in_map_iff. exists (ck, c). split; [|assumption].
      cbn. destruct ck, k; cbn in Ek; try discriminate; try reflexivity;
        apply Nat.eqb_eq in Ek; subst; reflexivity.
    + apply IH; assumption.
Qed.

Lemma enum_in : forall (items : list (key * obj)) ck c,
  map fst items = map KI (seq 0 (length items)) -> In (ck, c) items ->
  exists i, ck = KI i /\ nth_error items i = Some (ck, c).
Proof.
  intros items ck c Hk Hin. apply In_nth_error in Hin as [i Hi]. exists i. split; [|assumption].
  assert (Hl : i < length items) by (apply nth_error_Some; congruence).
  assert (H1 : nth_error (map fst items) i = Some ck) by (rewrite nth_error_map, Hi; reflexivity).
  rewrite Hk in H1. rewrite nth_error_map in H1.
  rewrite (nth_error_nth' (seq 0 (length items)) 0) in H1 by (rewrite seq_length; assumption).
  rewrite seq_nth in H1 by assumption. cbn in H1. congruence.
Qed.

Lemma child_at_in : forall id k items ck c,
  wf_keys (ONode id k items) -> is_set k = false -> In (ck, c) items -> child_at k items ck = Some c.
Proof.
  intros id k items ck c [Hk _] Hs Hin. destruct k; cbn in Hs; try discriminate; cbn [child_at].
  - destruct (enum_in items ck c Hk Hin) as [i [-> Hi]]. cbn [seg_index]. rewrite Hi. reflexivity.
  - destruct (enum_in items ck c Hk Hin) as [i [-> Hi]]. cbn [seg_index]. rewrite Hi. reflexivity.
  - apply kd_get_in; assumption.
Qed.

Lemma wf_items : forall id k items, wf_keys (ONode id k items) -> Forall (fun kv => wf_keys (snd kv)) items.
Proof.
  intros id k items [_ H]. induction items as [|kv r IH]; [constructor|].
  destruct H as [H1 H2]. constructor; [assumption|apply IH; assumption].
Qed.

Section Paths.
  Variable blank : nat -> kind -> obj.
  Variable visit : option visit_fn.
  Variable defs : table obj.
  Notation srbB := (srb blank visit defs).
  Notation chB := (srb_children blank visit defs).

  Definition is_visit (e : event) : Prop := match e with EEnter _ _ _ _ => False | _ => True end.   (* not an enter call *)

  (* an enter event for something strictly inside [o], whose items live under path [cp] *)
  Definition inner (cp : path) (o : obj) (e : event) : Prop :=
    exists ep ek er es s, e = EEnter ep ek er es /\ ep ++ [ek] = cp ++ s /\ s <> [] /\
      (walkr o s = WSet \/ exists c, walkr o s = WFound c /\ er = oref_of c).

  Definition ev_ok (o : obj) : Prop :=
    wf_keys o -> forall rt p ky m lg v m' lg', srbB rt p ky o m lg = (v, m', lg') ->
      forall e, In e lg' ->
        In e lg \/ is_visit e \/ e = EEnter p ky (oref_of o) (in_view defs o)
        \/ inner (if rt then p else p ++ [ky]) o e.

  Lemma do_visit_events : forall p ky v lg e,
    In e (snd (do_visit visit p ky v lg)) -> In e lg \/ is_visit e.
  Proof.
    intros p ky v lg e. unfold do_visit. destruct visit; cbn [snd]; [|tauto].
    rewrite in_app_iff. intros [H|[<-|[]]]; [tauto|right; exact I].
  Qed.

  Lemma children_events : forall l, Forall (fun kv => ev_ok (snd kv)) l ->
    Forall (fun kv => wf_keys (snd kv)) l ->
    forall cp acc m lg acc' m' lg', chB cp l acc m lg = (acc', m', lg') ->
      forall e, In e lg' ->
        In e lg \/ is_visit e \/
        exists ck c, In (ck, c) l /\
          (e = EEnter cp ck (oref_of c) (in_view defs c) \/ inner (cp ++ [ck]) c e).
  Proof.
    induction 1 as [|[ck c] r Hc Hr IH]; intros Hw cp acc m lg acc' m' lg' E e He.
    - cbn in E. inversion E; subst. tauto.
    - cbn [srb_children] in E.
      destruct (srbB false cp ck c m lg) as [[c' m1] lg1] eqn:E1.
      destruct (do_visit visit cp ck c' lg1) as [it lg2] eqn:E2.
      inversion Hw; subst. cbn [snd] in *.
      destruct (IH H2 _ _ _ _ _ _ _ E e He) as [H|[H|[ck' [c0 [Hin H]]]]].
      + assert (H' := do_visit_events cp ck c' lg1 e). rewrite E2 in H'. cbn [snd] in H'.
        destruct (H' H) as [H3|H3]; [|tauto].
        destruct (Hc H1 false cp ck m lg c' m1 lg1 E1 e H3) as [H4|[H4|[H4|H4]]]; try tauto.
        * right. right. exists ck, c. split; [left; reflexivity|tauto].
        * right. right. exists ck, c. split; [left; reflexivity|tauto].
      + tauto.
      + right. right. exists ck', c0. split; [right; assumption|assumption].
  Qed.

  Lemma srb_events : forall o, ev_ok o.
  Proof.
    induction o as [n|id k items IH|id k|k|id k|w] using obj_ind2; unfold ev_ok;
      intros Hw rt p ky m lg v m' lg' E e He.
    - cbn in E. inversion E; subst. rewrite in_app_iff in He. destruct He as [H|[<-|[]]]; tauto.
    - rewrite srb_node in E. destruct (t_get m id); [inversion E; subst; tauto|]. cbv zeta in E.
      set (cp := if rt then p else p ++ [ky]) in *.
      destruct (chB cp items [] _ _) as [[items' m1] lg1] eqn:EC. inversion E; subst v m' lg'. clear E.
      rewrite in_app_iff in He. destruct He as [He|[<-|[]]]; [|right; left; exact I].
      destruct (children_events items IH (wf_items _ _ _ Hw) _ _ _ _ _ _ _ EC e He) as [H|[H|[ck [c [Hin H]]]]].
      + rewrite in_app_iff in H. destruct H as [H|[<-|[]]]; [tauto|]. right. right. left. reflexivity.
      + tauto.
      + right. right. right.
        destruct (is_set k) eqn:Es.
        * destruct H as [->|[ep [ek [er [es [s [-> [Hp [Hs Hw2]]]]]]]]].
          -- exists cp, ck, (oref_of c), (in_view defs c), [ck]. split; [reflexivity|]. split; [reflexivity|].
             split; [discriminate|]. left. cbn. rewrite Es. reflexivity.
          -- exists ep, ek, er, es, (ck :: s). split; [reflexivity|]. split; [rewrite Hp, <- app_assoc; reflexivity|].
             split; [discriminate|]. left. cbn. rewrite Es. reflexivity.
        * assert (Hc := child_at_in id k items ck c Hw Es Hin).
          destruct H as [->|[ep [ek [er [es [s [-> [Hp [Hs Hw2]]]]]]]]].
          -- exists cp, ck, (oref_of c), (in_view defs c), [ck]. split; [reflexivity|]. split; [reflexivity|].
             split; [discriminate|]. right. exists c. cbn. rewrite Es, Hc. split; reflexivity.
          -- exists ep, ek, er, es, (ck :: s). split; [reflexivity|]. split; [rewrite Hp, <- app_assoc; reflexivity|].
             split; [discriminate|]. cbn [walkr]. rewrite Es, Hc. exact Hw2.
    - cbn [srb] in E. destruct (t_get m id); inversion E; subst; [tauto|].
      rewrite in_app_iff in He. destruct He as [H|[<-|[]]]; tauto.
    - cbn in E. inversion E; subst. rewrite in_app_iff in He. destruct He as [H|[<-|[]]]; tauto.
    - cbn in E. inversion E; subst. rewrite in_app_iff in He. destruct He as [H|[<-|[]]]; tauto.
    - cbn in E. inversion E; subst. rewrite in_app_iff in He. destruct He as [H|[<-|[]]]; tauto.
  Qed.
End Paths.

Lemma reported_in : forall q lg p r, In (p, r) (reported q lg) ->
  exists ep ek es, In (EEnter ep ek r es) lg /\ p = ep ++ [ek].
Proof.
  intros q lg p r H. unfold reported in H. apply in_flat_map in H as [e [He Hin]].
  destruct e as [ep ek er es| |]; [|inversion Hin|inversion Hin].
  destruct (q ep ek es); [|inversion Hin]. destruct Hin as [E|[]]. inversion E; subst.
  exists ep, ek, es. split; [assumption|reflexivity].
Qed.

Theorem research_paths_retrievable : forall q root l,
  wf_keys root ->
  research q root = Ok l ->
  forall p r, In (p, r) l -> ~ (p = [KNone] /\ r = oref_of root) ->
    crosses_set (collect_defs root) root p = false ->
    get_path root p = Ok r.
Proof.
  intros q root l Hw Hr p r Hin Hp Hc. unfold research in Hr.
  pose proof (machine_is_recursion None true (collect_defs root) root) as HM. cbn [lift] in HM.
  rewrite HM in Hr. clear HM. unfold srb_root in Hr.
  destruct root as [n|id k items|id k|k|id k|w]; try (cbn in Hr; discriminate).
  destruct (srb impl_blank None (collect_defs (ONode id k items)) true [] KNone (ONode id k items) [] [])
    as [[v m] lg] eqn:E.
  inversion Hr; subst l. clear Hr.
  destruct (reported_in _ _ _ _ Hin) as [ep [ek [es [He ->]]]].
  destruct (srb_events impl_blank None _ (ONode id k items) Hw true [] KNone [] [] v m lg E _ He)
    as [[]|[[]|[H|H]]].
  - inversion H; subst. exfalso. apply Hp. split; reflexivity.
  - destruct H as [ep' [ek' [er [es' [s [Ee [Hps [Hs [Hx|[c [Hx ->]]]]]]]]]]]; inversion Ee; subst.
    + cbn [app] in Hps. rewrite Hps in Hc. rewrite (walk_cross _ _ _ Hx) in Hc. discriminate.
    + cbn [app] in Hps. rewrite Hps. unfold get_path. apply walk_get. assumption.
Qed.

(* research with a query that never raises is the plain research, whatever `reraise` *)
Theorem research_x_total : forall q rr root,
  research_x (fun p k s => Some (q p k s)) rr root = research q root.
Proof.
  intros q rr root. unfold research_x, research.
  assert (H : forall lg, reported_x (fun p k s => Some (q p k s)) rr lg = Ok (reported q lg)).
  { induction lg as [|e r IH]; [reflexivity|]. cbn [reported_x reported flat_map].
    destruct e as [p k o s| |]; [|exact IH|exact IH]. destruct (q p k s); rewrite IH; reflexivity. }
  destruct (remap None true (collect_defs root) root); try reflexivity; rewrite H; reflexivity.
Qed.

(* the get_path loop (model) computes Spec.lookup_path: value, or PathAccessError *)
Theorem get_path_is_lookup : forall root p,
  get_path root p = match lookup_path (collect_defs root) root p with Some r => Ok r | None => Raise KeyError end.
Proof.
  intros root p. unfold get_path. generalize (collect_defs root) as defs. intro defs.
  revert root. induction p as [|seg rest IH]; intro cur; cbn [get_path_from lookup_path]; [reflexivity|].
  unfold getitem. destruct (resolve defs cur) as [n|id k items|id k|k|id k|w]; try reflexivity.
  destruct k; try reflexivity.
  - destruct (seg_index seg) as [i|]; [|reflexivity]. destruct (nth_error items i) as [[k' c]|]; [apply IH|reflexivity].
  - destruct (seg_index seg) as [i|]; [|reflexivity]. destruct (nth_error items i) as [[k' c]|]; [apply IH|reflexivity].
  - destruct (kd_get items seg); [apply IH|reflexivity].
Qed.
