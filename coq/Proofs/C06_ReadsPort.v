(* C06: the port / IP-literal part of the Spec's reading (Spec.port_reads) holds for the model's URL(t) *)
From Coq Require Import Lia ZifyBool DecimalN DecimalPos.
From Boltons Require Import Lib.Prelude Lib.C06_Text Spec.C06_Spec Model.C06_Model Proofs.C06_Codec
  Proofs.C06_Quote Proofs.C06_Round Proofs.C06_Refine Proofs.C06_Ports Proofs.C06_Reads.
Open Scope N_scope.

(* ---- decimal value of a digit string ------------------------------------------------------------ *)
Definition stepN (a c : N) : N := 10 * a + (c - 48).

Lemma dec_value_N ds a : fold_left (fun a c => (10 * a + Z.of_N (c - 48))%Z) ds (Z.of_N a) = Z.of_N (fold_left stepN ds a).
Proof.
  revert a. induction ds as [|c r IH]; intro a; [reflexivity|]. cbn [fold_left].
  replace (10 * Z.of_N a + Z.of_N (c - 48))%Z with (Z.of_N (stepN a c)) by (unfold stepN; lia). apply IH.
Qed.

Lemma fold_acc l : forall acc, fold_left stepN (digits_of_uint l) (Npos acc) = Npos (Pos.of_uint_acc l acc).
Proof.
  induction l; intro acc; cbn [digits_of_uint fold_left Pos.of_uint_acc]; [reflexivity|..];
    (match goal with |- fold_left stepN _ ?x = N.pos (Pos.of_uint_acc _ ?p) =>
       replace x with (N.pos p) by (unfold stepN; lia) end; apply IHl).
Qed.

Lemma fold_of_uint l : fold_left stepN (digits_of_uint l) 0 = N.of_uint l.
Proof.
  unfold N.of_uint. induction l; cbn [digits_of_uint fold_left Pos.of_uint]; [reflexivity|exact IHl|..];
    (match goal with |- fold_left stepN _ ?x = N.pos (Pos.of_uint_acc _ ?p) =>
       replace x with (N.pos p) by (unfold stepN; lia) end; apply fold_acc).
Qed.

Lemma dec_value_uint u : dec_value (digits_of_uint u) = Z.of_N (N.of_uint u).
Proof. unfold dec_value. change 0%Z with (Z.of_N 0). rewrite dec_value_N, fold_of_uint. reflexivity. Qed.

Lemma digits_uint ds : forallb is_digit ds = true -> exists u, digits_of_uint u = ds.
Proof.
  induction ds as [|c r IH]; intro H; [exists Decimal.Nil; reflexivity|].
  cbn [forallb] in H. apply andb_true_iff in H as [Hc Hr]. destruct (IH Hr) as [u E].
  unfold is_digit in Hc.
  assert (E10 : c = 48 \/ c = 49 \/ c = 50 \/ c = 51 \/ c = 52 \/ c = 53 \/ c = 54 \/ c = 55 \/ c = 56 \/ c = 57) by lia.
  destruct E10 as [->|[->|[->|[->|[->|[->|[->|[->|[->| ->]]]]]]]]];
    [exists (Decimal.D0 u)|exists (Decimal.D1 u)|exists (Decimal.D2 u)|exists (Decimal.D3 u)|exists (Decimal.D4 u)
    |exists (Decimal.D5 u)|exists (Decimal.D6 u)|exists (Decimal.D7 u)|exists (Decimal.D8 u)|exists (Decimal.D9 u)];
    cbn [digits_of_uint]; rewrite E; reflexivity.
Qed.

(* int() of a non-empty digit string: ValueError beyond 4300 digits, else the value *)
Lemma py_int_digits_gen u : u <> Decimal.Nil ->
  py_int (digits_of_uint u) =
  if Nat.ltb INT_MAX_STR_DIGITS (Decimal.nb_digits u) then None else Some (Z.of_N (N.of_uint u)).
Proof.
  intros NE. unfold py_int. rewrite (strip_digits _ (digits_all_digit u)).
  pose proof (digits_all_digit u) as D. pose proof (digits_length u) as LEN.
  pose proof (uint_of_digits_of u) as UD.
  destruct (digits_of_uint u) as [|c r] eqn:E.
  { exfalso. destruct u; try discriminate. apply NE. reflexivity. }
  cbn [forallb] in D. apply andb_true_iff in D as [Dc Dr].
  assert (E10 : c = 48 \/ c = 49 \/ c = 50 \/ c = 51 \/ c = 52 \/ c = 53 \/ c = 54 \/ c = 55 \/ c = 56 \/ c = 57)
    by (unfold is_digit in Dc; lia).
  destruct E10 as [->|[->|[->|[->|[->|[->|[->|[->|[->| ->]]]]]]]]];
    cbn [drop_underscores N.eqb Pos.eqb is_digit N.leb N.compare Pos.compare Pos.compare_cont andb];
    rewrite (drop_underscores_digits r Dr), LEN, UD; reflexivity.
Qed.

Lemma py_int_dec ds z : forallb is_digit ds = true -> ds <> [] -> py_int ds = Some z -> z = dec_value ds.
Proof.
  intros D NE P. destruct (digits_uint ds D) as [u E]. subst ds.
  rewrite py_int_digits_gen in P by (intro Z; subst u; apply NE; reflexivity).
  destruct (Nat.ltb INT_MAX_STR_DIGITS (Decimal.nb_digits u)); [discriminate|].
  injection P as <-. symmetry. apply dec_value_uint.
Qed.

(* ---- partition / span facts ------------------------------------------------------------------------ *)
Lemma memN_app c x y : memN c (x ++ y) = memN c x || memN c y.
Proof. induction x as [|a r IH]; [reflexivity|]. cbn [app memN]. rewrite IH. apply orb_assoc. Qed.

Lemma span_partition c s : forall a rest, span (nin [c]) s = (a, rest) ->
  partition c s = (a, match rest with [] => false | _ => true end, tl rest) /\
  match rest with x :: _ => x = c | [] => True end /\ s = a ++ rest /\ memN c a = false.
Proof.
  induction s as [|x r IH]; intros a rest H.
  - injection H as <- <-. repeat split; reflexivity.
  - cbn [span partition] in *. unfold nin in H at 1. cbn [memN] in H. rewrite orb_false_r in H.
    destruct (x =? c) eqn:E; cbn [negb] in H.
    + injection H as <- <-. apply N.eqb_eq in E. repeat split; try reflexivity. exact E.
    + destruct (span (nin [c]) r) as [a' b'] eqn:S. injection H as <- <-.
      destruct (IH a' b' eq_refl) as [P [Hd [Ap M]]]. rewrite P. repeat split; try assumption.
      * rewrite Ap at 1. reflexivity.
      * cbn [memN]. rewrite N.eqb_sym, E. exact M.
Qed.

Lemma partition_stop c x y : memN c x = false -> partition c (x ++ c :: y) = (x, true, y).
Proof.
  induction x as [|a r IH]; intro M; cbn [app partition].
  - rewrite N.eqb_refl. reflexivity.
  - cbn [memN] in M. apply orb_false_iff in M as [M1 M2]. rewrite N.eqb_sym, M1, (IH M2). reflexivity.
Qed.

Lemma partition_split c x : memN c x = true -> exists a b, x = a ++ c :: b /\ memN c a = false.
Proof.
  induction x as [|y r IH]; [discriminate|]. cbn [memN]. destruct (c =? y) eqn:E.
  - intros _. apply N.eqb_eq in E. subst y. exists [], r. split; reflexivity.
  - cbn [orb]. intro M. destruct (IH M) as [a [b [-> Ma]]]. exists (y :: a), b. split; [reflexivity|].
    cbn [memN]. rewrite E. exact Ma.
Qed.

Lemma partition_flag c s : snd (fst (partition c s)) = negb (Nat.eqb (count_char c s) 0).
Proof.
  unfold count_char. induction s as [|x r IH]; [reflexivity|]. cbn [partition filter]. rewrite (N.eqb_sym c x).
  destruct (x =? c); [reflexivity|]. destruct (partition c r) as [[a f] b]. exact IH.
Qed.

Lemma hostinfo_of_split au : (count_char 64 au <= 1)%nat -> snd (split_userinfo au) = hostport_of au.
Proof.
  intro H. unfold hostport_of, split_userinfo. pose proof (rpartition_partition 64 au H) as R.
  destruct au as [|a0 ar]; [reflexivity|].
  destruct (rpartition 64 (a0 :: ar)) as [[ui hi]|].
  - rewrite R. destruct (partition 58 ui) as [[u s] p]. reflexivity.
  - destruct (partition 64 (a0 :: ar)) as [[a f] b]. cbn [fst snd] in R. rewrite R. reflexivity.
Qed.

Lemma digit_ascii p : forallb is_digit p = true -> all_ascii p = true.
Proof. apply forallb_impl. intros c H. apply digit_facts. exact H. Qed.

Section ReadsPort.
Variable T : tables.
Variable O : oracles.

Lemma port_of_digits p port : forallb is_digit p = true -> port_of O p = MOk port ->
  port = match p with [] => None | _ => Some (dec_value p) end.
Proof.
  intros D P. unfold port_of in P. rewrite (digit_ascii p D) in P. destruct p as [|c r].
  - vm_compute in P. injection P as <-. reflexivity.
  - destruct (py_int (c :: r)) as [z|] eqn:I; [|discriminate]. injection P as <-.
    rewrite (py_int_dec (c :: r) z D ltac:(discriminate) I). reflexivity.
Qed.

(* what split_hostport makes of a well-formed host[:port] *)
Lemma hostport_core iri hp host port : hostport_ok iri hp = true -> split_hostport O hp = MOk (host, port) ->
  port = match snd (host_port_texts hp) with [] => None | p => Some (dec_value p) end /\
  match hp with
  | c :: _ => if c =? 91
              then let h := fst (host_port_texts hp) in
                   host = 91 :: h ++ [93] /\ memN 58 h = true /\ h <> [] /\
                   forallb (fun c => hexdig c || memN c [58; 46]) h = true
              else True
  | [] => True
  end.
Proof.
  intros W S. destruct hp as [|c r].
  - cbn in S. injection S as <- <-. split; [reflexivity|exact I].
  - unfold hostport_ok in W. unfold host_port_texts. destruct (c =? 91) eqn:B.
    + (* IP-literal *)
      apply N.eqb_eq in B. subst c. unfold ipliteral_port_ok in W.
      destruct (span (nin [93]) r) as [inner rest] eqn:SP.
      destruct (span_partition 93 r inner rest SP) as [P93 [Hd [Ap M93]]].
      destruct inner as [|i0 ir]; [discriminate|]. destruct rest as [|x after]; [discriminate|]. subst x.
      apply andb_true_iff in W as [W WA]. apply andb_true_iff in W as [HC M58].
      rewrite P93. cbn [fst snd tl].
      destruct (partition_split 58 (i0 :: ir) M58) as [a [b [EI Ma]]].
      assert (Mb : memN 93 b = false).
      { rewrite EI, memN_app in M93. apply orb_false_iff in M93 as [_ M]. cbn [memN] in M.
        apply orb_false_iff in M as [_ M]. exact M. }
      assert (PS : partition 58 (91 :: r) = (91 :: a, true, b ++ 93 :: after)).
      { rewrite Ap, EI. rewrite <- app_assoc. cbn [app].
        change (91 :: a ++ 58 :: b ++ 93 :: after) with ((91 :: a) ++ 58 :: (b ++ 93 :: after)).
        apply partition_stop. cbn [memN]. rewrite Ma. reflexivity. }
      unfold split_hostport in S. rewrite PS in S. cbv beta iota in S.
      assert (C : (match 91 :: a with h0 :: _ => h0 =? 91 | [] => false end) && memN 93 (b ++ 93 :: after) = true).
      { cbn [andb]. rewrite memN_app. cbn [memN]. rewrite N.eqb_refl. apply orb_true_r. }
      rewrite C in S. rewrite (partition_stop 93 b after Mb) in S. cbv beta iota in S.
      assert (EH : (91 :: a) ++ [58] ++ b ++ [93] = 91 :: (i0 :: ir) ++ [93]).
      { rewrite EI. cbn [app]. rewrite <- app_assoc. reflexivity. }
      rewrite EH in S.
      assert (PT : exists ds, forallb is_digit ds = true /\
                   match after with 58 :: p => p | _ => [] end = ds /\
                   (do p <- port_of O ds; MOk (91 :: (i0 :: ir) ++ [93], p)) = MOk (host, port)).
      { destruct after as [|c p]; [exists []; repeat split; exact S|].
        apply andb_true_iff in WA as [WC WD]. apply N.eqb_eq in WC. subst c. exists p. repeat split; [exact WD|exact S]. }
      clear S. destruct PT as [ds [D [E1 S]]]. rewrite E1.
      destruct (port_of O ds) as [po| |] eqn:PO; cbn [mbind] in S; try discriminate.
      injection S as <- <-. split.
      * rewrite (port_of_digits ds po D PO). destruct ds; reflexivity.
      * repeat split; try assumption. discriminate.
    + (* reg-name *)
      unfold regname_port_ok in W. destruct (span (nin [58]) (c :: r)) as [h rest] eqn:SP.
      destruct (span_partition 58 (c :: r) h rest SP) as [P58 [Hd [Ap M58]]].
      apply andb_true_iff in W as [_ WP]. rewrite P58. cbn [fst snd].
      unfold split_hostport in S. rewrite P58 in S. cbv beta iota in S.
      destruct rest as [|x p].
      * injection S as <- <-. split; [reflexivity|exact I].
      * cbn [tl] in *.
        assert (C : (match h with h0 :: _ => h0 =? 91 | [] => false end) && memN 93 p = false).
        { destruct h as [|h0 hr]; [reflexivity|]. cbn [app] in Ap. injection Ap as <- _. rewrite B. reflexivity. }
        rewrite C in S.
        destruct (port_of O p) as [po| |] eqn:PO; cbn [mbind] in S; try discriminate.
        injection S as <- <-. split; [|exact I].
        rewrite (port_of_digits p po WP PO). destruct p; reflexivity.
Qed.

Lemma wf_hostport iri t : wf_ref iri t = true ->
  hostport_ok iri (hostport_of (otx (g_authority (url_re t)))) = true.
Proof.
  unfold wf_ref. rewrite url_re_rfc. intro H. do 3 (apply andb_true_iff in H as [H _]).
  apply andb_true_iff in H as [_ H]. destruct (g_authority (url_re t)) as [a|]; [|reflexivity].
  cbn [otx]. unfold authority_ok in H. unfold hostport_of. pose proof (partition_flag 64 a) as F.
  destruct (partition 64 a) as [[u f] h]. cbn [fst snd] in F.
  destruct (count_char 64 a) as [|[|n]]; cbn in F; subst f.
  - exact H.
  - apply andb_true_iff in H as [_ H]. exact H.
  - discriminate.
Qed.

(* the codec facts used on the text between the brackets of an IP-literal (ASCII hex digits, ':' and '.'):
   the idna codec returns it unchanged and inet_pton has no non-ASCII character to complain about *)
Definition ip_text_oracles : Prop :=
  forall h, forallb (fun c => hexdig c || memN c [58; 46]) h = true -> h <> [] ->
            o_idna_dec O h = MOk h /\ o_inet6 O h <> MOk V6UnicodeError.

Theorem parse_port_reads t u : ip_text_oracles ->
  wf_ref true t = true -> url_init T O t = MOk u -> port_reads t (observe_url T u) = true.
Proof.
  intros IPO WF U. pose proof (wf_ref_one_at true t WF) as AT. pose proof (wf_hostport true t WF) as HP.
  unfold port_reads. rewrite url_re_rfc.
  unfold url_init in U. destruct t as [|t0 tr].
  - cbv beta iota in U. injection U as <-. vm_compute. reflexivity.
  - cbv beta iota in U. set (t := t0 :: tr) in *. clearbody t. clear t0 tr.
    destruct (parse_url O t) as [p| |] eqn:P; cbn [mbind] in U; try discriminate.
    destruct (decode_host O (pu_host p)) as [h| |] eqn:DH; cbn [mbind] in U; try discriminate.
    injection U as <-. unfold parse_url in P.
    change (match g_authority (url_re t) with Some a => a | None => [] end) with (otx (g_authority (url_re t))) in P.
    pose proof (hostinfo_of_split _ AT) as HI.
    destruct (split_userinfo (otx (g_authority (url_re t)))) as [[user pw] hostinfo]. cbn [snd] in HI. subst hostinfo.
    set (hp := hostport_of (otx (g_authority (url_re t)))) in *. clearbody hp.
    destruct (split_hostport O hp) as [[host port]| |] eqn:SH; cbn [mbind] in P; try discriminate.
    destruct (parse_host O host) as [[fam host']| |] eqn:PH; cbn [mbind] in P; try discriminate.
    injection P as <-. cbn [pu_host] in DH. unfold observe_url. cbn [uo_port uo_host uo_family u_port u_host u_family pu_port pu_family].
    destruct (hostport_core true hp host port HP SH) as [EP EH].
    destruct (host_port_texts hp) as [ht pt]. cbn [fst snd] in *. subst port.
    assert (PE : option_eqb Z.eqb match pt with [] => None | n :: l => Some (dec_value (n :: l)) end
                   match pt with [] => None | _ :: _ => Some (dec_value pt) end = true).
    { destruct pt; [reflexivity|]. cbn [option_eqb]. apply Z.eqb_refl. }
    rewrite PE. cbn [andb]. destruct hp as [|c r]; [reflexivity|]. destruct (c =? 91); [|reflexivity].
    destruct EH as [-> [M58 [NE HC]]]. destruct (IPO ht HC NE) as [ID I6].
    unfold parse_host in PH.
    assert (C : memN 58 (91 :: ht ++ [93]) && (91 =? 91) && last_is 93 (91 :: ht ++ [93]) = true).
    { cbn [memN]. rewrite memN_app, M58. unfold last_is. cbn [rev]. rewrite rev_app_distr. reflexivity. }
    rewrite C in PH. cbn [tl] in PH. rewrite removelast_last in PH.
    destruct (o_inet6 O ht) as [[| |]| |] eqn:I6E; cbn [mbind] in PH; try discriminate.
    + injection PH as <- <-. unfold decode_host in DH. destruct ht as [|h0 hr]; [contradiction|].
      rewrite ID in DH. destruct (all_ascii (h0 :: hr)); injection DH as <-; rewrite text_eqb_refl; reflexivity.
    + exfalso. apply I6. reflexivity.
Qed.
End ReadsPort.
