(* C03: the generic serialisability theorem instantiated with the model of LRI/LRU
   and the lock table; refutations when the table is not covered. *)
From Boltons Require Import Lib.Prelude Lib.C03_Syntax Lib.C03_Conc Model.C03_Model
     Proofs.C03_Serial Proofs.C03_Covered.

(* programs are lists of public operations (Lib/C03_Syntax.op) *)
Definition compile_l (tb : lock_table) (c : config) (x : op) : P rv := compile_cfg tb c x.

Definition conc_run (tb : lock_table) (c : config) (progs : nat -> list op) (sh0 : shared) (sched : list nat) :=
  run sem ssem (compile_l tb c) (reentrant tb) sched (init_state sh0 counters0 progs).

Definition serial_run (tb : lock_table) (c : config) (progs : nat -> list op) (sh0 : shared) (order : list nat) :=
  serial sem (compile_l tb c) order sh0 progs.

Lemma covered_reentrant tb : table_covered tb = true -> reentrant tb = true.
Proof. unfold table_covered. intro H. apply andb_true_iff in H. tauto. Qed.

Theorem serialisable_model :
  forall tb, table_covered tb = true ->
  forall c progs sh0 sched,
    let s := conc_run tb c progs sh0 sched in
    finished s ->
    exists order,
      let '(shS, todoS, doneS) := serial_run tb c progs sh0 order in
      m_sh s = shS /\ (forall t, t_done (m_thr s t) = doneS t) /\ (forall t, todoS t = []).
Proof.
  intros tb T c progs sh0 sched. unfold conc_run, serial_run.
  rewrite (covered_reentrant tb T).
  assert (HH : forall o, one_cs (compile_l tb c o)) by (intro o; unfold compile_l; apply compile_one_cs; exact T).
  exact (serialisable shared act ares sem counters sact nat ssem op rv (compile_l tb c) progs sh0 HH counters0 sched).
Qed.

Theorem no_deadlock_model :
  forall tb, table_covered tb = true ->
  forall c progs sh0 sched,
    let s := conc_run tb c progs sh0 sched in
    (exists t, t_cur (m_thr s t) <> None \/ t_todo (m_thr s t) <> []) ->
    exists t, step sem ssem (compile_l tb c) (reentrant tb) t s <> None.
Proof.
  intros tb T c progs sh0 sched. unfold conc_run.
  rewrite (covered_reentrant tb T).
  assert (HH : forall o, one_cs (compile_l tb c o)) by (intro o; unfold compile_l; apply compile_one_cs; exact T).
  exact (progress shared act ares sem counters sact nat ssem op rv (compile_l tb c) progs sh0 HH counters0 sched).
Qed.

(* A fixed covered table, of the shape the source has at the time of writing (every method's
   accesses inside the lock, get = one locked call + its counter).  The computed exhibits in
   Props/C03.v (example runs, refutations) use it rather than the regenerated table, so that a
   behaviour-preserving rewrite of the source (e.g. get() taking the lock as well) cannot change
   the number of micro-steps their schedules count on. *)
Definition tb_ref : lock_table :=
  mkTable CtorRLock
    (map (fun m => mkMeth LRI m [mkStmt TDirect true])
         [MSetItem; MGetItem; MDelItem; MPop; MPopItem; MClear; MSetDefault; MUpdate; MIor; MEq; MCopy; MLen; MContains]
     ++ [mkMeth LRI MGet [mkStmt TCall false; mkStmt TNone false]; mkMeth LRU MGetItem [mkStmt TDirect true]]).

(* ---- the hypothesis is not decorative --------------------------------------------- *)

(* a table in which __setitem__'s accesses are outside the lock *)
Definition tb_unlocked_setitem : lock_table :=
  mkTable CtorRLock [mkMeth LRI MSetItem [mkStmt TDirect false]].

Definition cfg1 : config := mkConfig LRI 1 None.

Definition progs_two_sets : nat -> list op :=
  fun t => match t with
           | 0 => [SetItem 0 10]
           | 1 => [SetItem 1 11]
           | _ => []
           end.

(* thread 0 is pre-empted right after `len(self) < self.max_size`, thread 1 runs its
   whole insertion, thread 0 resumes *)
Definition sched_bad : list nat := [0; 0; 0] ++ repeat 1 40 ++ repeat 0 40.

Lemma unlocked_refuted :
  let s := conc_run tb_unlocked_setitem cfg1 progs_two_sets shared_init sched_bad in
  t_done (m_thr s 0) = [RNone] /\ t_done (m_thr s 1) = [RNone] /\
  t_todo (m_thr s 0) = [] /\ t_todo (m_thr s 1) = [] /\
  view_len (m_sh s) = 2 /\ cf_max cfg1 = 1.
Proof. vm_compute. repeat split; reflexivity. Qed.

(* a plain (non re-entrant) Lock: one thread deadlocks on itself in setdefault -> self[key] *)
Definition tb_plain_lock (tb : lock_table) : lock_table := mkTable CtorLock (t_methods tb).

Definition progs_setdefault : nat -> list op :=
  fun t => match t with 0 => [SetDefault 0 10] | _ => [] end.
