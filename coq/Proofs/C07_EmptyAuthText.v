(* URL(text) round trip and text-level capstone for "file:///a/b"-style bases. *)
From Boltons Require Import Lib.Prelude Lib.C07_Str Spec.C07_Spec Gen.C07_Gen Model.C07_Model
     Check.C07_Check Proofs.C07_StrLemmas Proofs.C07_Rds Proofs.C07_Resolve Proofs.C07_Parse
     Proofs.C07_Navigate Proofs.C07_Text Proofs.C07_Refine Proofs.C07_RoundTrip Proofs.C07_EmptyAuth
     Proofs.C07_EmptyAuthRefine.
Open Scope N_scope.

Record wf_base_ea_text (b : url) : Prop := {
  eat_wf : wf_base_ea b;
  eat_sep : u_sep b = true;
  eat_port : u_port b = None;
  eat_scheme_ok : scheme_ok (u_scheme b) = true;
  eat_query : Forall kv_ok' (u_query b);
  eat_plain : plain (to_text b) }.

Theorem base_round_trip_ea b : wf_base_ea_text b -> url_of_text (to_text b) = Some b.
Proof.
  intros W. destruct (eat_wf b W) as [We _]. pose proof (eat_plain b W) as Hplain.
  destruct (ea_facts b We) as (segs & Hp & Hs & Hpt & T & U).
  unfold url_of_text. rewrite (plain_not_excluded _ Hplain). cbv zeta.
  rewrite T in *. rewrite (parse_recompose _ U). unfold uri_ea at 1 2 3 4 5 6 7.
  cbn [scheme authority path query fragment].
  change (or_empty (Some (u_scheme b))) with (u_scheme b). change (or_empty (Some (@nil N))) with (@nil N).
  rewrite (eat_scheme_ok b W). cbn [negb orb mem existsb].
  change (rpartition_at AT []) with (@nil N, false, @nil N). cbv beta iota zeta.
  change (partition_at COLON []) with (@nil N, false, @nil N). cbv beta iota zeta.
  cbn [host_ok is_nil negb orb andb nonempty].
  unfold uri_ea. cbn [authority path fragment].
  rewrite !or_empty_opt.
  assert (Pq : plain (query_text (u_query b))).
  { apply plain_recompose_parts in Hplain as [_ Pq]. unfold uri_ea in Pq. cbn [query] in Pq.
    pose proof (opt_spec (query_text (u_query b))) as S. destruct (opt (query_text (u_query b))).
    - destruct S as [-> _]. exact Pq.
    - rewrite S. reflexivity. }
  rewrite (parse_qsl_query_text _ (eat_query b W) Pq), Hpt.
  rewrite split_abs_path by (eapply Forall_impl; [|exact Hs]; apply seg_ok_noslash).
  rewrite <- Hp.
  pose proof (eat_sep b W) as E1. pose proof (eat_port b W) as E2.
  pose proof (ea_user b We) as E3. pose proof (ea_pass b We) as E4. pose proof (ea_host b We) as E5.
  clear -E1 E2 E3 E4 E5. destruct b as [sch sep us pw ho po pa qu fr]. cbn in *. subst. reflexivity.
Qed.

Theorem model_on_texts_empty_authority b d1 d2 f1 f2 o0 :
  wf_base_ea_text b -> dest_text_ok d1 -> dest_text_ok d2 ->
  exists o, c07_model (mkCase (to_text b) false (to_text d1) f1 (to_text d2) f2 o0) = Some o /\
            c07_holds (mkCase (to_text b) false (to_text d1) f1 (to_text d2) f2 o) = true.
Proof.
  intros Wb W1 W2. exists (record_obs b d1 d2). split.
  - apply c07_model_on_texts; [apply base_round_trip_ea; exact Wb | apply dest_round_trip; assumption ..].
  - apply ea_observation_satisfies_spec;
      [exact (eat_wf b Wb) | apply dest_text_ok_wf; assumption ..].
Qed.

Lemma ex_file_text_ok : wf_base_ea_text ex_file.
Proof.
  constructor.
  - exact (proj1 ex_file_ok).
  - vm_compute. reflexivity.
  - vm_compute. reflexivity.
  - vm_compute. reflexivity.
  - vm_compute. repeat first [ discriminate | reflexivity | exact I | split | constructor ].
  - vm_compute. reflexivity.
Qed.
