(* C08: a visit callback that raises, with reraise_visit=True (the default): the
   machine returns exactly the recursion run with the callback made total
   (exception = answer True), cut at the first call on which the callback
   raises - the exception propagates there and the calls made so far are the
   calls of the recursion up to and including that call. *)
From Boltons Require Import Lib.Prelude Lib.C08_Py Spec.C08_Spec Model.C08_Model Proofs.C08_Machine.

(* the part of one loop iteration that does not involve the visit callback:
   either "now call visit on (key, value) in this state", or a finished step *)
Definition step_pre (defs : table obj) (it : sitem) (rest : list sitem) (st : mstate)
  : (mstate * key * obj) + (mstate + outcome) :=
  match it with
  | SExit ky id k =>
      match nis st with
      | [] => inr (inr (Fail IndexError (lg st)))
      | (p0, new_items) :: nr =>
          let v := ONode id k (build erase k new_items) in
          let st' := mkSt rest (t_set (reg st) id v) nr p0
                          (lg st ++ [EExit p0 ky id (shallow_items new_items)]) v in
          match nr with
          | [] => inr (inl st')
          | _ => inl (st', ky, v)
          end
      end
  | SItem rt ky o =>
      let st0 := mkSt rest (reg st) (nis st) (pth st) (lg st) (cur st) in
      match match obj_id o with Some id => t_get (reg st) id | None => None end with
      | Some v => inl (st0, ky, v)
      | None =>
          let lg1 := lg st ++ [EEnter (pth st) ky (oref_of o) (in_view defs o)] in
          match o with
          | ONode id k items =>
              inr (inl (mkSt (map (fun kv => SItem false (fst kv) (snd kv)) items ++ SExit ky id k :: rest)
                             (t_set (reg st) id (impl_blank id k))
                             ((pth st, []) :: nis st)
                             (if rt then pth st else pth st ++ [ky])
                             lg1 (cur st)))
          | _ => inl (mkSt rest (reg st) (nis st) (pth st) lg1 (cur st), ky, o)
          end
      end
  end.

Lemma step_is_pre : forall v rr defs it rest st,
  step v rr defs it rest st =
  match step_pre defs it rest st with
  | inl (stx, ky, val) => visit_phase v rr stx ky val
  | inr r => r
  end.
Proof.
  intros. unfold step, step_pre. destruct it as [rt ky o|ky id k].
  - destruct (match obj_id o with Some id => t_get (reg st) id | None => None end); [reflexivity|].
    destruct o; reflexivity.
  - destruct (nis st) as [|[p0 ni] nr]; [reflexivity|]. destruct nr; reflexivity.
Qed.

Section Reraise.
  Variable mv : option mvisit_fn.
  Variable defs : table obj.

  Definition raises (e : event) : bool :=
    match mv, e with
    | Some f, EVisit p k _ v => match f p k v with None => true | Some _ => false end
    | _, _ => false
    end.
  Definition clean (lg : list event) : bool := forallb (fun e => negb (raises e)) lg.
  Fixpoint cut (lg : list event) : list event :=
    match lg with [] => [] | e :: r => if raises e then [e] else e :: cut r end.
  Definition cutO (o : outcome) : outcome :=
    match o with
    | Done _ _ lg | Fail _ lg => if clean lg then o else Fail VisitError (cut lg)
    | OutOfFuel => OutOfFuel
    end.

  Lemma clean_app : forall a b, clean (a ++ b) = clean a && clean b.
  Proof. intros. unfold clean. apply forallb_app. Qed.

  Lemma cut_app_clean : forall a b, clean a = true -> cut (a ++ b) = a ++ cut b.
  Proof.
    induction a as [|e r IH]; intros b H; [reflexivity|]. cbn in *.
    apply andb_true_iff in H as [H1 H2]. destruct (raises e); [discriminate|]. rewrite IH; [reflexivity|assumption].
  Qed.

  Lemma cut_at : forall l ev suf, clean l = true -> raises ev = true ->
    clean (l ++ ev :: suf) = false /\ cut (l ++ ev :: suf) = l ++ [ev].
  Proof.
    intros l ev suf Hc Hr. split.
    - rewrite clean_app. cbn. rewrite Hr. cbn. apply andb_false_r.
    - rewrite cut_app_clean by assumption. cbn. rewrite Hr. reflexivity.
  Qed.

  Notation run1 := (run mv true defs).
  Notation run2 := (run (lift (total mv)) true defs).
  Notation vp1 := (visit_phase mv true).
  Notation vp2 := (visit_phase (lift (total mv)) true).

  Definition extends (l l' : list event) : Prop := exists suf, l' = l ++ suf.
  Lemma extends_refl : forall l, extends l l. Proof. intro l. exists []. symmetry. apply app_nil_r. Qed.
  Lemma extends_trans : forall a b c, extends a b -> extends b c -> extends a c.
  Proof. intros a b c [s1 ->] [s2 ->]. exists (s1 ++ s2). symmetry. apply app_assoc. Qed.

  Definition out_log (o : outcome) : option (list event) :=
    match o with Done _ _ l | Fail _ l => Some l | OutOfFuel => None end.
  Definition res_log (r : mstate + outcome) : option (list event) :=
    match r with inl st' => Some (lg st') | inr o => out_log o end.

  (* visit_phase: both machines agree and the log stays clean, or machine 1 stops
     with the exception while machine 2 goes on from the same log *)
  Lemma vp_rel : forall st ky v, clean (lg st) = true ->
    (vp1 st ky v = vp2 st ky v
     /\ forall l, res_log (vp2 st ky v) = Some l -> clean l = true /\ extends (lg st) l)
    \/ (exists ev, raises ev = true
        /\ vp1 st ky v = inr (Fail VisitError (lg st ++ [ev]))
        /\ res_log (vp2 st ky v) = Some (lg st ++ [ev])).
  Proof.
    intros st ky v Hc. unfold visit_phase, call_visit, lift, total. destruct mv as [f|] eqn:Emv.
    - destruct (f (pth st) ky (erase v)) as [a|] eqn:F.
      + left. split; [reflexivity|].
        assert (Hc' : clean (lg st ++ [EVisit (pth st) ky (oref_of v) (erase v)]) = true).
        { rewrite clean_app, Hc. cbn. unfold raises. rewrite Emv, F. reflexivity. }
        assert (He : extends (lg st) (lg st ++ [EVisit (pth st) ky (oref_of v) (erase v)])) by (eexists; reflexivity).
        intros l Hl. destruct (apply_action oval a ky v); [destruct (nis st) as [|[p0 acc] r]|];
          cbn in Hl; inversion Hl; subst; split; assumption.
      + right. exists (EVisit (pth st) ky (oref_of v) (erase v)). split; [unfold raises; rewrite Emv, F; reflexivity|].
        split; [reflexivity|].
        cbn [apply_action]. destruct (nis st) as [|[p0 acc] r]; reflexivity.
    - left. split; [reflexivity|]. intros l Hl.
      destruct (nis st) as [|[p0 acc] r]; cbn in Hl; inversion Hl; subst; split; try assumption; apply extends_refl.
  Qed.

  (* the visit-independent part of a step only appends enter/exit events *)
  Lemma pre_log : forall it rest st, clean (lg st) = true ->
    match step_pre defs it rest st with
    | inl (stx, _, _) => clean (lg stx) = true /\ extends (lg st) (lg stx)
    | inr r => forall l, res_log r = Some l -> clean l = true /\ extends (lg st) l
    end.
  Proof.
    intros it rest st Hc.
    assert (Hne : forall e, (forall p k r v, e <> EVisit p k r v) -> clean (lg st ++ [e]) = true).
    { intros e He. rewrite clean_app, Hc. cbn. unfold raises. destruct mv; [|reflexivity].
      destruct e; try reflexivity. exfalso. eapply He. reflexivity. }
    assert (Hex : forall e, extends (lg st) (lg st ++ [e])) by (intro e; eexists; reflexivity).
    unfold step_pre. destruct it as [rt ky o|ky id k].
    - destruct (match obj_id o with Some id => t_get (reg st) id | None => None end).
      + cbn [lg]. split; [assumption|apply extends_refl].
      + destruct o; cbn [lg res_log]; try (split; [apply Hne; discriminate|apply Hex]).
        intros l Hl. inversion Hl; subst. split; [apply Hne; discriminate|apply Hex].
    - destruct (nis st) as [|[p0 ni] nr].
      + intros l Hl. cbn in Hl. inversion Hl; subst. split; [assumption|apply extends_refl].
      + destruct nr; cbn [lg res_log].
        * intros l Hl. inversion Hl; subst. split; [apply Hne; discriminate|apply Hex].
        * split; [apply Hne; discriminate|apply Hex].
  Qed.

  (* the log of the total machine only grows *)
  Lemma run2_ext : forall fuel st l, out_log (run2 fuel st) = Some l -> extends (lg st) l.
  Proof.
    induction fuel as [|f IH]; intros st l H; [discriminate|]. cbn [run] in H.
    destruct (stk st) as [|it rest]; [cbn in H; inversion H; apply extends_refl|].
    rewrite step_is_pre in H.
    assert (P := fun Hc => pre_log it rest st Hc).
    (* growth does not depend on cleanliness: redo the two facts directly *)
    clear P.
    destruct (step_pre defs it rest st) as [[[stx ky] val]|r] eqn:E.
    - assert (Hx : extends (lg st) (lg stx)).
      { unfold step_pre in E. destruct it as [rt k0 o|k0 id k].
        - destruct (match obj_id o with Some id => t_get (reg st) id | None => None end);
            [inversion E; subst; apply extends_refl|].
          destruct o; inversion E; subst; cbn [lg]; eexists; reflexivity.
        - destruct (nis st) as [|[p0 ni] nr]; [discriminate|]. destruct nr; inversion E; subst; cbn [lg].
          eexists; reflexivity. }
      assert (Hv : forall l', res_log (vp2 stx ky val) = Some l' -> extends (lg stx) l').
      { intros l' Hl'. unfold visit_phase, call_visit, lift, total in Hl'. destruct mv as [g|] eqn:Emv; rewrite ?Emv in Hl'.
        - destruct (g (pth stx) ky (erase val)) as [a|];
            [destruct (apply_action oval a ky val)|cbn [apply_action] in Hl'];
            destruct (nis stx) as [|[p0 acc] r]; cbn in Hl'; inversion Hl'; subst; eexists; reflexivity.
        - destruct (nis stx) as [|[p0 acc] r]; cbn in Hl'; inversion Hl'; subst; apply extends_refl. }
      destruct (vp2 stx ky val) as [st'|o] eqn:EV.
      + eapply extends_trans; [exact Hx|]. eapply extends_trans; [apply Hv; reflexivity|]. apply IH. exact H.
      + eapply extends_trans; [exact Hx|]. apply Hv. exact H.
    - assert (Hx : forall l', res_log r = Some l' -> extends (lg st) l').
      { intros l' Hl'. unfold step_pre in E. destruct it as [rt k0 o|k0 id k].
        - destruct (match obj_id o with Some id => t_get (reg st) id | None => None end); [discriminate|].
          destruct o; inversion E; subst; cbn in Hl'; inversion Hl'; subst; eexists; reflexivity.
        - destruct (nis st) as [|[p0 ni] nr].
          + inversion E; subst. cbn in Hl'. inversion Hl'; subst. apply extends_refl.
          + destruct nr; inversion E; subst. cbn in Hl'. inversion Hl'; subst. eexists; reflexivity. }
      destruct r as [st'|o].
      + eapply extends_trans; [apply Hx; reflexivity|]. apply IH. exact H.
      + apply Hx. exact H.
  Qed.

  Lemma run_rel : forall fuel st, clean (lg st) = true -> run2 fuel st <> OutOfFuel ->
    run1 fuel st = cutO (run2 fuel st).
  Proof.
    induction fuel as [|f IH]; intros st Hc Hne; [exfalso; apply Hne; reflexivity|].
    cbn [run] in *. destruct (stk st) as [|it rest].
    - cbn [cutO]. rewrite Hc. reflexivity.
    - rewrite !step_is_pre in *. assert (P := pre_log it rest st Hc).
      destruct (step_pre defs it rest st) as [[[stx ky] val]|r].
      + destruct P as [Hcx Hex].
        destruct (vp_rel stx ky val Hcx) as [[Heq Hl]|[ev [Hr [H1 H2]]]].
        * rewrite Heq. destruct (vp2 stx ky val) as [st'|o].
          -- apply IH; [apply (Hl _ eq_refl)|assumption].
          -- destruct o as [v0 m0 l0|e0 l0|]; cbn [cutO]; [| |reflexivity];
               destruct (Hl l0 eq_refl) as [Hc0 _]; rewrite Hc0; reflexivity.
        * rewrite H1. destruct (vp2 stx ky val) as [st'|o].
          -- cbn in H2. inversion H2 as [H3].
             destruct (run2 f st') as [v0 m0 l0|e0 l0|] eqn:ER; [| |exfalso; apply Hne; reflexivity].
             ++ destruct (run2_ext f st' l0) as [suf Hs]; [rewrite ER; reflexivity|].
                rewrite H3 in Hs. rewrite <- app_assoc in Hs. cbn [app] in Hs.
                destruct (cut_at (lg stx) ev suf Hcx Hr) as [C1 C2].
                cbn [cutO]. rewrite Hs, C1, C2. congruence.
             ++ destruct (run2_ext f st' l0) as [suf Hs]; [rewrite ER; reflexivity|].
                rewrite H3 in Hs. rewrite <- app_assoc in Hs. cbn [app] in Hs.
                destruct (cut_at (lg stx) ev suf Hcx Hr) as [C1 C2].
                cbn [cutO]. rewrite Hs, C1, C2. congruence.
          -- destruct o as [v0 m0 l0|e0 l0|]; cbn in H2; inversion H2; subst;
               destruct (cut_at (lg stx) ev [] Hcx Hr) as [C1 C2]; cbn [cutO]; rewrite C1, C2; reflexivity.
      + destruct r as [st'|o].
        * apply IH; [apply (P _ eq_refl)|assumption].
        * destruct o as [v0 m0 l0|e0 l0|]; cbn [cutO]; [| |reflexivity];
            destruct (P l0 eq_refl) as [Hc0 _]; rewrite Hc0; reflexivity.
  Qed.

  Theorem remap_reraise : forall root,
    remap mv true defs root = cutO (srb_root impl_blank (total mv) defs root).
  Proof.
    intro root. rewrite <- (machine_is_recursion (total mv) true defs root).
    unfold remap. apply run_rel; [reflexivity|].
    exact (remap_terminates (total mv) true defs root).
  Qed.
End Reraise.
