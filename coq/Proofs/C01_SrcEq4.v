(* C01, (T) tie from the Python source, the read-only iteration methods: the regenerated programs of
   iterkeys, __reversed__ (which walk the ring themselves), iteritems, keys, __iter__, itervalues, items,
   values, interpreted by Model/C01_SrcLang.v with the callees interpreted one layer below, compute
   exactly the pointer-level model's reads and leave the state unchanged. *)
From Boltons Require Import Lib.Prelude Spec.C01_Spec Model.C01_Model Model.C01_Ptr Model.C01_PModel
  Model.C01_SrcLang Gen.C01_Src Proofs.C01_Base Proofs.C01_Prim Proofs.C01_Ptr Proofs.C01_PSimDefs Proofs.C01_PSim1
  Proofs.C01_SrcDefs Proofs.C01_SrcInv Proofs.C01_SrcEq1 Proofs.C01_SrcEq2.

Local Arguments d_get : simpl never.
Local Arguments d_set : simpl never.
Local Arguments d_del : simpl never.
Local Arguments rev : simpl never.
Local Arguments sem : simpl never.
Local Arguments fuel_of : simpl never.
Local Arguments loop : simpl never.
Local Arguments for_each : simpl never.
Local Arguments for_each2 : simpl never.
Local Arguments pm_items : simpl never.
Local Arguments pm_iterkeys : simpl never.
Local Arguments pm_items1 : simpl never.
Local Arguments p_cells : simpl never.
Local Arguments p_cells_rev : simpl never.
Local Arguments acc_toks : simpl never.
Local Arguments acc_pairs : simpl never.

Definition read_ok (p : pomd) (r : res pv) : res pv * pomd := (r, p).

(* ---- the ring, as the interpreter sees it -------------------------------------------------------- *)
(* from address a, following dir, one meets exactly the cells of l and then root *)
Fixpoint chain (dir : pcell -> nat) (h : heap) (a : nat) (l : list cell) : Prop :=
  match l with
  | [] => a = root
  | c :: r => a = addr c /\
              exists pc, d_get h a = Some pc /\ p_key pc = c_key c /\ p_val pc = c_val c /\
                         chain dir h (dir pc) r
  end.

Lemma walk_chain dir h : forall l fuel cur,
  h_walk dir h fuel cur = Ok (map cell_triple l) -> chain dir h cur l.
Proof.
  induction l as [|c r IH]; intros fuel cur H; destruct fuel as [|f]; simpl in H; try discriminate.
  - destruct (Nat.eqb cur root) eqn:E; [apply Nat.eqb_eq in E; exact E|].
    destruct (d_get h cur) as [pc|]; [|discriminate].
    destruct (h_walk dir h f (dir pc)); discriminate.
  - destruct (Nat.eqb cur root) eqn:E; [discriminate|].
    destruct (d_get h cur) as [pc|] eqn:Ed; [|discriminate].
    destruct (h_walk dir h f (dir pc)) as [r'|] eqn:Ew; simpl in H; [|discriminate].
    unfold cell_triple at 1 in H. injection H as H1 H2 H3 H4. subst r'.
    simpl. split; [exact H1|]. exists pc. repeat split; try assumption.
    apply (IH f). exact Ew.
Qed.

Lemma good_chain p : Good p ->
  exists r, d_get (pheap p) root = Some r
    /\ chain p_next (pheap p) (p_next r) (p_cells p)
    /\ chain p_prev (pheap p) (p_prev r) (p_cells_rev p)
    /\ length (p_cells p) < fuel_of p /\ length (p_cells_rev p) < fuel_of p.
Proof.
  intro G. destruct (good_lift p G) as [R [HC Erev]].
  change (ll (lift p)) with (p_cells p) in *.
  pose proof HC as [Hid [Hfresh _]]. change (ll (lift p)) with (p_cells p) in *.
  assert (F : length (p_cells p) < S (pnxt p)).
  { pose proof (cells_bound _ _ Hid Hfresh) as H. change (C01_Model.nxt (lift p)) with (pnxt p) in H. lia. }
  pose proof (Rep_forward _ _ _ R F) as Hf. pose proof (Rep_backward _ _ _ R F) as Hb.
  unfold h_forward in Hf. unfold h_backward in Hb.
  destruct (d_get (pheap p) root) as [r|] eqn:Er; [|discriminate].
  exists r. split; [reflexivity|]. split; [|split; [|split]].
  - apply (walk_chain _ _ _ _ _ Hf).
  - rewrite Erev. rewrite <- map_rev in Hb. apply (walk_chain _ _ _ _ _ Hb).
  - exact F.
  - rewrite Erev, rev_length. exact F.
Qed.

(* ---- what a generator has yielded so far ----------------------------------------------------------- *)
Definition toks_acc (en : env) (acc : list nat) : Prop :=
  match env_get en acc_toks with Ok v => v = VToks acc | Raise _ => acc = [] end.
Definition pairs_acc (en : env) (acc : pairs) : Prop :=
  match env_get en acc_pairs with Ok v => v = VPairs acc | Raise _ => acc = [] end.

Lemma env_get_eq en x v : env_get (env_set en x v) x = Ok v.
Proof. unfold env_set. cbn. rewrite Nat.eqb_refl. reflexivity. Qed.

Lemma env_get_ne en x y v : x <> y -> env_get (env_set en y v) x = env_get en x.
Proof. intro H. unfold env_set. cbn. apply Nat.eqb_neq in H. rewrite H. reflexivity. Qed.

Lemma small_ne_toks x : x < 100 -> x <> acc_toks.
Proof. unfold acc_toks. lia. Qed.
Lemma small_ne_pairs x : x < 100 -> x <> acc_pairs.
Proof. unfold acc_pairs. lia. Qed.
Lemma toks_ne_small x : x < 100 -> acc_toks <> x.
Proof. unfold acc_toks. lia. Qed.
Lemma pairs_ne_small x : x < 100 -> acc_pairs <> x.
Proof. unfold acc_pairs. lia. Qed.

Lemma toks_acc_set en acc x v : x < 100 -> toks_acc en acc -> toks_acc (env_set en x v) acc.
Proof. intros Hx H. unfold toks_acc. rewrite env_get_ne by (apply toks_ne_small; exact Hx). exact H. Qed.
Lemma pairs_acc_set en acc x v : x < 100 -> pairs_acc en acc -> pairs_acc (env_set en x v) acc.
Proof. intros Hx H. unfold pairs_acc. rewrite env_get_ne by (apply pairs_ne_small; exact Hx). exact H. Qed.

Lemma exec_yield_tok callee fu e en s t acc :
  eval callee en e s = (Ok (VTok t), s) -> toks_acc en acc ->
  exists en', exec callee fu (SYield e) en s = (ONormal, en', s) /\ toks_acc en' (acc ++ [t])
              /\ forall x, x < 100 -> env_get en' x = env_get en x.
Proof.
  intros He Ha. cbn [exec]. rewrite He. unfold toks_acc in Ha.
  destruct (env_get en acc_toks) as [v|x] eqn:E.
  - subst v. eexists. split; [reflexivity|]. split.
    + unfold toks_acc. rewrite env_get_eq. reflexivity.
    + intros x Hx. apply env_get_ne, small_ne_toks, Hx.
  - subst acc. eexists. split; [reflexivity|]. split.
    + unfold toks_acc. rewrite env_get_eq. reflexivity.
    + intros y Hy. apply env_get_ne, small_ne_toks, Hy.
Qed.

Lemma exec_yield_item callee fu e en s a b acc :
  eval callee en e s = (Ok (VItem a b), s) -> pairs_acc en acc ->
  exists en', exec callee fu (SYield e) en s = (ONormal, en', s) /\ pairs_acc en' (acc ++ [(a, b)])
              /\ forall x, x < 100 -> env_get en' x = env_get en x.
Proof.
  intros He Ha. cbn [exec]. rewrite He. unfold pairs_acc in Ha.
  destruct (env_get en acc_pairs) as [v|x] eqn:E.
  - subst v. eexists. split; [reflexivity|]. split.
    + unfold pairs_acc. rewrite env_get_eq. reflexivity.
    + intros x Hx. apply env_get_ne, small_ne_pairs, Hx.
  - subst acc. eexists. split; [reflexivity|]. split.
    + unfold pairs_acc. rewrite env_get_eq. reflexivity.
    + intros y Hy. apply env_get_ne, small_ne_pairs, Hy.
Qed.

Lemma eval_yielded_toks callee en s acc : toks_acc en acc ->
  eval callee en EYieldedToks s = (Ok (VToks acc), s).
Proof. intro H. cbn [eval]. unfold toks_acc in H. destruct (env_get en acc_toks); subst; reflexivity. Qed.

Lemma eval_yielded_pairs callee en s acc : pairs_acc en acc ->
  eval callee en EYieldedPairs s = (Ok (VPairs acc), s).
Proof. intro H. cbn [eval]. unfold pairs_acc in H. destruct (env_get en acc_pairs); subst; reflexivity. Qed.

(* ---- the loop condition  curr is not root --------------------------------------------------------- *)
Lemma cond_ring callee en s x r a :
  env_get en x = Ok (VCell a) -> env_get en r = Ok (VCell root) ->
  eval_truth callee (ENotIs (EVar x) (EVar r)) en s = (Ok (negb (Nat.eqb a root)), s).
Proof. intros H1 H2. unfold eval_truth. cbn. rewrite H1. cbn. rewrite H2. reflexivity. Qed.

Lemma eval_idx callee en s x a pc f :
  env_get en x = Ok (VCell a) -> d_get (pheap s) a = Some pc ->
  eval callee en (EIdx (EVar x) f) s = (Ok (cell_field pc f), s).
Proof. intros H1 H2. cbn. rewrite H1. cbn. rewrite H2. reflexivity. Qed.

Lemma exec_seq callee fu a b en s :
  exec callee fu (SSeq a b) en s
  = match exec callee fu a en s with (ONormal, en1, s1) => exec callee fu b en1 s1 | r => r end.
Proof. reflexivity. Qed.

Lemma exec_assign callee fu x e en s v :
  eval callee en e s = (Ok v, s) -> exec callee fu (SAssign x e) en s = (ONormal, env_set en x v, s).
Proof. intro H. cbn [exec]. rewrite H. reflexivity. Qed.

(* ---- iterkeys(multi=True):  while curr is not root: yield curr[KEY]; curr = curr[NEXT] ------------- *)
Definition keys_body : stmt := SSeq (SYield (EIdx (EVar 2) FKey)) (SAssign 2 (EIdx (EVar 2) FNext)).

Lemma exec_keys_body callee fuel en s c pc acc :
  env_get en 2 = Ok (VCell (addr c)) -> d_get (pheap s) (addr c) = Some pc -> p_key pc = c_key c ->
  toks_acc en acc ->
  exists en', exec callee fuel keys_body en s = (ONormal, en', s)
    /\ toks_acc en' (acc ++ [c_key c]) /\ env_get en' 2 = Ok (VCell (p_next pc))
    /\ forall x, x < 100 -> x <> 2 -> env_get en' x = env_get en x.
Proof.
  intros E2 Ed Ek Ha. unfold keys_body. rewrite exec_seq.
  destruct (exec_yield_tok callee fuel (EIdx (EVar 2) FKey) en s (c_key c) acc) as (en1 & X1 & A1 & Fr1).
  { rewrite (eval_idx _ _ _ _ _ _ FKey E2 Ed). cbn. rewrite Ek. reflexivity. }
  { exact Ha. }
  rewrite X1.
  rewrite (exec_assign _ _ _ _ _ _ (VCell (p_next pc))).
  2:{ rewrite (eval_idx _ en1 s 2 (addr c) pc FNext); [reflexivity|rewrite Fr1 by lia; exact E2|exact Ed]. }
  eexists. split; [reflexivity|]. split; [|split].
  - apply toks_acc_set; [lia | exact A1].
  - apply env_get_eq.
  - intros x Hx Hn. rewrite env_get_ne by exact Hn. apply Fr1, Hx.
Qed.
Local Arguments keys_body : simpl never.

Lemma loop_keys callee fuel : forall suf fu en s a acc,
  chain p_next (pheap s) a suf ->
  env_get en 1 = Ok (VCell root) -> env_get en 2 = Ok (VCell a) -> toks_acc en acc ->
  length suf < fu ->
  exists en', loop fu (eval_truth callee (ENotIs (EVar 2) (EVar 1))) (exec callee fuel keys_body) en s
              = (ONormal, en', s)
     /\ toks_acc en' (acc ++ map c_key suf).
Proof.
  induction suf as [|c r IH]; intros fu en s a acc Hc E1 E2 Ha Hfu;
    (destruct fu as [|fu]; [inversion Hfu|]); rewrite loop_S, (cond_ring _ _ _ 2 1 a E2 E1).
  - simpl in Hc. subst a. cbn. exists en. rewrite app_nil_r. split; [reflexivity | exact Ha].
  - destruct Hc as [Ea (pc & Ed & Ek & Ev & Hc)]. subst a.
    change (negb (Nat.eqb (addr c) root)) with true. cbn match.
    destruct (exec_keys_body callee fuel en s c pc acc E2 Ed Ek Ha) as (en1 & X1 & A1 & N1 & Fr1).
    rewrite X1.
    destruct (IH fu en1 s (p_next pc) (acc ++ [c_key c])) as (en' & X2 & A2); try assumption.
    + rewrite Fr1 by lia. exact E1.
    + simpl in Hfu. lia.
    + exists en'. split; [exact X2|]. simpl map. rewrite <- app_assoc in A2. exact A2.
Qed.

Lemma exec_if callee fu c a b en s :
  exec callee fu (SIf c a b) en s
  = match eval_truth callee c en s with
    | (Ok true, s1) => exec callee fu a en s1
    | (Ok false, s1) => exec callee fu b en s1
    | (Raise x0, s1) => (ORaise x0, en, s1)
    end.
Proof. reflexivity. Qed.

(* ---- iterkeys(multi=False): the same walk with the local set [yielded] ---------------------------- *)
Definition uniq_body : stmt :=
  SSeq (SAssign 4 (EIdx (EVar 2) FKey))
    (SSeq (SIf (ENot (EInSet (EVar 4) (EVar 3))) (SSeq (SSetAdd 3 (EVar 4)) (SYield (EVar 4))) SPass)
          (SAssign 2 (EIdx (EVar 2) FNext))).

Lemma exec_uniq_body callee fuel en s c pc acc yielded :
  env_get en 2 = Ok (VCell (addr c)) -> d_get (pheap s) (addr c) = Some pc -> p_key pc = c_key c ->
  env_get en 3 = Ok (VSet yielded) -> toks_acc en acc ->
  exists en', exec callee fuel uniq_body en s = (ONormal, en', s)
    /\ env_get en' 2 = Ok (VCell (p_next pc)) /\ env_get en' 1 = env_get en 1
    /\ (if mem_nat (c_key c) yielded
        then toks_acc en' acc /\ env_get en' 3 = Ok (VSet yielded)
        else toks_acc en' (acc ++ [c_key c]) /\ env_get en' 3 = Ok (VSet (c_key c :: yielded))).
Proof.
  intros E2 Ed Ek E3 Ha. unfold uniq_body. rewrite exec_seq.
  rewrite (exec_assign _ _ _ _ _ _ (VTok (c_key c))).
  2:{ rewrite (eval_idx _ _ _ _ _ _ FKey E2 Ed). cbn. rewrite Ek. reflexivity. }
  set (en1 := env_set en 4 (VTok (c_key c))).
  assert (E14 : env_get en1 4 = Ok (VTok (c_key c))) by apply env_get_eq.
  assert (E13 : env_get en1 3 = Ok (VSet yielded)) by (unfold en1; rewrite env_get_ne by lia; exact E3).
  assert (E12 : env_get en1 2 = Ok (VCell (addr c))) by (unfold en1; rewrite env_get_ne by lia; exact E2).
  assert (A1 : toks_acc en1 acc) by (apply toks_acc_set; [lia | exact Ha]).
  assert (E11 : env_get en1 1 = env_get en 1) by (unfold en1; rewrite env_get_ne by lia; reflexivity).
  clearbody en1.
  rewrite exec_seq, exec_if.
  assert (Ht : eval_truth callee (ENot (EInSet (EVar 4) (EVar 3))) en1 s
               = (Ok (negb (mem_nat (c_key c) yielded)), s)).
  { unfold eval_truth. cbn. rewrite E14. cbn. rewrite E13. reflexivity. }
  rewrite Ht. destruct (mem_nat (c_key c) yielded) eqn:Em; cbn [negb].
  - cbn [exec].
    rewrite (eval_idx _ en1 s 2 (addr c) pc FNext E12 Ed). cbn [cell_field].
    eexists. split; [reflexivity|]. split; [apply env_get_eq|]. split; [|split].
    + rewrite env_get_ne by lia. exact E11.
    + apply toks_acc_set; [lia | exact A1].
    + rewrite env_get_ne by lia. exact E13.
  - rewrite exec_seq.
    assert (Hs : exec callee fuel (SSetAdd 3 (EVar 4)) en1 s
                 = (ONormal, env_set en1 3 (VSet (c_key c :: yielded)), s)).
    { cbn. rewrite E14, E13. reflexivity. }
    rewrite Hs. set (en2 := env_set en1 3 (VSet (c_key c :: yielded))).
    assert (E24 : env_get en2 4 = Ok (VTok (c_key c))) by (unfold en2; rewrite env_get_ne by lia; exact E14).
    assert (E23 : env_get en2 3 = Ok (VSet (c_key c :: yielded))) by apply env_get_eq.
    assert (E22 : env_get en2 2 = Ok (VCell (addr c))) by (unfold en2; rewrite env_get_ne by lia; exact E12).
    assert (E21 : env_get en2 1 = env_get en 1) by (unfold en2; rewrite env_get_ne by lia; exact E11).
    assert (A2 : toks_acc en2 acc) by (apply toks_acc_set; [lia | exact A1]).
    clearbody en2.
    destruct (exec_yield_tok callee fuel (EVar 4) en2 s (c_key c) acc) as (en3 & X3 & A3 & Fr3).
    { cbn. rewrite E24. reflexivity. }
    { exact A2. }
    rewrite X3.
    rewrite (exec_assign _ _ _ _ _ _ (VCell (p_next pc))).
    2:{ rewrite (eval_idx _ en3 s 2 (addr c) pc FNext); [reflexivity| |exact Ed].
        rewrite Fr3 by lia. exact E22. }
    eexists. split; [reflexivity|]. split; [apply env_get_eq|]. split; [|split].
    + rewrite env_get_ne by lia. rewrite Fr3 by lia. exact E21.
    + apply toks_acc_set; [lia | exact A3].
    + rewrite env_get_ne by lia. rewrite Fr3 by lia. exact E23.
Qed.
Local Arguments uniq_body : simpl never.

Lemma loop_uniq callee fuel : forall suf fu en s a acc yielded,
  chain p_next (pheap s) a suf ->
  env_get en 1 = Ok (VCell root) -> env_get en 2 = Ok (VCell a) ->
  env_get en 3 = Ok (VSet yielded) -> toks_acc en acc ->
  length suf < fu ->
  exists en', loop fu (eval_truth callee (ENotIs (EVar 2) (EVar 1))) (exec callee fuel uniq_body) en s
              = (ONormal, en', s)
     /\ toks_acc en' (acc ++ walk_keys yielded suf).
Proof.
  induction suf as [|c r IH]; intros fu en s a acc yielded Hc E1 E2 E3 Ha Hfu;
    (destruct fu as [|fu]; [inversion Hfu|]); rewrite loop_S, (cond_ring _ _ _ 2 1 a E2 E1).
  - simpl in Hc. subst a. cbn. exists en. rewrite app_nil_r. split; [reflexivity | exact Ha].
  - destruct Hc as [Ea (pc & Ed & Ek & Ev & Hc)]. subst a.
    change (negb (Nat.eqb (addr c) root)) with true. cbn match.
    destruct (exec_uniq_body callee fuel en s c pc acc yielded E2 Ed Ek E3 Ha) as (en1 & X1 & N1 & R1 & C1).
    rewrite X1. simpl walk_keys. simpl in Hfu.
    destruct (mem_nat (c_key c) yielded); destruct C1 as [A1 S1].
    + destruct (IH fu en1 s (p_next pc) acc yielded) as (en' & X2 & A2); try assumption.
      * rewrite R1. exact E1.
      * lia.
      * exists en'. split; assumption.
    + destruct (IH fu en1 s (p_next pc) (acc ++ [c_key c]) (c_key c :: yielded)) as (en' & X2 & A2);
        try assumption.
      * rewrite R1. exact E1.
      * lia.
      * exists en'. split; [exact X2|]. rewrite <- app_assoc in A2. exact A2.
Qed.

Lemma exec_while callee fu c b en s :
  exec callee fu (SWhile c b) en s = loop fu (eval_truth callee c) (exec callee fu b) en s.
Proof. reflexivity. Qed.

Lemma exec_return callee fu e en s v :
  eval callee en e s = (Ok v, s) -> exec callee fu (SReturn e) en s = (OReturn v, en, s).
Proof. intro H. cbn [exec]. rewrite H. reflexivity. Qed.

Definition ring_cond : ex := ENotIs (EVar 2) (EVar 1).

Definition iterkeys_walk : stmt :=
  SSeq (SAssign 1 ERoot) (SSeq (SAssign 2 (EIdx (EVar 1) FNext))
    (SIf (EVar 0) (SWhile ring_cond keys_body) (SSeq (SAssign 3 ESetNew) (SWhile ring_cond uniq_body)))).

Lemma gen_iterkeys_eq : gen_iterkeys = SSeq iterkeys_walk (SReturn EYieldedToks).
Proof. reflexivity. Qed.

Lemma exec_iterkeys_walk callee p multi : Good p ->
  exists en', exec callee (fuel_of p) iterkeys_walk [(0, VBool multi)] p = (ONormal, en', p)
    /\ toks_acc en' (if multi then map c_key (p_cells p) else pm_iterkeys p).
Proof.
  intro G. destruct (good_chain p G) as (r & Er & Cf & _ & Ff & _).
  unfold iterkeys_walk. rewrite exec_seq.
  rewrite (exec_assign _ _ _ _ _ _ (VCell root)) by reflexivity.
  set (en1 := env_set [(0, VBool multi)] 1 (VCell root)).
  assert (E11 : env_get en1 1 = Ok (VCell root)) by reflexivity.
  assert (E10 : env_get en1 0 = Ok (VBool multi)) by reflexivity.
  assert (A1 : toks_acc en1 []) by reflexivity.
  clearbody en1.
  rewrite exec_seq.
  rewrite (exec_assign _ _ _ _ _ _ (VCell (p_next r))) by (rewrite (eval_idx _ _ _ _ _ _ FNext E11 Er); reflexivity).
  set (en2 := env_set en1 2 (VCell (p_next r))).
  assert (E22 : env_get en2 2 = Ok (VCell (p_next r))) by apply env_get_eq.
  assert (E21 : env_get en2 1 = Ok (VCell root)) by (unfold en2; rewrite env_get_ne by lia; exact E11).
  assert (E20 : env_get en2 0 = Ok (VBool multi)) by (unfold en2; rewrite env_get_ne by lia; exact E10).
  assert (A2 : toks_acc en2 []) by (apply toks_acc_set; [lia | exact A1]).
  clearbody en2.
  rewrite exec_if.
  assert (Ht : eval_truth callee (EVar 0) en2 p = (Ok multi, p)).
  { unfold eval_truth. cbn. rewrite E20. reflexivity. }
  rewrite Ht. destruct multi.
  - rewrite exec_while. unfold ring_cond.
    destruct (loop_keys callee (fuel_of p) (p_cells p) (fuel_of p) en2 p (p_next r) []) as (en' & X & A);
      try assumption.
    exists en'. split; assumption.
  - rewrite exec_seq. rewrite (exec_assign _ _ _ _ _ _ (VSet [])) by reflexivity.
    rewrite exec_while. unfold ring_cond.
    destruct (loop_uniq callee (fuel_of p) (p_cells p) (fuel_of p) (env_set en2 3 (VSet [])) p (p_next r) [] [])
      as (en' & X & A); try assumption.
    + apply env_get_eq.
    + exists en'. split; assumption.
Qed.
Local Arguments iterkeys_walk : simpl never.

(* layer 0: the two generators that walk the ring themselves *)
Lemma source_iterkeys n p multi : Good p ->
  sem (S n) MIterKeys [VBool multi] p
  = (Ok (VToks (if multi then map c_key (p_cells p) else pm_iterkeys p)), p).
Proof.
  intro G. rewrite sem_S, run_body_fin. unfold gen_prog. rewrite gen_iterkeys_eq. cbn [bind_params].
  destruct (exec_iterkeys_walk (sem n) p multi G) as (en' & X & A).
  rewrite exec_seq, X. rewrite (exec_return _ _ _ _ _ _ (eval_yielded_toks _ _ _ _ A)). reflexivity.
Qed.

(* ---- iteritems ------------------------------------------------------------------------------------- *)
Lemma eval_tuple2 callee en a b s x y :
  eval callee en a s = (Ok (VTok x), s) -> eval callee en b s = (Ok (VTok y), s) ->
  eval callee en (ETuple2 a b) s = (Ok (VItem x y), s).
Proof. intros H1 H2. cbn [eval]. rewrite H1, H2. reflexivity. Qed.

Lemma eval_tuple2_raise callee en a b s x e :
  eval callee en a s = (Ok (VTok x), s) -> eval callee en b s = (Raise e, s) ->
  eval callee en (ETuple2 a b) s = (Raise e, s).
Proof. intros H1 H2. cbn [eval]. rewrite H1, H2. reflexivity. Qed.

Lemma exec_yield_raise callee fu e en s x :
  eval callee en e s = (Raise x, s) -> exec callee fu (SYield e) en s = (ORaise x, en, s).
Proof. intro H. cbn [exec]. rewrite H. reflexivity. Qed.

Definition items_body : stmt :=
  SSeq (SYield (ETuple2 (EIdx (EVar 2) FKey) (EIdx (EVar 2) FVal))) (SAssign 2 (EIdx (EVar 2) FNext)).

Lemma exec_items_body callee fuel en s c pc acc :
  env_get en 2 = Ok (VCell (addr c)) -> d_get (pheap s) (addr c) = Some pc ->
  p_key pc = c_key c -> p_val pc = c_val c ->
  pairs_acc en acc ->
  exists en', exec callee fuel items_body en s = (ONormal, en', s)
    /\ pairs_acc en' (acc ++ [ckv c]) /\ env_get en' 2 = Ok (VCell (p_next pc))
    /\ forall x, x < 100 -> x <> 2 -> env_get en' x = env_get en x.
Proof.
  intros E2 Ed Ek Ev Ha. unfold items_body. rewrite exec_seq.
  destruct (exec_yield_item callee fuel (ETuple2 (EIdx (EVar 2) FKey) (EIdx (EVar 2) FVal)) en s
              (c_key c) (c_val c) acc) as (en1 & X1 & A1 & Fr1).
  { apply eval_tuple2.
    - rewrite (eval_idx _ _ _ _ _ _ FKey E2 Ed). cbn. rewrite Ek. reflexivity.
    - rewrite (eval_idx _ _ _ _ _ _ FVal E2 Ed). cbn. rewrite Ev. reflexivity. }
  { exact Ha. }
  rewrite X1.
  rewrite (exec_assign _ _ _ _ _ _ (VCell (p_next pc))).
  2:{ rewrite (eval_idx _ en1 s 2 (addr c) pc FNext); [reflexivity|rewrite Fr1 by lia; exact E2|exact Ed]. }
  eexists. split; [reflexivity|]. split; [|split].
  - apply pairs_acc_set; [lia | exact A1].
  - apply env_get_eq.
  - intros x Hx Hn. rewrite env_get_ne by exact Hn. apply Fr1, Hx.
Qed.
Local Arguments items_body : simpl never.

Lemma loop_items callee fuel : forall suf fu en s a acc,
  chain p_next (pheap s) a suf ->
  env_get en 1 = Ok (VCell root) -> env_get en 2 = Ok (VCell a) -> pairs_acc en acc ->
  length suf < fu ->
  exists en', loop fu (eval_truth callee (ENotIs (EVar 2) (EVar 1))) (exec callee fuel items_body) en s
              = (ONormal, en', s)
     /\ pairs_acc en' (acc ++ map ckv suf).
Proof.
  induction suf as [|c r IH]; intros fu en s a acc Hc E1 E2 Ha Hfu;
    (destruct fu as [|fu]; [inversion Hfu|]); rewrite loop_S, (cond_ring _ _ _ 2 1 a E2 E1).
  - simpl in Hc. subst a. cbn. exists en. rewrite app_nil_r. split; [reflexivity | exact Ha].
  - destruct Hc as [Ea (pc & Ed & Ek & Ev & Hc)]. subst a.
    change (negb (Nat.eqb (addr c) root)) with true. cbn match.
    destruct (exec_items_body callee fuel en s c pc acc E2 Ed Ek Ev Ha) as (en1 & X1 & A1 & N1 & Fr1).
    rewrite X1.
    destruct (IH fu en1 s (p_next pc) (acc ++ [ckv c])) as (en' & X2 & A2); try assumption.
    + rewrite Fr1 by lia. exact E1.
    + simpl in Hfu. lia.
    + exists en'. split; [exact X2|]. simpl map. rewrite <- app_assoc in A2. exact A2.
Qed.

(* for key in self.iterkeys(): yield key, self[key] *)
Definition item1_body : stmt := SYield (ETuple2 (EVar 3) (ECall1 MGetItem (EVar 3))).

Lemma for_each_cons x t r (body : env -> pomd -> outcome * env * pomd) en s :
  for_each x (t :: r) body en s
  = match body (env_set en x (VTok t)) s with
    | (ONormal, en2, s2) => for_each x r body en2 s2
    | o => o
    end.
Proof. reflexivity. Qed.

Definition item_of (p : pomd) (k : K) : res (K * V) := do v <- pm_getitem p k; Ok (k, v).

Lemma for_item1 n fu p : forall ks en acc, pairs_acc en acc ->
  match map_res (item_of p) ks with
  | Ok l => exists en', for_each 3 ks (exec (sem (S n)) fu item1_body) en p = (ONormal, en', p)
                        /\ pairs_acc en' (acc ++ l)
  | Raise e => exists en', for_each 3 ks (exec (sem (S n)) fu item1_body) en p = (ORaise e, en', p)
  end.
Proof.
  induction ks as [|k r IH]; intros en acc Ha.
  - cbn. exists en. rewrite app_nil_r. split; [reflexivity | exact Ha].
  - rewrite for_each_cons. cbn [map_res]. unfold item1_body in *.
    set (en1 := env_set en 3 (VTok k)).
    assert (E13 : env_get en1 3 = Ok (VTok k)) by apply env_get_eq.
    assert (A1 : pairs_acc en1 acc) by (apply pairs_acc_set; [lia | exact Ha]).
    clearbody en1.
    assert (Hk : eval (sem (S n)) en1 (EVar 3) p = (Ok (VTok k), p)) by (cbn; rewrite E13; reflexivity).
    assert (Hg : eval (sem (S n)) en1 (ECall1 MGetItem (EVar 3)) p
                 = match pm_getitem p k with Ok v => (Ok (VTok v), p) | Raise e => (Raise e, p) end).
    { cbn [eval]. rewrite E13. rewrite (source_getitem n p p k). unfold pm_op.
      destruct (pm_getitem p k); reflexivity. }
    unfold item_of at 1. destruct (pm_getitem p k) as [v|e] eqn:Eg; cbn [bind].
    + destruct (exec_yield_item (sem (S n)) fu (ETuple2 (EVar 3) (ECall1 MGetItem (EVar 3))) en1 p k v acc)
        as (en2 & X2 & A2 & _).
      { apply eval_tuple2; assumption. }
      { exact A1. }
      rewrite X2. specialize (IH en2 (acc ++ [(k, v)]) A2).
      destruct (map_res (item_of p) r) as [l|e]; cbn [bind].
      * destruct IH as (en' & X & A). exists en'. split; [exact X|]. rewrite <- app_assoc in A. exact A.
      * exact IH.
    + rewrite (exec_yield_raise _ _ _ _ _ e) by (apply (eval_tuple2_raise _ _ _ _ _ k); assumption).
      exists en1. reflexivity.
Qed.
Local Arguments item1_body : simpl never.

Lemma exec_for_toks callee fu x e b en s l :
  eval callee en e s = (Ok (VToks l), s) ->
  exec callee fu (SFor x e b) en s = for_each x l (exec callee fu b) en s.
Proof. intro H. cbn [exec]. rewrite H. reflexivity. Qed.

Definition iteritems_walk : stmt :=
  SSeq (SAssign 1 ERoot) (SSeq (SAssign 2 (EIdx (EVar 1) FNext))
    (SIf (EVar 0) (SWhile ring_cond items_body) (SFor 3 (ECall1 MIterKeys EFalse) item1_body))).

Lemma gen_iteritems_eq : gen_iteritems = SSeq iteritems_walk (SReturn EYieldedPairs).
Proof. reflexivity. Qed.

Lemma pm_items1_eq p : pm_items1 p = map_res (item_of p) (pm_iterkeys p).
Proof. reflexivity. Qed.

Lemma exec_iteritems_walk n p (multi : bool) : Good p ->
  if multi
  then exists en', exec (sem (S n)) (fuel_of p) iteritems_walk [(0, VBool multi)] p = (ONormal, en', p)
                   /\ pairs_acc en' (pm_items p)
  else match pm_items1 p with
       | Ok l => exists en', exec (sem (S n)) (fuel_of p) iteritems_walk [(0, VBool multi)] p = (ONormal, en', p)
                             /\ pairs_acc en' l
       | Raise e => exists en', exec (sem (S n)) (fuel_of p) iteritems_walk [(0, VBool multi)] p
                                = (ORaise e, en', p)
       end.
Proof.
  intro G. destruct (good_chain p G) as (r & Er & Cf & _ & Ff & _).
  unfold iteritems_walk. rewrite exec_seq.
  rewrite (exec_assign _ _ _ _ _ _ (VCell root)) by reflexivity.
  set (en1 := env_set [(0, VBool multi)] 1 (VCell root)).
  assert (E11 : env_get en1 1 = Ok (VCell root)) by reflexivity.
  assert (E10 : env_get en1 0 = Ok (VBool multi)) by reflexivity.
  assert (A1 : pairs_acc en1 []) by reflexivity.
  clearbody en1.
  rewrite exec_seq.
  rewrite (exec_assign _ _ _ _ _ _ (VCell (p_next r))) by (rewrite (eval_idx _ _ _ _ _ _ FNext E11 Er); reflexivity).
  set (en2 := env_set en1 2 (VCell (p_next r))).
  assert (E22 : env_get en2 2 = Ok (VCell (p_next r))) by apply env_get_eq.
  assert (E21 : env_get en2 1 = Ok (VCell root)) by (unfold en2; rewrite env_get_ne by lia; exact E11).
  assert (E20 : env_get en2 0 = Ok (VBool multi)) by (unfold en2; rewrite env_get_ne by lia; exact E10).
  assert (A2 : pairs_acc en2 []) by (apply pairs_acc_set; [lia | exact A1]).
  clearbody en2.
  rewrite exec_if.
  assert (Ht : eval_truth (sem (S n)) (EVar 0) en2 p = (Ok multi, p)).
  { unfold eval_truth. cbn. rewrite E20. reflexivity. }
  rewrite Ht. destruct multi.
  - rewrite exec_while. unfold ring_cond.
    destruct (loop_items (sem (S n)) (fuel_of p) (p_cells p) (fuel_of p) en2 p (p_next r) []) as (en' & X & A);
      try assumption.
    exists en'. split; assumption.
  - rewrite (exec_for_toks _ _ _ _ _ _ _ (pm_iterkeys p)).
    2:{ cbn [eval]. rewrite (source_iterkeys n p false G). reflexivity. }
    rewrite pm_items1_eq.
    pose proof (for_item1 n (fuel_of p) p (pm_iterkeys p) en2 [] A2) as H.
    destruct (map_res (item_of p) (pm_iterkeys p)); exact H.
Qed.
Local Arguments iteritems_walk : simpl never.

(* layer 1 *)
Lemma source_iteritems n p multi : Good p ->
  sem (S (S n)) MIterItems [VBool multi] p
  = (if multi then Ok (VPairs (pm_items p))
     else match pm_items1 p with Ok l => Ok (VPairs l) | Raise e => Raise e end, p).
Proof.
  intro G. rewrite sem_S, run_body_fin. unfold gen_prog. rewrite gen_iteritems_eq. cbn [bind_params].
  pose proof (exec_iteritems_walk n p multi G) as H. rewrite exec_seq. destruct multi.
  - destruct H as (en' & X & A). rewrite X.
    rewrite (exec_return _ _ _ _ _ _ (eval_yielded_pairs _ _ _ _ A)). reflexivity.
  - destruct (pm_items1 p) as [l|e].
    + destruct H as (en' & X & A). rewrite X.
      rewrite (exec_return _ _ _ _ _ _ (eval_yielded_pairs _ _ _ _ A)). reflexivity.
    + destruct H as (en' & X). rewrite X. reflexivity.
Qed.

Lemma source_keys n p multi : Good p ->
  sem (S (S n)) MKeys [VBool multi] p
  = (Ok (VToks (if multi then map c_key (p_cells p) else pm_iterkeys p)), p).
Proof.
  intro G. rewrite sem_S, run_body_fin. unfold gen_prog, gen_keys. cbn [bind_params].
  cbn [exec eval]. cbn [env_get Nat.eqb]. rewrite (source_iterkeys n p multi G). reflexivity.
Qed.

Lemma source_iter n p : Good p ->
  sem (S (S n)) MIter [] p = (Ok (VToks (pm_iterkeys p)), p).
Proof.
  intro G. rewrite sem_S, run_body_fin. unfold gen_prog, gen_iter. cbn [bind_params].
  cbn [exec eval]. rewrite (source_iterkeys n p false G). reflexivity.
Qed.

(* ---- itervalues:  for k, v in self.iteritems(multi): yield v --------------------------------------- *)
Definition val_body : stmt := SYield (EVar 2).

Lemma for_each2_cons x y a b r (body : env -> pomd -> outcome * env * pomd) en s :
  for_each2 x y ((a, b) :: r) body en s
  = match body (env_set (env_set en x (VTok a)) y (VTok b)) s with
    | (ONormal, en2, s2) => for_each2 x y r body en2 s2
    | o => o
    end.
Proof. reflexivity. Qed.

Lemma for2_vals callee fu s : forall l en acc, toks_acc en acc ->
  exists en', for_each2 1 2 l (exec callee fu val_body) en s = (ONormal, en', s)
              /\ toks_acc en' (acc ++ map snd l).
Proof.
  induction l as [|[a b] r IH]; intros en acc Ha.
  - exists en. rewrite app_nil_r. split; [reflexivity | exact Ha].
  - rewrite for_each2_cons. unfold val_body in *.
    set (en1 := env_set (env_set en 1 (VTok a)) 2 (VTok b)).
    assert (E12 : env_get en1 2 = Ok (VTok b)) by apply env_get_eq.
    assert (A1 : toks_acc en1 acc) by (apply toks_acc_set; [lia|]; apply toks_acc_set; [lia | exact Ha]).
    clearbody en1.
    destruct (exec_yield_tok callee fu (EVar 2) en1 s b acc) as (en2 & X2 & A2 & _).
    { cbn. rewrite E12. reflexivity. }
    { exact A1. }
    rewrite X2. destruct (IH en2 (acc ++ [b]) A2) as (en' & X & A).
    exists en'. split; [exact X|]. cbn [map snd]. rewrite <- app_assoc in A. exact A.
Qed.
Local Arguments val_body : simpl never.

Lemma exec_for2_pairs callee fu x y e b en s l :
  eval callee en e s = (Ok (VPairs l), s) ->
  exec callee fu (SFor2 x y e b) en s = for_each2 x y l (exec callee fu b) en s.
Proof. intro H. cbn [exec]. rewrite H. reflexivity. Qed.

Lemma exec_for2_raise callee fu x y e b en s x0 :
  eval callee en e s = (Raise x0, s) ->
  exec callee fu (SFor2 x y e b) en s = (ORaise x0, en, s).
Proof. intro H. cbn [exec]. rewrite H. reflexivity. Qed.

Lemma gen_itervalues_eq :
  gen_itervalues = SSeq (SFor2 1 2 (ECall1 MIterItems (EVar 0)) val_body) (SReturn EYieldedToks).
Proof. reflexivity. Qed.

Lemma itervalues_pairs n p l multi :
  sem (S (S n)) MIterItems [VBool multi] p = (Ok (VPairs l), p) ->
  sem (S (S (S n))) MIterValues [VBool multi] p = (Ok (VToks (map snd l)), p).
Proof.
  intro H. rewrite sem_S, run_body_fin. unfold gen_prog. rewrite gen_itervalues_eq. cbn [bind_params].
  rewrite exec_seq. rewrite (exec_for2_pairs _ _ _ _ _ _ _ _ l) by (cbn [eval env_get Nat.eqb]; exact H).
  destruct (for2_vals (sem (S (S n))) (fuel_of p) p l [(0, VBool multi)] []) as (en' & X & A); [reflexivity|].
  rewrite X. rewrite (exec_return _ _ _ _ _ _ (eval_yielded_toks _ _ _ _ A)). reflexivity.
Qed.

(* layer 2, 3 *)
Lemma source_itervalues n p multi : Good p ->
  sem (S (S (S n))) MIterValues [VBool multi] p
  = (if multi then Ok (VToks (map snd (pm_items p)))
     else match pm_items1 p with Ok l => Ok (VToks (map snd l)) | Raise e => Raise e end, p).
Proof.
  intro G. pose proof (source_iteritems n p multi G) as H. destruct multi.
  - apply itervalues_pairs. exact H.
  - destruct (pm_items1 p) as [l|e].
    + apply itervalues_pairs. exact H.
    + rewrite sem_S, run_body_fin. unfold gen_prog. rewrite gen_itervalues_eq. cbn [bind_params].
      rewrite exec_seq. rewrite (exec_for2_raise _ _ _ _ _ _ _ _ e) by (cbn [eval env_get Nat.eqb]; exact H).
      reflexivity.
Qed.

Lemma source_items n p multi : Good p ->
  sem (S (S (S n))) MItems [VBool multi] p
  = (if multi then Ok (VPairs (pm_items p))
     else match pm_items1 p with Ok l => Ok (VPairs l) | Raise e => Raise e end, p).
Proof.
  intro G. rewrite sem_S, run_body_fin. unfold gen_prog, gen_items. cbn [bind_params].
  cbn [exec eval]. cbn [env_get Nat.eqb]. rewrite (source_iteritems n p multi G).
  destruct multi; [reflexivity|]. destruct (pm_items1 p); reflexivity.
Qed.

Lemma source_values n p multi : Good p ->
  sem (S (S (S (S n)))) MValues [VBool multi] p
  = (if multi then Ok (VToks (map snd (pm_items p)))
     else match pm_items1 p with Ok l => Ok (VToks (map snd l)) | Raise e => Raise e end, p).
Proof.
  intro G. rewrite sem_S, run_body_fin. unfold gen_prog, gen_values. cbn [bind_params].
  cbn [exec eval]. cbn [env_get Nat.eqb]. rewrite (source_itervalues n p multi G).
  destruct multi; [reflexivity|]. destruct (pm_items1 p); reflexivity.
Qed.

(* ---- __reversed__ ---------------------------------------------------------------------------------- *)
Definition rev_body : stmt :=
  SSeq (SAssign 3 (EIdx (EVar 1) FKey))
   (SSeq (SAssign 4 (EStoreGetitem (EVar 3)))
     (SSeq (SSeq (SDictSetdefault 2 5 (EVar 3) 1)
                 (SIf (EEqNat (EVar 5) (ELen (EVar 4))) (SYield (EVar 3)) SPass))
       (SSeq (SDictIncr 2 (EVar 3)) (SAssign 1 (EIdx (EVar 1) FPrev))))).

Definition rev_cnt (lengths : pydict nat) (k : K) : nat :=
  match d_get lengths k with Some n => n | None => 1 end.

Lemma exec_setdefault callee fu en s k lengths :
  env_get en 3 = Ok (VTok k) -> env_get en 2 = Ok (VDict lengths) ->
  exists en' lengths', exec callee fu (SDictSetdefault 2 5 (EVar 3) 1) en s = (ONormal, en', s)
    /\ env_get en' 5 = Ok (VNat (rev_cnt lengths k)) /\ env_get en' 2 = Ok (VDict lengths')
    /\ d_get lengths' k = Some (rev_cnt lengths k)
    /\ d_set lengths' k (S (rev_cnt lengths k)) = d_set lengths k (S (rev_cnt lengths k))
    /\ (forall x, x <> 5 -> x <> 2 -> env_get en' x = env_get en x).
Proof.
  intros E3 E2. cbn [exec eval]. rewrite E3, E2. cbn match. unfold rev_cnt.
  destruct (d_get lengths k) as [n|] eqn:El.
  - exists (env_set en 5 (VNat n)), lengths. split; [reflexivity|]. split; [apply env_get_eq|].
    split; [rewrite env_get_ne by lia; exact E2|]. split; [exact El|]. split; [reflexivity|].
    intros x H5 H2. apply env_get_ne. exact H5.
  - exists (env_set (env_set en 2 (VDict (d_set lengths k 1))) 5 (VNat 1)), (d_set lengths k 1).
    split; [reflexivity|]. split; [apply env_get_eq|].
    split; [rewrite env_get_ne by lia; apply env_get_eq|].
    split; [rewrite d_get_set, Nat.eqb_refl; reflexivity|]. split; [apply d_set_d_set|].
    intros x H5 H2. rewrite !env_get_ne by assumption. reflexivity.
Qed.

Lemma exec_dictincr callee fu en s k l n :
  env_get en 3 = Ok (VTok k) -> env_get en 2 = Ok (VDict l) -> d_get l k = Some n ->
  exec callee fu (SDictIncr 2 (EVar 3)) en s = (ONormal, env_set en 2 (VDict (d_set l k (S n))), s).
Proof. intros E3 E2 El. cbn [exec eval]. rewrite E3, E2. cbn match. rewrite El. reflexivity. Qed.

Lemma cond_count callee en s c k vals :
  env_get en 5 = Ok (VNat c) -> env_get en 4 = Ok (VStoreRef k) -> d_get (pstore s) k = Some vals ->
  eval_truth callee (EEqNat (EVar 5) (ELen (EVar 4))) en s = (Ok (Nat.eqb c (length vals)), s).
Proof.
  intros E5 E4 Es. unfold eval_truth. cbn. rewrite E5. cbn. rewrite E4. cbn. rewrite Es. reflexivity.
Qed.

Lemma toks_acc_frame en en' acc :
  env_get en' acc_toks = env_get en acc_toks -> toks_acc en acc -> toks_acc en' acc.
Proof. intros H Ha. unfold toks_acc. rewrite H. exact Ha. Qed.

Lemma exec_rev_body callee fuel en s c pc acc lengths :
  env_get en 1 = Ok (VCell (addr c)) -> d_get (pheap s) (addr c) = Some pc -> p_key pc = c_key c ->
  env_get en 2 = Ok (VDict lengths) -> toks_acc en acc ->
  match d_get (pstore s) (c_key c) with
  | None => exists en', exec callee fuel rev_body en s = (ORaise KeyError, en', s)
  | Some vals =>
      exists en', exec callee fuel rev_body en s = (ONormal, en', s)
        /\ env_get en' 1 = Ok (VCell (p_prev pc)) /\ env_get en' 0 = env_get en 0
        /\ env_get en' 2 = Ok (VDict (d_set lengths (c_key c) (S (rev_cnt lengths (c_key c)))))
        /\ toks_acc en' (if Nat.eqb (rev_cnt lengths (c_key c)) (length vals) then acc ++ [c_key c] else acc)
  end.
Proof.
  intros E1 Ed Ek E2 Ha. set (k := c_key c) in *.
  unfold rev_body. rewrite exec_seq.
  rewrite (exec_assign _ _ _ _ _ _ (VTok k)).
  2:{ rewrite (eval_idx _ _ _ _ _ _ FKey E1 Ed). cbn. rewrite Ek. reflexivity. }
  set (en1 := env_set en 3 (VTok k)).
  assert (E13 : env_get en1 3 = Ok (VTok k)) by apply env_get_eq.
  assert (F1 : forall x, x <> 3 -> env_get en1 x = env_get en x) by (intros x Hx; apply env_get_ne; exact Hx).
  clearbody en1.
  rewrite exec_seq.
  destruct (d_get (pstore s) k) as [vals|] eqn:Es.
  2:{ exists en1. cbn [exec eval]. rewrite E13. cbn match. rewrite Es. reflexivity. }
  rewrite (exec_assign _ _ _ _ _ _ (VStoreRef k)).
  2:{ cbn [eval]. rewrite E13. cbn match. rewrite Es. reflexivity. }
  set (en2 := env_set en1 4 (VStoreRef k)).
  assert (E24 : env_get en2 4 = Ok (VStoreRef k)) by apply env_get_eq.
  assert (E23 : env_get en2 3 = Ok (VTok k)) by (unfold en2; rewrite env_get_ne by lia; exact E13).
  assert (F2 : forall x, x <> 3 -> x <> 4 -> env_get en2 x = env_get en x).
  { intros x H3 H4. unfold en2. rewrite env_get_ne by exact H4. apply F1, H3. }
  clearbody en2. clear en1 E13 F1.
  rewrite exec_seq, exec_seq.
  destruct (exec_setdefault callee fuel en2 s k lengths E23) as (en3 & l' & X3 & E35 & E32 & El' & Eset & F3).
  { rewrite F2 by lia. exact E2. }
  rewrite X3. rewrite exec_if.
  assert (E34 : env_get en3 4 = Ok (VStoreRef k)) by (rewrite F3 by lia; exact E24).
  assert (E33 : env_get en3 3 = Ok (VTok k)) by (rewrite F3 by lia; exact E23).
  assert (F3' : forall x, x <> 2 -> x <> 3 -> x <> 4 -> x <> 5 -> env_get en3 x = env_get en x).
  { intros x H2 H3 H4 H5. rewrite F3 by assumption. apply F2; assumption. }
  clear F3 F2 E24 E23 X3 en2.
  rewrite (cond_count _ _ _ _ _ _ E35 E34 Es).
  assert (A3 : toks_acc en3 acc).
  { apply (toks_acc_frame en); [|exact Ha]. apply F3'; apply toks_ne_small; lia. }
  assert (Hstep : exists en4, exec callee fuel
                    (if Nat.eqb (rev_cnt lengths k) (length vals) then SYield (EVar 3) else SPass) en3 s
                    = (ONormal, en4, s)
            /\ toks_acc en4 (if Nat.eqb (rev_cnt lengths k) (length vals) then acc ++ [k] else acc)
            /\ forall x, x < 100 -> env_get en4 x = env_get en3 x).
  { destruct (Nat.eqb (rev_cnt lengths k) (length vals)).
    - apply exec_yield_tok; [|exact A3]. cbn. rewrite E33. reflexivity.
    - exists en3. split; [reflexivity|]. split; [exact A3|]. reflexivity. }
  destruct Hstep as (en4 & X4 & A4 & F4).
  assert (X4' : (if Nat.eqb (rev_cnt lengths k) (length vals)
                 then exec callee fuel (SYield (EVar 3)) en3 s else exec callee fuel SPass en3 s)
                = (ONormal, en4, s)).
  { destruct (Nat.eqb (rev_cnt lengths k) (length vals)); exact X4. }
  rewrite X4'. rewrite exec_seq.
  rewrite (exec_dictincr _ _ en4 s k l' (rev_cnt lengths k)).
  2:{ rewrite F4 by lia. exact E33. }
  2:{ rewrite F4 by lia. exact E32. }
  2:{ exact El'. }
  rewrite Eset.
  set (en5 := env_set en4 2 (VDict (d_set lengths k (S (rev_cnt lengths k))))).
  rewrite (exec_assign _ _ _ _ _ _ (VCell (p_prev pc))).
  2:{ rewrite (eval_idx _ en5 s 1 (addr c) pc FPrev); [reflexivity| |exact Ed].
      unfold en5. rewrite env_get_ne by lia. rewrite F4 by lia. rewrite F3' by lia. exact E1. }
  eexists. split; [reflexivity|]. split; [apply env_get_eq|]. split; [|split].
  - unfold en5. rewrite !env_get_ne by lia. rewrite F4 by lia. apply F3'; lia.
  - rewrite env_get_ne by lia. apply env_get_eq.
  - apply toks_acc_set; [lia|]. apply toks_acc_set; [lia|]. exact A4.
Qed.
Local Arguments rev_body : simpl never.

Lemma loop_rev callee fuel : forall suf fu en s a acc lengths,
  chain p_prev (pheap s) a suf ->
  env_get en 0 = Ok (VCell root) -> env_get en 1 = Ok (VCell a) ->
  env_get en 2 = Ok (VDict lengths) -> toks_acc en acc ->
  length suf < fu ->
  match p_rev_walk s lengths suf with
  | Ok l => exists en', loop fu (eval_truth callee (ENotIs (EVar 1) (EVar 0))) (exec callee fuel rev_body) en s
                        = (ONormal, en', s)
                        /\ toks_acc en' (acc ++ l)
  | Raise e => exists en', loop fu (eval_truth callee (ENotIs (EVar 1) (EVar 0))) (exec callee fuel rev_body) en s
                           = (ORaise e, en', s)
  end.
Proof.
  induction suf as [|c r IH]; intros fu en s a acc lengths Hc E0 E1 E2 Ha Hfu;
    (destruct fu as [|fu]; [inversion Hfu|]); rewrite loop_S, (cond_ring _ _ _ 1 0 a E1 E0).
  - simpl in Hc. subst a. cbn. exists en. rewrite app_nil_r. split; [reflexivity | exact Ha].
  - destruct Hc as [Ea (pc & Ed & Ek & Ev & Hc)]. subst a.
    change (negb (Nat.eqb (addr c) root)) with true. cbn match.
    pose proof (exec_rev_body callee fuel en s c pc acc lengths E1 Ed Ek E2 Ha) as Hb.
    simpl p_rev_walk. fold (rev_cnt lengths (c_key c)).
    destruct (d_get (pstore s) (c_key c)) as [vals|] eqn:Es.
    + destruct Hb as (en1 & X1 & N1 & R1 & D1 & A1). rewrite X1.
      simpl in Hfu.
      assert (Hfu' : length r < fu) by lia.
      assert (E0' : env_get en1 0 = Ok (VCell root)) by (rewrite R1; exact E0).
      pose proof (IH fu en1 s (p_prev pc) _ _ Hc E0' N1 D1 A1 Hfu') as H.
      destruct (p_rev_walk s (d_set lengths (c_key c) (S (rev_cnt lengths (c_key c)))) r) as [rest|e];
        cbn [bind].
      * destruct H as (en' & X & A). exists en'. split; [exact X|].
        destruct (Nat.eqb (rev_cnt lengths (c_key c)) (length vals)); [|exact A].
        rewrite <- app_assoc in A. exact A.
      * exact H.
    + destruct Hb as (en1 & X1). rewrite X1. exists en1. reflexivity.
Qed.

Definition reversed_walk : stmt :=
  SSeq (SAssign 0 ERoot) (SSeq (SAssign 1 (EIdx (EVar 0) FPrev)) (SSeq (SAssign 2 EDictNew)
    (SWhile (ENotIs (EVar 1) (EVar 0)) rev_body))).

Lemma gen_reversed_eq : gen_reversed = SSeq reversed_walk (SReturn EYieldedToks).
Proof. reflexivity. Qed.

Lemma exec_reversed_walk callee p : Good p ->
  match p_rev_walk p [] (p_cells_rev p) with
  | Ok l => exists en', exec callee (fuel_of p) reversed_walk [] p = (ONormal, en', p) /\ toks_acc en' l
  | Raise e => exists en', exec callee (fuel_of p) reversed_walk [] p = (ORaise e, en', p)
  end.
Proof.
  intro G. destruct (good_chain p G) as (r & Er & _ & Cb & _ & Fb).
  unfold reversed_walk. rewrite exec_seq.
  rewrite (exec_assign _ _ _ _ _ _ (VCell root)) by reflexivity.
  set (en1 := env_set [] 0 (VCell root)).
  assert (E10 : env_get en1 0 = Ok (VCell root)) by reflexivity.
  assert (A1 : toks_acc en1 []) by reflexivity.
  clearbody en1.
  rewrite exec_seq.
  rewrite (exec_assign _ _ _ _ _ _ (VCell (p_prev r))) by (rewrite (eval_idx _ _ _ _ _ _ FPrev E10 Er); reflexivity).
  rewrite exec_seq.
  rewrite (exec_assign _ _ _ _ _ _ (VDict [])) by reflexivity.
  set (en3 := env_set (env_set en1 1 (VCell (p_prev r))) 2 (VDict [])).
  assert (E30 : env_get en3 0 = Ok (VCell root)) by (unfold en3; rewrite !env_get_ne by lia; exact E10).
  assert (E31 : env_get en3 1 = Ok (VCell (p_prev r))) by (unfold en3; rewrite env_get_ne by lia; apply env_get_eq).
  assert (E32 : env_get en3 2 = Ok (VDict [])) by apply env_get_eq.
  assert (A3 : toks_acc en3 []) by (apply toks_acc_set; [lia|]; apply toks_acc_set; [lia | exact A1]).
  clearbody en3.
  rewrite exec_while.
  exact (loop_rev callee (fuel_of p) (p_cells_rev p) (fuel_of p) en3 p (p_prev r) [] [] Cb E30 E31 E32 A3 Fb).
Qed.
Local Arguments reversed_walk : simpl never.

Lemma source_reversed n p : Good p ->
  sem (S n) MReversed [] p
  = (match p_rev_walk p [] (p_cells_rev p) with Ok l => Ok (VToks l) | Raise e => Raise e end, p).
Proof.
  intro G. rewrite sem_S, run_body_fin. unfold gen_prog. rewrite gen_reversed_eq. cbn [bind_params].
  pose proof (exec_reversed_walk (sem n) p G) as H. rewrite exec_seq.
  destruct (p_rev_walk p [] (p_cells_rev p)) as [l|e].
  - destruct H as (en' & X & A). rewrite X.
    rewrite (exec_return _ _ _ _ _ _ (eval_yielded_toks _ _ _ _ A)). reflexivity.
  - destruct H as (en' & X). rewrite X. reflexivity.
Qed.

Print Assumptions source_iterkeys.
Print Assumptions source_iteritems.
Print Assumptions source_keys.
Print Assumptions source_iter.
Print Assumptions source_itervalues.
Print Assumptions source_items.
Print Assumptions source_values.
Print Assumptions source_reversed.
