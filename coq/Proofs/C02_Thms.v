(* C02: capacity, copy, independence, no ghost keys, eviction victim. *)
From Boltons Require Import Lib.Prelude Lib.C02_Syntax Spec.C02_Spec Model.C02_Model
  Proofs.C02_Lists Proofs.C02_Eqb Proofs.C02_Inv Proofs.C02_Refine Proofs.C02_Heap.
Close Scope N_scope.
Open Scope nat_scope.

(* ---- capacity, after every prefix of every history ---------------------------- *)
Lemma size_bound c init ops n :
  1 <= c_max c ->
  Forall (fun m => length (store m) <= c_max c /\ length (ring m) <= c_max c)
         (run_heap c init (firstn n ops)).
Proof.
  intro Hmax. pose proof (run_heap_inv c init (firstn n ops) Hmax) as F.
  eapply Forall_impl; [|exact F]. intros m [NR NS SAME LEN CAP SOFT]. simpl. lia.
Qed.

(* ---- copy() ---------------------------------------------------------------------- *)
Lemma copy_correct c h i m :
  1 <= c_max c -> Forall (Inv c) h -> nth_error h i = Some m ->
  exists m', hstep c h (Copy i) = (h ++ [m'], length h, Ok ONone)
    /\ ring m' = ring m                       (* same items, same eviction order *)
    /\ map_eq (store m') (ring m)             (* same contents through the dict API *)
    /\ hit m' = 0%N /\ miss m' = 0%N /\ soft m' = 0%N
    /\ Inv c m'
    /\ (forall j x, nth_error h j = Some x -> nth_error (h ++ [m']) j = Some x).   (* nothing else changed *)
Proof.
  intros Hmax F N. pose proof (nth_error_Forall _ _ _ _ F N) as I.
  pose proof I as [NR NS SAME LEN CAP SOFT].
  destruct (setitems_sim c (ring m) empty_cache Hmax (inv_empty c))
    as [m' [E [I' [A [C [H0 [M0 S0]]]]]]].
  assert (A' : abs m' = mkR (ring m) 0 0 0 []).
  { rewrite A. change (abs empty_cache) with r_empty. rewrite r_sets_fresh; simpl; auto. }
  exists m'. simpl. rewrite N. unfold copy_cache. rewrite E.
  assert (H1 : ring m' = ring m) by (change (r_items (abs m') = ring m); now rewrite A').
  simpl in H0, M0, S0.
  split; [reflexivity|]. split; [assumption|].
  split; [rewrite <- H1; destruct I'; assumption|].
  split; [assumption|]. split; [assumption|]. split; [assumption|]. split; [exact I'|].
  intros j x Hj. rewrite nth_error_app1; [assumption|]. apply nth_error_Some. congruence.
Qed.

Lemma nth_error_upd_nth_other {A} i j (x : A) l : i <> j -> nth_error (upd_nth i x l) j = nth_error l j.
Proof.
  revert i j. induction l; intros i j NE; destruct i, j; simpl; auto; try congruence.
Qed.

(* an operation on one cache leaves every other cache of the heap as it is *)
Lemma independent c h i j o :
  i <> j -> nth_error (fst (fst (hstep c h (On i o)))) j = nth_error h j.
Proof.
  intro NE. simpl. destruct (nth_error h i) as [m|]; [|reflexivity].
  destruct (step1 c m o) as [m' out]. simpl. now apply nth_error_upd_nth_other.
Qed.

(* ---- no ghost keys ------------------------------------------------------------------ *)
(* a key that is not in the cache (never inserted, evicted or removed) is never
   answered from the cache: the value can only come from on_miss / the default *)
Lemma getitem_absent c m k :
  1 <= c_max c -> Inv c m -> d_get (ring m) k = None ->
  exists m', Inv c m'
    /\ getitem c m k = (m', match c_on_miss c with None => Raise KeyError | Some f => Ok (f k) end).
Proof.
  intros Hmax I G. pose proof I as [NR NS SAME LEN CAP SOFT].
  unfold getitem. rewrite G. destruct (c_on_miss c) as [f|]; cbn.
  - match goal with |- context [setitem c ?x k (f k)] =>
      assert (I2 : Inv c x) by (constructor; simpl; try assumption; lia);
      destruct (setitem_sim c x k (f k) Hmax I2) as [m3 [E [I3 _]]]; rewrite E end.
    exists m3. split; [assumption|reflexivity].
  - eexists. split; [|reflexivity]. constructor; simpl; try assumption; lia.
Qed.

Lemma absent_lookup c m k d :
  1 <= c_max c -> Inv c m -> d_mem (store m) k = false ->
  snd (step1 c m (GetItem k))
    = match c_on_miss c with None => Raise KeyError | Some f => Ok (OVal (f k)) end
  /\ snd (step1 c m (Get k d))
    = Ok (OVal (match c_on_miss c with None => d | Some f => f k end))
  /\ snd (step1 c m (SetDefault k d))
    = Ok (OVal (match c_on_miss c with None => d | Some f => f k end))
  /\ snd (step1 c m (Contains k)) = Ok (OBool false)
  /\ snd (step1 c m (Pop k None)) = Raise KeyError
  /\ snd (step1 c m (DelItem k)) = Raise KeyError
  /\ ~ In k (d_keys (store m)).
Proof.
  intros Hmax I DM. pose proof I as [NR NS SAME LEN CAP SOFT].
  assert (G : d_get (ring m) k = None).
  { rewrite <- SAME. unfold d_mem in DM. destruct (d_get (store m) k); [discriminate|reflexivity]. }
  assert (GS : d_get (store m) k = None) by now rewrite SAME.
  destruct (getitem_absent c m k Hmax I G) as [m' [I' E]].
  simpl. rewrite E, DM, GS.
  destruct (c_on_miss c) as [f|] eqn:OM; simpl.
  - repeat split; auto. now apply d_mem_false_iff.
  - assert (IB : Inv c (bump_soft m')).
    { (* the miss was counted just before *)
      unfold getitem in E. rewrite G, OM in E. inversion E; subst.
      constructor; simpl; try assumption; lia. }
    destruct (setitem_sim c (bump_soft m') k d Hmax IB) as [m3 [E3 _]]. rewrite E3. simpl.
    repeat split; auto. now apply d_mem_false_iff.
Qed.

(* after a successful removal the key is gone, from storage and linked list *)
Lemma removed_absent c m k o m' v :
  Inv c m ->
  (o = DelItem k /\ step1 c m o = (m', Ok ONone))
  \/ (exists d, o = Pop k d /\ d_mem (store m) k = true /\ step1 c m o = (m', Ok (OVal v)))
  \/ (o = PopItem /\ step1 c m o = (m', Ok (OItem k v)))
  \/ (o = Clear /\ step1 c m o = (m', Ok ONone)) ->
  d_mem (store m') k = false /\ d_mem (ring m') k = false.
Proof.
  intros I H. pose proof I as [NR NS SAME LEN CAP SOFT].
  assert (R : forall k, In k (keys (ring m)) ->
     d_mem (d_del (store m) k) k = false /\ d_mem (d_del (ring m) k) k = false).
  { intros k0 _. split; apply d_mem_false_iff; now apply not_in_keys_del. }
  destruct H as [[-> E]|[[d [-> [DM E]]]|[[-> E]|[-> E]]]]; simpl in E.
  - rewrite (inv_mem c m k I) in E. destruct (d_mem (ring m) k) eqn:DM; [|discriminate].
    apply d_mem_iff in DM. rewrite ll_remove_in in E by assumption. inversion E; subst. simpl. auto.
  - rewrite SAME in E. rewrite (inv_mem c m k I) in DM. pose proof DM as DM'. apply d_mem_iff in DM.
    unfold d_mem in DM'. destruct (d_get (ring m) k); [|discriminate].
    rewrite ll_remove_in in E by assumption. inversion E; subst. simpl. auto.
  - destruct (rev (store m)) as [|[k0 v0] rest] eqn:RV; [discriminate|].
    assert (Hin : In (k0, v0) (store m)) by (eapply last_of_rev_in; eauto).
    assert (G : d_get (ring m) k0 = Some v0) by (rewrite <- SAME; now apply d_get_in_nd).
    assert (Hk : In k0 (keys (ring m))) by (eapply d_get_some_keys; eauto).
    rewrite ll_remove_in in E by assumption. inversion E; subst. simpl. auto.
  - inversion E; subst. simpl. auto.
Qed.

(* ---- the eviction victim -------------------------------------------------------------- *)
(* assigning a new key to a full cache removes exactly the key at the head of
   the recency list (anchor[NEXT]); every other item stays, the new key becomes
   the newest *)
Lemma evicts_head c m k v e ve rest :
  1 <= c_max c -> Inv c m -> d_mem (store m) k = false ->
  length (store m) = c_max c -> ring m = (e, ve) :: rest ->
  exists m', step1 c m (SetItem k v) = (m', Ok ONone)
    /\ ring m' = rest ++ [(k, v)]
    /\ d_mem (store m') e = false
    /\ (forall k', k' <> e -> d_get (store m') k' = if Nat.eqb k' k then Some v else d_get (store m) k').
Proof.
  intros Hmax I DM FULL RING. pose proof I as [NR NS SAME LEN CAP SOFT].
  destruct (setitem_sim c m k v Hmax I) as [m' [E [I' [A _]]]].
  exists m'. simpl. rewrite E. simpl. split; [reflexivity|].
  assert (RM : ring m' = rest ++ [(k, v)]).
  { inversion A as [[A1 A2 A3 A4 A5]]. rewrite A1. unfold items_set.
    rewrite <- (inv_mem c m k I), DM. rewrite <- LEN, FULL, Nat.ltb_irrefl, RING. reflexivity. }
  split; [exact RM|].
  destruct I' as [NR' NS' SAME' _ _ _].
  rewrite RING in NR. simpl in NR. inversion NR as [|? ? NE NRr]; subst.
  assert (Hke : k <> e).
  { intro; subst e. rewrite (inv_mem c m k I), RING in DM. unfold d_mem in DM. simpl in DM.
    now rewrite Nat.eqb_refl in DM. }
  split.
  - unfold d_mem. rewrite SAME', RM, d_get_app. apply d_get_none_iff in NE. rewrite NE. simpl.
    destruct (Nat.eqb_spec e k); [congruence|reflexivity].
  - intros k' NEk. rewrite SAME', RM, d_get_app, SAME, RING. simpl.
    destruct (Nat.eqb_spec k' e); [congruence|].
    destruct (Nat.eqb_spec k' k).
    + subst k'. assert (d_get rest k = None).
      { apply d_get_none_iff. intro H. rewrite (inv_mem c m k I), RING in DM.
        apply d_mem_false_iff in DM. apply DM. simpl. now right. }
      now rewrite H.
    + destruct (d_get rest k'); reflexivity.
Qed.

(* ---- c_i.update(c_j) between two different caches ----------------------------------------- *)
(* the source keeps its contents, every one of its items counts one hit on it,
   its other counters and the target's counters do not move, both stay well formed *)
Lemma upd_from_effect c ks : forall mi mj,
  1 <= c_max c -> Inv c mi -> Inv c mj -> Forall (fun k => In k (keys (ring mj))) ks ->
  exists mi' mj', upd_from c mi mj ks = (mi', mj', Ok tt) /\ Inv c mi' /\ Inv c mj'
    /\ map_eq (store mj') (store mj)
    /\ hit mj' = (hit mj + N.of_nat (length ks))%N /\ miss mj' = miss mj /\ soft mj' = soft mj
    /\ hit mi' = hit mi /\ miss mi' = miss mi /\ soft mi' = soft mi.
Proof.
  induction ks as [|k rest IH]; intros mi mj Hmax Ii Ij F.
  - exists mi, mj. simpl. rewrite N.add_0_r.
    split; [reflexivity|]. split; [assumption|]. split; [assumption|].
    split; [intro; reflexivity|]. repeat split; reflexivity.
  - inversion F as [|? ? Hk Fr]; subst. simpl upd_from.
    destruct (getitem_present c mj k Hmax Ij Hk) as [mj1 [v [Eg [Ij1 [L [_ KS]]]]]]. rewrite Eg.
    destruct (setitem_sim c mi k v Hmax Ii) as [mi1 [Es [Ii1 [A [_ [H1 [M1 S1]]]]]]]. rewrite Es.
    assert (Fr' : Forall (fun k0 => In k0 (keys (ring mj1))) rest).
    { eapply Forall_impl; [|exact Fr]. intros a Ha. now apply KS. }
    destruct (IH mi1 mj1 Hmax Ii1 Ij1 Fr') as [mi' [mj' [E [I1 [I2 [ME [HJ [MJ [SJ [HI [MI SI]]]]]]]]]]].
    exists mi', mj'. split; [exact E|]. split; [exact I1|]. split; [exact I2|].
    pose proof Ij as [NRj NSj SAMEj _ _ _]. pose proof Ij1 as [NRj1 NSj1 SAMEj1 _ _ _].
    assert (G : exists v0, d_get (ring mj) k = Some v0).
    { apply d_mem_iff in Hk. unfold d_mem in Hk. destruct (d_get (ring mj) k); [eauto|discriminate]. }
    destruct G as [v0 G].
    unfold r_lookup in L. simpl in L. rewrite G in L. inversion L as [[A1 A2 A3 A4 A5 A6]].
    assert (ME1 : map_eq (store mj1) (store mj)).
    { intro k'. rewrite SAMEj1, SAMEj, <- A1. destruct (c_cls c); [reflexivity|].
      now apply d_get_move_end. }
    split. { intro k'. rewrite ME. apply ME1. }
    split. { rewrite HJ, <- A2. simpl length. lia. }
    split; [congruence|]. split; [congruence|]. split; [congruence|]. split; congruence.
Qed.
