(* (T) tie for ManyToMany.add / remove: the Gallina regenerated from the current
   source equals the model's m_add (on every state) and m_remove (on every state
   satisfying the invariant: the second half's KeyErrors never fire). *)
From Boltons Require Import Lib.Prelude Model.C17_Model Lib.C17_Py Gen.C17_Src
  Proofs.C17_Dict Proofs.C17_M2M.

Lemma d_set_set {B} (d : list (nat * B)) k a b : d_set (d_set d k a) k b = d_set d k b.
Proof.
  induction d as [|[k' v'] r IH]; simpl.
  - now rewrite Nat.eqb_refl.
  - destruct (Nat.eqb k k') eqn:E; simpl; rewrite E; [reflexivity|now rewrite IH].
Qed.

Lemma d_rm_set {B} (d : list (nat * B)) k a : d_rm (d_set d k a) k = d_rm d k.
Proof.
  induction d as [|[k' v'] r IH]; simpl.
  - now rewrite Nat.eqb_refl.
  - destruct (Nat.eqb k k') eqn:E; simpl; rewrite E; simpl; [reflexivity|now rewrite IH].
Qed.

(* one side of add: "if k not in D: D[k] = set()" then "D[k].add(v)" is sd_add *)
Lemma half_add (d : sdict) k v :
  (if d_mem d k then
     match d_get d k with Some s => Some (d_set d k (s_add s v)) | None => None end
   else
     match d_get (d_set d k []) k with Some s => Some (d_set (d_set d k []) k (s_add s v)) | None => None end)
  = Some (sd_add d k v).
Proof.
  unfold sd_add, d_mem. destruct (d_get d k) as [s|] eqn:E; trivial.
  rewrite get_set, Nat.eqb_refl, d_set_set. reflexivity.
Qed.

Theorem srcm_add_eq m k v : srcm_add m k v = Ok (VNone, m_add m k v).
Proof.
  destruct m as [d i]. unfold srcm_add, m_add, sd_add, pm_contains, pm_set_add, pm_set_empty, d_mem. simpl.
  destruct (d_get d k) as [s|] eqn:Ed; simpl.
  - rewrite ?Ed. simpl. destruct (d_get i v) as [t|] eqn:Ei; simpl.
    + rewrite ?Ei. reflexivity.
    + rewrite get_set, Nat.eqb_refl. simpl. rewrite d_set_set. reflexivity.
  - rewrite get_set, Nat.eqb_refl. simpl. rewrite d_set_set.
    destruct (d_get i v) as [t|] eqn:Ei; simpl.
    + rewrite ?Ei. reflexivity.
    + rewrite get_set, Nat.eqb_refl. simpl. rewrite d_set_set. reflexivity.
Qed.

(* one side of remove: "D[k].remove(v)" then "if not D[k]: del D[k]" is sd_discard *)
Lemma half_remove (d : sdict) k v s : d_get d k = Some s ->
  (let d1 := d_set d k (s_rm s v) in
   match d_get d1 k with
   | Some s' => match s' with [] => d_rm d1 k | _ => d1 end
   | None => d1
   end) = sd_discard d k v.
Proof.
  intro E. unfold sd_discard. rewrite E. cbv zeta. rewrite get_set, Nat.eqb_refl.
  destruct (s_rm s v); [apply d_rm_set|reflexivity].
Qed.

Definition lift_m (r : res m2m) : res (val * m2m) :=
  match r with Ok m' => Ok (VNone, m') | Raise e => Raise e end.

Theorem srcm_remove_eq m k v : M2mInv m -> srcm_remove m k v = lift_m (m_remove m k v).
Proof.
  intros [A B C]. destruct m as [d i]. simpl in *.
  unfold srcm_remove, m_remove, m_has, pm_set_remove, pm_truthy, pm_delitem. simpl.
  destruct (d_get d k) as [s|] eqn:Ed; simpl; trivial.
  destruct (s_mem v s) eqn:Em; simpl; trivial.
  (* the pair is there: by the invariant the inverse has it too *)
  assert (R : rel_of i v k).
  { apply C. unfold rel_of. rewrite Ed. now apply s_mem_In. }
  unfold rel_of in R. destruct (d_get i v) as [t|] eqn:Ei; [|tauto]. apply s_mem_In in R.
  rewrite R. rewrite (get_set d k (s_rm s v) k), Nat.eqb_refl. simpl.
  unfold sd_discard. rewrite Ed, Ei.
  destruct (s_rm s v) as [|x xs] eqn:Es; simpl.
  - rewrite ?Ei, ?R. simpl. rewrite (get_set i v (s_rm t k) v), Nat.eqb_refl. simpl.
    destruct (s_rm t k) as [|y ys] eqn:Et; simpl; rewrite ?get_set, ?Nat.eqb_refl, ?d_rm_set; reflexivity.
  - rewrite (get_set i v (s_rm t k) v), Nat.eqb_refl. simpl.
    destruct (s_rm t k) as [|y ys] eqn:Et; simpl; rewrite ?get_set, ?Nat.eqb_refl, ?d_rm_set; reflexivity.
Qed.

Theorem srcm_eq_model_on_reachable hops m s : In m (m2m_run hops) ->
  let x := m2m_side s m in
  (forall k v, srcm_add x k v = Ok (VNone, m_add x k v)) /\
  (forall k v, srcm_remove x k v = lift_m (m_remove x k v)).
Proof.
  intros Hin x. pose proof (m2m_run_ok hops) as F. rewrite Forall_forall in F.
  pose proof (M2mInv_side s m (F m Hin)) as I. split; intros.
  - apply srcm_add_eq.
  - now apply srcm_remove_eq.
Qed.

(* ---- __delitem__: for val in self.data.pop(key): ... -------------------------------------- *)
Lemma sd_discard_get_other (d : sdict) k v k' : k' <> k -> d_get (sd_discard d k v) k' = d_get d k'.
Proof.
  intro Hne. unfold sd_discard. destruct (d_get d k) as [s|]; trivial.
  destruct (s_rm s v).
  - rewrite get_rm. destruct (Nat.eqb k' k) eqn:E; trivial. apply Nat.eqb_eq in E. congruence.
  - rewrite get_set. destruct (Nat.eqb k' k) eqn:E; trivial. apply Nat.eqb_eq in E. congruence.
Qed.

(* the body of the loop, on one value whose reverse set holds the key, is sd_discard *)
Lemma delitem_body (d i : sdict) k v t : d_get i v = Some t -> In k t ->
  bind (pm_set_remove (mkM d i) MInvData v k) (fun self =>
  bind (pm_truthy self MInvData v) (fun c =>
  if c then Ok (VNone, self)
  else bind (pm_delitem self MInvData v) (fun self => Ok (VNone, self)))) =
  Ok (VNone, mkM d (sd_discard i v k)).
Proof.
  intros Ei Hin. apply s_mem_In in Hin.
  unfold pm_set_remove, pm_truthy, pm_delitem, sd_discard. simpl. rewrite Ei, Hin. simpl.
  rewrite get_set, Nat.eqb_refl. simpl.
  destruct (s_rm t k) as [|y ys] eqn:Et; simpl; rewrite ?get_set, ?Nat.eqb_refl, ?d_rm_set; reflexivity.
Qed.

Lemma delitem_loop k (s : list nat) : forall (d i : sdict), NoDup s ->
  (forall v, In v s -> exists t, d_get i v = Some t /\ In k t) ->
  pm_for s (fun self p_val =>
    bind (pm_set_remove self MInvData p_val k) (fun self =>
    bind (pm_truthy self MInvData p_val) (fun c =>
    if c then Ok (VNone, self)
    else bind (pm_delitem self MInvData p_val) (fun self => Ok (VNone, self))))) (mkM d i) =
  Ok (mkM d (fold_left (fun inv v => sd_discard inv v k) s i)).
Proof.
  unfold pm_for. induction s as [|v r IH]; simpl; intros d i ND H; trivial.
  destruct (H v (or_introl eq_refl)) as [t [Ei Hin]].
  rewrite (delitem_body d i k v t Ei Hin). simpl.
  inversion ND; subst. apply IH; trivial.
  intros v' Hv'. destruct (H v' (or_intror Hv')) as [t' [Ei' Hin']]. exists t'. split; trivial.
  rewrite sd_discard_get_other; trivial. intros ->. tauto.
Qed.

Theorem srcm_delitem_eq m k : M2mInv m -> srcm_delitem m k = lift_m (m_delitem m k).
Proof.
  intros [A B C]. destruct m as [d i]. simpl in *.
  unfold srcm_delitem, m_delitem, pm_pop. simpl.
  destruct (d_get d k) as [s|] eqn:Ed; simpl; trivial.
  rewrite (delitem_loop k s (d_rm d k) i).
  - reflexivity.
  - now apply (swf_sets _ A k s).
  - intros v Hv. assert (R : rel_of i v k) by (apply C; unfold rel_of; now rewrite Ed).
    unfold rel_of in R. destruct (d_get i v) as [t|]; [eauto|tauto].
Qed.

(* ---- replace ----------------------------------------------------------------------------------- *)
Definition repl_one (k nk : nat) (inv : sdict) (v : nat) : sdict :=
  match d_get inv v with
  | Some rs => d_set inv v (s_add (s_rm rs k) nk)
  | None => inv
  end.

Lemma replace_body (d i : sdict) k nk v rs : d_get i v = Some rs -> In k rs ->
  bind (pm_lookup (mkM d i) MInvData v) (fun _ =>
  bind (pm_set_remove (mkM d i) MInvData v k) (fun self =>
  bind (pm_set_add self MInvData v nk) (fun self => Ok (VNone, self)))) =
  Ok (VNone, mkM d (repl_one k nk i v)).
Proof.
  intros Ei Hin. apply s_mem_In in Hin.
  unfold pm_lookup, pm_set_remove, pm_set_add, repl_one. simpl. rewrite Ei. simpl. rewrite Hin. simpl.
  rewrite get_set, Nat.eqb_refl, d_set_set. reflexivity.
Qed.

Lemma repl_one_get_other k nk (i : sdict) v v' : v' <> v -> d_get (repl_one k nk i v) v' = d_get i v'.
Proof.
  intro Hne. unfold repl_one. destruct (d_get i v); trivial.
  rewrite get_set. destruct (Nat.eqb v' v) eqn:E; trivial. apply Nat.eqb_eq in E. congruence.
Qed.

Lemma replace_loop k nk (s : list nat) : forall (d i : sdict), NoDup s ->
  (forall v, In v s -> exists rs, d_get i v = Some rs /\ In k rs) ->
  pm_for s (fun self p_val =>
    bind (pm_lookup self MInvData p_val) (fun _ =>
    bind (pm_set_remove self MInvData p_val k) (fun self =>
    bind (pm_set_add self MInvData p_val nk) (fun self => Ok (VNone, self))))) (mkM d i) =
  Ok (mkM d (fold_left (repl_one k nk) s i)).
Proof.
  unfold pm_for. induction s as [|v r IH]; simpl; intros d i ND H; trivial.
  destruct (H v (or_introl eq_refl)) as [rs [Ei Hin]].
  rewrite (replace_body d i k nk v rs Ei Hin). simpl.
  inversion ND; subst. apply IH; trivial.
  intros v' Hv'. destruct (H v' (or_intror Hv')) as [rs' [Ei' Hin']]. exists rs'. split; trivial.
  rewrite repl_one_get_other; trivial. intros ->. tauto.
Qed.

Theorem srcm_replace_eq m k nk : M2mInv m -> srcm_replace m k nk = Ok (VNone, m_replace m k nk).
Proof.
  intros [A B C]. destruct m as [d i]. simpl in *.
  unfold srcm_replace, m_replace, pm_contains, pm_pop, d_mem. simpl.
  destruct (d_get d k) as [fs|] eqn:Ed; simpl; trivial.
  unfold pm_setdefault_update. simpl.
  assert (L : forall d2, pm_for fs (fun self p_val =>
      bind (pm_lookup self MInvData p_val) (fun _ =>
      bind (pm_set_remove self MInvData p_val k) (fun self =>
      bind (pm_set_add self MInvData p_val nk) (fun self => Ok (VNone, self))))) (mkM d2 i) =
    Ok (mkM d2 (fold_left (repl_one k nk) fs i))).
  { intro d2. apply replace_loop.
    - now apply (swf_sets _ A k fs).
    - intros v Hv. assert (R : rel_of i v k) by (apply C; unfold rel_of; now rewrite Ed).
      unfold rel_of in R. destruct (d_get i v) as [t|]; [eauto|tauto]. }
  destruct (d_get (d_rm d k) nk) as [s|] eqn:E1; simpl; rewrite L; reflexivity.
Qed.

Theorem srcm_eq_model_on_reachable4 hops m s : In m (m2m_run hops) ->
  let x := m2m_side s m in
  (forall k v, srcm_add x k v = Ok (VNone, m_add x k v)) /\
  (forall k v, srcm_remove x k v = lift_m (m_remove x k v)) /\
  (forall k, srcm_delitem x k = lift_m (m_delitem x k)) /\
  (forall k nk, srcm_replace x k nk = Ok (VNone, m_replace x k nk)).
Proof.
  intros Hin x. pose proof (m2m_run_ok hops) as F. rewrite Forall_forall in F.
  pose proof (M2mInv_side s m (F m Hin)) as I. repeat split; intros.
  - apply srcm_add_eq.
  - now apply srcm_remove_eq.
  - now apply srcm_delitem_eq.
  - now apply srcm_replace_eq.
Qed.
