(* C06: percent-encoding codec lemmas.
   - the split-on-'%' algorithm of unquote_to_bytes equals the three-line
     recursive reference pct_decode (for any table that matches hex digits);
   - quoting with any map whose entries are "the byte itself" or "%XX" is
     undone by pct_decode and emits only legal characters. *)
From Boltons Require Import Lib.Prelude Lib.C06_Text Spec.C06_Spec Model.C06_Model.
From Coq Require Import ZifyBool.
Open Scope N_scope.

(* ---- bounded quantification by computation --------------------------------------- *)
Definition range (n : nat) : list N := map N.of_nat (seq 0 n).

Lemma range_In n b : (b < N.of_nat n) -> In b (range n).
Proof.
  intro H. unfold range. apply in_map_iff. exists (N.to_nat b). split.
  - apply N2Nat.id.
  - apply in_seq. lia.
Qed.

Lemma forallb_range n (f : N -> bool) :
  forallb f (range n) = true -> forall b, b < N.of_nat n -> f b = true.
Proof.
  intros H b Hb. rewrite forallb_forall in H. apply H. apply range_In. exact Hb.
Qed.

Lemma text_eqb_eq a : forall b, text_eqb a b = true <-> a = b.
Proof.
  induction a as [|x r IH]; destruct b as [|y q]; simpl; split; intro H;
    try reflexivity; try discriminate.
  - apply andb_true_iff in H as [H1 H2]. apply N.eqb_eq in H1. apply IH in H2. congruence.
  - inversion H; subst. rewrite N.eqb_refl. simpl. apply IH. reflexivity.
Qed.

Lemma memN_In x l : memN x l = true <-> In x l.
Proof.
  induction l as [|y r IH]; simpl; split; intro H; try discriminate; try contradiction.
  - apply orb_true_iff in H as [H|H].
    + left. apply N.eqb_eq in H. congruence.
    + right. apply IH. exact H.
  - apply orb_true_iff. destruct H as [H|H].
    + left. subst. apply N.eqb_refl.
    + right. apply IH. exact H.
Qed.

(* ---- hex digits ------------------------------------------------------------------------ *)
Definition hexdigits : list N :=
  [48;49;50;51;52;53;54;55;56;57;97;98;99;100;101;102;65;66;67;68;69;70].

Lemma hexval1_digits c v : hexval1 c = Some v -> In c hexdigits.
Proof.
  unfold hexval1. intro H.
  destruct ((48 <=? c) && (c <=? 57)) eqn:E1.
  { assert (c = 48 \/ c = 49 \/ c = 50 \/ c = 51 \/ c = 52 \/ c = 53 \/ c = 54 \/ c = 55 \/ c = 56 \/ c = 57) by lia.
    unfold hexdigits. simpl. intuition. }
  destruct ((65 <=? c) && (c <=? 70)) eqn:E2.
  { assert (c = 65 \/ c = 66 \/ c = 67 \/ c = 68 \/ c = 69 \/ c = 70) by lia.
    unfold hexdigits. simpl. intuition. }
  destruct ((97 <=? c) && (c <=? 102)) eqn:E3.
  { assert (c = 97 \/ c = 98 \/ c = 99 \/ c = 100 \/ c = 101 \/ c = 102) by lia.
    unfold hexdigits. simpl. intuition. }
  discriminate.
Qed.

Lemma hexval1_pct : hexval1 37 = None.
Proof. reflexivity. Qed.

Lemma hexval2_pct_l b : hexval2 37 b = None.
Proof. reflexivity. Qed.

Lemma hexval2_pct_r a : hexval2 a 37 = None.
Proof. unfold hexval2. destruct (hexval1 a); reflexivity. Qed.

(* the generated _HEX_CHAR_MAP is exactly the graph of hexval2 *)
Definition opt_eqb (a b : option N) : bool := option_eqb N.eqb a b.

Definition hex_table_ok (m : list (N * N * N)) : bool :=
  forallb (fun '(a, b, v) => opt_eqb (hexval2 a b) (Some v)) m &&
  forallb (fun a => forallb (fun b => opt_eqb (hex_lookup m a b) (hexval2 a b)) hexdigits) hexdigits.

Lemma hex_lookup_In m a b v : hex_lookup m a b = Some v -> In (a, b, v) m.
Proof.
  induction m as [|[[x y] w] r IH]; simpl; intro H; [discriminate|].
  destruct ((x =? a) && (y =? b)) eqn:E.
  - apply andb_true_iff in E as [E1 E2]. apply N.eqb_eq in E1, E2. inversion H; subst. left. reflexivity.
  - right. apply IH. exact H.
Qed.

Lemma opt_eqb_eq a b : opt_eqb a b = true -> a = b.
Proof.
  destruct a, b; simpl; intro H; try discriminate; try reflexivity.
  apply N.eqb_eq in H. congruence.
Qed.

Lemma hex_lookup_correct m : hex_table_ok m = true -> forall a b, hex_lookup m a b = hexval2 a b.
Proof.
  intros H a b. apply andb_true_iff in H as [Hs Hc].
  destruct (hexval2 a b) as [v|] eqn:E.
  - assert (E' := E). unfold hexval2 in E'. destruct (hexval1 a) as [x|] eqn:Ea; [|discriminate].
    destruct (hexval1 b) as [y|] eqn:Eb; [|discriminate].
    pose proof (hexval1_digits _ _ Ea) as Ia. pose proof (hexval1_digits _ _ Eb) as Ib.
    rewrite forallb_forall in Hc. specialize (Hc a Ia). rewrite forallb_forall in Hc.
    specialize (Hc b Ib). apply opt_eqb_eq in Hc. rewrite Hc. exact E.
  - destruct (hex_lookup m a b) as [v|] eqn:L; [|reflexivity].
    apply hex_lookup_In in L. rewrite forallb_forall in Hs. specialize (Hs _ L). simpl in Hs.
    apply opt_eqb_eq in Hs. congruence.
Qed.

(* ---- split_on ----------------------------------------------------------------------------- *)
Lemma split_on_nonnil c s : exists h t, split_on c s = h :: t.
Proof.
  induction s as [|x r [h [t IH]]]; simpl.
  - eauto.
  - destruct (x =? c); [eauto|]. rewrite IH. eauto.
Qed.

Lemma split_on_cons_ne c x r h t :
  (x =? c) = false -> split_on c r = h :: t -> split_on c (x :: r) = (x :: h) :: t.
Proof. intros E H. simpl. rewrite E, H. reflexivity. Qed.

Lemma split_on_cons_eq c r : split_on c (c :: r) = [] :: split_on c r.
Proof. simpl. rewrite N.eqb_refl. reflexivity. Qed.

Lemma pct_decode_pct a b r' :
  pct_decode (37 :: a :: b :: r') =
  match hexval2 a b with Some v => v :: pct_decode r' | None => 37 :: pct_decode (a :: b :: r') end.
Proof. reflexivity. Qed.

Section Unquote.
Variable T : tables.
Hypothesis HEX : hex_table_ok (t_hex T) = true.

Let U := unquote_to_bytes T.
Let F (r : text) := flat_map (unq_item T) (split_on 37 r).

Lemma U_nonpct x r : (x =? 37) = false -> U (x :: r) = x :: U r.
Proof.
  intro E. unfold U, unquote_to_bytes. destruct (split_on_nonnil 37 r) as [h [t H]].
  rewrite (split_on_cons_ne _ _ _ _ _ E H), H. reflexivity.
Qed.

Lemma U_pct r : U (37 :: r) = F r.
Proof. unfold U, unquote_to_bytes, F. rewrite split_on_cons_eq. reflexivity. Qed.

Lemma F_pct r : F (37 :: r) = 37 :: F r.
Proof. unfold F. rewrite split_on_cons_eq. reflexivity. Qed.

Lemma unq_item_hex a b rest :
  unq_item T (a :: b :: rest) =
  match hexval2 a b with Some v => v :: rest | None => 37 :: a :: b :: rest end.
Proof. unfold unq_item. rewrite (hex_lookup_correct _ HEX). reflexivity. Qed.

Theorem unquote_to_bytes_spec : forall s, unquote_to_bytes T s = pct_decode s.
Proof.
  intro s. remember (length s) as n eqn:Hn. revert s Hn.
  induction n as [n IH] using lt_wf_ind. intros s Hn.
  assert (IHs : forall s', (length s' < length s)%nat -> U s' = pct_decode s').
  { intros s' L. apply (IH (length s')); [lia|reflexivity]. }
  clear IH. fold U.
  destruct s as [|x r]; [reflexivity|].
  destruct (x =? 37) eqn:Ex.
  2:{ rewrite (U_nonpct _ _ Ex). simpl. rewrite Ex. f_equal. apply IHs. simpl. lia. }
  apply N.eqb_eq in Ex. subst x. rewrite U_pct.
  destruct r as [|a r1].
  { reflexivity. }
  destruct r1 as [|b r'].
  { destruct (a =? 37) eqn:Ea.
    - apply N.eqb_eq in Ea. subst a. reflexivity.
    - unfold F. cbn [split_on]. rewrite Ea. cbn [flat_map unq_item app pct_decode].
      rewrite N.eqb_refl, Ea. reflexivity. }
  (* at least two characters after the '%' *)
  rewrite pct_decode_pct.
  destruct (a =? 37) eqn:Ea.
  { apply N.eqb_eq in Ea. subst a. rewrite hexval2_pct_l, F_pct, <- U_pct.
    f_equal. apply IHs. simpl. lia. }
  destruct (b =? 37) eqn:Eb.
  { apply N.eqb_eq in Eb. subst b. rewrite hexval2_pct_r.
    assert (Hr : U (a :: 37 :: r') = a :: F r').
    { rewrite (U_nonpct _ _ Ea), U_pct. reflexivity. }
    rewrite <- (IHs (a :: 37 :: r')) by (simpl; lia). rewrite Hr.
    unfold F. rewrite (split_on_cons_ne 37 a (37 :: r') [] (split_on 37 r') Ea (split_on_cons_eq 37 r')).
    reflexivity. }
  destruct (split_on_nonnil 37 r') as [h [t H]].
  assert (Hs : split_on 37 (a :: b :: r') = (a :: b :: h) :: t).
  { apply split_on_cons_ne; [exact Ea|]. apply split_on_cons_ne; [exact Eb|exact H]. }
  unfold F. rewrite Hs. cbn [flat_map]. rewrite unq_item_hex.
  assert (Ur' : U r' = h ++ flat_map (unq_item T) t).
  { unfold U, unquote_to_bytes. rewrite H. reflexivity. }
  destruct (hexval2 a b) as [v|] eqn:Ev.
  - cbn [app]. f_equal. rewrite <- Ur'. apply IHs. simpl. lia.
  - cbn [app]. f_equal.
    rewrite <- (IHs (a :: b :: r')) by (simpl; lia).
    rewrite (U_nonpct _ _ Ea), (U_nonpct _ _ Eb), Ur'. reflexivity.
Qed.
End Unquote.

(* ---- quoting with a map ----------------------------------------------------------------------- *)
(* e is a %XX triple (hex digits of either case) that decodes to b *)
Definition is_escape_of (b : N) (e : text) : bool :=
  match e with
  | [p; x; y] => (p =? 37) && opt_eqb (hexval2 x y) (Some b)
  | _ => false
  end.

Definition entry_ok (ok : N -> bool) (m : list text) (b : N) : bool :=
  let e := map_get m b in
  is_escape_of b e || (text_eqb e [b] && ok b && negb (b =? 37)).

(* every one of the 256 entries is an escape "%XX" of the byte (upper- or lower-case hex) or the
   byte itself, the latter only for bytes that [ok] admits (and never for '%') *)
Definition map_ok (ok : N -> bool) (m : list text) : bool := forallb (entry_ok ok m) (range 256).

Definition byte (b : N) : bool := b <? 256.

Lemma hex_roundtrip b : b < 256 -> hexval2 (hexdigit_upper (b / 16)) (hexdigit_upper (b mod 16)) = Some b.
Proof.
  intro H.
  assert (A : forallb (fun b => opt_eqb (hexval2 (hexdigit_upper (b / 16)) (hexdigit_upper (b mod 16))) (Some b))
                      (range 256) = true) by (vm_compute; reflexivity).
  apply opt_eqb_eq. apply (forallb_range 256 _ A). exact H.
Qed.

Lemma pct_decode_pct_encode b r : b < 256 -> pct_decode (pct_encode b ++ r) = b :: pct_decode r.
Proof.
  intro H. unfold pct_encode. cbn [app]. rewrite pct_decode_pct, (hex_roundtrip b H). reflexivity.
Qed.

Lemma pct_decode_plain b r : (b =? 37) = false -> pct_decode (b :: r) = b :: pct_decode r.
Proof. intro H. cbn [pct_decode]. rewrite H. reflexivity. Qed.

Lemma legal_pct_encode ok b r : b < 256 -> legal ok (pct_encode b ++ r) = legal ok r.
Proof.
  intro H. unfold pct_encode. cbn [app legal]. rewrite N.eqb_refl, (hex_roundtrip b H). reflexivity.
Qed.

Lemma legal_plain ok b r : (b =? 37) = false -> legal ok (b :: r) = ok b && legal ok r.
Proof. intro H. cbn [legal]. rewrite H. reflexivity. Qed.

Section Quote.
Variable ok : N -> bool.
Variable m : list text.
Hypothesis MOK : map_ok ok m = true.

Lemma entry_cases b : b < 256 ->
  (exists x y, map_get m b = [37; x; y] /\ hexval2 x y = Some b) \/
  (map_get m b = [b] /\ ok b = true /\ (b =? 37) = false).
Proof.
  intro H. pose proof (forallb_range 256 _ MOK b H) as E. unfold entry_ok in E.
  apply orb_true_iff in E as [E|E].
  - left. unfold is_escape_of in E. destruct (map_get m b) as [|p [|x [|y [|z r]]]]; try discriminate.
    apply andb_true_iff in E as [E1 E2]. apply N.eqb_eq in E1. subst p.
    apply opt_eqb_eq in E2. exists x, y. split; [reflexivity|exact E2].
  - right. apply andb_true_iff in E as [E E3]. apply andb_true_iff in E as [E1 E2].
    apply text_eqb_eq in E1. apply negb_true_iff in E3. auto.
Qed.

Lemma quote_decode bs : forallb byte bs = true -> pct_decode (flat_map (map_get m) bs) = bs.
Proof.
  induction bs as [|b r IH]; intro H; [reflexivity|].
  cbn [forallb] in H. apply andb_true_iff in H as [Hb Hr]. unfold byte in Hb. apply N.ltb_lt in Hb.
  cbn [flat_map]. destruct (entry_cases b Hb) as [[x [y [E Ex]]]|[E [_ E3]]]; rewrite E.
  - cbn [app]. rewrite pct_decode_pct, Ex. f_equal. apply IH. exact Hr.
  - cbn [app]. rewrite pct_decode_plain by exact E3. f_equal. apply IH. exact Hr.
Qed.

Lemma quote_legal bs : forallb byte bs = true -> legal ok (flat_map (map_get m) bs) = true.
Proof.
  induction bs as [|b r IH]; intro H; [reflexivity|].
  cbn [forallb] in H. apply andb_true_iff in H as [Hb Hr]. unfold byte in Hb. apply N.ltb_lt in Hb.
  cbn [flat_map]. destruct (entry_cases b Hb) as [[x [y [E Ex]]]|[E [E2 E3]]]; rewrite E.
  - cbn [app legal]. rewrite N.eqb_refl, Ex. apply IH. exact Hr.
  - cbn [app]. rewrite legal_plain by exact E3. rewrite E2. apply IH. exact Hr.
Qed.

(* every character of the quoted text satisfies P, when P holds of '%', of the
   hex digits and of every byte [ok] admits *)
Lemma quote_forall (P : N -> bool) bs :
  P 37 = true -> forallb P hexdigits = true ->
  (forall b, ok b = true -> P b = true) ->
  forallb byte bs = true -> forallb P (flat_map (map_get m) bs) = true.
Proof.
  intros P37 Phex Pok. induction bs as [|b r IH]; intro H; [reflexivity|].
  cbn [forallb] in H. apply andb_true_iff in H as [Hb Hr]. unfold byte in Hb. apply N.ltb_lt in Hb.
  cbn [flat_map]. rewrite forallb_app. rewrite (IH Hr), andb_true_r.
  destruct (entry_cases b Hb) as [[x [y [E Ex]]]|[E [E2 _]]]; rewrite E.
  - cbn [forallb]. rewrite P37. rewrite forallb_forall in Phex.
    unfold hexval2 in Ex. destruct (hexval1 x) eqn:Hx; [|discriminate]. destruct (hexval1 y) eqn:Hy; [|discriminate].
    rewrite (Phex x (hexval1_digits _ _ Hx)), (Phex y (hexval1_digits _ _ Hy)). reflexivity.
  - cbn [forallb]. rewrite (Pok b E2). reflexivity.
Qed.

Lemma quote_nil bs : forallb byte bs = true -> flat_map (map_get m) bs = [] -> bs = [].
Proof.
  destruct bs as [|b r]; intros H E; [reflexivity|exfalso].
  cbn [forallb] in H. apply andb_true_iff in H as [Hb _]. unfold byte in Hb. apply N.ltb_lt in Hb.
  cbn [flat_map] in E. destruct (entry_cases b Hb) as [[x [y [E1 _]]]|[E1 _]]; rewrite E1 in E; discriminate.
Qed.
End Quote.
