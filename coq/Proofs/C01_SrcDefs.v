(* C01: semantics of the programs regenerated from the Python source (coq/Gen/C01_Src.v). *)
From Boltons Require Import Lib.Prelude Spec.C01_Spec Model.C01_Model Model.C01_Ptr Model.C01_PModel
  Model.C01_SrcLang Gen.C01_Src.

(* one while loop runs at most once per existing cell (+1) *)
Definition fuel_of (s : pomd) : nat := S (pnxt s).

(* calling method m: interpret its regenerated body; the methods it calls are interpreted one layer
   below (the call graph of the translated methods has depth 4: popitem -> pop -> popall -> _remove_all) *)
Fixpoint sem (n : nat) (m : meth) (args : list pv) (s : pomd) : res pv * pomd :=
  match n with
  | 0 => no_callee m args s
  | S n' => run_body (sem n') (fuel_of s) (gen_prog m) args s
  end.

Definition src_call : meth -> list pv -> pomd -> res pv * pomd := sem 4.

(* results of the model's operations as Python values *)
Definition pv_of_out (x : out) : pv :=
  match x with
  | OVal v => VTok v | OList l => VToks l | OItem k v => VItem k v | OBool b => VBool b
  | _ => VMissing
  end.
Definition of_op (s : pomd) (r : res (pomd * out)) : res pv * pomd :=
  match r with
  | Ok (s', x) => (Ok (pv_of_out x), s')
  | Raise e => (Raise e, s)
  end.
Definition pv_of_opt (d : option V) : pv := match d with Some v => VTok v | None => VMissing end.

(* the E argument of update / update_extend / |= : another OrderedMultiDict is passed as its state *)
Definition arg_pv (q : pomd) (a : arg) : pv := match a with AOther => VOtherObj q | _ => VArg a end.

(* the parameter defaults the model assumes for callers that omit arguments (get(k) -> None, the
   _MISSING sentinels, multi=False, sorted(key=None, reverse=False)); compared with the regenerated ones *)
Definition expected_defaults : list (meth * list ex) :=
  [(MClearLL, []); (MInsert, []); (MRemove, []); (MRemoveAll, []); (MAdd, []); (MAddList, []);
   (MGet, [ENone]); (MGetList, [EMissing]); (MClear, []); (MSetDefault, [EMissing]); (MSetItem, []);
   (MGetItem, []); (MDelItem, []); (MPop, [EMissing]); (MPopAll, [EMissing]); (MPopItem, []);
   (MPopLast, [EMissing; EMissing]); (MUpdate, []); (MUpdateExtend, []); (MIOr, []);
   (MIterItems, [EFalse]); (MIterKeys, [EFalse]); (MIterValues, [EFalse]); (MReversed, []);
   (MKeys, [EFalse]); (MValues, [EFalse]); (MItems, [EFalse]); (MIter, []); (MGetState, []); (MSetState, []);
   (MCopy, []); (MInverted, []); (MCounts, []); (MSorted, [ENone; EFalse]); (MToDict, [EFalse]);
   (MEq, []); (MNe, []); (MSortedValues, [ENone; EFalse]); (MInit, []); (MFromKeys, [ENone]); (MReduceEx, [])].
