(* C06: quote_*_part(full_quote=True) is undone by unquote; unquote is the
   reference decoder; the quoted text is legal at its position. *)
From Boltons Require Import Lib.Prelude Lib.C06_Text Spec.C06_Spec Model.C06_Model
  Proofs.C06_Codec Proofs.C06_Utf8.
From Coq Require Import ZifyBool.
Open Scope N_scope.

(* ---- what the check requires of the regenerated tables -------------------------------- *)
Definition position_of (c : comp) : position :=
  match c with CUser => PUser | CPath => PPath | CQuery => PQuery | CFrag => PFrag end.

Definition tables_ok (T : tables) : bool :=
  hex_table_ok (t_hex T) &&
  map_ok (ok_at PUser) (t_user_map T) && map_ok (ok_at PPath) (t_path_map T) &&
  map_ok (ok_at PQuery) (t_query_map T) && map_ok (ok_at PFrag) (t_frag_map T).

Lemma tables_ok_hex T : tables_ok T = true -> hex_table_ok (t_hex T) = true.
Proof. unfold tables_ok. intro H. do 4 (apply andb_true_iff in H as [H ?]). exact H. Qed.

Lemma tables_ok_map T c : tables_ok T = true -> map_ok (ok_at (position_of c)) (qmap T c) = true.
Proof.
  unfold tables_ok. intro H. do 4 (apply andb_true_iff in H as [H ?]).
  destruct c; assumption.
Qed.

(* ---- facts about the RFC character classes (Spec) --------------------------------------- *)
Lemma ok_at_ascii p b : ok_at p b = true -> is_ascii b = true.
Proof.
  unfold is_ascii. destruct p; cbn [ok_at]; unfold ok_qf, ok_pchar, unreserved, subdelim, ucs, alpha, digit, nin;
    cbn [memN andb]; lia.
Qed.

(* ---- runs ------------------------------------------------------------------------------------ *)
Lemma ascii_runs_eq_runs s : ascii_runs s = runs s.
Proof. induction s as [|c r IH]; [reflexivity|]. cbn [ascii_runs runs]. rewrite IH. reflexivity. Qed.

Lemma runs_ascii q : q <> [] -> forallb is_ascii q = true -> runs q = [(true, q)].
Proof.
  induction q as [|c r IH]; intros NE H; [contradiction|].
  cbn [forallb] in H. apply andb_true_iff in H as [Hc Hr].
  cbn [runs]. destruct r as [|d r'].
  - cbn [runs]. rewrite Hc. reflexivity.
  - rewrite IH by (discriminate || exact Hr). rewrite Hc. reflexivity.
Qed.

Definition dec_run (T : tables) (x : bool * text) : text :=
  let '(a, run) := x in if a then utf8_dec (unquote_to_bytes T run) else run.
Definition ref_run (x : bool * text) : text :=
  let '(a, run) := x in if a then utf8_dec (pct_decode run) else run.

Lemma pct_decode_nopct s : memN 37 s = false -> pct_decode s = s.
Proof.
  induction s as [|c r IH]; intro H; [reflexivity|].
  cbn [memN] in H. apply orb_false_iff in H as [H1 H2].
  cbn [pct_decode]. rewrite N.eqb_sym, H1. f_equal. apply IH. exact H2.
Qed.

(* without a '%' the reference decoder changes nothing *)
Lemma ref_unquote_nopct s : memN 37 s = false -> ref_unquote s = s.
Proof.
  unfold ref_unquote.
  assert (G : forall s, memN 37 s = false ->
              flat_map (fun '(a, run) => if (a : bool) then utf8_dec (pct_decode run) else run) (runs s) = s /\
              match runs s with
              | (true, run) :: _ => forallb is_ascii run = true /\ memN 37 run = false
              | _ => True
              end).
  { clear s. induction s as [|c r IH]; intro H; [split; [reflexivity|exact I]|].
    cbn [memN] in H. apply orb_false_iff in H as [H1 H2]. destruct (IH H2) as [IH1 IH2]. clear IH.
    cbn [runs]. destruct (runs r) as [|[a run] q] eqn:R.
    - cbn [flat_map] in IH1. subst r. cbn [flat_map app]. destruct (is_ascii c) eqn:A.
      + rewrite pct_decode_nopct by (cbn [memN]; rewrite H1; reflexivity).
        rewrite utf8_dec_ascii by (cbn [forallb]; rewrite A; reflexivity).
        split; [reflexivity|]. split; [cbn [forallb]; rewrite A; reflexivity|cbn [memN]; rewrite H1; reflexivity].
      + split; [reflexivity|exact I].
    - destruct a; destruct (is_ascii c) eqn:A; cbn [Bool.eqb].
      + destruct IH2 as [I1 I2]. cbn [flat_map] in IH1 |- *.
        rewrite pct_decode_nopct in IH1 by exact I2. rewrite utf8_dec_ascii in IH1 by exact I1.
        rewrite pct_decode_nopct by (cbn [memN]; rewrite H1; exact I2).
        rewrite utf8_dec_ascii by (cbn [forallb]; rewrite A; exact I1).
        split; [cbn [app]; rewrite <- IH1; reflexivity|].
        split; [cbn [forallb]; rewrite A; exact I1|cbn [memN]; rewrite H1; exact I2].
      + cbn [flat_map app]. cbn [flat_map] in IH1. rewrite IH1. split; [reflexivity|exact I].
      + cbn [flat_map]. cbn [flat_map] in IH1. rewrite IH1.
        rewrite pct_decode_nopct by (cbn [memN]; rewrite H1; reflexivity).
        rewrite utf8_dec_ascii by (cbn [forallb]; rewrite A; reflexivity).
        split; [reflexivity|]. split; [cbn [forallb]; rewrite A; reflexivity|cbn [memN]; rewrite H1; reflexivity].
      + cbn [flat_map] in IH1 |- *. cbn [app]. rewrite <- IH1. split; [reflexivity|exact I]. }
  intro H. apply (G s H).
Qed.

Section WithTables.
Variable T : tables.
Variable O : oracles.
Hypothesis TOK : tables_ok T = true.

(* unquote = the reference decoder, on every text *)
Theorem unquote_is_ref s : unquote T s = ref_unquote s.
Proof.
  unfold unquote. destruct (memN 37 s) eqn:E.
  - unfold ref_unquote. rewrite ascii_runs_eq_runs. apply flat_map_ext. intros [a run].
    destruct a; [|reflexivity]. rewrite (unquote_to_bytes_spec T (tables_ok_hex T TOK)). reflexivity.
  - symmetry. apply ref_unquote_nopct. exact E.
Qed.

Lemma quote_bytes_ascii c bs : forallb byte bs = true -> forallb is_ascii (quote_bytes T c bs) = true.
Proof.
  intro H. unfold quote_bytes.
  apply (quote_forall (ok_at (position_of c)) (qmap T c) (tables_ok_map T c TOK) is_ascii).
  - reflexivity.
  - reflexivity.
  - intros b Hb. apply (ok_at_ascii _ _ Hb).
  - exact H.
Qed.

(* the quoted text decodes back to the bytes *)
Lemma quote_bytes_decode c bs : forallb byte bs = true -> pct_decode (quote_bytes T c bs) = bs.
Proof. apply (quote_decode (ok_at (position_of c)) (qmap T c) (tables_ok_map T c TOK)). Qed.

(* quote_X_part(s, full_quote=True) then unquote gives the NFC form of s back *)
Theorem unquote_quote_full c s :
  all_scalar (o_nfc O s) = true -> unquote T (quote_full T O c s) = o_nfc O s.
Proof.
  intro S. rewrite unquote_is_ref. unfold quote_full.
  set (n := o_nfc O s) in *. set (bs := utf8_enc n).
  assert (B : forallb byte bs = true) by (apply utf8_enc_bytes; exact S).
  pose proof (quote_bytes_ascii c bs B) as A.
  destruct (quote_bytes T c bs) as [|x q] eqn:Q.
  - (* empty quoted text: the bytes, hence the text, are empty *)
    assert (bs = []).
    { apply (quote_nil (ok_at (position_of c)) (qmap T c) (tables_ok_map T c TOK) bs B). exact Q. }
    assert (n = []) by (apply utf8_enc_nil; assumption). subst n. rewrite H0. reflexivity.
  - unfold ref_unquote. rewrite runs_ascii by (discriminate || exact A).
    cbn [flat_map]. rewrite app_nil_r. rewrite <- Q, quote_bytes_decode by exact B.
    apply utf8_roundtrip. exact S.
Qed.

(* ... and uses only characters that are legal at that position *)
Theorem quote_full_legal c s :
  all_scalar (o_nfc O s) = true -> legal (ok_at (position_of c)) (quote_full T O c s) = true.
Proof.
  intro S. unfold quote_full, quote_bytes.
  apply (quote_legal (ok_at (position_of c)) (qmap T c) (tables_ok_map T c TOK)).
  apply utf8_enc_bytes. exact S.
Qed.

Lemma text_eqb_refl s : text_eqb s s = true.
Proof. apply text_eqb_eq. reflexivity. Qed.

(* the check's Spec predicate for a quote case holds of what the model computes
   (law assumed of the NFC oracle: it maps scalar values to scalar values) *)
Theorem quote_ok_model c s :
  (forall x, all_scalar x = true -> all_scalar (o_nfc O x) = true) ->
  (forall x, o_nfc O (o_nfc O x) = o_nfc O x) ->
  quote_ok (o_nfc O) (position_of c) s (quote_full T O c s) (unquote T (quote_full T O c s)) = true.
Proof.
  intros NFC IDEM. unfold quote_ok. destruct (all_scalar s) eqn:S0; [|reflexivity].
  pose proof (NFC s S0) as S.
  rewrite (quote_full_legal c s S). rewrite <- unquote_is_ref, (unquote_quote_full c s S).
  rewrite IDEM, text_eqb_refl. reflexivity.
Qed.
End WithTables.
