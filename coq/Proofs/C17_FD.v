(* FrozenDict: mutators raise and change nothing; the hash depends only on the
   set of items (order-free) and is cached consistently; updated/copy/pickle. *)
From Coq Require Import Permutation.
From Boltons Require Import Lib.Prelude Model.C17_Model Proofs.C17_Dict.

Definition is_mutator (op : fd_op) : bool :=
  match op with
  | FSetitem _ _ | FDelitem _ | FUpdate _ | FIor _ | FSetdefault _ _ | FPop _ _ | FPopitem | FClear => true
  | _ => false
  end.

Section FD.
  Variable ih : kv -> Z.

  Lemma fd_mutator_raises f op : is_mutator op = true -> fd_step ih f op = (f, Raise TypeError).
  Proof. destruct op; simpl; congruence. Qed.

  Lemma fd_hash_items f : f_items (fst (fd_hash ih f)) = f_items f.
  Proof.
    unfold fd_hash. destruct (f_slot f); simpl; trivial.
    destruct (existsb _ _); reflexivity.
  Qed.

  Lemma fd_step_items f op : f_items (fst (fd_step ih f op)) = f_items f.
  Proof. destruct op; simpl; trivial; apply fd_hash_items. Qed.

  Definition fd_run (f : fdict) (ops : list fd_op) : fdict :=
    fold_left (fun f op => fst (fd_step ih f op)) ops f.

  Lemma fd_run_items ops : forall f, f_items (fd_run f ops) = f_items f.
  Proof.
    unfold fd_run. induction ops as [|op r IH]; simpl; intro f; trivial.
    rewrite IH. apply fd_step_items.
  Qed.

  (* ---- hash: what a fresh computation gives ------------------------------- *)
  Definition hash_of (items : dict) : res fval :=
    if existsb (fun p => unhashable (snd p)) items then Raise FrozenHashError
    else Ok (FHashV (fs_hash (map ih items))).

  Definition slot_ok (f : fdict) : Prop :=
    match f_slot f with
    | HUnset => True
    | HVal h => hash_of (f_items f) = Ok (FHashV h)
    | HErr => hash_of (f_items f) = Raise FrozenHashError
    end.

  Lemma fd_hash_result f : slot_ok f -> snd (fd_hash ih f) = hash_of (f_items f).
  Proof.
    unfold slot_ok, fd_hash, hash_of. destruct (f_slot f); simpl; intro H; try (symmetry; exact H).
    destruct (existsb _ _); reflexivity.
  Qed.

  Lemma fd_hash_slot_ok f : slot_ok f -> slot_ok (fst (fd_hash ih f)).
  Proof.
    unfold slot_ok, fd_hash, hash_of. destruct (f_slot f) eqn:E; simpl; intro H; try (rewrite E; exact H).
    destruct (existsb (fun p => unhashable (snd p)) (f_items f)) eqn:Eu; simpl; rewrite Eu; reflexivity.
  Qed.

  Lemma fd_step_slot_ok f op : slot_ok f -> slot_ok (fst (fd_step ih f op)).
  Proof. destruct op; simpl; trivial; apply fd_hash_slot_ok. Qed.

  Lemma fd_run_slot_ok ops : forall f, slot_ok f -> slot_ok (fd_run f ops).
  Proof.
    unfold fd_run. induction ops as [|op r IH]; simpl; intros f H; trivial.
    apply IH. now apply fd_step_slot_ok.
  Qed.

  (* every hash() of one object, at any point of any history, gives the same outcome *)
  Lemma hash_consistent items ops1 :
    snd (fd_hash ih (fd_run (mkFD items HUnset) ops1)) = hash_of items.
  Proof.
    rewrite fd_hash_result.
    - now rewrite fd_run_items.
    - apply fd_run_slot_ok. exact I.
  Qed.
End FD.

(* ---- the frozenset hash is a function of the multiset of entry hashes ------ *)
Lemma xor_entries_perm l1 l2 : Permutation l1 l2 -> xor_entries l1 = xor_entries l2.
Proof.
  unfold xor_entries. induction 1; simpl.
  - reflexivity.
  - now rewrite IHPermutation.
  - rewrite <- !Z.lxor_assoc. f_equal. apply Z.lxor_comm.
  - congruence.
Qed.

Lemma fs_hash_perm l1 l2 : Permutation l1 l2 -> fs_hash l1 = fs_hash l2.
Proof.
  intro H. unfold fs_hash. rewrite (xor_entries_perm _ _ H), (Permutation_length H). reflexivity.
Qed.

Lemma existsb_perm {A} (p : A -> bool) l1 l2 : Permutation l1 l2 -> existsb p l1 = existsb p l2.
Proof.
  induction 1; simpl; try congruence.
  destruct (p x), (p y); reflexivity.
Qed.

Theorem hash_order_free ih items1 items2 :
  Permutation items1 items2 -> hash_of ih items1 = hash_of ih items2.
Proof.
  intro H. unfold hash_of. rewrite (existsb_perm _ _ _ H).
  rewrite (fs_hash_perm (map ih items1) (map ih items2)); trivial. now apply Permutation_map.
Qed.

(* two FrozenDicts with the same items in any insertion order, after any
   histories, hash alike (or both raise FrozenHashError) *)
Theorem frozen_hash_order_free ih items1 items2 ops1 ops2 :
  Permutation items1 items2 ->
  snd (fd_hash ih (fd_run ih (mkFD items1 HUnset) ops1)) =
  snd (fd_hash ih (fd_run ih (mkFD items2 HUnset) ops2)).
Proof. intro H. rewrite !hash_consistent. now apply hash_order_free. Qed.

(* ---- == on dicts ignores insertion order ---------------------------------------- *)
Lemma dict_eqb_perm (a b : dict) :
  NoDup (map fst a) -> Permutation a b -> dict_eqb_unordered a b = true.
Proof.
  intros ND H. unfold dict_eqb_unordered. rewrite (Permutation_length H), Nat.eqb_refl. simpl.
  apply forallb_forall. intros [k v] Hin. simpl.
  assert (NDb : NoDup (map fst b)).
  { eapply Permutation_NoDup; [|exact ND]. now apply Permutation_map. }
  rewrite (In_get b k v NDb).
  - apply Nat.eqb_refl.
  - eapply Permutation_in; eauto.
Qed.

(* ---- updated(): dict.update semantics on a copy ----------------------------------- *)
Lemma d_update_get kvs : forall (d : dict) k,
  d_get (d_update d kvs) k =
  match d_get (rev kvs) k with Some v => Some v | None => d_get d k end.
Proof.
  unfold d_update. induction kvs as [|[a b] r IH]; simpl; intros d k; trivial.
  rewrite IH, get_set.
  assert (G : forall (l : dict) x y, d_get (l ++ [(x, y)]) k =
              match d_get l k with Some v => Some v | None => if Nat.eqb k x then Some y else None end).
  { induction l as [|[p q] l IHl]; simpl; intros x y; trivial. destruct (Nat.eqb k p); trivial. }
  rewrite G. destruct (d_get (rev r) k); trivial. destruct (Nat.eqb k a); trivial.
Qed.

Lemma d_update_nodup kvs : forall d : dict, NoDup (map fst d) -> NoDup (map fst (d_update d kvs)).
Proof.
  unfold d_update. induction kvs as [|[a b] r IH]; simpl; intros d H; trivial.
  apply IH. now apply nodup_set.
Qed.
