(* C15 (T) tie: the Gallina text regenerated from /repo's current backoff_iter on every run
   (Gen/C15_Src.v, by harness/translators/c15_src.py) equals the hand-written model functions the
   property theorems are about.  If the source changes, either the translator fails closed or one
   of these proofs breaks; the check then reports a broken tie and searches for a failing input. *)
From Boltons Require Import Lib.Prelude Lib.C15_Float Spec.C15_Spec Model.C15_Model Gen.C15_Src.

Section SrcEq.
  Context {F : Type} (fo : fops F).

  (* the `count is None` loop *)
  Lemma src_count_loop_eq : forall fuel stop factor cur n,
    src_count_loop fo fuel stop factor n cur = default_count fo fuel stop factor cur n.
  Proof.
    induction fuel as [|k IH]; intros stop factor cur n; simpl; [reflexivity|].
    destruct (fltb fo cur stop); [|reflexivity].
    destruct (negb (fltb fo cur (if negb (feqb fo cur (f0 fo)) then fmul fo cur factor else f1 fo)));
      [reflexivity|apply IH].
  Qed.

  (* every statement before the main loop *)
  Theorem src_prepare_eq : forall fuel start stop factor c jitter,
    src_prepare fo fuel start stop factor c jitter = prepare fo fuel start stop factor c jitter.
  Proof.
    intros. unfold src_prepare, prepare. rewrite src_count_loop_eq.
    destruct (negb (fleb fo (f0 fo) start)); [reflexivity|].
    destruct (negb (fleb fo (f1 fo) factor)); [reflexivity|].
    destruct (feqb fo stop (f0 fo)); [reflexivity|].
    destruct (negb (fleb fo start stop)); [reflexivity|].
    cbv zeta.
    destruct c as [|z|]; [destruct (default_count fo fuel stop factor start 1) as [m| |]|..];
      try reflexivity;
      repeat match goal with |- context [if ?b then _ else _] => destruct b end; reflexivity.
  Qed.

  (* the value yielded for the current un-jittered value, and the state update after the yield *)
  Theorem src_emit_eq : forall jit jitter cur r, src_emit fo jit jitter cur r = emit fo jit jitter cur r.
  Proof. intros [|] jitter cur r; reflexivity. Qed.

  Theorem src_step_eq : forall stop factor cur, src_step fo stop factor cur = step fo stop factor cur.
  Proof. reflexivity. Qed.

  (* the main loop starts from (start, 0) and makes exactly max(0, count) turns (for ever for
     'repeat'): what the model's [gen_loop (Z.to_nat z)] / [produce take] encode *)
  Theorem src_init_eq : forall start : F, src_init start = (start, 0%Z).
  Proof. reflexivity. Qed.

  Theorem src_continue_turns : forall (z : Z) (k : nat),
    src_continue (NFin z) (Z.of_nat k) = true <-> (k < Z.to_nat z)%nat.
  Proof. intros z k. unfold src_continue. rewrite Z.ltb_lt. lia. Qed.

  Theorem src_continue_repeat : forall i, src_continue NInf i = true.
  Proof. reflexivity. Qed.
End SrcEq.
