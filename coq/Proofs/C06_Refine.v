(* C06 capstone: for a URL built from parts (scheme, name/IPv4 host, port, any component texts), what the
   MODEL computes for a round-trip case satisfies exactly the Spec predicate [roundtrip_ok] that the
   check evaluates on the IMPLEMENTATION's observation ([holds]); with [agree] on a run, the theorem
   transfers to the code on that run. *)
From Boltons Require Import Lib.Prelude Lib.C06_Text Spec.C06_Spec Model.C06_Model
  Proofs.C06_Codec Proofs.C06_Utf8 Proofs.C06_Quote Proofs.C06_Lists Proofs.C06_Round Proofs.C06_Legal.
From Coq Require Import ZifyBool.
Open Scope N_scope.

Definition observe_url (T : tables) (u : url) : url_obs :=
  mkUO (u_scheme u) (u_user u) (u_pass u) (u_family u) (u_host u) (u_port u)
       (u_path u) (u_query u) (u_frag u) (uses_netloc T u).

Lemma texts_eqb_refl l : texts_eqb l l = true.
Proof. unfold texts_eqb. induction l as [|x r IH]; [reflexivity|]. cbn [list_eqb]. rewrite text_eqb_refl, IH. reflexivity. Qed.

Lemma pairs_eqb_refl l : pairs_eqb l l = true.
Proof.
  unfold pairs_eqb. induction l as [|[k v] r IH]; [reflexivity|]. cbn [list_eqb fst snd]. rewrite text_eqb_refl, IH.
  unfold otext_eqb. destruct v; cbn [option_eqb]; rewrite ?text_eqb_refl; reflexivity.
Qed.

Lemma scheme_ok_chars s : scheme_ok s = true -> forallb (not_in [58; 47; 63; 35]) s = true.
Proof.
  unfold scheme_ok. destruct s as [|c r]; [discriminate|]. intro H. apply andb_true_iff in H as [Hc Hr].
  cbn [forallb]. apply andb_true_iff. split.
  - unfold alpha in Hc. unfold not_in. cbn [memN]. lia.
  - rewrite forallb_forall in *. intros x Hx. specialize (Hr x Hx). unfold alpha, digit in Hr. unfold not_in. cbn [memN] in *. lia.
Qed.

Theorem round_case_ok T O :
  tables_ok T = true ->
  forall scheme host port user pw rest q frag ht b4 h2,
  let nfc := o_nfc O in
  let path := [] :: rest in
  let u := from_parts scheme host port user pw path q frag in
  (* laws of the NFC oracle *)
  nfc [] = [] -> (forall x, nfc (nfc x) = nfc x) -> (forall x, nfc x = [] -> x = []) ->
  (forall x, all_scalar x = true -> all_scalar (nfc x) = true) ->
  (* the hypotheses the Spec itself checks *)
  components_wf scheme user pw path q frag = true ->
  (* a valid name / IPv4 host and port *)
  host <> [] -> memN 58 host = false -> o_idna_enc O host = MOk ht ->
  ht <> [] -> forallb (not_in [58; 64; 47; 63; 35]) ht = true -> legal (ok_regname false) ht = true ->
  o_inet4 O ht = MOk b4 -> (if all_ascii ht then o_idna_dec O ht = MOk h2 else h2 = ht) ->
  h2 <> [] -> memN 58 h2 = false -> o_idna_enc O h2 = MOk ht ->
  port_wf port = true ->
  exists full u',
    to_text T O true u = MOk full /\ url_init T O full = MOk u' /\ to_text T O true u' = MOk full /\
    roundtrip_ok nfc scheme user pw path q frag h2 full (Ok (observe_url T u')) (Ok full) = true.
Proof.
  intros TOK scheme host port user pw rest q frag ht b4 h2 nfc path u N0 IDEM NN NS WF
         HNE M58 ENC HTNE HTC HTL I4 DEC H2NE H2M ENC2 PV.
  pose proof WF as WF0. unfold components_wf in WF.
  repeat (apply andb_true_iff in WF as [WF ?]).
  rename WF into SO. rename H into QK. rename H0 into PA. rename H1 into QS. rename H2 into FS. rename H3 into PS.
  rename H4 into WS. rename H5 into US.
  assert (Hs : forallb (not_in [58; 47; 63; 35]) scheme = true) by (apply scheme_ok_chars; exact SO).
  assert (Su : all_scalar (nfc user) = true) by (apply NS; exact US).
  assert (Sp : all_scalar (nfc pw) = true) by (apply NS; exact WS).
  assert (Sf : all_scalar (nfc frag) = true) by (apply NS; exact FS).
  assert (Fr : Forall (fun s => all_scalar (nfc s) = true) rest).
  { apply Forall_forall. intros x Hx. apply NS. unfold path in PS. cbn [forallb] in PS.
    apply andb_true_iff in PS as [_ PS]. rewrite forallb_forall in PS. apply PS. exact Hx. }
  assert (Fq : Forall (pair_ok O) q).
  { apply Forall_forall. intros [k v] Hx. rewrite forallb_forall in QS, QK. specialize (QS _ Hx). specialize (QK _ Hx).
    cbn beta iota in QS, QK. apply andb_true_iff in QS as [Sk Sv]. split; [apply NS; exact Sk|].
    destruct v as [v|]; [apply NS; exact Sv|]. intro E. apply NN in E. subst k. discriminate. }
  unfold u, from_parts, path.
  destruct (roundtrip T O TOK scheme false user pw 0 host port rest q frag ht b4 h2 Hs N0 Su Sp Sf Fr Fq
              HNE eq_refl M58 ENC HTNE HTC I4 DEC PV) as [full [u' [R [P [E1 [E2 [E3 [E4 [E5 [E6 [E7 E8]]]]]]]]]]].
  exists full, u'. split; [exact R|]. split; [exact P|].
  assert (FX : to_text T O true u' = MOk full).
  { apply (fixpoint_full_class T O TOK scheme false user pw 0 host port rest q frag ht b4 h2 Hs N0 IDEM NN Su Sp Sf Fr Fq
             HNE eq_refl M58 ENC HTNE HTC I4 DEC H2NE H2M ENC2 PV full u' R P). }
  split; [exact FX|].
  unfold roundtrip_ok. fold path. rewrite WF0. unfold recovered, observe_url.
  cbn [uo_user uo_pass uo_path uo_query uo_frag uo_scheme uo_host].
  rewrite E1, E2, E3, E4, E5, E6, E7. fold nfc. rewrite !IDEM, !text_eqb_refl. cbn [andb].
  assert (PE : map nfc (map nfc ([] :: rest)) = map nfc path).
  { unfold path. rewrite map_map. apply map_ext. intro x. apply IDEM. }
  rewrite PE, texts_eqb_refl. cbn [andb].
  assert (QE : nfc_pairs nfc (map (fun kv => (nfc (fst kv), option_map nfc (snd kv))) q) = nfc_pairs nfc q).
  { unfold nfc_pairs. rewrite map_map. apply map_ext. intros [k [v|]]; cbn [fst snd option_map]; rewrite ?IDEM; reflexivity. }
  rewrite QE, pairs_eqb_refl. cbn [andb].
  rewrite (rendered_legal T O TOK scheme false user pw 0 host port rest q frag ht (or_intror SO) Hs N0 Su Sp Sf Fr Fq
             HNE eq_refl M58 ENC HTNE HTC HTL PV full R).
  reflexivity.
Qed.
