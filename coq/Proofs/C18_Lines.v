(* Facts about the reference file of Spec.C18_Spec: lines, rest, advance. *)
From Coq Require Import ZifyBool.
From Boltons Require Import Lib.Prelude Spec.C18_Spec.

Lemma take_line_nil_iff l : take_line l = [] <-> l = [].
Proof. destruct l as [|x r]; simpl; [tauto|]. destruct (N.eqb x 10); split; discriminate. Qed.

Lemma take_line_prefix l : l = take_line l ++ skipn (length (take_line l)) l.
Proof.
  induction l as [|x r IH]; simpl; [reflexivity|].
  destruct (N.eqb x 10); simpl; [reflexivity|]. f_equal. exact IH.
Qed.

Lemma take_line_length l : length (take_line l) <= length l.
Proof.
  induction l as [|x r IH]; simpl; [lia|]. destruct (N.eqb x 10); simpl; lia.
Qed.

(* the first line of [lines] is [take_line], the others are the lines of what follows *)
Lemma lines_unfold l :
  l <> [] -> lines l = take_line l :: lines (skipn (length (take_line l)) l).
Proof.
  induction l as [|x r IH]; [congruence|]. intros _. simpl.
  destruct (N.eqb x 10) eqn:E; simpl; [reflexivity|].
  destruct r as [|y r'].
  - reflexivity.
  - rewrite IH by discriminate. reflexivity.
Qed.

Lemma lines_nil : lines [] = [].
Proof. reflexivity. Qed.

Lemma concat_lines l : concat (lines l) = l.
Proof.
  induction l as [|x r IH]; simpl; [reflexivity|].
  destruct (N.eqb x 10); simpl; [now rewrite IH|].
  destruct (lines r) as [|ln more] eqn:E; simpl in *.
  - now subst.
  - now rewrite <- IH.
Qed.

Lemma lines_count l : length (lines l) <= length l.
Proof.
  induction l as [|x r IH]; simpl; [lia|].
  destruct (N.eqb x 10); simpl; [lia|].
  destruct (lines r); simpl in *; lia.
Qed.

Lemma total_len_lines l : total_len (lines l) = length l.
Proof. unfold total_len. now rewrite concat_lines. Qed.

Lemma take_hint_0 acc ls : take_hint 0 acc ls = ls.
Proof. revert acc; induction ls as [|ln r IH]; intro acc; simpl; [reflexivity|]. now rewrite IH. Qed.

(* ---- rest / advance --------------------------------------------------------- *)
Lemma skipn_skipn' {A} a b (l : list A) : skipn a (skipn b l) = skipn (b + a) l.
Proof.
  revert l; induction b as [|b IH]; intro l; simpl; [reflexivity|].
  destruct l; [now rewrite skipn_nil|apply IH].
Qed.

Lemma rest_advance f k : rest (advance f k) = skipn k (rest f).
Proof. unfold rest, advance; simpl. now rewrite skipn_skipn'. Qed.

Lemma rest_length f : rf_pos f <= length (rf_data f) ->
  length (rest f) = length (rf_data f) - rf_pos f.
Proof. intros. unfold rest. now rewrite skipn_length. Qed.

Lemma rest_nil_iff f : rf_pos f <= length (rf_data f) ->
  (rest f = [] <-> rf_pos f = length (rf_data f)).
Proof.
  intros H. split; intro E.
  - apply (f_equal (@length N)) in E. rewrite rest_length in E by assumption. simpl in E. lia.
  - unfold rest. rewrite E. apply skipn_all.
Qed.

Definition wf (f : rfile) : Prop := rf_pos f <= length (rf_data f).

Lemma overwrite_end data d : overwrite data (length data) d = data ++ d.
Proof.
  unfold overwrite. destruct d as [|x d]; [now rewrite app_nil_r|].
  rewrite firstn_all, skipn_all2 by lia. rewrite Nat.sub_diag. cbn [repeat app]. now rewrite app_nil_r.
Qed.

Lemma rest_nil_ge f : rest f = [] -> length (rf_data f) <= rf_pos f.
Proof.
  unfold rest. intro E. apply (f_equal (@length N)) in E. rewrite skipn_length in E. cbn in E. lia.
Qed.

Lemma rest_length_le f : length (rest f) <= length (rf_data f).
Proof. unfold rest. rewrite skipn_length. lia. Qed.
