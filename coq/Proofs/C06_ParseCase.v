(* C06: the model's observation of a parse case satisfies Spec.parse_ok - exactly the predicate [holds] evaluates on
   the implementation's observation of a KParse case - for every parsed text inside the guards of the fixed-point
   theorems (composition of parse_reads, parse_port_reads, fixpoint_full_guarded, fixpoint_min_guarded). *)
From Boltons Require Import Lib.Prelude Lib.C06_Text Spec.C06_Spec Model.C06_Model Proofs.C06_Codec Proofs.C06_Quote
  Proofs.C06_QuoteMin Proofs.C06_Refine Proofs.C06_Guard Proofs.C06_Reads Proofs.C06_ReadsPort.
Open Scope N_scope.

Theorem parse_case_ok T O :
  tables_ok T = true -> delims_ok T = true ->
  let nfc := o_nfc O in
  nfc [] = [] -> (forall x, nfc (nfc x) = nfc x) -> (forall x, nfc x = [] -> x = []) ->
  ip_text_oracles O ->
  forall t u, url_init T O t = MOk u ->
  fx_guard T O u = true ->
  (no_pct (observe_url T u) = true -> fx_guard_min T O u = true) ->
  forall t1 u1 t2 m1 v1 m2,
  to_text T O true u = MOk t1 -> url_init T O t1 = MOk u1 -> to_text T O true u1 = MOk t2 ->
  to_text T O false u = MOk m1 -> url_init T O m1 = MOk v1 -> to_text T O false v1 = MOk m2 ->
  forall host_valid,
  parse_ok host_valid t (Ok (observe_url T u)) (Ok t1) (Ok t2) (Ok m1) (Ok m2) = true.
Proof.
  intros TOK DOK nfc N0 IDEM NN IPO t u P G GM t1 u1 t2 m1 v1 m2 R1 P1 R2 M1 Q1 M2 hv.
  unfold parse_ok. destruct (wf_ref true t) eqn:WF; [|reflexivity].
  rewrite (parse_reads T O TOK t u WF P), (parse_port_reads T O t u IPO WF P). cbn [andb].
  pose proof (fixpoint_full_guarded T O TOK N0 IDEM NN t u P G t1 u1 R1 P1) as FX.
  assert (E : t2 = t1) by (rewrite FX in R2; injection R2 as <-; reflexivity). subst t2.
  rewrite text_eqb_refl. replace (if hv then true else true) with true by (destruct hv; reflexivity). cbn [andb].
  destruct (no_pct (observe_url T u)) eqn:NP; [|reflexivity].
  pose proof (fixpoint_min_guarded T O TOK DOK N0 IDEM NN t u P (GM eq_refl) m1 v1 M1 Q1) as FM.
  rewrite FM in M2. injection M2 as <-. apply text_eqb_refl.
Qed.
