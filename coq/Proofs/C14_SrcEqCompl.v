(* (T) tie: the Gallina text regenerated from the current source of
   strutils.complement_int_list computes the same function as the model. *)
From Boltons Require Import Lib.Prelude Lib.C14_Text Spec.C14_Spec Model.C14_Model Check.C14_Check
  Proofs.C14_Sh Proofs.C14_Int Proofs.C14_Int2 Proofs.C14_Int3.
From Boltons Require Import Gen.C14_Src Proofs.C14_SrcEqParse.
Open Scope Z_scope.

Lemma memZ_zrange v lo hi : memZ v (zrange lo hi) = (lo <=? v) && (v <? hi).
Proof.
  unfold memZ. destruct (existsb (Z.eqb v) (zrange lo hi)) eqn:E.
  - apply existsb_exists in E as (y & Hy & Ey). apply Z.eqb_eq in Ey. subst y. apply zrange_in in Hy.
    symmetry. apply andb_true_iff. split; [apply Z.leb_le|apply Z.ltb_lt]; lia.
  - symmetry. destruct ((lo <=? v) && (v <? hi)) eqn:E2; [|reflexivity].
    apply andb_true_iff in E2 as [H1 H2]. apply Z.leb_le in H1. apply Z.ltb_lt in H2.
    assert (Hin : In v (zrange lo hi)) by (apply zrange_in; lia).
    assert (existsb (Z.eqb v) (zrange lo hi) = true) by (apply existsb_exists; exists v; split; [exact Hin|apply Z.eqb_refl]).
    congruence.
Qed.

Theorem src_complement_int_list_eq s start stop delim rdelim :
  src_complement_int_list s start stop delim rdelim = complement_int_list s start stop delim rdelim.
Proof.
  unfold src_complement_int_list, complement_int_list. rewrite src_parse_int_list_eq.
  destruct (parse_int_list s delim rdelim) as [ints|e]; [|reflexivity].
  f_equal. unfold src_complement_tail. cbv zeta.
  assert (Hend : (if src_is_none stop
                  then if src_nonempty ints then list_maxZ ints + 1 else start
                  else src_get stop)
                 = match stop with
                   | Some e => e
                   | None => match ints with [] => start | _ :: _ => list_maxZ ints + 1 end
                   end).
  { destruct stop as [e|]; [reflexivity|]. destruct ints; reflexivity. }
  rewrite Hend. f_equal. apply filter_ext. intro v. rewrite memZ_zrange. reflexivity.
Qed.
