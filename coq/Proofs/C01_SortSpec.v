(* Validation of the reference [py_sorted] (Spec/C01_Spec.v) as a stable sort:
   permutation of the input, ordered by key (ascending / descending when
   reverse), and equal-key elements keep their original relative order. *)
From Boltons Require Import Lib.Prelude Spec.C01_Spec.
From Coq Require Import Permutation Sorted.

Section SortSpec.
  Context {A : Type} (key : A -> nat).

  (* ---- one insertion: permutation ---------------------------------------- *)
  Lemma ins_asc_perm x l : Permutation (ins_asc key x l) (x :: l).
  Proof.
    induction l as [|y r IH]; simpl.
    - apply Permutation_refl.
    - destruct (Nat.leb (key x) (key y)).
      + apply Permutation_refl.
      + eapply Permutation_trans; [apply perm_skip, IH | apply perm_swap].
  Qed.

  Lemma ins_desc_perm x l : Permutation (ins_desc key x l) (x :: l).
  Proof.
    induction l as [|y r IH]; simpl.
    - apply Permutation_refl.
    - destruct (Nat.leb (key y) (key x)).
      + apply Permutation_refl.
      + eapply Permutation_trans; [apply perm_skip, IH | apply perm_swap].
  Qed.

  (* ---- one insertion: order is preserved ---------------------------------- *)
  Lemma ins_asc_sorted x l :
    StronglySorted (fun a b => key a <= key b) l ->
    StronglySorted (fun a b => key a <= key b) (ins_asc key x l).
  Proof.
    induction l as [|y r IH]; intro H; simpl.
    - constructor; constructor.
    - apply StronglySorted_inv in H as [Hr Hy].
      destruct (Nat.leb (key x) (key y)) eqn:E.
      + apply Nat.leb_le in E.
        constructor.
        * constructor; assumption.
        * constructor; [exact E|].
          eapply Forall_impl; [|exact Hy]. simpl. intros a Ha. lia.
      + apply Nat.leb_gt in E.
        constructor.
        * apply IH, Hr.
        * apply Forall_forall. intros a Ha.
          apply (Permutation_in _ (ins_asc_perm x r)) in Ha.
          destruct Ha as [Ha|Ha].
          -- subst a. lia.
          -- rewrite Forall_forall in Hy. apply Hy, Ha.
  Qed.

  Lemma ins_desc_sorted x l :
    StronglySorted (fun a b => key b <= key a) l ->
    StronglySorted (fun a b => key b <= key a) (ins_desc key x l).
  Proof.
    induction l as [|y r IH]; intro H; simpl.
    - constructor; constructor.
    - apply StronglySorted_inv in H as [Hr Hy].
      destruct (Nat.leb (key y) (key x)) eqn:E.
      + apply Nat.leb_le in E.
        constructor.
        * constructor; assumption.
        * constructor; [exact E|].
          eapply Forall_impl; [|exact Hy]. simpl. intros a Ha. lia.
      + apply Nat.leb_gt in E.
        constructor.
        * apply IH, Hr.
        * apply Forall_forall. intros a Ha.
          apply (Permutation_in _ (ins_desc_perm x r)) in Ha.
          destruct Ha as [Ha|Ha].
          -- subst a. lia.
          -- rewrite Forall_forall in Hy. apply Hy, Ha.
  Qed.

  (* ---- one insertion: stability -------------------------------------------
     x only moves past elements with a strictly smaller (resp. larger) key, so
     no key class sees its members reordered. *)
  Lemma ins_asc_stable x l c :
    filter (fun a => Nat.eqb (key a) c) (ins_asc key x l)
    = filter (fun a => Nat.eqb (key a) c) (x :: l).
  Proof.
    induction l as [|y r IH]; [reflexivity|].
    cbn [ins_asc].
    destruct (Nat.leb (key x) (key y)) eqn:E; [reflexivity|].
    apply Nat.leb_gt in E.
    cbn [filter] in *. rewrite IH.
    destruct (Nat.eqb (key x) c) eqn:Ex; destruct (Nat.eqb (key y) c) eqn:Ey;
      try reflexivity.
    apply Nat.eqb_eq in Ex. apply Nat.eqb_eq in Ey. lia.
  Qed.

  Lemma ins_desc_stable x l c :
    filter (fun a => Nat.eqb (key a) c) (ins_desc key x l)
    = filter (fun a => Nat.eqb (key a) c) (x :: l).
  Proof.
    induction l as [|y r IH]; [reflexivity|].
    cbn [ins_desc].
    destruct (Nat.leb (key y) (key x)) eqn:E; [reflexivity|].
    apply Nat.leb_gt in E.
    cbn [filter] in *. rewrite IH.
    destruct (Nat.eqb (key x) c) eqn:Ex; destruct (Nat.eqb (key y) c) eqn:Ey;
      try reflexivity.
    apply Nat.eqb_eq in Ex. apply Nat.eqb_eq in Ey. lia.
  Qed.
End SortSpec.

(* ---- the sort -------------------------------------------------------------- *)
Lemma py_sorted_perm {A} (key : A -> nat) rv l : Permutation (py_sorted key rv l) l.
Proof.
  destruct rv; induction l as [|x r IH]; cbn [py_sorted fold_right];
    try apply Permutation_refl.
  - eapply Permutation_trans; [apply ins_desc_perm | apply perm_skip, IH].
  - eapply Permutation_trans; [apply ins_asc_perm | apply perm_skip, IH].
Qed.

Lemma py_sorted_asc {A} (key : A -> nat) l :
  StronglySorted (fun x y => key x <= key y) (py_sorted key false l).
Proof.
  induction l as [|x r IH]; cbn [py_sorted fold_right].
  - constructor.
  - apply ins_asc_sorted, IH.
Qed.

Lemma py_sorted_desc {A} (key : A -> nat) l :
  StronglySorted (fun x y => key y <= key x) (py_sorted key true l).
Proof.
  induction l as [|x r IH]; cbn [py_sorted fold_right].
  - constructor.
  - apply ins_desc_sorted, IH.
Qed.

(* stability: for every key value c, the elements with that key appear in their
   original order *)
Lemma py_sorted_stable {A} (key : A -> nat) rv l c :
  filter (fun x => Nat.eqb (key x) c) (py_sorted key rv l) = filter (fun x => Nat.eqb (key x) c) l.
Proof.
  destruct rv; induction l as [|x r IH]; cbn [py_sorted fold_right];
    try reflexivity.
  - rewrite ins_desc_stable. cbn [filter]. unfold py_sorted in IH. rewrite IH. reflexivity.
  - rewrite ins_asc_stable. cbn [filter]. unfold py_sorted in IH. rewrite IH. reflexivity.
Qed.

Lemma py_sorted_length {A} (key : A -> nat) rv l : length (py_sorted key rv l) = length l.
Proof. apply Permutation_length, py_sorted_perm. Qed.

Print Assumptions py_sorted_perm.
Print Assumptions py_sorted_asc.
Print Assumptions py_sorted_desc.
Print Assumptions py_sorted_length.
Print Assumptions py_sorted_stable.
