(* C11: capstone of the source tie.  [src_step] sends every operation to the Gallina text regenerated from
   the method that the harness calls for it (Gen/C11_Ops.v, Gen/C11_Cull.v, Gen/C11_Src.v); it equals the
   model's step on every reachable state, hence histories run on the regenerated text produce exactly the
   reference's observations.  Snapshot (a bundle of reads), the comparisons (stdlib mixins + __eq__, compared
   literally) and the calls whose operand is the set itself go through the model. *)
From Boltons Require Import Lib.Prelude Lib.PySrc Lib.C11_Iface Spec.C11_Spec Model.C11_Model Lib.C11_PyImp
     Gen.C11_Gen Gen.C11_Src Gen.C11_Cull Gen.C11_Ops
     Proofs.C11_Lists Proofs.C11_Dead Proofs.C11_Inv Proofs.C11_Sets Proofs.C11_Refine Proofs.C11_Slice Proofs.C11_Main
     Proofs.C11_SrcEq Proofs.C11_CullEq Proofs.C11_OpsEq.

Definition src_step (s : iset) (o : op) : iset * res ret :=
  match o with
  | Add x => src_add s x
  | Remove x => src_remove s x
  | Discard x => src_discard s x
  | Pop i => src_pop s i
  | Clear => src_clear s
  | Sort r => src_sort s (fun l => py_sorted l r)
  | SortKey m r => src_sort s (fun l => py_sorted_key l m r)
  | Reverse => src_reverse s
  | Update os => (src_update s os, Ok RNone)
  | IntersectionUpdate os => (src_intersection_update s os, Ok RNone)
  | DifferenceUpdate os => (src_difference_update s os, Ok RNone)
  | SymDiffUpdate o => (src_symmetric_difference_update s o, Ok RNone)
  | Union os => (s, Ok (RList (src_iter (src_union s os))))
  | Intersection os => (s, Ok (RList (src_iter (src_intersection s os))))
  | Difference os => (s, Ok (RList (src_iter (src_difference s os))))
  | SymDiff o => (s, Ok (RList (src_iter (src_symmetric_difference s [o]))))
  | RSub o => (s, Ok (RList (src_rsub s o)))
  | IsSubset o => (s, Ok (RBool (src_issubset s o)))
  | IsSuperset o => (s, Ok (RBool (src_issuperset s o)))
  | IsDisjoint o => (s, Ok (RBool (src_isdisjoint s o)))
  | GetItem i => src_getitem_int s i
  | Slice a b k => (s, match src_iter_slice s a b (option_map Z.of_nat k) with
                       | None => Raise ValueError
                       | Some sl => Ok (RList (src_iter (m_from_list sl)))
                       end)
  | Index x => src_index s x
  | Count x => (s, Ok (RNat (src_count s x)))
  | Contains x => (s, Ok (RBool (src_contains s x)))
  | Len => (s, Ok (RNat (src_len s)))
  | Iter => (s, Ok (RList (src_iter s)))
  | Reversed => (s, Ok (RList (src_reversed s)))
  | Snapshot | SelfOp _ | Cmp _ _ | SelfMix _ _ => m_step gen_cfg s o
  end.

Theorem source_step s o : Inv s -> valid_op (m_live s) o = true -> src_step s o = m_step gen_cfg s o.
Proof.
  intros H V. pose proof H as [H0 _].
  destruct o; cbn [src_step m_step m_step1]; try reflexivity;
  first
  [ solve [apply source_add]
  | solve [apply source_remove; exact H0]
  | solve [apply source_discard; exact H0]
  | solve [apply source_pop; assumption]
  | solve [apply source_sort]
  | solve [apply source_sort_key]
  | solve [apply source_reverse]
  | solve [rewrite source_update; reflexivity]
  | solve [rewrite (source_intersection_update _ _ H); reflexivity]
  | solve [rewrite (source_difference_update _ _ H); reflexivity]
  | solve [rewrite (source_symmetric_difference_update _ _ H); reflexivity]
  | solve [rewrite source_intersection; reflexivity]
  | solve [rewrite source_difference; reflexivity]
  | solve [rewrite source_symmetric_difference; reflexivity]
  | solve [destruct (source_predicates s o 0%N) as (P1 & P2 & P3 & _); cbn [m_step1 snd] in P1, P2, P3;
           injection P1 as P1; injection P2 as P2; injection P3 as P3;
           first [rewrite <- P1; reflexivity | rewrite <- P2; reflexivity | rewrite <- P3; reflexivity]]
  | solve [cbn [valid_op] in V; destruct (norm_index (length (m_live s)) i) as [j|] eqn:N; [|discriminate];
           apply (source_getitem s i j H0 N)]
  | solve [rewrite (source_slice s a b k); reflexivity]
  | solve [apply source_index; exact H0]
  | solve [rewrite source_reversed; reflexivity] ].
Qed.

Fixpoint src_run (dg : bool) (s : iset) (ops : list op) : list obs :=
  match ops with
  | [] => []
  | o :: r => let '(s', x) := src_step s o in m_obs dg s' x :: src_run dg s' r
  end.

Theorem source_run dg : forall ops s, Inv s -> valid_run (m_live s) ops = true ->
  src_run dg s ops = spec_run dg (m_live s) ops.
Proof.
  induction ops as [|o ops IH]; intros s H V; [reflexivity|].
  cbn [valid_run] in V. apply andb_true_iff in V. destruct V as [V1 V2].
  destruct (step_refines gen_cfg s o H V1) as (A & B & C).
  cbn [src_run spec_run]. rewrite (source_step s o H V1).
  destruct (m_step gen_cfg s o) as [s' r]. destruct (spec_step (m_live s) o) as [l' r'].
  cbn [fst snd] in *. subst l' r'. rewrite (obs_ok dg s' r (proj1 A)). f_equal. apply IH; assumption.
Qed.

Theorem source_refinement dg ops : valid_run [] ops = true -> src_run dg m_empty ops = spec_run dg [] ops.
Proof. intros V. apply (source_run dg ops m_empty Inv_empty V). Qed.
