(* RFC 3986 Appendix B parsing inverts 5.3 recomposition on well-formed
   component tuples (a fact about the Spec alone). *)
From Boltons Require Import Lib.Prelude Lib.C07_Str Spec.C07_Spec Proofs.C07_StrLemmas.
Open Scope N_scope.

Definition first_seg_no_colon (p : str) : bool :=
  forallb (fun c => negb (c =? COLON)) (fst (span not_slash p)).

Record wf_uri (u : uri) : Prop := {
  wf_scheme : match scheme u with
              | Some s => s <> [] /\ forallb (not_in [COLON; SL; QM; HASH]) s = true
              | None => True end;
  wf_auth : match authority u with
            | Some a => forallb (not_in [SL; QM; HASH]) a = true
            | None => True end;
  wf_path : forallb (not_in [QM; HASH]) (path u) = true;
  wf_path_auth : match authority u with
                 | Some _ => path u = [] \/ exists t, path u = SL :: t
                 | None => starts_with [SL; SL] (path u) = false end;
  wf_path_rel : match scheme u, authority u with
                | None, None => first_seg_no_colon (path u) = true
                | _, _ => True end;
  wf_query : match query u with
             | Some q => forallb (not_in [HASH]) q = true
             | None => True end }.

Lemma parse_stages s :
  parse s =
  let (o_scheme, r1) := p_scheme s in
  let (o_auth, r2) := p_auth r1 in
  let (pth, r3) := span (not_in [QM; HASH]) r2 in
  let (o_query, r4) := p_query r3 in
  mkUri o_scheme o_auth pth o_query (p_frag r4).
Proof. reflexivity. Qed.

Definition Qs (u : uri) : str := match query u with Some q => QM :: q | None => [] end.
Definition Fs (u : uri) : str := match fragment u with Some f => HASH :: f | None => [] end.
Definition As (u : uri) : str := match authority u with Some a => [SL; SL] ++ a | None => [] end.
Definition Ss (u : uri) : str := match scheme u with Some s => s ++ [COLON] | None => [] end.

Lemma recompose_parts u : recompose u = Ss u ++ As u ++ path u ++ Qs u ++ Fs u.
Proof. reflexivity. Qed.

Lemma p_frag_F u : p_frag (Fs u) = fragment u.
Proof. unfold Fs, p_frag. destruct (fragment u); reflexivity. Qed.

(* Qs u ++ Fs u is empty or starts with '?' or '#' *)
Definition qf_head (t : str) : Prop :=
  match t with [] => True | c :: _ => c = QM \/ c = HASH end.

Lemma qf_head_QF u : qf_head (Qs u ++ Fs u).
Proof. unfold Qs, Fs. destruct (query u); [left; reflexivity|]. destruct (fragment u); cbn; auto. Qed.

Lemma p_query_QF u : wf_uri u -> p_query (Qs u ++ Fs u) = (query u, Fs u).
Proof.
  intros W. pose proof (wf_query u W) as Hq. unfold Qs, p_query. destruct (query u) as [q|].
  - cbn [app]. change (QM =? QM) with true. cbn iota.
    rewrite (span_all (not_in [HASH]) q (Fs u) Hq); [reflexivity|].
    unfold Fs. destruct (fragment u); cbn; reflexivity.
  - cbn [app]. unfold Fs. destruct (fragment u); reflexivity.
Qed.

Lemma span_path u : wf_uri u ->
  span (not_in [QM; HASH]) (path u ++ Qs u ++ Fs u) = (path u, Qs u ++ Fs u).
Proof.
  intro W. apply span_all; [exact (wf_path u W)|].
  pose proof (qf_head_QF u) as H. destruct (Qs u ++ Fs u) as [|c t]; [exact I|].
  cbn in *. destruct H as [->| ->]; reflexivity.
Qed.

(* the text after the authority: empty, or begins with one of / ? # *)
Lemma after_auth_stops u : wf_uri u -> authority u <> None ->
  stops (not_in [SL; QM; HASH]) (path u ++ Qs u ++ Fs u).
Proof.
  intros W HA. pose proof (wf_path_auth u W) as Hp. destruct (authority u); [|contradiction].
  destruct Hp as [E|[t E]]; rewrite E; cbn [app].
  - pose proof (qf_head_QF u) as H. destruct (Qs u ++ Fs u) as [|c t]; [exact I|].
    cbn in *. destruct H as [->| ->]; reflexivity.
  - reflexivity.
Qed.

Lemma strip_ss_none p x : starts_with [SL; SL] p = false -> qf_head x ->
  strip_prefix [SL; SL] (p ++ x) = None.
Proof.
  intros Hp Hx. unfold starts_with in Hp.
  destruct p as [|c1 p]; cbn [app].
  - destruct x as [|c t]; [reflexivity|]. cbn in Hx. destruct Hx as [->| ->]; reflexivity.
  - cbn [strip_prefix] in *. destruct (SL =? c1); [|reflexivity].
    destruct p as [|c2 p]; cbn [app].
    + destruct x as [|c t]; [reflexivity|]. cbn in Hx. destruct Hx as [->| ->]; reflexivity.
    + cbn [strip_prefix] in *. destruct (SL =? c2); [discriminate|reflexivity].
Qed.

Lemma p_auth_A u : wf_uri u ->
  p_auth (As u ++ path u ++ Qs u ++ Fs u) = (authority u, path u ++ Qs u ++ Fs u).
Proof.
  intro W. unfold As, p_auth. pose proof (wf_auth u W) as Ha. pose proof (wf_path_auth u W) as Hp.
  pose proof (after_auth_stops u W) as St.
  destruct (authority u) as [a|].
  - cbn [app strip_prefix]. change (SL =? SL) with true. cbn iota.
    rewrite (span_all (not_in [SL; QM; HASH]) a _ Ha); [reflexivity|]. apply St. discriminate.
  - cbn [app]. rewrite (strip_ss_none _ _ Hp (qf_head_QF u)). reflexivity.
Qed.

(* no scheme is seen in front of a text that has none *)
Lemma p_scheme_none u : wf_uri u -> scheme u = None ->
  p_scheme (As u ++ path u ++ Qs u ++ Fs u) = (None, As u ++ path u ++ Qs u ++ Fs u).
Proof.
  intros W Hs. unfold p_scheme.
  pose proof (wf_path_rel u W) as Hrel. rewrite Hs in Hrel.
  pose proof (wf_path u W) as Hp.
  unfold As in *. destruct (authority u) as [a|].
  - reflexivity.
  - cbn [app].
    (* split the path at its first slash *)
    pose proof (span_spec not_slash (path u)) as (E & Fa & St).
    unfold first_seg_no_colon in Hrel.
    destruct (span not_slash (path u)) as [seg prest]. cbn [fst snd] in *.
    assert (Hseg : forallb (not_in [COLON; SL; QM; HASH]) seg = true).
    { rewrite E, forallb_app' in Hp. apply andb_true_iff in Hp as [Hp _].
      rewrite forallb_forall in *. intros c Hc.
      specialize (Hp c Hc). specialize (Fa c Hc). specialize (Hrel c Hc).
      unfold not_in, mem, not_slash in *. cbn [existsb] in *.
      apply negb_true_iff in Hp, Fa, Hrel. apply negb_true_iff.
      apply orb_false_iff in Hp as [P1 P2]. apply orb_false_iff in P2 as [P2 _].
      rewrite Hrel, Fa, P1, P2. reflexivity. }
    rewrite E, <- app_assoc.
    assert (Hstop : match prest ++ Qs u ++ Fs u with
                    | [] => True | c :: _ => (c = SL \/ c = QM \/ c = HASH) end).
    { destruct prest as [|c t]; cbn [app].
      - pose proof (qf_head_QF u) as H. destruct (Qs u ++ Fs u); [exact I|]. cbn in H. tauto.
      - cbn in St. unfold not_slash in St. apply negb_false_iff, N.eqb_eq in St. auto. }
    rewrite (span_all _ seg _ Hseg).
    + destruct seg; [reflexivity|]. destruct (prest ++ Qs u ++ Fs u) as [|c t]; [reflexivity|].
      destruct Hstop as [->|[->| ->]]; reflexivity.
    + destruct (prest ++ Qs u ++ Fs u) as [|c t]; [exact I|].
      destruct Hstop as [->|[->| ->]]; reflexivity.
Qed.

Lemma p_scheme_some u s : wf_uri u -> scheme u = Some s ->
  p_scheme (Ss u ++ As u ++ path u ++ Qs u ++ Fs u) = (Some s, As u ++ path u ++ Qs u ++ Fs u).
Proof.
  intros W Hs. unfold p_scheme, Ss. pose proof (wf_scheme u W) as H. rewrite Hs in *.
  destruct H as [Hne Hc]. rewrite <- app_assoc. cbn [app].
  rewrite (span_all _ s _ Hc); [|reflexivity].
  destruct s; [contradiction|]. reflexivity.
Qed.

Theorem parse_recompose u : wf_uri u -> parse (recompose u) = u.
Proof.
  intro W. rewrite parse_stages, recompose_parts.
  destruct (scheme u) as [s|] eqn:Hs.
  - rewrite (p_scheme_some u s W Hs), (p_auth_A u W), (span_path u W), (p_query_QF u W), p_frag_F.
    destruct u; cbn in *; congruence.
  - replace (Ss u) with (@nil N) by (unfold Ss; rewrite Hs; reflexivity). cbn [app].
    rewrite (p_scheme_none u W Hs), (p_auth_A u W), (span_path u W), (p_query_QF u W), p_frag_F.
    destruct u; cbn in *; congruence.
Qed.
