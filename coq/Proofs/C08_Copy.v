(* C08: with the default callbacks the result is an equal deep copy: the map
   "input container id |-> the new object built for id" is a graph isomorphism
   (same kind; item by item the same key and the same leaf / the counterpart of
   the same child), so sharing and cycles are reproduced exactly.  Stated for
   set-free graphs (members of a rebuilt set are stored in canonical order, so
   for sets the statement holds up to the order of members only - checked on the
   code by the correspondence run, not proved here). *)
From Coq Require Import Permutation.
From Boltons Require Import Lib.Prelude Lib.C08_Py Spec.C08_Spec Model.C08_Model
  Proofs.C08_Machine Proofs.C08_Tree Proofs.C08_Cycle Proofs.C08_Paths.

(* members pairwise != (Python's equality, as [vcmp] of normal forms), each
   compared with the ones before it - the order in which a set is filled *)
Fixpoint later_ne {A} (view : A -> val) (l : list A) : Prop :=
  match l with
  | [] => True
  | x :: r => (forall z, In z r -> vcmp (view z) (view x) <> Eq) /\ later_ne view r
  end.

Definition is_leaf (o : obj) : Prop := match o with OLeaf _ => True | _ => False end.

(* a set member that is copied to the identical term: a leaf, or a tuple of leaves *)
Definition flat_member (o : obj) : Prop :=
  match o with
  | OLeaf _ => True
  | ONode _ KTuple its => Forall (fun kv => is_leaf (snd kv)) its
  | _ => False
  end.

(* sets/frozensets hold pairwise-unequal leaves and tuples of leaves ("flat sets") *)
Fixpoint no_sets (o : obj) : Prop :=
  match o with
  | ONode _ k items =>
      (is_set k = true ->
         Forall (fun kv => flat_member (snd kv)) items
         /\ later_ne (fun x => vnorm (erase x)) (map snd items))
      /\ (fix all (l : list (key * obj)) : Prop :=
            match l with [] => True | kv :: r => no_sets (snd kv) /\ all r end) items
  | _ => True
  end.

Lemma set_insert_perm : forall {A} (view : A -> val) x acc,
  (forall y, In y acc -> vcmp (view x) (view y) <> Eq) -> Permutation (set_insert view x acc) (x :: acc).
Proof.
  induction acc as [|y r IH]; intro H; cbn [set_insert]; [apply Permutation_refl|].
  destruct (vcmp (view x) (view y)) eqn:E.
  - exfalso. exact (H y (or_introl eq_refl) E).
  - apply Permutation_refl.
  - eapply Permutation_trans; [apply perm_skip; apply IH; intros z Hz; apply H; right; exact Hz|].
    apply perm_swap.
Qed.

Lemma set_of_perm : forall {A} (view : A -> val) l, later_ne view l -> Permutation (set_of view l) l.
Proof.
  intros A view l. unfold set_of.
  assert (G : forall l acc, later_ne view l ->
            (forall x, In x l -> forall y, In y acc -> vcmp (view x) (view y) <> Eq) ->
            Permutation (fold_left (fun acc x => set_insert view x acc) l acc) (acc ++ l)).
  { induction l0 as [|x r IH]; intros acc Hl Ha; cbn [fold_left].
    - rewrite app_nil_r. apply Permutation_refl.
    - destruct Hl as [Hx Hr].
      assert (P1 : Permutation (set_insert view x acc) (x :: acc)).
      { apply set_insert_perm. intros y Hy. apply Ha; [left; reflexivity|exact Hy]. }
      eapply Permutation_trans; [apply IH; [exact Hr|]|].
      + intros z Hz y Hy. apply (Permutation_in _ P1) in Hy. destruct Hy as [<-|Hy].
        * apply Hx. exact Hz.
        * apply Ha; [right; exact Hz|exact Hy].
      + eapply Permutation_trans; [apply Permutation_app_tail; exact P1|].
        cbn [app]. apply Permutation_middle. }
  intro H. apply (G l [] H). intros x _ y [].
Qed.

Lemma no_sets_items : forall id k items, no_sets (ONode id k items) -> Forall (fun kv => no_sets (snd kv)) items.
Proof.
  intros id k items [_ H]. induction items as [|kv r IH]; [constructor|].
  destruct H as [H1 H2]. constructor; [assumption|apply IH; assumption].
Qed.

(* the items of a container, each child reduced to WHICH object/leaf it is *)
Definition shal (items : list (key * obj)) : list (key * oref) :=
  map (fun kv => (fst kv, oref_of (snd kv))) items.

(* the items of the copy correspond to the items of the original: item by item
   for ordered containers, as a permutation of the members for sets *)
Definition same_items (k : kind) (items' items : list (key * obj)) : Prop :=
  if is_set k then Permutation (map snd items') (map snd items) else shal items' = shal items.

Lemma reindex_vals : forall {A} (l : list A) i, map snd (reindex_from i l) = l.
Proof. induction l as [|x r IH]; intro i; cbn; [reflexivity|]. rewrite IH. reflexivity. Qed.

Lemma shal_leaves : forall a b, shal a = shal b -> Forall (fun kv => is_leaf (snd kv)) b -> map snd a = map snd b.
Proof.
  induction a as [|[k v] r IH]; intros [|[k' v'] r'] H Hl; cbn in H; try discriminate; [reflexivity|].
  inversion H; subst. inversion Hl; subst. cbn [map snd] in *. f_equal; [|apply IH; assumption].
  destruct v'; try contradiction. destruct v; cbn in H2; try discriminate. congruence.
Qed.

Definition Inv (m : table obj) : Prop := forall j v, t_get m j = Some v -> oref_of v = RObj j.

Lemma key_eqb_eq : forall a b, key_eqb a b = true <-> a = b.
Proof.
  intros [|x|x|x] [|y|y|y]; cbn; split; intro H; try discriminate; try reflexivity;
    try (apply Nat.eqb_eq in H; subst; reflexivity); inversion H; subst; apply Nat.eqb_refl.
Qed.

Lemma kd_set_new : forall {A} (d : list (key * A)) k v, ~ In k (map fst d) -> kd_set d k v = d ++ [(k, v)].
Proof.
  induction d as [|[k' v'] r IH]; intros k v H; cbn [kd_set app]; [reflexivity|].
  cbn [map fst In] in H. destruct (key_eqb k k') eqn:E.
  - apply key_eqb_eq in E. subst. tauto.
  - rewrite IH by tauto. reflexivity.
Qed.

Lemma kd_update_nodup : forall {A} (items d : list (key * A)),
  NoDup (map fst (d ++ items)) -> kd_update d items = d ++ items.
Proof.
  unfold kd_update. induction items as [|[k v] r IH]; intros d H; cbn [fold_left].
  - rewrite app_nil_r. reflexivity.
  - cbn [fst snd]. rewrite kd_set_new.
    + rewrite IH; rewrite <- app_assoc; [reflexivity|exact H].
    + rewrite map_app in H. cbn [map fst] in H. apply NoDup_remove_2 in H.
      intro Hin. apply H. rewrite in_app_iff. tauto.
Qed.

Lemma reindex_enum : forall {A} (l : list (key * A)) i,
  map fst l = map KI (seq i (length l)) -> reindex_from i (map snd l) = l.
Proof.
  induction l as [|[k v] r IH]; intros i H; cbn in *; [reflexivity|].
  inversion H; subst. rewrite IH by assumption. reflexivity.
Qed.

Lemma build_wf : forall k (items : list (key * obj)),
  is_set k = false ->
  (match k with KDict => NoDup (map fst items) | _ => map fst items = map KI (seq 0 (length items)) end) ->
  build erase k items = items.
Proof.
  intros k items Hs Hk. destruct k; cbn in Hs; try discriminate; cbn [build].
  - apply reindex_enum. assumption.
  - apply reindex_enum. assumption.
  - apply (kd_update_nodup items []). assumption.
Qed.

Lemma shal_keys : forall a b, shal a = shal b -> map fst a = map fst b /\ length a = length b.
Proof.
  induction a as [|[k v] r IH]; intros [|[k' v'] r'] H; cbn in H; try discriminate; [split; reflexivity|].
  inversion H; subst. destruct (IH _ H3) as [H4 H5]. cbn. split; congruence.
Qed.

Lemma collect_ids : forall o id d, In (id, d) (collect_defs o) -> In id (ids o).
Proof.
  induction o as [n|i k items IH|i k|k|i k|w] using obj_ind2; intros id d H; cbn in *; try contradiction.
  destruct H as [E|H]; [inversion E; left; reflexivity|]. right.
  apply in_flat_map in H as [kv [Hkv H]]. apply in_flat_map. exists kv. split; [assumption|].
  rewrite Forall_forall in IH. exact (IH kv Hkv id d H).
Qed.

Section Copy.
  Variable defs : table obj.
  Notation srbS := (srb spec_blank None defs).
  Notation chS := (srb_children spec_blank None defs).

  Definition copied (m' : table obj) (o : obj) : Prop :=
    forall id k items, In (id, ONode id k items) (collect_defs o) ->
      exists items', t_get m' id = Some (ONode id k items') /\ same_items k items' items.

  Definition copy_ok (o : obj) : Prop :=
    NoDup (ids o) -> wf_keys o -> no_sets o ->
    forall rt p ky m lg v m' lg',
      Inv m -> (forall i, In i (ids o) -> t_get m i = None) ->
      srbS rt p ky o m lg = (v, m', lg') ->
      Inv m' /\ oref_of v = oref_of o /\ copied m' o /\ (flat_member o -> v = o).

  Lemma children_copy : forall l, Forall (fun kv => copy_ok (snd kv)) l ->
    NoDup (flat_map (fun kv => ids (snd kv)) l) ->
    Forall (fun kv => wf_keys (snd kv)) l -> Forall (fun kv => no_sets (snd kv)) l ->
    forall cp acc m lg acc' m' lg',
      Inv m -> (forall i, In i (flat_map (fun kv => ids (snd kv)) l) -> t_get m i = None) ->
      chS cp l acc m lg = (acc', m', lg') ->
      Inv m' /\ shal acc' = shal acc ++ shal l
      /\ (forall kv, In kv l -> copied m' (snd kv))
      /\ (Forall (fun kv => flat_member (snd kv)) l -> acc' = acc ++ l).
  Proof.
    induction 1 as [|[ck c] r Hc Hr IH]; intros Hnd Hw Hs cp acc m lg acc' m' lg' Hi Hm E.
    - cbn in E. inversion E; subst. split; [assumption|]. split; [cbn; rewrite app_nil_r; reflexivity|].
      split; [intros kv []|]. intros _. symmetry. apply app_nil_r.
    - cbn [srb_children] in E.
      destruct (srbS false cp ck c m lg) as [[c' m1] lg1] eqn:E1.
      cbn [do_visit] in E. cbn [flat_map snd] in Hnd, Hm. cbn [snd] in Hc.
      inversion Hw; subst. inversion Hs; subst. cbn [snd] in *.
      destruct (Hc (NoDup_app_l _ _ Hnd) H1 H3 false cp ck m lg c' m1 lg1 Hi) as [Hi1 [Hv [Hcp Hfl]]].
      { intros i Hin. apply Hm. rewrite in_app_iff. tauto. }
      { exact E1. }
      destruct (IH (NoDup_app_r _ _ Hnd) H2 H4 cp (acc ++ opt_list (Some (ck, c'))) m1 lg1 acc' m' lg' Hi1)
        as [Hi' [Ha [Hcr Hfr]]].
      { intros i Hin. rewrite (srb_dom spec_blank None defs c _ _ _ _ _ _ _ _ E1 i).
        - apply Hm. rewrite in_app_iff. tauto.
        - intro Hic. exact (NoDup_app_disj _ _ i Hnd Hic Hin). }
      { exact E. }
      split; [assumption|]. split; [|split].
      + rewrite Ha. unfold shal. rewrite map_app. cbn [opt_list map fst snd]. rewrite Hv.
        rewrite <- app_assoc. reflexivity.
      + shelve.
      + intro Hall. inversion Hall; subst. cbn [snd] in *. rewrite (Hfr H6). rewrite (Hfl H5).
        cbn [opt_list]. rewrite <- app_assoc. reflexivity.
      Unshelve.
        intros kv [<-|Hin]; [|apply Hcr; assumption]. cbn [snd].
        intros id k items Hd. destruct (Hcp id k items Hd) as [items' [Hg Hsh]].
        exists items'. split; [|assumption]. rewrite <- Hg.
        apply (children_dom spec_blank None defs r
                 (proj2 (Forall_forall _ r) (fun kv _ => srb_dom spec_blank None defs (snd kv)))
                 _ _ _ _ _ _ _ E id).
        intro Hir. exact (NoDup_app_disj _ _ id Hnd (collect_ids _ _ _ Hd) Hir).
  Qed.

  Lemma srb_copy : forall o, copy_ok o.
  Proof.
    induction o as [n|id k items IH|id k|k|id k|w] using obj_ind2; unfold copy_ok;
      intros Hnd Hw Hs rt p ky m lg v m' lg' Hi Hm E.
    - cbn in E. inversion E; subst. split; [assumption|]. split; [reflexivity|].
      split; [intros ? ? ? []|reflexivity].
    - rewrite srb_node in E. rewrite (Hm id (or_introl eq_refl)) in E. cbv zeta in E.
      set (cp := if rt then p else p ++ [ky]) in *.
      destruct (chS cp items [] _ _) as [[items' m1] lg1] eqn:EC.
      inversion E; subst v m' lg'. clear E.
      cbn [ids] in Hnd, Hm. inversion Hnd as [|? ? Hnotin Hnd']; subst.
      assert (Hi0 : Inv (t_set m id (spec_blank id k))).
      { intros j v Hg. rewrite t_get_set in Hg. destruct (Nat.eqb j id) eqn:Ej.
        - apply Nat.eqb_eq in Ej. subst. inversion Hg. reflexivity.
        - apply Hi. assumption. }
      assert (Hm0 : forall i, In i (flat_map (fun kv => ids (snd kv)) items) ->
                              t_get (t_set m id (spec_blank id k)) i = None).
      { intros i Hin. rewrite t_get_set.
        destruct (Nat.eqb i id) eqn:Ei; [apply Nat.eqb_eq in Ei; subst; contradiction|].
        apply Hm. right. exact Hin. }
      destruct (children_copy items IH Hnd' (wf_items _ _ _ Hw) (no_sets_items _ _ _ Hs)
                  cp [] _ _ _ _ _ Hi0 Hm0 EC) as [Hi1 [Hsh [Hcp Hflat]]].
      cbn [shal map app] in Hsh. cbn [app] in Hflat.
      assert (Hb : same_items k (build erase k items') items).
      { unfold same_items. destruct (is_set k) eqn:Es.
        - destruct Hs as [Hsk _]. destruct (Hsk Es) as [Hlf Hne].
          rewrite (Hflat Hlf).
          assert (Hbv : map snd (build erase k items) = set_of (fun x => vnorm (erase x)) (map snd items)).
          { destruct k; cbn in Es; try discriminate; cbn [build]; unfold reindex; apply reindex_vals. }
          rewrite Hbv. apply set_of_perm. exact Hne.
        - destruct (shal_keys _ _ Hsh) as [Hk Hl]. destruct Hw as [Hwk _].
          rewrite build_wf; [exact Hsh|exact Es|]. rewrite Hk, Hl. exact Hwk. }
      split; [|split; [|split]].
      + intros j v Hg. rewrite t_get_set in Hg. destruct (Nat.eqb j id) eqn:Ej.
        * apply Nat.eqb_eq in Ej. subst. inversion Hg. reflexivity.
        * apply Hi1. assumption.
      + reflexivity.
      + intros id0 k0 items0 Hd. cbn [collect_defs] in Hd. destruct Hd as [Ed|Hd].
        * inversion Ed; subst. exists (build erase k0 items'). rewrite t_get_set, Nat.eqb_refl.
          split; [reflexivity|assumption].
        * apply in_flat_map in Hd as [kv [Hkv Hd]].
          destruct (Hcp kv Hkv id0 k0 items0 Hd) as [items1 [Hg Hs1]].
          exists items1. split; [|assumption]. rewrite t_get_set.
          destruct (Nat.eqb id0 id) eqn:Ej; [|assumption].
          apply Nat.eqb_eq in Ej. subst. exfalso. apply Hnotin.
          apply in_flat_map. exists kv. split; [assumption|]. exact (collect_ids _ _ _ Hd).
      + (* a tuple of leaves is copied to the identical term *)
        intro Hf. cbn [flat_member] in Hf. destruct k; try contradiction.
        assert (Hall : Forall (fun kv => flat_member (snd kv)) items).
        { eapply Forall_impl; [|exact Hf]. intros [kk vv] Hl. cbn [snd] in *.
          destruct vv; cbn [is_leaf] in Hl; try contradiction. exact I. }
        rewrite (Hflat Hall). destruct Hw as [Hwk _].
        rewrite build_wf; [reflexivity|reflexivity|exact Hwk].
    - cbn [srb] in E. destruct (t_get m id) as [v0|] eqn:G; inversion E; subst.
      + split; [assumption|]. split; [exact (Hi _ _ G)|]. split; [intros ? ? ? []|intros []].
      + split; [assumption|]. split; [reflexivity|]. split; [intros ? ? ? []|intros []].
    - cbn in E. inversion E; subst. split; [assumption|]. split; [reflexivity|]. split; [intros ? ? ? []|intros []].
    - cbn in E. inversion E; subst. split; [assumption|]. split; [reflexivity|]. split; [intros ? ? ? []|intros []].
    - cbn in E. inversion E; subst. split; [assumption|]. split; [reflexivity|]. split; [intros ? ? ? []|intros []].
  Qed.
End Copy.

(* the machine, default callbacks: the output is an isomorphic copy of the input graph *)
Theorem machine_default_copy : forall rr id k items,
  let root := ONode id k items in
  NoDup (ids root) -> wf_keys root -> no_sets root -> imm_backref [] root = false ->
  exists v m lg,
    remap None rr (collect_defs root) root = Done v m lg
    /\ oref_of v = RObj id /\ t_get m id = Some v
    /\ forall j kj itemsj, In (j, ONode j kj itemsj) (collect_defs root) ->
         exists items', t_get m j = Some (ONode j kj items') /\ same_items kj items' itemsj.
Proof.
  intros rr id k items root Hnd Hw Hs Hb.
  pose proof (machine_refines_spec None rr root Hb) as HM. cbn [lift] in HM. rewrite HM. clear HM. unfold spec_remap, srb_root, root.
  destruct (srb spec_blank None (collect_defs (ONode id k items)) true [] KNone (ONode id k items) [] [])
    as [[v m] lg] eqn:E.
  exists v, m, lg. split; [reflexivity|].
  destruct (srb_copy (collect_defs (ONode id k items)) (ONode id k items) Hnd Hw Hs true [] KNone [] [] v m lg) as [Hi [Hv [Hc _]]].
  - intros j v0 Hg. discriminate.
  - reflexivity.
  - exact E.
  - split; [exact Hv|]. split; [|exact Hc].
    destruct (Hc id k items (or_introl eq_refl)) as [items' [Hg _]].
    rewrite srb_node in E. cbn [t_get] in E. cbv zeta in E.
    destruct (srb_children _ _ _ _ _ _ _ _) as [[i1 m1] l1]. inversion E; subst.
    rewrite t_get_set, Nat.eqb_refl. reflexivity.
Qed.

