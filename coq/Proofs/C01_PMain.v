(* C01: the pointer-level model refines the pair-list reference (composition). *)
From Boltons Require Import Lib.Prelude Spec.C01_Spec Model.C01_Model Model.C01_Ptr Model.C01_PModel
  Proofs.C01_Main Proofs.C01_PSimDefs Proofs.C01_PSim3.

Theorem ptr_history_spec : forall ops, wf_history ops ->
  pm_run (pm_empty, pm_empty) ops = spec_run ([], []) ops.
Proof. intros ops H. rewrite ptr_history. apply history_refines. exact H. Qed.
