(* C01: the pointer-level model (Model/C01_PModel.v) against the list-level model, part 1:
   reading the heap back, and the three primitives _insert / _remove / _remove_all and
   root[PREV][KEY] compute on the heap exactly what the list-level model computes. *)
From Boltons Require Import Lib.Prelude Spec.C01_Spec Model.C01_Model Model.C01_Ptr Model.C01_PModel
  Proofs.C01_Base Proofs.C01_Prim Proofs.C01_Ptr Proofs.C01_PtrLink Proofs.C01_PSimDefs.
Local Notation nxt := Boltons.Model.C01_Model.nxt (only parsing).

(* a list with distinct ids all below n has at most n elements *)
Lemma cells_bound (l : list cell) n : NoDup (map c_id l) -> (forall c, In c l -> c_id c < n) -> length l <= n.
Proof.
  intros Hnd Hlt. rewrite <- (map_length c_id l), <- (seq_length n 0).
  apply NoDup_incl_length; [assumption|].
  intros i Hi. apply in_map_iff in Hi as [c [E Hc]]. apply in_seq. apply Hlt in Hc. lia.
Qed.

Lemma triple_cell_inv l : map triple_cell (map cell_triple l) = l.
Proof.
  induction l as [|c r IH]; simpl; [reflexivity|]. rewrite IH. f_equal.
  destruct c. reflexivity.
Qed.

(* reading the heap back *)
Lemma good_cells p l : Rep (pheap p) l -> CmapOk (mkOmd (pstore p) l (pcmap p) (pnxt p)) ->
  p_cells p = l /\ p_cells_rev p = rev l.
Proof.
  intros R [Hid [Hfresh _]]. simpl in Hid, Hfresh.
  assert (F : length l < S (pnxt p)).
  { pose proof (cells_bound l (pnxt p) Hid Hfresh). lia. }
  unfold p_cells, p_cells_rev.
  rewrite (Rep_forward _ _ _ R F), (Rep_backward _ _ _ R F). split.
  - apply triple_cell_inv.
  - rewrite <- map_rev. apply triple_cell_inv.
Qed.

Lemma good_lift p : Good p -> Rep (pheap p) (ll (lift p)) /\ CmapOk (lift p) /\ p_cells_rev p = rev (ll (lift p)).
Proof.
  intros [l [R HC]]. destruct (good_cells p l R HC) as [E1 E2].
  unfold lift. rewrite E1. simpl. split; [|split]; assumption.
Qed.

Lemma good_intro p : Rep (pheap p) (p_cells p) -> CmapOk (lift p) -> Good p.
Proof. intros R HC. exists (p_cells p). split; assumption. Qed.

(* a pointer state whose heap represents the list of a list-level state with the same other fields *)
Lemma good_of p s : Rep (pheap p) (ll s) -> CmapOk s ->
  store s = pstore p -> cmap s = pcmap p -> nxt s = pnxt p -> lift p = s /\ Good p.
Proof.
  destruct s as [st l cm n]. simpl. intros R HC E1 E2 E3. subst st cm n.
  destruct (good_cells p l R HC) as [E _]. split.
  - unfold lift. rewrite E. reflexivity.
  - exists l. split; assumption.
Qed.

Lemma CmapOk_nil st n : CmapOk (mkOmd st [] [] n).
Proof.
  unfold CmapOk. simpl. repeat split.
  - constructor.
  - intros c [].
  - constructor.
Qed.

Lemma good_clear n : Good (mkPomd [] h_clear [] n) /\ lift (mkPomd [] h_clear [] n) = mkOmd [] [] [] n.
Proof.
  destruct (good_of (mkPomd [] h_clear [] n) (mkOmd [] [] [] n)) as [E G]; simpl;
    try reflexivity; [apply Rep_clear | apply CmapOk_nil |].
  split; assumption.
Qed.

Lemma good_empty : Good pm_empty /\ lift pm_empty = m_empty.
Proof. apply (good_clear 0). Qed.

Lemma good_set_store p st : Good p -> Good (pset_store p st) /\ lift (pset_store p st) = set_store (lift p) st.
Proof.
  intro G. destruct (good_lift p G) as [R [HC _]].
  destruct (good_of (pset_store p st) (set_store (lift p) st)) as [E G']; simpl; try reflexivity.
  - exact R.
  - exact HC.
  - split; assumption.
Qed.

Lemma good_insert p k v : Good p -> Good (pl_insert p k v) /\ lift (pl_insert p k v) = ll_insert (lift p) k v.
Proof.
  intro G. destruct (good_lift p G) as [R [HC _]].
  assert (Hfr : ~ In (pnxt p) (map c_id (ll (lift p)))).
  { destruct HC as [_ [Hfresh _]]. intro Hin. apply in_map_iff in Hin as [c [E Hc]].
    apply Hfresh in Hc. simpl in Hc. lia. }
  destruct (Rep_insert _ _ _ k v R Hfr) as [h' [Eh R']].
  destruct (good_of (pl_insert p k v) (ll_insert (lift p) k v)) as [E G']; simpl; try reflexivity.
  - unfold h_insert_t. rewrite Eh. exact R'.
  - apply CmapOk_insert. exact HC.
  - split; assumption.
Qed.

Lemma good_remove p k : Good p -> rel_state (pl_remove p k) (ll_remove (lift p) k).
Proof.
  intro G. destruct (good_lift p G) as [R [HC _]].
  pose proof HC as [Hid [Hfresh [Hnd Hget]]].
  assert (Hrm : ll_remove (lift p) k =
    match d_get (pcmap p) k with
    | None => Raise KeyError
    | Some cells =>
        match rev cells with
        | [] => Raise IndexError
        | id :: rrest =>
            Ok (mkOmd (pstore p) (unlink (ll (lift p)) id)
                      (match rev rrest with [] => d_del (pcmap p) k | _ => d_set (pcmap p) k (rev rrest) end)
                      (pnxt p))
        end
    end) by reflexivity.
  rewrite Hrm. unfold pl_remove, rel_state.
  destruct (d_get (pcmap p) k) as [cells|] eqn:Ec; [|reflexivity].
  destruct (rev cells) as [|id rrest] eqn:Er; [reflexivity|].
  assert (Ecells : cells = ids_of (ll (lift p)) k).
  { apply ne_opt_Some. rewrite <- Hget. exact Ec. }
  assert (Hin : In id (map c_id (ll (lift p)))).
  { apply (ids_of_sub _ k). rewrite <- Ecells. apply in_rev. rewrite Er. left. reflexivity. }
  destruct (Rep_unlink _ _ _ R Hin) as [h' [Eh R']].
  assert (Hk : has_key (abs (lift p)) k = true).
  { destruct (has_key (abs (lift p)) k) eqn:Hk; [reflexivity|].
    pose proof (remove_absent _ _ HC Hk) as Ha. rewrite Hrm in Ha. discriminate. }
  destruct (remove_ok _ _ HC Hk) as (s' & l1 & v & l2 & E & HC' & _).
  rewrite Hrm in E. injection E as E.
  apply good_of; simpl; try reflexivity.
  - unfold h_unlink_t. rewrite Eh. exact R'.
  - rewrite E. exact HC'.
Qed.

(* unlinking a duplicate-free list of present ids, one after the other, on the heap *)
Lemma fold_unlink_rep ids : forall h l, NoDup ids -> incl ids (map c_id l) -> Rep h l ->
  Rep (fold_left (fun h id => h_unlink_t h (S id)) ids h) (fold_left unlink ids l).
Proof.
  induction ids as [|i r IH]; intros h l Hnd Hincl R; simpl.
  - exact R.
  - inversion Hnd as [|x y Hni Hnr]; subst.
    assert (Hi : In i (map c_id l)) by (apply Hincl; left; reflexivity).
    destruct (Rep_unlink _ _ _ R Hi) as [h' [Eh R']].
    unfold h_unlink_t at 2. rewrite Eh.
    apply IH; [assumption | | assumption].
    intros j Hj. apply unlink_ids. split.
    + apply Hincl. right. assumption.
    + intro E. subst j. contradiction.
Qed.

Lemma good_remove_all p k : Good p -> rel_state (pl_remove_all p k) (ll_remove_all (lift p) k).
Proof.
  intro G. destruct (good_lift p G) as [R [HC _]].
  pose proof HC as [Hid [Hfresh [Hnd Hget]]].
  assert (Hrm : ll_remove_all (lift p) k =
    match d_get (pcmap p) k with
    | None => Raise KeyError
    | Some cells =>
        Ok (mkOmd (pstore p) (fold_left unlink (rev cells) (ll (lift p))) (d_del (pcmap p) k) (pnxt p))
    end) by reflexivity.
  rewrite Hrm. unfold pl_remove_all, rel_state.
  destruct (d_get (pcmap p) k) as [cells|] eqn:Ec; [|reflexivity].
  assert (Ecells : cells = ids_of (ll (lift p)) k).
  { apply ne_opt_Some. rewrite <- Hget. exact Ec. }
  assert (Hk : has_key (abs (lift p)) k = true).
  { destruct (has_key (abs (lift p)) k) eqn:Hk; [reflexivity|].
    pose proof (remove_all_absent _ _ HC Hk) as Ha. rewrite Hrm in Ha. discriminate. }
  destruct (remove_all_ok _ _ HC Hk) as (s' & E & HC' & _).
  rewrite Hrm in E. injection E as E.
  apply good_of; simpl; try reflexivity.
  - apply fold_unlink_rep.
    + apply NoDup_rev. rewrite Ecells. apply NoDup_ids_of. assumption.
    + intros j Hj. apply in_rev in Hj. rewrite Ecells in Hj. apply (ids_of_sub _ k). assumption.
    + exact R.
  - rewrite E. exact HC'.
Qed.

Lemma good_last_key p : Good p -> p_last_key p = last_key (lift p).
Proof.
  intro G. destruct (good_lift p G) as [R [HC _]].
  unfold p_last_key, last_key. rewrite (Rep_last _ _ R).
  destruct (rev (ll (lift p))) as [|c r] eqn:Er; [reflexivity|].
  assert (Hc : In c (ll (lift p))) by (apply in_rev; rewrite Er; left; reflexivity).
  destruct R as (_ & _ & _ & KV). destruct (KV c Hc) as (pc & E1 & E2 & _).
  unfold addr in *. simpl. rewrite E1, E2. reflexivity.
Qed.

Print Assumptions good_remove_all.
