(* Basic facts about the string helpers of Lib/C07_Str.v. *)
From Boltons Require Import Lib.Prelude Lib.C07_Str.
Open Scope N_scope.

Lemma str_eqb_eq a b : str_eqb a b = true <-> a = b.
Proof. unfold str_eqb. apply list_eqb_eq. intros x y. apply N.eqb_eq. Qed.

Lemma str_eqb_refl a : str_eqb a a = true.
Proof. apply str_eqb_eq. reflexivity. Qed.

Lemma str_eqb_neq a b : str_eqb a b = false <-> a <> b.
Proof.
  split; intro H.
  - intro E. apply str_eqb_eq in E. congruence.
  - destruct (str_eqb a b) eqn:E; [|reflexivity]. apply str_eqb_eq in E. contradiction.
Qed.

Lemma str_eqb_sym a b : str_eqb a b = str_eqb b a.
Proof.
  destruct (str_eqb a b) eqn:E.
  - apply str_eqb_eq in E. subst. symmetry. apply str_eqb_refl.
  - symmetry. apply str_eqb_neq. apply str_eqb_neq in E. congruence.
Qed.

Lemma nonempty_app {A} (a b : list A) : nonempty (a ++ b) = nonempty a || nonempty b.
Proof. destruct a; reflexivity. Qed.

Lemma is_nil_nonempty {A} (l : list A) : is_nil l = negb (nonempty l).
Proof. destruct l; reflexivity. Qed.

(* ---- span ------------------------------------------------------------------ *)
Definition stops (p : N -> bool) (b : str) : Prop :=
  match b with [] => True | c :: _ => p c = false end.

Lemma span_all p a b : forallb p a = true -> stops p b -> span p (a ++ b) = (a, b).
Proof.
  induction a as [|c a IH]; intros Ha Hb; cbn [app span].
  - destruct b as [|c b]; [reflexivity|]. cbn in Hb. cbn [span]. rewrite Hb. reflexivity.
  - cbn [forallb] in Ha. apply andb_true_iff in Ha as [Hc Ha]. rewrite Hc, (IH Ha Hb). reflexivity.
Qed.

Lemma span_all_nil p a : forallb p a = true -> span p a = (a, []).
Proof. intro H. rewrite <- (app_nil_r a) at 1. apply span_all; [assumption|exact I]. Qed.

Lemma span_spec p s : s = fst (span p s) ++ snd (span p s) /\
                      forallb p (fst (span p s)) = true /\ stops p (snd (span p s)).
Proof.
  induction s as [|c s IH]; cbn [span].
  - repeat split.
  - destruct (p c) eqn:Hc.
    + destruct (span p s) as [a b]. cbn [fst snd] in *. destruct IH as (E & Fa & St).
      repeat split; [cbn; congruence | cbn [forallb]; rewrite Hc; exact Fa | exact St].
    + cbn [fst snd]. repeat split. cbn. exact Hc.
Qed.

(* ---- forallb helpers ---------------------------------------------------------- *)
Lemma forallb_app' {A} (p : A -> bool) a b : forallb p (a ++ b) = forallb p a && forallb p b.
Proof. induction a; cbn; [reflexivity|]. rewrite IHa. apply andb_assoc. Qed.

Lemma forallb_rev {A} (p : A -> bool) l : forallb p (rev l) = forallb p l.
Proof.
  induction l; cbn; [reflexivity|]. rewrite forallb_app', IHl. cbn. rewrite andb_true_r. apply andb_comm.
Qed.

Lemma forallb_concat {A} (p : A -> bool) ll :
  forallb p (concat ll) = forallb (forallb p) ll.
Proof. induction ll; cbn; [reflexivity|]. rewrite forallb_app', IHll. reflexivity. Qed.

Lemma forallb_impl {A} (p q : A -> bool) l :
  (forall x, p x = true -> q x = true) -> forallb p l = true -> forallb q l = true.
Proof.
  intros H. induction l; cbn; [reflexivity|]. intro E. apply andb_true_iff in E as [E1 E2].
  rewrite (H _ E1), (IHl E2). reflexivity.
Qed.

(* ---- join ---------------------------------------------------------------------- *)
Lemma concat_map_app_last {A} (f : A -> list N) l x :
  concat (map f (l ++ [x])) = concat (map f l) ++ f x.
Proof. rewrite map_app, concat_app. cbn. rewrite app_nil_r. reflexivity. Qed.

(* ---- lower ---------------------------------------------------------------------- *)
Lemma lower_ch_idem c : lower_ch (lower_ch c) = lower_ch c.
Proof.
  unfold lower_ch.
  destruct ((65 <=? c) && (c <=? 90)) eqn:E; [|rewrite E; reflexivity].
  apply andb_true_iff in E as [E1 E2]. apply N.leb_le in E1, E2.
  destruct ((65 <=? c + 32) && (c + 32 <=? 90)) eqn:F; [|reflexivity].
  apply andb_true_iff in F as [F1 F2]. apply N.leb_le in F1, F2. lia.
Qed.

Lemma lower_idem s : lower (lower s) = lower s.
Proof. unfold lower. rewrite map_map. apply map_ext. intro. apply lower_ch_idem. Qed.
