(* C01, (T) tie from the Python source: sortedvalues.  The regenerated program (sorted_val_map built by the
   dict comprehension, a fresh object, one  ret.add(k, sorted_val_map[k].pop())  per key of
   iterkeys(multi=True)) computes exactly the pointer-level model's pm_sortedvalues, including the two
   failure points (KeyError for a missing key, IndexError for an exhausted list), state unchanged. *)
From Boltons Require Import Lib.Prelude Spec.C01_Spec Model.C01_Model Model.C01_Ptr Model.C01_PModel
  Model.C01_SrcLang Gen.C01_Src Proofs.C01_Base Proofs.C01_PSimDefs Proofs.C01_PSim1 Proofs.C01_PSim2
  Proofs.C01_SrcDefs Proofs.C01_SrcInv Proofs.C01_SrcEq1 Proofs.C01_SrcEq2 Proofs.C01_SrcEq3 Proofs.C01_SrcEq4.

Local Arguments d_get : simpl never.
Local Arguments d_set : simpl never.
Local Arguments d_del : simpl never.
Local Arguments rev : simpl never.
Local Arguments sem : simpl never.
Local Arguments fuel_of : simpl never.
Local Arguments pm_add : simpl never.
Local Arguments pm_empty : simpl never.
Local Arguments pm_iterkeys : simpl never.
Local Arguments p_cells : simpl never.
Local Arguments py_sorted : simpl never.

(* the loop body:  ret.add(k, sorted_val_map[k].pop()) *)
Definition addpop_stmt : stmt := SObjAddPop 3 2 (EVar 4).

Lemma exec_addpop_stmt n fu en s svm ret k : Good ret ->
  env_get en 2 = Ok (VDictL svm) -> env_get en 3 = Ok (VOtherObj ret) -> env_get en 4 = Ok (VTok k) ->
  exec (sem (S (S n))) fu addpop_stmt en s
  = match d_get svm k with
    | None => (ORaise KeyError, en, s)
    | Some vs =>
        match rev vs with
        | [] => (ORaise IndexError, en, s)
        | v :: rrest =>
            (ONormal,
             env_set (env_set en 2 (VDictL (d_set svm k (rev rrest)))) 3 (VOtherObj (pm_add ret k v)), s)
        end
    end.
Proof.
  intros G E2 E3 E4. unfold addpop_stmt. cbn [exec eval]. rewrite E4, E2, E3.
  destruct (d_get svm k) as [vs|]; [|reflexivity].
  destruct (rev vs) as [|v rrest]; [reflexivity|].
  cbv zeta. rewrite (source_add n ret k v G). reflexivity.
Qed.
Local Arguments addpop_stmt : simpl never.

Lemma for_addpop n fu p : forall ks svm ret en, Good ret ->
  env_get en 2 = Ok (VDictL svm) -> env_get en 3 = Ok (VOtherObj ret) ->
  match p_sv_loop svm ret ks with
  | Ok r => exists en', for_each 4 ks (exec (sem (S (S n))) fu addpop_stmt) en p = (ONormal, en', p)
                        /\ env_get en' 3 = Ok (VOtherObj r)
  | Raise e => exists en', for_each 4 ks (exec (sem (S (S n))) fu addpop_stmt) en p = (ORaise e, en', p)
  end.
Proof.
  induction ks as [|k r IH]; intros svm ret en G E2 E3.
  - cbn [p_sv_loop for_each]. exists en. split; [reflexivity|exact E3].
  - cbn [p_sv_loop for_each].
    rewrite (exec_addpop_stmt n fu (env_set en 4 (VTok k)) p svm ret k G).
    + destruct (d_get svm k) as [vs|]; [|eexists; reflexivity].
      destruct (rev vs) as [|v rrest]; [eexists; reflexivity|].
      apply IH.
      * apply (sim_add ret k v G).
      * rewrite env_get_set_ne by discriminate. apply env_get_set_eq.
      * apply env_get_set_eq.
    + rewrite env_get_set_ne by discriminate. exact E2.
    + rewrite env_get_set_ne by discriminate. exact E3.
    + apply env_get_set_eq.
Qed.
Local Arguments for_each : simpl never.
Local Arguments p_sv_loop : simpl never.

Lemma source_sortedvalues n p f rv : Good p ->
  sem (S (S (S n))) MSortedValues [VKeyFn f; VBool rv] p
  = (match pm_sortedvalues p f rv with Ok r => Ok (VOtherObj r) | Raise e => Raise e end, p).
Proof.
  intro G. rewrite sem_S, run_body_fin. unfold gen_prog, gen_sortedvalues. fold addpop_stmt.
  unfold pm_sortedvalues. cbv zeta.
  set (svm := map (fun kv => (fst kv, rev (py_sorted (kf_val f) rv (snd kv)))) (pstore p)).
  cbn [exec eval bind_params env_get Nat.eqb].
  fold svm.
  rewrite (source_iterkeys (S n) p true G).
  set (en0 := env_set (env_set [(0, VKeyFn f); (1, VBool rv)] 2 (VDictL svm)) 3 (VOtherObj pm_empty)).
  pose proof (for_addpop n (fuel_of p) p (map c_key (p_cells p)) svm pm_empty en0 (proj1 good_empty)) as H.
  specialize (H eq_refl eq_refl).
  destruct (p_sv_loop svm pm_empty (map c_key (p_cells p))) as [r|e].
  - destruct H as (en' & EL & E3). rewrite EL. cbn [exec eval]. rewrite E3. reflexivity.
  - destruct H as (en' & EL). rewrite EL. reflexivity.
Qed.

Print Assumptions source_sortedvalues.
