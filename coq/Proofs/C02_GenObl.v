(* C02: the programs regenerated from the CURRENT source of the five linked-list
   helpers (coq/Gen/C02_Gen.v), run by the interpreter of Model/C02_PtrInterp.v,
   are the pointer-level helpers about which the theorems are proved
   (gen_present = false only when the class keeps no hand-written linked list at
   all: then the translator emits empty programs and these statements are vacuous).  These
   lemmas are re-checked on every run against the freshly generated file: an edit
   of a helper that changes its reads and writes breaks them. *)
From Boltons Require Import Lib.Prelude Lib.C02_Syntax Model.C02_Model Model.C02_PtrModel Model.C02_PtrInterp
  Gen.C02_Gen.
Open Scope nat_scope.

Local Arguments d_get : simpl never.
Local Arguments d_set : simpl never.
Local Arguments d_del : simpl never.
Local Arguments d_mem : simpl never.
Local Arguments set_prev : simpl never.
Local Arguments set_next : simpl never.
Local Arguments set_key : simpl never.
Local Arguments set_val : simpl never.
Local Arguments upd : simpl never.

(* split on every stuck match (a link-table lookup, the evicted key, a membership test) *)
Ltac crush :=
  repeat (simpl;
          match goal with
          | |- context [match ?x with _ => _ end] =>
              lazymatch x with
              | context [match _ with _ => _ end] => fail
              | _ => destruct x eqn:?
              end
          end);
  simpl; try reflexivity.

Lemma gen_init_ll_ok pr k v :
  gen_present = true ->
  run_helper gen_init_ll pr k v = Some (p_init (pr_heap pr) (pr_fresh pr), DNone).
Proof. intro H. unfold gen_present in H. first [discriminate H | (unfold run_helper, gen_init_ll, p_init; crush)]. Qed.

Lemma gen_move_to_front_ok pr k v :
  gen_present = true ->
  run_helper gen_move_to_front pr k v
  = match p_move_to_front pr k with Some (pr', n) => Some (pr', DCell n) | None => None end.
Proof. intro H. unfold gen_present in H. first [discriminate H | (unfold run_helper, gen_move_to_front, p_move_to_front; crush)]. Qed.

Lemma gen_add_to_front_ok pr k v :
  gen_present = true ->
  run_helper gen_add_to_front pr k v = Some (p_add_to_front pr k v, DNone).
Proof. intro H. unfold gen_present in H. first [discriminate H | (unfold run_helper, gen_add_to_front, p_add_to_front; crush)]. Qed.

Lemma gen_evict_ok pr k v :
  gen_present = true ->
  run_helper gen_evict pr k v
  = match p_evict pr k v with Some (pr', e) => Some (pr', DKeyO (Some e)) | None => None end.
Proof. intro H. unfold gen_present in H. first [discriminate H | (unfold run_helper, gen_evict, p_evict; crush)]. Qed.

Lemma gen_remove_ok pr k v :
  gen_present = true ->
  run_helper gen_remove pr k v
  = match p_remove pr k with Some pr' => Some (pr', DNone) | None => None end.
Proof. intro H. unfold gen_present in H. first [discriminate H | (unfold run_helper, gen_remove, p_remove; crush)]. Qed.
