(* C14, integer clauses, part 3: the round trip parse (format L) = sort_dedup L,
   complement_int_list, int_ranges_from_int_list. *)
From Boltons Require Import Lib.Prelude Lib.C14_Text Spec.C14_Spec Model.C14_Model Check.C14_Check
  Proofs.C14_Sh Proofs.C14_Int Proofs.C14_Int2.
Open Scope Z_scope.

(* ---- zrange ------------------------------------------------------------------ *)
Lemma zrange_in lo hi x : In x (zrange lo hi) <-> lo <= x < hi.
Proof.
  unfold zrange. rewrite in_map_iff. split.
  - intros (i & <- & Hi). apply in_seq in Hi. lia.
  - intro H. exists (Z.to_nat (x - lo)). split; [lia|]. apply in_seq. lia.
Qed.

Lemma ssorted_map_seq lo n : forall s, ssorted (map (fun i => lo + Z.of_nat i) (seq s n)).
Proof.
  induction n as [|n IH]; intro s; cbn [seq map ssorted]; [exact I|].
  split; [|apply IH]. intros y Hy. apply in_map_iff in Hy as (i & <- & Hi). apply in_seq in Hi. lia.
Qed.

Lemma zrange_ssorted lo hi : ssorted (zrange lo hi).
Proof. apply ssorted_map_seq. Qed.

Lemma ssorted_app l1 l2 :
  ssorted l1 -> ssorted l2 -> (forall x y, In x l1 -> In y l2 -> x < y) -> ssorted (l1 ++ l2).
Proof.
  induction l1 as [|h t IH]; intros H1 H2 H; [exact H2|].
  destruct H1 as [Hh Ht]. cbn [app ssorted]. split.
  - intros y Hy. apply in_app_or in Hy as [Hy|Hy]; [apply Hh; exact Hy|apply H; [left; reflexivity|exact Hy]].
  - apply IH; try assumption. intros x y Hx Hy. apply H; [right; exact Hx|exact Hy].
Qed.

Lemma wsorted_sortZ l : wsorted l -> sortZ l = l.
Proof.
  induction l as [|h t IH]; intro H; [reflexivity|]. destruct H as [Hh Ht].
  cbn [sortZ fold_right]. fold (sortZ t). rewrite (IH Ht).
  destruct t as [|y r]; [reflexivity|]. cbn [insZ].
  assert (E : (h <=? y) = true) by (apply Z.leb_le, Hh; left; reflexivity). rewrite E. reflexivity.
Qed.

Lemma ssorted_unique l1 : forall l2,
  ssorted l1 -> ssorted l2 -> (forall x, In x l1 <-> In x l2) -> l1 = l2.
Proof.
  induction l1 as [|h1 t1 IH]; intros [|h2 t2] H1 H2 Hm.
  - reflexivity.
  - exfalso. apply (Hm h2). left. reflexivity.
  - exfalso. apply (Hm h1). left. reflexivity.
  - destruct H1 as [Hh1 Ht1]. destruct H2 as [Hh2 Ht2].
    assert (E : h1 = h2).
    { assert (A : In h1 (h2 :: t2)) by (apply Hm; left; reflexivity).
      assert (B : In h2 (h1 :: t1)) by (apply Hm; left; reflexivity).
      destruct A as [A|A]; [congruence|]. destruct B as [B|B]; [congruence|].
      specialize (Hh1 _ B). specialize (Hh2 _ A). lia. }
    subst h2. f_equal. apply IH; try assumption.
    intro x. split; intro Hx.
    + assert (A : In x (h1 :: t2)) by (apply Hm; right; exact Hx).
      destruct A as [A|A]; [|exact A]. subst x. specialize (Hh1 _ Hx). lia.
    + assert (A : In x (h1 :: t1)) by (apply Hm; right; exact Hx).
      destruct A as [A|A]; [|exact A]. subst x. specialize (Hh2 _ Hx). lia.
Qed.

(* ---- expanding canonical ranges ------------------------------------------------ *)
Lemma expand_in rs x : In x (flat_map expand_range rs) <-> in_ranges rs x = true.
Proof.
  induction rs as [|[a b] t IH].
  - cbn. split; [tauto|discriminate].
  - cbn [flat_map]. rewrite in_app_iff, in_ranges_cons, IH. unfold expand_range. cbn [fst snd].
    rewrite zrange_in. split; (intros [H|H]; [left; lia|right; exact H]).
Qed.

Lemma expand_ssorted rs : canonical rs = true -> ssorted (flat_map expand_range rs).
Proof.
  induction rs as [|[a b] t IH]; intro H; [exact I|].
  destruct (canonical_bounds _ _ _ H) as [Hab Hg].
  cbn [flat_map]. apply ssorted_app.
  - apply zrange_ssorted.
  - apply IH. eapply canonical_tail; exact H.
  - intros x y Hx Hy. unfold expand_range in Hx. cbn [fst snd] in Hx. apply zrange_in in Hx.
    apply expand_in in Hy. specialize (Hg _ Hy). lia.
Qed.

Lemma canonical_ranges_ok rs :
  canonical rs = true -> (forall x, in_ranges rs x = true -> 0 <= x) -> Forall range_ok rs.
Proof.
  induction rs as [|[a b] t IH]; intros H Hpos; [constructor|].
  destruct (canonical_bounds _ _ _ H) as [Hab Hg]. constructor.
  - unfold range_ok. cbn [fst snd]. split; [|exact Hab]. apply Hpos. apply in_ranges_cons. left. lia.
  - apply IH; [eapply canonical_tail; exact H|]. intros x Hx. apply Hpos. apply in_ranges_cons. right. exact Hx.
Qed.

Lemma all_nonneg_in L : all_nonneg L = true -> forall x, In x L -> 0 <= x.
Proof. unfold all_nonneg. intros H x Hx. eapply forallb_forall in H; [|exact Hx]. apply Z.leb_le. exact H. Qed.

Lemma delims_ok_facts d rd : delims_ok [d] [rd] = true ->
  is_digit d = false /\ is_digit rd = false /\ (d =? c_sp)%N = false /\ (rd =? c_sp)%N = false /\ (d =? rd)%N = false.
Proof.
  unfold delims_ok, delim_char_ok. intro H.
  apply andb_true_iff in H as [H Hne]. apply andb_true_iff in H as [H1 H2].
  apply andb_true_iff in H1 as [Hd1 Hd2]. apply andb_true_iff in H2 as [Hr1 Hr2].
  rewrite negb_true_iff in *.
  assert (Hsp : forall c, py_isspace c = false -> (c =? c_sp)%N = false).
  { intros c Hc. destruct (c =? c_sp)%N eqn:E; [|reflexivity]. apply N.eqb_eq in E. subst c. discriminate. }
  repeat split; auto.
Qed.

(* ---- the round trip ------------------------------------------------------------- *)
Theorem parse_format_roundtrip d rd L (space : bool) :
  all_nonneg L = true -> delims_ok [d] [rd] = true ->
  parse_int_list (format_int_list [d] [rd] L space) [d] [rd] = Ok (sort_dedup L).
Proof.
  intros Hnn Hdl. destruct (delims_ok_facts _ _ Hdl) as (Hd & Hrd & Hds & Hrs & Hdr).
  rewrite format_int_list_runs. fold (sep_of [d] space).
  destruct (runs_props (sortZ L) (sortZ_wsorted L)) as [C M].
  assert (Hok : Forall range_ok (runs (sortZ L))).
  { apply canonical_ranges_ok; [exact C|]. intros x Hx. apply M in Hx.
    apply (proj1 (sortZ_in L x)) in Hx. eapply all_nonneg_in; eassumption. }
  rewrite (parse_rendered d rd Hd Hrd Hds Hrs Hdr space _ Hok). f_equal.
  pose proof (expand_ssorted _ C) as Hs.
  rewrite wsorted_sortZ by (apply ssorted_wsorted; exact Hs).
  apply ssorted_unique; [exact Hs|apply sort_dedup_ssorted|].
  intro x. rewrite expand_in, M, sortZ_in, sort_dedup_in. reflexivity.
Qed.

(* lists with the same members have the same canonical text *)
Lemma sort_dedup_ext L1 L2 : (forall x, In x L1 <-> In x L2) -> sort_dedup L1 = sort_dedup L2.
Proof.
  intro H. apply ssorted_unique; try apply sort_dedup_ssorted.
  intro x. rewrite !sort_dedup_in. apply H.
Qed.

Lemma spec_missing_in ints start e x :
  In x (spec_missing ints start e) <-> (Z.max 0 start <= x < e /\ ~ In x ints).
Proof.
  unfold spec_missing. rewrite filter_In, zrange_in, negb_true_iff.
  assert (Hm : memZ x ints = false <-> ~ In x ints).
  { unfold memZ. split.
    - intros Hf Hin. assert (existsb (Z.eqb x) ints = true) by (apply existsb_exists; exists x; split; [exact Hin|apply Z.eqb_refl]).
      congruence.
    - intro Hn. destruct (existsb (Z.eqb x) ints) eqn:E; [|reflexivity].
      apply existsb_exists in E as (y & Hy & Exy). apply Z.eqb_eq in Exy. subst y. contradiction. }
  rewrite Hm. reflexivity.
Qed.

Theorem complement_spec s start stop delim rdelim ints :
  parse_int_list s delim rdelim = Ok ints ->
  complement_int_list s start stop delim rdelim
  = Ok (spec_format delim rdelim (spec_missing ints start (window_end ints start stop))).
Proof.
  intro Hp. unfold complement_int_list. rewrite Hp. f_equal.
  rewrite format_int_list_spec. unfold spec_format, spec_ranges. do 2 f_equal.
  apply sort_dedup_ext. intro x.
  change (match stop with
          | Some e => e
          | None => match ints with [] => start | _ :: _ => list_maxZ ints + 1 end
          end) with (window_end ints start stop).
  rewrite spec_missing_in, filter_In, zrange_in.
  assert (Hm : memZ x ints = false <-> ~ In x ints).
  { unfold memZ. split.
    - intros Hf Hin. assert (existsb (Z.eqb x) ints = true) by (apply existsb_exists; exists x; split; [exact Hin|apply Z.eqb_refl]).
      congruence.
    - intro Hn. destruct (existsb (Z.eqb x) ints) eqn:E; [|reflexivity].
      apply existsb_exists in E as (y & Hy & Exy). apply Z.eqb_eq in Exy. subst y. contradiction. }
  rewrite andb_true_iff, !negb_true_iff, Hm, andb_false_iff, Z.leb_gt, Z.ltb_ge.
  generalize (window_end ints start stop). intro e. split; intro H; intuition lia.
Qed.

(* ---- int_ranges_from_int_list ----------------------------------------------------- *)
Definition bounds_of (bounds : text) : res (Z * Z) :=
  if memN c_minus bounds then
    match split1 c_minus bounds with
    | [a; b] => match py_int a, py_int b with
                | Ok x, Ok y => Ok (x, y)
                | Raise e, _ => Raise e
                | _, Raise e => Raise e
                end
    | _ => Raise ValueError
    end
  else match py_int bounds with Ok x => Ok (x, x) | Raise e => Raise e end.

Lemma bounds_of_piece r : range_ok r -> bounds_of (piece c_minus false r) = Ok r.
Proof.
  destruct r as [a b]. unfold range_ok, piece, render_range, bounds_of. cbn [fst snd app]. intros [H0 H1].
  assert (Hm : is_digit c_minus = false) by reflexivity.
  destruct (a =? b) eqn:E.
  - apply Z.eqb_eq in E. subst b. rewrite decZ_nonneg by lia.
    rewrite memN_digits by (apply dec_digits || exact Hm).
    pose proof (py_int_dec false (Z.to_N a)) as Ha. cbn [app] in Ha. rewrite Ha, Z2N.id by lia. reflexivity.
  - rewrite !decZ_nonneg by lia.
    assert (Hc : memN c_minus (dec (Z.to_N a) ++ c_minus :: dec (Z.to_N b)) = true).
    { rewrite memN_app. apply orb_true_iff. right. unfold memN. cbn [existsb]. rewrite N.eqb_refl. reflexivity. }
    rewrite Hc. rewrite split1_app by (apply memN_digits; [apply dec_digits|exact Hm]).
    rewrite split1_nosep by (apply memN_digits; [apply dec_digits|exact Hm]).
    pose proof (py_int_dec false (Z.to_N a)) as Ha. cbn [app] in Ha.
    pose proof (py_int_dec false (Z.to_N b)) as Hb. cbn [app] in Hb.
    rewrite Ha, Hb, !Z2N.id by lia. reflexivity.
Qed.

Lemma map_res_bounds rs : Forall range_ok rs -> map_res bounds_of (map (piece c_minus false) rs) = Ok rs.
Proof.
  induction rs as [|r t IH]; intro H; [reflexivity|].
  inversion H as [|? ? Hr Ht]; subst. cbn [map map_res]. rewrite bounds_of_piece by exact Hr.
  rewrite IH by exact Ht. reflexivity.
Qed.

Theorem int_ranges_spec s delim rdelim ints :
  parse_int_list s delim rdelim = Ok ints -> all_nonneg ints = true ->
  int_ranges_from_int_list s delim rdelim = Ok (spec_ranges ints).
Proof.
  intros Hp Hnn. unfold int_ranges_from_int_list. rewrite Hp.
  rewrite format_int_list_runs. rewrite spec_ranges_runs.
  destruct (runs_props (sortZ ints) (sortZ_wsorted ints)) as [C M].
  assert (Hok : Forall range_ok (runs (sortZ ints))).
  { apply canonical_ranges_ok; [exact C|]. intros x Hx. apply M in Hx.
    apply (proj1 (sortZ_in ints x)) in Hx. eapply all_nonneg_in; eassumption. }
  set (rs := runs (sortZ ints)) in *. destruct rs as [|r t] eqn:Ers.
  - reflexivity.
  - assert (Hg : good (render_ranges [c_comma] [c_minus] (r :: t))).
    { apply good_join; [exact Hok|discriminate]. }
    assert (Hn : is_nil (render_ranges [c_comma] [c_minus] (r :: t)) = false).
    { destruct Hg as [Hne _]. destruct (render_ranges [c_comma] [c_minus] (r :: t)); [congruence|reflexivity]. }
    rewrite Hn.
    pose proof (split_text c_comma c_minus ltac:(reflexivity) ltac:(reflexivity) ltac:(reflexivity)
                  false (r :: t) false Hok ltac:(discriminate)) as Hs.
    cbn [app] in Hs. unfold render_ranges. unfold sep_of in Hs. rewrite Hs.
    change (piece c_minus false r :: map (piece c_minus false) t) with (map (piece c_minus false) (r :: t)).
    exact (map_res_bounds _ Hok).
Qed.
