(* C10 - (T) tie: BarrelList._translate_index as regenerated from the source on every run
   (Gen/C10_Src.v, by harness/translators/c10_src.py) equals the model's translate_index. *)
From Boltons Require Import Lib.Prelude Lib.PySrc Spec.C10_Spec Model.C10_Model Gen.C10_Src.
Local Open Scope Z_scope.

Lemma zrange_0_1 (n : nat) : zrange 0 (Z.of_nat n) 1 = map Z.of_nat (seq 0 n).
Proof.
  unfold zrange. simpl (1 <=? 0). cbv iota.
  replace (Z.to_nat ((Z.of_nat n - 0 + 1 - 1) / 1)) with n by (rewrite Z.div_1_r; lia).
  apply map_ext. intro i. lia.
Qed.

Section SrcEq.
  Context {A : Type}.
  Implicit Types ls : barrel (A := A).

  (* what one iteration of the source's loop does to (len_list, broke, rel_idx, list_idx) *)
  Definition loop_step (lists : list (list A)) (st : Z * bool * Z * Z) (x : Z) : Z * bool * Z * Z :=
    let '(len_list, brk, rel, idx) := st in
    if brk then st
    else let n := zlen (src_sub lists x) in
         if rel <? n then (n, true, rel, x) else (n, false, rel - n, x).

  Lemma loop_step_false lists len rel idx x :
    loop_step lists (len, false, rel, idx) x =
    let n := zlen (src_sub lists x) in
    if rel <? n then (n, true, rel, x) else (n, false, rel - n, x).
  Proof. reflexivity. Qed.

  Lemma fold_broken lists (xs : list Z) len rel idx :
    fold_left (loop_step lists) xs (len, true, rel, idx) = (len, true, rel, idx).
  Proof. induction xs as [|x xs IH]; simpl; [reflexivity|exact IH]. Qed.

  (* the loop over the remaining sub-lists against translate_go *)
  Lemma fold_translate_go : forall (rest pre : list (list A)) len rel idx,
    rest <> [] ->
    let '(len', brk', rel', idx') :=
      fold_left (loop_step (pre ++ rest)) (map Z.of_nat (seq (length pre) (length rest))) (len, false, rel, idx) in
    let '(j, r) := translate_go rest (length pre) rel in
    idx' = Z.of_nat j /\ (if brk' then rel' else rel' + len') = r.
  Proof.
    induction rest as [|l rest IH]; intros pre len rel idx Hne; [congruence|].
    simpl length. simpl seq. simpl map. simpl fold_left.
    assert (Esub : src_sub (pre ++ l :: rest) (Z.of_nat (length pre)) = l).
    { unfold src_sub. rewrite Nat2Z.id. apply nth_middle. }
    rewrite Esub. unfold zlen.
    simpl translate_go.
    destruct (Z.ltb_spec rel (Z.of_nat (length l))) as [Hlt|Hge].
    - rewrite fold_broken. split; reflexivity.
    - destruct rest as [|l2 rest'].
      + simpl. split; [reflexivity|lia].
      + specialize (IH (pre ++ [l]) (Z.of_nat (length l)) (rel - Z.of_nat (length l)) (Z.of_nat (length pre))
                       ltac:(discriminate)).
        rewrite app_length in IH. simpl length in IH.
        replace (length pre + 1)%nat with (S (length pre)) in IH by lia.
        rewrite <- app_assoc in IH. simpl app in IH. exact IH.
  Qed.

  Lemma fold_left_ext {S X} (f g : S -> X -> S) :
    (forall st x, f st x = g st x) -> forall xs s0, fold_left f xs s0 = fold_left g xs s0.
  Proof. intros H xs. induction xs as [|x xs IH]; intro s0; simpl; [reflexivity|]. rewrite H. apply IH. Qed.

  Theorem src_translate_index_eq ls (index : Z) :
    ls <> [] ->
    src_translate_index ls index =
    match translate_index ls index with
    | Ok (Some (li, rel)) => (Z.of_nat li, rel)
    | _ => (-1, -1)
    end.
  Proof.
    intro Hne. unfold src_translate_index, translate_index, src_lists.
    destruct ls as [|l0 rest] eqn:Els; [congruence|]. rewrite <- Els in *. clear Els l0 rest.
    lazy zeta.
    set (index1 := if index <? 0 then index + Z.of_nat (bl_len ls) else index).
    change (zlen ls) with (Z.of_nat (length ls)). rewrite zrange_0_1.
    match goal with
    | |- context [@fold_left ?S ?X ?f ?xs ?s0] =>
        rewrite (fold_left_ext f (loop_step ls))
    end.
    2:{ intros [[[len brk] rel] idx] x. unfold loop_step. destruct brk; [reflexivity|].
        destruct (rel <? zlen (src_sub ls x)); reflexivity. }
    pose proof (fold_translate_go ls [] 0 index1 0 Hne) as H. simpl app in H. simpl length in H.
    destruct (fold_left (loop_step ls) (map Z.of_nat (seq 0 (length ls))) (0, false, index1, 0))
      as [[[len' brk'] rel'] idx'].
    destruct (translate_go ls 0 index1) as [j r]. destruct H as [Hi Hr]. subst idx'.
    assert (E : (if brk' then rel' else rel' + len') = r) by exact Hr.
    destruct brk'; subst r; [destruct (rel' <? 0) | destruct (rel' + len' <? 0)]; reflexivity.
  Qed.
End SrcEq.
