(* UTF-8 as modelled: incremental decoding of any prefix of an encoded text
   yields a prefix of the text and keeps the undecoded tail. *)
From Coq Require Import ZifyBool.
From Boltons Require Import Lib.Prelude Spec.C18_Spec Model.C18_Model.
Ltac Zify.zify_post_hook ::= Z.to_euclidean_division_equations.
Local Open Scope N_scope.

(* what UTF-8 can carry (every Python str character is < 0x110000) *)
Definition uvalid (c : N) : Prop := c < 2097152.

Lemma enc1_nonempty c : utf8_enc1 c <> [].
Proof.
  unfold utf8_enc1. destruct (c <? 128); [discriminate|].
  destruct (c <? 2048); [discriminate|]. destruct (c <? 65536); discriminate.
Qed.

Lemma enc_app a b : utf8_enc (a ++ b) = utf8_enc a ++ utf8_enc b.
Proof. unfold utf8_enc. apply flat_map_app. Qed.

Lemma enc_nil_inv cs : utf8_enc cs = [] -> cs = [].
Proof.
  destruct cs as [|c r]; [reflexivity|]. cbn. intro E.
  apply app_eq_nil in E as [E _]. now apply enc1_nonempty in E.
Qed.

Lemma enc_length cs : (length cs <= length (utf8_enc cs))%nat.
Proof.
  unfold utf8_enc. induction cs as [|c r IH]; cbn [flat_map length]; [lia|]. rewrite app_length.
  pose proof (enc1_nonempty c). destruct (utf8_enc1 c); [congruence|]. cbn [length]. lia.
Qed.

(* a complete character in front is decoded and decoding goes on *)
Lemma dec_enc1_app c p : uvalid c ->
  utf8_dec (utf8_enc1 c ++ p) = let '(cs, r, ok) := utf8_dec p in (c :: cs, r, ok).
Proof.
  unfold uvalid, utf8_enc1. intro V.
  destruct (c <? 128) eqn:E1.
  - cbn [app utf8_dec]. rewrite E1. reflexivity.
  - destruct (c <? 2048) eqn:E2.
    + cbn [app utf8_dec].
      replace (192 + c / 64 <? 128) with false by lia.
      replace (192 + c / 64 <? 192) with false by lia.
      replace (192 + c / 64 <? 224) with true by lia.
      destruct (utf8_dec p) as [[cs r] ok]. f_equal. f_equal. f_equal. lia.
    + destruct (c <? 65536) eqn:E3.
      * cbn [app utf8_dec].
        replace (224 + c / 4096 <? 128) with false by lia.
        replace (224 + c / 4096 <? 192) with false by lia.
        replace (224 + c / 4096 <? 224) with false by lia.
        replace (224 + c / 4096 <? 240) with true by lia.
        destruct (utf8_dec p) as [[cs r] ok]. f_equal. f_equal. f_equal. lia.
      * cbn [app utf8_dec].
        replace (240 + c / 262144 <? 128) with false by lia.
        replace (240 + c / 262144 <? 192) with false by lia.
        replace (240 + c / 262144 <? 224) with false by lia.
        replace (240 + c / 262144 <? 240) with false by lia.
        replace (240 + c / 262144 <? 248) with true by lia.
        destruct (utf8_dec p) as [[cs r] ok]. f_equal. f_equal. f_equal. lia.
Qed.

(* an incomplete character is kept as it is *)
Lemma nil_app_contra {A} (p q : list A) : [] = p ++ q -> q <> [] -> False.
Proof. intros E Q. symmetry in E. apply app_eq_nil in E as [_ E]. congruence. Qed.

Lemma dec_partial c p q : uvalid c -> utf8_enc1 c = p ++ q -> q <> [] ->
  utf8_dec p = ([], p, true).
Proof.
  unfold uvalid, utf8_enc1. intros V E Q.
  destruct p as [|b0 p]; [reflexivity|].
  destruct (c <? 128) eqn:E1.
  { cbn [app] in E. injection E as _ E. now apply nil_app_contra in E. }
  destruct (c <? 2048) eqn:E2.
  { assert (H0 : 192 <= 192 + c / 64 < 224) by lia.
    set (x0 := 192 + c / 64) in *. set (x1 := 128 + c mod 64) in *. clearbody x0 x1.
    cbn [app] in E. injection E as E0 E. subst b0.
    destruct p as [|b1 p]; cbn [app] in E.
    - cbn [utf8_dec].
      replace (x0 <? 128) with false by lia.
      replace (x0 <? 192) with false by lia.
      replace (x0 <? 224) with true by lia. reflexivity.
    - injection E as _ E. now apply nil_app_contra in E. }
  destruct (c <? 65536) eqn:E3.
  { assert (H0 : 224 <= 224 + c / 4096 < 240) by lia.
    set (x0 := 224 + c / 4096) in *. set (x1 := 128 + (c / 64) mod 64) in *. set (x2 := 128 + c mod 64) in *.
    clearbody x0 x1 x2.
    cbn [app] in E. injection E as E0 E. subst b0.
    assert (D : forall t, match t with _ :: _ :: _ => False | _ => True end -> utf8_dec (x0 :: t) = ([], x0 :: t, true)).
    { intros t Ht. cbn [utf8_dec].
      replace (x0 <? 128) with false by lia.
      replace (x0 <? 192) with false by lia.
      replace (x0 <? 224) with false by lia.
      replace (x0 <? 240) with true by lia. destruct t as [|? [|? ?]]; tauto. }
    destruct p as [|b1 p]; cbn [app] in E; [now apply D|]. injection E as _ E.
    destruct p as [|b2 p]; cbn [app] in E; [now apply D|]. injection E as _ E.
    now apply nil_app_contra in E. }
  assert (H0 : 240 <= 240 + c / 262144 < 248) by lia.
  set (x0 := 240 + c / 262144) in *. set (x1 := 128 + (c / 4096) mod 64) in *.
  set (x2 := 128 + (c / 64) mod 64) in *. set (x3 := 128 + c mod 64) in *.
  clearbody x0 x1 x2 x3.
  cbn [app] in E. injection E as E0 E. subst b0.
  assert (D : forall t, match t with _ :: _ :: _ :: _ => False | _ => True end -> utf8_dec (x0 :: t) = ([], x0 :: t, true)).
  { intros t Ht. cbn [utf8_dec].
    replace (x0 <? 128) with false by lia.
    replace (x0 <? 192) with false by lia.
    replace (x0 <? 224) with false by lia.
    replace (x0 <? 240) with false by lia.
    replace (x0 <? 248) with true by lia. destruct t as [|? [|? [|? ?]]]; tauto. }
  destruct p as [|b1 p]; cbn [app] in E; [now apply D|]. injection E as _ E.
  destruct p as [|b2 p]; cbn [app] in E; [now apply D|]. injection E as _ E.
  destruct p as [|b3 p]; cbn [app] in E; [now apply D|]. injection E as _ E.
  now apply nil_app_contra in E.
Qed.

Lemma dec_nil : utf8_dec [] = ([], [], true).
Proof. reflexivity. Qed.

(* a whole encoded text followed by anything *)
Lemma dec_enc_app cs p : Forall uvalid cs ->
  utf8_dec (utf8_enc cs ++ p) = let '(cs', r, ok) := utf8_dec p in (cs ++ cs', r, ok).
Proof.
  induction 1 as [|c r V _ IH]; cbn [utf8_enc flat_map app].
  - now destruct (utf8_dec p) as [[? ?] ?].
  - fold (utf8_enc r). rewrite <- app_assoc, dec_enc1_app by exact V. rewrite IH.
    now destruct (utf8_dec p) as [[? ?] ?].
Qed.

Lemma dec_enc cs : Forall uvalid cs -> utf8_dec (utf8_enc cs) = (cs, [], true).
Proof.
  intro V. rewrite <- (app_nil_r (utf8_enc cs)), dec_enc_app by exact V. cbn. now rewrite app_nil_r.
Qed.

Lemma app_eq_app' {A} (a b c d : list A) : a ++ b = c ++ d ->
  exists l, (a = c ++ l /\ d = l ++ b) \/ (c = a ++ l /\ b = l ++ d).
Proof.
  revert c. induction a as [|x a IH]; intros c E.
  - exists c. right. cbn in *. auto.
  - destruct c as [|y c].
    + exists (x :: a). left. cbn in *. auto.
    + cbn [app] in E. injection E as -> E. destruct (IH c E) as [l [[-> ->]|[-> ->]]]; exists l; [left|right]; auto.
Qed.

(* the incremental law: decoding a prefix p of the encoding of R gives the first
   j characters of R and the bytes of p that follow them *)
Lemma dec_prefix R : Forall uvalid R -> forall p q, utf8_enc R = p ++ q ->
  exists j tail, utf8_dec p = (firstn j R, tail, true) /\ p = utf8_enc (firstn j R) ++ tail.
Proof.
  induction 1 as [|c R V _ IH]; intros p q E.
  - cbn [app] in E. symmetry in E. apply app_eq_nil in E as [-> _]. exists 0%nat, []. auto.
  - cbn [utf8_enc flat_map] in E. fold (utf8_enc R) in E.
    apply app_eq_app' in E as [l [[E1 E2]|[E1 E2]]].
    + destruct l as [|x l].
      * rewrite app_nil_r in E1. subst p. cbn in E2. subst q.
        exists 1%nat, []. cbn [firstn utf8_enc flat_map]. rewrite !app_nil_r.
        rewrite <- (app_nil_r (utf8_enc1 c)) at 1. rewrite dec_enc1_app by exact V. auto.
      * exists 0%nat, p. cbn [firstn utf8_enc flat_map app]. split; [|reflexivity].
        apply (dec_partial c p (x :: l) V E1). discriminate.
    + subst p. destruct (IH l q E2) as [j [tail [D P]]].
      exists (S j), tail. cbn [firstn utf8_enc flat_map]. fold (utf8_enc (firstn j R)).
      rewrite dec_enc1_app by exact V. rewrite D. split; [reflexivity|].
      rewrite <- app_assoc. f_equal. exact P.
Qed.
