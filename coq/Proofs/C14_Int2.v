(* C14, integer clauses, part 2: parse_int_list reads the text of
   format_int_list back as the sorted distinct members; complement_int_list. *)
From Coq Require Import Decimal DecimalN DecimalPos.
From Boltons Require Import Lib.Prelude Lib.C14_Text Spec.C14_Spec Model.C14_Model Check.C14_Check
  Proofs.C14_Sh Proofs.C14_Int.
Open Scope N_scope.

(* ---- decimal numerals ------------------------------------------------------ *)
Lemma uint_codes_digits d : forallb is_digit (uint_codes d) = true.
Proof. induction d; cbn [uint_codes forallb]; try reflexivity; rewrite IHd; reflexivity. Qed.

Lemma digits_val_acc d : forall acc, digits_val (Npos acc) (uint_codes d) = Npos (Pos.of_uint_acc d acc).
Proof.
  induction d; intro acc; cbn [uint_codes digits_val Pos.of_uint_acc]; try reflexivity;
    rewrite <- IHd; f_equal; lia.
Qed.

Lemma digits_val_uint d : digits_val 0 (uint_codes d) = Pos.of_uint d.
Proof.
  induction d; cbn [uint_codes digits_val Pos.of_uint]; try reflexivity;
    try (rewrite <- digits_val_acc; reflexivity).
  exact IHd.
Qed.

Lemma digits_val_dec n : digits_val 0 (dec n) = n.
Proof. unfold dec. rewrite digits_val_uint. exact (DecimalN.Unsigned.of_to n). Qed.

Lemma dec_digits n : forallb is_digit (dec n) = true.
Proof. apply uint_codes_digits. Qed.

Lemma dec_nonempty n : dec n <> [].
Proof.
  unfold dec. destruct n as [|p]; [discriminate|]. cbn [N.to_uint].
  pose proof (DecimalPos.Unsigned.to_uint_nonnil p) as H.
  destruct (Pos.to_uint p); [congruence| | | | | | | | | |]; discriminate.
Qed.

Lemma decZ_nonneg z : (0 <= z)%Z -> decZ z = dec (Z.to_N z).
Proof. destruct z; [reflexivity|reflexivity|lia]. Qed.

(* ---- digit strings ---------------------------------------------------------- *)
Definition all_digits (s : text) : Prop := forallb is_digit s = true.

Lemma all_digits_app s t : all_digits s -> all_digits t -> all_digits (s ++ t).
Proof. unfold all_digits. rewrite forallb_app. intros -> ->. reflexivity. Qed.

Lemma digits_ok_all s : forall b, all_digits s -> (s <> [] \/ b = true) -> digits_ok_from b s = true.
Proof.
  induction s as [|c r IH]; intros b Hd Hne.
  - destruct Hne as [H|H]; [congruence|]. exact H.
  - unfold all_digits in Hd. cbn [forallb] in Hd. apply andb_true_iff in Hd as [Hc Hr].
    cbn [digits_ok_from]. rewrite Hc. apply IH; [exact Hr|right; reflexivity].
Qed.

Lemma filter_all_digits s : all_digits s -> filter is_digit s = s.
Proof.
  induction s as [|c r IH]; intro H; [reflexivity|].
  unfold all_digits in H. cbn [forallb] in H. apply andb_true_iff in H as [Hc Hr].
  cbn [filter]. rewrite Hc, IH by exact Hr. reflexivity.
Qed.

Lemma digit_props c : is_digit c = true ->
  int_isspace c = false /\ py_isspace c = false /\ (c =? c_minus) = false /\ (c =? c_plus) = false
  /\ to_ascii c = c /\ (c =? c_sp) = false.
Proof.
  unfold is_digit. intro H. apply andb_true_iff in H as [H1 H2]. apply N.leb_le in H1, H2.
  assert (Hs : py_isspace c = false).
  { unfold py_isspace, memN, py_space_list. cbn [existsb].
    repeat (apply orb_false_iff; split; [apply N.eqb_neq; lia|]). reflexivity. }
  repeat split.
  - unfold int_isspace. apply orb_false_iff. split.
    + apply andb_false_iff. right. apply N.leb_gt. lia.
    + apply N.eqb_neq. unfold c_sp. lia.
  - exact Hs.
  - apply N.eqb_neq. unfold c_minus. lia.
  - apply N.eqb_neq. unfold c_plus. lia.
  - unfold to_ascii. assert (E : (c <? 128) = true) by (apply N.ltb_lt; lia). rewrite E. reflexivity.
  - apply N.eqb_neq. unfold c_sp. lia.
Qed.

(* ---- strip ------------------------------------------------------------------ *)
Lemma strip_by_id p s :
  (forall c r, s = c :: r -> p c = false) -> (forall r c, s = r ++ [c] -> p c = false) ->
  strip_by p s = s.
Proof.
  intros Hh Hl. unfold strip_by. destruct s as [|c r]; [reflexivity|].
  cbn [dropwhile]. rewrite (Hh c r eq_refl).
  destruct (exists_last (l := c :: r) ltac:(discriminate)) as (r' & c' & E).
  rewrite E. rewrite rev_app_distr. cbn [rev app dropwhile]. rewrite (Hl r' c' E).
  cbn [rev]. rewrite rev_involutive. reflexivity.
Qed.

Lemma all_digits_head s c r : all_digits s -> s = c :: r -> is_digit c = true.
Proof. intros H ->. unfold all_digits in H. cbn in H. apply andb_true_iff in H. tauto. Qed.

Lemma all_digits_last s r c : all_digits s -> s = r ++ [c] -> is_digit c = true.
Proof.
  intros H ->. unfold all_digits in H. rewrite forallb_app in H. apply andb_true_iff in H as [_ H].
  cbn in H. apply andb_true_iff in H. tauto.
Qed.

(* ---- int() on a numeral, possibly after one blank --------------------------- *)
Lemma py_int_dec (pad : bool) n :
  py_int ((if pad then [c_sp] else []) ++ dec n) = Ok (Z.of_N n).
Proof.
  pose proof (dec_digits n) as Hd. pose proof (dec_nonempty n) as Hne.
  unfold py_int.
  assert (Hdom : map to_ascii ((if pad then [c_sp] else []) ++ dec n) = (if pad then [c_sp] else []) ++ dec n).
  { rewrite map_app. f_equal; [destruct pad; reflexivity|].
    clear Hne. induction (dec n) as [|c r IH]; [reflexivity|].
    unfold all_digits in Hd. cbn [forallb] in Hd. apply andb_true_iff in Hd as [Hc Hr].
    cbn [map]. rewrite (IH Hr). apply digit_props in Hc as (_ & _ & _ & _ & Hc & _). rewrite Hc. reflexivity. }
  rewrite Hdom.
  assert (Hs : strip_by int_isspace ((if pad then [c_sp] else []) ++ dec n) = dec n).
  { assert (Hid : strip_by int_isspace (dec n) = dec n).
    { apply strip_by_id.
      - intros c r E. apply (all_digits_head _ _ _ Hd) in E. apply digit_props in E. tauto.
      - intros r c E. apply (all_digits_last _ _ _ Hd) in E. apply digit_props in E. tauto. }
    destruct pad; [|exact Hid].
    unfold strip_by in *. cbn [app dropwhile].
    change (int_isspace c_sp) with true. cbv iota. exact Hid. }
  rewrite Hs. destruct (dec n) as [|c r] eqn:E; [congruence|].
  assert (Hc : is_digit c = true) by (eapply all_digits_head; [exact Hd|reflexivity]).
  apply digit_props in Hc as (_ & _ & Hm & Hp & _ & _). rewrite Hm, Hp.
  rewrite digits_ok_all by (assumption || (left; discriminate)).
  rewrite filter_all_digits by assumption. rewrite <- E, digits_val_dec. reflexivity.
Qed.

(* ---- split on a character that does not occur -------------------------------- *)
Lemma split1_nosep d w : memN d w = false -> split1 d w = [w].
Proof.
  induction w as [|c r IH]; intro H; [reflexivity|].
  unfold memN in H. cbn [existsb] in H. apply orb_false_iff in H as [Hc Hr].
  cbn [split1]. rewrite (IH Hr). rewrite N.eqb_sym, Hc. reflexivity.
Qed.

Lemma split1_nonnil d s : split1 d s <> [].
Proof.
  induction s as [|c r IH]; cbn [split1]; [discriminate|].
  destruct (split1 d r); [congruence|]. destruct (c =? d); discriminate.
Qed.

Lemma split1_app d w s : memN d w = false -> split1 d (w ++ d :: s) = w :: split1 d s.
Proof.
  induction w as [|c r IH]; intro H.
  - cbn [app split1]. pose proof (split1_nonnil d s) as Hn.
    destruct (split1 d s); [congruence|]. rewrite N.eqb_refl. reflexivity.
  - unfold memN in H. cbn [existsb] in H. apply orb_false_iff in H as [Hc Hr].
    cbn [app split1]. rewrite (IH Hr). rewrite N.eqb_sym, Hc. reflexivity.
Qed.

Lemma memN_app x s t : memN x (s ++ t) = memN x s || memN x t.
Proof. unfold memN. apply existsb_app. Qed.

Lemma memN_digits x s : all_digits s -> is_digit x = false -> memN x s = false.
Proof.
  intros Hs Hx. unfold memN. destruct (existsb (N.eqb x) s) eqn:E; [|reflexivity].
  apply existsb_exists in E as (y & Hy & Exy). apply N.eqb_eq in Exy. subst y.
  eapply forallb_forall in Hs; [|exact Hy]. congruence.
Qed.

(* ---- the general split / substring test on one-character separators ------------ *)
Lemma contains_single rd x : contains [rd] x = memN rd x.
Proof.
  induction x as [|c r IH]; [reflexivity|].
  cbn [contains starts_with]. rewrite IH. unfold memN. cbn [existsb].
  rewrite andb_true_r. reflexivity.
Qed.

Lemma split_aux_single d s : forall cur,
  split_aux [d] 0 cur s = match split1 d s with w :: ws => (rev cur ++ w) :: ws | [] => [rev cur] end.
Proof.
  induction s as [|c r IH]; intro cur.
  - cbn. rewrite app_nil_r. reflexivity.
  - cbn [split_aux starts_with split1 length Nat.sub].
    pose proof (split1_nonnil d r) as Hn. destruct (split1 d r) as [|w ws] eqn:E; [congruence|].
    rewrite andb_true_r. rewrite (N.eqb_sym d c). destruct (c =? d) eqn:Ec.
    + rewrite IH. cbn [rev app]. rewrite app_nil_r. reflexivity.
    + rewrite IH. cbn [rev]. rewrite <- app_assoc. reflexivity.
Qed.

Lemma py_split_single d s : py_split [d] s = Ok (split1 d s).
Proof.
  unfold py_split. rewrite split_aux_single. pose proof (split1_nonnil d s).
  destruct (split1 d s); [congruence|reflexivity].
Qed.

(* ---- texts that begin and end with a digit ---------------------------------- *)
Definition good (s : text) : Prop := s <> [] /\ is_digit (hd 0 s) = true /\ is_digit (last s 0) = true.

Lemma last_app_ne (x y : text) d : y <> [] -> last (x ++ y) d = last y d.
Proof.
  induction x as [|c r IH]; intro H; [reflexivity|].
  cbn [app]. specialize (IH H). remember (r ++ y) as z. destruct z as [|n l].
  - symmetry in Heqz. apply app_eq_nil in Heqz as [_ E]. congruence.
  - cbn [last]. exact IH.
Qed.

Lemma good_digits s : all_digits s -> s <> [] -> good s.
Proof.
  intros Hd Hne. split; [exact Hne|]. split.
  - destruct s as [|c r]; [congruence|]. cbn [hd]. eapply all_digits_head; [exact Hd|reflexivity].
  - destruct (exists_last Hne) as (r & c & E). rewrite E, last_last. eapply all_digits_last; eassumption.
Qed.

Lemma good_app x m y : good x -> good y -> good (x ++ m ++ y).
Proof.
  intros (Hx & Hhx & _) (Hy & _ & Hly). split; [|split].
  - destruct x; [congruence|discriminate].
  - destruct x; [congruence|exact Hhx].
  - rewrite app_assoc. rewrite last_app_ne by exact Hy. exact Hly.
Qed.

Lemma good_strip s : good s \/ s = [] -> strip_by py_isspace s = s.
Proof.
  intros [ (Hne & Hh & Hl) | -> ]; [|reflexivity].
  apply strip_by_id.
  - intros c r E. subst s. cbn [hd] in Hh. apply digit_props in Hh. tauto.
  - intros r c E. subst s. rewrite last_last in Hl. apply digit_props in Hl. tauto.
Qed.

(* ---- ranges with non-negative bounds ----------------------------------------- *)
Definition range_ok (r : range) : Prop := (0 <= fst r <= snd r)%Z.

Definition piece (rd : N) (pad : bool) (r : range) : text :=
  (if pad then [c_sp] else []) ++ render_range [rd] r.
Definition expand_range (r : range) : list Z := zrange (fst r) (snd r + 1).

Lemma good_render rd r : range_ok r -> good (render_range [rd] r).
Proof.
  intros [H0 H1]. unfold render_range. destruct (fst r =? snd r)%Z.
  - rewrite decZ_nonneg by lia. apply good_digits; [apply dec_digits|apply dec_nonempty].
  - rewrite !decZ_nonneg by lia. apply good_app; apply good_digits; (apply dec_digits || apply dec_nonempty).
Qed.

Lemma join_cons2 sep x (r : list text) : r <> [] -> join sep (x :: r) = x ++ sep ++ join sep r.
Proof. intro H. destruct r; [congruence|reflexivity]. Qed.

Lemma good_join sep rd rs :
  Forall range_ok rs -> rs <> [] -> good (join sep (map (render_range [rd]) rs)).
Proof.
  induction rs as [|r t IH]; intros Hok Hne; [congruence|].
  inversion Hok as [|? ? Hr Ht]; subst. cbn [map].
  destruct t as [|r2 t2].
  - cbn [map join]. apply good_render. exact Hr.
  - rewrite join_cons2 by discriminate.
    apply good_app; [apply good_render; exact Hr|]. apply IH; [exact Ht|discriminate].
Qed.

Section ParseProof.
  Variables d rd : N.
  Hypothesis Hd_digit : is_digit d = false.
  Hypothesis Hrd_digit : is_digit rd = false.
  Hypothesis Hd_sp : (d =? c_sp) = false.
  Hypothesis Hrd_sp : (rd =? c_sp) = false.
  Hypothesis Hd_rd : (d =? rd) = false.

  Lemma memN_pad_dec x (pad : bool) n : is_digit x = false -> (x =? c_sp) = false ->
    memN x ((if pad then [c_sp] else []) ++ dec n) = false.
  Proof.
    intros Hx Hs. rewrite memN_app. apply orb_false_iff. split.
    - destruct pad; [|reflexivity]. unfold memN. cbn [existsb]. rewrite Hs. reflexivity.
    - apply memN_digits; [apply dec_digits|exact Hx].
  Qed.

  Lemma zrange_one a : zrange a (a + 1) = [a].
  Proof.
    unfold zrange. replace (a + 1 - a)%Z with 1%Z by lia.
    change (Z.to_nat 1) with 1%nat. cbn [seq map Z.of_nat]. rewrite Z.add_0_r. reflexivity.
  Qed.

  (* one piece of the text, as parse_int_list treats it *)
  Lemma parse_piece pad r rest out :
    range_ok r ->
    parse_parts [rd] (piece rd pad r :: rest) out = parse_parts [rd] rest (out ++ expand_range r).
  Proof.
    destruct r as [a b]. unfold range_ok, piece, render_range, expand_range. cbn [fst snd]. intros [H0 H1].
    destruct (a =? b)%Z eqn:E.
    - apply Z.eqb_eq in E. subst b. rewrite decZ_nonneg by lia.
      cbn [parse_parts]. rewrite contains_single. rewrite memN_pad_dec by assumption.
      assert (Hn : is_nil ((if pad then [c_sp] else []) ++ dec (Z.to_N a)) = false).
      { destruct pad; [reflexivity|]. cbn [app]. pose proof (dec_nonempty (Z.to_N a)).
        destruct (dec (Z.to_N a)); [congruence|reflexivity]. }
      rewrite Hn, py_int_dec. rewrite Z2N.id by lia. rewrite zrange_one. reflexivity.
    - apply Z.eqb_neq in E. rewrite !decZ_nonneg by lia.
      cbn [parse_parts].
      assert (Hm : memN rd ((if pad then [c_sp] else []) ++ dec (Z.to_N a) ++ [rd] ++ dec (Z.to_N b)) = true).
      { rewrite !memN_app. cbn [app]. unfold memN at 3. cbn [existsb]. rewrite N.eqb_refl.
        rewrite orb_true_r. cbn. rewrite !orb_true_r. reflexivity. }
      rewrite contains_single, Hm, py_split_single.
      assert (Hs : split1 rd ((if pad then [c_sp] else []) ++ dec (Z.to_N a) ++ [rd] ++ dec (Z.to_N b))
                   = [(if pad then [c_sp] else []) ++ dec (Z.to_N a); dec (Z.to_N b)]).
      { rewrite app_assoc. cbn [app]. rewrite split1_app by (apply memN_pad_dec; assumption).
        rewrite split1_nosep by (apply memN_digits; [apply dec_digits|assumption]). reflexivity. }
      rewrite Hs. cbn [map_res]. rewrite py_int_dec.
      pose proof (py_int_dec false (Z.to_N b)) as Hb. cbn [app] in Hb. rewrite Hb.
      rewrite !Z2N.id by lia. cbn [list_minZ list_maxZ fold_left].
      rewrite Z.min_l, Z.max_r by lia. reflexivity.
  Qed.

  Lemma parse_pieces pad rs : forall out,
    Forall range_ok rs ->
    parse_parts [rd] (map (piece rd pad) rs) out = Ok (sortZ (out ++ flat_map expand_range rs)).
  Proof.
    induction rs as [|r t IH]; intros out Hok.
    - cbn. rewrite app_nil_r. reflexivity.
    - inversion Hok as [|? ? Hr Ht]; subst. cbn [map flat_map].
      rewrite parse_piece by exact Hr. rewrite IH by exact Ht. rewrite <- app_assoc. reflexivity.
  Qed.

  (* splitting the whole text on the delimiter gives back the pieces *)
  Lemma memN_d_render r : range_ok r -> memN d (render_range [rd] r) = false.
  Proof.
    intros [H0 H1]. unfold render_range. destruct (fst r =? snd r)%Z.
    - rewrite decZ_nonneg by lia. apply memN_digits; [apply dec_digits|assumption].
    - rewrite !decZ_nonneg by lia. rewrite !memN_app.
      rewrite (memN_digits d (dec (Z.to_N (fst r)))) by (apply dec_digits || assumption).
      rewrite (memN_digits d (dec (Z.to_N (snd r)))) by (apply dec_digits || assumption).
      change (memN d [rd]) with ((d =? rd) || false). rewrite Hd_rd. reflexivity.
  Qed.

  Lemma memN_d_piece (pad : bool) r : range_ok r -> memN d (piece rd pad r) = false.
  Proof.
    intro H. unfold piece. rewrite memN_app, memN_d_render by exact H.
    destruct pad; [|reflexivity]. unfold memN. cbn [existsb]. rewrite Hd_sp. reflexivity.
  Qed.

  Lemma split_text (space : bool) rs : forall pad : bool,
    Forall range_ok rs -> rs <> [] ->
    split1 d ((if pad then [c_sp] else []) ++ join (sep_of [d] space) (map (render_range [rd]) rs))
    = match rs with [] => [] | r :: t => piece rd pad r :: map (piece rd space) t end.
  Proof.
    induction rs as [|r t IH]; intros pad Hok Hne; [congruence|].
    inversion Hok as [|? ? Hr Ht]; subst. cbn [map].
    destruct t as [|r2 t2].
    - cbn [map join]. fold (piece rd pad r). rewrite split1_nosep by (apply memN_d_piece; exact Hr). reflexivity.
    - remember (r2 :: t2) as t. rewrite join_cons2 by (subst t; discriminate).
      rewrite app_assoc. fold (piece rd pad r).
      unfold sep_of. destruct space.
      + cbn [app]. rewrite split1_app by (apply memN_d_piece; exact Hr).
        subst t. f_equal. exact (IH true Ht ltac:(discriminate)).
      + cbn [app]. rewrite split1_app by (apply memN_d_piece; exact Hr).
        subst t. f_equal. exact (IH false Ht ltac:(discriminate)).
  Qed.

  Lemma parse_rendered (space : bool) rs :
    Forall range_ok rs ->
    parse_int_list (render_ranges (sep_of [d] space) [rd] rs) [d] [rd]
    = Ok (sortZ (flat_map expand_range rs)).
  Proof.
    intro Hok. unfold parse_int_list, render_ranges. rewrite py_split_single.
    destruct rs as [|r t].
    - reflexivity.
    - rewrite good_strip by (left; apply good_join; [exact Hok|discriminate]).
      pose proof (split_text space (r :: t) false Hok ltac:(discriminate)) as Hs. cbn [app] in Hs.
      rewrite Hs. inversion Hok as [|? ? Hr Ht]; subst.
      rewrite parse_piece by exact Hr. rewrite parse_pieces by exact Ht. reflexivity.
  Qed.
End ParseProof.
