(* For ANY recorded observations: if they agree with the model then they satisfy
   the Spec.  (This is how a green [agree] on a run transfers the refinement
   theorems to the code on that run.) *)
From Coq Require Import Permutation.
From Boltons Require Import Lib.Prelude Model.C17_Model Spec.C17_Spec Check.C17_Check
  Proofs.C17_Dict Proofs.C17_OTO Proofs.C17_M2M Proofs.C17_FD Proofs.C17_SpecLemmas
  Proofs.C17_RefineOTO Proofs.C17_RefineM2M Proofs.C17_RefineFD.

Lemma nat_list_eqb_eq (a b : list nat) : list_eqb Nat.eqb a b = true -> a = b.
Proof. apply list_eqb_eq. intros x y. apply Nat.eqb_eq. Qed.

Lemma exn_eqb_eq a b : exn_eqb a b = true -> a = b.
Proof.
  destruct a, b; simpl; try discriminate; trivial; intro H; apply Nat.eqb_eq in H; now subst.
Qed.

Lemma val_eqb_eq a b : val_eqb a b = true -> a = b.
Proof.
  destruct a, b; simpl; try discriminate; trivial.
  - intro H. apply Nat.eqb_eq in H. now subst.
  - rewrite andb_true_iff, !Nat.eqb_eq. intros [-> ->]. reflexivity.
  - intro H. apply eqb_prop in H. now subst.
  - intro H. apply nat_list_eqb_eq in H. now subst.
Qed.

Lemma res_val_eqb_eq (a b : res val) : res_eqb val_eqb a b = true -> a = b.
Proof.
  destruct a, b; simpl; try discriminate.
  - intro H. apply val_eqb_eq in H. now subst.
  - intro H. apply exn_eqb_eq in H. now subst.
Qed.

Lemma pairs_eqb_eq (a b : list (nat * nat)) : list_eqb pair_eq a b = true -> a = b.
Proof. apply list_eqb_eq. intros x y. apply pair_eq_true. Qed.

Lemma oview_eqb_eq (a b : oview) : oview_eqb a b = true -> a = b.
Proof.
  unfold oview_eqb, ov_fwd, ov_inv. destruct a as [[f i] x], b as [[f' i'] x']. simpl.
  rewrite !andb_true_iff. intros [[H1 H2] H3].
  apply pairs_eqb_eq in H1. apply pairs_eqb_eq in H2. apply eqb_prop in H3. now subst.
Qed.

Lemma oviews_eqb_eq (a b : list oview) : list_eqb oview_eqb a b = true -> a = b.
Proof.
  revert b. induction a as [|x r IH]; destruct b as [|y s]; simpl; try discriminate; trivial.
  rewrite andb_true_iff. intros [H1 H2]. apply oview_eqb_eq in H1. apply IH in H2. now subst.
Qed.

(* ---- OneToOne ------------------------------------------------------------------ *)
Lemma oto_agree_trace (steps : list (oto_hop * oto_obs)) : forall h prev, fst (oto_walk h prev steps) = true ->
  steps = oto_trace h (map fst steps).
Proof.
  induction steps as [|[hop [r views]] rest IH]; simpl; intros h prev H; trivial.
  destruct (oto_hstep h hop) as [h' mr] eqn:E.
  destruct (oto_walk h' views rest) as [a' ok'] eqn:W. simpl in H.
  rewrite !andb_true_iff in H. destruct H as [[H1 H2] H3].
  apply res_val_eqb_eq in H1. apply oviews_eqb_eq in H2. subst.
  f_equal. apply (IH h' (map oto_view_of h')). now rewrite W.
Qed.

Theorem oto_agree_implies_holds (steps : list (oto_hop * oto_obs)) :
  Forall (fun x => fst (snd x) <> Raise BadIndex) steps ->
  fst (oto_walk [] [] steps) = true -> snd (oto_walk [] [] steps) = true.
Proof.
  intros NB A. pose proof (oto_agree_trace steps [] [] A) as T.
  assert (NB' : no_bad_index (oto_trace [] (map fst steps))) by (rewrite <- T; exact NB).
  pose proof (walk_trace (map fst steps) [] (Forall_nil _) NB') as W. simpl in W. rewrite <- T in W.
  assert (W' : oto_walk [] [] steps = (true, true)) by exact W.
  now rewrite W'.
Qed.

(* ---- ManyToMany ---------------------------------------------------------------- *)
Lemma sview_eqb_eq (a b : sview) : sview_eqb a b = true -> a = b.
Proof.
  unfold sview_eqb. apply list_eqb_eq. intros [k s] [k' s']. simpl. rewrite andb_true_iff, Nat.eqb_eq. split.
  - intros [-> H]. apply nat_list_eqb_eq in H. now subst.
  - intros [= -> ->]. split; trivial. apply list_eqb_refl, Nat.eqb_refl.
Qed.

Lemma mview_eqb_eq (a b : mview) : mview_eqb a b = true -> a = b.
Proof.
  unfold mview_eqb, mv_data, mv_inv. destruct a as [[f i] x], b as [[f' i'] x']. simpl.
  rewrite !andb_true_iff. intros [[H1 H2] H3].
  apply sview_eqb_eq in H1. apply sview_eqb_eq in H2. apply eqb_prop in H3. now subst.
Qed.

Lemma mviews_eqb_eq (a b : list mview) : list_eqb mview_eqb a b = true -> a = b.
Proof.
  revert b. induction a as [|x r IH]; destruct b as [|y s]; simpl; try discriminate; trivial.
  rewrite andb_true_iff. intros [H1 H2]. apply mview_eqb_eq in H1. apply IH in H2. now subst.
Qed.

Lemma m2m_agree_trace (steps : list (m2m_hop * m2m_obs)) : forall h prev, fst (m2m_walk h prev steps) = true ->
  steps = m2m_trace h (map fst steps).
Proof.
  induction steps as [|[hop [r views]] rest IH]; simpl; intros h prev H; trivial.
  destruct (m2m_hstep h hop) as [h' mr] eqn:E.
  destruct (m2m_walk h' views rest) as [a' ok'] eqn:W. simpl in H.
  rewrite !andb_true_iff in H. destruct H as [[H1 H2] H3].
  apply res_val_eqb_eq in H1. apply mviews_eqb_eq in H2. subst.
  f_equal. apply (IH h' (map m2m_view_of h')). now rewrite W.
Qed.

Theorem m2m_agree_implies_holds (steps : list (m2m_hop * m2m_obs)) :
  Forall (fun x => fst (snd x) <> Raise BadIndex) steps ->
  fst (m2m_walk [] [] steps) = true -> snd (m2m_walk [] [] steps) = true.
Proof.
  intros NB A. pose proof (m2m_agree_trace steps [] [] A) as T.
  assert (NB' : m_no_bad_index (m2m_trace [] (map fst steps))) by (rewrite <- T; exact NB).
  pose proof (m2m_walk_trace (map fst steps) [] (Forall_nil _) NB') as W. simpl in W. rewrite <- T in W.
  assert (W' : m2m_walk [] [] steps = (true, true)) by exact W.
  now rewrite W'.
Qed.

(* ---- FrozenDict ------------------------------------------------------------------ *)
Lemma kvs_eqb_eq (a b : list kv) : list_eqb kv_eqb a b = true -> a = b.
Proof.
  apply list_eqb_eq. intros [x y] [x' y']. unfold kv_eqb. simpl. rewrite andb_true_iff, !Nat.eqb_eq. split.
  - intros [-> ->]. reflexivity.
  - intros [= -> ->]. auto.
Qed.

Lemma fval_eqb_eq a b : fval_eqb a b = true -> a = b.
Proof.
  destruct a, b; simpl; try discriminate; trivial.
  - intro H. apply Nat.eqb_eq in H. now subst.
  - intro H. apply Z.eqb_eq in H. now subst.
  - rewrite !andb_true_iff. intros [[[H1 H2] H3] H4]. apply kvs_eqb_eq in H1.
    apply eqb_prop in H2. apply eqb_prop in H3. subst.
    destruct h, h0; try discriminate; trivial. apply Z.eqb_eq in H4. now subst.
  - rewrite !andb_true_iff. intros [[[H1 H2] H3] H4]. apply kvs_eqb_eq in H1.
    apply eqb_prop in H2. apply eqb_prop in H3. subst.
    destruct member as [x|], member0 as [y|]; simpl in H4; try discriminate; trivial.
    apply eqb_prop in H4. now subst.
Qed.

Lemma res_fval_eqb_eq (a b : res fval) : res_eqb fval_eqb a b = true -> a = b.
Proof.
  destruct a, b; simpl; try discriminate.
  - intro H. apply fval_eqb_eq in H. now subst.
  - intro H. apply exn_eqb_eq in H. now subst.
Qed.

Lemma fd_agree_trace ih (steps : list (fd_op * fd_obs)) : forall f prev,
  fst (fst (fst (fd_walk ih f prev steps))) = true -> steps = fd_trace ih f (map fst steps).
Proof.
  induction steps as [|[op [r items]] rest IH]; simpl; intros f prev H; trivial.
  destruct (fd_step ih f op) as [f' mr] eqn:E.
  destruct (fd_walk ih f' items rest) as [[[a' ok'] hs] fl] eqn:W. simpl in H.
  rewrite !andb_true_iff in H. destruct H as [[H1 H2] H3].
  apply res_fval_eqb_eq in H1. apply kvs_eqb_eq in H2. subst.
  f_equal. apply (IH f' (f_items f')). now rewrite W.
Qed.

Theorem fd_agree_implies_holds kvs ihs steps kvs2 items2 eq12 h2 :
  In FHash (map fst steps) ->
  fst (fst (c17_verdict (CFd kvs ihs steps kvs2 items2 eq12 h2))) = true ->
  snd (fst (c17_verdict (CFd kvs ihs steps kvs2 items2 eq12 h2))) = true.
Proof.
  intros Hh A.
  assert (EQ : items2 = dict_of kvs2 /\ eq12 = dict_eqb_unordered (dict_of kvs) (dict_of kvs2) /\
               h2 = snd (fd_hash (ih_lookup ihs) (mkFD (dict_of kvs2) HUnset)) /\
               steps = fd_trace (ih_lookup ihs) (mkFD (dict_of kvs) HUnset) (map fst steps)).
  { unfold c17_verdict in A.
    destruct (fd_walk (ih_lookup ihs) (mkFD (dict_of kvs) HUnset) (dict_of kvs) steps) as [[[a ok] hs] fl] eqn:W.
    destruct (fd_hash (ih_lookup ihs) (mkFD (dict_of kvs2) HUnset)) as [f2' mh2] eqn:E2.
    simpl in A. rewrite !andb_true_iff in A. destruct A as [Ha [[A1 A2] A3]].
    apply kvs_eqb_eq in A1. apply res_fval_eqb_eq in A2. apply eqb_prop in A3. subst.
    repeat split; trivial. apply (fd_agree_trace _ _ _ (dict_of kvs)). now rewrite W. }
  destruct EQ as (-> & -> & -> & T).
  pose proof (fd_model_refines_spec (ih_lookup ihs) kvs (map fst steps) kvs2 ihs (fun p => eq_refl) Hh) as R.
  rewrite <- T in R. rewrite R. reflexivity.
Qed.

(* ---- all three families ------------------------------------------------------------ *)
Definition c17_wf (c : c17_case) : Prop :=
  match c with
  | COto steps => Forall (fun x => fst (snd x) <> Raise BadIndex) steps
  | CM2m steps => Forall (fun x => fst (snd x) <> Raise BadIndex) steps
  | CFd _ _ steps _ _ _ _ => In FHash (map fst steps)
  end.

Theorem agree_implies_holds c : c17_wf c ->
  fst (fst (c17_verdict c)) = true -> snd (fst (c17_verdict c)) = true.
Proof.
  destruct c as [steps|steps|kvs ihs steps kvs2 items2 eq12 h2]; intros WF A.
  - simpl in *. destruct (oto_walk [] [] steps) as [a ok] eqn:W. simpl in *.
    pose proof (oto_agree_implies_holds steps WF) as H. rewrite W in H. simpl in H. auto.
  - simpl in *. destruct (m2m_walk [] [] steps) as [a ok] eqn:W. simpl in *.
    pose proof (m2m_agree_implies_holds steps WF) as H. rewrite W in H. simpl in H. auto.
  - now apply fd_agree_implies_holds.
Qed.
