(* C03: the model's operations are single critical sections whenever the lock table
   extracted from the source says so ([table_covered]). *)
From Boltons Require Import Lib.Prelude Lib.C03_Syntax Lib.C03_Conc Model.C03_Model Proofs.C03_Serial.

Notation bal0 p := (@bal act ares sact nat _ 0 p).

Lemma bal_bind0 {A B} (p : P A) (f : A -> P B) :
  bal0 p -> (forall a, bal0 (f a)) -> bal0 (bind p f).
Proof. intros. apply bal_bind; assumption. Qed.

Ltac bal_step :=
  first
    [ apply bal_ret
    | apply bal_act; intro
    | apply bal_stat
    | apply bal_with_lock
    | apply bal_bind0; [|intro]
    | lazymatch goal with
      | |- @bal _ _ _ _ _ 0 (match ?x with _ => _ end) => destruct x
      | |- @bal _ _ _ _ _ 0 (if ?b then _ else _) => destruct b
      end ].

Ltac bal_tac := repeat (intros; bal_step).

Lemma bal_splice_out {A} link (k : P (res A)) : bal0 k -> bal0 (splice_out link k).
Proof. intro H. unfold splice_out, rd_addr, wr. bal_tac; exact H. Qed.

Lemma bal_move key : bal0 (get_link_and_move_to_front key).
Proof.
  unfold get_link_and_move_to_front. apply bal_act. intro r. destruct r; try apply bal_ret.
  apply bal_splice_out. unfold anchor_get, rd_addr, wr. bal_tac.
Qed.

Lemma bal_add key value : bal0 (set_key_and_add_to_front key value).
Proof. unfold set_key_and_add_to_front, anchor_get, rd_addr, wr, do_. bal_tac. Qed.

Lemma bal_evict key value : bal0 (set_key_and_evict_last key value).
Proof. unfold set_key_and_evict_last, anchor_get, rd_addr, rd, wr, do_. bal_tac. Qed.

Lemma bal_remove key : bal0 (remove_from_ll key).
Proof.
  unfold remove_from_ll. apply bal_act. intro r. destruct r; try apply bal_ret.
  apply bal_splice_out. apply bal_ret.
Qed.

Lemma bal_init_ll : bal0 init_ll.
Proof. unfold init_ll, do_. bal_tac. Qed.

Ltac setitem_body mx :=
  apply bal_bind0; [apply bal_move|];
  let r := fresh "r" in intro r; unfold bindr; apply bal_bind0;
  [ destruct r as [?link|?e]; [unfold wr; bal_tac|];
    match goal with e : exn |- _ => destruct e; try apply bal_ret end;
    apply bal_act; let n := fresh "n" in intro n; destruct n; try apply bal_ret;
    match goal with |- context [Nat.ltb ?x mx] => destruct (Nat.ltb x mx) end; [apply bal_add|];
    apply bal_bind0; [apply bal_evict|]; let a := fresh "a" in intro a; destruct a; [|apply bal_ret];
    unfold do_; bal_tac
  | let a := fresh "a" in intro a; destruct a; [|apply bal_ret]; unfold do_; bal_tac ].

Section M.
  Variables (tb : lock_table) (mx : nat) (om : option (K -> V)).

  Lemma bal_setitem cls key value : bal0 (m_setitem tb cls mx key value).
  Proof.
    unfold m_setitem, locked. apply bal_with_lock. setitem_body mx.
  Qed.

  Lemma bal_on_miss cls key : bal0 (on_miss_path tb cls mx om key).
  Proof.
    unfold on_miss_path. destruct om; [|apply bal_ret].
    unfold bindr. apply bal_bind0; [apply bal_setitem|]. intro a. destruct a; apply bal_ret.
  Qed.

  Lemma bal_read_value link : bal0 (read_value link).
  Proof. unfold read_value, rd. bal_tac. Qed.

  Lemma bal_getitem cls key : bal0 (m_getitem tb cls mx om key).
  Proof.
    unfold m_getitem, locked. apply bal_with_lock. destruct cls.
    - apply bal_act. intro r. destruct r; try apply bal_ret; [apply bal_stat; apply bal_read_value|apply bal_stat; apply bal_on_miss].
    - apply bal_bind0; [apply bal_move|]. intro r. destruct r as [l|e]; [apply bal_stat; apply bal_read_value|].
      destruct e; try apply bal_ret. apply bal_stat. apply bal_on_miss.
  Qed.

  Lemma bal_get cls key d : bal0 (m_get tb cls mx om key d).
  Proof.
    unfold m_get, locked. apply bal_with_lock. apply bal_bind0; [apply bal_getitem|].
    intro r. destruct r as [v|e]; [apply bal_ret|]. destruct e; try apply bal_stat; apply bal_ret.
  Qed.

  Lemma bal_delitem cls key : bal0 (m_delitem tb cls key).
  Proof.
    unfold m_delitem, locked, do_. apply bal_with_lock. apply bal_act. intro r.
    destruct r; try apply bal_ret. apply bal_remove.
  Qed.

  Lemma bal_pop cls key d : bal0 (m_pop tb cls key d).
  Proof.
    unfold m_pop, locked. apply bal_with_lock. apply bal_act. intro r.
    destruct r; try apply bal_ret.
    - unfold bindr. apply bal_bind0; [apply bal_remove|]. intro a. destruct a; apply bal_ret.
    - destruct d; apply bal_ret.
  Qed.

  Lemma bal_popitem cls : bal0 (m_popitem tb cls).
  Proof.
    unfold m_popitem, locked. apply bal_with_lock. apply bal_act. intro r.
    destruct r; try apply bal_ret.
    unfold bindr. apply bal_bind0; [apply bal_remove|]. intro a. destruct a; apply bal_ret.
  Qed.

  Lemma bal_clear cls : bal0 (m_clear tb cls).
  Proof.
    unfold m_clear, locked, do_. apply bal_with_lock. apply bal_act. intro r.
    destruct r; try apply bal_ret. apply bal_init_ll.
  Qed.

  Lemma bal_setdefault cls key d : bal0 (m_setdefault tb cls mx om key d).
  Proof.
    unfold m_setdefault, locked. apply bal_with_lock. apply bal_bind0; [apply bal_getitem|].
    intro r. destruct r as [v|e]; [apply bal_ret|]. destruct e; try apply bal_ret. apply bal_stat.
    unfold bindr. apply bal_bind0; [apply bal_setitem|]. intro a. destruct a; apply bal_ret.
  Qed.

  Lemma bal_setitems cls l : bal0 (setitems tb cls mx l).
  Proof.
    induction l as [|[k v] r IH]; simpl; [apply bal_ret|].
    unfold bindr. apply bal_bind0; [apply bal_setitem|]. intro a. destruct a; [exact IH|apply bal_ret].
  Qed.

  Lemma bal_update cls l : bal0 (m_update tb cls mx l).
  Proof. unfold m_update, locked. apply bal_with_lock. apply bal_setitems. Qed.

  Lemma bal_ior cls l : bal0 (m_ior tb cls mx l).
  Proof. unfold m_ior, locked. apply bal_with_lock. apply bal_update. Qed.

  Lemma bal_eq_dict cls l : bal0 (m_eq_dict tb cls l).
  Proof.
    unfold m_eq_dict, locked. apply bal_with_lock. bal_tac.
  Qed.

  Lemma bal_eq_self cls : bal0 (m_eq_self tb cls).
  Proof. unfold m_eq_self, locked. apply bal_with_lock. apply bal_ret. Qed.

  Lemma bal_walk fuel : forall link acc, bal0 (walk_ll fuel link acc).
  Proof.
    induction fuel as [|f IH]; intros; simpl; [apply bal_ret|].
    unfold rd, rd_addr, anchor_get.
    apply bal_act; intro r1; destruct r1; try apply bal_ret.
    apply bal_act; intro r2; destruct r2; try apply bal_ret.
    apply bal_act; intro r3; destruct r3; try apply bal_ret. destruct x1; try apply bal_ret.
    apply bal_act; intro r4; destruct r4; try apply bal_ret.
    destruct (Nat.eqb a a0); [apply bal_ret|apply IH].
  Qed.

  Lemma bal_copy_body (anc : addr) : bal0 (bindr (walk_ll (mx + 2) anc [])
            (fun l => match real_items (tl l) with
                      | Some items => Ret (Ok items)
                      | None => Ret (Raise crash)
                      end)).
  Proof.
    unfold bindr. apply bal_bind0; [apply bal_walk|]. intro a. destruct a; [|apply bal_ret].
    destruct (real_items (tl a)); apply bal_ret.
  Qed.

  Lemma bal_copy cls : bal0 (m_copy tb cls mx).
  Proof.
    unfold m_copy, locked, anchor_get. apply bal_with_lock. apply bal_act. intro r.
    destruct r; try apply bal_ret. apply bal_copy_body.
  Qed.
End M.

(* ---- from the table to the shape of every locked operation ----------------------------- *)
Lemma covered_meth tb c m :
  table_covered tb = true -> In m locked_meths -> meth_covered tb c m = true.
Proof.
  unfold table_covered. intros H Hm. apply andb_true_iff in H as [_ H].
  rewrite forallb_forall in H.
  assert (In c [LRI; LRU]) as Hc by (destruct c; simpl; auto).
  specialize (H c Hc). rewrite forallb_forall in H. apply H. exact Hm.
Qed.

Lemma covered_wraps tb c m :
  meth_covered tb c m = true -> m <> MGet -> m <> MNe -> wraps tb c m = true.
Proof.
  unfold meth_covered, wraps. destruct (meth_status tb c m); auto; destruct m; congruence.
Qed.

Lemma pure_ret_of {A} (f : A -> rv) :
  pure_tail (fun r : res A => @Ret act ares sact nat rv (match r with Ok a => f a | Raise e => RExn e end)).
Proof. intro a. eexists. apply post_ret. Qed.

Lemma locked_one_cs tb c m {A} (body : P (res A)) (f : A -> rv) :
  wraps tb c m = true -> bal0 body ->
  one_cs (ret_of f (locked tb c m body)).
Proof.
  intros W H. unfold ret_of, locked. rewrite W.
  apply one_cs_bind_pure; [apply pure_ret_of|]. apply one_cs_with_lock. exact H.
Qed.

Lemma wraps_status tb c m : wraps tb c m = false -> meth_covered tb c m = true -> m = MGet \/ m = MNe.
Proof.
  unfold wraps, meth_covered. destruct (meth_status tb c m); try discriminate; destruct m; intros; try discriminate; auto.
Qed.

Theorem compile_one_cs tb c :
  table_covered tb = true ->
  forall o, one_cs (compile_cfg tb c o).
Proof.
  intros T o.
  assert (CV : forall m, In m locked_meths -> meth_covered tb (cf_kind c) m = true)
    by (intros; apply covered_meth; assumption).
  assert (CM : forall m, In m locked_meths -> m <> MGet -> m <> MNe -> wraps tb (cf_kind c) m = true)
    by (intros m Hm Hn Hn2; apply covered_wraps; [apply CV; assumption|exact Hn|exact Hn2]).
  unfold compile_cfg. set (cls := cf_kind c) in *. set (mx := cf_max c). set (om := cf_miss c).
  destruct o; unfold compile.
  - (* SetItem *) unfold m_setitem. apply locked_one_cs; [apply CM; [simpl; auto 30|discriminate|discriminate]|].
    setitem_body mx.
  - (* GetItem *) unfold m_getitem. apply locked_one_cs; [apply CM; [simpl; auto 30|discriminate|discriminate]|].
    destruct cls.
    + apply bal_act. intro r. destruct r; try apply bal_ret; [apply bal_stat; apply bal_read_value|apply bal_stat; apply bal_on_miss].
    + apply bal_bind0; [apply bal_move|]. intro r. destruct r as [l|e]; [apply bal_stat; apply bal_read_value|].
      destruct e; try apply bal_ret. apply bal_stat. apply bal_on_miss.
  - (* Get *) unfold m_get, locked. destruct (wraps tb cls MGet) eqn:W.
    + unfold ret_of. apply one_cs_bind_pure; [apply pure_ret_of|]. apply one_cs_with_lock.
      apply bal_bind0; [apply bal_getitem|]. intro r. destruct r as [v|e]; [apply bal_ret|].
      destruct e; try apply bal_stat; apply bal_ret.
    + (* get() itself takes no lock: its single shared access is the locked self[key] *)
      unfold with_lock, ret_of.
      apply one_cs_bind_pure; [apply pure_ret_of|].
      apply one_cs_bind_pure.
      * intro r. destruct r as [v|e]; [eexists; apply post_ret|].
        destruct e; eexists; try (apply post_stat); apply post_ret.
      * unfold m_getitem, locked. rewrite (CM MGetItem) by (simpl; auto 30; discriminate).
        apply one_cs_with_lock. destruct cls.
        -- apply bal_act. intro r. destruct r; try apply bal_ret; [apply bal_stat; apply bal_read_value|apply bal_stat; apply bal_on_miss].
        -- apply bal_bind0; [apply bal_move|]. intro r. destruct r as [l|e]; [apply bal_stat; apply bal_read_value|].
           destruct e; try apply bal_ret. apply bal_stat. apply bal_on_miss.
  - (* DelItem *) unfold m_delitem. apply locked_one_cs; [apply CM; [simpl; auto 30|discriminate|discriminate]|].
    unfold do_. apply bal_act. intro r. destruct r; try apply bal_ret. apply bal_remove.
  - (* Pop *) unfold m_pop. apply locked_one_cs; [apply CM; [simpl; auto 30|discriminate|discriminate]|].
    apply bal_act. intro r. destruct r; try apply bal_ret.
    + unfold bindr. apply bal_bind0; [apply bal_remove|]. intro a. destruct a; apply bal_ret.
    + destruct d; apply bal_ret.
  - (* PopItem *) unfold m_popitem. apply locked_one_cs; [apply CM; [simpl; auto 30|discriminate|discriminate]|].
    apply bal_act. intro r. destruct r; try apply bal_ret.
    unfold bindr. apply bal_bind0; [apply bal_remove|]. intro a. destruct a; apply bal_ret.
  - (* Clear *) unfold m_clear. apply locked_one_cs; [apply CM; [simpl; auto 30|discriminate|discriminate]|].
    unfold do_. apply bal_act. intro r. destruct r; try apply bal_ret. apply bal_init_ll.
  - (* SetDefault *) unfold m_setdefault. apply locked_one_cs; [apply CM; [simpl; auto 30|discriminate|discriminate]|].
    apply bal_bind0; [apply bal_getitem|].
    intro r. destruct r as [v|e]; [apply bal_ret|]. destruct e; try apply bal_ret. apply bal_stat.
    unfold bindr. apply bal_bind0; [apply bal_setitem|]. intro a. destruct a; apply bal_ret.
  - (* Update *) unfold m_update. apply locked_one_cs; [apply CM; [simpl; auto 30|discriminate|discriminate]|].
    apply bal_setitems.
  - (* Ior *) unfold m_ior. apply locked_one_cs; [apply CM; [simpl; auto 30|discriminate|discriminate]|].
    apply bal_update.
  - (* EqDict *) unfold m_eq_dict. apply locked_one_cs; [apply CM; [simpl; auto 30|discriminate|discriminate]|].
    bal_tac.
  - (* EqSelf *) unfold m_eq_self. apply locked_one_cs; [apply CM; [simpl; auto 30|discriminate|discriminate]|].
    apply bal_ret.
  - (* Copy *) unfold m_copy. apply locked_one_cs; [apply CM; [simpl; auto 30|discriminate|discriminate]|].
    unfold anchor_get. apply bal_act. intro r. destruct r; try apply bal_ret. apply bal_copy_body.
  - (* Len *) unfold m_len. apply locked_one_cs; [apply CM; [simpl; auto 30|discriminate|discriminate]|]. bal_tac.
  - (* Contains *) unfold m_contains. apply locked_one_cs; [apply CM; [simpl; auto 30|discriminate|discriminate]|]. bal_tac.
  - (* Snapshot *) unfold m_snapshot. apply locked_one_cs; [apply CM; [destruct w; simpl; auto 30|destruct w; discriminate|destruct w; discriminate]|]. bal_tac.  - (* NeDict *) unfold m_ne, locked. destruct (wraps tb cls MNe) eqn:W.
    + unfold ret_of. apply one_cs_bind_pure; [apply pure_ret_of|]. apply one_cs_with_lock.
      apply bal_bind0; [apply bal_eq_dict|]. intro r. destruct r; apply bal_ret.
    + unfold with_lock, ret_of.
      apply one_cs_bind_pure; [apply pure_ret_of|].
      apply one_cs_bind_pure.
      * intro r. destruct r; eexists; apply post_ret.
      * unfold m_eq_dict, locked. rewrite (CM MEq) by (simpl; auto 30; discriminate).
        apply one_cs_with_lock. bal_tac.
  - (* CopyCopy *) unfold m_copy2. apply locked_one_cs; [apply CM; [simpl; auto 30|discriminate|discriminate]|].
    apply bal_copy.
Qed.
