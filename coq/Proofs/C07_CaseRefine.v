(* The capstone (model observation satisfies c07_holds) for mixed-case bases. *)
From Boltons Require Import Lib.Prelude Lib.C07_Str Spec.C07_Spec Gen.C07_Gen Model.C07_Model
     Check.C07_Check Proofs.C07_StrLemmas Proofs.C07_Rds Proofs.C07_Resolve Proofs.C07_Parse
     Proofs.C07_Navigate Proofs.C07_Text Proofs.C07_Query Proofs.C07_Refine Proofs.C07_Case.
Open Scope N_scope.

(* ---- one step, with the base given as RFC components B (any case) and a
        lower-case URL object n whose components are the case-folded B ------------------- *)
Lemma mc_step B n d s a :
  wf_uri B -> scheme B = Some s -> authority B = Some a ->
  wf_base n -> uri_of n = norm_case B -> wf_ref d ->
  exists T, transform B (uri_of d) = Some T /\ norm_case T = uri_of (navigate_rel n d) /\
            wf_uri (root_if_empty T) /\ scheme T = Some s /\ authority T = Some a.
Proof.
  intros WB Hs Ha Wn Hfold Wd.
  destruct (ref_facts d Wd) as (Hud & Td & Ud).
  pose proof (navigate_rel_wf n d Wn Wd) as Wr.
  destruct (base_facts _ Wr) as (_ & _ & _ & _ & Tr & Ur).
  pose proof (nav_transform n d Wn Wd) as NT. rewrite Hfold in NT.
  assert (Rs : scheme (uri_of d) = None /\ authority (uri_of d) = None) by (rewrite Hud; split; reflexivity).
  destruct Rs as [Rs Ra]. rewrite (transform_fold_base _ _ Rs Ra) in NT.
  destruct (transform B (uri_of d)) as [T|] eqn:ET; [|discriminate].
  cbn [option_map] in NT.
  assert (NT' : norm_case T = uri_of (navigate_rel n d)).
  { apply (f_equal (fun o => match o with Some x => x | None => norm_case T end)) in NT. exact NT. }
  clear NT.
  destruct (transform_keeps_sa _ _ _ Rs Ra ET) as [Ts Ta]. rewrite Hs in Ts. rewrite Ha in Ta.
  exists T. split; [reflexivity|]. split; [exact NT'|]. split; [|split; assumption].
  pose proof (wf_scheme B WB) as HS. rewrite Hs in HS. destruct HS as [Sne Sch].
  pose proof (wf_auth B WB) as HA. rewrite Ha in HA.
  assert (ET' : root_if_empty T =
                mkUri (Some s) (Some a) (path (root_if_empty (uri_of (navigate_rel n d))))
                      (query (root_if_empty (uri_of (navigate_rel n d)))) (fragment (root_if_empty (uri_of (navigate_rel n d))))).
  { rewrite <- NT'. destruct T as [ts ta tp tq tf]. cbn [scheme authority] in Ts, Ta. subst ts ta.
    unfold root_if_empty, norm_case. cbn [scheme authority path query fragment option_map].
    destruct tp; reflexivity. }
  rewrite ET'. apply wf_uri_swap; try assumption.
  - apply wf_uri_root, Ur.
  - rewrite <- NT'. destruct T as [ts ta tp tq tf]. cbn [scheme] in Ts. subst ts.
    unfold root_if_empty, norm_case. cbn. destruct (option_map lower_host ta); [destruct tp|]; discriminate.
  - rewrite <- NT'. destruct T as [ts ta tp tq tf]. cbn [authority] in Ta. subst ta.
    unfold root_if_empty, norm_case. cbn. destruct tp; discriminate.
Qed.

(* spec_navigate looks at the result only through canon *)
Lemma spec_navigate_canon bt rt x x' : canon x = canon x' -> spec_navigate bt rt x = spec_navigate bt rt x'.
Proof. intro E. unfold spec_navigate. rewrite E. reflexivity. Qed.

Lemma mc_spec B n d s a x :
  wf_uri B -> scheme B = Some s -> authority B = Some a ->
  wf_base n -> uri_of n = norm_case B -> wf_ref d ->
  canon x = canon (to_text (navigate_rel n d)) ->
  spec_navigate (recompose B) (to_text d) x = true.
Proof.
  intros WB Hs Ha Wn Hfold Wd Hx.
  destruct (mc_step B n d s a WB Hs Ha Wn Hfold Wd) as (T & ET & NT & WT & _ & _).
  destruct (ref_facts d Wd) as (_ & Td & Ud).
  pose proof (navigate_rel_wf n d Wn Wd) as Wr.
  destruct (base_facts _ Wr) as (_ & _ & _ & _ & Tr & Ur).
  unfold spec_navigate, target. rewrite Td, (parse_recompose _ WB), (parse_recompose _ Ud), ET, Hx.
  rewrite Tr, (canon_recompose _ Ur).
  rewrite (fold_case_recompose _ (wf_uri_root _ Ur)), norm_case_root, (norm_case_wf_base _ Wr).
  rewrite (fold_case_recompose _ WT), norm_case_root, NT. apply str_eqb_refl.
Qed.

(* an absolute destination: the base text does not matter at all *)
Lemma abs_dest_any_base bt d : wf_base d ->
  target bt (to_text d) = Some (canon (to_text (normalize d))).
Proof.
  intro Wd. destruct (base_facts d Wd) as (segs & Hp & Hs & Hu & Td & Ud).
  pose proof (navigate_abs_refines_rfc_strict d d Wd Wd) as S. unfold spec_navigate_strict in S.
  assert (E : target bt (to_text d) = target (to_text d) (to_text d)).
  { unfold target. rewrite Td, (parse_recompose _ Ud).
    rewrite (transform_abs_ref (parse bt) (uri_of d) (uri_of d) (u_scheme d)); [reflexivity|].
    rewrite Hu. reflexivity. }
  rewrite E. destruct (target (to_text d) (to_text d)) as [t|]; [|discriminate].
  apply str_eqb_eq in S. congruence.
Qed.

Lemma rootify_uri u : wf_base u -> uri_of (rootify u) = root_if_empty (uri_of u).
Proof.
  intro W. destruct (base_facts u W) as (segs & Hp & _ & Hu & _).
  destruct (base_facts _ (rootify_wf u W)) as (segs' & Hp' & _ & Hu' & _).
  rewrite Hu', Hu. unfold rootify in *. rewrite Hp in *. destruct segs as [|s1 segs1].
  - cbn [u_path u_scheme u_query u_frag] in *. inversion Hp'; subst. reflexivity.
  - rewrite Hp in Hp'. inversion Hp'; subst. reflexivity.
Qed.

(* the HT premise of spec_query_step from mc_step *)
Lemma mc_query_premise B n d s a :
  wf_uri B -> scheme B = Some s -> authority B = Some a ->
  wf_base n -> uri_of n = norm_case B -> wf_ref d ->
  exists T, transform B (uri_of d) = Some T /\ query T = opt (query_text (nav_query n d)).
Proof.
  intros WB Hs Ha Wn Hfold Wd.
  destruct (mc_step B n d s a WB Hs Ha Wn Hfold Wd) as (T & ET & NT & _).
  exists T. split; [exact ET|]. rewrite <- (nav_uri_query n d Wn Wd), <- NT. reflexivity.
Qed.

Lemma normalize_lc b : normalize (lc b) = normalize b.
Proof. unfold normalize, lc. cbn [u_scheme u_sep u_user u_pass u_host u_port u_path u_query u_frag]. rewrite !lower_idem. reflexivity. Qed.

Lemma root_keeps_sa T : scheme (root_if_empty T) = scheme T /\ authority (root_if_empty T) = authority T.
Proof. destruct T as [s a p q f]. unfold root_if_empty. cbn. destruct a; [destruct p|]; split; reflexivity. Qed.

Theorem mixed_case_observation_satisfies_spec b d1 d2 unrooted f1 f2 bt :
  wf_base_mc b -> wf_ref d1 \/ wf_base d1 -> wf_ref d2 \/ wf_base d2 ->
  c07_holds (mkCase bt unrooted (to_text d1) f1 (to_text d2) f2 (record_obs b d1 d2)) = true.
Proof.
  intros W W1 W2. pose proof (mc_twin b W) as Wl.
  destruct (mc_facts b W) as (segs & Hp & Hub & Hfold & Tb & Ub).
  pose proof (navigate_url_wf (lc b) d1 Wl W1) as Wn1.
  pose proof (navigate_url_wf _ d2 Wn1 W2) as Wn2.
  assert (Sb : scheme (uri_of b) = Some (u_scheme b) /\ authority (uri_of b) = Some (authority_text b))
    by (rewrite Hub; split; reflexivity).
  destruct Sb as [Sb Ab].
  unfold c07_holds, record_obs. cbv zeta.
  cbn [c_obs c_ref1 c_ref2 o_before o_nav1 o_nav1_again o_after o_nav2 o_nb1 o_nb2 o_nr1 o_nr2 o_ref1 o_ref2].
  rewrite <- !(navigate_url_lc b d1), <- (normalize_lc b).
  set (n1 := navigate_url (lc b) d1) in *.
  (* 1-2: domain *)
  assert (D : base_in_domain (to_text b) = true).
  { unfold base_in_domain. rewrite Tb, (parse_recompose _ Ub), Hub. cbn [scheme authority path].
    pose proof (mc_scheme_ne b W) as Hs. pose proof (authority_nonempty b (mc_host_ne b W)) as Ha.
    destruct (u_scheme b); [contradiction|]. rewrite Ha. reflexivity. }
  rewrite D, (ref_in_domain_wf d1 W1), (ref_in_domain_wf d2 W2).
  (* 3: the first result *)
  assert (N1 : spec_navigate (to_text b) (to_text d1) (to_text n1) = true).
  { destruct W1 as [Wd|Wd]; unfold n1, navigate_url.
    - rewrite (wf_ref_relative d1 Wd), Tb.
      apply (mc_spec _ (lc b) d1 _ _ _ Ub Sb Ab Wl Hfold Wd eq_refl).
    - rewrite (wf_base_absolute d1 Wd). apply strict_implies. unfold spec_navigate_strict.
      rewrite (abs_dest_any_base _ d1 Wd). apply str_eqb_refl. }
  assert (Q1 : spec_query (to_text b) (to_text d1) (to_text n1) = true).
  { apply (spec_query_step _ (uri_of b) (lc b) d1); [rewrite Tb; apply (parse_recompose _ Ub) | exact Wl | | exact W1 | reflexivity].
    intro Wd. apply (mc_query_premise _ _ _ _ _ Ub Sb Ab Wl Hfold Wd). }
  rewrite N1, Q1, (spec_clean_wf _ Wn1 (navigate_url_clean (lc b) d1 Wl W1)), !str_eqb_refl.
  (* 6: the chain *)
  assert (CH : spec_chain (to_text b) (to_text d1) (to_text d2) (to_text (navigate_url n1 d2)) = true).
  { unfold spec_chain. destruct W1 as [Wd1|Wd1].
    - (* relative first step *)
      destruct (mc_step _ (lc b) d1 _ _ Ub Sb Ab Wl Hfold Wd1) as (T1 & ET & NT & WT & Ts & Ta).
      destruct (ref_facts d1 Wd1) as (_ & Td1 & Ud1).
      unfold target at 1. rewrite Tb, Td1, (parse_recompose _ Ub), (parse_recompose _ Ud1), ET.
      assert (E1 : n1 = navigate_rel (lc b) d1) by (unfold n1, navigate_url; rewrite (wf_ref_relative d1 Wd1); reflexivity).
      destruct (root_keeps_sa T1) as [Rs Ra]. rewrite Ts in Rs. rewrite Ta in Ra.
      destruct W2 as [Wd2|Wd2].
      + apply (mc_spec _ (rootify n1) d2 _ _ _ WT Rs Ra (rootify_wf _ Wn1)); [|exact Wd2|].
        * rewrite (rootify_uri _ Wn1), E1, <- NT. symmetry. apply norm_case_root.
        * unfold navigate_url. rewrite (wf_ref_relative d2 Wd2). symmetry. apply (navigate_rootify _ d2 Wn1 Wd2).
      + apply strict_implies. unfold spec_navigate_strict. rewrite (abs_dest_any_base _ d2 Wd2).
        unfold navigate_url. rewrite (wf_base_absolute d2 Wd2). apply str_eqb_refl.
    - (* absolute first step: from then on everything is lower case *)
      rewrite (abs_dest_any_base _ d1 Wd1).
      assert (E1 : n1 = normalize d1) by (unfold n1, navigate_url; rewrite (wf_base_absolute d1 Wd1); reflexivity).
      rewrite <- E1, <- (rootify_text _ Wn1).
      unfold spec_navigate. rewrite (navigate_url_target _ d2 (rootify_wf _ Wn1) W2).
      rewrite (navigate_url_rootify _ d2 Wn1 W2). apply str_eqb_refl. }
  assert (QC : spec_query_chain (to_text b) (to_text d1) (to_text d2) (to_text (navigate_url n1 d2)) = true).
  { unfold spec_query_chain. destruct W1 as [Wd1|Wd1].
    - destruct (mc_step _ (lc b) d1 _ _ Ub Sb Ab Wl Hfold Wd1) as (T1 & ET & NT & WT & Ts & Ta).
      destruct (ref_facts d1 Wd1) as (_ & Td1 & Ud1).
      unfold target. rewrite Tb, Td1, (parse_recompose _ Ub), (parse_recompose _ Ud1), ET.
      assert (E1 : n1 = navigate_rel (lc b) d1) by (unfold n1, navigate_url; rewrite (wf_ref_relative d1 Wd1); reflexivity).
      destruct (root_keeps_sa T1) as [Rs Ra]. rewrite Ts in Rs. rewrite Ta in Ra.
      apply (spec_query_step _ (root_if_empty T1) (rootify n1) d2);
        [apply (parse_recompose _ WT) | exact (rootify_wf _ Wn1) | | exact W2
         | apply navigate_url_result_query_rootify; assumption].
      intro Wd2. apply (mc_query_premise _ _ _ _ _ WT Rs Ra (rootify_wf _ Wn1)); [|exact Wd2].
      rewrite (rootify_uri _ Wn1), E1, <- NT. symmetry. apply norm_case_root.
    - rewrite (abs_dest_any_base _ d1 Wd1).
      assert (E1 : n1 = normalize d1) by (unfold n1, navigate_url; rewrite (wf_base_absolute d1 Wd1); reflexivity).
      rewrite <- E1, <- (rootify_text _ Wn1). apply query_second_step; assumption. }
  rewrite CH, QC, (spec_clean_wf _ Wn2 (navigate_url_clean _ d2 Wn1 W2)).
  (* 8: normalize *)
  assert (NZ : spec_normalized (to_text b) (to_text (normalize (lc b))) (to_text (normalize (normalize (lc b)))) = true).
  { unfold spec_normalized. rewrite normalize_idem, str_eqb_refl. cbn [andb].
    rewrite Tb, (parse_recompose _ Ub), Hub. cbn [scheme authority path query fragment].
    destruct (base_facts _ Wl) as (segs' & Hp' & Hs' & _). cbn [lc u_path] in Hp'. rewrite Hp in Hp'.
    inversion Hp'; subst segs'. rewrite (rds_abs_path segs Hs').
    pose proof (normalize_wf _ Wl) as Wz. destruct (base_facts _ Wz) as (_ & _ & _ & _ & Tz & Uz).
    rewrite Tz, (canon_recompose _ Uz), (normalize_uri (lc b) segs Wl Hp).
    cbn [lc u_scheme u_query u_frag]. rewrite (mc_auth_fold b W).
    rewrite norm_case_root. unfold norm_case. cbn [scheme authority path query fragment option_map].
    apply str_eqb_refl. }
  rewrite NZ, normalize_idem, str_eqb_refl. reflexivity.
Qed.
