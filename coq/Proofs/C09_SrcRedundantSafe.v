(* C09 (T): the dict / list subscript READS of the translated `redundant` never
   raise: the checked translation (every read guarded, None = KeyError /
   IndexError) always returns Some of the unchecked one. *)
From Boltons Require Import Lib.Prelude Spec.C09_Spec Model.C09_Model Gen.C09_Src.
From Boltons Require Import Proofs.C09_Group Proofs.C09_Redundant Proofs.C09_SrcLoops.

Section Safe.
  Variables (kt : bool) (kf : K -> K).
  Let key : K -> K := fun i => if kt then kf i else i.

  Lemma chk_step_false st i :
    Gredundant_groups_false_chk_step kt kf st i = Some (Gredundant_groups_false_step kt kf st i).
  Proof.
    destruct st as [[seen order] rg].
    unfold Gredundant_groups_false_chk_step, Gredundant_groups_false_step, d_mem.
    destruct (d_get seen (if kt then kf i else i)); cbn [negb]; [|reflexivity].
    destruct (d_get rg (if kt then kf i else i)); reflexivity.
  Qed.

  Lemma chk_step_true st i :
    Gredundant_groups_true_chk_step kt kf st i = Some (Gredundant_groups_true_step kt kf st i).
  Proof.
    destruct st as [[seen order] rg].
    unfold Gredundant_groups_true_chk_step, Gredundant_groups_true_step, d_mem.
    destruct (d_get seen (if kt then kf i else i)); cbn [negb]; [|reflexivity].
    destruct (d_get rg (if kt then kf i else i)); reflexivity.
  Qed.

  Lemma chk_fold {S} (stepc : S -> K -> option S) (step : S -> K -> S) :
    (forall st i, stepc st i = Some (step st i)) ->
    forall src st,
      fold_left (fun acc x => match acc with Some st => stepc st x | None => None end) src (Some st)
      = Some (fold_left step src st).
  Proof.
    intros H. induction src as [|x r IH]; intro st; [reflexivity|]. cbn [fold_left]. rewrite H. apply IH.
  Qed.

  (* every reported key has its group, with at least two members *)
  Lemma groups_present groups l k :
    In k (r_order (red_run key groups l)) ->
    exists g, d_get (r_groups (red_run key groups l)) k = Some g /\ 2 <= length g.
  Proof.
    destruct (Inv_run key groups l) as [_ I2 I3]. rewrite I2. intro H.
    apply in_map_iff in H as [x [<- Hx]].
    destruct (R_second key l x Hx) as [L _].
    rewrite I3. assert (2 <=? length (fk key (key x) l) = true) as -> by (apply Nat.leb_le; exact L).
    eexists. split; [reflexivity|]. unfold grp. destruct groups; [exact L|].
    rewrite firstn_length. lia.
  Qed.

  Lemma redundant_false_reads_never_raise src :
    Gredundant_groups_false_chk src kt kf = Some (Gredundant_groups_false src kt kf).
  Proof.
    unfold Gredundant_groups_false_chk, Gredundant_groups_false. cbv zeta.
    rewrite (chk_fold _ _ chk_step_false).
    change ((@nil (K * K), @nil K, @nil (K * list K))) with (tup (mkRed [] [] [])).
    rewrite (gen_red_fold_false kt kf). unfold tup. cbv beta iota.
    change (fold_left (red_step (fun i : K => if kt then kf i else i) false) src (mkRed [] [] [])) with (red_run key false src).
    assert (G : forallb (fun k : K => d_mem (r_groups (red_run key false src)) k
                                      && (1 <? length (group_at (r_groups (red_run key false src)) k)))
                        (r_order (red_run key false src)) = true).
    { apply forallb_forall. intros k Hk. destruct (groups_present false src k Hk) as [g [E L]].
      unfold d_mem, group_at. rewrite E. apply Nat.ltb_lt. lia. }
    rewrite G. reflexivity.
  Qed.

  Lemma redundant_true_reads_never_raise src :
    Gredundant_groups_true_chk src kt kf = Some (Gredundant_groups_true src kt kf).
  Proof.
    unfold Gredundant_groups_true_chk, Gredundant_groups_true. cbv zeta.
    rewrite (chk_fold _ _ chk_step_true).
    change ((@nil (K * K), @nil K, @nil (K * list K))) with (tup (mkRed [] [] [])).
    rewrite (gen_red_fold_true kt kf). unfold tup. cbv beta iota.
    change (fold_left (red_step (fun i : K => if kt then kf i else i) true) src (mkRed [] [] [])) with (red_run key true src).
    assert (G : forallb (fun k : K => d_mem (r_groups (red_run key true src)) k)
                        (r_order (red_run key true src)) = true).
    { apply forallb_forall. intros k Hk. destruct (groups_present true src k Hk) as [g [E L]].
      unfold d_mem. rewrite E. reflexivity. }
    rewrite G. reflexivity.
  Qed.
End Safe.
