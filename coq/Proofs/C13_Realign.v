(* C13: positional defaults stay aligned with their parameters under
   FunctionBuilder.add_arg (append) and FunctionBuilder.remove_arg (the
   defaults tuple is rebuilt through get_defaults_dict). *)
From Boltons Require Import Lib.Prelude Spec.C13_Spec Model.C13_Model Proofs.C13_Dict.
From Coq Require Import Lia.

(* ---- a view of pos_params: names paired with their optional default -------- *)
Fixpoint attach (args : list name) (skip : nat) (D : list value)
  : list (name * option value) :=
  match args with
  | [] => []
  | a :: r =>
      match skip with
      | S k => (a, None) :: attach r k D
      | O => match D with
             | d :: ds => (a, Some d) :: attach r O ds
             | [] => (a, None) :: attach r O []
             end
      end
  end.

Definition pp_of (an : name -> option ann) (l : list (name * option value)) : list param :=
  map (fun ao => mkP (fst ao) PosOrKw (snd ao) (an (fst ao))) l.

Definition defs (l : list (name * option value)) : list value :=
  flat_map (fun ao => olist (snd ao)) l.

Definition is_some (ao : name * option value) : bool :=
  match snd ao with Some _ => true | None => false end.

(* None ... None Some ... Some *)
Fixpoint shape (l : list (name * option value)) : Prop :=
  match l with
  | [] => True
  | ao :: r => match snd ao with
               | None => shape r
               | Some _ => forallb is_some r = true
               end
  end.

Lemma pos_params_attach an args : forall skip D,
  pos_params an args skip D = pp_of an (attach args skip D).
Proof.
  induction args as [|a r IH]; intros skip D; simpl; [reflexivity|].
  destruct skip as [|k]; [destruct D as [|d ds]|]; simpl; rewrite IH; reflexivity.
Qed.

Lemma attach_names args : forall skip D, map fst (attach args skip D) = args.
Proof.
  induction args as [|a r IH]; intros skip D; simpl; [reflexivity|].
  destruct skip as [|k]; [destruct D as [|d ds]|]; simpl; rewrite IH; reflexivity.
Qed.

(* ---- 1. basic facts --------------------------------------------------------- *)
Lemma pos_params_names an args skip D : map p_name (pos_params an args skip D) = args.
Proof.
  revert skip D. induction args as [|a r IH]; intros skip D; simpl; [reflexivity|].
  destruct skip as [|k]; [destruct D as [|d ds]|]; simpl; rewrite IH; reflexivity.
Qed.

Lemma pos_params_kinds an args skip D :
  forallb (fun p => kind_eqb (p_kind p) PosOrKw) (pos_params an args skip D) = true.
Proof.
  revert skip D. induction args as [|a r IH]; intros skip D; simpl; [reflexivity|].
  destruct skip as [|k]; [destruct D as [|d ds]|]; simpl; apply IH.
Qed.

Lemma pos_params_ext an an' args skip D :
  (forall a, In a args -> an' a = an a) -> pos_params an' args skip D = pos_params an args skip D.
Proof.
  revert skip D. induction args as [|a r IH]; intros skip D H; simpl; [reflexivity|].
  assert (Ha : an' a = an a) by (apply H; left; reflexivity).
  assert (Hr : forall x, In x r -> an' x = an x) by (intros x Hx; apply H; right; exact Hx).
  destruct skip as [|k]; [destruct D as [|d ds]|]; rewrite Ha, IH by exact Hr; reflexivity.
Qed.

Lemma pos_params_defaults_gen an args : forall k D, length args = k + length D ->
  flat_map (fun p => olist (p_default p)) (pos_params an args k D) = D.
Proof.
  induction args as [|a r IH]; intros k D H; simpl in *.
  - destruct D; [reflexivity | simpl in H; lia].
  - destruct k as [|k].
    + destruct D as [|d ds]; simpl in *; [lia|]. f_equal. apply IH. simpl. lia.
    + simpl. apply IH. lia.
Qed.

Lemma pos_params_defaults an args D : length D <= length args ->
  flat_map (fun p => olist (p_default p)) (pos_params an args (length args - length D) D) = D.
Proof. intro H. apply pos_params_defaults_gen. lia. Qed.

(* ---- 2. append one name ----------------------------------------------------- *)
Lemma pos_params_nodefaults an args : forall k,
  pos_params an args k [] = map (fun a => mkP a PosOrKw None (an a)) args.
Proof.
  induction args as [|a r IH]; intros k; simpl; [reflexivity|].
  destruct k; rewrite IH; reflexivity.
Qed.

Lemma pos_params_snoc_nodefault an args n :
  pos_params an (args ++ [n]) (length (args ++ [n]) - 0) [] =
  pos_params an args (length args - 0) [] ++ [mkP n PosOrKw None (an n)].
Proof. rewrite !pos_params_nodefaults, map_app. reflexivity. Qed.

Lemma pos_params_snoc_gen an args n v : forall k D, length args = k + length D ->
  pos_params an (args ++ [n]) k (D ++ [v]) =
  pos_params an args k D ++ [mkP n PosOrKw (Some v) (an n)].
Proof.
  induction args as [|a r IH]; intros k D H; simpl in *.
  - destruct k; [|lia]. destruct D; [reflexivity | simpl in H; lia].
  - destruct k as [|k].
    + destruct D as [|d ds]; simpl in *; [lia|]. f_equal. apply IH. simpl. lia.
    + simpl. f_equal. apply IH. lia.
Qed.

Lemma pos_params_snoc_default an args D n v : length D <= length args ->
  pos_params an (args ++ [n]) (length (args ++ [n]) - length (D ++ [v])) (D ++ [v]) =
  pos_params an args (length args - length D) D ++ [mkP n PosOrKw (Some v) (an n)].
Proof.
  intro H. rewrite !app_length. simpl.
  replace (length args + 1 - (length D + 1)) with (length args - length D) by lia.
  apply pos_params_snoc_gen. lia.
Qed.

(* ---- 3. list.remove --------------------------------------------------------- *)
Lemma filter_neq_notin n l : ~ In n l -> filter (fun x => negb (Nat.eqb n x)) l = l.
Proof.
  induction l as [|y r IH]; intro H; simpl; [reflexivity|].
  destruct (Nat.eqb n y) eqn:E.
  - apply Nat.eqb_eq in E. subst. exfalso. apply H. left. reflexivity.
  - simpl. f_equal. apply IH. intro Hin. apply H. right. exact Hin.
Qed.

Lemma list_remove_filter n l l' : NoDup l -> list_remove n l = Some l' ->
  In n l /\ l' = filter (fun x => negb (Nat.eqb n x)) l.
Proof.
  revert l'. induction l as [|y r IH]; intros l' ND H; simpl in *; [discriminate|].
  inversion ND as [|? ? Hy NDr]; subst.
  destruct (Nat.eqb n y) eqn:E; simpl.
  - apply Nat.eqb_eq in E. subst y. inversion H; subst. split; [left; reflexivity|].
    symmetry. apply filter_neq_notin. exact Hy.
  - destruct (list_remove n r) as [r'|] eqn:Er; [|discriminate].
    inversion H; subst. destruct (IH r' NDr eq_refl) as [Hin Hr'].
    split; [right; exact Hin | f_equal; exact Hr'].
Qed.

Lemma list_remove_none n l : list_remove n l = None <-> ~ In n l.
Proof.
  induction l as [|y r IH]; simpl.
  - split; [intros _ [] | reflexivity].
  - destruct (Nat.eqb n y) eqn:E.
    + apply Nat.eqb_eq in E. subst. split; [discriminate|]. intro H. exfalso. apply H. left. reflexivity.
    + apply Nat.eqb_neq in E. destruct (list_remove n r) as [r'|].
      * split; [discriminate|]. intro H. exfalso.
        destruct IH as [_ IH2].
        assert (X : @None (list nat) = None -> False).
        { intros _. assert (Some r' = None) as Y; [|discriminate Y].
          apply IH2. intro Hin. apply H. right. exact Hin. }
        apply X. reflexivity.
      * split; [|reflexivity]. intros _ [H|H]; [congruence|]. destruct IH as [IH1 _].
        apply IH1; [reflexivity | exact H].
Qed.

(* ---- 4. remove_arg ---------------------------------------------------------- *)
(* list facts *)
Lemma combine_app_l {A B} (l1 : list A) : forall (d : list B) l2,
  length l1 = length d -> combine (l1 ++ l2) d = combine l1 d.
Proof.
  induction l1 as [|x l1 IH]; intros [|y d] l2 H; simpl in *; try discriminate.
  - destruct l2; reflexivity.
  - f_equal. apply IH. lia.
Qed.

Lemma combine_app_eq {A B} (l1 : list A) : forall (d1 : list B) l2 d2,
  length l1 = length d1 -> combine (l1 ++ l2) (d1 ++ d2) = combine l1 d1 ++ combine l2 d2.
Proof.
  induction l1 as [|x l1 IH]; intros [|y d1] l2 d2 H; simpl in *; try discriminate.
  - reflexivity.
  - f_equal. apply IH. lia.
Qed.

Lemma combine_rev_eq {A B} (l : list A) : forall (d : list B),
  length l = length d -> combine (rev l) (rev d) = rev (combine l d).
Proof.
  induction l as [|x l IH]; intros [|y d] H; simpl in *; try discriminate.
  - reflexivity.
  - rewrite combine_app_eq by (rewrite !rev_length; lia).
    rewrite IH by lia. reflexivity.
Qed.

Lemma rev_combine_app {A B} (A0 A1 : list A) (D : list B) : length A1 = length D ->
  rev (combine (rev (A0 ++ A1)) (rev D)) = combine A1 D.
Proof.
  intro H. rewrite rev_app_distr.
  rewrite combine_app_l by (rewrite !rev_length; exact H).
  rewrite combine_rev_eq by exact H. apply rev_involutive.
Qed.

Lemma rev_combine_skipn {A B} (args : list A) (D : list B) : length D <= length args ->
  rev (combine (rev args) (rev D)) = combine (skipn (length args - length D) args) D.
Proof.
  intro H.
  pose proof (rev_combine_app (firstn (length args - length D) args)
                              (skipn (length args - length D) args) D) as X.
  rewrite firstn_skipn in X. apply X. rewrite skipn_length. lia.
Qed.

Lemma NoDup_app_disjoint {A} (l1 l2 : list A) a :
  NoDup (l1 ++ l2) -> In a l1 -> ~ In a l2.
Proof.
  induction l1 as [|x l1 IH]; simpl; intros ND H; [contradiction|].
  inversion ND as [|? ? Hx ND']; subst. destruct H as [->|H].
  - intro Hin. apply Hx. apply in_or_app. right. exact Hin.
  - apply IH; assumption.
Qed.

Lemma NoDup_app_r {A} (l1 l2 : list A) : NoDup (l1 ++ l2) -> NoDup l2.
Proof.
  induction l1 as [|x l1 IH]; simpl; intro ND; [exact ND|].
  inversion ND; subst. apply IH. assumption.
Qed.

Lemma in_fst_combine {A B} (l : list A) (d : list B) a :
  In a (map fst (combine l d)) -> In a l.
Proof.
  intro H. apply in_map_iff in H as [[x y] [E Hin]]. simpl in E. subst x.
  apply in_combine_l in Hin. exact Hin.
Qed.

Lemma NoDup_fst_combine {A B} (l : list A) : forall (d : list B),
  NoDup l -> NoDup (map fst (combine l d)).
Proof.
  induction l as [|x l IH]; intros d ND; simpl; [constructor|].
  destruct d as [|y d]; simpl; [constructor|].
  inversion ND; subst. constructor; [|apply IH; assumption].
  intro Hin. apply in_fst_combine in Hin. contradiction.
Qed.

Lemma map_fst_filter {A B} (f : A -> bool) (l : list (A * B)) :
  map fst (filter (fun ao => f (fst ao)) l) = filter f (map fst l).
Proof.
  induction l as [|[a o] r IH]; simpl; [reflexivity|].
  destruct (f a); simpl; rewrite IH; reflexivity.
Qed.

(* facts about the view *)
Lemma filter_pp_of an n l :
  filter (fun p => negb (Nat.eqb n (p_name p))) (pp_of an l) =
  pp_of an (filter (fun ao => negb (Nat.eqb n (fst ao))) l).
Proof.
  induction l as [|[a o] r IH]; simpl; [reflexivity|].
  destruct (Nat.eqb n a); simpl; rewrite IH; reflexivity.
Qed.

Lemma defs_length l : length (defs l) <= length l.
Proof.
  induction l as [|[a [v|]] r IH]; simpl; lia.
Qed.

Lemma defs_lookup (g : name -> option value) l :
  (forall a o, In (a, o) l -> g a = o) ->
  flat_map (fun a => olist (g a)) (map fst l) = defs l.
Proof.
  induction l as [|[a o] r IH]; intro H; simpl; [reflexivity|].
  rewrite (H a o) by (left; reflexivity). f_equal.
  apply IH. intros a' o' Hin. apply H. right. exact Hin.
Qed.

Lemma all_some_shape l : forallb is_some l = true -> shape l.
Proof.
  induction l as [|[a [v|]] r IH]; simpl; intro H; [exact I | | discriminate].
  exact H.
Qed.

Lemma all_some_filter f l : forallb is_some l = true -> forallb is_some (filter f l) = true.
Proof.
  induction l as [|ao r IH]; simpl; intro H; [reflexivity|].
  apply andb_true_iff in H as [H1 H2].
  destruct (f ao); simpl; [rewrite H1|]; apply IH; exact H2.
Qed.

Lemma shape_filter f l : shape l -> shape (filter f l).
Proof.
  induction l as [|[a [v|]] r IH]; simpl; intro H; [exact I | |].
  - destruct (f (a, Some v)); simpl.
    + apply all_some_filter. exact H.
    + apply all_some_shape. apply all_some_filter. exact H.
  - destruct (f (a, None)); simpl; apply IH; exact H.
Qed.

Lemma attach_all_some args : forall D, length args <= length D ->
  forallb is_some (attach args 0 D) = true.
Proof.
  induction args as [|a r IH]; intros D H; simpl in *; [reflexivity|].
  destruct D as [|d ds]; simpl in *; [lia|]. apply IH. lia.
Qed.

Lemma attach_shape args : forall k D, length args <= k + length D -> shape (attach args k D).
Proof.
  induction args as [|a r IH]; intros k D H; simpl in *; [exact I|].
  destruct k as [|k].
  - destruct D as [|d ds]; simpl in *; [lia|]. apply attach_all_some. lia.
  - simpl. apply IH. lia.
Qed.

Lemma attach_in args a o : forall k D, length args <= k + length D ->
  In (a, o) (attach args k D) ->
  (o = None /\ In a (firstn k args)) \/
  (exists v, o = Some v /\ In (a, v) (combine (skipn k args) D)).
Proof.
  induction args as [|a0 r IH]; intros k D H Hin; simpl in *; [contradiction|].
  destruct k as [|k].
  - destruct D as [|d ds]; simpl in *; [lia|]. destruct Hin as [E|Hin].
    + inversion E; subst. right. exists d. split; [reflexivity | left; reflexivity].
    + apply IH in Hin; [|simpl; lia]. destruct Hin as [[_ []] | [v [-> Hc]]].
      right. exists v. split; [reflexivity | right; exact Hc].
  - simpl in Hin. destruct Hin as [E|Hin].
    + inversion E; subst. left. split; [reflexivity | left; reflexivity].
    + apply IH in Hin; [|lia]. destruct Hin as [[-> Hf] | [v [-> Hc]]].
      * left. split; [reflexivity | right; exact Hf].
      * right. exists v. split; [reflexivity | exact Hc].
Qed.

(* the dict built by get_defaults_dict maps each name to its attached default *)
Lemma lookup_attach args D a o : NoDup args -> length D <= length args ->
  In (a, o) (attach args (length args - length D) D) ->
  d_get (d_update [] (combine (skipn (length args - length D) args) D)) a = o.
Proof.
  intros ND HL Hin. set (k := length args - length D) in *.
  assert (ND' : NoDup (firstn k args ++ skipn k args)) by (rewrite firstn_skipn; exact ND).
  apply attach_in in Hin; [|unfold k; lia].
  destruct Hin as [[-> Hf] | [v [-> Hc]]].
  - rewrite d_get_d_update_notin; [reflexivity|].
    intro Hin. apply in_fst_combine in Hin.
    exact (NoDup_app_disjoint _ _ _ ND' Hf Hin).
  - apply d_get_d_update_in; [|exact Hc].
    apply NoDup_fst_combine. exact (NoDup_app_r _ _ ND').
Qed.

(* re-attaching the Some values from the end reproduces a shaped list *)
Lemma reattach_all_some l : forallb is_some l = true -> attach (map fst l) 0 (defs l) = l.
Proof.
  induction l as [|[a [v|]] r IH]; simpl; intro H; [reflexivity | | discriminate].
  f_equal. apply IH. exact H.
Qed.

Lemma all_some_defs_length l : forallb is_some l = true -> length (defs l) = length l.
Proof.
  induction l as [|[a [v|]] r IH]; simpl; intro H; [reflexivity | | discriminate].
  f_equal. apply IH. exact H.
Qed.

Lemma reattach l : shape l ->
  attach (map fst l) (length l - length (defs l)) (defs l) = l.
Proof.
  induction l as [|[a [v|]] r IH]; intro H; [reflexivity | |].
  - simpl in H.
    change (attach (a :: map fst r) (S (length r) - S (length (defs r))) (v :: defs r)
            = (a, Some v) :: r).
    rewrite (all_some_defs_length r H). rewrite Nat.sub_diag. simpl.
    f_equal. apply reattach_all_some. exact H.
  - simpl in H. pose proof (defs_length r) as HL.
    change (attach (a :: map fst r) (S (length r) - length (defs r)) (defs r)
            = (a, None) :: r).
    replace (S (length r) - length (defs r)) with (S (length r - length (defs r))) by lia.
    simpl. f_equal. apply IH. exact H.
Qed.

Lemma pos_params_remove :
  forall (an an' : name -> option ann) (args : list name) (D : list value)
         (kwd : pydict value) (n : name) (args' : list name),
  NoDup args -> length D <= length args ->
  (forall a, In a args -> ~ In a (map fst kwd)) ->
  list_remove n args = Some args' ->
  (forall a, In a args' -> an' a = an a) ->
  let dd := d_del (d_update (d_update [] (rev (combine (rev args) (rev D)))) kwd) n in
  let D' := flat_map (fun a => olist (d_get dd a)) args' in
  length D' <= length args' /\
  pos_params an' args' (length args' - length D') D' =
  filter (fun p => negb (Nat.eqb n (p_name p))) (pos_params an args (length args - length D) D).
Proof.
  intros an an' args D kwd n args' ND HL Hkw Hrm Han dd D'.
  destruct (list_remove_filter n args args' ND Hrm) as [Hn Eargs'].
  remember (attach args (length args - length D) D) as l eqn:El.
  remember (filter (fun ao => negb (Nat.eqb n (fst ao))) l) as l' eqn:El'.
  assert (Hnames : map fst l' = args').
  { rewrite El', (map_fst_filter (fun x => negb (Nat.eqb n x))), El, attach_names.
    symmetry. exact Eargs'. }
  assert (HD' : D' = defs l').
  { unfold D'. rewrite <- Hnames. apply defs_lookup. intros a o Hin.
    rewrite El' in Hin. apply filter_In in Hin as [Hin Hneq]. simpl in Hneq.
    assert (Han_ : a <> n).
    { intro E. subst a. rewrite Nat.eqb_refl in Hneq. discriminate. }
    assert (Hargs : In a args).
    { rewrite <- (attach_names args (length args - length D) D), <- El.
      apply in_map_iff. exists (a, o). split; [reflexivity | exact Hin]. }
    unfold dd. rewrite d_get_d_del_other by exact Han_.
    rewrite d_get_d_update_notin by (apply Hkw; exact Hargs).
    rewrite rev_combine_skipn by exact HL.
    apply lookup_attach; [exact ND | exact HL |]. rewrite <- El. exact Hin. }
  assert (Hsh : shape l').
  { rewrite El'. apply shape_filter. rewrite El. apply attach_shape. lia. }
  rewrite HD'. split.
  - rewrite <- Hnames, map_length. apply defs_length.
  - rewrite (pos_params_ext an an' args' _ _ Han).
    rewrite !pos_params_attach, filter_pp_of, <- El, <- El'.
    f_equal. rewrite <- Hnames, map_length. apply reattach. exact Hsh.
Qed.
