(* Capstone for "file:///a/b"-style bases: the model's whole observation
   satisfies c07_holds. *)
From Boltons Require Import Lib.Prelude Lib.C07_Str Spec.C07_Spec Gen.C07_Gen Model.C07_Model
     Check.C07_Check Proofs.C07_StrLemmas Proofs.C07_Rds Proofs.C07_Resolve Proofs.C07_Parse
     Proofs.C07_Navigate Proofs.C07_Text Proofs.C07_Query Proofs.C07_Refine Proofs.C07_Case Proofs.C07_CaseRefine
     Proofs.C07_EmptyAuth.
Open Scope N_scope.

Lemma seg_loop_nonempty segs : forall stack, segs <> [] -> seg_loop segs stack <> [].
Proof.
  induction segs as [|s rest IH]; intros stack H; [contradiction|].
  cbn [seg_loop]. destruct rest as [|s' rest'].
  - destruct (is_dot s); [destruct stack; discriminate|].
    destruct (is_dotdot s); [destruct (removelast stack); discriminate|].
    cbn [seg_loop]. destruct stack; discriminate.
  - destruct (is_dot s); [apply IH; discriminate|].
    destruct (is_dotdot s); apply IH; discriminate.
Qed.

Lemma nav_segs_nonempty s rest rp : nav_segs (s :: rest) rp <> [].
Proof.
  unfold nav_segs. destruct rp as [|x rr]; [discriminate|]. destruct x as [|c x'].
  - destruct rr; discriminate.
  - destruct (removelast (s :: rest)); discriminate.
Qed.

Theorem navigate_rel_ea_base b r : wf_base_ea b -> wf_ref r -> wf_base_ea (navigate_rel b r).
Proof.
  intros W Wr. split; [apply navigate_rel_ea_wf; assumption|].
  destruct W as [Wb (s & rest & Hp)].
  rewrite (navigate_rel_ea b r s rest (conj Wb (ex_intro _ s (ex_intro _ rest Hp))) Wr Hp). cbn [u_path].
  rewrite resolve_rooted.
  pose proof (seg_loop_nonempty (nav_segs (s :: rest) (u_path r)) [] (nav_segs_nonempty s rest (u_path r))) as H.
  destruct (seg_loop (nav_segs (s :: rest) (u_path r)) []) as [|s1 r1]; [contradiction|].
  exists s1, r1. reflexivity.
Qed.

(* with a non-empty path, canon changes nothing *)
Lemma ea_canon n : wf_base_ea n -> canon (to_text n) = to_text n.
Proof.
  intros [W (s & rest & Hp)]. destruct (ea_facts n W) as (segs & Hp' & _ & Hpt & T & U).
  rewrite T, (canon_recompose _ U). f_equal. unfold root_if_empty, uri_ea. cbn [authority path].
  rewrite Hpt. rewrite Hp in Hp'. inversion Hp'; subst. reflexivity.
Qed.

Lemma ea_target b r : wf_base_ea b -> wf_ref r ->
  target (to_text b) (to_text r) = Some (to_text (navigate_rel b r)).
Proof.
  intros W Wr. pose proof (navigate_empty_authority b r W Wr) as S. unfold spec_navigate_strict in S.
  destruct (target (to_text b) (to_text r)) as [t|]; [|discriminate].
  apply str_eqb_eq in S. rewrite (ea_canon _ (navigate_rel_ea_base b r W Wr)) in S. congruence.
Qed.

Lemma ea_base_in_domain b : wf_base_ea b -> base_in_domain (to_text b) = true.
Proof.
  intros [W (s & rest & Hp)]. destruct (ea_facts b W) as (segs & Hp' & _ & Hpt & T & U).
  unfold base_in_domain. rewrite T, (parse_recompose _ U). unfold uri_ea. cbn [scheme authority path].
  rewrite Hpt. rewrite Hp in Hp'. inversion Hp'; subst.
  pose proof (ea_scheme_ne b W) as Hs. destruct (u_scheme b); [contradiction|]. reflexivity.
Qed.

Lemma ea_spec_clean n : ea_url n -> Forall clean (u_path n) -> spec_clean (to_text n) = true.
Proof.
  intros W Hc. destruct (ea_facts n W) as (segs & Hp & Hs & Hpt & T & U). unfold spec_clean.
  rewrite T, (parse_recompose _ U). unfold uri_ea. cbn [path]. rewrite Hpt.
  destruct segs as [|s rest]; [reflexivity|].
  rewrite split_abs_path by (eapply Forall_impl; [|exact Hs]; apply seg_ok_noslash).
  rewrite abs_path_cons. change (SL =? SL) with true. cbn [andb]. apply negb_true_iff.
  rewrite Hp in Hc. clear -Hc. apply not_true_is_false. intro E.
  apply existsb_exists in E as (x & Hx & Ex). rewrite Forall_forall in Hc. rewrite (Hc x Hx) in Ex. discriminate.
Qed.

Lemma ea_normalize b : ea_url b -> ea_url (normalize b).
Proof.
  intro W. destruct (ea_rooted b W) as [segs Hp].
  constructor; unfold normalize; cbn [u_scheme u_user u_pass u_host u_path u_query u_frag];
    rewrite ?(ea_scheme_lower b W), ?(ea_host b W).
  - exact (ea_scheme_ne b W).
  - exact (ea_scheme_chars b W).
  - reflexivity.
  - exact (ea_netloc b W).
  - exact (ea_user b W).
  - exact (ea_pass b W).
  - reflexivity.
  - rewrite Hp. apply resolve_stays_rooted.
  - apply resolve_incl; [exact seg_ok_nil | exact (ea_segs b W)].
  - exact (ea_query b W).
  - exact (ea_frag b W).
Qed.

Lemma ea_normalize_spec b : wf_base_ea b ->
  spec_normalized (to_text b) (to_text (normalize b)) (to_text (normalize (normalize b))) = true.
Proof.
  intros [W _]. unfold spec_normalized. rewrite normalize_idem, str_eqb_refl. cbn [andb].
  destruct (ea_facts b W) as (segs & Hp & Hs & Hpt & T & U).
  pose proof (ea_normalize b W) as Wz. destruct (ea_facts _ Wz) as (zsegs & Hzp & _ & Hzpt & Tz & Uz).
  rewrite T, (parse_recompose _ U). unfold uri_ea at 1 2 3 4 5. cbn [scheme authority path query fragment].
  rewrite Hpt, (rds_abs_path segs Hs), Tz, (canon_recompose _ Uz).
  unfold uri_ea. rewrite Hzpt. unfold normalize in *. cbn [u_scheme u_path u_query u_frag] in *.
  rewrite Hp in Hzp. rewrite <- join_rooted, <- Hzp, (ea_scheme_lower b W).
  rewrite norm_case_root. unfold norm_case. cbn [scheme authority path query fragment option_map].
  rewrite (ea_scheme_lower b W). change (lower_host []) with (@nil N). apply str_eqb_refl.
Qed.

Lemma navigate_rel_ea_clean b r : wf_base_ea b -> wf_ref r -> Forall clean (u_path (navigate_rel b r)).
Proof.
  intros W Wr. destruct W as [Wb (s & rest & Hp)].
  rewrite (navigate_rel_ea b r s rest (conj Wb (ex_intro _ s (ex_intro _ rest Hp))) Wr Hp). cbn [u_path].
  apply resolve_clean.
Qed.

Lemma ea_query b r : wf_base_ea b -> wf_ref r ->
  spec_query (to_text b) (to_text r) (to_text (navigate_rel b r)) = true.
Proof.
  intros W Wr. pose proof (navigate_rel_ea_wf b r W Wr) as Wn.
  destruct (ea_facts b (proj1 W)) as (_ & _ & _ & _ & Tb & Ub).
  destruct (ea_facts _ Wn) as (_ & _ & _ & _ & Tn & Un).
  destruct (ref_facts r Wr) as (_ & Tr & Ur).
  apply (spec_query_of _ _ _ (uri_ea (navigate_rel b r))).
  - rewrite Tb, Tr, (parse_recompose _ Ub), (parse_recompose _ Ur). apply ea_transform; assumption.
  - rewrite Tn, (parse_recompose _ Un). reflexivity.
Qed.

(* second step and everything after it, from a first result n1 that is either kind of base *)
Lemma second_step t1 n1 d2 :
  (wf_base_ea n1 /\ t1 = to_text n1) \/ (wf_base n1 /\ t1 = canon (to_text n1)) ->
  wf_ref d2 \/ wf_base d2 ->
  spec_navigate t1 (to_text d2) (to_text (navigate_url n1 d2)) = true /\
  spec_clean (to_text (navigate_url n1 d2)) = true /\
  spec_query t1 (to_text d2) (to_text (navigate_url n1 d2)) = true.
Proof.
  intros [[Wn ->]|[Wn ->]] W2.
  - destruct W2 as [Wd|Wd]; unfold navigate_url.
    + rewrite (wf_ref_relative d2 Wd). split; [|split].
      * apply strict_implies, navigate_empty_authority; assumption.
      * apply ea_spec_clean; [apply navigate_rel_ea_wf; assumption | apply navigate_rel_ea_clean; assumption].
      * apply ea_query; assumption.
    + rewrite (wf_base_absolute d2 Wd). split; [|split].
      * apply strict_implies. unfold spec_navigate_strict. rewrite (abs_dest_any_base _ d2 Wd). apply str_eqb_refl.
      * apply (spec_clean_wf _ (normalize_wf d2 Wd)). unfold normalize. cbn [u_path]. apply resolve_clean.
      * apply abs_dest_query, Wd.
  - split; [|split].
    + rewrite <- (rootify_text _ Wn). unfold spec_navigate.
      rewrite (navigate_url_target _ d2 (rootify_wf _ Wn) W2), (navigate_url_rootify _ d2 Wn W2). apply str_eqb_refl.
    + apply (spec_clean_wf _ (navigate_url_wf n1 d2 Wn W2) (navigate_url_clean n1 d2 Wn W2)).
    + rewrite <- (rootify_text _ Wn). apply query_second_step; assumption.
Qed.

Theorem ea_observation_satisfies_spec b d1 d2 unrooted f1 f2 bt :
  wf_base_ea b -> wf_ref d1 \/ wf_base d1 -> wf_ref d2 \/ wf_base d2 ->
  c07_holds (mkCase bt unrooted (to_text d1) f1 (to_text d2) f2 (record_obs b d1 d2)) = true.
Proof.
  intros W W1 W2.
  unfold c07_holds, record_obs. cbv zeta.
  cbn [c_obs c_ref1 c_ref2 o_before o_nav1 o_nav1_again o_after o_nav2 o_nb1 o_nb2 o_nr1 o_nr2 o_ref1 o_ref2].
  rewrite (ea_base_in_domain b W), (ref_in_domain_wf d1 W1), (ref_in_domain_wf d2 W2).
  rewrite (ea_normalize_spec b W), normalize_idem, !str_eqb_refl.
  destruct W1 as [Wd1|Wd1].
  - assert (E1 : navigate_url b d1 = navigate_rel b d1) by (unfold navigate_url; rewrite (wf_ref_relative d1 Wd1); reflexivity).
    rewrite !E1.
    pose proof (navigate_rel_ea_base b d1 W Wd1) as Wn1.
    rewrite (strict_implies _ _ _ (navigate_empty_authority b d1 W Wd1)), (ea_query b d1 W Wd1).
    rewrite (ea_spec_clean _ (proj1 Wn1) (navigate_rel_ea_clean b d1 W Wd1)).
    unfold spec_chain, spec_query_chain. rewrite (ea_target b d1 W Wd1).
    destruct (second_step _ _ d2 (or_introl (conj Wn1 eq_refl)) W2) as (S2 & C2 & Q2).
    rewrite S2, C2, Q2. reflexivity.
  - assert (E1 : navigate_url b d1 = normalize d1) by (unfold navigate_url; rewrite (wf_base_absolute d1 Wd1); reflexivity).
    rewrite !E1.
    pose proof (normalize_wf d1 Wd1) as Wn1.
    assert (N1 : spec_navigate (to_text b) (to_text d1) (to_text (normalize d1)) = true).
    { apply strict_implies. unfold spec_navigate_strict. rewrite (abs_dest_any_base _ d1 Wd1). apply str_eqb_refl. }
    rewrite N1, (abs_dest_query (to_text b) d1 Wd1).
    assert (C1 : spec_clean (to_text (normalize d1)) = true).
    { apply (spec_clean_wf _ Wn1). unfold normalize. cbn [u_path]. apply resolve_clean. }
    rewrite C1. unfold spec_chain, spec_query_chain. rewrite (abs_dest_any_base _ d1 Wd1).
    destruct (second_step _ _ d2 (or_intror (conj Wn1 eq_refl)) W2) as (S2 & C2 & Q2).
    rewrite S2, C2, Q2. reflexivity.
Qed.
