(* Bases with an EMPTY authority under a scheme that has one ("file:///a/b"):
   the refinement theorem for them.  The path must be non-empty (RFC 5.2.3
   merges an empty base path under an authority as "/" + reference; without a
   host navigate has nothing to tell it that there is an authority). *)
From Boltons Require Import Lib.Prelude Lib.C07_Str Spec.C07_Spec Gen.C07_Gen Model.C07_Model
     Proofs.C07_StrLemmas Proofs.C07_Rds Proofs.C07_Resolve Proofs.C07_Parse Proofs.C07_Navigate.
Open Scope N_scope.

(* ---- the RFC transformation on rendered segment lists (no URL objects involved) ------------- *)
Lemma transform_parts s a segs qb fb rp qr fr :
  Forall seg_ok segs -> Forall seg_ok rp ->
  transform (mkUri (Some s) (Some a) (abs_path segs) qb fb) (mkUri None None (join [SL] rp) qr fr) =
  Some (mkUri (Some s) (Some a) (join [SL] (resolve_path_parts ([] :: nav_segs segs rp)))
              (match rp with
               | [] | [] :: [] => match qr with Some q => Some q | None => qb end
               | _ => qr end) fr).
Proof.
  intros Hsegs Hrs. unfold transform, transform_gen. cbn [scheme authority path query fragment].
  unfold nav_segs. destruct rp as [|x rest].
  - cbn [join]. rewrite (rds_abs_path segs Hsegs). reflexivity.
  - destruct x as [|c x'].
    + destruct rest as [|s' rest'].
      * cbn [join map concat app]. rewrite (rds_abs_path segs Hsegs). reflexivity.
      * change (join [SL] ([] :: s' :: rest')) with (abs_path (s' :: rest')).
        rewrite abs_path_cons at 1. change (SL =? SL) with true. cbn iota.
        inversion Hrs as [|? ? _ Hrs']; subst.
        rewrite (rds_abs_path (s' :: rest') Hrs'). reflexivity.
    + inversion Hrs as [|? ? Hx Hrest]; subst.
      change (join [SL] ((c :: x') :: rest)) with (c :: x' ++ abs_path rest).
      cbv iota beta. rewrite N.eqb_sym, (seg_ok_first_not_slash c x' Hx).
      assert (Hm : merge {| scheme := Some s; authority := Some a; path := abs_path segs; query := qb;
                            fragment := fb |} (c :: x' ++ abs_path rest)
                   = abs_path (removelast segs ++ (c :: x') :: rest)).
      { unfold merge. cbn [authority path]. destruct segs as [|s1 segs'].
        - reflexivity.
        - rewrite abs_path_cons at 1. rewrite <- abs_path_cons.
          rewrite up_to_last_slash_abs; [|discriminate|].
          + rewrite abs_path_app, <- app_assoc. reflexivity.
          + eapply Forall_impl; [|exact Hsegs]. apply seg_ok_noslash. }
      rewrite Hm, rds_abs_path; [reflexivity|].
      apply Forall_app. split; [apply Forall_removelast; exact Hsegs | exact Hrs].
Qed.

(* ---- URL objects with an empty authority under a netloc scheme ---------------------------- *)
Record ea_url (u : url) : Prop := {
  ea_scheme_ne : u_scheme u <> [];
  ea_scheme_chars : forallb (not_in [COLON; SL; QM; HASH]) (u_scheme u) = true;
  ea_scheme_lower : lower (u_scheme u) = u_scheme u;
  ea_netloc : in_port_map (u_scheme u) = true;            (* the scheme uses a network location *)
  ea_user : u_user u = [];
  ea_pass : u_pass u = [];
  ea_host : u_host u = [];
  ea_rooted : exists segs, u_path u = [] :: segs;
  ea_segs : Forall seg_ok (u_path u);
  ea_query : Forall kv_ok (u_query u);
  ea_frag : forallb frag_char (u_frag u) = true }.

(* a base of that kind: in addition the path is not empty *)
Definition wf_base_ea (b : url) : Prop := ea_url b /\ exists s rest, u_path b = [] :: s :: rest.

Definition uri_ea (u : url) : uri :=
  mkUri (Some (u_scheme u)) (Some []) (path_text u) (opt (query_text (u_query u))) (opt (u_frag u)).

Lemma ea_authority u : ea_url u -> authority_text u = [].
Proof. intro W. unfold authority_text. rewrite (ea_user u W), (ea_pass u W), (ea_host u W). reflexivity. Qed.

Lemma ea_facts u : ea_url u ->
  exists segs, u_path u = [] :: segs /\ Forall seg_ok segs /\ path_text u = abs_path segs /\
    to_text u = recompose (uri_ea u) /\ wf_uri (uri_ea u).
Proof.
  intro W. destruct (ea_rooted u W) as [segs Hp]. exists segs.
  pose proof (ea_segs u W) as Hsegs. rewrite Hp in Hsegs. inversion Hsegs as [|? ? _ Hs]; subst.
  assert (Hpt : path_text u = abs_path segs).
  { rewrite path_text_join by (rewrite Hp; exact Hsegs). rewrite Hp. apply join_rooted. }
  split; [exact Hp|]. split; [exact Hs|]. split; [exact Hpt|]. split.
  - unfold to_text, recompose, uri_ea. cbn [scheme authority path query fragment]. cbv zeta.
    rewrite (ea_authority u W), (nonempty_true _ (ea_scheme_ne u W)), (quote_frag_id _ (ea_frag u W)).
    unfold uses_netloc. rewrite (ea_netloc u W). cbn [nonempty andb]. rewrite !opt_render.
    rewrite Hpt. destruct (tail_ok_abs segs) as [E|[t E]]; rewrite E; [reflexivity|].
    change (starts_with [SL] (SL :: t)) with true. cbn [is_nil orb andb nonempty]. rewrite orb_true_r. reflexivity.
  - unfold uri_ea. rewrite Hpt. constructor; cbn [scheme authority path query fragment].
    + split; [exact (ea_scheme_ne u W) | exact (ea_scheme_chars u W)].
    + reflexivity.
    + apply abs_path_chars; [reflexivity|]. eapply Forall_impl; [|exact Hs]. apply seg_ok_path_chars.
    + destruct (tail_ok_abs segs) as [E|[t E]]; [left|right; exists t]; exact E.
    + exact I.
    + apply opt_query_wf, (ea_query u W).
Qed.

Lemma navigate_rel_ea b r s rest : wf_base_ea b -> wf_ref r -> u_path b = [] :: s :: rest ->
  navigate_rel b r =
  mkUrl (u_scheme b) false [] [] [] (u_port b)
        (resolve_path_parts ([] :: nav_segs (s :: rest) (u_path r))) (nav_query b r) (u_frag r).
Proof.
  intros [Wb _] Wr Hp. unfold navigate_rel.
  rewrite (path_text_join r (wr_segs r Wr)).
  rewrite (wr_scheme r Wr), (wr_user r Wr), (wr_pass r Wr), (wr_host r Wr), (wr_port r Wr).
  rewrite (ea_user b Wb), (ea_pass b Wb), (ea_host b Wb).
  cbn [or_str or_port nonempty orb andb].
  unfold nav_query, nav_segs. pose proof (wr_segs r Wr) as Hsegs.
  unfold normalize, from_parts. cbn [u_scheme u_host u_path u_sep u_user u_pass u_port u_query u_frag].
  rewrite (ea_scheme_lower b Wb), Hp.
  destruct (u_path r) as [|x rrest] eqn:Hr.
  - reflexivity.
  - destruct x as [|c x'].
    + destruct rrest as [|s' rest']; reflexivity.
    + inversion Hsegs as [|? ? Hx _]; subst.
      change (join [SL] ((c :: x') :: rrest)) with (c :: x' ++ abs_path rrest).
      unfold starts_with. cbn [strip_prefix nonempty]. rewrite (seg_ok_first_not_slash c x' Hx).
      reflexivity.
Qed.

Lemma navigate_rel_ea_wf b r : wf_base_ea b -> wf_ref r -> ea_url (navigate_rel b r).
Proof.
  intros W Wr. destruct W as [Wb (s & rest & Hp)].
  rewrite (navigate_rel_ea b r s rest (conj Wb (ex_intro _ s (ex_intro _ rest Hp))) Wr Hp).
  pose proof (ea_segs b Wb) as Hsegs. rewrite Hp in Hsegs. inversion Hsegs as [|? ? _ Hs]; subst.
  constructor; cbn [u_scheme u_user u_pass u_host u_path u_query u_frag]; try reflexivity.
  - exact (ea_scheme_ne b Wb).
  - exact (ea_scheme_chars b Wb).
  - exact (ea_scheme_lower b Wb).
  - exact (ea_netloc b Wb).
  - apply resolve_stays_rooted.
  - apply resolve_incl; [exact seg_ok_nil|]. constructor; [exact seg_ok_nil|].
    apply nav_segs_ok; [exact Hs | exact (wr_segs r Wr)].
  - apply nav_query_ok; [exact (ea_query b Wb) | exact (wr_query r Wr)].
  - exact (wr_frag r Wr).
Qed.

Lemma ea_transform b r : wf_base_ea b -> wf_ref r ->
  transform (uri_ea b) (uri_of r) = Some (uri_ea (navigate_rel b r)).
Proof.
  intros W Wr. pose proof (navigate_rel_ea_wf b r W Wr) as Wn.
  destruct W as [Wb (s & rest & Hp)].
  destruct (ea_facts b Wb) as (segs & Hp' & Hs & Hpt & Tb & Ub).
  rewrite Hp in Hp'. inversion Hp'; subst segs. clear Hp'.
  destruct (ea_facts _ Wn) as (nsegs & Hnp & _ & Hnpt & Tn & Un).
  destruct (ref_facts r Wr) as (Hur & Tr & Ur).
  unfold uri_ea at 1. rewrite Hpt, Hur, (transform_parts _ _ _ _ _ _ _ _ Hs (wr_segs r Wr)).
  f_equal. unfold uri_ea. rewrite Hnpt.
  rewrite (navigate_rel_ea b r s rest (conj Wb (ex_intro _ s (ex_intro _ rest Hp))) Wr Hp) in *.
  cbn [u_scheme u_path u_query u_frag] in *. rewrite <- join_rooted, <- Hnp.
  unfold nav_query. destruct (u_path r) as [|x rr].
  - rewrite (query_opt_or _ _ (wr_query r Wr)). reflexivity.
  - destruct x; [destruct rr; [rewrite (query_opt_or _ _ (wr_query r Wr))|]|]; reflexivity.
Qed.

Theorem navigate_empty_authority b r : wf_base_ea b -> wf_ref r ->
  spec_navigate_strict (to_text b) (to_text r) (to_text (navigate_rel b r)) = true.
Proof.
  intros W Wr. pose proof (navigate_rel_ea_wf b r W Wr) as Wn.
  destruct W as [Wb (s & rest & Hp)].
  destruct (ea_facts b Wb) as (segs & Hp' & Hs & Hpt & Tb & Ub).
  rewrite Hp in Hp'. inversion Hp'; subst segs. clear Hp'.
  destruct (ea_facts _ Wn) as (nsegs & Hnp & _ & Hnpt & Tn & Un).
  destruct (ref_facts r Wr) as (Hur & Tr & Ur).
  unfold spec_navigate_strict, target. rewrite Tb, Tr, Tn.
  rewrite (parse_recompose _ Ub), (parse_recompose _ Ur), (canon_recompose _ Un).
  unfold uri_ea at 1. rewrite Hpt, Hur, (transform_parts _ _ _ _ _ _ _ _ Hs (wr_segs r Wr)).
  assert (EN : uri_ea (navigate_rel b r) =
               mkUri (Some (u_scheme b)) (Some []) (join [SL] (resolve_path_parts ([] :: nav_segs (s :: rest) (u_path r))))
                     (match u_path r with
                      | [] | [] :: [] => match opt (query_text (u_query r)) with Some q => Some q | None => opt (query_text (u_query b)) end
                      | _ => opt (query_text (u_query r)) end) (opt (u_frag r))).
  { unfold uri_ea. rewrite Hnpt.
    rewrite (navigate_rel_ea b r s rest (conj Wb (ex_intro _ s (ex_intro _ rest Hp))) Wr Hp) in *.
    cbn [u_scheme u_path u_query u_frag] in *. rewrite <- join_rooted, <- Hnp.
    unfold nav_query. destruct (u_path r) as [|x rr].
    - rewrite (query_opt_or _ _ (wr_query r Wr)). reflexivity.
    - destruct x; [destruct rr; [rewrite (query_opt_or _ _ (wr_query r Wr))|]|]; reflexivity. }
  rewrite EN. apply str_eqb_refl.
Qed.

(* ---- an inhabitant ---------------------------------------------------------------------------------- *)
From Coq Require Import String.
From Boltons Require Import Proofs.C07_RfcExamples Proofs.C07_Text.
Open Scope list_scope.

Definition ex_file : url := or_dummy (url_of_text (codes "file:///a/b/../c?q#f")).

Lemma ex_file_ok : wf_base_ea ex_file /\ to_text ex_file = codes "file:///a/b/../c?q#f" /\
  to_text (navigate_rel ex_file ex_ref2) = codes "file:///z/" /\
  to_text (navigate_rel ex_file ex_ref1) = codes "file:///g//?y=2#s".
Proof.
  split; [|vm_compute; repeat split; reflexivity].
  split; [wf_concrete | vm_compute; repeat eexists].
Qed.
