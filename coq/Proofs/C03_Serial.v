(* C03: mutual exclusion implies serialisability -- proved once, generically in the
   shared state and its atomic actions (Lib/C03_Conc.v).

   Hypothesis on the code: every operation is ONE critical section of the
   re-entrant lock (shape [one_cs]): Acquire; then actions / nested balanced
   Acquire-Release pairs; the Release that brings the depth back to 0 is followed
   by nothing but the return.
   Conclusion: for EVERY schedule (any pre-emption between any two micro-steps),
   the machine state is explained by a serial execution -- in the order in which
   the critical sections were left -- of the operations completed so far. *)
From Boltons Require Import Lib.Prelude Lib.C03_Conc.

Section Serial.
  Variables (shared act ares : Type).
  Variable sem : act -> shared -> shared * ares.
  Variables (stats sact sres : Type).
  Variable ssem : sact -> stats -> stats * sres.
  Variables (OP RV : Type).
  Variable compile : OP -> @prog act ares sact sres RV.

  Notation prog := (@prog act ares sact sres).
  Notation thread := (@thread act ares sact sres OP RV).
  Notation mstate := (@mstate shared act ares stats sact sres OP RV).

  (* after the critical section: nothing but accesses to the statistics, then the return *)
  Inductive post {A} : prog A -> A -> Prop :=
  | post_ret a : post (Ret a) a
  | post_stat sp q a : post q a -> post (Stat sp q) a.

  (* inside a critical section at lock depth d >= 1 *)
  Inductive in_cs {A} : nat -> prog A -> Prop :=
  | cs_act d a k : (forall r, in_cs (S d) (k r)) -> in_cs (S d) (Act a k)
  | cs_acq d k : in_cs (S (S d)) k -> in_cs (S d) (Acq k)
  | cs_rel_in d k : in_cs (S d) k -> in_cs (S (S d)) (Rel k)
  | cs_stat d sp k : in_cs (S d) k -> in_cs (S d) (Stat sp k)
  | cs_rel_out q a : post q a -> in_cs 1 (Rel q).

  Definition one_cs {A} (p : prog A) : Prop := exists k, p = Acq k /\ in_cs 1 k.

  (* a body that is balanced w.r.t. the lock: e = extra depth above where it started *)
  Inductive bal {A} : nat -> prog A -> Prop :=
  | bal_ret a : bal 0 (Ret a)
  | bal_act e a k : (forall r, bal e (k r)) -> bal e (Act a k)
  | bal_acq e k : bal (S e) k -> bal e (Acq k)
  | bal_rel e k : bal e k -> bal (S e) (Rel k)
  | bal_stat e sp k : bal e k -> bal e (Stat sp k).

  Lemma bal_bind {A B} (f : A -> prog B) :
    (forall a, bal 0 (f a)) -> forall e (p : prog A), bal e p -> bal e (bind p f).
  Proof.
    intros Hf e p H. induction H; simpl.
    - apply Hf.
    - apply bal_act. intro r. apply H0.
    - apply bal_acq. exact IHbal.
    - apply bal_rel. exact IHbal.
    - apply bal_stat. exact IHbal.
  Qed.

  Lemma bal_with_lock {A} b (p : prog A) : bal 0 p -> bal 0 (with_lock b p).
  Proof.
    intro H. unfold with_lock. destruct b; [|exact H].
    apply bal_acq.
    assert (G : forall e (q : prog A), bal e q -> bal (S e) (bind q (fun r => Rel (Ret r)))).
    { intros e q Hq. induction Hq; simpl.
      - apply bal_rel. apply bal_ret.
      - apply bal_act. intro r. apply H1.
      - apply bal_acq. exact IHHq.
      - apply bal_rel. exact IHHq.
      - apply bal_stat. exact IHHq. }
    apply G. exact H.
  Qed.

  Lemma bal_in_cs {A B} (f : A -> prog B) d :
    (forall a, in_cs (S d) (f a)) ->
    forall e (p : prog A), bal e p -> in_cs (S d + e) (bind p f).
  Proof.
    intros Hf e p H. induction H; simpl.
    - rewrite Nat.add_0_r. apply Hf.
    - apply cs_act. intro r. apply H0.
    - apply cs_acq. replace (S (S (d + e))) with (S d + S e) by lia. exact IHbal.
    - replace (d + S e) with (S (d + e)) by lia. apply cs_rel_in. exact IHbal.
    - apply cs_stat. exact IHbal.
  Qed.

  Definition pure_tail {A B} (h : A -> prog B) : Prop := forall a, exists b, post (h a) b.

  Lemma post_bind {A B} (h : A -> prog B) : pure_tail h ->
    forall (q : prog A) a, post q a -> exists b, post (bind q h) b.
  Proof.
    intros Hh q a H. induction H; simpl.
    - apply Hh.
    - destruct IHpost as [b Hb]. exists b. apply post_stat. exact Hb.
  Qed.

  Lemma in_cs_bind_pure {A B} (h : A -> prog B) :
    pure_tail h -> forall d (p : prog A), in_cs d p -> in_cs d (bind p h).
  Proof.
    intros Hh d p H. induction H; simpl.
    - apply cs_act. intro r. apply H0.
    - apply cs_acq. exact IHin_cs.
    - apply cs_rel_in. exact IHin_cs.
    - apply cs_stat. exact IHin_cs.
    - destruct (post_bind h Hh q a H) as [b Hb]. eapply cs_rel_out. exact Hb.
  Qed.

  Lemma one_cs_bind_pure {A B} (h : A -> prog B) (p : prog A) :
    pure_tail h -> one_cs p -> one_cs (bind p h).
  Proof.
    intros Hh [k [E H]]. subst p. simpl. eexists. split; [reflexivity|].
    apply in_cs_bind_pure; assumption.
  Qed.

  (* `with self._lock: body` is one critical section *)
  Lemma one_cs_with_lock {A} (body : prog A) : bal 0 body -> one_cs (with_lock true body).
  Proof.
    intro H. unfold with_lock, one_cs. eexists. split; [reflexivity|].
    apply (bal_in_cs (fun r => Rel (Ret r)) 0) with (e := 0) in H.
    - exact H.
    - intro a. eapply cs_rel_out. apply post_ret.
  Qed.

  Lemma arun_post {A} (q : prog A) a sh : post q a -> arun sem q sh = (sh, a).
  Proof. intro H. induction H; simpl; auto. Qed.

  (* ---- the simulation ------------------------------------------------------------ *)
  Variable progs : nat -> list OP.
  Variable sh0 : shared.
  Hypothesis compile_one_cs : forall o, one_cs (compile o).

  Notation step := (step sem ssem compile true).
  Notation serial := (serial sem compile).
  Notation serial_step := (serial_step sem compile).

  (* a thread that does not hold the lock, against the serial state (todoS, doneS) *)
  Definition idle_ok (th : thread) (todoS : list OP) (doneS : list RV) : Prop :=
    match t_cur th with
    | None => t_todo th = todoS /\ t_done th = doneS
    | Some p =>
        (exists o, todoS = o :: t_todo th /\ t_done th = doneS /\ p = compile o)
        \/ (exists a, post p a /\ t_todo th = todoS /\ t_done th ++ [a] = doneS)
    end.

  Definition holder_ok (th : thread) (d : nat) (sh shS : shared) (todoS : list OP) (doneS : list RV) : Prop :=
    exists p o, t_cur th = Some p /\ in_cs d p /\ todoS = o :: t_todo th /\ t_done th = doneS
                /\ arun sem p sh = arun sem (compile o) shS.

  Definition inv_with (order : list nat) (s : mstate) : Prop :=
    let '(shS, todoS, doneS) := serial order sh0 progs in
    match m_lock s with
    | None => m_sh s = shS /\ forall t, idle_ok (m_thr s t) (todoS t) (doneS t)
    | Some (o, d) =>
        holder_ok (m_thr s o) d (m_sh s) shS (todoS o) (doneS o)
        /\ forall t, t <> o -> idle_ok (m_thr s t) (todoS t) (doneS t)
    end.

  Definition inv (s : mstate) : Prop := exists order, inv_with order s.

  Variable st0 : stats.

  Lemma inv_init : inv (init_state sh0 st0 progs).
  Proof.
    exists []. unfold inv_with, serial. simpl. split; [reflexivity|].
    intro t. unfold idle_ok. simpl. auto.
  Qed.

  Lemma serial_snoc order t :
    serial (order ++ [t]) sh0 progs = serial_step (serial order sh0 progs) t.
  Proof. unfold serial. rewrite fold_left_app. reflexivity. Qed.

  Lemma upd_same {X} (f : nat -> X) t x : upd f t x t = x.
  Proof. unfold upd. rewrite Nat.eqb_refl. reflexivity. Qed.

  Lemma upd_other {X} (f : nat -> X) t u x : u <> t -> upd f t x u = f u.
  Proof. intro H. unfold upd. destruct (Nat.eqb u t) eqn:E; [apply Nat.eqb_eq in E; contradiction|reflexivity]. Qed.

  Lemma not_cs_ret {A} d (a : A) : ~ in_cs d (Ret a).
  Proof. intro H. inversion H. Qed.

  Lemma compile_is_acq o : exists k, compile o = Acq k /\ in_cs 1 k.
  Proof. apply compile_one_cs. Qed.

  (* an idle thread's current program is never an action or a release *)
  Lemma idle_shape th todoS doneS p :
    idle_ok th todoS doneS -> t_cur th = Some p ->
    (exists o k, p = compile o /\ p = Acq k /\ in_cs 1 k /\ todoS = o :: t_todo th /\ t_done th = doneS)
    \/ (exists a, post p a /\ t_todo th = todoS /\ t_done th ++ [a] = doneS).
  Proof.
    unfold idle_ok. intros H E. rewrite E in H. destruct H as [[o [H1 [H2 H3]]]|H]; [left|right; exact H].
    destruct (compile_is_acq o) as [k [Ek Hk]].
    exists o, k. subst p. auto.
  Qed.

  Lemma post_not_acq {A} (k : prog A) a : ~ post (Acq k) a.
  Proof. intro H. inversion H. Qed.

  Theorem step_preserves_inv t s s' : inv s -> step t s = Some s' -> inv s'.
  Proof.
    intros [order I] St. unfold inv_with in I.
    destruct (serial order sh0 progs) as [[shS todoS] doneS] eqn:ES.
    unfold C03_Conc.step in St.
    destruct (m_lock s) as [[o d]|] eqn:EL.
    - (* lock held by o *)
      destruct I as [HO ID].
      destruct (Nat.eq_dec t o) as [->|Nto].
      + (* the holder moves *)
        destruct HO as [p [op [Ecur [Hcs [Etodo [Edone Erun]]]]]].
        rewrite Ecur in St.
        destruct p as [a|k|k|a k|sp k].
        * exfalso. eapply not_cs_ret; eauto.
        * (* nested acquire *)
          rewrite Nat.eqb_refl in St. simpl in St. inversion St; subst s'; clear St.
          exists order. unfold inv_with. rewrite ES. simpl. split.
          -- exists k, op. rewrite upd_same. simpl. inversion Hcs; subst. repeat split; auto.
          -- intros u Hu. rewrite upd_other by exact Hu. apply ID; exact Hu.
        * (* release *)
          rewrite Nat.eqb_refl in St. inversion St; subst s'; clear St.
          inversion Hcs; subst.
          -- (* still inside *)
             exists order. unfold inv_with. rewrite ES. simpl. split.
             ++ exists k, op. rewrite upd_same. simpl. repeat split; auto.
             ++ intros u Hu. rewrite upd_other by exact Hu. apply ID; exact Hu.
          -- (* the outermost release: the operation takes effect here *)
             exists (order ++ [o]). unfold inv_with. rewrite serial_snoc, ES.
             unfold C03_Conc.serial_step. rewrite Etodo.
             simpl in Erun. rewrite <- Erun.
             match goal with H : post _ _ |- _ => rewrite (arun_post _ _ _ H); pose proof H as Pk end.
             simpl. split; [reflexivity|].
             intro u. destruct (Nat.eq_dec u o) as [->|Hu].
             ++ rewrite !upd_same. unfold idle_ok. simpl. right. eexists. split; [exact Pk|]. split; [reflexivity|].
                rewrite Edone. reflexivity.
             ++ rewrite !upd_other by exact Hu. apply ID; exact Hu.
        * (* an action on the shared state *)
          destruct (sem a (m_sh s)) as [sh' r] eqn:Esem.
          inversion St; subst s'; clear St.
          exists order. unfold inv_with. rewrite ES. simpl. rewrite ?EL. split.
          -- exists (k r), op. rewrite upd_same. simpl. inversion Hcs; subst.
             repeat split; auto. rewrite <- Erun. simpl. rewrite Esem. reflexivity.
          -- intros u Hu. rewrite upd_other by exact Hu. apply ID; exact Hu.
        * (* an access to the statistics inside the critical section *)
          assert (Hk : in_cs d k) by (inversion Hcs; subst; assumption).
          destruct sp as [|sa f].
          -- inversion St; subst s'; clear St.
             exists order. unfold inv_with. rewrite ES. simpl. rewrite ?EL. split.
             ++ exists k, op. rewrite upd_same. simpl. repeat split; auto.
             ++ intros u Hu. rewrite upd_other by exact Hu. apply ID; exact Hu.
          -- destruct (ssem sa (m_st s)) as [st' r]. inversion St; subst s'; clear St.
             exists order. unfold inv_with. rewrite ES. simpl. rewrite ?EL. split.
             ++ exists (Stat (f r) k), op. rewrite upd_same. simpl. repeat split; auto.
                inversion Hcs; subst. apply cs_stat. assumption.
             ++ intros u Hu. rewrite upd_other by exact Hu. apply ID; exact Hu.
      + (* another thread moves while o holds the lock: it cannot touch the shared state *)
        specialize (ID t Nto) as IDt.
        destruct (t_cur (m_thr s t)) as [p|] eqn:Ecur.
        * destruct (idle_shape _ _ _ _ IDt Ecur) as [[op [k [E1 [E2 [Hk [E3 E4]]]]]]|[a [E1 [E2 E3]]]].
          -- (* waiting for the lock *)
             subst p. rewrite E2 in St.
             assert (Nat.eqb o t = false) as F by (apply Nat.eqb_neq; auto).
             rewrite F in St. simpl in St. discriminate.
          -- (* recording its result / finishing its statistics *)
             assert (KEEP : forall s1 p1, post p1 a ->
                       s1 = mkState (m_sh s) (m_st s1) (Some (o, d))
                                    (upd (m_thr s) t (mkThread (Some p1) (t_todo (m_thr s t)) (t_done (m_thr s t)))) ->
                       inv s1).
             { intros s1 p1 P1 ->. exists order. unfold inv_with. rewrite ES. simpl. split.
               - rewrite upd_other by auto. exact HO.
               - intros u Hu. destruct (Nat.eq_dec u t) as [->|Hut].
                 + rewrite upd_same. unfold idle_ok. simpl. right. exists a. auto.
                 + rewrite upd_other by exact Hut. apply ID; exact Hu. }
             destruct E1 as [a|sp q a Pq].
             ++ inversion St; subst s'; clear St.
                exists order. unfold inv_with. rewrite ES. simpl. rewrite ?EL. split.
                ** rewrite upd_other by auto. exact HO.
                ** intros u Hu. destruct (Nat.eq_dec u t) as [->|Hut].
                   --- rewrite upd_same. unfold idle_ok. simpl. auto.
                   --- rewrite upd_other by exact Hut. apply ID; exact Hu.
             ++ destruct sp as [|sa f].
                ** inversion St; subst s'; clear St. unfold set_thr. rewrite EL.
                   eapply (KEEP _ q Pq). simpl. reflexivity.
                ** destruct (ssem sa (m_st s)) as [st' r]. inversion St; subst s'; clear St. rewrite ?EL.
                   eapply (KEEP _ (Stat (f r) q) (post_stat _ _ _ Pq)). simpl. reflexivity.
        * unfold idle_ok in IDt. rewrite Ecur in IDt. destruct IDt as [E1 E2].
          destruct (t_todo (m_thr s t)) as [|op rest] eqn:Etd; [discriminate|].
          inversion St; subst s'; clear St.
          exists order. unfold inv_with. rewrite ES. simpl. rewrite ?EL. split.
          -- rewrite upd_other by auto. exact HO.
          -- intros u Hu. destruct (Nat.eq_dec u t) as [->|Hut].
             ++ rewrite upd_same. unfold idle_ok. simpl. left. exists op. auto.
             ++ rewrite upd_other by exact Hut. apply ID; exact Hu.
    - (* lock free *)
      destruct I as [Esh ID].
      specialize (ID t) as IDt.
      destruct (t_cur (m_thr s t)) as [p|] eqn:Ecur.
      + destruct (idle_shape _ _ _ _ IDt Ecur) as [[op [k [E1 [E2 [Hk [E3 E4]]]]]]|[a [E1 [E2 E3]]]].
        * (* acquires the free lock: from now on its steps are the only ones on the shared state *)
          subst p. rewrite E2 in St. inversion St; subst s'; clear St.
          exists order. unfold inv_with. rewrite ES. simpl. split.
          -- exists k, op. rewrite upd_same. simpl. repeat split; auto.
             rewrite E2. simpl. rewrite Esh. reflexivity.
          -- intros u Hu. rewrite upd_other by exact Hu. apply ID.
        * assert (KEEP : forall s1 p1, post p1 a ->
                       s1 = mkState (m_sh s) (m_st s1) None
                                    (upd (m_thr s) t (mkThread (Some p1) (t_todo (m_thr s t)) (t_done (m_thr s t)))) ->
                       inv s1).
          { intros s1 p1 P1 ->. exists order. unfold inv_with. rewrite ES. simpl. split; [exact Esh|].
            intro u. destruct (Nat.eq_dec u t) as [->|Hut].
            - rewrite upd_same. unfold idle_ok. simpl. right. exists a. auto.
            - rewrite upd_other by exact Hut. apply ID. }
          destruct E1 as [a|sp q a Pq].
          -- inversion St; subst s'; clear St.
             exists order. unfold inv_with. rewrite ES. simpl. rewrite ?EL. split; [exact Esh|].
             intro u. destruct (Nat.eq_dec u t) as [->|Hut].
             ++ rewrite upd_same. unfold idle_ok. simpl. auto.
             ++ rewrite upd_other by exact Hut. apply ID.
          -- destruct sp as [|sa f].
             ++ inversion St; subst s'; clear St. unfold set_thr. rewrite EL.
                eapply (KEEP _ q Pq). simpl. reflexivity.
             ++ destruct (ssem sa (m_st s)) as [st' r]. inversion St; subst s'; clear St. rewrite ?EL.
                eapply (KEEP _ (Stat (f r) q) (post_stat _ _ _ Pq)). simpl. reflexivity.
      + unfold idle_ok in IDt. rewrite Ecur in IDt. destruct IDt as [E1 E2].
        destruct (t_todo (m_thr s t)) as [|op rest] eqn:Etd; [discriminate|].
        inversion St; subst s'; clear St.
        exists order. unfold inv_with. rewrite ES. simpl. rewrite ?EL. split; [exact Esh|].
        intro u. destruct (Nat.eq_dec u t) as [->|Hut].
        * rewrite upd_same. unfold idle_ok. simpl. left. exists op. auto.
        * rewrite upd_other by exact Hut. apply ID.
  Qed.

  Lemma run_preserves_inv sched : forall s, inv s -> inv (run sem ssem compile true sched s).
  Proof.
    induction sched as [|t r IH]; intros s I; simpl; [exact I|].
    apply IH. unfold step_or_skip. destruct (step t s) eqn:E; [|exact I].
    eapply step_preserves_inv; eauto.
  Qed.

  (* MAIN: whatever the schedule, if all threads have finished then the shared state and
     every thread's results are those of a serial execution in which each thread's
     operations ran atomically and in program order, and nothing is left to do. *)
  Theorem serialisable :
    forall sched, let s := run sem ssem compile true sched (init_state sh0 st0 progs) in
    finished s ->
    exists order,
      let '(shS, todoS, doneS) := serial order sh0 progs in
      m_sh s = shS /\ (forall t, t_done (m_thr s t) = doneS t) /\ (forall t, todoS t = []).
  Proof.
    intros sched s F.
    destruct (run_preserves_inv sched _ inv_init) as [order I].
    fold s in I. exists order. unfold inv_with in I.
    destruct (serial order sh0 progs) as [[shS todoS] doneS].
    destruct (m_lock s) as [[o d]|].
    - destruct I as [[p [op [Ecur _]]] _]. destruct (F o) as [Fc _]. congruence.
    - destruct I as [Esh ID]. split; [exact Esh|].
      split; intro t; specialize (ID t); unfold idle_ok in ID; destruct (F t) as [Fc Ft];
        rewrite Fc in ID; destruct ID as [E1 E2]; congruence.
  Qed.

  (* no deadlock: in every reachable state some unfinished thread can move *)
  Theorem progress :
    forall sched, let s := run sem ssem compile true sched (init_state sh0 st0 progs) in
    (exists t, t_cur (m_thr s t) <> None \/ t_todo (m_thr s t) <> []) ->
    exists t, step t s <> None.
  Proof.
    intros sched s [t Ht].
    destruct (run_preserves_inv sched _ inv_init) as [order I].
    fold s in I. unfold inv_with in I.
    destruct (serial order sh0 progs) as [[shS todoS] doneS].
    destruct (m_lock s) as [[o d]|] eqn:EL.
    - exists o. destruct I as [[p [op [Ecur [Hcs _]]]] _].
      unfold C03_Conc.step. rewrite Ecur, EL.
      destruct p; try (rewrite Nat.eqb_refl; simpl; discriminate).
      + exfalso. eapply not_cs_ret; eauto.
      + destruct (sem a (m_sh s)). discriminate.
      + destruct sp; [discriminate|]. destruct (ssem a (m_st s)). discriminate.
    - exists t. destruct I as [_ ID]. specialize (ID t).
      unfold C03_Conc.step. rewrite EL.
      destruct (t_cur (m_thr s t)) as [p|] eqn:Ecur.
      + destruct (idle_shape _ _ _ _ ID Ecur) as [[op [k [E1 [E2 _]]]]|[a [E1 _]]].
        * subst p. rewrite E2. discriminate.
        * destruct E1 as [a|sp q a Pq]; [discriminate|].
          destruct sp; [discriminate|]. destruct (ssem a0 (m_st s)). discriminate.
      + destruct Ht as [Ht|Ht]; [congruence|].
        destruct (t_todo (m_thr s t)); [congruence|discriminate].
  Qed.
End Serial.

Arguments post {act ares sact sres A} _ _.
Arguments bal {act ares sact sres A} _ _.
Arguments in_cs {act ares sact sres A} _ _.
Arguments one_cs {act ares sact sres A} _.
Arguments pure_tail {act ares sact sres A B} _.
