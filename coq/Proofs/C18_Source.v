(* The text theorem at the READ_CHUNK_SIZE the source has today (Gen/C18_Gen.v is
   regenerated from /repo on every run): its side condition 1 <= chunk is
   discharged for that value here, so a source that sets the constant to 0 breaks
   this obligation. *)
From Boltons Require Import Lib.Prelude Spec.C18_Spec Model.C18_Model
  Proofs.C18_Utf8 Proofs.C18_StringRun Gen.C18_Gen.

Lemma source_chunk_positive : 1 <= N.to_nat gen_read_chunk_size.
Proof.
  assert (H : (1 <=? gen_read_chunk_size)%N = true) by (vm_compute; reflexivity).
  apply N.leb_le in H. lia.
Qed.

Theorem string_refines_reference_at_source_chunk max ops r :
  Forall op_valid ops ->
  ref_run KString rf_empty ops = Some r ->
  ss_run (ss_init max (N.to_nat gen_read_chunk_size)) ops = r.
Proof. intros. apply string_refines_reference; auto using source_chunk_positive. Qed.
