(* C01: the read operations that need nothing but the store invariant. *)
From Boltons Require Import Lib.Prelude Spec.C01_Spec Model.C01_Model Proofs.C01_Base
  Proofs.C01_Rev Proofs.C01_EqMap Proofs.C01_SortedValues Proofs.C01_Refine.

Lemma map_res_getitem s ks : StoreOk s -> (forall k, In k ks -> has_key (abs s) k = true) ->
  map_res (fun k => do v <- m_getitem s k; Ok (k, v)) ks
  = Ok (map (fun k => (k, visible (abs s) k)) ks).
Proof.
  intros HS. induction ks as [|k r IH]; intro H; [reflexivity|].
  simpl. rewrite (getitem_correct s k HS), (H k (or_introl eq_refl)). simpl.
  rewrite IH; [reflexivity|]. intros k' Hk'. apply H. right. exact Hk'.
Qed.

Lemma items1_correct s : StoreOk s -> m_items1 s = Ok (items1 (abs s)).
Proof.
  intro HS. unfold m_items1, items1. rewrite iterkeys_correct.
  apply map_res_getitem; [exact HS|]. intros k Hk. apply keys1_has_key. exact Hk.
Qed.

Ltac start := unfold refines_op, m_op; intros s o [HS HC] Ho Hwf.

Lemma items_refines multi : refines_op (Items multi).
Proof.
  start. destruct multi; simpl.
  - split; [split; assumption | reflexivity].
  - rewrite (items1_correct s HS). simpl. split; [split; assumption | reflexivity].
Qed.

Lemma keys_refines multi : refines_op (Keys multi).
Proof.
  start. simpl. split; [split; assumption|]. destruct multi.
  - rewrite map_fst_abs. reflexivity.
  - rewrite iterkeys_correct. reflexivity.
Qed.

Lemma values_refines multi : refines_op (Values multi).
Proof.
  start. destruct multi; simpl.
  - split; [split; assumption | reflexivity].
  - rewrite (items1_correct s HS). simpl. split; [split; assumption | reflexivity].
Qed.

Lemma len_refines : refines_op Len.
Proof. start. simpl. rewrite (store_len s HS). split; [split; assumption | reflexivity]. Qed.

Lemma iter_refines : refines_op Iter.
Proof. start. simpl. rewrite iterkeys_correct. split; [split; assumption | reflexivity]. Qed.

Lemma reversed_refines : refines_op Reversed.
Proof.
  start. rewrite (rev_walk_correct s HS). simpl. split; [split; assumption | reflexivity].
Qed.

Lemma get_refines k d : refines_op (Get k d).
Proof.
  start. rewrite (store_get s k HS). destruct (has_key (abs s) k) eqn:E.
  - rewrite (last_res_last _ none_tok); [|apply has_key_vals_true; exact E].
    simpl. rewrite E. split; [split; assumption | reflexivity].
  - simpl. rewrite E. split; [split; assumption | reflexivity].
Qed.

Lemma getlist_refines k d : refines_op (GetList k d).
Proof.
  start. rewrite (store_get s k HS). simpl. destruct (has_key (abs s) k);
    (split; [split; assumption | reflexivity]).
Qed.

Lemma getitem_refines k : refines_op (GetItem k).
Proof.
  start. rewrite (getitem_correct s k HS). simpl. destruct (has_key (abs s) k); simpl.
  - split; [split; assumption | reflexivity].
  - reflexivity.
Qed.

Lemma contains_refines k : refines_op (Contains k).
Proof. start. rewrite (store_mem s k HS). simpl. split; [split; assumption | reflexivity]. Qed.

Lemma todict_refines multi : refines_op (ToDict multi).
Proof.
  start. destruct multi.
  - simpl. split; [split; assumption|]. rewrite iterkeys_correct. do 3 f_equal.
    apply map_ext. intro k. rewrite (getlist_correct s k HS). reflexivity.
  - fold (m_items1 s). rewrite (items1_correct s HS). simpl. split; [split; assumption | reflexivity].
Qed.

Lemma sortedvalues_refines f rv : refines_op (SortedValues f rv).
Proof.
  start. destruct (sortedvalues_correct s f rv HS) as [r [E1 E2]]. rewrite E1. simpl.
  rewrite E2. split; [split; assumption | reflexivity].
Qed.

Lemma repr_refines : refines_op Repr.
Proof. start. simpl. split; [split; assumption | reflexivity]. Qed.

Lemma eqself_refines ne : refines_op (EqSelf ne).
Proof. start. simpl. split; [split; assumption | reflexivity]. Qed.

Lemma eqjunk_refines ne : refines_op (EqJunk ne).
Proof. start. simpl. split; [split; assumption | reflexivity]. Qed.

Lemma eqmap_refines ne m : refines_op (EqMap ne m).
Proof.
  start. simpl in Hwf. apply nodup_b_NoDup in Hwf.
  rewrite (eq_map_correct s m HS Hwf). simpl. split; [split; assumption | reflexivity].
Qed.
