(* C01: relating the pointer-level model (Model/C01_PModel.v) to the list-level model. *)
From Boltons Require Import Lib.Prelude Spec.C01_Spec Model.C01_Model Model.C01_Ptr Model.C01_PModel
  Proofs.C01_Base.

(* reading the heap back gives a list-level state *)
Definition lift (p : pomd) : omd := mkOmd (pstore p) (p_cells p) (pcmap p) (pnxt p).

(* the heap is a well-formed ring representing some cell list, and the cell map is in step with it *)
Definition Good (p : pomd) : Prop :=
  exists l, Rep (pheap p) l /\ CmapOk (mkOmd (pstore p) l (pcmap p) (pnxt p)).

Definition rel_state (r : res pomd) (r' : res omd) : Prop :=
  match r, r' with
  | Ok p, Ok s => lift p = s /\ Good p
  | Raise e, Raise e' => e = e'
  | _, _ => False
  end.

Definition rel_op (r : res (pomd * out)) (r' : res (omd * out)) : Prop :=
  match r, r' with
  | Ok (p, x), Ok (s, x') => x = x' /\ lift p = s /\ Good p
  | Raise e, Raise e' => e = e'
  | _, _ => False
  end.
