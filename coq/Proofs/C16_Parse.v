(* ParsedException.from_string on the interpreter's text: the line scanner
   recovers the structured traceback, to_string prints it back. *)
From Boltons Require Import Lib.Prelude Lib.C16_Text Spec.C16_Spec Model.C16_Model
  Proofs.C16_Text Proofs.C16_Regex.
Open Scope N_scope.

(* ---- class-independent facts ------------------------------------------------------------ *)
Lemma startswith_app_r p a w : startswith p a = true -> startswith p (a ++ w) = true.
Proof.
  revert a. induction p as [|x p IH]; intros a H; [reflexivity|].
  destruct a as [|y a]; [discriminate|]. cbn [startswith app] in *.
  apply andb_true_iff in H as [H1 H2]. rewrite H1, (IH a H2). reflexivity.
Qed.

Lemma split_nl_app_nonl a s :
  forallb (fun c => negb (c =? 10)) a = true ->
  split_nl (a ++ s) = match split_nl s with l :: ls => (a ++ l) :: ls | [] => [a] end.
Proof.
  intro H. induction a as [|c a IH]; cbn [app].
  - pose proof (split_nl_nonnil s). destruct (split_nl s); [contradiction|reflexivity].
  - cbn [forallb] in H. apply andb_true_iff in H as [Hc H]. apply negb_true_iff in Hc.
    cbn [split_nl]. rewrite Hc, (IH H). destruct (split_nl s); reflexivity.
Qed.

Lemma forallb_split (P : N -> bool) t :
  forallb P t = false -> exists a c r, t = a ++ c :: r /\ forallb P a = true /\ P c = false.
Proof.
  induction t as [|x t IH]; cbn [forallb]; intro H; [discriminate|].
  destruct (P x) eqn:E.
  - destruct (IH H) as [a [c [r [E1 [E2 E3]]]]]. exists (x :: a), c, r. subst t. cbn [forallb app].
    rewrite E, E2. repeat split; assumption.
  - exists [], x, t. repeat split; assumption.
Qed.

Lemma last_app_cons {A} (l : list A) x r d : last (l ++ x :: r) d = last (x :: r) d.
Proof. induction l as [|y l IH]; [reflexivity|]. cbn [app]. rewrite <- IH. destruct (l ++ x :: r) eqn:E; [destruct l; discriminate|reflexivity]. Qed.

Section Parse.
  Context (C : cc) (OK : cc_ok C).

  (* what the scanner needs of the line that follows an entry *)
  Definition R_ok (r0 : str) : Prop :=
    underline_re r0 = false /\
    (is_some (frame_re C (strip C r0)) || is_some (repeat_re C (strip C r0)) = true \/ starts_space r0 = false).
  (* ... and of the first line of the exception text *)
  Definition E_ok (r0 : str) : Prop :=
    underline_re r0 = false /\ starts_space r0 = false /\ frame_re C (strip C r0) = None /\
    repeat_re C (strip C r0) = None.

  Lemma E_ok_R_ok r0 : E_ok r0 -> R_ok r0.
  Proof. intros [H1 [H2 _]]. split; [exact H1|right; exact H2]. Qed.

  Lemma frame_ok_inv p n fn s : frame_ok C (mkFrame p n fn s) = true ->
    path_ok C p = true /\ lineno_ok C n = true /\ func_ok C fn = true /\ src_ok C s = true.
  Proof.
    unfold frame_ok. cbn [f_path f_lineno f_func f_src]. intro H.
    apply andb_true_iff in H as [H H4]. apply andb_true_iff in H as [H H3].
    apply andb_true_iff in H as [H1 H2]. repeat split; assumption.
  Qed.

  Lemma src_ok_inv c s : src_ok C (c :: s) = true ->
    stripped C (c :: s) = true /\ no_break C (c :: s) = true /\ startswith L_file (c :: s) = false /\
    startswith L_prevline (c :: s) = false.
  Proof.
    unfold src_ok. cbn [is_nil orb]. intro H. apply andb_true_iff in H as [H H4]. apply andb_true_iff in H as [H H3].
    apply andb_true_iff in H as [H1 H2]. apply negb_true_iff in H3, H4. repeat split; assumption.
  Qed.

  Lemma frame_line_facts p n g s :
    frame_ok C (mkFrame p n (Some g) s) = true ->
    frame_re C (strip C (frame_line (mkFrame p n (Some g) s))) = Some (p, n, Some g) /\
    repeat_re C (strip C (frame_line (mkFrame p n (Some g) s))) = None.
  Proof.
    intro H. apply frame_ok_inv in H as [Hp [Hn [Hg _]]].
    unfold frame_line. cbn [f_path f_lineno func_of f_func].
    rewrite (strip_frame_line C OK p n g Hg). split; [exact (frame_re_line C OK p n g Hp Hn Hg)|].
    apply repeat_re_not. reflexivity.
  Qed.

  Lemma frame_line_R_ok p n g s :
    frame_ok C (mkFrame p n (Some g) s) = true -> R_ok (frame_line (mkFrame p n (Some g) s)).
  Proof.
    intro H. destruct (frame_line_facts p n g s H) as [F _]. split.
    - unfold frame_line, L_file2, L_file. cbn [app f_path].
      exact (underline_false [32; 32] 70 _ eq_refl eq_refl eq_refl).
    - left. rewrite F. reflexivity.
  Qed.

  Lemma repeat_line_R_ok n : R_ok (repeat_line n).
  Proof.
    split; [apply underline_repeat_line|]. left.
    rewrite (strip_repeat_line C OK), (repeat_re_line C OK). apply orb_true_r.
  Qed.

  Definition no_repeat_here (prev : option frame) (l : str) : Prop :=
    prev = None \/ repeat_re C (strip C l) = None.

  Lemma scan_frame fre prev l nl rest2 p n fn :
    no_repeat_here prev l ->
    fre (strip C l) = Some (p, n, fn) ->
    scan C fre prev (l :: nl :: rest2) =
    if is_some (fre (strip C nl)) || is_some (repeat_re C (strip C nl)) || negb (starts_space nl) then
      if underline_re nl then cons_frame (mkFrame p n fn []) (scan C fre (Some (mkFrame p n fn [])) rest2)
      else cons_frame (mkFrame p n fn []) (scan C fre (Some (mkFrame p n fn [])) (nl :: rest2))
    else match rest2 with
         | [] => Raise IndexError
         | u :: rest3 =>
             if underline_re u
             then cons_frame (mkFrame p n fn (strip C nl)) (scan C fre (Some (mkFrame p n fn (strip C nl))) rest3)
             else cons_frame (mkFrame p n fn (strip C nl)) (scan C fre (Some (mkFrame p n fn (strip C nl))) rest2)
         end.
  Proof.
    intros Hp H. cbn [scan]. destruct Hp as [->|Hp]; [|rewrite Hp; destruct prev]; rewrite H; reflexivity.
  Qed.

  Lemma scan_stop fre prev l rest :
    no_repeat_here prev l -> fre (strip C l) = None -> scan C fre prev (l :: rest) = Ok ([], l :: rest).
  Proof. intros Hp H. cbn [scan]. destruct Hp as [->|Hp]; [|rewrite Hp; destruct prev]; rewrite H; reflexivity. Qed.

  Lemma scan_repeat fre pf l rest d :
    repeat_re C (strip C l) = Some d ->
    scan C fre (Some pf) (l :: rest) =
    match scan C fre (Some pf) rest with
    | Ok (fs, r) => Ok (repeat pf (N.to_nat (int_of C d)) ++ fs, r)
    | Raise e => Raise e
    end.
  Proof. intro H. cbn [scan]. rewrite H. reflexivity. Qed.

  (* one entry: frame line, optional source line, optional marker line *)
  Lemma scan_entry prev p n g s m r0 R' :
    frame_ok C (mkFrame p n (Some g) s) = true ->
    match m with Some mk => marker_ok mk = true | None => True end ->
    R_ok r0 ->
    scan C (frame_re C) prev (entry_lines_m (mkFrame p n (Some g) s, m) ++ r0 :: R') =
    cons_frame (mkFrame p n (Some g) s) (scan C (frame_re C) (Some (mkFrame p n (Some g) s)) (r0 :: R')).
  Proof.
    intros Hf Hm [Hu Hr]. pose proof Hf as Hf'. apply frame_ok_inv in Hf' as [Hp [Hn [Hg Hs]]].
    destruct (frame_line_facts p n g s Hf) as [FL FR].
    assert (NR : no_repeat_here prev (frame_line (mkFrame p n (Some g) s))) by (right; exact FR).
    unfold entry_lines_m, src_lines. cbn [f_src].
    destruct s as [|c s].
    - (* no source line *)
      cbn [is_nil]. replace (match m with Some _ => [] | None => [] end) with (@nil str) by (destruct m; reflexivity).
      cbn [app]. rewrite (scan_frame _ _ _ _ _ _ _ _ NR FL).
      assert (Cnd : is_some (frame_re C (strip C r0)) || is_some (repeat_re C (strip C r0)) || negb (starts_space r0) = true).
      { destruct Hr as [Hr|Hr]; rewrite Hr; [reflexivity|apply orb_true_r]. }
      rewrite Cnd, Hu. reflexivity.
    - (* source line *)
      apply src_ok_inv in Hs as [Hst [Hsb [Hsf Hsr]]].
      assert (SL : strip C (L_ind4 ++ c :: s) = c :: s) by (apply (strip_indented C OK); [discriminate|exact Hst]).
      cbn [is_nil]. destruct m as [mk|]; cbn [app].
      + rewrite (scan_frame _ _ _ _ _ _ _ _ NR FL). rewrite SL, (frame_re_not_file C _ Hsf), (repeat_re_not C _ Hsr).
        cbn [is_some starts_space L_ind4 app N.eqb Pos.eqb orb negb].
        rewrite (underline_marker mk Hm). reflexivity.
      + rewrite (scan_frame _ _ _ _ _ _ _ _ NR FL). rewrite SL, (frame_re_not_file C _ Hsf), (repeat_re_not C _ Hsr).
        cbn [is_some starts_space L_ind4 app N.eqb Pos.eqb orb negb].
        rewrite Hu. reflexivity.
  Qed.

  Definition fm_ok (fm : frame * option str) : Prop :=
    frame_ok C (fst fm) = true /\ match snd fm with Some mk => marker_ok mk = true | None => True end.

  Lemma scan_entries : forall fms prev r0 R',
    Forall fm_ok fms -> E_ok r0 ->
    scan C (frame_re C) prev (flat_map entry_lines_m fms ++ r0 :: R') = Ok (map fst fms, r0 :: R').
  Proof.
    induction fms as [|[f m] fms IH]; intros prev r0 R' Hall HE.
    - cbn [flat_map app map]. destruct HE as [_ [_ [HE HR]]]. apply scan_stop; [right; exact HR|exact HE].
    - inversion Hall as [|x xs [Hf Hm] Hrest]; subst. cbn [fst snd] in Hf, Hm.
      destruct f as [p n [g|] s].
      2:{ apply frame_ok_inv in Hf as [_ [_ [Hg _]]]. discriminate. }
      cbn [flat_map map fst]. rewrite <- app_assoc.
      pose proof (IH (Some (mkFrame p n (Some g) s)) r0 R' Hrest HE) as IH'.
      destruct fms as [|[f2 m2] fms2].
      + cbn [flat_map app] in *. rewrite (scan_entry prev p n g s m r0 R' Hf Hm (E_ok_R_ok r0 HE)).
        rewrite IH'. reflexivity.
      + (* the next line is the next entry's frame line *)
        inversion Hrest as [|x xs [Hf2 _] _]; subst. cbn [fst] in Hf2.
        destruct f2 as [p2 n2 [g2|] s2].
        2:{ apply frame_ok_inv in Hf2 as [_ [_ [Hg _]]]. discriminate. }
        remember (mkFrame p2 n2 (Some g2) s2) as f2 eqn:Ef2.
        assert (Sh : exists X, flat_map entry_lines_m ((f2, m2) :: fms2) ++ r0 :: R' = frame_line f2 :: X).
        { cbn [flat_map]. unfold entry_lines_m at 1. cbn [app]. eexists. reflexivity. }
        destruct Sh as [X EX]. rewrite EX in *.
        rewrite (scan_entry prev p n g s m (frame_line f2) X Hf Hm).
        * rewrite IH'. reflexivity.
        * subst f2. apply frame_line_R_ok. exact Hf2.
  Qed.

  (* ---- the exception text ------------------------------------------------------------------ *)
  Lemma type_ok_inv ty : type_ok C ty = true ->
    ty <> [] /\ no_space C ty = true /\
    exists a c r, ty = a ++ c :: r /\ forallb inset a = true /\ inset c = false.
  Proof.
    unfold type_ok. intro H. apply andb_true_iff in H as [H H3]. apply andb_true_iff in H as [H1 H2].
    split; [apply nonempty_inv; exact H1|]. split; [exact H2|].
    apply negb_true_iff in H3. destruct (forallb_split _ ty H3) as [a [c [r [E [Ha Hc]]]]].
    exists a, c, r. split; [exact E|]. split.
    - clear - Ha. induction a as [|x a IH]; cbn [forallb] in *; [reflexivity|].
      apply andb_true_iff in Ha as [Hx Ha]. unfold inset at 1. rewrite Hx, (IH Ha). reflexivity.
    - unfold inset. rewrite Hc. cbn [orb]. subst ty. unfold no_space in H2. rewrite forallb_app in H2.
      apply andb_true_iff in H2 as [_ H2]. cbn [forallb] in H2. apply andb_true_iff in H2 as [H2 _].
      apply negb_true_iff in H2. exact (nsp_not_32 C OK c H2).
  Qed.

  Lemma exc_lines ty msg : type_ok C ty = true ->
    exists l0 ls, split_nl (exc_text ty msg) = (ty ++ l0) :: ls /\ (l0 = [] \/ exists l', l0 = 58 :: l').
  Proof.
    intro H. apply type_ok_inv in H as [_ [Hns _]].
    assert (Hnl : forallb (fun c => negb (c =? 10)) ty = true)
      by (apply (no_break_no_nl C OK), (no_space_no_break C OK); exact Hns).
    unfold exc_text. destruct msg as [|m msg]; cbn [is_nil].
    - exists [], []. split; [|left; reflexivity]. rewrite <- (app_nil_r ty) at 1.
      rewrite (split_nl_app_nonl ty [] Hnl). reflexivity.
    - rewrite (split_nl_app_nonl ty _ Hnl). unfold L_colon. cbn [app].
      remember (m :: msg) as mm eqn:Emm. clear Emm.
      cbn [split_nl N.eqb Pos.eqb].
      pose proof (split_nl_nonnil mm) as Hn.
      destruct (split_nl mm) as [|l ls]; [contradiction|].
      exists (58 :: 32 :: l), ls. split; [reflexivity|right; eexists; reflexivity].
  Qed.

  Lemma not_file_line ty l0 :
    no_space C ty = true -> (l0 = [] \/ exists l', l0 = 58 :: l') ->
    startswith L_file (ty ++ l0) = false /\ startswith L_prevline (ty ++ l0) = false.
  Proof.
    intros Hns Hl. apply (no_space_no_32 C OK) in Hns. split.
    - exact (no_prefix_line [70;105;108;101] [34] eq_refl ty l0 Hns Hl).
    - exact (no_prefix_line [91;80;114;101;118;105;111;117;115]
               [108;105;110;101;32;114;101;112;101;97;116;101;100;32] eq_refl ty l0 Hns Hl).
  Qed.

  Lemma exc_first_E_ok ty l0 :
    type_ok C ty = true -> (l0 = [] \/ exists l', l0 = 58 :: l') -> E_ok (ty ++ l0).
  Proof.
    intros H Hl. apply type_ok_inv in H as [Hne [Hns [a [c [r [E [Ha Hc]]]]]]].
    assert (Hc_sp : is_sp C c = false).
    { subst ty. unfold no_space in Hns. rewrite forallb_app in Hns. apply andb_true_iff in Hns as [_ Hns].
      cbn [forallb] in Hns. apply andb_true_iff in Hns as [Hns _]. apply negb_true_iff in Hns. exact Hns. }
    split; [|split].
    - subst ty. rewrite <- app_assoc. cbn [app]. apply underline_false; [exact Ha|exact Hc|].
      exact (nsp_not_10 C OK c Hc_sp).
    - destruct ty as [|x ty]; [contradiction|]. cbn [app starts_space].
      unfold no_space in Hns. cbn [forallb] in Hns. apply andb_true_iff in Hns as [Hx _].
      apply negb_true_iff in Hx. exact (nsp_not_32 C OK x Hx).
    - (* strip only removes characters: the stripped line is a prefix of the line *)
      destruct ty as [|x ty]; [contradiction|].
      assert (Hx : is_sp C x = false).
      { unfold no_space in Hns. cbn [forallb] in Hns. apply andb_true_iff in Hns as [Hx _].
        apply negb_true_iff in Hx. exact Hx. }
      destruct (not_file_line (x :: ty) l0 Hns Hl) as [NF NP].
      assert (PRE : forall pat, startswith pat ((x :: ty) ++ l0) = false ->
                                startswith pat (strip C ((x :: ty) ++ l0)) = false).
      { intros pat Hpat. destruct (startswith pat (strip C ((x :: ty) ++ l0))) eqn:S; [|reflexivity].
        unfold strip in S. cbn [app] in S. rewrite (lstrip_nonspace C x _ Hx) in S.
        destruct (rstrip_spec C (x :: ty ++ l0)) as [w [Ew _]].
        apply (startswith_app_r _ _ w) in S. rewrite <- Ew in S. cbn [app] in Hpat. congruence. }
      split; [apply frame_re_not_file; apply PRE; exact NF|apply repeat_re_not; apply PRE; exact NP].
  Qed.

  (* ---- line structure of the rendered text ------------------------------------------------------ *)
  Lemma frame_line_no_break p n g s :
    frame_ok C (mkFrame p n (Some g) s) = true -> no_break C (frame_line (mkFrame p n (Some g) s)) = true.
  Proof.
    intro H. apply frame_ok_inv in H as [Hp [Hn [Hg _]]].
    apply (path_ok_inv C) in Hp as [_ Hp]. apply (lineno_ok_inv C) in Hn as [_ Hn].
    apply (func_ok_inv C) in Hg as [_ [Hg _]].
    unfold frame_line. cbn [f_path f_lineno func_of f_func]. rewrite !no_break_app.
    rewrite Hp, (no_break_digits C OK n Hn), Hg.
    rewrite (no_break_ascii C OK L_file2), (no_break_ascii C OK L_qline), (no_break_ascii C OK L_in) by reflexivity.
    reflexivity.
  Qed.

  Lemma marker_no_break mk : marker_ok mk = true -> no_break C mk = true.
  Proof.
    intro H. apply (no_break_ascii C OK). unfold marker_ok in H. unfold ascii_text.
    induction mk as [|c mk IH]; cbn [forallb] in *; [reflexivity|].
    apply andb_true_iff in H as [Hc H]. rewrite (IH H), andb_true_r.
    apply orb_true_iff in Hc as [Hc|Hc]; [apply orb_true_iff in Hc as [Hc|Hc]|]; apply N.eqb_eq in Hc; subst c; reflexivity.
  Qed.

  Lemma entry_lines_no_break fm : fm_ok fm -> Forall (fun l => no_break C l = true) (entry_lines_m fm).
  Proof.
    destruct fm as [f m]. intros [Hf Hm]. cbn [fst snd] in *. destruct f as [p n [g|] s].
    2:{ apply frame_ok_inv in Hf as [_ [_ [Hg _]]]. discriminate. }
    unfold entry_lines_m. constructor; [apply frame_line_no_break; exact Hf|].
    apply frame_ok_inv in Hf as [_ [_ [_ Hs]]]. unfold src_lines. cbn [f_src].
    destruct s as [|c s]; cbn [is_nil].
    - destruct m; constructor.
    - apply src_ok_inv in Hs as [_ [Hb _]].
      constructor.
      + rewrite no_break_app, Hb, (no_break_ascii C OK L_ind4) by reflexivity. reflexivity.
      + destruct m as [mk|]; cbn [app]; constructor; [|constructor]. apply marker_no_break. exact Hm.
  Qed.

  Lemma body_no_break fms : Forall fm_ok fms ->
    Forall (fun l => no_break C l = true) (flat_map entry_lines_m fms).
  Proof.
    induction 1 as [|fm fms Hfm _ IH]; cbn [flat_map]; [constructor|].
    apply Forall_app. split; [apply entry_lines_no_break; exact Hfm|exact IH].
  Qed.

  Lemma msg_ok_inv ty msg : msg_ok C ty msg = true ->
    forallb (fun c => negb (is_br C c) || (c =? 10)) msg = true /\
    match rev msg with [] => true | c :: _ => negb (c =? 10) end = true /\
    ignored_line (last (split_nl (exc_text ty msg)) []) = false.
  Proof.
    unfold msg_ok. intro H. apply andb_true_iff in H as [H H3]. apply andb_true_iff in H as [H1 H2].
    apply negb_true_iff in H3. repeat split; assumption.
  Qed.

  Lemma exc_text_chars ty msg : type_ok C ty = true -> msg_ok C ty msg = true ->
    forallb (fun c => negb (is_br C c) || (c =? 10)) (exc_text ty msg) = true.
  Proof.
    intros Ht Hm. apply type_ok_inv in Ht as [_ [Hns _]]. apply msg_ok_inv in Hm as [Hm _].
    assert (Hty : forallb (fun c => negb (is_br C c) || (c =? 10)) ty = true).
    { apply (no_space_no_break C OK) in Hns. unfold no_break in Hns.
      clear - Hns. induction ty as [|c ty IH]; cbn [forallb] in *; [reflexivity|].
      apply andb_true_iff in Hns as [Hc H]. rewrite Hc, (IH H). reflexivity. }
    unfold exc_text. destruct (is_nil msg); [exact Hty|].
    rewrite !forallb_app, Hty, Hm. cbn [L_colon forallb].
    rewrite (nbr_ascii C OK 58), (br_32 C OK) by reflexivity. reflexivity.
  Qed.

  Lemma exc_text_last ty msg : type_ok C ty = true -> msg_ok C ty msg = true ->
    last (split_nl (exc_text ty msg)) [] <> [].
  Proof.
    intros Ht Hm. apply type_ok_inv in Ht as [Hne [Hns _]]. apply msg_ok_inv in Hm as [_ [Hm _]].
    assert (Sh : exists s c, exc_text ty msg = s ++ [c] /\ c <> 10).
    { unfold exc_text. destruct msg as [|m msg]; cbn [is_nil].
      - destruct (@exists_last _ ty Hne) as [s [c E]]. exists s, c. split; [exact E|].
        subst ty. unfold no_space in Hns. rewrite forallb_app in Hns. apply andb_true_iff in Hns as [_ Hns].
        cbn [forallb] in Hns. apply andb_true_iff in Hns as [Hns _]. apply negb_true_iff in Hns.
        apply N.eqb_neq. exact (nsp_not_10 C OK c Hns).
      - destruct (@exists_last _ (m :: msg) ltac:(discriminate)) as [s [c E]]. rewrite E in *.
        exists (ty ++ L_colon ++ s), c. split; [rewrite <- !app_assoc; reflexivity|].
        rewrite rev_unit in Hm. apply negb_true_iff in Hm. apply N.eqb_neq. exact Hm. }
    destruct Sh as [s [c [E Hc]]]. rewrite E. apply split_nl_last. exact Hc.
  Qed.

  (* ---- drop_ignored ------------------------------------------------------------------------------- *)
  Lemma drop_ignored_keep ls : ls <> [] -> ignored_line (last ls []) = false -> drop_ignored ls = ls.
  Proof.
    intros Hne H. unfold drop_ignored. destruct (@exists_last _ ls Hne) as [init [l E]]. subst ls.
    rewrite last_last in H. rewrite rev_unit. cbn [drop_ignored_rev].
    change (m_ignored l) with (ignored_line l). rewrite H. cbn [rev]. rewrite rev_involutive. reflexivity.
  Qed.

  (* ---- from_string on the rendered text -------------------------------------------------------------- *)
  (* the text as a whole: any body of entry lines that the scanner reads back as [frames] *)
  Theorem parse_lines (body : list str) (frames : list frame) (ty msg : str) :
    Forall (fun l => no_break C l = true) body ->
    (forall r0 R', E_ok r0 -> scan C (frame_re C) None (body ++ r0 :: R') = Ok (frames, r0 :: R')) ->
    type_ok C ty = true -> msg_ok C ty msg = true ->
    from_string C (join NL (L_header :: body ++ [exc_text ty msg])) = Ok (mkTb frames ty msg).
  Proof.
    intros Hbody Hscan Hty Hmsg.
    destruct (exc_lines ty msg Hty) as [l0 [ls [EL Hl0]]].
    pose proof (exc_first_E_ok ty l0 Hty Hl0) as HE.
    (* the text, line by line *)
    set (EX := split_nl (exc_text ty msg)) in *.
    assert (TXT : join NL (L_header :: body ++ [exc_text ty msg]) = join NL (L_header :: body ++ EX)).
    { rewrite <- (join_split_nl (exc_text ty msg)) at 1. fold EX.
      change (L_header :: body ++ [join [10] EX]) with ((L_header :: body) ++ [join NL EX]).
      rewrite join_app_last by apply split_nl_nonnil. reflexivity. }
    assert (EXne : EX <> []) by apply split_nl_nonnil.
    assert (LAST : last (L_header :: body ++ EX) [] = last EX []).
    { destruct EX as [|e0 ex]; [contradiction|].
      change (L_header :: body ++ e0 :: ex) with ((L_header :: body) ++ e0 :: ex). apply last_app_cons. }
    assert (LINES : splitlines C (join NL (L_header :: body ++ EX)) = L_header :: body ++ EX).
    { apply (splitlines_join C (br_10 C OK)); [discriminate| |].
      - constructor; [apply (no_break_ascii C OK); reflexivity|].
        apply Forall_app. split; [exact Hbody|].
        exact (split_nl_chars (fun c => negb (is_br C c)) _ (exc_text_chars ty msg Hty Hmsg)).
      - intro Hc. apply (exc_text_last ty msg Hty Hmsg). etransitivity; [symmetry; exact LAST|exact Hc]. }
    unfold from_string. rewrite TXT.
    assert (LS : lstrip C (join NL (L_header :: body ++ EX)) = join NL (L_header :: body ++ EX)).
    { rewrite join_cons by (destruct body; [exact EXne|discriminate]). unfold L_header at 1. cbn [app].
      apply lstrip_nonspace. apply (sp_print C OK). lia. }
    rewrite LS, LINES.
    rewrite drop_ignored_keep.
    2: discriminate.
    2:{ apply msg_ok_inv in Hmsg as [_ [_ Hi]].
        exact (eq_ind_r (fun z => ignored_line z = false) Hi LAST). }
    rewrite (strip_header C OK). change M_header with L_header. rewrite str_eqb_refl.
    rewrite EL. rewrite (Hscan (ty ++ l0) ls HE).
    rewrite <- EL. change M_nl with [10]. fold EX. unfold EX. rewrite join_split_nl.
    apply type_ok_inv in Hty as [_ [Hns _]]. apply (no_space_no_32 C OK) in Hns.
    unfold exc_text. change M_colon with [58; 32]. destruct msg as [|m msg]; cbn [is_nil].
    - rewrite (partition_none ty Hns). reflexivity.
    - unfold L_colon. cbn [app]. rewrite (partition_colon ty (m :: msg) Hns). reflexivity.
  Qed.

  Lemma wf_inv frames ty msg : wf C (mkTb frames ty msg) = true ->
    Forall (fun f => frame_ok C f = true) frames /\ type_ok C ty = true /\ msg_ok C ty msg = true.
  Proof.
    unfold wf. cbn [t_frames t_type t_msg]. intro H.
    apply andb_true_iff in H as [H Hmsg]. apply andb_true_iff in H as [Hfr Hty].
    repeat split; try assumption. apply Forall_forall. rewrite forallb_forall in Hfr. exact Hfr.
  Qed.

  Theorem parse_marked (T : tb) (ms : list (option str)) :
    wf C T = true -> markers_ok ms = true -> length ms = length (t_frames T) ->
    from_string C (marked_text T ms) = Ok T.
  Proof.
    intros Hwf Hms Hlen. destruct T as [frames ty msg]. apply wf_inv in Hwf as [Hfr [Hty Hmsg]].
    cbn [t_frames t_type t_msg] in *.
    set (fms := combine frames ms).
    assert (Hfms : Forall fm_ok fms).
    { subst fms. clear - Hfr Hms Hlen. revert ms Hms Hlen.
      induction frames as [|f frames IH]; intros ms Hms Hlen; [constructor|].
      destruct ms as [|m ms]; [discriminate|]. cbn [combine].
      inversion Hfr as [|x xs Hf Hfr']; subst.
      unfold markers_ok in Hms. cbn [forallb] in Hms. apply andb_true_iff in Hms as [Hm Hms].
      constructor.
      - split; [exact Hf|]. cbn [snd]. destruct m; [exact Hm|exact I].
      - apply IH; [exact Hfr'|exact Hms|]. cbn [length] in Hlen. congruence. }
    assert (Hmap : map fst fms = frames).
    { subst fms. clear - Hlen. revert ms Hlen. induction frames as [|f frames IH]; intros ms Hlen; [reflexivity|].
      destruct ms as [|m ms]; [discriminate|]. cbn [combine map fst]. f_equal. apply IH. cbn [length] in Hlen. congruence. }
    unfold marked_text, marked_lines. cbn [t_frames t_type t_msg]. fold fms.
    apply parse_lines; [apply body_no_break; exact Hfms| |exact Hty|exact Hmsg].
    intros r0 R' HE. rewrite (scan_entries fms None r0 R' Hfms HE), Hmap. reflexivity.
  Qed.
End Parse.
