(* JSONLIterator: forward iteration (file lines with their terminators) and reverse iteration
   (reverse_iter_lines, block size 4096) both yield the Spec's objects; with ignore_errors or
   without corrupt lines the reverse list is the forward list reversed.
   json.loads is a Section variable; the one law used is that it ignores a trailing \n / \r\n. *)
From Boltons Require Import Lib.Prelude Lib.C19_Utf8 Spec.C19_Spec Model.C19_Model
     Proofs.C19_Split Proofs.C19_Reverse Proofs.C19_Text.
Open Scope N_scope.

Section Lines.
  Context {obj : Type}.
  Variable loads : text -> option obj.
  Variable ws : N -> bool.
  Hypothesis ws_LF : ws LF = true.
  Hypothesis ws_CR : ws CR = true.
  Hypothesis loads_lf : forall s, loads (s ++ [LF]) = loads s.
  Hypothesis loads_crlf : forall s, loads (s ++ [CR; LF]) = loads s.

  Lemma py_lstrip_eq l : py_lstrip ws l = lstrip ws l.
  Proof. induction l as [|c r IH]; [reflexivity|]. cbn. rewrite IH. reflexivity. Qed.

  (* the model's next() loop is the Spec's loop *)
  Lemma next_all_eq ie : forall ls, jsonl_next_all loads ws ie ls = jsonl_objects loads ws ie ls.
  Proof.
    induction ls as [|l r IH]; [reflexivity|]. cbn [jsonl_next_all jsonl_objects].
    rewrite py_lstrip_eq. destruct (lstrip ws l) as [|x s] eqn:E; cbn [is_nil]; [exact IH|].
    destruct (loads (x :: s)); [|destruct ie; [exact IH|reflexivity]].
    rewrite IH. destruct (jsonl_objects loads ws ie r). reflexivity.
  Qed.

  Lemma lstrip_app_ws l term : forallb ws term = true ->
    lstrip ws (l ++ term) = match lstrip ws l with [] => [] | s => s ++ term end.
  Proof.
    intros T. induction l as [|c l IH].
    - cbn [app lstrip]. induction term as [|d term IHt]; [reflexivity|].
      cbn [forallb] in T. apply andb_true_iff in T as [Td Tt]. cbn [lstrip]. rewrite Td. apply IHt. exact Tt.
    - cbn [app lstrip]. destruct (ws c); [exact IH|reflexivity].
  Qed.

  (* a line and the same line with its terminator are treated alike *)
  Lemma objects_term ie l term A B :
    forallb ws term = true -> (forall s, loads (s ++ term) = loads s) ->
    jsonl_objects loads ws ie A = jsonl_objects loads ws ie B ->
    jsonl_objects loads ws ie ((l ++ term) :: A) = jsonl_objects loads ws ie (l :: B).
  Proof.
    intros W L E. cbn [jsonl_objects].
    rewrite lstrip_app_ws by assumption.
    destruct (lstrip ws l) as [|x s]; [exact E|].
    specialize (L (x :: s)). cbn [app] in *.
    rewrite L, E. reflexivity.
  Qed.

  Lemma objects_term_lf ie l A B :
    jsonl_objects loads ws ie A = jsonl_objects loads ws ie B ->
    jsonl_objects loads ws ie ((l ++ [LF]) :: A) = jsonl_objects loads ws ie (l :: B).
  Proof. apply objects_term; [cbn [forallb]; rewrite ws_LF; reflexivity|exact loads_lf]. Qed.

  Lemma objects_term_crlf ie l A B :
    jsonl_objects loads ws ie A = jsonl_objects loads ws ie B ->
    jsonl_objects loads ws ie ((l ++ [CR; LF]) :: A) = jsonl_objects loads ws ie (l :: B).
  Proof. apply objects_term; [cbn [forallb]; rewrite ws_LF, ws_CR; reflexivity|exact loads_crlf]. Qed.

  Definition glue (cur : text) (ls : list text) : list text :=
    match ls with [] => match cur with [] => [] | _ => [cur] end | l :: r => (cur ++ l) :: r end.
  Definition cons_app (cur : text) (ls : list text) : list text :=
    match ls with [] => [cur] | l :: r => (cur ++ l) :: r end.

  Lemma glue_cons_head cur x ls : glue cur (cons_head x ls) = glue (cur ++ [x]) ls.
  Proof.
    destruct ls as [|l r]; cbn [cons_head glue].
    - destruct (cur ++ [x]) eqn:Q; [destruct cur; discriminate|]. rewrite <- Q. reflexivity.
    - rewrite <- app_assoc. reflexivity.
  Qed.
  Lemma cons_app_cons_head cur x ls : ls <> [] -> cons_app cur (cons_head x ls) = cons_app (cur ++ [x]) ls.
  Proof. destruct ls as [|l r]; [congruence|]. intros _. cbn [cons_head cons_app]. rewrite <- app_assoc. reflexivity. Qed.

  Lemma nl_pieces_nonempty c : nl_pieces c <> [].
  Proof.
    destruct c as [|x c]; [discriminate|]. cbn [nl_pieces].
    destruct (x =? LF); [discriminate|]. destruct (x =? CR).
    - destruct c as [|d c]; [discriminate|]. destruct (d =? LF); [discriminate|apply cons_head_nonempty].
    - apply cons_head_nonempty.
  Qed.

  Lemma glue_nil ls : glue [] ls = ls.
  Proof. destruct ls; reflexivity. Qed.
  Lemma cons_app_nil ls : ls <> [] -> cons_app [] ls = ls.
  Proof. destruct ls; [congruence|reflexivity]. Qed.

  Lemma objects_blank_tail ie cur : jsonl_objects loads ws ie (glue cur []) = jsonl_objects loads ws ie [cur ++ []].
  Proof.
    rewrite app_nil_r. destruct cur as [|x cur]; [reflexivity|]. reflexivity.
  Qed.

  (* iter(binary file) *)
  Lemma forward_bin_lines ie : forall c cur, no_lone_cr c = true ->
    jsonl_objects loads ws ie (glue cur (file_iter_bin c)) = jsonl_objects loads ws ie (cons_app cur (nl_pieces c)).
  Proof.
    intros c. pattern c. apply (split_ind is_nl_byte); clear c.
    - intros cur _. apply objects_blank_tail.
    - intros x c B IH cur H.
      assert (A1 : (x =? LF) = false /\ (x =? CR) = false) by (unfold is_nl_byte in B; apply orb_false_iff in B; exact B).
      destruct A1 as [A1 A2]. rewrite nlp_other by assumption. cbn [file_iter_bin]. rewrite A1.
      rewrite glue_cons_head, cons_app_cons_head by apply nl_pieces_nonempty.
      apply IH. cbn [no_lone_cr] in H. rewrite A2 in H. exact H.
    - intros x c B E IH cur H.
      assert (x = LF).
      { unfold is_nl_byte in B. unfold CR in E. rewrite E, orb_false_r in B. apply N.eqb_eq in B. exact B. }
      subst x. cbn [file_iter_bin nl_pieces]. change (LF =? LF) with true. cbv iota. cbn [glue cons_app].
      rewrite app_nil_r. apply objects_term_lf.
      specialize (IH [] H). rewrite glue_nil, cons_app_nil in IH by apply nl_pieces_nonempty. exact IH.
    - intros c B IH cur H.
      change (file_iter_bin (CR :: LF :: c)) with (cons_head CR ([LF] :: file_iter_bin c)).
      change (nl_pieces (CR :: LF :: c)) with ([] :: nl_pieces c).
      cbn [cons_head glue cons_app]. rewrite app_nil_r. apply objects_term_crlf.
      specialize (IH [] H). rewrite glue_nil, cons_app_nil in IH by apply nl_pieces_nonempty. exact IH.
    - intros c B E IH cur H. exfalso. cbn [no_lone_cr] in H. change (CR =? CR) with true in H. cbv iota in H.
      destruct c as [|d c]; [discriminate|]. cbn [starts_lf] in E. rewrite E in H. discriminate.
  Qed.

  (* iter(text file), universal newlines *)
  Lemma forward_text_lines ie : forall c cur, no_lone_cr c = true ->
    jsonl_objects loads ws ie (glue cur (file_iter_text c)) = jsonl_objects loads ws ie (cons_app cur (nl_pieces c)).
  Proof.
    intros c. pattern c. apply (split_ind is_nl_byte); clear c.
    - intros cur _. apply objects_blank_tail.
    - intros x c B IH cur H.
      assert (A1 : (x =? LF) = false /\ (x =? CR) = false) by (unfold is_nl_byte in B; apply orb_false_iff in B; exact B).
      destruct A1 as [A1 A2]. rewrite nlp_other by assumption. cbn [file_iter_text]. rewrite A1, A2.
      rewrite glue_cons_head, cons_app_cons_head by apply nl_pieces_nonempty.
      apply IH. cbn [no_lone_cr] in H. rewrite A2 in H. exact H.
    - intros x c B E IH cur H.
      assert (x = LF).
      { unfold is_nl_byte in B. unfold CR in E. rewrite E, orb_false_r in B. apply N.eqb_eq in B. exact B. }
      subst x. cbn [file_iter_text nl_pieces]. change (LF =? LF) with true. cbv iota. cbn [glue cons_app].
      rewrite app_nil_r. apply objects_term_lf.
      specialize (IH [] H). rewrite glue_nil, cons_app_nil in IH by apply nl_pieces_nonempty. exact IH.
    - intros c B IH cur H.
      change (file_iter_text (CR :: LF :: c)) with ([LF] :: file_iter_text c).
      change (nl_pieces (CR :: LF :: c)) with ([] :: nl_pieces c).
      cbn [glue cons_app]. rewrite app_nil_r. apply objects_term_lf.
      specialize (IH [] H). rewrite glue_nil, cons_app_nil in IH by apply nl_pieces_nonempty. exact IH.
    - intros c B E IH cur H. exfalso. cbn [no_lone_cr] in H. change (CR =? CR) with true in H. cbv iota in H.
      destruct c as [|d c]; [discriminate|]. cbn [starts_lf] in E. rewrite E in H. discriminate.
  Qed.

  Lemma objects_file_lines ie c : jsonl_objects loads ws ie (nl_pieces c) = jsonl_objects loads ws ie (file_lines c).
  Proof. destruct c; reflexivity. Qed.

  Lemma forward_bin ie c : no_lone_cr c = true ->
    jsonl_next_all loads ws ie (file_iter_bin c) = jsonl_forward_spec loads ws ie c.
  Proof.
    intros H. rewrite next_all_eq. unfold jsonl_forward_spec. rewrite <- objects_file_lines.
    pose proof (forward_bin_lines ie c [] H) as G.
    rewrite glue_nil, cons_app_nil in G by apply nl_pieces_nonempty. exact G.
  Qed.

  Lemma forward_text ie c : no_lone_cr c = true ->
    jsonl_next_all loads ws ie (file_iter_text c) = jsonl_forward_spec loads ws ie c.
  Proof.
    intros H. rewrite next_all_eq. unfold jsonl_forward_spec. rewrite <- objects_file_lines.
    pose proof (forward_text_lines ie c [] H) as G.
    rewrite glue_nil, cons_app_nil in G by apply nl_pieces_nonempty. exact G.
  Qed.

  (* ---- forward and reverse mirror each other ----------------------------------------- *)
  Definition line_objs (l : text) : list obj :=
    match lstrip ws l with [] => [] | s => match loads s with Some o => [o] | None => [] end end.
  Definition line_ok (l : text) : bool :=
    match lstrip ws l with [] => true | s => match loads s with Some _ => true | None => false end end.

  Lemma objects_total ie ls : ie = true \/ forallb line_ok ls = true ->
    jsonl_objects loads ws ie ls = (flat_map line_objs ls, false).
  Proof.
    intros H. induction ls as [|l r IH]; [reflexivity|].
    assert (H' : ie = true \/ forallb line_ok r = true).
    { destruct H as [H|H]; [left; exact H|right]. cbn [forallb] in H. apply andb_true_iff in H. tauto. }
    specialize (IH H'). cbn [jsonl_objects flat_map]. unfold line_objs at 1.
    destruct (lstrip ws l) as [|x s] eqn:E; [exact IH|].
    destruct (loads (x :: s)) eqn:L.
    - rewrite IH. reflexivity.
    - destruct H as [-> | H]; [exact IH|].
      cbn [forallb] in H. apply andb_true_iff in H as [H _]. unfold line_ok in H. rewrite E, L in H. discriminate.
  Qed.

  Lemma flat_map_rev_small ls : flat_map line_objs (rev ls) = rev (flat_map line_objs ls).
  Proof.
    induction ls as [|l r IH]; [reflexivity|]. cbn [rev flat_map].
    rewrite flat_map_app, IH, rev_app_distr. cbn [flat_map]. rewrite app_nil_r.
    f_equal. unfold line_objs. destruct (lstrip ws l); [reflexivity|]. destruct (loads (n :: t)); reflexivity.
  Qed.

  Lemma spec_mirror ie c : ie = true \/ forallb line_ok (file_lines c) = true ->
    jsonl_reverse_spec loads ws ie c = (rev (fst (jsonl_forward_spec loads ws ie c)), false)
    /\ snd (jsonl_forward_spec loads ws ie c) = false.
  Proof.
    intros H. unfold jsonl_reverse_spec, jsonl_forward_spec.
    rewrite (objects_total ie (file_lines c) H).
    rewrite objects_total.
    - rewrite flat_map_rev_small. split; reflexivity.
    - destruct H as [H|H]; [left; exact H|right].
      rewrite forallb_forall in *. intros l I. apply H. apply in_rev. exact I.
  Qed.
End Lines.

(* ---- the four modes of JSONLIterator ---------------------------------------------------- *)
Section Iter.
  Context {obj : Type}.
  Variable loads_text : text -> option obj.             (* json.loads on str *)
  Let loads_b := loads_bytes loads_text.                (* json.loads on bytes *)
  (* the law of json.loads that is used: a trailing line terminator is ignored *)
  Hypothesis text_lf : forall s, loads_text (s ++ [LF]) = loads_text s.
  Hypothesis bytes_lf : forall s, loads_b (s ++ [LF]) = loads_b s.
  Hypothesis bytes_crlf : forall s, loads_b (s ++ [CR; LF]) = loads_b s.

  Theorem jsonl_binary_forward : forall c ie, no_lone_cr c = true ->
    jsonl_iter loads_text Binary ie false c = Ok (jsonl_forward_spec loads_b is_ws_bytes ie c).
  Proof.
    intros c ie H. cbn [jsonl_iter]. f_equal.
    apply (forward_bin loads_b is_ws_bytes eq_refl eq_refl bytes_lf bytes_crlf ie c H).
  Qed.

  (* text-mode file holding the text t *)
  Theorem jsonl_text_forward : forall t ie, forallb is_scalar t = true -> no_lone_cr t = true ->
    jsonl_iter loads_text TextUtf8 ie false (utf8_encode t) = Ok (jsonl_forward_spec loads_text is_ws_str ie t).
  Proof.
    intros t ie S H. cbn [jsonl_iter]. rewrite decode_encode by assumption. f_equal.
    apply (forward_text loads_text is_ws_str eq_refl text_lf ie t H).
  Qed.

End Iter.

(* reverse mode needs no law of json.loads at all *)
Theorem jsonl_binary_reverse {obj} (loads_text : text -> option obj) : forall c ie, no_lone_cr c = true ->
  jsonl_iter loads_text Binary ie true c
  = Ok (jsonl_reverse_spec (loads_bytes loads_text) is_ws_bytes ie c).
Proof.
  intros c ie H. cbn [jsonl_iter].
  rewrite reverse_binary_spec; [|unfold jsonl_blocksize; lia|exact H].
  rewrite next_all_eq. reflexivity.
Qed.

Theorem jsonl_text_reverse {obj} (loads_text : text -> option obj) : forall t ie,
  forallb is_scalar t = true -> no_lone_cr t = true ->
  jsonl_iter loads_text TextUtf8 ie true (utf8_encode t) = Ok (jsonl_reverse_spec loads_text is_ws_str ie t).
Proof.
  intros t ie S H. cbn [jsonl_iter].
  rewrite reverse_text_spec; [|unfold jsonl_blocksize; lia|exact S|exact H].
  rewrite next_all_eq. reflexivity.
Qed.

(* forward and reverse yield the same objects, mirrored *)
Section Mirror.
  Context {obj : Type}.
  Variable loads_text : text -> option obj.
  Let loads_b := loads_bytes loads_text.
  Hypothesis text_lf : forall s, loads_text (s ++ [LF]) = loads_text s.
  Hypothesis bytes_lf : forall s, loads_b (s ++ [LF]) = loads_b s.
  Hypothesis bytes_crlf : forall s, loads_b (s ++ [CR; LF]) = loads_b s.

  Theorem jsonl_binary_mirror : forall c ie, no_lone_cr c = true ->
    ie = true \/ forallb (line_ok loads_b is_ws_bytes) (file_lines c) = true ->
    exists os, jsonl_iter loads_text Binary ie false c = Ok (os, false)
            /\ jsonl_iter loads_text Binary ie true c = Ok (rev os, false).
  Proof.
    intros c ie H D.
    rewrite (jsonl_binary_forward loads_text bytes_lf bytes_crlf c ie H).
    rewrite (jsonl_binary_reverse loads_text c ie H).
    destruct (spec_mirror loads_b is_ws_bytes ie c D) as [R F].
    exists (fst (jsonl_forward_spec loads_b is_ws_bytes ie c)). split.
    - f_equal. rewrite <- F. apply surjective_pairing.
    - f_equal. exact R.
  Qed.

  Theorem jsonl_text_mirror : forall t ie, forallb is_scalar t = true -> no_lone_cr t = true ->
    ie = true \/ forallb (line_ok loads_text is_ws_str) (file_lines t) = true ->
    exists os, jsonl_iter loads_text TextUtf8 ie false (utf8_encode t) = Ok (os, false)
            /\ jsonl_iter loads_text TextUtf8 ie true (utf8_encode t) = Ok (rev os, false).
  Proof.
    intros t ie S H D.
    rewrite (jsonl_text_forward loads_text text_lf t ie S H).
    rewrite (jsonl_text_reverse loads_text t ie S H).
    destruct (spec_mirror loads_text is_ws_str ie t D) as [R F].
    exists (fst (jsonl_forward_spec loads_text is_ws_str ie t)). split.
    - f_equal. rewrite <- F. apply surjective_pairing.
    - f_equal. exact R.
  Qed.
End Mirror.

(* latin-1 text-mode file: the text is the byte list *)
Theorem jsonl_latin1 {obj} (loads_text : text -> option obj) :
  (forall s, loads_text (s ++ [LF]) = loads_text s) ->
  forall c ie, no_lone_cr c = true ->
  jsonl_iter loads_text TextLatin1 ie false c = Ok (jsonl_forward_spec loads_text is_ws_str ie c) /\
  jsonl_iter loads_text TextLatin1 ie true c = Ok (jsonl_reverse_spec loads_text is_ws_str ie c).
Proof.
  intros L c ie H. split; cbn [jsonl_iter].
  - f_equal. apply (forward_text loads_text is_ws_str eq_refl L ie c H).
  - rewrite reverse_latin1_spec; [|unfold jsonl_blocksize; lia|exact H].
    rewrite next_all_eq. reflexivity.
Qed.

(* text-mode file in a line-break compatible single-byte encoding *)
Theorem jsonl_table {obj} (loads_text : text -> option obj) (tbl : sb_table) :
  table_ok tbl = true -> (forall s, loads_text (s ++ [LF]) = loads_text s) ->
  forall c t ie, sb_decode tbl c = Some t -> no_lone_cr t = true ->
  jsonl_iter loads_text (TextTable tbl) ie false c = Ok (jsonl_forward_spec loads_text is_ws_str ie t) /\
  jsonl_iter loads_text (TextTable tbl) ie true c = Ok (jsonl_reverse_spec loads_text is_ws_str ie t).
Proof.
  intros OK L c t ie D H. split; cbn [jsonl_iter].
  - rewrite D. f_equal. apply (forward_text loads_text is_ws_str eq_refl L ie t H).
  - rewrite (reverse_table_spec tbl OK c t); [|unfold jsonl_blocksize; lia|exact D|exact H].
    rewrite next_all_eq. reflexivity.
Qed.

(* ---- text mode needs no restriction on \r: universal newlines forward, bytes.splitlines in reverse --- *)
Section Universal.
  Context {obj : Type}.
  Variable loads : text -> option obj.
  Variable ws : N -> bool.
  Hypothesis ws_LF : ws LF = true.
  Hypothesis loads_lf : forall s, loads (s ++ [LF]) = loads s.

  Lemma fit_other x t : (x =? LF) = false -> (x =? CR) = false ->
    file_iter_text (x :: t) = cons_head x (file_iter_text t).
  Proof. intros A B. cbn [file_iter_text]. rewrite A, B. reflexivity. Qed.
  Lemma fit_cr t : starts_lf t = false -> file_iter_text (CR :: t) = [LF] :: file_iter_text t.
  Proof.
    intros E. cbn [file_iter_text]. change (CR =? LF) with false. change (CR =? CR) with true. cbv iota.
    destruct t as [|d t]; [reflexivity|]. cbn [starts_lf] in E. rewrite E. reflexivity.
  Qed.

  Lemma forward_text_universal ie : forall t cur,
    jsonl_objects loads ws ie (glue cur (file_iter_text t))
    = jsonl_objects loads ws ie (glue cur (splitlines is_nl_byte t)).
  Proof.
    intros t. pattern t. apply (split_ind is_nl_byte); clear t.
    - reflexivity.
    - intros x t B IH cur.
      assert (A1 : (x =? LF) = false /\ (x =? CR) = false) by (unfold is_nl_byte in B; apply orb_false_iff in B; exact B).
      destruct A1 as [A1 A2]. rewrite fit_other, sl_nobrk by assumption. rewrite !glue_cons_head. apply IH.
    - intros x t B E IH cur.
      assert (x = LF).
      { unfold is_nl_byte in B. unfold CR in E. rewrite E, orb_false_r in B. apply N.eqb_eq in B. exact B. }
      subst x. rewrite sl_brk by assumption. cbn [file_iter_text]. change (LF =? LF) with true. cbv iota.
      cbn [glue]. rewrite app_nil_r. apply (objects_term_lf loads ws ws_LF loads_lf).
      specialize (IH []). rewrite !glue_nil in IH. exact IH.
    - intros t B IH cur. rewrite sl_crlf by assumption.
      change (file_iter_text (CR :: LF :: t)) with ([LF] :: file_iter_text t).
      cbn [glue]. rewrite app_nil_r. apply (objects_term_lf loads ws ws_LF loads_lf).
      specialize (IH []). rewrite !glue_nil in IH. exact IH.
    - intros t B E IH cur. rewrite sl_cr, fit_cr by assumption.
      cbn [glue]. rewrite app_nil_r. apply (objects_term_lf loads ws ws_LF loads_lf).
      specialize (IH []). rewrite !glue_nil in IH. exact IH.
  Qed.

  Lemma objects_ril_tail ie t :
    jsonl_objects loads ws ie (ril_tail t) = jsonl_objects loads ws ie (rev (splitlines is_nl_byte t)).
  Proof.
    unfold ril_tail. destruct (is_nil t) eqn:E.
    - destruct t; [reflexivity|discriminate].
    - unfold bytes_splitlines. destruct (ends_lf t); reflexivity.
  Qed.

  (* forward and reverse mirror each other for EVERY text *)
  Lemma universal_mirror ie t : ie = true \/ forallb (line_ok loads ws) (splitlines is_nl_byte t) = true ->
    exists os, jsonl_objects loads ws ie (file_iter_text t) = (os, false)
            /\ jsonl_objects loads ws ie (ril_tail t) = (rev os, false).
  Proof.
    intros D. pose proof (forward_text_universal ie t []) as F. rewrite !glue_nil in F.
    rewrite F, objects_ril_tail.
    rewrite (objects_total loads ws ie _ D).
    rewrite objects_total.
    - rewrite flat_map_rev_small. eexists. split; reflexivity.
    - destruct D as [D|D]; [left; exact D|right].
      rewrite forallb_forall in *. intros l I. apply D. apply in_rev. exact I.
  Qed.
End Universal.

(* UTF-8 text-mode file holding ANY text t (lone \r included): same objects, mirrored *)
Theorem jsonl_text_mirror_all {obj} (loads : text -> option obj) :
  (forall s, loads (s ++ [LF]) = loads s) ->
  forall t ie, forallb is_scalar t = true ->
  ie = true \/ forallb (line_ok loads is_ws_str) (splitlines is_nl_byte t) = true ->
  exists os, jsonl_iter loads TextUtf8 ie false (utf8_encode t) = Ok (os, false)
          /\ jsonl_iter loads TextUtf8 ie true (utf8_encode t) = Ok (rev os, false).
Proof.
  intros L t ie S D. cbn [jsonl_iter]. rewrite decode_encode by exact S.
  rewrite reverse_text_all; [|unfold jsonl_blocksize; lia|exact S].
  rewrite !next_all_eq.
  destruct (universal_mirror loads is_ws_str eq_refl L ie t D) as [os [F R]].
  exists os. rewrite F, R. split; reflexivity.
Qed.
