(* Lemmas about the text primitives of Lib/C16_Text.v. *)
From Coq Require Import DecimalPos DecimalN.
From Boltons Require Import Lib.Prelude Lib.C16_Text.
Open Scope N_scope.

(* ---- equality tests ---------------------------------------------------------------- *)
Lemma str_eqb_eq a b : str_eqb a b = true <-> a = b.
Proof. apply list_eqb_eq. intros x y. apply N.eqb_eq. Qed.

Lemma str_eqb_refl a : str_eqb a a = true.
Proof. apply str_eqb_eq. reflexivity. Qed.

(* ---- prefixes ------------------------------------------------------------------------ *)
Lemma drop_prefix_app p s : drop_prefix p (p ++ s) = Some s.
Proof. induction p as [|a p IH]; cbn [drop_prefix app]; [reflexivity|]. rewrite N.eqb_refl. exact IH. Qed.

Lemma startswith_app p s : startswith p (p ++ s) = true.
Proof. induction p as [|a p IH]; cbn [startswith app]; [reflexivity|]. rewrite N.eqb_refl. exact IH. Qed.

Lemma drop_prefix_startswith p s : startswith p s = false -> drop_prefix p s = None.
Proof.
  revert s. induction p as [|a p IH]; intros s H; cbn [startswith drop_prefix] in *; [discriminate|].
  destruct s as [|b s]; [reflexivity|]. destruct (a =? b); [apply IH; exact H|reflexivity].
Qed.

Lemma drop_prefix_head p a s b : a <> b -> drop_prefix (a :: p) (b :: s) = None.
Proof. intro H. cbn [drop_prefix]. destruct (a =? b) eqn:E; [apply N.eqb_eq in E; contradiction|reflexivity]. Qed.

(* ---- span ------------------------------------------------------------------------------ *)
Lemma span_stop f a c r :
  forallb f a = true -> f c = false -> span f (a ++ c :: r) = (a, c :: r).
Proof.
  intros Ha Hc. induction a as [|x a IH]; cbn [span app].
  - rewrite Hc. reflexivity.
  - cbn [forallb] in Ha. apply andb_true_iff in Ha as [Hx Ha]. rewrite Hx, (IH Ha). reflexivity.
Qed.

Lemma span_all f a : forallb f a = true -> span f a = (a, []).
Proof.
  intro Ha. induction a as [|x a IH]; cbn [span]; [reflexivity|].
  cbn [forallb] in Ha. apply andb_true_iff in Ha as [Hx Ha]. rewrite Hx, (IH Ha). reflexivity.
Qed.

(* ---- strip ------------------------------------------------------------------------------- *)
Section Strip.
  Context (C : cc).

  Lemma lstrip_nonspace c r : is_sp C c = false -> lstrip C (c :: r) = c :: r.
  Proof. intro H. cbn [lstrip]. rewrite H. reflexivity. Qed.

  Lemma lstrip_spaces a s : forallb (is_sp C) a = true -> lstrip C (a ++ s) = lstrip C s.
  Proof.
    intro Ha. induction a as [|x a IH]; cbn [app lstrip]; [reflexivity|].
    cbn [forallb] in Ha. apply andb_true_iff in Ha as [Hx Ha]. rewrite Hx. exact (IH Ha).
  Qed.

  Lemma rstrip_unit s c : is_sp C c = false -> rstrip C (s ++ [c]) = s ++ [c].
  Proof.
    intro H. unfold rstrip. rewrite rev_unit. cbn [lstrip]. rewrite H.
    cbn [rev]. rewrite rev_involutive. reflexivity.
  Qed.

  Lemma rstrip_keep s1 s2 c : is_sp C c = false -> rstrip C (s1 ++ s2 ++ [c]) = s1 ++ s2 ++ [c].
  Proof. intro H. rewrite app_assoc. apply rstrip_unit. exact H. Qed.

  Lemma rstrip_last s c : is_sp C c = false -> rstrip C (s ++ [c]) = s ++ [c].
  Proof. apply rstrip_unit. Qed.

  (* the shape of a string whose last character is not white space *)
  Lemma last_shape (s : str) :
    s <> [] -> match rev s with [] => true | c :: _ => negb (is_sp C c) end = true ->
    exists s' c, s = s' ++ [c] /\ is_sp C c = false.
  Proof.
    intros Hne H. destruct (rev s) as [|c r] eqn:E.
    - apply (f_equal (@rev N)) in E. rewrite rev_involutive in E. contradiction.
    - exists (rev r), c. split.
      + apply (f_equal (@rev N)) in E. rewrite rev_involutive in E. exact E.
      + apply negb_true_iff in H. exact H.
  Qed.

  Lemma rstrip_nil : rstrip C [] = [].
  Proof. reflexivity. Qed.

  (* rstrip only removes white space from the end *)
  Lemma rstrip_spec s : exists w, s = rstrip C s ++ w /\ forallb (is_sp C) w = true.
  Proof.
    unfold rstrip. assert (G : forall t, exists w, t = rev w ++ lstrip C t /\ forallb (is_sp C) w = true).
    { induction t as [|c t IH]; [exists []; split; reflexivity|].
      cbn [lstrip]. destruct (is_sp C c) eqn:E.
      - destruct IH as [w [H1 H2]]. exists (w ++ [c]). split.
        + rewrite rev_app_distr. cbn [rev app]. f_equal. exact H1.
        + rewrite forallb_app, H2. cbn. rewrite E. reflexivity.
      - exists []. split; reflexivity. }
    destruct (G (rev s)) as [w [H1 H2]]. exists w. split; [|exact H2].
    apply (f_equal (@rev N)) in H1. rewrite rev_involutive, rev_app_distr, rev_involutive in H1. exact H1.
  Qed.

  Lemma lstrip_all_space w : forallb (is_sp C) w = true -> lstrip C w = [].
  Proof.
    induction w as [|c w IH]; intro H; [reflexivity|]. cbn [forallb] in H.
    apply andb_true_iff in H as [H1 H2]. cbn [lstrip]. rewrite H1. exact (IH H2).
  Qed.

  Lemma lstrip_idem s : lstrip C (lstrip C s) = lstrip C s.
  Proof.
    induction s as [|c s IH]; [reflexivity|]. cbn [lstrip]. destruct (is_sp C c) eqn:E; [exact IH|].
    cbn [lstrip]. rewrite E. reflexivity.
  Qed.

  Lemma rstrip_idem s : rstrip C (rstrip C s) = rstrip C s.
  Proof. unfold rstrip. rewrite rev_involutive, lstrip_idem. reflexivity. Qed.

  (* lstrip of  t ++ w  with w all white space: either t is all white space too, or only t matters *)
  Lemma lstrip_app_space t w :
    forallb (is_sp C) w = true -> lstrip C (t ++ w) = match lstrip C t with [] => [] | _ => lstrip C t ++ w end.
  Proof.
    intro Hw. induction t as [|c t IH]; cbn [app lstrip].
    - exact (lstrip_all_space w Hw).
    - destruct (is_sp C c); [exact IH|reflexivity].
  Qed.
End Strip.

(* ---- join / split ---------------------------------------------------------------------------- *)
Lemma join_cons sep l r : r <> [] -> join sep (l :: r) = l ++ sep ++ join sep r.
Proof. destruct r; [contradiction|reflexivity]. Qed.

Lemma join_single sep l : join sep [l] = l.
Proof. reflexivity. Qed.

Lemma join_app_last sep A B : B <> [] -> join sep (A ++ [join sep B]) = join sep (A ++ B).
Proof.
  intro HB. induction A as [|a A IH]; cbn [app].
  - reflexivity.
  - rewrite !join_cons.
    + rewrite IH. reflexivity.
    + destruct A, B; cbn; try discriminate; contradiction.
    + destruct A; cbn; discriminate.
Qed.

Lemma split_nl_nonnil s : split_nl s <> [].
Proof. destruct s as [|c s]; cbn [split_nl]; [discriminate|]. destruct (c =? 10); [discriminate|]. destruct (split_nl s); discriminate. Qed.

Lemma join_split_nl s : join [10] (split_nl s) = s.
Proof.
  induction s as [|c s IH]; [reflexivity|]. cbn [split_nl].
  destruct (c =? 10) eqn:E.
  - apply N.eqb_eq in E. subst c. rewrite join_cons by apply split_nl_nonnil. rewrite IH. reflexivity.
  - pose proof (split_nl_nonnil s) as Hn. destruct (split_nl s) as [|l ls]; [contradiction|].
    destruct ls as [|l2 ls].
    + cbn [join] in *. rewrite IH. reflexivity.
    + cbn [join app] in IH |- *. f_equal. exact IH.
Qed.

(* every line of split_nl is free of newlines *)
Lemma split_nl_no_nl s : Forall (fun l => forallb (fun c => negb (c =? 10)) l = true) (split_nl s).
Proof.
  induction s as [|c s IH]; cbn [split_nl]; [repeat constructor|].
  destruct (c =? 10) eqn:E.
  - constructor; [reflexivity|exact IH].
  - pose proof (split_nl_nonnil s) as Hn. destruct (split_nl s) as [|l ls]; [contradiction|].
    inversion IH; subst. constructor; [|assumption]. cbn [forallb]. rewrite E. assumption.
Qed.

(* characters of the lines are characters of the text *)
Lemma split_nl_chars (P : N -> bool) s :
  forallb (fun c => P c || (c =? 10)) s = true ->
  Forall (fun l => forallb P l = true) (split_nl s).
Proof.
  induction s as [|c s IH]; cbn [split_nl forallb]; intro H; [repeat constructor|].
  apply andb_true_iff in H as [Hc Hs]. specialize (IH Hs).
  destruct (c =? 10) eqn:E.
  - constructor; [reflexivity|exact IH].
  - pose proof (split_nl_nonnil s) as Hn. destruct (split_nl s) as [|l ls]; [contradiction|].
    inversion IH; subst. constructor; [|assumption]. cbn [forallb].
    rewrite orb_false_r in Hc. rewrite Hc. assumption.
Qed.

(* a text whose last character is not a newline has a non-empty last line *)
Lemma split_nl_last s c : c <> 10 -> last (split_nl (s ++ [c])) [] <> [].
Proof.
  intro Hc. apply N.eqb_neq in Hc. induction s as [|a s IH]; cbn [app split_nl].
  - rewrite Hc. cbn. discriminate.
  - pose proof (split_nl_nonnil (s ++ [c])) as Hn.
    destruct (split_nl (s ++ [c])) as [|l ls]; [contradiction|].
    destruct (a =? 10).
    + exact IH.
    + destruct ls; [cbn; discriminate|exact IH].
Qed.

(* ---- splitlines ---------------------------------------------------------------------------------- *)
Section Lines.
  Context (C : cc) (Hnl : is_br C 10 = true).

  Lemma splitlines_line l r : no_break C l = true -> splitlines C (l ++ 10 :: r) = l :: splitlines C r.
  Proof.
    intro Hl. induction l as [|c l IH]; cbn [app].
    - cbn [splitlines]. rewrite Hnl. cbn [N.eqb andb]. destruct r; reflexivity.
    - cbn [no_break forallb] in Hl. apply andb_true_iff in Hl as [Hc Hl]. apply negb_true_iff in Hc.
      cbn [splitlines]. rewrite Hc. fold (no_break C l) in Hl. rewrite (IH Hl). reflexivity.
  Qed.

  Lemma splitlines_one l : no_break C l = true -> l <> [] -> splitlines C l = [l].
  Proof.
    intros Hl Hne. induction l as [|c l IH]; [contradiction|].
    cbn [no_break forallb] in Hl. apply andb_true_iff in Hl as [Hc Hl]. apply negb_true_iff in Hc.
    cbn [splitlines]. rewrite Hc. destruct l as [|d l]; [reflexivity|].
    fold (no_break C (d :: l)) in Hl. rewrite (IH Hl) by discriminate. reflexivity.
  Qed.

  Lemma splitlines_join ls :
    ls <> [] -> Forall (fun l => no_break C l = true) ls -> last ls [] <> [] ->
    splitlines C (join [10] ls) = ls.
  Proof.
    induction ls as [|l ls IH]; intros Hne Hall Hlast; [contradiction|].
    inversion Hall; subst. destruct ls as [|l2 ls].
    - cbn [join]. cbn [last] in Hlast. apply splitlines_one; assumption.
    - rewrite join_cons by discriminate. cbn [app]. rewrite splitlines_line by assumption.
      f_equal. apply IH; [discriminate|assumption|exact Hlast].
  Qed.
End Lines.

(* ---- partition -------------------------------------------------------------------------------------- *)
Lemma partition_step sep c r :
  drop_prefix sep (c :: r) = None ->
  partition sep (c :: r) = (let '(a, m, b) := partition sep r in (c :: a, m, b)).
Proof. intro H. cbn [partition]. rewrite H. reflexivity. Qed.

Lemma colon_not_here c ty rest :
  (c =? 32) = false -> forallb (fun c => negb (c =? 32)) ty = true ->
  drop_prefix [58; 32] (c :: ty ++ 58 :: rest) = None.
Proof.
  intros Hc H. cbn [drop_prefix]. destruct (58 =? c); [|reflexivity].
  destruct ty as [|d ty]; cbn [app].
  - reflexivity.
  - cbn [forallb] in H. apply andb_true_iff in H as [Hd _]. apply negb_true_iff in Hd.
    rewrite N.eqb_sym, Hd. reflexivity.
Qed.

(* "ty: msg".partition(": ") when ty contains no blank *)
Lemma partition_colon ty m :
  forallb (fun c => negb (c =? 32)) ty = true ->
  partition [58; 32] (ty ++ 58 :: 32 :: m) = (ty, [58; 32], m).
Proof.
  intro H. induction ty as [|c ty IH].
  - cbn. reflexivity.
  - cbn [forallb] in H. apply andb_true_iff in H as [Hc H]. apply negb_true_iff in Hc.
    cbn [app]. rewrite partition_step by (apply colon_not_here; assumption).
    rewrite (IH H). reflexivity.
Qed.

Lemma partition_none ty :
  forallb (fun c => negb (c =? 32)) ty = true -> partition [58; 32] ty = (ty, [], []).
Proof.
  intro H. induction ty as [|c ty IH]; [reflexivity|].
  cbn [forallb] in H. apply andb_true_iff in H as [Hc H]. apply negb_true_iff in Hc.
  rewrite partition_step.
  - rewrite (IH H). reflexivity.
  - cbn [drop_prefix]. destruct (58 =? c); [|reflexivity]. destruct ty as [|d ty]; [reflexivity|].
    cbn [forallb] in H. apply andb_true_iff in H as [Hd _]. apply negb_true_iff in Hd.
    rewrite N.eqb_sym, Hd. reflexivity.
Qed.

(* ---- decimal rendering ------------------------------------------------------------------------------- *)
Lemma uint_codes_digits u : forallb (fun c => (48 <=? c) && (c <=? 57)) (uint_codes u) = true.
Proof. induction u; cbn [uint_codes forallb]; try reflexivity; rewrite IHu; reflexivity. Qed.

Lemma dec_digits n : forallb (fun c => (48 <=? c) && (c <=? 57)) (dec n) = true.
Proof. apply uint_codes_digits. Qed.

Lemma dec_nonnil n : dec n <> [].
Proof.
  unfold dec. destruct n as [|p]; [cbn; discriminate|].
  cbn [N.to_uint]. pose proof (Unsigned.to_uint_nonnil p) as H.
  destruct (Pos.to_uint p); cbn [uint_codes]; try discriminate. contradiction.
Qed.

Lemma uint_codes_inj u v : uint_codes u = uint_codes v -> u = v.
Proof.
  revert v. induction u; intros v H; destruct v; cbn [uint_codes] in H; try discriminate; try reflexivity;
    injection H as H; f_equal; apply IHu; exact H.
Qed.

Lemma dec_inj a b : dec a = dec b -> a = b.
Proof.
  unfold dec. intro H. apply uint_codes_inj in H.
  rewrite <- (DecimalN.Unsigned.of_to a), <- (DecimalN.Unsigned.of_to b), H. reflexivity.
Qed.
