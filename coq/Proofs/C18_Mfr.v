(* MultiFileReader: any mix of sized / unsized reads and seek(0) returns what one
   file holding the concatenation returns. *)
From Coq Require Import ZifyBool.
From Boltons Require Import Lib.Prelude Spec.C18_Spec Model.C18_Model Proofs.C18_Lines Proofs.C18_Bytes.

(* what is still to come: members before the index are drained, the others
   hold, in order, exactly the rest of the concatenation *)
Definition minv (contents : list (list N)) (m : mfr) (R : list N) : Prop :=
  Forall (fun f => rest f = []) (firstn (m_index m) (m_files m)) /\
  concat (map rest (skipn (m_index m) (m_files m))) = R /\
  map rf_data (m_files m) = contents.

Lemma nth_error_mid {A} (pre : list A) x suf : nth_error (pre ++ x :: suf) (length pre) = Some x.
Proof. induction pre; simpl; auto. Qed.

Lemma set_nth_mid {A} (pre : list A) x y suf : set_nth (pre ++ x :: suf) (length pre) y = pre ++ y :: suf.
Proof. induction pre; simpl; [reflexivity|]. now rewrite IHpre. Qed.

Lemma firstn_pre {A} (pre suf : list A) : firstn (length pre) (pre ++ suf) = pre.
Proof. rewrite firstn_app, firstn_all, Nat.sub_diag. simpl. apply app_nil_r. Qed.

Lemma skipn_pre {A} (pre suf : list A) : skipn (length pre) (pre ++ suf) = suf.
Proof. rewrite skipn_app, skipn_all, Nat.sub_diag. reflexivity. Qed.

Lemma read_some f amt :
  call_data f (Read (Some amt)) = (advance f (length (firstn amt (rest f))), firstn amt (rest f)).
Proof. reflexivity. Qed.

Lemma read_all f : call_data f (Read None) = (advance f (length (rest f)), rest f).
Proof. reflexivity. Qed.

Lemma rest_advance_all f : rest (advance f (length (rest f))) = [].
Proof. rewrite rest_advance. apply skipn_all. Qed.

(* the sized-read loop, started at the boundary between [pre] and [suf] *)
Lemma mfr_loop_spec contents : forall suf pre fuel amt parts,
  length suf + 1 <= fuel ->
  Forall (fun f => rest f = []) pre ->
  map rf_data (pre ++ suf) = contents ->
  exists m',
    mfr_loop fuel (mkMFR (pre ++ suf) (length pre)) amt parts =
      (m', OData (parts ++ firstn amt (concat (map rest suf)))) /\
    minv contents m' (skipn amt (concat (map rest suf))).
Proof.
  induction suf as [|f suf IH]; intros pre fuel amt parts F P D.
  - destruct fuel as [|fuel]; [simpl in F; lia|]. rewrite app_nil_r in *. cbn [mfr_loop m_index m_files].
    replace (length pre <? length pre) with false by lia.
    rewrite andb_false_r. cbn [map concat]. rewrite firstn_nil, skipn_nil, app_nil_r.
    eexists; split; [reflexivity|].
    unfold minv. cbn [m_index m_files]. rewrite firstn_all, skipn_all. auto.
  - destruct fuel as [|fuel]; [simpl in F; lia|]. cbn [mfr_loop m_index m_files].
    destruct amt as [|amt].
    + cbn [Nat.ltb Nat.leb andb]. eexists; split; [now rewrite app_nil_r|].
      cbn [firstn skipn]. unfold minv. cbn [m_index m_files]. rewrite firstn_pre, skipn_pre. auto.
    + replace (length pre <? length (pre ++ f :: suf)) with true by (rewrite app_length; simpl; lia).
      cbn [Nat.ltb Nat.leb andb]. rewrite nth_error_mid, read_some, set_nth_mid.
      set (part := firstn (S amt) (rest f)). set (f' := advance f (length part)).
      cbn [map concat].
      change (length part <=? amt) with (length part <? S amt).
      destruct (length part <? S amt) eqn:G.
      * (* the member is exhausted: move to the next one *)
        assert (L : length (rest f) < S amt).
        { unfold part in G. rewrite firstn_length in G. lia. }
        assert (Epart : part = rest f) by (unfold part; apply firstn_all2; lia).
        assert (R' : rest f' = []).
        { unfold f'. rewrite Epart. apply rest_advance_all. }
        specialize (IH (pre ++ [f']) fuel (S amt - length part) (parts ++ part)).
        rewrite <- app_assoc in IH. cbn [app] in IH. rewrite app_length in IH. cbn [length] in IH.
        replace (length pre + 1) with (S (length pre)) in IH by lia.
        destruct IH as [m' [E I]].
        -- simpl in F. lia.
        -- apply Forall_app. split; [exact P|]. constructor; [exact R'|constructor].
        -- rewrite <- D. rewrite !map_app. cbn. reflexivity.
        -- exists m'. split.
           ++ rewrite E. f_equal. f_equal. rewrite <- app_assoc. f_equal.
              rewrite firstn_app, Epart. rewrite (firstn_all2 (rest f)) by lia. reflexivity.
           ++ rewrite Epart in I. rewrite skipn_app. rewrite (skipn_all2 (rest f)) by lia. exact I.
      * (* satisfied from this member: the loop ends at the next test *)
        assert (L : S amt <= length (rest f)).
        { unfold part in G. rewrite firstn_length in G. lia. }
        assert (Lp : length part = S amt) by (unfold part; rewrite firstn_length; lia).
        rewrite Lp, Nat.sub_diag.
        destruct fuel as [|fuel]; [simpl in F; lia|]. cbn [mfr_loop Nat.ltb Nat.leb andb].
        eexists; split.
        -- f_equal. f_equal. f_equal. rewrite firstn_app.
           replace (S amt - length (rest f)) with 0 by lia. cbn [firstn]. now rewrite app_nil_r.
        -- unfold minv. cbn [m_index m_files]. rewrite firstn_pre, skipn_pre. repeat split.
           ++ exact P.
           ++ cbn [map concat]. rewrite skipn_app.
              replace (S amt - length (rest f)) with 0 by lia. cbn [skipn]. f_equal.
              unfold f'. rewrite rest_advance, Lp. reflexivity.
           ++ rewrite <- D. rewrite !map_app. reflexivity.
Qed.

Lemma skipn_firstn_len {A} n (l : list A) : skipn (length (firstn n l)) l = skipn n l.
Proof.
  rewrite firstn_length. destruct (Nat.le_ge_cases n (length l)).
  - now rewrite Nat.min_l.
  - rewrite Nat.min_r by assumption. now rewrite !skipn_all2 by lia.
Qed.

Lemma split_at {A} n (l : list A) : n <= length l -> l = firstn n l ++ skipn n l /\ length (firstn n l) = n.
Proof. intros. split; [symmetry; apply firstn_skipn|apply firstn_length_le; assumption]. Qed.

(* one call *)
Lemma mfr_step_ref contents m fs op :
  minv contents m (rest fs) -> rf_data fs = concat contents -> mref_pre op = true ->
  let '(m', o) := mfr_step m op in
  let '(fs', o') := mref_step fs op in
  o = o' /\ minv contents m' (rest fs') /\ rf_data fs' = concat contents.
Proof.
  intros [I1 [I2 I3]] D P.
  destruct op as [[[|amt]|]|].
  - (* read(0): nothing, nothing moves *)
    cbn [mfr_step mref_step ref_step mfr_loop Nat.ltb Nat.leb andb firstn length].
    split; [reflexivity|]. split; [|exact D].
    rewrite rest_advance. cbn [skipn]. repeat split; assumption.
  - (* sized read *)
    cbn [mfr_step mref_step ref_step].
    destruct (Nat.le_gt_cases (m_index m) (length (m_files m))) as [Hi|Hi].
    + destruct (split_at _ _ Hi) as [Sp Ln].
      destruct m as [files idx]. cbn [m_files m_index] in *.
      pose proof (mfr_loop_spec contents (skipn idx files) (firstn idx files)
                                (S (S (length files))) (S amt) []) as H.
      rewrite <- Sp, Ln in H. destruct H as [m' [E I]].
      * rewrite skipn_length. lia.
      * exact I1.
      * exact I3.
      * rewrite E. rewrite I2 in *. cbn [app]. split; [reflexivity|]. split; [|assumption].
        rewrite rest_advance, skipn_firstn_len. exact I.
    + (* index past the end cannot happen, but the statement does not need to know *)
      destruct m as [files idx]. cbn [m_files m_index] in *.
      cbn [mfr_loop m_index m_files].
      replace (idx <? length files) with false by lia. rewrite andb_false_r.
      rewrite skipn_all2 in I2 by lia. cbn in I2. rewrite <- I2. cbn [firstn app length].
      split; [reflexivity|]. split; [|assumption].
      unfold advance, rest. cbn [rf_pos rf_data]. rewrite Nat.add_0_r. fold (rest fs). rewrite <- I2.
      unfold minv. cbn [m_index m_files]. repeat split; try assumption.
      rewrite skipn_all2 by lia. reflexivity.
  - (* unsized read: every member is read to its end *)
    cbn [mfr_step mref_step ref_step]. rewrite map_map.
    assert (Hall : concat (map (fun f => snd (call_data f (Read None))) (m_files m)) = rest fs).
    { rewrite <- (firstn_skipn (m_index m) (m_files m)) at 1. rewrite map_app, concat_app.
      replace (concat (map (fun f => snd (call_data f (Read None))) (firstn (m_index m) (m_files m)))) with (@nil N).
      - cbn [app]. rewrite <- I2. f_equal.
      - symmetry. induction I1 as [|x l Hx Hl IHl]; [reflexivity|]. cbn. rewrite Hx. exact IHl. }
    split; [now rewrite Hall|]. split; [|assumption].
    rewrite map_map. cbn [call_data call ref_step fst].
    set (drain := fun x : rfile => advance x (length (rest x))).
    assert (A : forall l : list rfile, Forall (fun f => rest f = []) (map drain l)).
    { induction l as [|g l IHl]; constructor; [apply rest_advance_all|exact IHl]. }
    assert (B : forall l : list rfile, Forall (fun f => rest f = []) l -> concat (map rest l) = []).
    { induction 1 as [|g l Hg Hl IHl]; [reflexivity|]. cbn. now rewrite Hg, IHl. }
    unfold minv. cbn [m_index m_files]. rewrite rest_advance_all.
    pose proof (A (m_files m)) as A'.
    rewrite <- (firstn_skipn (m_index m) (map drain (m_files m))) in A'.
    apply Forall_app in A' as [A1 A2].
    repeat split.
    + exact A1.
    + apply B. exact A2.
    + rewrite map_map. cbn. exact I3.
  - (* seek(0) *)
    cbn [mfr_step mref_step]. split; [reflexivity|]. split; [|assumption].
    unfold minv. cbn [m_index m_files firstn skipn]. repeat split.
    + constructor.
    + unfold rest at 2. cbn [rf_pos rf_data skipn]. rewrite D, <- I3.
      rewrite map_map. reflexivity.
    + rewrite map_map. rewrite <- I3. apply map_ext. intro f. now rewrite f_seek0_eq.
Qed.

Lemma mfr_run_ref contents ops : forall m fs r,
  minv contents m (rest fs) -> rf_data fs = concat contents ->
  mref_run fs ops = Some r -> mfr_run m ops = r.
Proof.
  induction ops as [|op ops IH]; intros m fs r I D R; cbn [mref_run mfr_run] in *.
  - congruence.
  - destruct (mref_pre op) eqn:P; [|discriminate].
    pose proof (mfr_step_ref contents m fs op I D P) as S.
    destruct (mfr_step m op) as [m' o]. destruct (mref_step fs op) as [fs' o'].
    destruct S as [-> [I' D']].
    destruct (mref_run fs' ops) as [os|] eqn:R'; [|discriminate].
    rewrite (IH m' fs' os I' D' R'). congruence.
Qed.

Theorem mfr_reads_concatenation contents ops r :
  mref_run (mkRF (concat contents) 0) ops = Some r ->
  mfr_run (mfr_init contents) ops = r.
Proof.
  apply mfr_run_ref with (contents := contents); [|reflexivity].
  unfold minv, mfr_init. cbn [m_index m_files firstn skipn]. repeat split.
  - constructor.
  - unfold rest at 2. cbn. rewrite map_map. f_equal. unfold rest. cbn. apply map_id.
  - rewrite map_map. cbn. apply map_id.
Qed.
