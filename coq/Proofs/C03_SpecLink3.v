(* C03: the statement of the property, for the micro-step model, against C03's own reference:
   under every schedule there is ONE sequence of (thread, operation, result) events that
   (1) restricted to each thread is exactly that thread's program with the results it got,
   (2) is accepted step by step by the sequential reference cache of Spec/C03_Spec.v, and
   (3) ends in the reference state that the final dict + ring represent. *)
From Boltons Require Import Lib.Prelude Lib.C03_Syntax Lib.C03_Conc Model.C03_Model Spec.C03_Spec
     Proofs.C03_Serial Proofs.C03_Covered Proofs.C03_Main
     Proofs.C03_Link1 Proofs.C03_Link2 Proofs.C03_Link4 Proofs.C03_Link3 Proofs.C03_SpecLink Proofs.C03_SpecLink2.
From Boltons Require Lib.C02_Syntax Model.C02_Model.

Definition event := (nat * op * rv)%type.

Definition ops_of (t : nat) (tr : list event) : list op :=
  map (fun e => snd (fst e)) (filter (fun e => Nat.eqb (fst (fst e)) t) tr).
Definition results_of (t : nat) (tr : list event) : list rv :=
  map snd (filter (fun e => Nat.eqb (fst (fst e)) t) tr).

(* the events of a serial execution in a given order *)
Fixpoint serial_trace (tb : lock_table) (c : config) (sh : shared) (todo : nat -> list op) (order : list nat)
  : list event * shared * (nat -> list op) :=
  match order with
  | [] => ([], sh, todo)
  | t :: r =>
      match todo t with
      | [] => serial_trace tb c sh todo r
      | o :: rest =>
          let '(sh', x) := run_op tb c sh o in
          let '(tr, shf, todof) := serial_trace tb c sh' (upd todo t rest) r in
          ((t, o, x) :: tr, shf, todof)
      end
  end.

(* the reference replaying a sequence of events *)
Fixpoint spec_replay (rc : rcfg) (l : rcache) (tr : list event) : option rcache :=
  match tr with
  | [] => Some l
  | (_, o, x) :: r => match r_accepts rc l o x with
                      | Some l' => spec_replay rc l' r
                      | None => None
                      end
  end.

Lemma serial_trace_spec tb c order : forall sh todo done,
  let '(shS, todoS, doneS) := fold_left (serial_step sem (compile_l tb c)) order (sh, todo, done) in
  let '(tr, shf, todof) := serial_trace tb c sh todo order in
  shS = shf /\ (forall t, todoS t = todof t) /\ (forall t, doneS t = done t ++ results_of t tr)
  /\ (forall t, todo t = ops_of t tr ++ todof t).
Proof.
  induction order as [|t r IH]; intros sh todo done; simpl.
  - unfold results_of; simpl. split; [reflexivity|split; [reflexivity|split; [intro; now rewrite app_nil_r|reflexivity]]].
  - destruct (todo t) as [|o rest] eqn:ET.
    + specialize (IH sh todo done). exact IH.
    + change (C03_Conc.arun sem (compile_l tb c o) sh) with (run_op tb c sh o).
      destruct (run_op tb c sh o) as [sh' x].
      specialize (IH sh' (upd todo t rest) (upd done t (done t ++ [x]))). revert IH.
      destruct (fold_left (serial_step sem (compile_l tb c)) r
                          (sh', upd todo t rest, upd done t (done t ++ [x]))) as [[shS todoS] doneS].
      destruct (serial_trace tb c sh' (upd todo t rest) r) as [[tr shf] todof]. intro IH.
      destruct IH as [E1 [E2 [E3 E4]]]. split; [exact E1|]. split; [exact E2|]. split.
      * intro u. rewrite E3. unfold upd, results_of. simpl.
        destruct (Nat.eqb_spec u t) as [->|NE].
        -- rewrite Nat.eqb_refl. simpl. now rewrite <- app_assoc.
        -- destruct (Nat.eqb_spec t u); [congruence|]. reflexivity.
      * intro u. specialize (E4 u). unfold upd, ops_of in *. simpl.
        destruct (Nat.eq_dec u t) as [Eu|NE].
        -- subst u. rewrite Nat.eqb_refl in *. simpl. rewrite ET. now rewrite E4.
        -- assert (F1 : Nat.eqb u t = false) by now apply Nat.eqb_neq.
           assert (F2 : Nat.eqb t u = false) by (apply Nat.eqb_neq; congruence).
           rewrite F1 in E4. rewrite F2. exact E4.
Qed.

Lemma trace_accepted tb c : 1 <= cf_max c -> forall order sh todo m,
  stands_for c sh m -> (forall t, Forall wf_op (todo t)) ->
  let '(tr, shf, todof) := serial_trace tb c sh todo order in
  exists mf, stands_for c shf mf /\ spec_replay (rc_of c) (M2.ring m) tr = Some (M2.ring mf).
Proof.
  intros Hmax. induction order as [|t r IH]; intros sh todo m SF WF; simpl.
  - exists m. split; [exact SF|reflexivity].
  - destruct (todo t) as [|o rest] eqn:ET.
    + apply IH; assumption.
    + assert (Wo : wf_op o /\ Forall wf_op rest).
      { specialize (WF t). rewrite ET in WF. inversion WF; auto. }
      pose proof (op_accepted_by_c03_spec tb c sh m o Hmax (proj1 Wo) SF) as OA.
      destruct (run_op tb c sh o) as [sh' x]. destruct OA as [m' [SF' A]].
      assert (WF' : forall u, Forall wf_op (upd todo t rest u)).
      { intro u. unfold upd. destruct (Nat.eqb u t); [exact (proj2 Wo)|apply WF]. }
      specialize (IH sh' (upd todo t rest) m' SF' WF'). revert IH.
      destruct (serial_trace tb c sh' (upd todo t rest) r) as [[tr shf] todof]. intro IH.
      destruct IH as [mf [SFf RP]]. exists mf. split; [exact SFf|].
      simpl. rewrite A. exact RP.
Qed.

Theorem atomic_wrt_c03_spec :
  forall tb, table_covered tb = true ->
  forall c, 1 <= cf_max c ->
  forall progs : nat -> list op, (forall t, Forall wf_op (progs t)) ->
  forall sh0 m0, stands_for c sh0 m0 ->
  forall sched,
    let s := conc_run tb c progs sh0 sched in
    finished s ->
    exists (tr : list event) mf,
      (forall t, ops_of t tr = progs t)
      /\ (forall t, results_of t tr = t_done (m_thr s t))
      /\ spec_replay (rc_of c) (M2.ring m0) tr = Some (M2.ring mf)
      /\ stands_for c (m_sh s) mf.
Proof.
  intros tb T c Hmax progs WF sh0 m0 SF sched s F.
  destruct (serialisable_model tb T c progs sh0 sched F) as [order H].
  pose proof (serial_trace_spec tb c order sh0 progs (fun _ => [])) as TS.
  pose proof (trace_accepted tb c Hmax order sh0 progs m0 SF WF) as TA.
  unfold serial_run, serial in H. revert H TS TA.
  destruct (fold_left (serial_step sem (compile_l tb c)) order (sh0, progs, fun _ => [])) as [[shS todoS] doneS].
  destruct (serial_trace tb c sh0 progs order) as [[tr shf] todof]. intros H TS TA.
  destruct H as [Hsh [Hd Ht]]. destruct TS as [E1 [E2 [E3 E4]]]. destruct TA as [mf [SFf RP]].
  fold s in Hsh, Hd.
  exists tr, mf. split; [|split; [|split]].
  - intro t. rewrite E4, <- E2, Ht. now rewrite app_nil_r.
  - intro t. rewrite Hd, E3. reflexivity.
  - exact RP.
  - rewrite Hsh, E1. exact SFf.
Qed.
