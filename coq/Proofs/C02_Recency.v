(* C02: the recency list is the list of present keys ordered by their latest
   use -- the declarative reading of "evicts the key whose latest insertion /
   assignment (LRI) or insertion / assignment / successful lookup (LRU) is
   oldest". *)
From Boltons Require Import Lib.Prelude Lib.C02_Syntax Spec.C02_Spec Model.C02_Model
  Proofs.C02_Lists Proofs.C02_Eqb Proofs.C02_Inv Proofs.C02_Refine Proofs.C02_Heap Proofs.C02_Thms Proofs.C02_Counters.
Close Scope N_scope.
Open Scope nat_scope.

(* ---- the use log ------------------------------------------------------------- *)
(* Keys "used" by one call, in order, judged from outside (`present k` = the
   answer of `k in cache` just before the call): an assignment uses its key; a
   lookup of a present key uses it only in an LRU; a lookup of an absent key
   inserts (hence uses) it when on_miss supplies a value, and setdefault
   inserts it in any case; update / |= assign their pairs in order. *)
Definition lookup_uses (c : cfg) (present : K -> bool) (k : K) (inserts_default : bool) : list K :=
  if present k then match c_cls c with LRU => [k] | LRI => [] end
  else match c_on_miss c with
       | Some _ => [k]
       | None => if inserts_default then [k] else []
       end.

Definition op_uses (c : cfg) (present : K -> bool) (o : op1) : list K :=
  match o with
  | SetItem k _ => [k]
  | GetItem k | Get k _ => lookup_uses c present k false
  | SetDefault k _ => lookup_uses c present k true
  | Update e f => map fst (e ++ f)
  | IOr e => map fst e
  | UpdateSelf f => map fst f
  | _ => []
  end.

Fixpoint use_log (c : cfg) (m : cache) (ops : list op1) : list K :=
  match ops with
  | [] => []
  | o :: rest => op_uses c (d_mem (store m)) o ++ use_log c (fst (step1 c m o)) rest
  end.

(* keep only the last occurrence of every key: keys in the order of their latest use *)
Fixpoint keep_last (l : list nat) : list nat :=
  match l with
  | [] => []
  | x :: r => if existsb (Nat.eqb x) r then keep_last r else x :: keep_last r
  end.

Definition remove_k (k : nat) (l : list nat) : list nat := filter (fun x => negb (Nat.eqb x k)) l.

(* the statement: the recency list, oldest first, is the list of present keys
   in the order of their latest use *)
Definition by_latest_use (items : list (K * V)) (log : list K) : Prop :=
  keys items = filter (d_mem items) (keep_last log).

(* ---- list lemmas ---------------------------------------------------------------- *)
Lemma keep_last_snoc l k : keep_last (l ++ [k]) = remove_k k (keep_last l) ++ [k].
Proof.
  induction l as [|x r IH]; simpl; [reflexivity|].
  rewrite existsb_app. simpl.
  destruct (existsb (Nat.eqb x) r) eqn:EX; simpl; [exact IH|].
  destruct (Nat.eqb_spec x k) as [->|NE]; simpl.
  - exact IH.
  - now rewrite IH.
Qed.

Lemma filter_comm {A} (p q : A -> bool) l : filter p (filter q l) = filter q (filter p l).
Proof.
  induction l as [|x r IH]; simpl; [reflexivity|].
  destruct (p x) eqn:P, (q x) eqn:Q; simpl; rewrite ?P, ?Q, IH; reflexivity.
Qed.

Lemma filter_ext_in' {A} (p q : A -> bool) l : (forall x, In x l -> p x = q x) -> filter p l = filter q l.
Proof.
  induction l as [|x r IH]; simpl; intro H; [reflexivity|].
  rewrite (H x) by now left. rewrite IH; [reflexivity|]. intros y Hy. apply H. now right.
Qed.

Lemma in_remove_k k x l : In x (remove_k k l) <-> In x l /\ x <> k.
Proof.
  unfold remove_k. rewrite filter_In, negb_true_iff, Nat.eqb_neq. tauto.
Qed.

Lemma remove_k_notin k l : ~ In k l -> remove_k k l = l.
Proof.
  induction l as [|x r IH]; simpl; intro H; [reflexivity|].
  destruct (Nat.eqb_spec x k); [exfalso; apply H; now left|]. simpl. f_equal. apply IH. tauto.
Qed.

Lemma keys_del_remove (l : list (K * V)) k : NoDup (keys l) -> keys (d_del l k) = remove_k k (keys l).
Proof.
  induction l as [|[k0 v0] r IH]; simpl; intro ND; [reflexivity|].
  inversion ND; subst. destruct (Nat.eqb_spec k k0) as [->|NE]; simpl.
  - rewrite Nat.eqb_refl. simpl. symmetry. now apply remove_k_notin.
  - destruct (Nat.eqb_spec k0 k); [congruence|]. simpl. f_equal. now apply IH.
Qed.

Lemma filter_app' {A} (p : A -> bool) l1 l2 : filter p (l1 ++ l2) = filter p l1 ++ filter p l2.
Proof. induction l1; simpl; [reflexivity|]. destruct (p a); simpl; now rewrite IHl1. Qed.

(* ---- the four list transitions ---------------------------------------------------- *)
Lemma latest_touch (l : list (K * V)) log k v :
  NoDup (keys l) -> by_latest_use l log -> In k (keys l) ->
  by_latest_use (d_del l k ++ [(k, v)]) (log ++ [k]).
Proof.
  intros ND J Hk. unfold by_latest_use in *.
  rewrite keys_app, keys_del_remove by assumption. simpl.
  rewrite keep_last_snoc, filter_app'. simpl.
  assert (M : d_mem (d_del l k ++ [(k, v)]) k = true).
  { apply d_mem_iff. rewrite keys_app. apply in_or_app. right. now left. }
  rewrite M. f_equal.
  rewrite J. unfold remove_k at 1. rewrite filter_comm. apply filter_ext_in'.
  intros x Hx. apply in_remove_k in Hx as [_ NE].
  unfold d_mem. rewrite d_get_app, d_get_del by assumption. simpl.
  destruct (Nat.eqb_spec x k); [congruence|]. destruct (d_get l x); reflexivity.
Qed.

Lemma latest_append (l : list (K * V)) log k v :
  by_latest_use l log -> ~ In k (keys l) ->
  by_latest_use (l ++ [(k, v)]) (log ++ [k]).
Proof.
  intros J Hk. unfold by_latest_use in *.
  rewrite keys_app. simpl. rewrite keep_last_snoc, filter_app'. simpl.
  assert (M : d_mem (l ++ [(k, v)]) k = true).
  { apply d_mem_iff. rewrite keys_app. apply in_or_app. right. now left. }
  rewrite M. f_equal.
  rewrite <- (remove_k_notin k (keys l)) at 1 by assumption.
  rewrite J. unfold remove_k at 1. rewrite filter_comm. apply filter_ext_in'.
  intros x Hx. apply in_remove_k in Hx as [_ NE].
  unfold d_mem. rewrite d_get_app. simpl.
  destruct (Nat.eqb_spec x k); [congruence|]. destruct (d_get l x); reflexivity.
Qed.

Lemma filter_filter {A} (p q : A -> bool) l : filter p (filter q l) = filter (fun x => q x && p x) l.
Proof.
  induction l as [|x r IH]; simpl; [reflexivity|].
  destruct (q x); simpl; [destruct (p x)|]; now rewrite IH.
Qed.

Lemma latest_del (l : list (K * V)) log k :
  NoDup (keys l) -> by_latest_use l log -> by_latest_use (d_del l k) log.
Proof.
  intros ND J. unfold by_latest_use in *.
  rewrite keys_del_remove, J by assumption. unfold remove_k. rewrite filter_filter.
  apply filter_ext_in'. intros x _. unfold d_mem. rewrite d_get_del by assumption.
  destruct (Nat.eqb_spec x k); simpl; [now rewrite andb_false_r|]. now rewrite andb_true_r.
Qed.

Lemma latest_tl (l : list (K * V)) log :
  NoDup (keys l) -> by_latest_use l log -> by_latest_use (tl l) log.
Proof.
  intros ND J. destruct l as [|[e ve] r]; [exact J|]. simpl tl.
  pose proof (latest_del _ log e ND J) as D. simpl in D. now rewrite Nat.eqb_refl in D.
Qed.

Lemma items_set_nodup max (l : list (K * V)) k v : NoDup (keys l) -> NoDup (keys (items_set max l k v)).
Proof.
  intro ND. unfold items_set. destruct (d_mem l k) eqn:M.
  - apply nodup_keys_snoc; [now apply nodup_del|now apply not_in_keys_del].
  - apply d_mem_false_iff in M. destruct (length l <? max).
    + now apply nodup_keys_snoc.
    + destruct l as [|[e ve] r]; simpl; [constructor; [tauto|constructor]|].
      simpl in ND, M. inversion ND; subst. apply nodup_keys_snoc; [assumption|tauto].
Qed.

Lemma latest_set max (l : list (K * V)) log k v :
  NoDup (keys l) -> by_latest_use l log -> by_latest_use (items_set max l k v) (log ++ [k]).
Proof.
  intros ND J. unfold items_set. destruct (d_mem l k) eqn:M.
  - apply latest_touch; try assumption. now apply d_mem_iff.
  - apply d_mem_false_iff in M. destruct (length l <? max).
    + now apply latest_append.
    + apply latest_append; [now apply latest_tl|].
      destruct l as [|[e ve] r]; simpl in *; tauto.
Qed.

Lemma latest_sets c kvs : forall r log,
  NoDup (keys (r_items r)) -> by_latest_use (r_items r) log ->
  NoDup (keys (r_items (r_sets c r kvs)))
  /\ by_latest_use (r_items (r_sets c r kvs)) (log ++ map fst kvs).
Proof.
  induction kvs as [|[k v] rest IH]; intros r log ND J.
  - simpl. rewrite app_nil_r. split; assumption.
  - unfold r_sets in *. simpl.
    replace (log ++ k :: map fst rest) with ((log ++ [k]) ++ map fst rest) by now rewrite <- app_assoc.
    apply IH; simpl.
    + now apply items_set_nodup.
    + now apply latest_set.
Qed.

(* ---- reference level: one accepted step ---------------------------------------------- *)
Lemma lookup_latest c r k log :
  NoDup (keys (r_items r)) -> by_latest_use (r_items r) log ->
  by_latest_use (r_items (fst (r_lookup c r k))) (log ++ lookup_uses c (r_has r) k false)
  /\ NoDup (keys (r_items (fst (r_lookup c r k))))
  /\ (snd (r_lookup c r k) = None ->
        lookup_uses c (r_has r) k false = [] /\ lookup_uses c (r_has r) k true = [k])
  /\ (snd (r_lookup c r k) <> None ->
        lookup_uses c (r_has r) k true = lookup_uses c (r_has r) k false).
Proof.
  intros ND J. unfold r_lookup, lookup_uses, r_has, d_mem.
  destruct (d_get (r_items r) k) as [v|] eqn:G.
  - assert (Hk : In k (keys (r_items r))) by (eapply d_get_some_keys; eauto).
    destruct (c_cls c); simpl.
    + rewrite app_nil_r. repeat split; auto; discriminate.
    + split; [now apply latest_touch|]. split.
      * apply nodup_keys_snoc; [now apply nodup_del|now apply not_in_keys_del].
      * split; [discriminate|reflexivity].
  - destruct (c_on_miss c) as [f|]; simpl.
    + split; [now apply latest_set|]. split; [now apply items_set_nodup|].
      split; [discriminate|reflexivity].
    + rewrite app_nil_r. repeat split; auto. intro H. congruence.
Qed.

Lemma accept_latest c r o out r' log :
  NoDup (keys (r_items r)) -> by_latest_use (r_items r) log ->
  spec_accept c r o out = Some r' ->
  by_latest_use (r_items r') (log ++ op_uses c (r_has r) o).
Proof.
  intros ND J A.
  assert (SAME : forall r0, r' = r0 -> r_items r0 = r_items r -> op_uses c (r_has r) o = [] ->
                 by_latest_use (r_items r') (log ++ op_uses c (r_has r) o)).
  { intros r0 -> E1 E2. rewrite E1, E2, app_nil_r. exact J. }
  destruct (relational o) eqn:R.
  - destruct o; simpl in R; try discriminate; unfold spec_accept in A.
    + destruct out as [[| | | |k v| |]|[]]; try discriminate.
      * destruct (option_eqb Nat.eqb (d_get (r_items r) k) (Some v)); [|discriminate].
        inversion A; subst. simpl. rewrite app_nil_r. now apply latest_del.
      * destruct (r_items r) as [|x xs] eqn:E; [|discriminate]. inversion A; subst r'. simpl.
        rewrite app_nil_r, E. exact J.
    + destruct out as [[| | | | |ks|]|]; try discriminate.
      destruct (same_keys ks (r_items r)); [|discriminate]. inversion A; subst.
      simpl. now rewrite app_nil_r.
    + destruct out as [[| | | | | |l]|]; try discriminate.
      destruct (same_map l (r_items r)); [|discriminate]. inversion A; subst.
      simpl. now rewrite app_nil_r.
  - assert (E : r' = fst (spec_step c r o)).
    { destruct o; simpl in R; try discriminate; unfold spec_accept in A;
        destruct (spec_step c r _) as [r1 out1]; destruct (res_eqb outv_eqb out out1);
        try discriminate; inversion A; reflexivity. }
    rewrite E. clear A E SAME.
    destruct o; simpl in R; try discriminate; simpl.
    + (* SetItem *) now apply latest_set.
    + (* GetItem *)
      destruct (lookup_latest c r k log ND J) as [L _].
      destruct (r_lookup c r k) as [r1 [v|]]; exact L.
    + (* Get *)
      destruct (lookup_latest c r k log ND J) as [L _].
      destruct (r_lookup c r k) as [r1 [v|]]; exact L.
    + (* SetDefault *)
      destruct (lookup_latest c r k log ND J) as [L [ND1 [N1 N2]]].
      destruct (r_lookup c r k) as [r1 [v|]]; simpl in *.
      * rewrite N2 by discriminate. exact L.
      * destruct (N1 eq_refl) as [U1 U2]. rewrite U1, app_nil_r in L. rewrite U2.
        now apply latest_set.
    + (* DelItem *)
      destruct (r_has r k); simpl; rewrite app_nil_r; [now apply latest_del|exact J].
    + (* Pop *)
      destruct (d_get (r_items r) k); [|destruct d]; simpl; rewrite app_nil_r;
        [now apply latest_del|exact J|exact J].
    + (* Clear *) unfold by_latest_use. simpl. rewrite app_nil_r.
      induction (keep_last log); simpl; auto.
    + (* Update *) now apply latest_sets.
    + (* IOr *) now apply latest_sets.
    + now rewrite app_nil_r.
    + now rewrite app_nil_r.
    + now rewrite app_nil_r.
    + now rewrite app_nil_r.
    + (* UpdateSelf *) now apply latest_sets.
    + now rewrite app_nil_r.
    + now rewrite app_nil_r.
Qed.

(* ---- model level ------------------------------------------------------------------------ *)
Lemma step1_latest c m o log :
  1 <= c_max c -> Inv c m -> by_latest_use (ring m) log ->
  by_latest_use (ring (fst (step1 c m o))) (log ++ op_uses c (d_mem (store m)) o).
Proof.
  intros Hmax I J. destruct (step1_sim c m o Hmax I) as [m' [out [E [_ [A _]]]]].
  rewrite E. simpl.
  assert (P : op_uses c (d_mem (store m)) o = op_uses c (r_has (abs m)) o).
  { unfold r_has, lookup_uses. simpl.
    destruct o; simpl; unfold lookup_uses; try reflexivity; now rewrite (inv_mem c m _ I). }
  rewrite P. change (ring m') with (r_items (abs m')).
  eapply accept_latest; eauto. exact (inv_nd_ring _ _ I).
Qed.

Lemma run1_latest c ops : forall m log,
  1 <= c_max c -> Inv c m -> by_latest_use (ring m) log ->
  by_latest_use (ring (run1 c m ops)) (log ++ use_log c m ops) /\ Inv c (run1 c m ops).
Proof.
  induction ops as [|o rest IH]; intros m log Hmax I J; simpl.
  - rewrite app_nil_r. split; assumption.
  - destruct (step1_sim c m o Hmax I) as [m' [out [E [I' _]]]].
    pose proof (step1_latest c m o log Hmax I J) as J'. rewrite E in *. simpl in *.
    rewrite app_assoc. now apply IH.
Qed.

Lemma recency c init ops :
  1 <= c_max c ->
  let m0 := fst (init_cache c init) in
  let m := run1 c m0 ops in
  keys (ring m) = filter (d_mem (store m)) (keep_last (map fst init ++ use_log c m0 ops)).
Proof.
  intro Hmax. destruct (init_sim c init Hmax) as [m0 [E [I A]]]. rewrite E. simpl.
  assert (J0 : by_latest_use (ring m0) (map fst init)).
  { change (ring m0) with (r_items (abs m0)). rewrite A. unfold r_init.
    apply (latest_sets c init r_empty []); simpl; [constructor|reflexivity]. }
  destruct (run1_latest c ops m0 (map fst init) Hmax I J0) as [J I'].
  unfold by_latest_use in J. rewrite J. apply filter_ext_in'. intros x _.
  symmetry. apply (inv_mem c _ x I').
Qed.

(* the victim of an eviction is the present key whose latest use is oldest: in
   the list of keys ordered by latest use, no present key stands before it *)
Lemma filter_head {A} (p : A -> bool) l e rest :
  filter p l = e :: rest ->
  exists l1 l2, l = l1 ++ e :: l2 /\ forallb (fun x => negb (p x)) l1 = true /\ p e = true
                /\ filter p l2 = rest.
Proof.
  induction l as [|x r IH]; simpl; [discriminate|].
  destruct (p x) eqn:P.
  - intro H. inversion H; subst. exists [], r. simpl. auto.
  - intro H. destruct (IH H) as [l1 [l2 [E [F [Pe R]]]]].
    exists (x :: l1), l2. simpl. rewrite P, E. auto.
Qed.

Lemma victim_least_recently_used c init ops k v e ve rest :
  1 <= c_max c ->
  let m0 := fst (init_cache c init) in
  let m := run1 c m0 ops in
  let order := keep_last (map fst init ++ use_log c m0 ops) in
  d_mem (store m) k = false -> length (store m) = c_max c -> ring m = (e, ve) :: rest ->
  (* e is evicted, nothing else *)
  (exists m', step1 c m (SetItem k v) = (m', Ok ONone)
     /\ ring m' = rest ++ [(k, v)] /\ d_mem (store m') e = false
     /\ (forall k', k' <> e -> d_get (store m') k' = if Nat.eqb k' k then Some v else d_get (store m) k'))
  (* and e is the present key with the oldest latest use *)
  /\ exists older newer, order = older ++ e :: newer
       /\ forallb (fun x => negb (d_mem (store m) x)) older = true
       /\ d_mem (store m) e = true
       /\ filter (d_mem (store m)) newer = keys rest.
Proof.
  intros Hmax m0 m order DM FULL RING.
  assert (I : Inv c m).
  { destruct (init_sim c init Hmax) as [m00 [E [I0 _]]]. subst m m0. rewrite E. simpl.
    destruct (run1_counters c ops m00 Hmax I0) as [_ [_ I']]. exact I'. }
  split.
  - exact (Proofs.C02_Thms.evicts_head c m k v e ve rest Hmax I DM FULL RING).
  - pose proof (recency c init ops Hmax) as R. simpl in R. fold m0 in R. fold m in R. fold order in R.
    rewrite RING in R. simpl in R. symmetry in R. exact (filter_head _ _ _ _ R).
Qed.
