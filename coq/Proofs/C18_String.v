(* SpooledStringIO: for every max_size and READ_CHUNK_SIZE >= 1 the model behaves
   as the reference text file (code-point positions). *)
From Coq Require Import ZifyBool.
From Boltons Require Import Lib.Prelude Spec.C18_Spec Model.C18_Model
  Proofs.C18_Lines Proofs.C18_Bytes Proofs.C18_Mfr Proofs.C18_Utf8 Proofs.C18_Reader.

Definition same_cfg (s s' : sstring) : Prop :=
  ss_max s' = ss_max s /\ ss_chunk s' = ss_chunk s.

Lemma same_cfg_refl s : same_cfg s s.
Proof. split; reflexivity. Qed.
Lemma same_cfg_trans a b c : same_cfg a b -> same_cfg b c -> same_cfg a c.
Proof. unfold same_cfg. intuition congruence. Qed.

Section Text.
  Variable C : list N.
  Hypothesis V : Forall uvalid C.

  (* read(n) *)
  Lemma ss_read_spec s k n : RI C k (ss_buf s) ->
    snd (ss_read s n) = match n with Some c => firstn c (skipn k C) | None => skipn k C end /\
    RI C (k + length (snd (ss_read s n))) (ss_buf (fst (ss_read s n))) /\
    ss_tell (fst (ss_read s n)) = ss_tell s + length (snd (ss_read s n)) /\
    same_cfg s (fst (ss_read s n)).
  Proof.
    intro I. unfold ss_read.
    pose proof (rd_read_spec C k (ss_buf s) n n V I (or_intror eq_refl)) as [R1 [R2 _]].
    destruct (rd_read (ss_buf s) n n) as [e ret]. cbn [fst snd] in *.
    unfold ss_with, same_cfg. cbn. auto.
  Qed.

  Lemma skipn_chunk_length k c : k + c <= length C -> length (firstn c (skipn k C)) = c.
  Proof. intro H. rewrite firstn_length, skipn_length. lia. Qed.

  Lemma read_chunk_length k c : k <= length C ->
    length (firstn c (skipn k C)) = Nat.min c (length C - k).
  Proof. intro H. now rewrite firstn_length, skipn_length. Qed.

  (* _traverse_codepoints towards any position (cur is the loop's nominal position: it
     runs ahead of the real one once the data is exhausted) *)
  Lemma ss_traverse_spec dest : forall fuel s cur,
    RI C (Nat.min cur (length C)) (ss_buf s) -> cur <= dest -> dest - cur + 1 <= fuel -> 1 <= ss_chunk s ->
    RI C (Nat.min dest (length C)) (ss_buf (ss_traverse fuel s cur dest)) /\
    same_cfg s (ss_traverse fuel s cur dest).
  Proof.
    induction fuel as [|fuel IH]; intros s cur I Hc F Ch; [lia|].
    cbn [ss_traverse].
    destruct (Nat.eqb cur dest) eqn:E1.
    { apply Nat.eqb_eq in E1. subst. split; [exact I|apply same_cfg_refl]. }
    apply Nat.eqb_neq in E1.
    set (k := Nat.min cur (length C)) in *.
    assert (Kc : k <= length C) by (unfold k; lia).
    destruct (dest <? cur + ss_chunk s) eqn:E2.
    - pose proof (ss_read_spec s k (Some (dest - cur)) I) as [R1 [R2 [_ R4]]].
      rewrite R1 in R2. rewrite read_chunk_length in R2 by exact Kc.
      replace (k + Nat.min (dest - cur) (length C - k)) with (Nat.min dest (length C)) in R2 by (unfold k; lia).
      auto.
    - pose proof (ss_read_spec s k (Some (ss_chunk s)) I) as [R1 [R2 [_ R4]]].
      destruct (ss_read s (Some (ss_chunk s))) as [s1 ret]. cbn [fst snd] in *.
      assert (Lr : length ret = Nat.min (ss_chunk s) (length C - k)) by (rewrite R1; now apply read_chunk_length).
      rewrite Lr in R2.
      destruct (nonempty ret) eqn:NE.
      + assert (Lp : 1 <= length ret) by (destruct ret; [discriminate|cbn; lia]).
        destruct R4 as [M4 C4].
        replace (k + Nat.min (ss_chunk s) (length C - k)) with (Nat.min (cur + ss_chunk s) (length C)) in R2
          by (unfold k in *; lia).
        destruct (IH s1 (cur + ss_chunk s) R2 ltac:(lia) ltac:(lia) ltac:(lia)) as [J1 J2].
        split; [exact J1|].
        eapply same_cfg_trans; [split; eassumption|exact J2].
      + apply nonempty_false in NE. rewrite NE in Lr. cbn [length] in Lr.
        replace (k + Nat.min (ss_chunk s) (length C - k)) with (Nat.min dest (length C)) in R2
          by (unfold k in *; lia).
        auto.
  Qed.

  (* seek(pos), any pos >= 0 *)
  Lemma ss_seek_set_spec s pos :
    rf_data (ef_stream (ss_buf s)) = utf8_enc C -> rd_ok (ef_rd (ss_buf s)) = true ->
    1 <= ss_chunk s ->
    RI C (Nat.min pos (length C)) (ss_buf (ss_seek_set s pos)) /\ ss_tell (ss_seek_set s pos) = pos /\
    same_cfg s (ss_seek_set s pos).
  Proof.
    intros D Ok Ch. unfold ss_seek_set.
    set (s1 := ss_with s (ef_seek (ss_buf s) 0 0) (ss_tell s)).
    assert (I1 : RI C (Nat.min 0 (length C)) (ss_buf s1)) by (apply ef_seek0_RI; assumption).
    destruct (ss_traverse_spec pos (S (S pos)) s1 0 I1 ltac:(lia) ltac:(lia) Ch) as [T1 T2].
    cbn [ss_with ss_buf ss_tell]. split; [exact T1|]. split; [reflexivity|].
    destruct T2 as [T2 T3]. split; cbn [ss_with ss_max ss_chunk]; [rewrite T2|rewrite T3]; reflexivity.
  Qed.

  (* the counting loop of len *)
  Lemma ss_count_spec : forall fuel s total k,
    RI C k (ss_buf s) -> length C - k + 1 <= fuel -> 1 <= ss_chunk s ->
    snd (ss_count fuel s total) = total + (length C - k) /\
    RI C (length C) (ss_buf (fst (ss_count fuel s total))) /\
    same_cfg s (fst (ss_count fuel s total)).
  Proof.
    induction fuel as [|fuel IH]; intros s total k I F Ch; [lia|].
    cbn [ss_count].
    pose proof (ss_read_spec s k (Some (ss_chunk s)) I) as [R1 [R2 [_ R4]]].
    destruct (ss_read s (Some (ss_chunk s))) as [s1 ret]. cbn [fst snd] in *.
    assert (Kc : k <= length C) by (destruct I as [_ [K _]]; exact K).
    assert (Lr : length ret = Nat.min (ss_chunk s) (length C - k)).
    { rewrite R1, firstn_length, skipn_length. reflexivity. }
    destruct (nonempty ret) eqn:NE.
    - assert (Lp : 1 <= length ret) by (destruct ret; [discriminate|cbn; lia]).
      destruct R4 as [M4 C4].
      destruct (IH s1 (total + length ret) (k + length ret) R2 ltac:(lia) ltac:(lia))
        as [J1 [J2 J3]].
      split; [rewrite J1; lia|]. split; [exact J2|].
      eapply same_cfg_trans; [split; eassumption|exact J3].
    - apply nonempty_false in NE. rewrite NE in Lr, R2. cbn [length] in Lr, R2.
      assert (k = length C) by lia. subst k. cbn [fst snd].
      rewrite Nat.add_0_r in R2. split; [lia|]. split; [exact R2|exact R4].
  Qed.

  (* len(f) *)
  Lemma ss_len_spec s : RI C (Nat.min (ss_tell s) (length C)) (ss_buf s) -> 1 <= ss_chunk s ->
    snd (ss_len s) = length C /\
    RI C (Nat.min (ss_tell s) (length C)) (ss_buf (fst (ss_len s))) /\ ss_tell (fst (ss_len s)) = ss_tell s /\
    same_cfg s (fst (ss_len s)).
  Proof.
    intros I Ch. unfold ss_len.
    destruct I as [Ok [K [D [W [LO X]]]]].
    set (s1 := ss_with s (ef_seek (ss_buf s) 0 0) (ss_tell s)).
    assert (I1 : RI C 0 (ss_buf s1)) by (apply ef_seek0_RI; assumption).
    pose proof (enc_length C) as EL. rewrite <- D in EL.
    destruct (ss_count_spec (S (S (length (rf_data (ef_stream (ss_buf s)))))) s1 0 0 I1 ltac:(lia) Ch)
      as [N1 [N2 N3]].
    destruct (ss_count _ s1 0) as [s2 total]. cbn [fst snd] in *.
    destruct N2 as [Ok2 [_ [D2 _]]]. destruct N3 as [M3 C3].
    destruct (ss_seek_set_spec s2 (ss_tell s) D2 Ok2 ltac:(cbn in *; lia)) as [P1 [P2 [P3 P4]]].
    split; [lia|]. split; [exact P1|]. split; [exact P2|].
    split; cbn in *; congruence.
  Qed.

  (* getvalue() *)
  Lemma ss_getvalue_spec s : RI C (Nat.min (ss_tell s) (length C)) (ss_buf s) -> 1 <= ss_chunk s ->
    snd (ss_getvalue s) = C /\
    RI C (Nat.min (ss_tell s) (length C)) (ss_buf (fst (ss_getvalue s))) /\ ss_tell (fst (ss_getvalue s)) = ss_tell s /\
    same_cfg s (fst (ss_getvalue s)).
  Proof.
    intros I Ch. unfold ss_getvalue.
    destruct I as [Ok [K [D [W [LO X]]]]].
    destruct (ss_seek_set_spec s 0 D Ok Ch) as [A1 [A2 [A3 A4]]]. cbn [Nat.min] in A1.
    set (s1 := ss_seek_set s 0) in *.
    pose proof (ss_read_spec s1 0 None A1) as [R1 [R2 [_ [R4 R5]]]].
    destruct (ss_read s1 None) as [s2 val]. cbn [fst snd] in *.
    destruct R2 as [Ok2 [_ [D2 _]]].
    destruct (ss_seek_set_spec s2 (ss_tell s) D2 Ok2 ltac:(lia)) as [P1 [P2 [P3 P4]]].
    split; [exact R1|]. split; [exact P1|]. split; [exact P2|].
    split; congruence.
  Qed.
End Text.

(* =========================================================================
   the object against the reference text file
   ========================================================================= *)
(* the position may lie past the end of the data: the reader then stands at the end *)
Definition SI (f : rfile) (s : sstring) : Prop :=
  Forall uvalid (rf_data f) /\ 1 <= ss_chunk s /\ ss_tell s = rf_pos f /\
  RI (rf_data f) (Nat.min (rf_pos f) (length (rf_data f))) (ss_buf s).

Lemma RI_at_end C e : RI C (length C) e ->
  pending (ef_rd e) = [] /\ rd_bytes (ef_rd e) = [] /\ rf_pos (ef_stream e) = length (rf_data (ef_stream e)).
Proof.
  intros [Ok [K [D [W [LO [R [Sk E]]]]]]].
  rewrite skipn_all in Sk. symmetry in Sk. apply app_eq_nil in Sk as [Pn ->].
  cbn in E. symmetry in E. apply app_eq_nil in E as [Bn Rn].
  repeat split; auto. now apply rest_nil_iff.
Qed.

(* writing at the end of the stream, with nothing buffered in the reader *)
Lemma write_RI C d e :
  rf_data (ef_stream e) = utf8_enc C -> rf_pos (ef_stream e) = length (utf8_enc C) ->
  pending (ef_rd e) = [] -> rd_bytes (ef_rd e) = [] -> rd_ok (ef_rd e) = true -> lines_ok (ef_rd e) ->
  RI (C ++ d) (length C + length d) (ef_write e (utf8_enc d)).
Proof.
  intros D Pe Pn Bn Ok LO.
  unfold RI, ef_write, f_write, call. cbn [ef_rd ef_stream ref_step fst]. unfold write_at. cbn [rf_data rf_pos].
  rewrite D, Pe, overwrite_end. unfold wf, rest. cbn [rf_data rf_pos].
  rewrite enc_app, !app_length, Pn, Bn.
  split; [exact Ok|]. split; [lia|]. split; [reflexivity|]. split; [lia|]. split; [exact LO|].
  exists []. rewrite <- !app_length, !skipn_all. auto.
Qed.

(* rollover() re-establishes the code-point position on the new file *)
Lemma ss_rollover_spec f s : SI f s ->
  SI f (ss_rollover s) /\ same_cfg s (ss_rollover s).
Proof.
  intros [V [Ch [T I]]]. unfold ss_rollover. destruct (ss_rolled s).
  { split; [exact (conj V (conj Ch (conj T I)))|apply same_cfg_refl]. }
  destruct I as [Ok [K [D [W [LO X]]]]].
  match goal with |- context [ss_seek_set ?t ?p] =>
    destruct (ss_seek_set_spec (rf_data f) V t p) as [S1 [S2 S3]] end.
  - cbn [ss_buf ef_write ef_stream]. rewrite f_write_empty. cbn [rf_data]. exact D.
  - cbn [ss_buf ef_write ef_rd rd_ok]. exact Ok.
  - cbn [ss_chunk]. exact Ch.
  - split.
    + unfold SI. destruct S3 as [S3 S4]. cbn [ss_chunk ss_max] in S3, S4. rewrite S4, S2.
      split; [exact V|]. split; [exact Ch|]. split; [exact T|]. rewrite <- T. exact S1.
    + destruct S3 as [S3 S4]. split; [exact S3|exact S4].
Qed.

(* write(d) at the end of the data *)
Lemma ss_write_spec f s d : SI f s -> rf_pos f = length (rf_data f) -> Forall uvalid d ->
  SI (mkRF (rf_data f ++ d) (rf_pos f + length d)) (ss_write s d) /\ same_cfg s (ss_write s d).
Proof.
  intros I0 Hend Vd.
  (* whether or not it rolls over, the object stands at the end with empty reader buffers *)
  assert (B : forall s1, SI f s1 -> same_cfg s s1 -> ss_tell s1 = ss_tell s ->
     SI (mkRF (rf_data f ++ d) (rf_pos f + length d))
        (ss_with s1 (ef_write (ss_buf s1) (utf8_enc d)) (ss_tell s + length d)) /\
     same_cfg s (ss_with s1 (ef_write (ss_buf s1) (utf8_enc d)) (ss_tell s + length d))).
  { intros s1 [V [Ch [T I]]] Cf Ts. rewrite Hend, Nat.min_id in I.
    destruct (RI_at_end _ _ I) as [Pn [Bn Pe]].
    destruct I as [Ok [K [D [W [LO X]]]]].
    split; [|destruct Cf; split; cbn; assumption].
    unfold SI. cbn [rf_data rf_pos ss_with ss_chunk ss_tell ss_buf].
    split; [apply Forall_app; auto|]. split; [exact Ch|]. split; [lia|].
    rewrite Hend, app_length, Nat.min_id. apply write_RI; auto. now rewrite <- D. }
  unfold ss_write.
  destruct (ss_max s <=? ef_tell (ss_buf s) + length (utf8_enc d)).
  - destruct (ss_rollover_spec f s I0) as [R1 R2]. apply B; auto.
    destruct R1 as [_ [_ [T1 _]]]. destruct I0 as [_ [_ [T0 _]]]. congruence.
  - apply B; auto. apply same_cfg_refl.
Qed.
