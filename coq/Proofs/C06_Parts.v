(* C06: splitting a rendered path and query back into components, generic in the quoting function
   (instantiated with minimal quoting in C06_RoundMin.v). *)
From Boltons Require Import Lib.Prelude Lib.C06_Text Spec.C06_Spec Model.C06_Model
  Proofs.C06_Codec Proofs.C06_Quote Proofs.C06_Lists Proofs.C06_Round.
Open Scope N_scope.

Section Parts.
Variable T : tables.
Variables (Qp Qq : text -> text).        (* quoting of a path segment / of a query key or value *)
Variable D : text -> text.               (* what unquote makes of it *)
Variable good : text -> Prop.
Hypothesis Hp_excl : forall s, good s -> forallb (not_in [47; 63; 35]) (Qp s) = true.
Hypothesis Hq_excl : forall s, good s -> forallb (not_in [38; 59; 61; 43; 35]) (Qq s) = true.
Hypothesis Hp_unq : forall s, good s -> unq_if_pct T (Qp s) = D s.
Hypothesis Hq_unq : forall s, good s -> unquote T (Qq s) = D s.
Hypothesis Hq_nil : forall s, good s -> Qq s = [] -> D s = [].

(* ---- path ------------------------------------------------------------------------------------ *)

Lemma path_back path :
  path <> [] -> Forall good path ->
  map (unq_if_pct T) (split_on 47 (join [47] (map (Qp) path))) = map D path.
Proof.
  intros NE F. rewrite split_join.
  - rewrite map_map. apply map_ext_in. intros x Hx. apply Hp_unq.
    rewrite Forall_forall in F. apply F. exact Hx.
  - destruct path; [contradiction|discriminate].
  - apply Forall_forall. intros y Hy. apply in_map_iff in Hy as [x [<- Hx]].
    rewrite Forall_forall in F.
    apply (forallb_not_in_mem [47; 63; 35]); [|reflexivity].
    apply Hp_excl. apply F. exact Hx.
Qed.

Lemma path_chars path :
  Forall good path -> forallb (not_in [63; 35]) (join [47] (map (Qp) path)) = true.
Proof.
  induction path as [|x r IH]; intro F; [reflexivity|].
  inversion F as [|? ? Hx Hr]; subst.
  assert (X : forallb (not_in [63; 35]) (Qp x) = true).
  { apply (forallb_weaken [47; 63; 35]); [|apply Hp_excl; exact Hx].
    intros c Hc. cbn [memN] in *. repeat rewrite orb_false_r in *.
    apply orb_true_iff in Hc. apply orb_true_iff. right. apply orb_true_iff. exact Hc. }
  destruct r as [|y r'].
  - cbn [map join]. exact X.
  - change (join [47] (map (Qp) (x :: y :: r')))
      with (Qp x ++ 47 :: join [47] (map (Qp) (y :: r'))).
    rewrite forallb_app, X. cbn [forallb andb]. apply IH. exact Hr.
Qed.

(* ---- query ------------------------------------------------------------------------------------- *)
Definition rp (kv : text * option text) : text :=
  let '(k, v) := kv in
  match v with None => Qq k | Some v => Qq k ++ [61] ++ Qq v end.

Definition pair_ok (kv : text * option text) : Prop :=
  let '(k, v) := kv in
  good k /\ match v with Some v => good v | None => D k <> [] end.

Lemma qq_no c x : good x -> memN c [38; 59; 61; 43; 35] = true -> memN c (Qq x) = false.
Proof.
  intros S M. apply (forallb_not_in_mem [38; 59; 61; 43; 35]); [|exact M].
  apply Hq_excl. exact S.
Qed.

Lemma rp_no c kv : pair_ok kv -> memN c [38; 59; 35] = true -> memN c (rp kv) = false.
Proof.
  intros P M. destruct kv as [k [v|]]; destruct P as [Pk Pv]; cbn [rp].
  - rewrite !memN_app. rewrite (qq_no c k Pk), (qq_no c v Pv).
    + cbn [memN orb]. rewrite orb_false_r. cbn [memN] in M. repeat rewrite orb_false_r in M.
      destruct (c =? 61) eqn:E; [|reflexivity]. apply N.eqb_eq in E. subst c. discriminate.
    + cbn [memN] in *. repeat rewrite orb_false_r in *.
      repeat (apply orb_true_iff in M as [M|M]); rewrite M; repeat rewrite orb_true_r; reflexivity.
    + cbn [memN] in *. repeat rewrite orb_false_r in *.
      repeat (apply orb_true_iff in M as [M|M]); rewrite M; repeat rewrite orb_true_r; reflexivity.
  - apply qq_no; [exact Pk|].
    cbn [memN] in *. repeat rewrite orb_false_r in *.
    repeat (apply orb_true_iff in M as [M|M]); rewrite M; repeat rewrite orb_true_r; reflexivity.
Qed.

Lemma rp_nonempty kv : pair_ok kv -> rp kv <> [].
Proof.
  destruct kv as [k [v|]]; intros [Pk Pv]; cbn [rp].
  - destruct (Qq k); discriminate.
  - intro E. apply Pv. apply (Hq_nil k Pk E).
Qed.

Lemma qsl_pair_rp kv : pair_ok kv -> qsl_pair T (rp kv) = (D (fst kv), option_map D (snd kv)).
Proof.
  destruct kv as [k [v|]]; intros [Pk Pv]; cbn [rp fst snd option_map]; unfold qsl_pair.
  - cbn [app]. rewrite (partition_app 61 _ _ (qq_no 61 k Pk eq_refl)).
    rewrite (replace_char_none 43 32 _ (qq_no 43 k Pk eq_refl)).
    assert (Uk : unquote T (Qq k) = D k) by (apply Hq_unq; exact Pk).
    rewrite Uk. destruct (Qq v) as [|x r] eqn:E.
    + rewrite (Hq_nil v Pv E). reflexivity.
    + rewrite <- E. rewrite (replace_char_none 43 32 _ (qq_no 43 v Pv eq_refl)).
      f_equal. f_equal. apply Hq_unq. exact Pv.
  - rewrite (partition_none 61 _ (qq_no 61 k Pk eq_refl)).
    rewrite (replace_char_none 43 32 _ (qq_no 43 k Pk eq_refl)).
    f_equal. apply Hq_unq. exact Pk.
Qed.

Lemma parse_qsl_join q :
  Forall pair_ok q -> parse_qsl T (join [38] (map rp q)) = map (fun kv => (D (fst kv), option_map D (snd kv))) q.
Proof.
  intro F. unfold parse_qsl. destruct q as [|kv0 q0]; [reflexivity|].
  rewrite split_join.
  - assert (G : forall l, Forall pair_ok l ->
                 map (qsl_pair T) (filter (fun p => match p with [] => false | _ => true end)
                                          (flat_map (split_on 59) (map rp l)))
                 = map (fun kv => (D (fst kv), option_map D (snd kv))) l).
    { induction l as [|kv l IH]; intro Fl; [reflexivity|].
      inversion Fl as [|? ? Hk Hl]; subst. cbn [map flat_map].
      rewrite (split_on_none 59 _ (rp_no 59 kv Hk eq_refl)). cbn [app filter].
      pose proof (rp_nonempty kv Hk) as NE. destruct (rp kv) eqn:E; [contradiction|].
      rewrite <- E. cbn [map]. rewrite (qsl_pair_rp kv Hk). f_equal. apply IH. exact Hl. }
    apply G. exact F.
  - discriminate.
  - apply Forall_forall. intros y Hy. apply in_map_iff in Hy as [kv [<- Hkv]].
    rewrite Forall_forall in F. apply (rp_no 38 kv (F kv Hkv) eq_refl).
Qed.

Lemma query_chars q : Forall pair_ok q -> forallb (not_in [35]) (join [38] (map rp q)) = true.
Proof.
  induction q as [|kv r IH]; intro F; [reflexivity|].
  inversion F as [|? ? Hk Hr]; subst.
  assert (X : forallb (not_in [35]) (rp kv) = true).
  { apply not_memN_forallb_in. apply (rp_no 35 kv Hk eq_refl). }
  destruct r as [|y r'].
  - cbn [map join]. exact X.
  - change (join [38] (map rp (kv :: y :: r'))) with (rp kv ++ 38 :: join [38] (map rp (y :: r'))).
    rewrite forallb_app, X. cbn [forallb andb]. apply IH. exact Hr.
Qed.

End Parts.
