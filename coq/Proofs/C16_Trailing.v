(* The interpreter terminates its output with a newline: from_string does not mind. *)
From Boltons Require Import Lib.Prelude Lib.C16_Text Spec.C16_Spec Model.C16_Model
  Proofs.C16_Text Proofs.C16_Regex Proofs.C16_Parse Proofs.C16_Fold Proofs.C16_FoldM Proofs.C16_Format.
Open Scope N_scope.

(* ---- the interpreter terminates its output with a newline: from_string does not mind ------------------ *)
Section Trailing.
  Context (C : cc) (OK : cc_ok C).

  Lemma splitlines_trailing_nl s c :
    is_br C c = false -> splitlines C ((s ++ [c]) ++ [10]) = splitlines C (s ++ [c]).
  Proof.
    intro Hc. assert (Hnl : is_br C 10 = true) by apply (br_10 C OK).
    assert (G : forall n s, length s = n -> splitlines C ((s ++ [c]) ++ [10]) = splitlines C (s ++ [c])).
    { induction n as [n IH] using lt_wf_ind. intros s0 Hn. destruct s0 as [|x r].
      - cbn [app splitlines]. rewrite Hc, Hnl. reflexivity.
      - cbn [app splitlines]. destruct (is_br C x) eqn:Ex.
        + destruct r as [|d r']; cbn [app].
          * replace ((x =? 13) && (c =? 10)) with false.
            2:{ symmetry. apply andb_false_iff. right. apply N.eqb_neq. intro E. subst c. rewrite Hnl in Hc. discriminate. }
            f_equal. exact (IH 0%nat ltac:(cbn in Hn; lia) [] eq_refl).
          * destruct ((x =? 13) && (d =? 10)).
            -- f_equal. exact (IH (length r') ltac:(cbn in Hn; lia) r' eq_refl).
            -- f_equal. exact (IH (length (d :: r')) ltac:(cbn in Hn |- *; lia) (d :: r') eq_refl).
        + change (r ++ [c]) with (r ++ [c]).
          rewrite (IH (length r) ltac:(cbn in Hn; lia) r eq_refl). reflexivity. }
    exact (G (length s) s eq_refl).
  Qed.

  Lemma from_string_trailing_nl t c :
    is_br C c = false -> lstrip C (t ++ [c]) = t ++ [c] ->
    from_string C ((t ++ [c]) ++ [10]) = from_string C (t ++ [c]).
  Proof.
    intros Hc HL. unfold from_string.
    assert (E : lstrip C ((t ++ [c]) ++ [10]) = (t ++ [c]) ++ [10]).
    { rewrite (lstrip_app_space C (t ++ [c]) [10]) by (cbn; rewrite (sp_10 C OK); reflexivity).
      rewrite HL. destruct (t ++ [c]) eqn:Et; [destruct t; discriminate|reflexivity]. }
    rewrite E, HL, (splitlines_trailing_nl t c Hc). reflexivity.
  Qed.

  (* the shape of any rendered text: it starts with the header and ends in a character that is
     no line boundary *)
  Lemma rendered_shape body ty msg :
    type_ok C ty = true -> msg_ok C ty msg = true ->
    exists t c, join NL (L_header :: body ++ [exc_text ty msg]) = t ++ [c] /\ is_br C c = false /\
                lstrip C (t ++ [c]) = t ++ [c].
  Proof.
    intros Hty Hmsg.
    assert (Sh : exists s c, exc_text ty msg = s ++ [c] /\ is_br C c = false).
    { pose proof (exc_text_chars C OK ty msg Hty Hmsg) as Hch.
      apply (type_ok_inv C OK) in Hty as [Hne [Hns _]]. apply (msg_ok_inv C) in Hmsg as [_ [Hm _]].
      assert (Ex : exists s c, exc_text ty msg = s ++ [c] /\ c <> 10).
      { unfold exc_text. destruct msg as [|m msg]; cbn [is_nil].
        - destruct (@exists_last _ ty Hne) as [s [c E]]. exists s, c. split; [exact E|].
          subst ty. unfold no_space in Hns. rewrite forallb_app in Hns. apply andb_true_iff in Hns as [_ Hns].
          cbn [forallb] in Hns. apply andb_true_iff in Hns as [Hns _]. apply negb_true_iff in Hns.
          apply N.eqb_neq. exact (nsp_not_10 C OK c Hns).
        - destruct (@exists_last _ (m :: msg) ltac:(discriminate)) as [s [c E]]. rewrite E in *.
          exists (ty ++ L_colon ++ s), c. split; [rewrite <- !app_assoc; reflexivity|].
          rewrite rev_unit in Hm. apply negb_true_iff in Hm. apply N.eqb_neq. exact Hm. }
      destruct Ex as [s [c [E Hc]]]. exists s, c. split; [exact E|].
      rewrite E, forallb_app in Hch. apply andb_true_iff in Hch as [_ Hch]. cbn [forallb] in Hch.
      apply andb_true_iff in Hch as [Hch _]. apply orb_true_iff in Hch as [Hch|Hch].
      - apply negb_true_iff in Hch. exact Hch.
      - apply N.eqb_eq in Hch. contradiction. }
    destruct Sh as [s [c [E Hc]]].
    change (L_header :: body ++ [exc_text ty msg]) with ((L_header :: body) ++ [exc_text ty msg]).
    rewrite join_terminated, E.
    exists (flat_map (fun l => l ++ NL) (L_header :: body) ++ s), c.
    split; [rewrite <- app_assoc; reflexivity|]. split; [exact Hc|].
    cbn [flat_map]. unfold L_header at 1 2. cbn [app]. apply lstrip_nonspace. apply (sp_print C OK). lia.
  Qed.

  (* the first half on the interpreter's text including its final newline *)
  Theorem parse_real_nl (T : tb) (ms : list (option str)) :
    wf C T = true -> markers_ok ms = true -> length ms = length (t_frames T) ->
    src_consistent (t_frames T) = true ->
    from_string C (real_text T ms ++ NL) = Ok T.
  Proof.
    intros Hwf Hms Hlen Hc.
    pose proof (parse_real C OK T ms Hwf Hms Hlen Hc) as P.
    destruct T as [frames ty msg]. pose proof Hwf as Hwf'. apply (wf_inv C) in Hwf' as [_ [Hty Hmsg]].
    unfold real_text, real_lines in *. cbn [t_frames t_type t_msg] in *.
    destruct (rendered_shape (fold_entries_m None 0 (combine frames ms)) ty msg Hty Hmsg) as [t [c [E [Hbr HL]]]].
    rewrite E in *. unfold NL. rewrite (from_string_trailing_nl t c Hbr HL). exact P.
  Qed.
End Trailing.
