(* A small Hoare logic for the outcome monad of Model/C04_Model.v:
   one postcondition per way of leaving a computation (value, exception, crash). *)
From Boltons Require Import Lib.Prelude Model.C04_Model.

Definition triple {A} (P : world -> Prop) (m : M A)
           (Q : A -> world -> Prop) (E : exn -> world -> Prop) (C : world -> Prop) : Prop :=
  forall w, P w ->
    match m w with
    | (Val a, w') => Q a w'
    | (Exc e, w') => E e w'
    | (Crashed, w') => C w'
    end.

Lemma t_ret {A} (a : A) (P : world -> Prop) (Q : A -> world -> Prop) (E : exn -> world -> Prop) (C : world -> Prop) :
  (forall w, P w -> Q a w) -> triple P (ret a) Q E C.
Proof. intros H w Hw. cbn. auto. Qed.

Lemma t_raise {A} e (P : world -> Prop) (Q : A -> world -> Prop) (E : exn -> world -> Prop) (C : world -> Prop) :
  (forall w, P w -> E e w) -> triple P (raise e) Q E C.
Proof. intros H w Hw. cbn. auto. Qed.

Lemma t_bind {A B} (m : M A) (k : A -> M B) (P : world -> Prop) (Q : A -> world -> Prop) (R : B -> world -> Prop) (E : exn -> world -> Prop) (C : world -> Prop) :
  triple P m Q E C -> (forall a, triple (Q a) (k a) R E C) -> triple P (bind m k) R E C.
Proof.
  intros Hm Hk w Hw. unfold bind. specialize (Hm w Hw).
  destruct (m w) as [[a|e|] w']; auto. apply (Hk a w' Hm).
Qed.

Lemma t_catch {A} (m : M A) (h : exn -> M A) (P : world -> Prop) (Q : A -> world -> Prop) (E E' : exn -> world -> Prop) (C : world -> Prop) :
  triple P m Q E' C -> (forall e, triple (E' e) (h e) Q E C) -> triple P (catch m h) Q E C.
Proof.
  intros Hm Hh w Hw. unfold catch. specialize (Hm w Hw).
  destruct (m w) as [[a|e|] w']; auto. apply (Hh e w' Hm).
Qed.

Lemma t_conseq {A} (m : M A) (P P' : world -> Prop) (Q Q' : A -> world -> Prop)
      (E E' : exn -> world -> Prop) (C C' : world -> Prop) :
  triple P' m Q' E' C' ->
  (forall w, P w -> P' w) -> (forall a w, Q' a w -> Q a w) ->
  (forall e w, E' e w -> E e w) -> (forall w, C' w -> C w) ->
  triple P m Q E C.
Proof.
  intros H HP HQ HE HC w Hw. specialize (H w (HP w Hw)).
  destruct (m w) as [[a|e|] w']; auto.
Qed.

Lemma t_or {A} (m : M A) (P1 P2 : world -> Prop) (Q : A -> world -> Prop) (E : exn -> world -> Prop) (C : world -> Prop) :
  triple P1 m Q E C -> triple P2 m Q E C -> triple (fun w => P1 w \/ P2 w) m Q E C.
Proof. intros H1 H2 w [Hw|Hw]; [apply H1|apply H2]; exact Hw. Qed.

Lemma t_false {A} (m : M A) (Q : A -> world -> Prop) (E : exn -> world -> Prop) (C : world -> Prop) : triple (fun _ => False) m Q E C.
Proof. intros w []. Qed.

(* reads *)
Lemma t_read {A} (g : world -> A) (P : world -> Prop) (Q : A -> world -> Prop) (E : exn -> world -> Prop) (C : world -> Prop) :
  (forall w, P w -> Q (g w) w) -> triple P (fun w => (Val (g w), w)) Q E C.
Proof. intros H w Hw. cbn. auto. Qed.
