(* C09: unique / bucketize / partition — the seen-set and setdefault loops
   compute the positional reference. *)
From Boltons Require Import Lib.Prelude Spec.C09_Spec Model.C09_Model.

(* ---- membership ----------------------------------------------------------- *)
Lemma memb_app x a b : memb x (a ++ b) = memb x a || memb x b.
Proof. unfold memb. apply existsb_app. Qed.

Lemma memb_In x l : memb x l = true <-> In x l.
Proof.
  unfold memb. rewrite existsb_exists. split.
  - intros [y [H1 H2]]. apply Nat.eqb_eq in H2. subst. exact H1.
  - intro H. exists x. split; [exact H|apply Nat.eqb_refl].
Qed.

Lemma memb_false_In x l : memb x l = false <-> ~ In x l.
Proof.
  split.
  - intros H HI. apply memb_In in HI. congruence.
  - intro H. destruct (memb x l) eqn:E; [|reflexivity]. apply memb_In in E. contradiction.
Qed.

(* ---- select_by_history ------------------------------------------------------ *)
Lemma select_snoc key keep : forall l bef i,
  select_by_history key keep bef (l ++ [i])
  = select_by_history key keep bef l
    ++ (if keep (bef ++ map key l) (key i) then [i] else []).
Proof.
  induction l as [|x r IH]; intros bef i.
  - cbn [app select_by_history map]. rewrite app_nil_r. destruct (keep bef (key i)); reflexivity.
  - cbn [app select_by_history map]. rewrite IH. rewrite <- app_assoc. cbn [app].
    destruct (keep bef (key x)); reflexivity.
Qed.

(* ============================== unique ====================================== *)
Definition keepU (bef : list K) (k : K) : bool := negb (memb k bef).

Lemma unique_loop_spec key : forall l seen bef,
  (forall k, memb k seen = memb k bef) ->
  unique_loop key seen l = select_by_history key keepU bef l.
Proof.
  induction l as [|i r IH]; intros seen bef H; [reflexivity|].
  cbn [unique_loop select_by_history]. unfold keepU at 1. rewrite <- H.
  destruct (memb (key i) seen) eqn:E; cbn [negb].
  - apply IH. intro k. rewrite memb_app, <- H. cbn [memb existsb]. rewrite orb_false_r.
    destruct (Nat.eqb k (key i)) eqn:E2; [|rewrite orb_false_r; reflexivity].
    apply Nat.eqb_eq in E2. subst k. rewrite E. reflexivity.
  - f_equal. apply IH. intro k. rewrite memb_app, <- H. cbn [memb existsb]. rewrite orb_false_r.
    apply orb_comm.
Qed.

Lemma m_unique_spec key l : m_unique key l = spec_unique key l.
Proof. unfold m_unique, spec_unique. apply unique_loop_spec. reflexivity. Qed.

(* laws of the reference: the keys of the result are pairwise distinct and new
   w.r.t. [bef]; every key of the input is represented; the result is a
   subsequence of the input *)
Lemma selectU_nodup key : forall l bef,
  NoDup (map key (select_by_history key keepU bef l))
  /\ (forall x, In x (select_by_history key keepU bef l) -> ~ In (key x) bef).
Proof.
  induction l as [|x r IH]; intro bef.
  - split; [constructor|intros ? []].
  - cbn [select_by_history]. destruct (IH (bef ++ [key x])) as [N F].
    destruct (keepU bef (key x)) eqn:E; unfold keepU in E.
    + apply negb_true_iff in E. split.
      * cbn [map]. constructor; [|exact N]. intro HI. apply in_map_iff in HI as [y [Hk Hy]].
        apply (F y Hy). apply in_or_app. right. left. congruence.
      * intros y [<-|Hy]; [apply memb_false_In; exact E|].
        intro HI. apply (F y Hy). apply in_or_app. left. exact HI.
    + split; [exact N|]. intros y Hy HI. apply (F y Hy). apply in_or_app. left. exact HI.
Qed.

Lemma selectU_covers key : forall l bef x,
  In x l -> In (key x) bef \/ In (key x) (map key (select_by_history key keepU bef l)).
Proof.
  induction l as [|y r IH]; intros bef x HI; [destruct HI|].
  cbn [select_by_history].
  destruct (keepU bef (key y)) eqn:E; unfold keepU in E.
  - apply negb_true_iff in E. destruct HI as [->|HI].
    + right. left. reflexivity.
    + destruct (IH (bef ++ [key y]) x HI) as [H|H].
      * apply in_app_or in H as [H|[H|[]]]; [left; exact H|right; left; exact H].
      * right. right. exact H.
  - apply negb_false_iff in E. destruct HI as [->|HI].
    + left. apply memb_In. exact E.
    + destruct (IH (bef ++ [key y]) x HI) as [H|H].
      * apply in_app_or in H as [H|[H|[]]]; [left; exact H|]. left. rewrite <- H. apply memb_In. exact E.
      * right. exact H.
Qed.

Lemma is_subseq_tail : forall r a q, is_subseq (a :: q) r = true -> is_subseq q r = true.
Proof.
  induction r as [|y r IH]; intros a q H; [discriminate|].
  cbn [is_subseq] in H.
  assert (Hq : is_subseq q r = true).
  { destruct (Nat.eqb a y); [exact H|]. eapply IH. exact H. }
  destruct q as [|b q']; [reflexivity|]. cbn [is_subseq].
  destruct (Nat.eqb b y); [|exact Hq]. eapply IH. exact Hq.
Qed.

Lemma is_subseq_cons_r q r x : is_subseq q r = true -> is_subseq q (x :: r) = true.
Proof.
  intro H. destruct q as [|a q']; [reflexivity|]. cbn [is_subseq].
  destruct (Nat.eqb a x); [|exact H]. eapply is_subseq_tail. exact H.
Qed.

Lemma selectU_subseq key : forall l bef,
  is_subseq (select_by_history key keepU bef l) l = true.
Proof.
  induction l as [|x r IH]; intro bef; [reflexivity|].
  cbn [select_by_history]. destruct (keepU bef (key x)).
  - cbn [is_subseq]. rewrite Nat.eqb_refl. apply IH.
  - apply is_subseq_cons_r. apply IH.
Qed.

Lemma spec_unique_In l : forall k, In k (spec_unique (fun k => k) l) <-> In k l.
Proof.
  intro k. split.
  - unfold spec_unique. generalize (@nil K) as bef. induction l as [|x r IH]; intros bef H; [destruct H|].
    cbn [select_by_history] in H. destruct (negb (memb x bef)).
    + destruct H as [->|H]; [left; reflexivity|right; eapply IH; exact H].
    + right. eapply IH. exact H.
  - intro H. destruct (selectU_covers (fun k => k) l [] k H) as [[]|H2].
    rewrite map_id in H2. exact H2.
Qed.

Lemma spec_unique_nodup l : NoDup (spec_unique (fun k => k) l).
Proof.
  destruct (selectU_nodup (fun k => k) l []) as [N _]. rewrite map_id in N. exact N.
Qed.

Lemma spec_unique_snoc l k :
  spec_unique (fun k => k) (l ++ [k])
  = spec_unique (fun k => k) l ++ (if memb k l then [] else [k]).
Proof.
  unfold spec_unique. rewrite select_snoc. cbn [app]. rewrite map_id.
  destruct (memb k l); reflexivity.
Qed.

(* ============================ bucketize ===================================== *)
Section DictOfMap.
  Variable f : K -> list K.
  Let g := fun k : K => (k, f k).

  Lemma d_get_map : forall ks k0,
    d_get (map g ks) k0 = if memb k0 ks then Some (f k0) else None.
  Proof.
    induction ks as [|k ks IH]; intro k0; [reflexivity|].
    cbn [map d_get memb existsb]. unfold g at 1.
    destruct (Nat.eqb k0 k) eqn:E; cbn [orb].
    - apply Nat.eqb_eq in E. subst. reflexivity.
    - apply IH.
  Qed.

  Lemma d_set_map_notin : forall ks k0 v,
    memb k0 ks = false -> d_set (map g ks) k0 v = map g ks ++ [(k0, v)].
  Proof.
    induction ks as [|k ks IH]; intros k0 v H; [reflexivity|].
    cbn [memb existsb] in H. apply orb_false_iff in H as [H1 H2].
    cbn [map d_set app]. unfold g at 1. rewrite H1. f_equal. apply IH. exact H2.
  Qed.

  Lemma d_set_map_in : forall ks k0 v,
    NoDup ks -> In k0 ks ->
    d_set (map g ks) k0 v = map (fun k => (k, if Nat.eqb k0 k then v else f k)) ks.
  Proof.
    induction ks as [|k ks IH]; intros k0 v N HI; [destruct HI|].
    inversion N as [|? ? Hnot N']; subst.
    cbn [map d_set]. unfold g at 1. destruct (Nat.eqb k0 k) eqn:E.
    - apply Nat.eqb_eq in E. subst k0. f_equal. apply map_ext_in.
      intros a Ha. destruct (Nat.eqb k a) eqn:E2; [|reflexivity].
      apply Nat.eqb_eq in E2. subst. contradiction.
    - f_equal. apply IH; [exact N'|]. destruct HI as [->|HI]; [rewrite Nat.eqb_refl in E; discriminate|exact HI].
  Qed.
End DictOfMap.

Section Bucketize.
  Variables (key vt : K -> K) (kf : K -> bool).
  Definition has (k : K) (x : K) : bool := Nat.eqb (key x) k.
  Definition bucket (l : list K) (k : K) : list K := map vt (filter (has k) l).
  Definition bkeys (l : list K) : list K := spec_unique (fun k => k) (filter kf (map key l)).

  Lemma spec_bucketize_eq l : spec_bucketize key vt kf l = map (fun k => (k, bucket l k)) (bkeys l).
  Proof. reflexivity. Qed.

  Lemma bucket_snoc l i k :
    bucket (l ++ [i]) k = bucket l k ++ (if Nat.eqb (key i) k then [vt i] else []).
  Proof.
    unfold bucket. rewrite filter_app, map_app. cbn [filter]. unfold has at 2.
    destruct (Nat.eqb (key i) k); reflexivity.
  Qed.

  Lemma bkeys_kf l k : In k (bkeys l) -> kf k = true /\ In k (map key l).
  Proof.
    unfold bkeys. intro H. apply (proj1 (spec_unique_In _ _)) in H. apply filter_In in H as [H1 H2]. split; assumption.
  Qed.

  Lemma bucket_nokey l k : ~ In k (map key l) -> bucket l k = [].
  Proof.
    intro H. unfold bucket. replace (filter (has k) l) with (@nil K); [reflexivity|].
    symmetry. induction l as [|x r IH]; [reflexivity|].
    cbn [filter]. unfold has at 1. destruct (Nat.eqb (key x) k) eqn:E.
    - exfalso. apply H. left. apply Nat.eqb_eq. exact E.
    - apply IH. intro HI. apply H. right. exact HI.
  Qed.

  Lemma spec_bucketize_snoc l i :
    spec_bucketize key vt kf (l ++ [i]) = bucket_step key vt kf (spec_bucketize key vt kf l) i.
  Proof.
    rewrite !spec_bucketize_eq. unfold bucket_step.
    assert (Hk : bkeys (l ++ [i]) = bkeys l ++ (if kf (key i) then if memb (key i) (filter kf (map key l)) then [] else [key i] else [])).
    { unfold bkeys. rewrite map_app, filter_app. cbn [map filter].
      destruct (kf (key i)); [apply spec_unique_snoc|rewrite !app_nil_r; reflexivity]. }
    rewrite Hk. destruct (kf (key i)) eqn:F.
    - unfold setdefault_append. rewrite d_get_map.
      destruct (memb (key i) (filter kf (map key l))) eqn:M.
      + (* existing bucket *)
        assert (HI : In (key i) (bkeys l)) by (apply spec_unique_In, memb_In; exact M).
        assert (memb (key i) (bkeys l) = true) as -> by (apply memb_In; exact HI).
        rewrite app_nil_r. rewrite d_set_map_in; [|apply spec_unique_nodup|exact HI].
        apply map_ext. intro k. rewrite bucket_snoc. rewrite (Nat.eqb_sym (key i) k).
        destruct (Nat.eqb k (key i)) eqn:E.
        * apply Nat.eqb_eq in E. subst k. reflexivity.
        * rewrite app_nil_r. reflexivity.
      + (* new bucket, appended at the end *)
        assert (HN : ~ In (key i) (bkeys l)).
        { intro HI. apply (proj1 (spec_unique_In _ _)) in HI. apply memb_In in HI. congruence. }
        assert (memb (key i) (bkeys l) = false) as -> by (apply memb_false_In; exact HN).
        rewrite d_set_map_notin by (apply memb_false_In; exact HN).
        rewrite map_app. cbn [map]. f_equal.
        * apply map_ext_in. intros k Hk'. rewrite bucket_snoc.
          destruct (Nat.eqb (key i) k) eqn:E; [|rewrite app_nil_r; reflexivity].
          apply Nat.eqb_eq in E. subst k. contradiction.
        * rewrite bucket_snoc, Nat.eqb_refl.
          rewrite bucket_nokey; [reflexivity|].
          intro HI. apply HN. apply spec_unique_In. apply filter_In. split; assumption.
    - rewrite app_nil_r. apply map_ext_in. intros k Hk'. rewrite bucket_snoc.
      destruct (Nat.eqb (key i) k) eqn:E; [|rewrite app_nil_r; reflexivity].
      apply Nat.eqb_eq in E. subst k. apply bkeys_kf in Hk' as [Hk' _]. congruence.
  Qed.

  Lemma m_bucketize_spec l : m_bucketize key vt kf l = spec_bucketize key vt kf l.
  Proof.
    induction l as [|i l IH] using rev_ind; [reflexivity|].
    unfold m_bucketize in *. rewrite fold_left_app. cbn [fold_left]. rewrite IH.
    symmetry. apply spec_bucketize_snoc.
  Qed.

  (* ---- "every element in exactly one bucket, in input order" ---------------- *)
  (* bucket keys are pairwise distinct; a bucket is never empty; the bucket of
     key k holds, in input order, exactly the (transformed) elements with key k;
     every element whose key passes the filter has its key among the buckets *)
  Lemma spec_bucketize_keys_nodup l : NoDup (map fst (spec_bucketize key vt kf l)).
  Proof.
    rewrite spec_bucketize_eq, map_map. cbn [fst]. rewrite map_id. apply spec_unique_nodup.
  Qed.

  Lemma spec_bucketize_bucket l k vs :
    In (k, vs) (spec_bucketize key vt kf l) ->
    vs = map vt (filter (fun x => Nat.eqb (key x) k) l) /\ vs <> [] /\ kf k = true.
  Proof.
    rewrite spec_bucketize_eq. intro H. apply in_map_iff in H as [k' [E HI]].
    injection E as -> <-. split; [reflexivity|]. apply bkeys_kf in HI as [Hkf HI]. split; [|exact Hkf].
    apply in_map_iff in HI as [x [Hx HI]]. unfold bucket.
    assert (In x (filter (has k) l)) as HF by (apply filter_In; split; [exact HI|unfold has; apply Nat.eqb_eq; exact Hx]).
    destruct (filter (has k) l); [destruct HF|discriminate].
  Qed.

  Lemma spec_bucketize_total l x :
    In x l -> kf (key x) = true -> In (key x) (map fst (spec_bucketize key vt kf l)).
  Proof.
    intros HI Hkf. rewrite spec_bucketize_eq, map_map. cbn [fst]. rewrite map_id.
    apply spec_unique_In. apply filter_In. split; [apply in_map; exact HI|exact Hkf].
  Qed.
End Bucketize.

(* ============================ partition ===================================== *)
Lemma filter_ext_bool {A} (p q : A -> bool) l : (forall x, p x = q x) -> filter p l = filter q l.
Proof. intro H. induction l as [|x r IH]; [reflexivity|]. cbn [filter]. rewrite H, IH. reflexivity. Qed.

Lemma m_partition_spec p l : m_partition p l = spec_partition p l.
Proof.
  unfold m_partition, spec_partition. rewrite m_bucketize_spec, spec_bucketize_eq.
  unfold get_default. rewrite !d_get_map.
  set (key := fun x => bool_tok (p x)).
  assert (Hb : forall b, match (if memb (bool_tok b) (bkeys key (fun _ => true) l)
                                then Some (bucket key (fun x => x) l (bool_tok b)) else None)
                         with Some v => v | None => [] end
                         = filter (fun x => Bool.eqb (p x) b) l).
  { intro b.
    assert (Hf : bucket key (fun x => x) l (bool_tok b) = filter (fun x => Bool.eqb (p x) b) l).
    { unfold bucket. rewrite map_id. apply filter_ext_bool. intro x. unfold has, key.
      destruct (p x), b; reflexivity. }
    destruct (memb (bool_tok b) (bkeys key (fun _ => true) l)) eqn:M; [exact Hf|].
    rewrite <- Hf. symmetry. apply bucket_nokey. intro HI.
    apply memb_false_In in M. apply M. unfold bkeys. apply spec_unique_In.
    apply filter_In. split; [exact HI|reflexivity]. }
  f_equal.
  - rewrite (Hb true). apply filter_ext_bool. intro x. destruct (p x); reflexivity.
  - rewrite (Hb false). apply filter_ext_bool. intro x. destruct (p x); reflexivity.
Qed.

(* every element lands in exactly one of the two lists, order kept *)
Lemma partition_lengths p (l : list K) :
  length (filter p l) + length (filter (fun x => negb (p x)) l) = length l.
Proof.
  induction l as [|x r IH]; [reflexivity|]. cbn [filter]. destruct (p x); cbn [negb length]; lia.
Qed.
