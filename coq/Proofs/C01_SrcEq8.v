(* C01, (T) tie from the Python source, the constructor side: __reduce_ex__, fromkeys, and __init__
   (update_extend(args[0]) followed by update(kwargs), the keyword mapping being passed as E).  The
   regenerated programs, interpreted by Model/C01_SrcLang.v with the callees interpreted one layer below,
   compute exactly the pointer-level model's results. *)
From Boltons Require Import Lib.Prelude Spec.C01_Spec Model.C01_Model Model.C01_Ptr Model.C01_PModel
  Model.C01_SrcLang Gen.C01_Src Proofs.C01_Base Proofs.C01_Prim Proofs.C01_Refine Proofs.C01_Mut1 Proofs.C01_Reads1
  Proofs.C01_Mut2 Proofs.C01_PSimDefs Proofs.C01_PSim1 Proofs.C01_PSim2 Proofs.C01_SrcDefs Proofs.C01_SrcInv
  Proofs.C01_SrcEq1 Proofs.C01_SrcEq2 Proofs.C01_SrcEq3 Proofs.C01_SrcEq4 Proofs.C01_SrcEq5.

Local Arguments d_get : simpl never.
Local Arguments d_set : simpl never.
Local Arguments d_del : simpl never.
Local Arguments d_mem : simpl never.
Local Arguments rev : simpl never.
Local Arguments sem : simpl never.
Local Arguments fuel_of : simpl never.
Local Arguments pm_add : simpl never.
Local Arguments pm_setitem : simpl never.
Local Arguments pm_delitem : simpl never.
Local Arguments pm_items : simpl never.
Local Arguments pm_iterkeys : simpl never.
Local Arguments pm_items1 : simpl never.
Local Arguments pm_from_pairs : simpl never.
Local Arguments existsb : simpl never.
Local Arguments comp1f_go : simpl never.
Local Arguments set_stmt : simpl never.
Local Arguments kw_tail : simpl never.

(* ---- __reduce_ex__ ----------------------------------------------------------------------------------- *)
Lemma source_reduce_ex n p proto : Good p ->
  sem (S (S (S (S n)))) MReduceEx [proto] p = (Ok (VReduce (pm_items p)), p).
Proof.
  intro G. rewrite sem_S, run_body_fin. unfold gen_prog, gen_reduce_ex. cbn [bind_params].
  cbn [exec eval]. rewrite (source_getstate n p G). reflexivity.
Qed.

(* ---- fromkeys ---------------------------------------------------------------------------------------- *)
Lemma map_res_pairs (d : nat) (ks : list nat) :
  map_res (fun k => do v <- Ok d; Ok (k, v)) ks = Ok (map (fun k => (k, d)) ks).
Proof.
  induction ks as [|k r IH]; [reflexivity|]. cbn [map_res map bind] in *. rewrite IH. reflexivity.
Qed.

Lemma source_fromkeys n p ks d :
  sem (S n) MFromKeys [VToks ks; VTok d] p = (new_from (map (fun k => (k, d)) ks), p).
Proof.
  rewrite sem_S, run_body_fin. unfold gen_prog, gen_fromkeys. cbn [bind_params].
  apply exec_return_res. apply (eval_newfrom_res _ _ _ _ (Ok (map (fun k => (k, d)) ks))).
  rewrite eval_comp1_unfold. cbn [eval env_get Nat.eqb].
  rewrite (comp1f_go_map _ _ _ _ _ _ VTok (fun _ => Ok d)).
  - rewrite map_res_pairs. reflexivity.
  - left. reflexivity.
  - intro t. reflexivity.
  - intro t. reflexivity.
Qed.

(* ---- update(kwargs): the keyword mapping passed as E ----------------------------------------------- *)
Lemma exec_upd_front_kw n fu p kw : PInv p -> NoDup (map fst kw) ->
  exists en1 s1, p_upd_map p kw = Ok s1 /\ PInv s1
    /\ exec (sem (S (S n))) fu (SSeq upd_self upd_mid) [(0, VKw kw); (1, VKw [])] p = (ONormal, en1, s1)
    /\ env_get en1 1 = Ok (VKw []).
Proof.
  intros I Hnd. unfold upd_self, upd_mid.
  destruct (for_set n fu 0 kw (VKw kw) ltac:(discriminate) (or_intror eq_refl) kw
              [(0, VKw kw); (1, VKw [])] p I eq_refl (nodup_get kw Hnd))
    as (en' & s' & Eu & I' & EL & Hp).
  exists en', s'. split; [exact Eu|]. split; [exact I'|]. split.
  - cbn. unfold eval_truth. cbn. exact EL.
  - rewrite Hp by discriminate. reflexivity.
Qed.

Lemma source_update_kw n p q kw : PInv p -> NoDup (map fst kw) ->
  sem (S (S (S n))) MUpdate [VKw kw; VKw []] p = ok_or_same p (pm_update p q (AMap kw) []).
Proof.
  intros I Hnd.
  rewrite sem_S, run_body_fin. unfold gen_prog. rewrite gen_update_eq, exec_seq_assoc.
  change (bind_params 0 [VKw kw; VKw []]) with [(0, VKw kw); (1, VKw [])].
  destruct (exec_upd_front_kw n (fuel_of p) p kw I Hnd) as (en1 & s1 & Ef & I1 & EX & E1).
  rewrite EX.
  destruct (exec_kw_tail n (fuel_of p) en1 s1 [] I1 E1 (NoDup_nil _)) as (s' & Eu & ET).
  rewrite ET. unfold pm_update. rewrite Ef. cbn [bind]. rewrite Eu. reflexivity.
Qed.

(* ---- __init__ ---------------------------------------------------------------------------------------- *)
(* what OMD( *args, **kwargs ) does to a (fresh or not) object *)
Definition init_model (p q : pomd) (args : pv) (kw : pairs) : res pomd :=
  match args with
  | VArgsMany => Raise TypeError
  | VArgs0 => match kw with [] => Ok p | _ => pm_update p q (AMap kw) [] end
  | VArgs1 a q' =>
      do p1 <- pm_update_extend p q' a [];
      match kw with [] => Ok p1 | _ => pm_update p1 q (AMap kw) [] end
  | _ => Raise type_error
  end.

Lemma pinv_add_all l p : PInv p -> PInv (p_add_all p l).
Proof.
  intro I. destruct (sim_add_all l p (proj1 I)) as [G E]. split; [exact G|].
  rewrite E. apply (add_all_ok l (lift p) (pinv_inv p I)).
Qed.

Lemma pinv_upd_map m : forall s, PInv s -> exists s', p_upd_map s m = Ok s' /\ PInv s'.
Proof.
  induction m as [|[k v] r IH]; intros s I.
  - exists s. split; [reflexivity|exact I].
  - cbn [p_upd_map]. destruct (pinv_setitem s k v I) as (s1 & E1 & I1). rewrite E1. cbn [bind].
    apply IH. exact I1.
Qed.

Lemma pinv_update_extend p q a : PInv p -> wf_arg a = true ->
  exists p1, pm_update_extend p q a [] = Ok p1 /\ PInv p1.
Proof.
  intros I _. unfold pm_update_extend.
  assert (H : exists l, match a with
                        | ASelf => pm_items1 p | AOther => Ok (pm_items q) | AMap m => Ok m | APairs l => Ok l
                        end = Ok l).
  { destruct a as [l|m| |]; try (eexists; reflexivity). apply pinv_items1. exact I. }
  destruct H as [l El]. rewrite El. cbn [bind]. eexists. split; [reflexivity|].
  apply pinv_add_all. apply pinv_add_all. exact I.
Qed.

Definition init_kw : stmt := SIf (EVar 1) (SExpr (ECall2 MUpdate (EVar 1) ENoKw)) SPass.
Definition init_ext : stmt := SIf (EVar 0) (SExpr (ECall2 MUpdateExtend (EArgs0 (EVar 0)) ENoKw)) SPass.
Definition init_chk : stmt := SIf (ELenGt1 (EVar 0)) SRaiseTypeError SPass.

Lemma gen_init_eq : gen_init = SSeq init_chk (SSeq SSuperInit (SSeq init_ext init_kw)).
Proof. reflexivity. Qed.

(* if kwargs: self.update(kwargs) *)
Lemma exec_init_kw n fu en p q kw : PInv p -> NoDup (map fst kw) -> env_get en 1 = Ok (VKw kw) ->
  exists p', match kw with [] => Ok p | _ => pm_update p q (AMap kw) [] end = Ok p'
    /\ exec (sem (S (S (S n)))) fu init_kw en p = (ONormal, en, p').
Proof.
  intros I Hnd E1. unfold init_kw. rewrite exec_if. unfold eval_truth. cbn [eval]. rewrite E1. cbn [truth].
  destruct kw as [|kv r].
  - exists p. split; reflexivity.
  - set (kw := kv :: r) in *.
    destruct (pinv_upd_map kw p I) as (s1 & Eu & _).
    exists s1. split.
    + unfold pm_update. rewrite Eu. reflexivity.
    + cbn [exec eval]. rewrite E1. rewrite (source_update_kw n p q kw I Hnd).
      unfold pm_update. rewrite Eu. reflexivity.
Qed.
Local Arguments init_kw : simpl never.

Lemma source_init n p q args kw : PInv p -> NoDup (map fst kw) ->
  match args with
  | VArgs0 | VArgsMany => True
  | VArgs1 a q' => Good q' /\ wf_op (UpdateExtend a []) = true
  | _ => False
  end ->
  sem (S (S (S (S n)))) MInit [args; VKw kw] p = ok_or_same p (init_model p q args kw).
Proof.
  intros I Hnd Hargs.
  rewrite sem_S, run_body_fin. unfold gen_prog. rewrite gen_init_eq.
  change (bind_params 0 [args; VKw kw]) with [(0, args); (1, VKw kw)].
  destruct args; try contradiction.
  - (* no positional argument *)
    destruct (exec_init_kw n (fuel_of p) [(0, VArgs0); (1, VKw kw)] p q kw I Hnd eq_refl) as (p' & Em & EX).
    unfold init_model. rewrite Em.
    unfold init_chk, init_ext. cbn [exec]. unfold eval_truth. cbn [eval env_get Nat.eqb truth].
    rewrite EX. reflexivity.
  - (* one positional argument *)
    destruct Hargs as [Gq Hwf].
    destruct (wf_update_parts a [] Hwf) as [Hwa _].
    destruct (pinv_update_extend p q0 a I Hwa) as (p1 & E1 & I1).
    destruct (exec_init_kw n (fuel_of p) [(0, VArgs1 a q0); (1, VKw kw)] p1 q kw I1 Hnd eq_refl) as (p' & Em & EX).
    unfold init_model. rewrite E1. cbn [bind]. rewrite Em.
    unfold init_chk, init_ext. cbn [exec]. unfold eval_truth. cbn [eval env_get Nat.eqb truth].
    replace (match a with
             | AOther => (Ok (VOtherObj q0), p)
             | _ => (Ok (VArg a), p)
             end) with (Ok (arg_pv q0 a), p) by (destruct a; reflexivity).
    rewrite (source_update_extend n p q0 a [] I Gq Hwf), E1. cbn [ok_or_same].
    rewrite EX. reflexivity.
  - (* more than one *)
    reflexivity.
Qed.

Print Assumptions source_reduce_ex.
Print Assumptions source_fromkeys.
Print Assumptions source_update_kw.
Print Assumptions source_init.
