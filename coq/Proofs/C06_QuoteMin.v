(* C06: minimal quoting (full_quote=False): only the delimiters of the component are escaped;
   unquote undoes it on every text without a '%'. *)
From Boltons Require Import Lib.Prelude Lib.C06_Text Spec.C06_Spec Model.C06_Model
  Proofs.C06_Codec Proofs.C06_Utf8 Proofs.C06_Quote Proofs.C06_Lists.
From Coq Require Import ZifyBool.
Open Scope N_scope.

(* the delimiter set of a component: ASCII, each one escaped by its map entry, and containing
   every character the parser splits on at that position *)
Definition delims_ok1 (m : list text) (ds splitters : list N) : bool :=
  forallb (fun d => (d <? 128) && is_escape_of d (map_get m d)) ds &&
  forallb (fun c => memN c ds) splitters.

Definition delims_ok (T : tables) : bool :=
  delims_ok1 (t_path_map T) (t_path_delims T) [47; 63; 35] &&
  delims_ok1 (t_query_map T) (t_query_delims T) [38; 59; 61; 43; 35] &&
  delims_ok1 (t_frag_map T) (t_frag_delims T) [].

(* ---- diagnosis for the harness: which table entries break tables_ok / delims_ok -----------------------
   (component 0 userinfo, 1 path, 2 query, 3 fragment; character) - evaluated by the check's search()
   after a broken obligation, to build inputs that carry the offending character in that component *)
Definition bad_bytes (ok : N -> bool) (m : list text) : list N :=
  filter (fun b => negb (entry_ok ok m b)) (range 256).
Definition bad_delims (m : list text) (ds splitters : list N) : list N :=
  filter (fun d => negb ((d <? 128) && is_escape_of d (map_get m d))) ds ++ filter (fun c => negb (memN c ds)) splitters.
Definition table_diagnosis (T : tables) : list (N * N) :=
  map (pair 0) (bad_bytes (ok_at PUser) (t_user_map T)) ++ map (pair 1) (bad_bytes (ok_at PPath) (t_path_map T)) ++
  map (pair 2) (bad_bytes (ok_at PQuery) (t_query_map T)) ++ map (pair 3) (bad_bytes (ok_at PFrag) (t_frag_map T)) ++
  map (pair 1) (bad_delims (t_path_map T) (t_path_delims T) [47; 63; 35]) ++
  map (pair 2) (bad_delims (t_query_map T) (t_query_delims T) [38; 59; 61; 43; 35]) ++
  map (pair 3) (bad_delims (t_frag_map T) (t_frag_delims T) []) ++
  (* escapes that the hex table decodes differently from two hex digits: reported as component 4 *)
  map (pair 4) (flat_map (fun a => flat_map (fun b => if opt_eqb (hex_lookup (t_hex T) a b) (hexval2 a b) then [] else [a * 256 + b])
                                             hexdigits) hexdigits).

(* ---- runs of a text that starts with ASCII characters ------------------------------------------- *)
Lemma runs_prepend_ascii a : forall q,
  a <> [] -> forallb is_ascii a = true ->
  runs (a ++ q) = match runs q with
                  | (true, run) :: rest => (true, a ++ run) :: rest
                  | other => (true, a) :: other
                  end.
Proof.
  induction a as [|c r IH]; intros q NE H; [contradiction|].
  cbn [forallb] in H. apply andb_true_iff in H as [Hc Hr].
  cbn [app runs]. destruct r as [|d r'].
  - cbn [app]. destruct (runs q) as [|[[|] run] rest]; rewrite Hc; reflexivity.
  - rewrite (IH q) by (discriminate || exact Hr).
    destruct (runs q) as [|[[|] run] rest]; rewrite Hc; reflexivity.
Qed.

Lemma runs_prepend_nonascii c q :
  is_ascii c = false ->
  runs (c :: q) = match runs q with
                  | (false, run) :: rest => (false, c :: run) :: rest
                  | other => (false, [c]) :: other
                  end.
Proof. intro H. cbn [runs]. destruct (runs q) as [|[[|] run] rest]; rewrite H; reflexivity. Qed.

Section Min.
Variable m : list text.
Variable ds : list N.
Variable splitters : list N.
Hypothesis DOK : delims_ok1 m ds splitters = true.

Definition qmin (s : text) : text :=
  flat_map (fun t => if memN t ds then map_get m t else [t]) s.

Lemma delim_entry d : memN d ds = true ->
  d < 128 /\ exists x y, map_get m d = [37; x; y] /\ hexval2 x y = Some d.
Proof.
  intro M. unfold delims_ok1 in DOK. apply andb_true_iff in DOK as [D _].
  rewrite forallb_forall in D. apply memN_In in M. specialize (D d M). cbn beta in D.
  apply andb_true_iff in D as [D1 D2]. split; [lia|].
  unfold is_escape_of in D2. destruct (map_get m d) as [|p [|x [|y [|z r]]]]; try discriminate.
  apply andb_true_iff in D2 as [E1 E2]. apply N.eqb_eq in E1. subst p. apply opt_eqb_eq in E2. eauto.
Qed.

Lemma ref_run_escape d x y run :
  d < 128 -> hexval2 x y = Some d ->
  utf8_dec (pct_decode ([37; x; y] ++ run)) = d :: utf8_dec (pct_decode run).
Proof.
  intros D H. cbn [app]. rewrite pct_decode_pct, H. cbn [utf8_dec].
  destruct (d <? 128) eqn:E; [reflexivity|lia].
Qed.

Lemma ref_run_plain t run :
  t < 128 -> (t =? 37) = false ->
  utf8_dec (pct_decode (t :: run)) = t :: utf8_dec (pct_decode run).
Proof.
  intros D H. rewrite (pct_decode_plain t run H). cbn [utf8_dec].
  destruct (t <? 128) eqn:E; [reflexivity|lia].
Qed.

(* the reference decoder undoes minimal quoting on texts without '%' *)
Theorem ref_unquote_qmin s : memN 37 s = false -> ref_unquote (qmin s) = s.
Proof.
  unfold ref_unquote. induction s as [|t r IH]; intro H; [reflexivity|].
  cbn [memN] in H. apply orb_false_iff in H as [Ht Hr]. specialize (IH Hr).
  unfold qmin in *. cbn [flat_map].
  set (Q := flat_map (fun t0 => if memN t0 ds then map_get m t0 else [t0]) r) in *.
  destruct (memN t ds) eqn:MD.
  - destruct (delim_entry t MD) as [TA [x [y [E Ex]]]]. rewrite E.
    assert (A : forallb is_ascii [37; x; y] = true).
    { unfold hexval2 in Ex. destruct (hexval1 x) eqn:Hx; [|discriminate]. destruct (hexval1 y) eqn:Hy; [|discriminate].
      pose proof (hexval1_digits _ _ Hx) as Ix. pose proof (hexval1_digits _ _ Hy) as Iy.
      assert (AH : forallb is_ascii hexdigits = true) by reflexivity. rewrite forallb_forall in AH.
      cbn [forallb]. rewrite (AH x Ix), (AH y Iy). reflexivity. }
    rewrite (runs_prepend_ascii [37; x; y] Q) by (discriminate || exact A).
    destruct (runs Q) as [|[[|] run] rest] eqn:RQ; cbn [flat_map] in IH |- *.
    + rewrite <- IH. change [37; x; y] with ([37; x; y] ++ []).
      rewrite (ref_run_escape t x y [] TA Ex). reflexivity.
    + rewrite (ref_run_escape t x y run TA Ex). rewrite <- IH. reflexivity.
    + change [37; x; y] with ([37; x; y] ++ []).
      rewrite (ref_run_escape t x y [] TA Ex). rewrite <- IH. reflexivity.
  - destruct (is_ascii t) eqn:TA.
    + unfold is_ascii in TA. apply N.ltb_lt in TA. rewrite N.eqb_sym in Ht.
      assert (A : forallb is_ascii [t] = true) by (cbn [forallb]; unfold is_ascii; destruct (t <? 128) eqn:E; [reflexivity|lia]).
      rewrite (runs_prepend_ascii [t] Q) by (discriminate || exact A).
      destruct (runs Q) as [|[[|] run] rest] eqn:RQ; cbn [flat_map app] in IH |- *.
      * rewrite <- IH. rewrite (ref_run_plain t [] TA Ht). reflexivity.
      * rewrite (ref_run_plain t run TA Ht). rewrite <- IH. reflexivity.
      * rewrite (ref_run_plain t [] TA Ht). rewrite <- IH. reflexivity.
    + cbn [app]. rewrite (runs_prepend_nonascii t Q TA).
      destruct (runs Q) as [|[[|] run] rest] eqn:RQ; cbn [flat_map app] in IH |- *; rewrite <- IH; reflexivity.
Qed.

(* no character of the minimally quoted text is a splitter (given none of them is '%' or a hex digit) *)
Lemma qmin_excl s :
  memN 37 s = false -> memN 37 splitters = false -> forallb (not_in splitters) hexdigits = true ->
  forallb (not_in splitters) (qmin s) = true.
Proof.
  intros H37 S37 SH. induction s as [|t r IH]; [reflexivity|].
  cbn [memN] in H37. apply orb_false_iff in H37 as [Ht Hr]. specialize (IH Hr).
  unfold qmin in *. cbn [flat_map]. rewrite forallb_app, IH, andb_true_r.
  destruct (memN t ds) eqn:MD.
  - destruct (delim_entry t MD) as [_ [x [y [E Ex]]]]. rewrite E.
    unfold hexval2 in Ex. destruct (hexval1 x) eqn:Hx; [|discriminate]. destruct (hexval1 y) eqn:Hy; [|discriminate].
    rewrite forallb_forall in SH. cbn [forallb].
    rewrite (SH x (hexval1_digits _ _ Hx)), (SH y (hexval1_digits _ _ Hy)).
    unfold not_in. rewrite S37. reflexivity.
  - cbn [forallb]. rewrite andb_true_r. unfold not_in.
    destruct (memN t splitters) eqn:MS; [|reflexivity].
    unfold delims_ok1 in DOK. apply andb_true_iff in DOK as [_ D]. rewrite forallb_forall in D.
    apply memN_In in MS. rewrite (D t MS) in MD. discriminate.
Qed.

Lemma qmin_nil s : qmin s = [] -> s = [].
Proof.
  destruct s as [|t r]; [reflexivity|]. unfold qmin. cbn [flat_map]. intro E.
  destruct (memN t ds) eqn:MD; [|discriminate].
  destruct (delim_entry t MD) as [_ [x [y [E1 _]]]]. rewrite E1 in E. discriminate.
Qed.
End Min.
