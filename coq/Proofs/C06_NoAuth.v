(* C06: references WITHOUT an authority (mailto:x, urn:a:b, http:/p, /abs/path, rel/path?q#f, ...):
   components survive to_text(full_quote=True) -> URL(), and rendering the re-parsed URL gives the
   same text.  Scheme-less references need the rendered path not to look like "scheme:" (no ':' before
   the first '/'), which is decidable on the rendered text (noscheme). *)
From Boltons Require Import Lib.Prelude Lib.C06_Text Spec.C06_Spec Model.C06_Model
  Proofs.C06_Codec Proofs.C06_Utf8 Proofs.C06_Quote Proofs.C06_Lists Proofs.C06_Round.
Open Scope N_scope.

Definition starts2 (p : text) : bool := match p with 47 :: 47 :: _ => true | _ => false end.
Definition starts1 (p : text) : bool := match p with 47 :: _ => true | _ => false end.
Definition empty_or_slash (p : text) : bool := match p with [] => true | 47 :: _ => true | _ => false end.
Definition starts_colon (p : text) : bool := match p with 58 :: _ => true | _ => false end.

(* ---- eliminating matches on literal characters ------------------------------------------------ *)
Lemma auth_match_none {A} (s1 : text) (F : text -> A) (G : A) :
  starts2 s1 = false -> (match s1 with 47 :: 47 :: r => F r | _ => G end) = G.
Proof.
  intro H. destruct s1 as [|c1 [|c2 r]]; try reflexivity.
  - destruct c1 as [|p]; [reflexivity|]. repeat (destruct p as [p|p|]; try reflexivity).
  - destruct c1 as [|p]; [reflexivity|]. repeat (destruct p as [p|p|]; try reflexivity).
    destruct c2 as [|p]; [reflexivity|]. repeat (destruct p as [p|p|]; try reflexivity). discriminate.
Qed.

Lemma sch_match_none {A} (rest : text) (F : text -> A) (G : A) :
  starts_colon rest = false -> (match rest with 58 :: r => F r | _ => G end) = G.
Proof.
  intro H. destruct rest as [|c r]; [reflexivity|].
  destruct c as [|p]; [reflexivity|]. repeat (destruct p as [p|p|]; try reflexivity). discriminate.
Qed.

(* ---- _URL_RE in two stages ------------------------------------------------------------------------ *)
Definition re_tail2 (sch au : option text) (s2 : text) : re_groups :=
  let '(path, s3) := span (not_in [63; 35]) s2 in
  let '(q, s4) := match s3 with
                  | 63 :: r => let '(a, r') := span (not_in [35]) r in (Some a, r')
                  | _ => (None, s3)
                  end in
  let f := match s4 with 35 :: r => Some r | _ => None end in
  mkRe sch au path q f.

Definition re_tail (sch : option text) (s1 : text) : re_groups :=
  let '(au, s2) := match s1 with
                   | 47 :: 47 :: r => let '(a, r') := span (not_in [47; 63; 35]) r in (Some a, r')
                   | _ => (None, s1)
                   end in
  re_tail2 sch au s2.

Lemma url_re_unfold s :
  url_re s = let '(run, rest) := span (not_in [58; 47; 63; 35]) s in
             let '(sch, s1) := match run, rest with
                               | _ :: _, 58 :: r => (Some run, r)
                               | _, _ => (None, s)
                               end in
             re_tail sch s1.
Proof.
  unfold url_re, re_tail, re_tail2. destruct (span (not_in [58; 47; 63; 35]) s) as [run rest].
  destruct (match run with [] => (None, s) | _ :: _ => match rest with 58 :: r => (Some run, r) | _ => (None, s) end end)
    as [sch s1].
  destruct (match s1 with 47 :: 47 :: r => let '(a, r') := span (not_in [47; 63; 35]) r in (Some a, r') | _ => (None, s1) end)
    as [au s2].
  reflexivity.
Qed.

(* the text does not begin with "scheme:" *)
Definition noscheme (s : text) : bool :=
  let '(run, rest) := span (not_in [58; 47; 63; 35]) s in negb (nonempty run) || negb (starts_colon rest).

Lemma url_re_noscheme s : noscheme s = true -> url_re s = re_tail None s.
Proof.
  intro H. rewrite url_re_unfold. unfold noscheme in H.
  destruct (span (not_in [58; 47; 63; 35]) s) as [run rest].
  destruct run as [|r0 rr]; [reflexivity|]. cbn [nonempty negb orb] in H. apply negb_true_iff in H.
  rewrite (sch_match_none rest _ _ H). reflexivity.
Qed.

Lemma url_re_scheme scheme s1 :
  scheme <> [] -> forallb (not_in [58; 47; 63; 35]) scheme = true ->
  url_re (scheme ++ [58] ++ s1) = re_tail (Some scheme) s1.
Proof.
  intros NE Hs. rewrite url_re_unfold. rewrite (span_stop _ scheme _ Hs) by reflexivity.
  destruct scheme as [|s0 sr]; [contradiction|]. reflexivity.
Qed.

Lemma re_tail_slashes sch x :
  stops (not_in [47; 63; 35]) x = true -> re_tail sch ([47; 47] ++ x) = re_tail2 sch (Some []) x.
Proof.
  intro S. unfold re_tail. cbn [app]. change x with ([] ++ x) at 1.
  rewrite (span_stop (not_in [47; 63; 35]) [] x eq_refl S). reflexivity.
Qed.

Lemma re_tail_noslashes sch x : starts2 x = false -> re_tail sch x = re_tail2 sch None x.
Proof. intro H. unfold re_tail. rewrite (auth_match_none x _ _ H). reflexivity. Qed.

Lemma re_tail2_shape sch au pathtxt qs fr :
  forallb (not_in [63; 35]) pathtxt = true -> forallb (not_in [35]) qs = true ->
  re_tail2 sch au (pathtxt ++ qpart qs ++ fpart fr) = mkRe sch au pathtxt (some_if qs) (some_if fr).
Proof.
  intros Hp Hq. unfold re_tail2.
  assert (S3 : stops (not_in [63; 35]) (qpart qs ++ fpart fr) = true).
  { unfold qpart, fpart. destruct (nonempty qs); [reflexivity|]. destruct (nonempty fr); reflexivity. }
  rewrite (span_stop _ pathtxt _ Hp S3).
  unfold qpart, fpart, some_if. destruct (nonempty qs) eqn:Q.
  - cbn [app]. assert (S4 : stops (not_in [35]) (if nonempty fr then 35 :: fr else []) = true)
      by (destruct (nonempty fr); reflexivity).
    rewrite (span_stop _ qs _ Hq S4). destruct (nonempty fr); reflexivity.
  - cbn [app]. destruct (nonempty fr) eqn:Fr; reflexivity.
Qed.

Lemma span_app_stop p a r :
  stops p r = true -> span p (a ++ r) = let '(x, y) := span p a in (x, y ++ r).
Proof.
  intro S. induction a as [|c a' IH]; cbn [app span].
  - destruct r as [|c r']; [reflexivity|]. cbn [stops] in S. apply negb_true_iff in S. cbn [span]. rewrite S. reflexivity.
  - destruct (p c); [|reflexivity]. rewrite IH. destruct (span p a'). reflexivity.
Qed.

Lemma noscheme_app a r :
  stops (not_in [58; 47; 63; 35]) r = true -> starts_colon r = false -> noscheme (a ++ r) = noscheme a.
Proof.
  intros S C. unfold noscheme. rewrite (span_app_stop _ a r S).
  destruct (span (not_in [58; 47; 63; 35]) a) as [x y]. destruct y as [|c y']; [cbn [app]; rewrite C; reflexivity|reflexivity].
Qed.

Lemma starts2_eos p : starts2 p = true -> empty_or_slash p = true.
Proof.
  destruct p as [|c1 [|c2 r]]; intro C; try discriminate; try reflexivity.
  - unfold starts2 in C. destruct c1 as [|pc]; [discriminate|]. repeat (destruct pc as [pc|pc|]; try discriminate).
  - unfold starts2 in C. unfold empty_or_slash. destruct c1 as [|pc]; [discriminate|].
    repeat (destruct pc as [pc|pc|]; try discriminate). reflexivity.
Qed.

Lemma eos_stops p r : empty_or_slash p = true -> stops (not_in [47; 63; 35]) r = true ->
  stops (not_in [47; 63; 35]) (p ++ r) = true.
Proof.
  intros E S. destruct p as [|c p']; [exact S|]. cbn [app stops]. unfold empty_or_slash in E.
  destruct c as [|pc]; [discriminate|]. repeat (destruct pc as [pc|pc|]; try discriminate). reflexivity.
Qed.

Section NoAuth.
Variable T : tables.
Variable O : oracles.
Hypothesis TOK : tables_ok T = true.
Let nfc := o_nfc O.
Let qf := quote_full T O.
Hypothesis nfc_nil : nfc [] = [].

(* to_text's "//" for a URL without authority *)
Definition slashes (scheme pathtxt : text) (nl : bool) : text :=
  if starts2 pathtxt || (nonempty scheme && empty_or_slash pathtxt && nl) then [47; 47] else [].

Definition rendered_na (scheme : text) (nl : bool) (path : list text) (q : list (text * option text)) (frag : text) : text :=
  let pathtxt := join [47] (map (qf CPath) path) in
  sprefix scheme ++ slashes scheme pathtxt nl ++ pathtxt ++ qpart (join [38] (map (rp T O) q)) ++ fpart (qf CFrag frag).

(* ---- rendering ---------------------------------------------------------------------------------------- *)
Theorem to_text_na scheme sep fam port path q frag :
  let u := mkU scheme sep [] [] fam [] port path q frag in
  to_text T O true u = MOk (rendered_na scheme (uses_netloc T u) path q frag).
Proof.
  intro u. unfold to_text, get_authority. cbn [u u_user u_pass u_host u_scheme u_path u_query u_frag nonempty orb mbind].
  unfold rendered_na, sprefix, slashes. rewrite (query_to_text_rp T O).
  change (quote T O true CPath) with (qf CPath). change (quote T O true CFrag frag) with (qf CFrag frag).
  fold u. generalize (join [47] (map (qf CPath) path)); intro pathtxt.
  f_equal. f_equal. rewrite andb_false_r. cbn [andb].
  assert (E1 : (match pathtxt with 47 :: 47 :: _ => true | _ => false end) = starts2 pathtxt) by reflexivity.
  assert (E2 : (match pathtxt with [] => true | 47 :: _ => true | _ => false end) = empty_or_slash pathtxt) by reflexivity.
  rewrite E1, E2. f_equal. destruct pathtxt; reflexivity.
Qed.

(* ---- parsing the rendered text -------------------------------------------------------------------------- *)
Definition rest_of (q : list (text * option text)) (frag : text) : text :=
  qpart (join [38] (map (rp T O) q)) ++ fpart (qf CFrag frag).

Lemma rest_stops q frag p :
  p 63 = false -> p 35 = false -> stops p (rest_of q frag) = true.
Proof.
  intros P63 P35. unfold rest_of, qpart, fpart. destruct (nonempty _); [cbn [app stops]; rewrite P63; reflexivity|].
  destruct (nonempty _); [cbn [app stops]; rewrite P35; reflexivity|reflexivity].
Qed.

Lemma rest_no_colon q frag : starts_colon (rest_of q frag) = false.
Proof. unfold rest_of, qpart, fpart. destruct (nonempty _); [reflexivity|]. destruct (nonempty _); reflexivity. Qed.

Lemma rest_no_slash2 q frag : starts1 (rest_of q frag) = false.
Proof. unfold rest_of, qpart, fpart. destruct (nonempty _); [reflexivity|]. destruct (nonempty _); reflexivity. Qed.

Lemma starts2_app_rest p r : starts1 r = false -> starts2 (p ++ r) = starts2 p.
Proof.
  intro H. destruct p as [|c1 [|c2 p']]; try reflexivity.
  - cbn [app]. destruct r as [|c r']; [reflexivity|]. unfold starts2.
    destruct c as [|pc]; [reflexivity|]. repeat (destruct pc as [pc|pc|]; try reflexivity). discriminate.
  - cbn [app]. unfold starts2. destruct c1 as [|pc]; [reflexivity|]. repeat (destruct pc as [pc|pc|]; try reflexivity).
    destruct r as [|c r']; [reflexivity|]. destruct c as [|pc]; [reflexivity|].
    repeat (destruct pc as [pc|pc|]; try reflexivity). discriminate.
Qed.

Lemma url_re_na scheme nl path q frag :
  forallb (not_in [58; 47; 63; 35]) scheme = true ->
  Forall (scalar_nfc O) path -> Forall (pair_ok O) q ->
  (scheme = [] -> noscheme (join [47] (map (qf CPath) path)) = true) ->
  url_re (rendered_na scheme nl path q frag)
  = mkRe (some_if scheme)
         (if nonempty (slashes scheme (join [47] (map (qf CPath) path)) nl) then Some [] else None)
         (join [47] (map (qf CPath) path)) (some_if (join [38] (map (rp T O) q))) (some_if (qf CFrag frag)).
Proof.
  intros Hs Fp Fq NS. unfold rendered_na. cbv zeta.
  set (pathtxt := join [47] (map (qf CPath) path)) in *.
  fold (rest_of q frag).
  assert (Hp : forallb (not_in [63; 35]) pathtxt = true) by (apply (path_chars T O TOK); exact Fp).
  assert (Hq : forallb (not_in [35]) (join [38] (map (rp T O) q)) = true) by (apply (query_chars T O TOK); exact Fq).
  assert (TAIL : forall sch, re_tail sch (slashes scheme pathtxt nl ++ pathtxt ++ rest_of q frag)
                 = mkRe sch (if nonempty (slashes scheme pathtxt nl) then Some [] else None) pathtxt
                        (some_if (join [38] (map (rp T O) q))) (some_if (qf CFrag frag))).
  { intro sch. unfold slashes. destruct (starts2 pathtxt || (nonempty scheme && empty_or_slash pathtxt && nl)) eqn:C.
    - rewrite re_tail_slashes.
      + cbn [nonempty]. apply re_tail2_shape; assumption.
      + (* the text after the inserted "//" begins with '/', '?', '#' or ends *)
        assert (EP : empty_or_slash pathtxt = true).
        { apply orb_true_iff in C as [C|C]; [apply starts2_eos; exact C|].
          apply andb_true_iff in C as [C _]. apply andb_true_iff in C as [_ C]. exact C. }
        apply (eos_stops pathtxt _ EP). apply rest_stops; reflexivity.
    - cbn [app nonempty]. apply orb_false_iff in C as [C _]. rewrite re_tail_noslashes.
      + apply re_tail2_shape; assumption.
      + rewrite (starts2_app_rest pathtxt _ (rest_no_slash2 q frag)). exact C. }
  unfold sprefix. destruct scheme as [|s0 sr].
  - cbn [nonempty app]. unfold some_if at 1. cbn [nonempty]. rewrite url_re_noscheme; [apply TAIL|].
    unfold slashes. cbn [nonempty andb orb]. rewrite orb_false_r. destruct (starts2 pathtxt) eqn:C.
    + reflexivity.
    + cbn [app]. rewrite noscheme_app; [apply NS; reflexivity|apply rest_stops; reflexivity|apply rest_no_colon].
  - cbn [nonempty]. rewrite <- app_assoc. rewrite url_re_scheme; [|discriminate|exact Hs].
    unfold some_if at 1. cbn [nonempty]. apply TAIL.
Qed.
Theorem url_init_na scheme nl path q frag :
  forallb (not_in [58; 47; 63; 35]) scheme = true ->
  path <> [] -> Forall (scalar_nfc O) path -> Forall (pair_ok O) q -> scalar_nfc O frag ->
  (scheme = [] -> noscheme (join [47] (map (qf CPath) path)) = true) ->
  rendered_na scheme nl path q frag <> [] ->
  url_init T O (rendered_na scheme nl path q frag)
  = MOk (mkU scheme (nonempty (slashes scheme (join [47] (map (qf CPath) path)) nl)) [] [] 0 [] None
             (map nfc path) (map (nfc_pair O) q) (nfc frag)).
Proof.
  intros Hs NEp Fp Fq Sf NS NEt. unfold url_init.
  destruct (rendered_na scheme nl path q frag) as [|x0 xr] eqn:ET; [contradiction|]. rewrite <- ET. clear NEt.
  unfold parse_url. rewrite (url_re_na scheme nl path q frag Hs Fp Fq NS).
  cbn [g_scheme g_authority g_path g_query g_fragment].
  destruct (nonempty (slashes scheme (join [47] (map (qf CPath) path)) nl));
    cbn [split_userinfo split_hostport parse_host mbind];
    cbn [pu_host pu_scheme pu_sep pu_user pu_pass pu_family pu_port pu_path pu_query pu_fragment decode_host mbind];
    rewrite !opt_text_some_if;
    unfold qf; rewrite (path_back T O TOK _ NEp Fp), (parse_qsl_join T O TOK q Fq), (unq_qf T O TOK CFrag frag Sf); reflexivity.
Qed.

(* uses_netloc depends on the scheme tables and, failing them, on whether the text had "//" *)
Lemma uses_netloc_cases (u u' : url) :
  u_scheme u' = u_scheme u ->
  uses_netloc T u' = uses_netloc T u \/ (uses_netloc T u = u_sep u /\ uses_netloc T u' = u_sep u').
Proof.
  intro E. unfold uses_netloc. rewrite E.
  destruct (assoc_text (u_scheme u) (t_ports T)); [left; reflexivity|].
  destruct (mem_text (u_scheme u) (t_nonetloc T)); [left; reflexivity|].
  destruct (assoc_text (last_plus_part (u_scheme u)) (t_ports T)); [left; reflexivity|].
  right. split; reflexivity.
Qed.

Lemma slashes_stable scheme pathtxt (nl : bool) :
  slashes scheme pathtxt (nonempty (slashes scheme pathtxt nl)) = slashes scheme pathtxt nl.
Proof.
  unfold slashes. destruct (starts2 pathtxt); [reflexivity|]. cbn [orb].
  destruct (nonempty scheme && empty_or_slash pathtxt); [|reflexivity]. cbn [andb]. destruct nl; reflexivity.
Qed.
End NoAuth.

(* COMPONENTS SURVIVE, no authority: scheme (possibly empty), no userinfo, no host; any path segments,
   query pairs and fragment *)
Theorem roundtrip_na T O :
  tables_ok T = true ->
  forall scheme sep fam port path q frag,
  let nfc := o_nfc O in
  let u := mkU scheme sep [] [] fam [] port path q frag in
  let pathtxt := join [47] (map (quote_full T O CPath) path) in
  forallb (not_in [58; 47; 63; 35]) scheme = true -> nfc [] = [] ->
  path <> [] -> Forall (fun s => all_scalar (nfc s) = true) path -> Forall (pair_ok O) q ->
  all_scalar (nfc frag) = true ->
  (scheme = [] -> noscheme pathtxt = true) ->
  forall full, to_text T O true u = MOk full -> full <> [] ->
  url_init T O full
  = MOk (mkU scheme (nonempty (slashes scheme pathtxt (uses_netloc T u))) [] [] 0 [] None
             (map nfc path) (map (nfc_pair O) q) (nfc frag)).
Proof.
  intros TOK scheme sep fam port path q frag nfc u pathtxt Hs N0 NEp Fp Fq Sf NS full R NEt.
  pose proof (to_text_na T O scheme sep fam port path q frag) as R0. fold u in R0.
  pose proof (eq_trans (eq_sym R0) R) as EF. inversion EF as [EF']. subst full.
  apply (url_init_na T O TOK scheme (uses_netloc T u) path q frag Hs NEp Fp Fq Sf NS NEt).
Qed.

(* ... and rendering the re-parsed URL gives the same text *)
Theorem fixpoint_full_na T O :
  tables_ok T = true ->
  forall scheme sep fam port path q frag,
  let nfc := o_nfc O in
  let u := mkU scheme sep [] [] fam [] port path q frag in
  let pathtxt := join [47] (map (quote_full T O CPath) path) in
  forallb (not_in [58; 47; 63; 35]) scheme = true ->
  nfc [] = [] -> (forall x, nfc (nfc x) = nfc x) ->
  path <> [] -> Forall (fun s => all_scalar (nfc s) = true) path -> Forall (pair_ok O) q ->
  all_scalar (nfc frag) = true ->
  (scheme = [] -> noscheme pathtxt = true) ->
  forall full u', to_text T O true u = MOk full -> full <> [] -> url_init T O full = MOk u' ->
  to_text T O true u' = MOk full.
Proof.
  intros TOK scheme sep fam port path q frag nfc u pathtxt Hs N0 IDEM NEp Fp Fq Sf NS full u' R NEt P.
  pose proof (roundtrip_na T O TOK scheme sep fam port path q frag Hs N0 NEp Fp Fq Sf NS full R NEt) as P0.
  pose proof (eq_trans (eq_sym P0) P) as EU. inversion EU as [EU']. clear EU P.
  pose proof (to_text_na T O scheme sep fam port path q frag) as R0. fold u in R0.
  pose proof (eq_trans (eq_sym R0) R) as EF. inversion EF as [EF']. clear EF.
  set (u1 := mkU scheme (nonempty (slashes scheme pathtxt (uses_netloc T u))) [] [] 0 [] None
                 (map nfc path) (map (nfc_pair O) q) (nfc frag)).
  pose proof (to_text_na T O scheme (nonempty (slashes scheme pathtxt (uses_netloc T u))) 0 None
                (map nfc path) (map (nfc_pair O) q) (nfc frag)) as R1.
  fold u1 in R1. refine (eq_trans R1 _). f_equal.
  (* the two rendered texts coincide *)
  unfold rendered_na. cbv zeta.
  assert (QP : map (quote_full T O CPath) (map nfc path) = map (quote_full T O CPath) path).
  { rewrite map_map. apply map_ext. intro x. apply (qf_nfc T O IDEM). }
  assert (QQ : map (rp T O) (map (nfc_pair O) q) = map (rp T O) q).
  { rewrite map_map. apply map_ext. intros [k [v|]]; cbn [nfc_pair rp fst snd option_map]; rewrite ?(qf_nfc T O IDEM); reflexivity. }
  rewrite QP, QQ, (qf_nfc T O IDEM). fold pathtxt.
  assert (SL : slashes scheme pathtxt (uses_netloc T u1) = slashes scheme pathtxt (uses_netloc T u)).
  { destruct (uses_netloc_cases T u u1 eq_refl) as [E|[E1 E2]].
    - rewrite E. reflexivity.
    - rewrite E2. unfold u1. cbn [u_sep]. apply slashes_stable. }
  rewrite SL. reflexivity.
Qed.

