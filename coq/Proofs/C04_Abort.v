(* C04: a with-block left by an exception never publishes: at every crash point of
   such a run the destination holds what it held before (never the partial content). *)
From Boltons Require Import Lib.Prelude Model.C04_Model Spec.C04_Spec Check.C04_Check Proofs.C04_Hoare Proofs.C04_Inv.
Open Scope nat_scope.

Definition is_pub (e : ev) : bool := match e with ERename _ _ | ELink _ _ => true | _ => false end.
Definition NP (w : world) : Prop := forallb (fun x => negb (is_pub (fst x))) (w_trace w) = true.
Definition NPQ {A} : A -> world -> Prop := fun _ => NP.

Lemma np_prim e forced : is_pub e = false -> triple NP (prim_f e forced) NPQ NPQ NP.
Proof.
  intros He w Hw. unfold prim_f. destruct (crash_now w); [exact Hw|].
  unfold step. destruct (fault_of forced w); cbn.
  - unfold NPQ, NP. cbn. rewrite He. exact Hw.
  - destruct (fst (fst (sem (w_umask w) e (interfere w) (w_file w)))); unfold NPQ, NP; cbn; rewrite He; exact Hw.
Qed.

Lemma np_rm c : triple NP (rm_part_file c) NPQ NPQ NP.
Proof.
  unfold rm_part_file. destruct (c_rm_part_on_exc c).
  - eapply t_catch; [apply np_prim; reflexivity|]. intro e. apply t_ret. auto.
  - apply t_ret. auto.
Qed.

Lemma np_rm_raise {A} c e : triple NP (rm_part_file c ;;; raise e) (@NPQ A) NPQ NP.
Proof. eapply t_bind; [apply np_rm|]. intros ?; cbv beta. apply t_raise. auto. Qed.

Lemma np_open_part c : triple NP (open_part_file c) NPQ NPQ NP.
Proof.
  unfold open_part_file. eapply t_bind with (Q := NPQ).
  - destruct (c_file_perms c); [apply t_ret; auto|].
    eapply t_bind with (Q := NPQ); [apply t_read; auto|]. intro. apply t_ret. auto.
  - intros [perms do_chmod]. eapply t_bind; [apply np_prim; reflexivity|]. intros ?; cbv beta.
    eapply t_bind with (Q := NPQ).
    + eapply t_catch; [apply np_prim; reflexivity|]. intro e. apply np_rm_raise.
    + intros ?; cbv beta. destruct do_chmod; [|apply t_ret; auto].
      eapply t_catch; [apply np_prim; reflexivity|]. intro e.
      eapply t_bind with (Q := NPQ).
      * eapply t_catch; [apply np_prim; reflexivity|]. intro e2. apply np_rm_raise.
      * intros ?; cbv beta. apply np_rm_raise.
Qed.

Lemma np_setup c : triple NP (setup c) NPQ NPQ NP.
Proof.
  unfold setup. eapply t_bind with (Q := NPQ); [apply t_read; auto|]. intro de.
  destruct (de && negb (c_overwrite c)); [apply t_raise; auto|].
  eapply t_bind with (Q := NPQ); [apply t_read; auto|]. intro pe.
  eapply t_bind with (Q := NPQ).
  - destruct (c_overwrite_part c && pe); [apply np_prim; reflexivity|apply t_ret; auto].
  - intros ?; cbv beta. apply np_open_part.
Qed.

Lemma np_run_body ops : triple NP (run_body ops) NPQ NPQ NP.
Proof.
  induction ops as [|o r IH]; cbn [run_body]; [apply t_ret; auto|].
  destruct o; (eapply t_bind; [apply np_prim; reflexivity|]; intros ?; cbv beta; exact IH).
Qed.

Lemma np_exit_true c : triple NP (exit_ c true) NPQ NPQ NP.
Proof.
  unfold exit_. eapply t_bind with (Q := NPQ); [apply t_read; auto|]. intro f.
  eapply t_bind with (Q := NPQ).
  - assert (H : triple NP
                  (catch (prim EFlush;;; prim EFsync;;; prim EClose)
                         (fun e => catch (prim EClose) (fun _ => ret tt);;; rm_part_file c;;; raise e))
                  NPQ NPQ NP).
    { eapply t_catch.
      - eapply t_bind; [apply np_prim; reflexivity|]. intros ?; cbv beta.
        eapply t_bind; [apply np_prim; reflexivity|]. intros ?; cbv beta. apply np_prim; reflexivity.
      - intro e. eapply t_bind with (Q := NPQ).
        + eapply t_catch; [apply np_prim; reflexivity|]. intro e2. apply t_ret. auto.
        + intros ?; cbv beta. apply np_rm_raise. }
    destruct f; [apply t_ret; auto|exact H|exact H].
  - intros ?; cbv beta. apply np_rm.
Qed.

(* the body raises: nothing is ever published *)
Lemma np_save_raises c ops : triple NP (save c ops true) NPQ NPQ NP.
Proof.
  unfold save. eapply t_bind; [apply np_setup|]. intros ?; cbv beta.
  intros w Hw.
  assert (Hb : triple NP (body ops true) NPQ NPQ NP).
  { unfold body. eapply t_bind; [apply np_run_body|]. intros ?; cbv beta. apply t_raise. auto. }
  assert (Hnv : forall x w', body ops true w <> (Val x, w')).
  { intros x w'. unfold body, bind. destruct (run_body ops w) as [[y|e|] w'']; cbn; discriminate. }
  specialize (Hb w Hw). destruct (body ops true w) as [[x|e|] w'] eqn:Eb.
  - exfalso. eapply Hnv. reflexivity.
  - assert (T : triple NP (exit_ c true ;;; raise e) (@NPQ unit) NPQ NP).
    { eapply t_bind; [apply np_exit_true|]. intros ?; cbv beta. apply t_raise. auto. }
    apply T. exact Hb.
  - exact Hb.
Qed.

Lemma np_not_published c w : NP w -> sc_published (scan_of c w) = false.
Proof.
  unfold NP, scan_of, scan_tr. induction (w_trace w) as [|[e r] t IH]; cbn [forallb fold_right fst]; [reflexivity|].
  intro H. apply andb_true_iff in H as [He Ht]. specialize (IH Ht).
  destruct r as [x|]; [rewrite call_of_failed; exact IH|].
  destruct e; cbn in He; try discriminate; cbn; exact IH.
Qed.

Lemma aborted_lemma c ops s0 umask crash sched o w :
  c_dest c <> c_part c -> same_dir (c_part c) = true -> wf s0 ->
  run_save c ops true s0 umask crash sched = (o, w) ->
  dest_ok_aborted (content_kill s0 (c_dest c) :: appear_contents sched) (content_kill (w_fs w) (c_dest c)) = true /\
  dest_ok_aborted (content_power s0 (c_dest c) :: appear_contents sched) (content_power (w_fs w) (c_dest c)) = true /\
  (forall x, o <> Val x).
Proof.
  intros Hdp Hpd Hwf Hr.
  destruct (run_safe c ops true s0 umask crash sched Hdp Hpd Hwf) as [(Hs & _) Hd].
  rewrite Hr in Hs, Hd. cbn [fst snd] in Hs, Hd.
  pose proof (np_save_raises c ops (init_world s0 umask (c_dest c) crash sched) eq_refl) as Hnp.
  unfold run_save in Hr. rewrite Hr in Hnp.
  assert (Hw : NP w) by (destruct o; exact Hnp).
  pose proof (np_not_published c w Hw) as Hpub.
  assert (Hany : St_any c s0 sched (w_fs w) (w_file w) (scan_of c w)).
  { destruct Hs as [H|(_ & _ & _ & _ & Hp)]; [exact H|congruence]. }
  destruct Hany as ((_ & Hold & _) & _).
  assert (V : forall view, (view = i_vol \/ view = i_dur) ->
            dest_ok_aborted (option_map (fun i => view (f_ino s0 i)) (f_dir s0 (c_dest c)) :: appear_contents sched)
                            (option_map (fun i => view (f_ino (w_fs w) i)) (f_dir (w_fs w) (c_dest c))) = true).
  { intros view Hv. unfold dest_ok_aborted. unfold dest_old in Hold.
    destruct (f_dir (w_fs w) (c_dest c)) as [j|] eqn:Ej.
    - destruct Hold as [(H0 & Hi) | (H0 & Ha)].
      + rewrite H0. cbn [option_map existsb]. rewrite Hi, ocontent_refl. reflexivity.
      + cbn [option_map existsb]. rewrite (appeared_in sched _ view Hv Ha). apply orb_true_r.
    - rewrite Hold. cbn. reflexivity. }
  split; [|split].
  - pose proof (V i_vol (or_introl eq_refl)) as H. unfold content_kill.
    destruct (f_dir s0 (c_dest c)); destruct (f_dir (w_fs w) (c_dest c)); exact H.
  - pose proof (V i_dur (or_intror eq_refl)) as H. unfold content_power.
    destruct (f_dir s0 (c_dest c)); destruct (f_dir (w_fs w) (c_dest c)); exact H.
  - intros x ->. destruct (Hd x eq_refl) as (((_ & _ & _ & _ & Hp) & _) & _). congruence.
Qed.
