(* C16: the statements of Props/C16.v assembled; CPython's generated character
   classes satisfy cc_ok; refutations and necessity witnesses by computation. *)
From Coq Require Import ZifyBool.
From Boltons Require Import Lib.Prelude Lib.C16_Text Spec.C16_Spec Model.C16_Model Gen.C16_Gen
  Spec.C16_Re Proofs.C16_Text Proofs.C16_Regex Proofs.C16_Parse Proofs.C16_Fold Proofs.C16_FoldM Proofs.C16_Format Proofs.C16_Trailing Proofs.C16_ReEquiv.
Open Scope N_scope.

(* ---- CPython's classes are lawful -------------------------------------------------------- *)
Lemma in_ranges_true rs c : in_ranges rs c = true ->
  exists lo hi, In (lo, hi) rs /\ lo <= c <= hi.
Proof.
  unfold in_ranges. intro H. apply existsb_exists in H as [[lo hi] [Hin Hr]]. cbn [fst snd] in Hr.
  apply andb_true_iff in Hr as [H1 H2]. apply N.leb_le in H1, H2. exists lo, hi. split; [exact Hin|lia].
Qed.

Lemma in_ranges_false rs c :
  forallb (fun r => (c <? fst r) || (snd r <? c)) rs = true -> in_ranges rs c = false.
Proof.
  unfold in_ranges. induction rs as [|[lo hi] rs IH]; cbn [forallb existsb fst snd]; intro H; [reflexivity|].
  apply andb_true_iff in H as [H1 H2]. rewrite (IH H2), orb_false_r.
  apply orb_true_iff in H1 as [H1|H1]; apply N.ltb_lt in H1.
  - replace (lo <=? c) with false by (symmetry; apply N.leb_gt; exact H1). reflexivity.
  - replace (c <=? hi) with false by (symmetry; apply N.leb_gt; exact H1). apply andb_false_r.
Qed.

(* c in [lo, hi] is outside every range of rs, decided on the bounds *)
Lemma in_ranges_false_interval rs lo hi c :
  lo <= c <= hi -> forallb (fun r => (hi <? fst r) || (snd r <? lo)) rs = true -> in_ranges rs c = false.
Proof.
  intros Hc H. apply in_ranges_false. rewrite forallb_forall in *. intros r Hr. specialize (H r Hr).
  apply orb_true_iff in H as [H|H]; apply N.ltb_lt in H; apply orb_true_iff; [left|right]; apply N.ltb_lt; lia.
Qed.

Lemma in_ranges_true_interval rs lo hi c :
  lo <= c <= hi -> existsb (fun r => (fst r <=? lo) && (hi <=? snd r)) rs = true -> in_ranges rs c = true.
Proof.
  intros Hc H. unfold in_ranges. apply existsb_exists in H as [r [Hr H]]. apply existsb_exists. exists r.
  split; [exact Hr|]. apply andb_true_iff in H as [H1 H2]. apply N.leb_le in H1, H2.
  apply andb_true_iff. split; apply N.leb_le; lia.
Qed.

Lemma py_cc_ok : cc_ok py_cc.
Proof.
  constructor; unfold py_cc; cbn [is_sp is_br is_dg].
  - vm_compute. reflexivity.
  - intros c Hc. apply (in_ranges_false_interval _ 33 126 c Hc). vm_compute. reflexivity.
  - vm_compute. reflexivity.
  - vm_compute. reflexivity.
  - intros c H. apply in_ranges_true in H as [lo [hi [Hin Hc]]].
    apply (in_ranges_true_interval _ lo hi c Hc).
    revert lo hi Hin Hc. cut (forallb (fun r => existsb (fun r0 : N * N => (fst r0 <=? fst r) && (snd r <=? snd r0)) py_space_ranges) py_break_ranges = true).
    + intros G lo hi Hin _. rewrite forallb_forall in G. exact (G (lo, hi) Hin).
    + vm_compute. reflexivity.
  - intros c Hc. apply (in_ranges_true_interval _ 48 57 c Hc). vm_compute. reflexivity.
  - intros c Hc. apply (in_ranges_false_interval _ 0 47 c); [lia|]. vm_compute. reflexivity.
  - intros c H. apply in_ranges_true in H as [lo [hi [Hin Hc]]].
    apply (in_ranges_false_interval _ lo hi c Hc).
    revert lo hi Hin Hc. cut (forallb (fun r => forallb (fun r0 : N * N => (snd r <? fst r0) || (snd r0 <? fst r)) py_break_ranges) py_digit_ranges = true).
    + intros G lo hi Hin _. rewrite forallb_forall in G. exact (G (lo, hi) Hin).
    + vm_compute. reflexivity.
  - intros c Hc. cbn [dg_val]. unfold val_ranges, py_digit_ranges. cbn [find fst snd].
    replace ((48 <=? c) && (c <=? 57)) with true by (symmetry; apply andb_true_iff; split; apply N.leb_le; lia).
    cbn [fst]. apply N.mod_small. lia.
Qed.

(* ---- first half ------------------------------------------------------------------------------ *)
Lemma marked_none T : marked_text T (repeat None (length (t_frames T))) = plain_text T.
Proof.
  unfold marked_text, marked_lines, plain_text, plain_lines. f_equal. f_equal. f_equal.
  induction (t_frames T) as [|f fs IH]; [reflexivity|]. cbn [length repeat combine flat_map].
  rewrite IH. unfold entry_lines_m, entry_lines. rewrite app_nil_r. reflexivity.
Qed.

Lemma markers_none n : markers_ok (repeat None n) = true.
Proof. induction n; [reflexivity|exact IHn]. Qed.

Lemma wf_funcs C T : wf C T = true -> has_funcs (t_frames T) = true.
Proof.
  unfold wf, has_funcs. intro H. apply andb_true_iff in H as [H _]. apply andb_true_iff in H as [H _].
  induction (t_frames T) as [|f fs IH]; [reflexivity|]. cbn [forallb] in *.
  apply andb_true_iff in H as [Hf H]. rewrite (IH H), andb_true_r.
  destruct f as [p n [g|] s]; [reflexivity|]. apply frame_ok_inv in Hf as [_ [_ [Hg _]]]. discriminate.
Qed.

Section Main.
  Context (C : cc) (OK : cc_ok C).

  Theorem parse_render T ms :
    wf C T = true -> markers_ok ms = true -> length ms = length (t_frames T) ->
    from_string C (marked_text T ms) = Ok T.
  Proof. apply (parse_marked C OK). Qed.

  Theorem parse_plain T : wf C T = true -> from_string C (plain_text T) = Ok T.
  Proof.
    intro H. rewrite <- marked_none. apply (parse_marked C OK); [exact H|apply markers_none|apply repeat_length].
  Qed.

  Definition parse_print (s : str) : res str :=
    match from_string C s with Ok T => to_string T | Raise e => Raise e end.

  (* the interpreter's rendering (recursive entries folded) is read back entry by entry and
     printed back exactly *)
  Theorem parse_std_text T :
    wf C T = true -> src_consistent (t_frames T) = true -> from_string C (std_text T) = Ok T.
  Proof. apply (parse_std C OK). Qed.

  Theorem text_roundtrip T :
    wf C T = true -> src_consistent (t_frames T) = true -> parse_print (std_text T) = Ok (std_text T).
  Proof.
    intros H Hc. unfold parse_print. rewrite (parse_std C OK T H Hc). apply to_string_std. exact (wf_funcs C T H).
  Qed.

  (* the text exactly as Python >= 3.11 prints it: folded entries and marker lines together *)
  Theorem parse_real_text T ms :
    wf C T = true -> markers_ok ms = true -> length ms = length (t_frames T) ->
    src_consistent (t_frames T) = true -> from_string C (real_text T ms) = Ok T.
  Proof. apply (parse_real C OK). Qed.

  Theorem real_roundtrip T ms :
    wf C T = true -> markers_ok ms = true -> length ms = length (t_frames T) ->
    src_consistent (t_frames T) = true -> parse_print (real_text T ms) = Ok (std_text T).
  Proof.
    intros H Hm Hl Hc. unfold parse_print. rewrite (parse_real C OK T ms H Hm Hl Hc).
    apply to_string_std. exact (wf_funcs C T H).
  Qed.

  (* marker lines are dropped, nothing else *)
  Theorem marked_roundtrip T ms :
    wf C T = true -> markers_ok ms = true -> length ms = length (t_frames T) ->
    parse_print (marked_text T ms) = Ok (std_text T).
  Proof.
    intros H Hm Hl. unfold parse_print. rewrite (parse_marked C OK T ms H Hm Hl).
    apply to_string_std. exact (wf_funcs C T H).
  Qed.

  (* ---- second half ----------------------------------------------------------------------------- *)
  Theorem format_partial fs e :
    plain_exc e = true -> ei_text C fs e = std_text (std_tb C fs e).
  Proof. intros He. rewrite ei_text_std, (plain_exc_tb C fs e He). reflexivity. Qed.

  Theorem frames_same l :
    let c := cp_of_live l in let s := std_frame C l in
    cp_path c = f_path s /\ dec (cp_lineno c) = f_lineno s /\ Some (cp_func c) = f_func s /\
    strip C (deferred_str C (cp_raw c)) = f_src s.
  Proof. cbv zeta. repeat split. apply callpoint_line. Qed.

  (* ExceptionInfo's text is read back by ParsedException *)
  Theorem format_reparse fs e :
    wf C (ei_tb C fs e) = true -> src_consistent (map (std_frame C) fs) = true ->
    from_string C (ei_text C fs e) = Ok (ei_tb C fs e).
  Proof. intros H Hc. rewrite ei_text_std. apply (parse_std C OK); [exact H|exact Hc]. Qed.

  (* line numbers printed by str(int) are always acceptable to the parser *)
  Lemma dec_lineno_ok n : lineno_ok C (dec n) = true.
  Proof.
    unfold lineno_ok, nonempty, all_digits. pose proof (dec_nonnil n) as Hn. pose proof (dec_digits n) as Hd.
    destruct (dec n) as [|c r]; [contradiction|]. cbn [is_nil negb andb].
    rewrite forallb_forall in *. intros x Hx. specialize (Hd x Hx). apply andb_true_iff in Hd as [H1 H2].
    apply N.leb_le in H1, H2. apply (dg_ascii C OK). lia.
  Qed.
End Main.

(* ---- the scanner's matchers are Python's re on the patterns of the current source --------------------- *)
Definition gen_underline_set : list N :=
  match gen_underline_items with [IBol; IStar (CSet l); IEol] => l | _ => [] end.

Lemma frame_re_python C (OK : cc_ok C) s :
  rmatch C gen_frame_items true s [] = option_map enc (frame_re C s).
Proof. apply (frame_re_is_re C OK). reflexivity. Qed.

Lemma se_frame_re_python C (OK : cc_ok C) s :
  rmatch C gen_se_items true s [] = option_map enc (se_frame_re C s).
Proof. apply (se_frame_re_is_re C). reflexivity. Qed.

Lemma repeat_re_python C (OK : cc_ok C) s :
  rmatch C gen_repeat_items true s [] = match repeat_re C s with Some d => Some [(1, d)] | None => None end.
Proof. apply (repeat_re_is_re C OK). reflexivity. Qed.

Lemma underline_re_python C s :
  (if rmatch C gen_underline_items true s [] then true else false) = underline_re s.
Proof.
  apply (underline_re_is_re C gen_underline_set); [reflexivity|].
  intro c. unfold inset. cbn [gen_underline_set gen_underline_items existsb].
  destruct (c =? 126), (c =? 94), (c =? 32); reflexivity.
Qed.

(* ---- the templates and keywords of the printing / scanning functions in the current source are the
   literals the model is written with (string constants extracted from the AST on every run) --------- *)
Definition uses (required gen : list str) : bool := forallb (fun t => existsb (str_eqb t) gen) required.
Definition PH : str := [123; 125].                                   (* {} *)
Definition tpl_frame : str := M_file2 ++ PH ++ M_qline ++ PH ++ M_in ++ PH.
Definition source_templates_ok : bool :=
  uses [tpl_frame ++ M_nl; M_ind4; M_nl] gen_strs_Callpoint_tb_frame_str &&
  uses [M_header ++ M_nl] gen_strs_TracebackInfo_get_formatted &&
  uses [M_prev1 ++ PH ++ M_prev2 ++ PH ++ [93] ++ M_nl; [115]] gen_strs_repeated_str &&
  uses [M_colon] gen_strs_ExceptionInfo_get_formatted_exception_only &&
  uses [[37; 115; 10]; M_colon; M_nl] gen_strs_format_final_exc_line &&
  uses [M_header; tpl_frame; M_ind4; M_colon; M_nl] gen_strs_ParsedException_to_string &&
  uses [M_exception; M_ignored; M_header; [94]; [32]; M_colon; M_nl] gen_strs_ParsedException_from_string.

Lemma source_templates : source_templates_ok = true.
Proof. vm_compute. reflexivity. Qed.

(* ---- the refuted full statements (recorded findings) ------------------------------------------------ *)
Definition rec_live : live_frame := mkLive [114;46;112;121] 7 [102] [32;32;102;40;41;10].
Definition rec_exc : live_exc := mkExc (Some L_builtins) [69] [69] (Some []) [69].

(* the recorded reason on the formatting side: a display-time suggestion *)
Definition hint_exc : live_exc :=      (* AttributeError: no attribute 'bluch'. Did you mean: 'blech'? *)
  mkExc (Some L_builtins) [65;69] [65;69] (Some [110;111;32;98;108;117;99;104])
        ([65;69] ++ L_colon ++ [110;111;32;98;108;117;99;104] ++ L_hint ++ [39;98;108;101;99;104;39;63]).
Definition nostr_exc : live_exc :=     (* class Bad whose __str__ raises *)
  mkExc (Some L_builtins) [66;97;100] [66;97;100] None ([66;97;100] ++ L_colon ++ L_str_failed).

Lemma format_refuted_hint :
  exists fs e, hint_of e <> None /\
               ei_text py_cc fs e <> std_text (std_tb py_cc fs e).
Proof. exists [rec_live], hint_exc. split; vm_compute; discriminate. Qed.

(* an exception whose __str__ raises is an ordinary case since the fix: *)
Lemma str_failure_plain : plain_exc nostr_exc = true /\ ex_str nostr_exc = None.
Proof. split; reflexivity. Qed.

(* ---- witnesses used by the Examples of Props/C16.v ---------------------------------------------------- *)
From Coq Require Import String.
Definition fr (p n g s : string) : frame := mkFrame (s2l p) (s2l n) (Some (s2l g)) (s2l s).

(* three entries: a path with blanks, a quote and a look-alike of the line syntax and a
   non-ASCII letter; <module> / <lambda>; an entry without source line last; a
   three-line message containing ": " and a line that looks like an entry *)
Definition good_tb : tb :=
  mkTb [ mkFrame (s2l "/home/my dir/a"", line 5, in b.py" ++ [233]) (s2l "12") (Some (s2l "<module>")) (s2l "main(""x: y"")");
         fr "<stdin>" "7" "<lambda>" "~x";
         fr "<string>" "100000" "f" "" ]
       (s2l "pkg.mod.Outer.Err") (s2l "bad: thing" ++ [10] ++ s2l "  File ""z"", line 1, in q" ++ [10] ++ s2l "tail").
Definition good_marks : list (option str) := [Some (s2l "    ^^^^~~~"); None; None].

Definition base (f : frame) (ty msg : string) : tb := mkTb [f] (s2l ty) (s2l msg).
Definition bad_path_break : tb := mkTb [mkFrame [97;12;98] [49] (Some [102]) [120]] [69] [109].
Definition bad_func_trailing : tb := base (fr "a.py" "1" "f " "x") "E" "m".
Definition bad_func_quote : tb := base (fr "a.py" "1" "g"", line 3, in y" "x") "E" "m".
Definition bad_lineno : tb := base (fr "a.py" "1a" "f" "x") "E" "m".
Definition bad_src_space : tb := base (fr "a.py" "1" "f" " x") "E" "m".
Definition bad_src_frame : tb := base (fr "a.py" "1" "f" "File ""q"", line 3, in z") "E" "m".
Definition bad_src_fold : tb := mkTb [fr "a.py" "1" "f" "x"; fr "a.py" "2" "g" "[Previous line repeated 2 more times]"] [69] [109].
Definition bad_inconsistent : tb :=    (* five entries at the same place, the last showing another text *)
  mkTb (repeat (fr "a.py" "1" "f" "x") 4 ++ [fr "a.py" "1" "f" "y"]) [69] [109].
Definition bad_type_colon : tb := base (fr "a.py" "1" "f" "x") "a: b" "m".
Definition bad_type_carets : tb := base (fr "a.py" "1" "f" "x") "^^" "".
Definition bad_type_space : tb := base (fr "a.py" "1" "f" "") " E" "m".
Definition bad_msg_newline : tb := mkTb [fr "a.py" "1" "f" "x"] [69] [109; 10].
Definition bad_msg_cr : tb := mkTb [fr "a.py" "1" "f" "x"] [69] [97; 13; 98].
Definition bad_msg_ignored : tb := mkTb [fr "a.py" "1" "f" "x"] [69] (s2l "x" ++ [10] ++ s2l "Exception y ignored").

Definition refutes (T : tb) : Prop := wf py_cc T = false /\ from_string py_cc (plain_text T) <> Ok T.

(* a live exception three calls deep: indented source, a line without source, a nested class *)
Definition live_fs : list live_frame :=
  [ mkLive (s2l "/tmp/my dir/ma.py") 12 (s2l "<module>") (s2l "    c0(0)" ++ [10]);
    mkLive (s2l "<gen1>") 2 (s2l "c1") [];
    mkLive (s2l "/tmp/my dir/ma.py") 31 (s2l "meth") ([9] ++ s2l "raise Outer.Err('a: b')  " ++ [10]) ].
Definition live_e : live_exc :=
  mkExc (Some (s2l "ma")) (s2l "Outer.Err") (s2l "Err") (Some (s2l "a: b")) (s2l "ma.Outer.Err: a: b").
