(* C08: chains of any depth.  For a chain of nested list/tuple/dict levels (one
   child per level, a leaf at the bottom) the recursive rebuild - and hence, by the
   tree theorem, the stack machine - returns the same chain with the leaf as the
   visit left it, for EVERY depth: the closed form the checker uses for very deep
   inputs (Check.deep_ok) is what the model computes.  The machine needs no
   recursion depth: C08_terminates bounds its iterations by 2*size+1; a
   RecursionError is not an outcome the model can exhibit. *)
From Boltons Require Import Lib.Prelude Lib.C08_Py Spec.C08_Spec Model.C08_Model
  Proofs.C08_Machine Proofs.C08_Tree Proofs.C08_Inject.

Definition key_for (k : kind) : key := match k with KDict => KT 0 | _ => KI 0 end.

Fixpoint chain (ks : list kind) (leaf : nat) : val :=
  match ks with
  | [] => VLeaf leaf
  | k :: r => VNode k [(key_for k, chain r leaf)]
  end.

(* a visit that keeps every container item and keeps or rewrites a leaf *)
Definition leafwise (v : visit_fn) (f : nat -> option nat) : Prop :=
  (forall p k kd items, v p k (VNode kd items) = Put None None)
  /\ (forall p k n, v p k (VLeaf n) = Put None (match f n with Some m => Some (VLeaf m) | None => None end)).

Definition new_leaf (f : nat -> option nat) (n : nat) : nat := match f n with Some m => m | None => n end.

Lemma build_single : forall k (x : val), is_set k = false ->
  build (fun y => y) k [(key_for k, x)] = [(key_for k, x)].
Proof. intros [] x H; cbn in H; try discriminate; reflexivity. Qed.

Lemma deep_rebuild : forall v f, leafwise v f ->
  forall ks leaf p, Forall (fun k => is_set k = false) ks ->
    rebuild v p (chain ks leaf) = match ks with [] => VLeaf leaf | _ => chain ks (new_leaf f leaf) end.
Proof.
  intros v f [Hn Hl]. induction ks as [|k r IH]; intros leaf p Hs; [reflexivity|].
  inversion Hs as [|? ? Hk Hr]; subst. cbn [chain]. rewrite rebuild_node. cbn [rb_children].
  rewrite (IH leaf (p ++ [key_for k]) Hr).
  destruct r as [|k2 r2].
  - rewrite Hl. unfold new_leaf. destruct (f leaf); cbn [apply_action opt_list app chain];
      rewrite build_single by assumption; reflexivity.
  - change (chain (k2 :: r2) (new_leaf f leaf)) with (VNode k2 [(key_for k2, chain r2 (new_leaf f leaf))]) at 1.
    rewrite Hn. cbn [apply_action opt_list app].
    rewrite build_single by assumption. reflexivity.
Qed.

Lemma keep_leafwise : leafwise (vfun None) (fun _ => None).
Proof. split; reflexivity. Qed.

(* the machine on a chain of any depth *)
Theorem deep_machine : forall (visit : option visit_fn) f rr defs k ks leaf,
  leafwise (vfun visit) f -> Forall (fun k => is_set k = false) (k :: ks) ->
  exists v m lg,
    remap (lift visit) rr defs (inject (chain (k :: ks) leaf)) = Done v m lg
    /\ erase v = chain (k :: ks) (new_leaf f leaf).
Proof.
  intros visit f rr defs k ks leaf Hv Hs.
  destruct (machine_tree_val visit rr defs k [(key_for k, chain ks leaf)]) as [v [m [lg [H1 [H2 _]]]]].
  exists v, m, lg. split; [exact H1|]. rewrite H2.
  exact (deep_rebuild (vfun visit) f Hv (k :: ks) leaf [] Hs).
Qed.
