(* C13: stacked decorators and attributes the wrapped function already carries. *)
From Boltons Require Import Lib.Prelude Spec.C13_Spec Model.C13_Model Check.C13_Check
     Proofs.C13_Dict Proofs.C13_Bind Proofs.C13_Shape Proofs.C13_Realign Proofs.C13_Sig Proofs.C13_Main Proofs.C13_Holds.

(* __wrapped__ of the result is the wrapped function - for ANY __dict__ the wrapped
   function carries (a __wrapped__ of its own, a __signature__, ...), any options *)
Theorem wrapped_points_at_func o gid f inj exp g :
  wf_func f -> Forall (fun nd => fst nd <> 0) exp ->
  update_wrapper_opt o gid f inj exp = Ok g ->
  d_get (f_dict (b_func g)) K_WRAPPED = (if o_hide_wrapped o then None else Some (f_id f)) /\
  d_get (f_dict (b_func g)) K_SIGNATURE = None /\
  f_id (b_func g) = gid /\ wf_obj (b_func g).
Proof.
  intros WF NZ E. pose proof (update_wrapper_opt_refines o gid f inj exp WF NZ) as R. rewrite E in R.
  destruct (spec_wraps_opt (o_inject_to_varkw o) (func_sig f) inj exp); [|exfalso; exact R].
  destruct R as [_ [_ [_ [_ [_ [ID [DW [DS [_ [WO _]]]]]]]]]].
  split; [exact DW|]. split; [exact DS|]. split; [exact ID | exact WO].
Qed.

(* level by level in a stack: __wrapped__ is the level below, identities are the steps' *)
Fixpoint wrapped_chain (below : nat) (steps : list step) (gs : list built) : Prop :=
  match steps, gs with
  | _, [] => True
  | [], _ :: _ => False
  | st :: r, g :: gs' =>
      d_get (f_dict (b_func g)) K_WRAPPED = (if o_hide_wrapped (s_options st) then None else Some below) /\
      f_id (b_func g) = s_id st /\
      wrapped_chain (s_id st) r gs'
  end.

Theorem stack_wrapped_chain : forall steps h, wf_func h -> steps_nonzero steps ->
  wrapped_chain (f_id h) steps (fst (run_steps h steps)).
Proof.
  induction steps as [|st r IH]; intros h WF NZ; [exact I|].
  inversion NZ as [|? ? NZ1 NZr]; subst. rewrite run_steps_cons.
  destruct (update_wrapper_opt (s_options st) (s_id st) h (s_injected st) (s_expected st)) as [g|e] eqn:E; [|exact I].
  destruct (wrapped_points_at_func _ _ _ _ _ _ WF NZ1 E) as [DW [_ [ID [WFg _]]]].
  cbn [fst wrapped_chain]. split; [exact DW|]. split; [exact ID|].
  rewrite <- ID. apply IH; assumption.
Qed.

(* a stack of plain wraps: every level has the base function's signature and a call
   entering the outermost level reaches the base function with the frame it would
   have seen directly; rejected calls are rejected at the outermost level already *)
Theorem stack_call_equiv steps f c :
  wf_func f -> forallb plain_step steps = true -> steps_nonzero steps ->
  snd (run_steps f steps) = None ->
  NoDup (keys (c_kw c)) ->
  Forall (fun g => sig_of (b_func g) = sig_of f) (fst (run_steps f steps)) /\
  call_chain f (rev (fst (run_steps f steps))) c = call_func f c.
Proof.
  intros WF PL NZ E NDk.
  destruct (levels_model f steps f WF) as [top [_ REST]]; [repeat split | exact NZ |].
  destruct (REST E) as [_ PLN]. specialize (PLN PL). split.
  - rewrite (sig_of_func_sig f (wf_len f WF)). eapply Forall_impl; [|exact PLN]. intros g [S _]. exact S.
  - apply chain_plain; [exact WF | apply Forall_rev'; exact PLN | exact NDk].
Qed.

(* a stack of plain steps never stops *)
Theorem stack_plain_builds : forall steps f,
  wf_func f -> forallb plain_step steps = true -> snd (run_steps f steps) = None.
Proof.
  induction steps as [|st r IH]; intros f WF PL; [reflexivity|].
  cbn [forallb] in PL. apply andb_true_iff in PL as [P1 P2].
  unfold plain_step in P1. destruct (s_injected st) eqn:EI; [|discriminate]. destruct (s_expected st) eqn:EE; [|discriminate].
  rewrite run_steps_cons.
  assert (NZ : Forall (fun nd : name * option value => fst nd <> 0) (s_expected st)) by (rewrite EE; constructor).
  pose proof (update_wrapper_opt_refines (s_options st) (s_id st) f (s_injected st) (s_expected st) WF NZ) as R.
  set (u := update_wrapper_opt (s_options st) (s_id st) f (s_injected st) (s_expected st)) in *.
  unfold spec_wraps_opt in R. rewrite EI, EE in R. cbn [spec_injects_opt spec_expects] in R.
  destruct u as [g|e]; [|exfalso; exact R].
  destruct R as [_ [_ [_ [_ [_ [_ [_ [_ [_ [[WFg _] _]]]]]]]]]]. cbn [snd]. apply IH; assumption.
Qed.

(* ---- example: three levels on top of a function that is itself decorated ---------------------- *)
Definition ex_steps : list step :=
  [mkStep [2] [] default_options 101;                 (* injected=['b'] *)
   mkStep [] [] default_options 102;                  (* pass-through *)
   mkStep [] [(14, Some 33)] (mkOpt true false false) 103]. (* expected=[('z', V33)] *)

Lemma ex_stack :
  snd (run_steps ex_f ex_steps) = None /\
  map (fun g => d_get (f_dict (b_func g)) K_WRAPPED) (fst (run_steps ex_f ex_steps)) = [Some 100; Some 101; Some 102] /\
  map (fun g => d_get (f_dict (b_func g)) 3) (fst (run_steps ex_f ex_steps)) = [Some 5; Some 5; Some 5] /\
  steps_nonzero ex_steps.
Proof.
  repeat split; try (vm_compute; reflexivity).
  repeat constructor; discriminate.
Qed.

Lemma ex_stack_holds :
  holds (model_case ex_f ex_steps false 0 [WSync; WSync; WSync] [ex_call; ex_bad_call]) = true /\
  holds (model_case ex_f [mkStep [] [] default_options 101; mkStep [] [] default_options 102] true 0 [WSync; WSync] [ex_call; ex_bad_call]) = true /\
  (* inject b, then two pass-through levels whose wrappers forward: the call runs through three generated bodies *)
  holds (model_case ex_f [mkStep [2] [] default_options 101; mkStep [] [] default_options 102; mkStep [] [] default_options 103] false 2 [WSync; WSync; WSync] [ex_call; ex_bad_call]) = true /\
  partial_ok [mkStep [2] [] default_options 101; mkStep [] [] default_options 102; mkStep [] [] default_options 103] 2 = true.
Proof. repeat split; vm_compute; reflexivity. Qed.

(* whatever injected/expected do, a function that is built has a well-formed signature again
   (ordered kinds, distinct names, no positional parameter without default behind a defaulted one) *)
Theorem result_wellformed o gid f inj exp g :
  wf_func f -> Forall (fun nd => fst nd <> 0) exp ->
  update_wrapper_opt o gid f inj exp = Ok g ->
  exists s, sig_of (b_func g) = Ok s /\ wf_params (sg_params s) = true /\
            spec_wraps_opt (o_inject_to_varkw o) (func_sig f) inj exp = Ok s.
Proof.
  intros WF NZ E. pose proof (update_wrapper_opt_refines o gid f inj exp WF NZ) as R. rewrite E in R.
  destruct (spec_wraps_opt (o_inject_to_varkw o) (func_sig f) inj exp) as [s|]; [|exfalso; exact R].
  destruct R as [SG [_ [_ [_ [_ [_ [_ [_ [_ [[WFg _] _]]]]]]]]]].
  exists s. split; [exact SG|]. split; [|reflexivity].
  pose proof (sig_of_func_sig (b_func g) (wf_len _ WFg)) as X. rewrite SG in X.
  assert (s = func_sig (b_func g)) by congruence. subst s. apply func_sig_wf. exact WFg.
Qed.

(* inject_to_varkw=False: a name that is no ordinary parameter is refused even when the
   function has **kwargs *)
Theorem inject_strict o gid f n :
  wf_func f -> o_inject_to_varkw o = false ->
  existsb (removable n) (sg_params (func_sig f)) = false ->
  exists e, update_wrapper_opt o gid f [n] [] = Raise e.
Proof.
  intros WF TV NR. pose proof (update_wrapper_opt_refines o gid f [n] [] WF (Forall_nil _)) as R.
  unfold spec_wraps_opt in R. cbn [spec_injects_opt] in R. unfold spec_inject_opt in R.
  rewrite NR, TV in R. cbn [andb] in R.
  match type of R with match ?u with _ => _ end => destruct u as [g|e] eqn:E end; [exfalso; exact R|].
  exists e. first [exact E | reflexivity].
Qed.

(* ---- the text level meets the call level ------------------------------------------------------------ *)
From Boltons Require Import Model.C13_Text Proofs.C13_Text.

(* The argument list written into the generated body, read back, is exactly the
   invocation [inv_of_params] of the built function's own signature - the one
   C13_forward and the call theorems are about. *)
Theorem body_text_is_forwarding (render : name -> text) b :
  (forall n, ident (render n) = true) ->
  read_arglist (inv_text render b) = Some (inv_items render (inv_of_params (sg_params (fb_sig b)))).
Proof.
  intro RI. rewrite <- get_invocation_fb. apply inv_text_reads. exact RI.
Qed.

(* ... and the parameter list of the generated def line, read back, lists the
   parameters of that signature by kind (defaults and annotations are re-attached to
   the compiled function afterwards, see get_func) *)
Theorem def_text_is_signature (render : name -> text) b :
  (forall n, ident (render n) = true) ->
  read_arglist (strip_ends (sig_text render b)) = Some (sig_items render b) /\
  map p_name (sg_params (fb_sig b)) = all_names b.
Proof.
  intro RI. split; [apply sig_text_reads; exact RI|].
  unfold fb_sig, mk_sig. cbn [sg_params]. apply mk_params_names.
Qed.
