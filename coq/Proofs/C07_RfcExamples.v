(* Validation of the Spec's transcription: every example of RFC 3986 section
   5.4.1 (normal) and 5.4.2 (abnormal), base "http://a/b/c/d;p?q", evaluated
   with the verbatim algorithm (transform_gen false) and with the normalising
   variant the property uses (they coincide here: the base has no dot segment).
   This is a test of the Spec, not of boltons. *)
From Coq Require Import String Ascii.
From Boltons Require Import Lib.Prelude Lib.C07_Str Spec.C07_Spec.
Open Scope N_scope.

Definition codes (s : string) : str := map N_of_ascii (list_ascii_of_string s).

Definition rfc_resolve (norm : bool) (base ref : str) : option str :=
  match transform_gen norm (parse base) (parse ref) with
  | Some t => Some (recompose t)
  | None => None
  end.

Definition rfc_base : str := codes "http://a/b/c/d;p?q".

Definition rfc_5_4_1 : list (string * string) :=
  [ ("g:h", "g:h"); ("g", "http://a/b/c/g"); ("./g", "http://a/b/c/g"); ("g/", "http://a/b/c/g/");
    ("/g", "http://a/g"); ("//g", "http://g"); ("?y", "http://a/b/c/d;p?y"); ("g?y", "http://a/b/c/g?y");
    ("#s", "http://a/b/c/d;p?q#s"); ("g#s", "http://a/b/c/g#s"); ("g?y#s", "http://a/b/c/g?y#s");
    (";x", "http://a/b/c/;x"); ("g;x", "http://a/b/c/g;x"); ("g;x?y#s", "http://a/b/c/g;x?y#s");
    ("", "http://a/b/c/d;p?q"); (".", "http://a/b/c/"); ("./", "http://a/b/c/"); ("..", "http://a/b/");
    ("../", "http://a/b/"); ("../g", "http://a/b/g"); ("../..", "http://a/"); ("../../", "http://a/");
    ("../../g", "http://a/g") ]%string.

Definition rfc_5_4_2 : list (string * string) :=
  [ ("../../../g", "http://a/g"); ("../../../../g", "http://a/g");
    ("/./g", "http://a/g"); ("/../g", "http://a/g"); ("g.", "http://a/b/c/g."); (".g", "http://a/b/c/.g");
    ("g..", "http://a/b/c/g.."); ("..g", "http://a/b/c/..g");
    ("./../g", "http://a/b/g"); ("./g/.", "http://a/b/c/g/"); ("g/./h", "http://a/b/c/g/h");
    ("g/../h", "http://a/b/c/h"); ("g;x=1/./y", "http://a/b/c/g;x=1/y"); ("g;x=1/../y", "http://a/b/c/y");
    ("g?y/./x", "http://a/b/c/g?y/./x"); ("g?y/../x", "http://a/b/c/g?y/../x");
    ("g#s/./x", "http://a/b/c/g#s/./x"); ("g#s/../x", "http://a/b/c/g#s/../x");
    ("http:g", "http:g") ]%string.

Definition table_ok (norm : bool) (tbl : list (string * string)) : bool :=
  forallb (fun rt => option_eqb str_eqb (rfc_resolve norm rfc_base (codes (fst rt)))
                                (Some (codes (snd rt)))) tbl.

Lemma rfc_examples_hold :
  table_ok false rfc_5_4_1 = true /\ table_ok false rfc_5_4_2 = true /\
  table_ok true rfc_5_4_1 = true /\ table_ok true rfc_5_4_2 = true.
Proof. vm_compute. repeat split. Qed.

(* the examples of remove_dot_segments in 5.2.4 itself *)
Lemma rfc_5_2_4_examples :
  remove_dot_segments (codes "/a/b/c/./../../g") = Some (codes "/a/g") /\
  remove_dot_segments (codes "mid/content=5/../6") = Some (codes "mid/6").
Proof. vm_compute. split; reflexivity. Qed.

(* parse is the inverse of recompose on the Appendix B example *)
Lemma appendix_B_example :
  parse (codes "http://www.ics.uci.edu/pub/ietf/uri/#Related") =
  mkUri (Some (codes "http")) (Some (codes "www.ics.uci.edu")) (codes "/pub/ietf/uri/") None
        (Some (codes "Related")).
Proof. vm_compute. reflexivity. Qed.
