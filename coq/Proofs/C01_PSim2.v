(* C01: the pointer-level model (Model/C01_PModel.v) against the list-level model, part 2:
   every composite function of the pointer model commutes with [lift].  Reads are equal by
   reflexivity (the fields of [lift p] are convertible to the readers of [p]); mutators are
   the same text over the primitives, so they follow from the primitive lemmas of C01_PSim1. *)
From Boltons Require Import Lib.Prelude Spec.C01_Spec Model.C01_Model Model.C01_Ptr Model.C01_PModel
  Proofs.C01_Base Proofs.C01_PSimDefs Proofs.C01_PSim1.

(* ---- reads ------------------------------------------------------------------------------ *)
Lemma sim_items p : pm_items p = m_items (lift p).
Proof. reflexivity. Qed.

Lemma sim_iterkeys p : pm_iterkeys p = m_iterkeys (lift p).
Proof. reflexivity. Qed.

Lemma sim_getitem p k : pm_getitem p k = m_getitem (lift p) k.
Proof. reflexivity. Qed.

Lemma sim_items1 p : pm_items1 p = m_items1 (lift p).
Proof. reflexivity. Qed.

Lemma sim_getlist p k : pm_getlist p k = m_getlist (lift p) k.
Proof. reflexivity. Qed.

Lemma sim_eq_omd p q : pm_eq_omd p q = m_eq_omd (lift p) (lift q).
Proof. reflexivity. Qed.

Lemma sim_eq_map_loop p m ks : p_eq_map_loop p m ks = eq_map_loop (lift p) m ks.
Proof.
  induction ks as [|k r IH]; cbn [p_eq_map_loop eq_map_loop]; [reflexivity|].
  rewrite IH, sim_getitem. reflexivity.
Qed.

Lemma sim_eq_map p m : pm_eq_map p m = m_eq_map (lift p) m.
Proof.
  unfold pm_eq_map, m_eq_map. rewrite sim_eq_map_loop. reflexivity.
Qed.

Lemma sim_rev_walk p lengths l : p_rev_walk p lengths l = rev_walk (lift p) lengths l.
Proof.
  revert lengths. induction l as [|c r IH]; intro lengths; cbn [p_rev_walk rev_walk]; [reflexivity|].
  cbv zeta. change (store (lift p)) with (pstore p).
  destruct (d_get (pstore p) (c_key c)) as [vals|]; [|reflexivity].
  rewrite IH. reflexivity.
Qed.

Lemma sim_view p : pm_view p = m_view (lift p).
Proof. reflexivity. Qed.

(* ---- helpers ------------------------------------------------------------------------------ *)
Lemma rel_ok p : Good p -> rel_state (Ok p) (Ok (lift p)).
Proof. intro G. unfold rel_state. split; [reflexivity|exact G]. Qed.

Lemma rel_ok_eq p s : Good p -> lift p = s -> rel_state (Ok p) (Ok s).
Proof. intros G E. unfold rel_state. split; assumption. Qed.

Lemma rel_bind r r' (f : pomd -> res pomd) (g : omd -> res omd) :
  rel_state r r' ->
  (forall p, Good p -> rel_state (f p) (g (lift p))) ->
  rel_state (bind r f) (bind r' g).
Proof.
  intros H Hf. destruct r as [p|e], r' as [s|e']; unfold rel_state in H; try contradiction.
  - destruct H as [E G]. subst s. unfold bind. apply Hf. exact G.
  - unfold bind, rel_state. exact H.
Qed.

(* ---- mutators ------------------------------------------------------------------------------ *)
Lemma sim_add p k v : Good p -> Good (pm_add p k v) /\ lift (pm_add p k v) = m_add (lift p) k v.
Proof.
  intro G. destruct (good_insert p k v G) as [G1 E1].
  unfold pm_add, m_add. cbv zeta. rewrite <- E1.
  exact (good_set_store _ _ G1).
Qed.

Lemma sim_add_all l p : Good p -> Good (p_add_all p l) /\ lift (p_add_all p l) = add_all (lift p) l.
Proof.
  revert p. induction l as [|a r IH]; intros p G.
  - split; [exact G|reflexivity].
  - destruct (sim_add p (fst a) (snd a) G) as [G1 E1].
    change (p_add_all p (a :: r)) with (p_add_all (pm_add p (fst a) (snd a)) r).
    change (add_all (lift p) (a :: r)) with (add_all (m_add (lift p) (fst a) (snd a)) r).
    rewrite <- E1. apply IH. exact G1.
Qed.

Lemma sim_insert_all k vs : forall p, Good p ->
  Good (fold_left (fun s v => pl_insert s k v) vs p) /\
  lift (fold_left (fun s v => pl_insert s k v) vs p) = fold_left (fun s v => ll_insert s k v) vs (lift p).
Proof.
  induction vs as [|v r IH]; intros p G.
  - split; [exact G|reflexivity].
  - destruct (good_insert p k v G) as [G1 E1].
    cbn [fold_left]. rewrite <- E1. apply IH. exact G1.
Qed.

Lemma sim_addlist p k vs : Good p -> Good (pm_addlist p k vs) /\ lift (pm_addlist p k vs) = m_addlist (lift p) k vs.
Proof.
  intro G. destruct vs as [|v vs].
  - split; [exact G|reflexivity].
  - destruct (sim_insert_all k (v :: vs) p G) as [G1 E1].
    unfold pm_addlist, m_addlist. cbv zeta. rewrite <- E1.
    exact (good_set_store _ _ G1).
Qed.

Lemma sim_setitem p k v : Good p -> rel_state (pm_setitem p k v) (m_setitem (lift p) k v).
Proof.
  intro G. unfold pm_setitem, m_setitem. apply rel_bind.
  - change (store (lift p)) with (pstore p). destruct (d_mem (pstore p) k).
    + apply good_remove_all. exact G.
    + apply rel_ok. exact G.
  - intros p1 G1. cbv beta zeta.
    destruct (good_insert p1 k v G1) as [G2 E2]. rewrite <- E2.
    destruct (good_set_store (pl_insert p1 k v) (d_set (pstore (pl_insert p1 k v)) k [v]) G2) as [G3 E3].
    apply rel_ok_eq; [exact G3|exact E3].
Qed.

Lemma sim_delitem p k : Good p -> rel_state (pm_delitem p k) (m_delitem (lift p) k).
Proof.
  intro G. unfold pm_delitem, m_delitem. change (store (lift p)) with (pstore p).
  destruct (d_mem (pstore p) k); [|reflexivity].
  destruct (good_set_store p (d_del (pstore p) k) G) as [G1 E1].
  rewrite <- E1. apply good_remove_all. exact G1.
Qed.

Lemma sim_del_if p k : Good p ->
  rel_state (if d_mem (pstore p) k then pm_delitem p k else Ok p)
            (if d_mem (store (lift p)) k then m_delitem (lift p) k else Ok (lift p)).
Proof.
  intro G. change (store (lift p)) with (pstore p). destruct (d_mem (pstore p) k).
  - apply sim_delitem. exact G.
  - apply rel_ok. exact G.
Qed.

Lemma sim_upd_pairs l p seen : Good p -> rel_state (p_upd_pairs p seen l) (upd_pairs (lift p) seen l).
Proof.
  revert p seen. induction l as [|[k v] r IH]; intros p seen G; cbn [p_upd_pairs upd_pairs].
  - apply rel_ok. exact G.
  - destruct (mem_nat k seen).
    + destruct (sim_add p k v G) as [G1 E1]. rewrite <- E1. apply IH. exact G1.
    + apply rel_bind.
      * apply sim_del_if. exact G.
      * intros p1 G1. cbv beta. destruct (sim_add p1 k v G1) as [G2 E2]. rewrite <- E2. apply IH. exact G2.
Qed.

Lemma sim_upd_map m p : Good p -> rel_state (p_upd_map p m) (upd_map (lift p) m).
Proof.
  revert p. induction m as [|[k v] r IH]; intros p G; cbn [p_upd_map upd_map].
  - apply rel_ok. exact G.
  - apply rel_bind.
    + apply sim_setitem. exact G.
    + intros p1 G1. apply IH. exact G1.
Qed.

Lemma sim_del_present ks p : Good p -> rel_state (p_del_present p ks) (del_present (lift p) ks).
Proof.
  revert p. induction ks as [|k r IH]; intros p G; cbn [p_del_present del_present].
  - apply rel_ok. exact G.
  - apply rel_bind.
    + apply sim_del_if. exact G.
    + intros p1 G1. apply IH. exact G1.
Qed.

Lemma sim_update p q a kw : Good p -> Good q -> rel_state (pm_update p q a kw) (m_update (lift p) (lift q) a kw).
Proof.
  intros G Gq. destruct a as [l|m| |]; unfold pm_update, m_update.
  - apply rel_bind.
    + apply sim_upd_pairs. exact G.
    + intros p1 G1. apply sim_upd_map. exact G1.
  - apply rel_bind.
    + apply sim_upd_map. exact G.
    + intros p1 G1. apply sim_upd_map. exact G1.
  - apply rel_bind.
    + change (m_iterkeys (lift q)) with (pm_iterkeys q). apply sim_del_present. exact G.
    + intros p1 G1. cbv beta. change (m_items (lift q)) with (pm_items q).
      destruct (sim_add_all (pm_items q) p1 G1) as [G2 E2]. rewrite <- E2.
      apply sim_upd_map. exact G2.
  - apply sim_upd_map. exact G.
Qed.

Lemma sim_add_all2 p l kw : Good p ->
  rel_state (Ok (p_add_all (p_add_all p l) kw)) (Ok (add_all (add_all (lift p) l) kw)).
Proof.
  intro G. destruct (sim_add_all l p G) as [G1 E1]. rewrite <- E1.
  destruct (sim_add_all kw (p_add_all p l) G1) as [G2 E2].
  apply rel_ok_eq; assumption.
Qed.

Lemma sim_update_extend p q a kw : Good p -> Good q ->
  rel_state (pm_update_extend p q a kw) (m_update_extend (lift p) (lift q) a kw).
Proof.
  intros G Gq. destruct a as [l|m| |]; unfold pm_update_extend, m_update_extend.
  - unfold bind. apply sim_add_all2. exact G.
  - unfold bind. apply sim_add_all2. exact G.
  - unfold bind. change (m_items (lift q)) with (pm_items q). apply sim_add_all2. exact G.
  - rewrite sim_items1. destruct (m_items1 (lift p)) as [l|e]; unfold bind.
    + apply sim_add_all2. exact G.
    + reflexivity.
Qed.

Lemma sim_from_pairs l : Good (pm_from_pairs l) /\ lift (pm_from_pairs l) = m_from_pairs l.
Proof.
  unfold pm_from_pairs, m_from_pairs. destruct good_empty as [G E]. rewrite <- E.
  apply sim_add_all. exact G.
Qed.

Lemma sim_new p q a kw : Good p -> Good q -> rel_state (pm_new p q a kw) (m_new (lift p) (lift q) a kw).
Proof.
  intros G Gq. unfold pm_new, m_new.
  destruct a as [[l|m| |]|]; cbv zeta.
  - destruct (sim_from_pairs l) as [G1 E1]. rewrite <- E1. apply sim_upd_map. exact G1.
  - destruct (sim_from_pairs m) as [G1 E1]. rewrite <- E1. apply sim_upd_map. exact G1.
  - change (m_items (lift q)) with (pm_items q).
    destruct (sim_from_pairs (pm_items q)) as [G1 E1]. rewrite <- E1. apply sim_upd_map. exact G1.
  - change (m_items (lift p)) with (pm_items p).
    destruct (sim_from_pairs (pm_items p)) as [G1 E1]. rewrite <- E1. apply sim_upd_map. exact G1.
  - destruct good_empty as [G1 E1]. rewrite <- E1. apply sim_upd_map. exact G1.
Qed.

Lemma sim_sv_loop ks svm r : Good r -> rel_state (p_sv_loop svm r ks) (sv_loop svm (lift r) ks).
Proof.
  revert svm r. induction ks as [|k ks IH]; intros svm r G; cbn [p_sv_loop sv_loop].
  - apply rel_ok. exact G.
  - destruct (d_get svm k) as [vs|]; [|reflexivity].
    destruct (rev vs) as [|v rrest]; [reflexivity|].
    destruct (sim_add r k v G) as [G1 E1]. rewrite <- E1. apply IH. exact G1.
Qed.

Lemma sim_sortedvalues p f rv : rel_state (pm_sortedvalues p f rv) (m_sortedvalues (lift p) f rv).
Proof.
  unfold pm_sortedvalues, m_sortedvalues. cbv zeta.
  destruct good_empty as [G E]. rewrite <- E.
  change (ll (lift p)) with (p_cells p). change (store (lift p)) with (pstore p).
  apply sim_sv_loop. exact G.
Qed.

Lemma sim_popall_tail p1 k : Good p1 ->
  match (match d_get (pstore p1) k with
         | None => Raise KeyError
         | Some vs => Ok (pset_store p1 (d_del (pstore p1) k), vs)
         end),
        (match d_get (store (lift p1)) k with
         | None => Raise KeyError
         | Some vs => Ok (set_store (lift p1) (d_del (store (lift p1)) k), vs)
         end) with
  | Ok (p', vs), Ok (s', vs') => vs = vs' /\ lift p' = s' /\ Good p'
  | Raise e, Raise e' => e = e'
  | _, _ => False
  end.
Proof.
  intro G1. change (store (lift p1)) with (pstore p1).
  destruct (d_get (pstore p1) k) as [vs|]; [|reflexivity].
  destruct (good_set_store p1 (d_del (pstore p1) k) G1) as [G2 E2].
  split; [reflexivity|]. split; assumption.
Qed.

Lemma sim_popall p k : Good p ->
  match pm_popall p k, m_popall (lift p) k with
  | Ok (p', vs), Ok (s', vs') => vs = vs' /\ lift p' = s' /\ Good p'
  | Raise e, Raise e' => e = e'
  | _, _ => False
  end.
Proof.
  intro G. unfold pm_popall, m_popall.
  change (d_mem (store (lift p)) k) with (d_mem (pstore p) k).
  destruct (d_mem (pstore p) k).
  - pose proof (good_remove_all p k G) as H.
    destruct (pl_remove_all p k) as [p1|e], (ll_remove_all (lift p) k) as [s1|e'];
      unfold rel_state in H; try contradiction; unfold bind.
    + destruct H as [E G1]. subst s1. apply sim_popall_tail. exact G1.
    + exact H.
  - unfold bind. apply sim_popall_tail. exact G.
Qed.

Print Assumptions sim_update.
Print Assumptions sim_sortedvalues.
