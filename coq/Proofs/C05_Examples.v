(* Concrete runs inhabiting the hypotheses of the C05 theorems. *)
From Boltons Require Import Lib.Prelude Model.C04_Model Spec.C04_Spec Check.C04_Check
     Spec.C05_Spec Check.C05_Check Proofs.C04_Inv Proofs.C04_Examples Proofs.C05_Inv Proofs.C05_Live.
Open Scope N_scope.

(* ENOSPC at the flush inside __exit__, existing destination: exception, destination and its mode intact,
   part file removed, neither guard hit; the oracle of the retry body is valid *)
Lemma ex5_fault_flush :
  let r := run_save ex_cfg ex_body false ex_fs 18 None [(7%nat, AFault 28%nat)] in
  fst r = Exc (OSErr 28%nat) /\
  content_kill (w_fs (snd r)) 0%nat = Some ex_old /\ mode_of (w_fs (snd r)) 0%nat = Some 416 /\
  f_dir (w_fs (snd r)) 1%nat = None /\
  unlink_failed 1%nat (w_trace (snd r)) = false /\ link_then_unlink_failed (w_trace (snd r)) = false /\
  length (w_trace (snd r)) = 10%nat /\ oracle_ok 0 0 ex_body = true.
Proof. vm_compute. repeat split; reflexivity. Qed.

(* a stale part file and overwrite_part off: EEXIST, the stale file is kept as it was *)
Lemma ex5_stale :
  let s0 := fs_of_list [(1%nat, ([9; 9], 384)); (0%nat, (ex_old, 416))] in
  let r := run_save ex_cfg ex_body false s0 18 None [] in
  fst r = Exc (OSErr EEXIST) /\ f_dir (w_fs (snd r)) 1%nat = f_dir s0 1%nat /\
  content_kill (w_fs (snd r)) 1%nat = Some [9; 9] /\ content_kill (w_fs (snd r)) 0%nat = Some ex_old.
Proof. vm_compute. repeat split; reflexivity. Qed.

(* two failures: fsync fails, then the clean-up unlink fails too: the part file stays, excused by FailCase 5 *)
Lemma ex5_double :
  let r := run_save ex_cfg ex_body false ex_fs 18 None [(8%nat, AFault 5%nat); (10%nat, AFault 13%nat)] in
  fst r = Exc (OSErr 5%nat) /\ unlink_failed 1%nat (w_trace (snd r)) = true /\
  content_kill (w_fs (snd r)) 1%nat = Some [104; 105; 33; 10] /\ content_kill (w_fs (snd r)) 0%nat = Some ex_old.
Proof. vm_compute. repeat split; reflexivity. Qed.

(* permissions: umask default when nothing is replaced; explicit mode wins *)
Lemma ex5_perms :
  mode_of (w_fs (snd (run_save ex_cfg ex_body false (fs_of_list []) 63 None []))) 0%nat = Some 384 /\
  mode_of (w_fs (snd (run_save ex_cfg_noclobber ex_body false (fs_of_list []) 18 None []))) 0%nat = Some 384 /\
  mode_of (w_fs (snd (run_save ex_cfg ex_body false ex_fs 63 None []))) 0%nat = Some 416.
Proof. vm_compute. repeat split; reflexivity. Qed.
