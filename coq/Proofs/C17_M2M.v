(* ManyToMany: data and inv hold the same pairs transposed, no empty entries
   (invariant by induction over arbitrary histories through either side). *)
From Boltons Require Import Lib.Prelude Model.C17_Model Proofs.C17_Dict.

(* ---- python sets as duplicate-free lists --------------------------------- *)
Lemma s_mem_In x s : s_mem x s = true <-> In x s.
Proof.
  unfold s_mem. rewrite existsb_exists. split.
  - intros [y [H E]]. apply Nat.eqb_eq in E. now subst.
  - intro H. exists x. split; trivial. apply Nat.eqb_refl.
Qed.

Lemma s_mem_false x s : s_mem x s = false <-> ~ In x s.
Proof. rewrite <- s_mem_In. destruct (s_mem x s); split; congruence. Qed.

Lemma s_add_In s y x : In x (s_add s y) <-> In x s \/ x = y.
Proof.
  unfold s_add. destruct (s_mem y s) eqn:E.
  - apply s_mem_In in E. split; [tauto|]. intros [H| ->]; trivial.
  - rewrite in_app_iff. simpl. split; intros [H|H]; auto.
    + destruct H as [H|[]]. auto.
Qed.

Lemma s_add_nodup s y : NoDup s -> NoDup (s_add s y).
Proof.
  intro H. unfold s_add. destruct (s_mem y s) eqn:E; trivial.
  apply s_mem_false in E. now apply NoDup_app_end_nat.
Qed.

Lemma s_add_nonempty s y : s_add s y <> [].
Proof.
  intro H. assert (In y (s_add s y)) by (apply s_add_In; now right). rewrite H in H0. exact H0.
Qed.

Lemma s_rm_In s y x : In x (s_rm s y) <-> In x s /\ x <> y.
Proof.
  unfold s_rm. rewrite filter_In. rewrite negb_true_iff, Nat.eqb_neq. split; intros [A B]; split; auto.
Qed.

Lemma s_rm_nodup s y : NoDup s -> NoDup (s_rm s y).
Proof. intro H. now apply NoDup_filter. Qed.

Lemma s_union_In t : forall s x, In x (s_union s t) <-> In x s \/ In x t.
Proof.
  unfold s_union. induction t as [|y r IH]; simpl; intros s x; [tauto|].
  rewrite IH, s_add_In. intuition.
Qed.

Lemma s_union_nodup t : forall s, NoDup s -> NoDup (s_union s t).
Proof.
  unfold s_union. induction t as [|y r IH]; simpl; intros s H; trivial.
  apply IH. now apply s_add_nodup.
Qed.

Lemma s_diff_In s t x : In x (s_diff s t) <-> In x s /\ ~ In x t.
Proof.
  unfold s_diff. rewrite filter_In, negb_true_iff, s_mem_false. tauto.
Qed.

Lemma s_of_list_In l x : In x (s_of_list l) <-> In x l.
Proof. unfold s_of_list. change (fold_left s_add l []) with (s_union [] l). rewrite s_union_In. simpl. tauto. Qed.

Lemma nonempty_In (s : list nat) : s <> [] <-> exists x, In x s.
Proof.
  destruct s as [|x r]; split.
  - congruence.
  - intros [x []].
  - intros _. exists x. now left.
  - discriminate.
Qed.

(* ---- key -> set dictionaries ------------------------------------------------ *)
Definition rel_of (d : sdict) (k v : nat) : Prop :=
  match d_get d k with Some s => In v s | None => False end.

Record SWF (d : sdict) : Prop := mkSWF {
  swf_keys : NoDup (map fst d);
  swf_sets : forall k s, d_get d k = Some s -> s <> [] /\ NoDup s
}.

Lemma SWF_nil : SWF [].
Proof. constructor; [constructor|]. intros k s. discriminate. Qed.

Lemma swf_set d k s : SWF d -> s <> [] -> NoDup s -> SWF (d_set d k s).
Proof.
  intros [A B] H1 H2. constructor; [now apply nodup_set|].
  intros a t. rewrite get_set. eqb_case a k.
  - intros [= <-]. tauto.
  - apply B.
Qed.

Lemma swf_rm d k : SWF d -> SWF (d_rm d k).
Proof.
  intros [A B]. constructor; [now apply nodup_rm|].
  intros a t. rewrite get_rm. eqb_case a k; [discriminate|apply B].
Qed.

Lemma rel_set d k s a b : rel_of (d_set d k s) a b <-> (a = k /\ In b s) \/ (a <> k /\ rel_of d a b).
Proof.
  unfold rel_of. rewrite get_set. eqb_case a k; [subst|]; tauto.
Qed.

Lemma rel_rm d k a b : rel_of (d_rm d k) a b <-> a <> k /\ rel_of d a b.
Proof.
  unfold rel_of. rewrite get_rm. eqb_case a k; [subst|]; tauto.
Qed.

Lemma sd_add_swf d k v : SWF d -> SWF (sd_add d k v).
Proof.
  intro H. unfold sd_add. destruct (d_get d k) as [s|] eqn:E.
  - apply swf_set; trivial; [apply s_add_nonempty|]. apply s_add_nodup. now apply (swf_sets _ H k s).
  - apply swf_set; trivial; [discriminate|]. constructor; [simpl; tauto|constructor].
Qed.

Lemma sd_add_rel d k v a b : rel_of (sd_add d k v) a b <-> rel_of d a b \/ (a = k /\ b = v).
Proof.
  unfold sd_add. destruct (d_get d k) as [s|] eqn:E; rewrite rel_set.
  - rewrite s_add_In. unfold rel_of. split.
    + intros [[-> [H| ->]]|[H1 H2]]; auto. left. now rewrite E.
    + intros [H|[-> ->]]; [|left; auto]. eqb_case a k; [subst|right; auto].
      rewrite E in H. left. auto.
  - simpl. unfold rel_of. split.
    + intros [[-> [<-|[]]]|[H1 H2]]; auto.
    + intros [H|[-> ->]]; [|left; auto]. eqb_case a k; [subst|right; auto].
      now rewrite E in H.
Qed.

Lemma sd_discard_swf d k v : SWF d -> SWF (sd_discard d k v).
Proof.
  intro H. unfold sd_discard. destruct (d_get d k) as [s|] eqn:E; trivial.
  destruct (s_rm s v) as [|x r] eqn:Er.
  - now apply swf_rm.
  - apply swf_set; trivial; [discriminate|]. rewrite <- Er. apply s_rm_nodup. now apply (swf_sets _ H k s).
Qed.

Lemma sd_discard_rel d k v a b :
  rel_of (sd_discard d k v) a b <-> rel_of d a b /\ ~ (a = k /\ b = v).
Proof.
  unfold sd_discard. destruct (d_get d k) as [s|] eqn:E.
  - destruct (s_rm s v) as [|x r] eqn:Er.
    + rewrite rel_rm. unfold rel_of. split.
      * intros [H1 H2]. split; trivial. tauto.
      * intros [H1 H2]. split; trivial. intros ->. rewrite E in H1.
        assert (Hin : In b (s_rm s v)) by (apply s_rm_In; split; trivial; intros ->; tauto).
        rewrite Er in Hin. exact Hin.
    + rewrite rel_set, <- Er, s_rm_In. unfold rel_of. split.
      * intros [[-> [H1 H2]]|[H1 H2]]; [rewrite E|]; tauto.
      * intros [H1 H2]. eqb_case a k; [subst|right; auto]. rewrite E in H1. left.
        repeat split; trivial. intros ->. tauto.
  - unfold rel_of. split; [|tauto]. intro H. split; trivial. intros [-> _]. now rewrite E in H.
Qed.

(* ---- the invariant -------------------------------------------------------------- *)
Record M2mInv (m : m2m) : Prop := mkM2mInv {
  mi_data : SWF (m_data m);
  mi_inv : SWF (m_inv m);
  mi_tr : forall k v, rel_of (m_data m) k v <-> rel_of (m_inv m) v k
}.

Lemma M2mInv_swap m : M2mInv m -> M2mInv (m2m_swap m).
Proof. intros [A B C]. constructor; simpl; trivial. intros k v. symmetry. apply C. Qed.

Lemma m_empty_ok : M2mInv m_empty.
Proof. constructor; simpl; try apply SWF_nil. intros k v. unfold rel_of. simpl. tauto. Qed.

Lemma m_add_ok m k v : M2mInv m -> M2mInv (m_add m k v).
Proof.
  intros [A B C]. constructor; simpl; try now apply sd_add_swf.
  intros a b. rewrite !sd_add_rel, C. tauto.
Qed.

Lemma m_remove'_ok m k v : M2mInv m -> M2mInv (m_remove' m k v).
Proof.
  intros [A B C]. constructor; simpl; try now apply sd_discard_swf.
  intros a b. rewrite !sd_discard_rel, C. tauto.
Qed.

Lemma fold_add_ok k vals : forall m, M2mInv m -> M2mInv (fold_left (fun m v => m_add m k v) vals m).
Proof. induction vals as [|v r IH]; simpl; intros m H; trivial. apply IH. now apply m_add_ok. Qed.

Lemma fold_remove_ok k vals : forall m, M2mInv m -> M2mInv (fold_left (fun m v => m_remove' m k v) vals m).
Proof. induction vals as [|v r IH]; simpl; intros m H; trivial. apply IH. now apply m_remove'_ok. Qed.

Lemma m_setitem_ok m k vals : M2mInv m -> M2mInv (m_setitem m k vals).
Proof.
  intro H. unfold m_setitem. destruct (d_get (m_data m) k).
  - apply fold_add_ok. now apply fold_remove_ok.
  - now apply fold_add_ok.
Qed.

Lemma m_remove_ok m k v m' : M2mInv m -> m_remove m k v = Ok m' -> M2mInv m'.
Proof.
  intros H. unfold m_remove. destruct (m_has m k v); [|discriminate].
  intros [= <-]. now apply m_remove'_ok.
Qed.

Lemma fold_discard k s : forall inv, SWF inv ->
  SWF (fold_left (fun inv v => sd_discard inv v k) s inv) /\
  forall b a, rel_of (fold_left (fun inv v => sd_discard inv v k) s inv) b a <->
              rel_of inv b a /\ ~ (a = k /\ In b s).
Proof.
  induction s as [|v r IH]; simpl; intros inv H.
  - split; trivial. intros b a. tauto.
  - destruct (IH (sd_discard inv v k) (sd_discard_swf _ _ _ H)) as [A B]. split; trivial.
    intros b a. rewrite B, sd_discard_rel. split.
    + intros [[H1 H2] H3]. split; trivial. intros [-> [<-|H4]]; tauto.
    + intros [H1 H2]. repeat split; trivial.
      * intros [-> ->]. tauto.
      * intros [-> H3]. tauto.
Qed.

Lemma m_delitem_ok m k m' : M2mInv m -> m_delitem m k = Ok m' -> M2mInv m'.
Proof.
  intros [A B C]. unfold m_delitem. destruct (d_get (m_data m) k) as [s|] eqn:E; [|discriminate].
  intros [= <-]. destruct (fold_discard k s (m_inv m) B) as [B' R].
  constructor; simpl; trivial; [now apply swf_rm|].
  intros a b. rewrite rel_rm, R, <- C. split.
  - intros [H1 H2]. split; trivial. tauto.
  - intros [H1 H2]. split; trivial. intros ->. apply H2. split; trivial.
    unfold rel_of in H1. now rewrite E in H1.
Qed.

(* replace(key, newkey) *)
Lemma fold_replace k nk s : forall inv, SWF inv ->
  (forall v, In v s -> exists rs, d_get inv v = Some rs) ->
  SWF (fold_left (fun inv v => match d_get inv v with
                               | Some rs => d_set inv v (s_add (s_rm rs k) nk)
                               | None => inv end) s inv) /\
  forall b a, rel_of (fold_left (fun inv v => match d_get inv v with
                               | Some rs => d_set inv v (s_add (s_rm rs k) nk)
                               | None => inv end) s inv) b a <->
              (In b s /\ ((rel_of inv b a /\ a <> k) \/ a = nk)) \/ (~ In b s /\ rel_of inv b a).
Proof.
  induction s as [|v r IH]; simpl; intros inv H Hex.
  - split; trivial. intros b a. tauto.
  - destruct (Hex v (or_introl eq_refl)) as [rs Ers]. rewrite Ers.
    set (inv1 := d_set inv v (s_add (s_rm rs k) nk)).
    assert (H1 : SWF inv1).
    { apply swf_set; trivial; [apply s_add_nonempty|]. apply s_add_nodup, s_rm_nodup.
      now apply (swf_sets _ H v rs). }
    assert (Hex1 : forall v0, In v0 r -> exists rs0, d_get inv1 v0 = Some rs0).
    { intros v0 Hin. subst inv1. rewrite get_set. eqb_case v0 v; [eauto|]. apply Hex. now right. }
    destruct (IH inv1 H1 Hex1) as [A B]. split; trivial.
    intros b a. rewrite B. subst inv1. rewrite rel_set, s_add_In, s_rm_In.
    assert (Hv : rel_of inv v a <-> In a rs) by (unfold rel_of; now rewrite Ers).
    destruct (in_dec Nat.eq_dec b r) as [Hr|Hr]; eqb_case b v; subst; try rewrite Hv; intuition.
Qed.

Lemma s_union_nonempty s t : t <> [] -> s_union s t <> [].
Proof.
  intros H. apply nonempty_In in H. destruct H as [x H]. apply nonempty_In. exists x.
  apply s_union_In. now right.
Qed.

Lemma m_replace_ok m k nk : M2mInv m -> M2mInv (m_replace m k nk).
Proof.
  intros [A B C]. unfold m_replace. destruct (d_get (m_data m) k) as [fs|] eqn:E; [|now constructor].
  destruct (swf_sets _ A k fs E) as [Hne Hnd].
  assert (Hex : forall v, In v fs -> exists rs, d_get (m_inv m) v = Some rs).
  { intros v Hin. assert (R : rel_of (m_data m) k v) by (unfold rel_of; now rewrite E).
    apply C in R. unfold rel_of in R. destruct (d_get (m_inv m) v); [eauto|tauto]. }
  destruct (fold_replace k nk fs (m_inv m) B Hex) as [B' R].
  set (d1 := d_rm (m_data m) k).
  assert (A1 : SWF d1) by now apply swf_rm.
  assert (Hk : forall b, rel_of (m_data m) k b <-> In b fs) by (intro b; unfold rel_of; now rewrite E).
  constructor; cbn [m_data m_inv]; trivial.
  - destruct (d_get d1 nk) as [s|] eqn:E1.
    + apply swf_set; trivial; [now apply s_union_nonempty|]. apply s_union_nodup.
      now apply (swf_sets _ A1 nk s).
    + apply swf_set; trivial; [now apply s_union_nonempty|]. apply s_union_nodup. constructor.
  - intros a b. rewrite R.
    assert (D : rel_of (match d_get d1 nk with
                        | Some s => d_set d1 nk (s_union s fs)
                        | None => d_set d1 nk (s_union [] fs) end) a b <->
                (a = nk /\ In b fs) \/ (a <> k /\ rel_of (m_data m) a b)).
    { destruct (d_get d1 nk) as [s|] eqn:E1; rewrite rel_set, s_union_In; subst d1.
      - assert (Hs : forall x, In x s <-> nk <> k /\ rel_of (m_data m) nk x).
        { intro x. rewrite <- rel_rm. unfold rel_of. now rewrite E1. }
        rewrite Hs. rewrite rel_rm. split.
        + intros [[-> [[H1 H2]|H1]]|[H1 [H2 H3]]]; auto.
        + intros [[-> H1]|[H1 H2]]; auto. eqb_case a nk; [subst; left; auto|right; auto].
      - simpl. rewrite rel_rm. split.
        + intros [[-> [[]|H1]]|[H1 [H2 H3]]]; auto.
        + intros [[-> H1]|[H1 H2]]; auto. eqb_case a nk; [subst|right; auto].
          exfalso. assert (Hr : rel_of (d_rm (m_data m) k) nk b) by (apply rel_rm; auto).
          unfold rel_of in Hr. now rewrite E1 in Hr. }
    rewrite D. rewrite <- C. rewrite <- Hk.
    destruct (in_dec Nat.eq_dec b fs) as [Hb|Hb]; rewrite <- Hk in Hb;
      destruct (Nat.eq_dec a k) as [->|Hak]; tauto.
Qed.

Lemma m_update_pairs_ok kvs : forall m, M2mInv m -> M2mInv (m_update_pairs m kvs).
Proof.
  unfold m_update_pairs. induction kvs as [|[k v] r IH]; simpl; intros m H; trivial.
  apply IH. now apply m_add_ok.
Qed.

(* update(other): each side merged separately *)
Lemma sd_merge_spec od : forall d, SWF d ->
  (forall k s, In (k, s) od -> s <> [] /\ NoDup s) ->
  SWF (sd_merge d od) /\
  forall a b, rel_of (sd_merge d od) a b <-> rel_of d a b \/ exists s, In (a, s) od /\ In b s.
Proof.
  unfold sd_merge. induction od as [|[k s] r IH]; simpl; intros d H Hod.
  - split; trivial. intros a b. split; [tauto|]. intros [H1|[s [[] _]]]. trivial.
  - destruct (Hod k s (or_introl eq_refl)) as [Hne Hnd].
    set (d1 := match d_get d k with
               | Some s0 => d_set d k (s_union s0 s)
               | None => d_set d k (s_union [] s) end).
    assert (H1 : SWF d1).
    { subst d1. destruct (d_get d k) as [s0|] eqn:E.
      - apply swf_set; trivial; [now apply s_union_nonempty|]. apply s_union_nodup.
        now apply (swf_sets _ H k s0).
      - apply swf_set; trivial; [now apply s_union_nonempty|]. apply s_union_nodup. constructor. }
    assert (R1 : forall a b, rel_of d1 a b <-> rel_of d a b \/ (a = k /\ In b s)).
    { intros a b. subst d1. destruct (d_get d k) as [s0|] eqn:E; rewrite rel_set, s_union_In.
      - unfold rel_of. split.
        + intros [[-> [H2|H2]]|[H2 H3]]; auto. left. now rewrite E.
        + intros [H2|[-> H2]]; auto. eqb_case a k; [subst|right; auto]. rewrite E in H2. auto.
      - simpl. unfold rel_of. split.
        + intros [[-> [[]|H2]]|[H2 H3]]; auto.
        + intros [H2|[-> H2]]; auto. eqb_case a k; [subst|right; auto]. now rewrite E in H2. }
    assert (Hod1 : forall k0 s0, In (k0, s0) r -> s0 <> [] /\ NoDup s0).
    { intros k0 s0 Hin. apply (Hod k0 s0). now right. }
    destruct (IH d1 H1 Hod1) as [A B].
    match goal with |- SWF ?X /\ _ => change X with (fold_left (fun d p => match d_get d (fst p) with
                        | None => d_set d (fst p) (s_union [] (snd p))
                        | Some s0 => d_set d (fst p) (s_union s0 (snd p))
                        end) r d1) end.
    split; trivial. intros a b. rewrite B, R1. split.
    + intros [[H2|[-> H2]]|[s0 [H2 H3]]]; eauto.
    + intros [H2|[s0 [[[= -> ->]|H2] H3]]]; eauto.
Qed.

Lemma swf_In_get d k s : SWF d -> (In (k, s) d <-> d_get d k = Some s).
Proof. intros [A _]. now apply In_get_iff. Qed.

Lemma sd_merge_ok d od : SWF d -> SWF od ->
  SWF (sd_merge d od) /\ forall a b, rel_of (sd_merge d od) a b <-> rel_of d a b \/ rel_of od a b.
Proof.
  intros H Ho. destruct (sd_merge_spec od d H) as [A B].
  - intros k s Hin. apply (swf_sets _ Ho k s). now apply swf_In_get.
  - split; trivial. intros a b. rewrite B. unfold rel_of at 3. split.
    + intros [H1|[s [H1 H2]]]; auto. right. apply swf_In_get in H1; trivial. now rewrite H1.
    + intros [H1|H1]; auto. destruct (d_get od a) as [s|] eqn:E; [|tauto].
      right. exists s. split; trivial. now apply swf_In_get.
Qed.

Lemma m_update_from_ok m o : M2mInv m -> M2mInv o -> M2mInv (m_update_from m o).
Proof.
  intros [A B C] [A' B' C'].
  destruct (sd_merge_ok _ _ A A') as [S1 R1]. destruct (sd_merge_ok _ _ B B') as [S2 R2].
  constructor; simpl; trivial. intros k v. rewrite R1, R2, C, C'. tauto.
Qed.

(* ---- every operation, either side, several instances ------------------------------ *)
Lemma m2m_step_ok m op : M2mInv m -> M2mInv (fst (m2m_step m op)).
Proof.
  intro H. destruct op as [k v|k v|k vals|k|k nk|kvs|k|k|k]; simpl; trivial.
  - now apply m_add_ok.
  - destruct (m_remove m k v) eqn:E; simpl; trivial. eapply m_remove_ok; eauto.
  - now apply m_setitem_ok.
  - destruct (m_delitem m k) eqn:E; simpl; trivial. eapply m_delitem_ok; eauto.
  - now apply m_replace_ok.
  - now apply m_update_pairs_ok.
Qed.

Lemma m2m_step_side_ok s m op : M2mInv m -> M2mInv (fst (m2m_step_side s m op)).
Proof.
  intro H. unfold m2m_step_side. destruct s; [|now apply m2m_step_ok].
  pose proof (m2m_step_ok (m2m_swap m) op (M2mInv_swap _ H)) as H'.
  destruct (m2m_step (m2m_swap m) op) as [m' r]. simpl in *. now apply M2mInv_swap.
Qed.

Lemma M2mInv_side s m : M2mInv m -> M2mInv (m2m_side s m).
Proof. destruct s; simpl; trivial. apply M2mInv_swap. Qed.

Lemma Forall_set_nth' {A} (P : A -> Prop) l i x : Forall P l -> P x -> Forall P (set_nth l i x).
Proof. intros H Hx. revert i. induction H; intros [|i]; simpl; constructor; auto. Qed.

Lemma Forall_nth_error' {A} (P : A -> Prop) l i x : Forall P l -> nth_error l i = Some x -> P x.
Proof. intros H E. rewrite Forall_forall in H. apply H. eapply nth_error_In; eauto. Qed.

Lemma m2m_hstep_ok h hop : Forall M2mInv h -> Forall M2mInv (fst (m2m_hstep h hop)).
Proof.
  intro H. destruct hop as [kvs|i s|i s op|i s j t|i s j t]; simpl.
  - apply Forall_app. split; trivial. constructor; [|constructor].
    apply m_update_pairs_ok, m_empty_ok.
  - destruct (nth_error h i) as [o|] eqn:E; simpl; trivial.
    apply Forall_app. split; trivial. constructor; [|constructor].
    apply m_update_from_ok; [apply m_empty_ok|]. apply M2mInv_side. eapply Forall_nth_error'; eauto.
  - destruct (nth_error h i) as [m|] eqn:E; simpl; trivial.
    pose proof (m2m_step_side_ok s m op (Forall_nth_error' _ _ _ _ H E)) as H'.
    destruct (m2m_step_side s m op) as [m' r]. simpl in *. now apply Forall_set_nth'.
  - destruct (nth_error h i) as [m|] eqn:E; simpl; trivial.
    destruct (nth_error h j) as [o|] eqn:E2; simpl; trivial.
    apply Forall_set_nth'; trivial. apply M2mInv_side. apply m_update_from_ok; apply M2mInv_side.
    + eapply Forall_nth_error'; eauto.
    + eapply Forall_nth_error'; eauto.
  - destruct (nth_error h i); simpl; trivial. destruct (nth_error h j); simpl; trivial.
Qed.

Definition m2m_run (hops : list m2m_hop) : list m2m :=
  fold_left (fun h hop => fst (m2m_hstep h hop)) hops [].

Lemma m2m_run_ok hops : Forall M2mInv (m2m_run hops).
Proof.
  unfold m2m_run.
  assert (G : forall h, Forall M2mInv h ->
            Forall M2mInv (fold_left (fun h hop => fst (m2m_hstep h hop)) hops h)).
  { induction hops as [|hop r IH]; simpl; intros h H; trivial. apply IH. now apply m2m_hstep_ok. }
  apply G. constructor.
Qed.

(* the invariant read on the stored pairs *)
Definition has_pair (d : sdict) (k v : nat) : Prop := exists s, In (k, s) d /\ In v s.

Lemma has_pair_rel d k v : SWF d -> (has_pair d k v <-> rel_of d k v).
Proof.
  intro H. unfold has_pair, rel_of. split.
  - intros [s [H1 H2]]. apply swf_In_get in H1; trivial. now rewrite H1.
  - destruct (d_get d k) as [s|] eqn:E; [|tauto]. intro H1. exists s. split; trivial.
    now apply swf_In_get.
Qed.

Theorem m2m_transposed_after_any_history hops m :
  In m (m2m_run hops) ->
  (forall k v, has_pair (m_data m) k v <-> has_pair (m_inv m) v k) /\
  (forall k s, In (k, s) (m_data m) -> s <> []) /\
  (forall k s, In (k, s) (m_inv m) -> s <> []) /\
  NoDup (map fst (m_data m)) /\ NoDup (map fst (m_inv m)) /\
  m2m_swap (m2m_swap m) = m.
Proof.
  intro Hin. pose proof (m2m_run_ok hops) as F. rewrite Forall_forall in F.
  destruct (F m Hin) as [A B C]. repeat split.
  - intro H. apply has_pair_rel; trivial. apply C. now apply has_pair_rel.
  - intro H. apply has_pair_rel; trivial. apply C. now apply has_pair_rel.
  - intros k s H. apply swf_In_get in H; trivial. now apply (swf_sets _ A k s).
  - intros k s H. apply swf_In_get in H; trivial. now apply (swf_sets _ B k s).
  - apply A.
  - apply B.
  - destruct m; reflexivity.
Qed.
