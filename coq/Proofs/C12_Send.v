(* C12, send side: under every partial-send / time-out script, the bytes on
   the wire followed by the send buffer are the bytes accepted, in order. *)
From Boltons Require Import Lib.Prelude Lib.C12_Base Spec.C12_Spec Model.C12_Model.

Lemma sock_send_some cur sc k sc' :
  cur <> [] -> sock_send cur sc = (SSent k, sc') ->
  1 <= k <= length cur /\ sintrs sc' = sintrs sc.
Proof.
  intros Hc H. assert (1 <= length cur) by (destruct cur; [congruence|cbn; lia]).
  destruct sc as [|[j| |c|j] r]; unfold sock_send in H; inversion H; subst; clear H.
  - split; [lia|reflexivity].
  - change (match length cur with 0 => 0 | S m' => S (Nat.min j m') end)
      with (Nat.min (S j) (length cur)).
    split; [lia|reflexivity].
  - change (match length cur with 0 => 0 | S m' => S (Nat.min j m') end)
      with (Nat.min (S j) (length cur)).
    split; [lia|reflexivity].
Qed.

Lemma sock_send_intr cur sc e sc' :
  sock_send cur sc = (SIntr e, sc') -> sintrs sc = e :: sintrs sc'.
Proof. destruct sc as [|[j| |c|j] r]; cbn; intro H; inversion H; subst; reflexivity. Qed.

Lemma sintrs_head sc e l : sintrs sc = e :: l -> is_intr_exn e = true.
Proof.
  induction sc as [|[j| |c|j] r IH]; cbn; intro H; try discriminate; auto; inversion H; reflexivity.
Qed.

(* interrupted by the sending network, or by the call's own deadline *)
Definition sintr_by (d_on : bool) (e : exn) (sc sc' : list sev) : Prop :=
  sintrs sc = e :: sintrs sc' \/ (e = Timeout /\ sintrs sc' = sintrs sc /\ d_on = true).

Lemma sintr_by_is_intr d_on e sc sc' : sintr_by d_on e sc sc' -> is_intr_exn e = true.
Proof. intros [H|(-> & _)]; [exact (sintrs_head _ _ _ H)|reflexivity]. Qed.

Lemma sintr_by_explain d_on e sc sc' :
  sintr_by d_on e sc sc' ->
  explain_intr d_on (OExn e) (sintrs sc) (length (sintrs sc')) = Some (sintrs sc').
Proof.
  intros [H|(-> & H & ->)]; unfold explain_intr.
  - rewrite H. cbn [length]. rewrite Nat.eqb_refl. cbn [next_intr].
    assert (E : exn_eqb e e = true) by (destruct e; cbn; auto using Nat.eqb_refl). rewrite E. reflexivity.
  - rewrite H. assert (E : Nat.eqb (S (length (sintrs sc))) (length (sintrs sc)) = false)
      by (apply Nat.eqb_neq; lia).
    rewrite E, Nat.eqb_refl. reflexivity.
Qed.

Lemma send_loop_ok d_on : forall fuel late cur total sc w r cur' sc' w',
  length cur < fuel ->
  send_loop fuel d_on late cur total sc w = (r, cur', sc', w') ->
  exists sent, cur = sent ++ cur' /\ w' = w ++ sent /\
    match r with
    | inl t => cur' = [] /\ t = total + length sent /\ sintrs sc' = sintrs sc
    | inr e => sintr_by d_on e sc sc'
    end.
Proof.
  induction fuel as [|f IH]; intros late cur total sc w r cur' sc' w' F H; [lia|].
  cbn [send_loop] in H. destruct cur as [|x cur].
  - inversion H; subst. exists []. cbn. rewrite app_nil_r. repeat split; lia.
  - remember (x :: cur) as c eqn:Ec.
    destruct (sock_send c sc) as [[k|e] sc1] eqn:Es.
    + apply sock_send_some in Es as [Hk Hst]; [|subst; congruence].
      destruct (d_on && (late || sslow_head sc)) eqn:Edl.
      { (* the deadline check after this partial send fires *)
        apply andb_true_iff in Edl as [-> _]. inversion H; subst. exists (firstn k (x :: cur)).
        split; [symmetry; apply firstn_skipn|]. split; [reflexivity|]. right. auto. }
      apply IH in H; [|rewrite skipn_length; lia].
      destruct H as (sent & H1 & H2 & H3). exists (firstn k c ++ sent). split; [|split].
      * rewrite <- app_assoc, <- H1. symmetry. apply firstn_skipn.
      * rewrite H2, app_assoc. reflexivity.
      * destruct r as [t|e].
        -- destruct H3 as (H3 & H4 & H5). repeat split; auto; try congruence.
           rewrite app_length, firstn_length_le by lia. lia.
        -- destruct H3 as [H3|(H3 & H4 & H5)]; [left; congruence|right; repeat split; auto; congruence].
    + inversion H; subst. apply sock_send_intr in Es. exists []. cbn. rewrite app_nil_r. split; [reflexivity|].
      split; [reflexivity|]. left. assumption.
Qed.

Lemma concat_filter_nonempty (l : list bytes) :
  concat (filter (fun b => negb (is_nil b)) l) = concat l.
Proof.
  induction l as [|b l IH]; cbn; [reflexivity|].
  destruct b; cbn; [assumption|]. rewrite IH. reflexivity.
Qed.

Lemma sbuf_head_join sb data : sbuf_head (join_sbuf (sb ++ [data])) = concat sb ++ data.
Proof.
  destruct sb as [|a [|b r]]; cbn [app join_sbuf sbuf_head].
  - reflexivity.
  - rewrite concat_filter_nonempty. cbn. rewrite !app_nil_r. reflexivity.
  - change (a :: b :: r ++ [data]) with ((a :: b :: r) ++ [data]).
    rewrite concat_filter_nonempty, concat_app. cbn. rewrite app_nil_r. reflexivity.
Qed.

Definition same_recv (s s' : bs) : Prop :=
  rbuf s' = rbuf s /\ nt s' = nt s /\ maxsize s' = maxsize s /\ recvsize s' = recvsize s /\ dl s' = dl s.

Definition op_data (o : op) : bytes :=
  match o with Send d | Buffer d => d | _ => [] end.

Definition send_post (s : bs) (o : op) (out : outcome) (s' : bs) : Prop :=
  same_recv s s' /\
  exists sent, wire s' = wire s ++ sent /\
    wire s' ++ concat (sbuf s') = (wire s ++ concat (sbuf s)) ++ op_data o /\
    match o, out with
    | Buffer _, ONone => sent = [] /\ sintrs (script s') = sintrs (script s)
    | Send _, ONat n => concat (sbuf s') = [] /\ n = length sent /\
                        sintrs (script s') = sintrs (script s)
    | Flush, ONone => concat (sbuf s') = [] /\ sintrs (script s') = sintrs (script s)
    (* interrupted after 0 or more bytes went out: by a time-out or by any other socket error *)
    | Send _, OExn e | Flush, OExn e => sintr_by (dl s) e (script s) (script s')
    | _, _ => False
    end.

Lemma send_gen s data out s' :
  send s data = (out, s') ->
  same_recv s s' /\
  exists sent, wire s' = wire s ++ sent /\
    wire s' ++ concat (sbuf s') = (wire s ++ concat (sbuf s)) ++ data /\
    match out with
    | ONat n => concat (sbuf s') = [] /\ n = length sent /\
                sintrs (script s') = sintrs (script s)
    | OExn e => sintr_by (dl s) e (script s) (script s')
    | _ => False
    end.
Proof.
  unfold send. intro H. rewrite sbuf_head_join in H.
  set (cur := concat (sbuf s) ++ data) in *. assert (Hcur : cur = concat (sbuf s) ++ data) by reflexivity.
  clearbody cur.
  destruct (send_loop (S (length cur)) (dl s) false cur 0 (script s) (wire s)) as [[[r cur'] sc'] w'] eqn:E.
  apply send_loop_ok in E; [|lia]. destruct E as (sent & H1 & H2 & H3).
  destruct r as [t|e]; inversion H; subst out s'; clear H; cbn [rbuf nt maxsize recvsize sbuf script wire dl set_send];
    (split; [repeat split|]); exists sent; (split; [assumption|]); cbn [concat]; rewrite app_nil_r.
  - destruct H3 as (H3 & H4 & H5). subst cur'. rewrite app_nil_r in H1. split; [|auto].
    rewrite H2, app_nil_r, <- app_assoc, <- Hcur, H1. reflexivity.
  - split; [|assumption]. rewrite H2, <- !app_assoc. f_equal. rewrite <- Hcur. symmetry. exact H1.
Qed.

Theorem step_send_ok s o out s' :
  is_send_op o = true -> step s o = (out, s') -> send_post s o out s'.
Proof.
  intros Ho H. destruct o; try discriminate; cbn [step] in H; unfold send_post; cbn [op_data].
  - apply send_gen in H. destruct H as (SR & sent & H1 & H2 & H3). split; [assumption|].
    exists sent. repeat (split; [assumption|]).
    destruct out; try contradiction; assumption.
  - unfold buffer in H. inversion H; subst; clear H. cbn [rbuf nt maxsize recvsize sbuf script wire dl set_send].
    split; [repeat split|]. exists []. rewrite app_nil_r. split; [reflexivity|].
    rewrite concat_app. cbn. rewrite app_nil_r, app_assoc. auto.
  - unfold flush in H. destruct (send s []) as [o1 s1] eqn:E. apply send_gen in E.
    destruct E as (SR & sent & H1 & H2 & H3). rewrite app_nil_r in H2.
    destruct o1; try contradiction; inversion H; subst; clear H;
      (split; [assumption|]); exists sent; rewrite app_nil_r; repeat (split; [assumption|]).
    + destruct H3 as (H3 & _ & H5). auto.
    + assumption.
Qed.
