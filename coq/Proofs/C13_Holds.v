(* C13: the model's own observations satisfy the predicate [holds] that the
   correspondence run evaluates on the implementation's observations
   (Check.C13_Check), for every well-formed function, every injected/expected
   list and every list of calls with distinct keywords.  Hence on a run where
   [agree] holds, the theorems about the model are theorems about what the
   implementation did. *)
From Boltons Require Import Lib.Prelude Spec.C13_Spec Model.C13_Model Check.C13_Check
     Proofs.C13_Dict Proofs.C13_Bind Proofs.C13_Shape Proofs.C13_Realign Proofs.C13_Sig Proofs.C13_Main.
From Coq Require Import Lia.

(* ---- reflexivity of the boolean equalities ------------------------------------------- *)
Lemma list_eqb_refl {A} (eqb : A -> A -> bool) : (forall a, eqb a a = true) -> forall l, list_eqb eqb l l = true.
Proof. intros H l. induction l as [|x r IH]; simpl; [reflexivity|]. rewrite H, IH. reflexivity. Qed.
Lemma option_eqb_refl {A} (eqb : A -> A -> bool) : (forall a, eqb a a = true) -> forall o, option_eqb eqb o o = true.
Proof. intros H [a|]; simpl; [apply H | reflexivity]. Qed.
Lemma pair_eqb_refl {A B} (ea : A -> A -> bool) (eb : B -> B -> bool) :
  (forall a, ea a a = true) -> (forall b, eb b b = true) -> forall p, pair_eqb ea eb p p = true.
Proof. intros HA HB [a b]. unfold pair_eqb. simpl. rewrite HA, HB. reflexivity. Qed.

Lemma kind_eqb_refl k : kind_eqb k k = true.
Proof. destruct k; reflexivity. Qed.
Lemma param_eqb_refl p : param_eqb p p = true.
Proof.
  unfold param_eqb. rewrite Nat.eqb_refl, kind_eqb_refl, !(option_eqb_refl Nat.eqb Nat.eqb_refl). reflexivity.
Qed.
Lemma sig_eqb_refl s : sig_eqb s s = true.
Proof. unfold sig_eqb. rewrite (list_eqb_refl _ param_eqb_refl), (option_eqb_refl Nat.eqb Nat.eqb_refl). reflexivity. Qed.
Lemma nv_eqb_refl e : nv_eqb e e = true.
Proof. apply pair_eqb_refl; apply Nat.eqb_refl. Qed.
Lemma call_eqb_refl c : call_eqb c c = true.
Proof. unfold call_eqb. rewrite (list_eqb_refl _ Nat.eqb_refl), (list_eqb_refl _ nv_eqb_refl). reflexivity. Qed.
Lemma bval_eqb_refl b : bval_eqb b b = true.
Proof. destruct b; simpl; [apply Nat.eqb_refl | apply (list_eqb_refl _ Nat.eqb_refl) | apply (list_eqb_refl _ nv_eqb_refl)]. Qed.
Lemma binding_eqb_refl b : binding_eqb b b = true.
Proof. apply list_eqb_refl. apply pair_eqb_refl; [apply Nat.eqb_refl | apply bval_eqb_refl]. Qed.
Lemma exn_eqb_refl e : exn_eqb e e = true.
Proof. destruct e; simpl; try reflexivity; apply Nat.eqb_refl. Qed.
Lemma rb_eqb_refl r : rb_eqb r r = true.
Proof. destruct r; simpl; [apply binding_eqb_refl | apply exn_eqb_refl]. Qed.
Lemma call_obs_eqb_refl x : call_obs_eqb x x = true.
Proof. unfold call_obs_eqb. rewrite (option_eqb_refl _ call_eqb_refl), rb_eqb_refl. reflexivity. Qed.
Lemma bool_eqb_refl b : Bool.eqb b b = true.
Proof. destruct b; reflexivity. Qed.

(* ---- the signature of a well-formed function is a well-formed signature ------------------- *)
Definition rank_ok (p q : param) : bool :=
  let a := kind_rank (p_kind p) in
  let b := kind_rank (p_kind q) in
  Nat.ltb a b || (Nat.eqb a b && (Nat.eqb a 0 || Nat.eqb a 2)).

Lemma kinds_ordered_cons2 p q r : kinds_ordered (p :: q :: r) = rank_ok p q && kinds_ordered (q :: r).
Proof. reflexivity. Qed.

Lemma kinds_ordered_cons p r :
  match r with [] => True | q :: _ => rank_ok p q = true end ->
  kinds_ordered r = true -> kinds_ordered (p :: r) = true.
Proof.
  destruct r as [|q r']; intros H1 H2; [reflexivity|].
  rewrite kinds_ordered_cons2, H1, H2. reflexivity.
Qed.

Lemma head_kw_or_varkw Kp vk q r' :
  all_kind KwOnly Kp = true -> okind VarKw vk = true -> Kp ++ olist vk = q :: r' ->
  p_kind q = KwOnly \/ p_kind q = VarKw.
Proof.
  intros AK AVK E. destruct Kp as [|q0 r0]; simpl in E.
  - destruct vk as [v|]; simpl in E; [|discriminate]. inversion E; subst. right.
    simpl in AVK. apply kind_eqb_eq in AVK. exact AVK.
  - inversion E; subst. simpl in AK. apply andb_true_iff in AK as [AK _]. apply kind_eqb_eq in AK. left. exact AK.
Qed.

Lemma kinds_ordered_kw Kp vk :
  all_kind KwOnly Kp = true -> okind VarKw vk = true -> kinds_ordered (Kp ++ olist vk) = true.
Proof.
  induction Kp as [|p r IH]; intros A V.
  - destruct vk; reflexivity.
  - pose proof A as A0. simpl in A. apply andb_true_iff in A as [A1 A2]. apply kind_eqb_eq in A1.
    specialize (IH A2 V). simpl. apply kinds_ordered_cons; [|exact IH].
    destruct (r ++ olist vk) as [|q r'] eqn:E; [exact I|].
    destruct (head_kw_or_varkw r vk q r' A2 V E) as [Kq|Kq]; unfold rank_ok; rewrite A1, Kq; reflexivity.
Qed.

Lemma kinds_ordered_sparams P va Kp vk :
  all_kind PosOrKw P = true -> okind VarPos va = true ->
  all_kind KwOnly Kp = true -> okind VarKw vk = true ->
  kinds_ordered (sparams P va Kp vk) = true.
Proof.
  intros AP AVA AK AVK. unfold sparams.
  assert (T : kinds_ordered (olist va ++ Kp ++ olist vk) = true).
  { destruct va as [p|]; simpl; [|apply kinds_ordered_kw; assumption].
    simpl in AVA. apply kind_eqb_eq in AVA.
    pose proof (kinds_ordered_kw Kp vk AK AVK) as H.
    apply kinds_ordered_cons; [|exact H].
    destruct (Kp ++ olist vk) as [|q r'] eqn:E; [exact I|].
    destruct (head_kw_or_varkw Kp vk q r' AK AVK E) as [Kq|Kq]; unfold rank_ok; rewrite AVA, Kq; reflexivity. }
  induction P as [|p r IH]; [exact T|].
  simpl in AP. apply andb_true_iff in AP as [A1 A2]. apply kind_eqb_eq in A1.
  simpl. apply kinds_ordered_cons; [|apply IH; exact A2].
  destruct (r ++ olist va ++ Kp ++ olist vk) as [|q r'] eqn:E; [exact I|].
  unfold rank_ok. rewrite A1. destruct (p_kind q); reflexivity.
Qed.

Lemma defaults_ok_rest an va kwonly kwd vk : forall sd,
  defaults_ok sd (map (fun n => mkP n VarPos None (an n)) (olist va)
                  ++ map (fun n => mkP n KwOnly (d_get kwd n) (an n)) kwonly
                  ++ map (fun n => mkP n VarKw None (an n)) (olist vk)) = true.
Proof.
  intro sd. destruct va as [v|]; simpl.
  - induction kwonly as [|k r IH]; simpl; [destruct vk; reflexivity | exact IH].
  - induction kwonly as [|k r IH]; simpl; [destruct vk; reflexivity | exact IH].
Qed.

Lemma defaults_ok_pos an rest (HR : forall sd, defaults_ok sd rest = true) :
  forall args skip D sd, skip + length D = length args -> (sd = true -> skip = 0) ->
  defaults_ok sd (pos_params an args skip D ++ rest) = true.
Proof.
  induction args as [|a r IH]; intros skip D sd L S.
  - simpl. apply HR.
  - simpl. destruct skip as [|k].
    + destruct D as [|d ds]; [simpl in L; discriminate|].
      simpl. apply IH; [simpl in L; lia | reflexivity].
    + simpl. destruct sd; [specialize (S eq_refl); discriminate|]. simpl.
      apply IH; [simpl in L; lia | discriminate].
Qed.

Lemma func_sig_wf f : wf_func f -> wf_params (sg_params (func_sig f)) = true.
Proof.
  intros [ND NZ L]. unfold wf_params, func_sig, mk_sig. cbn [sg_params].
  rewrite mk_params_names. fold (func_names f).
  rewrite (proj2 (nodup_b_NoDup _) ND).
  rewrite mk_params_sparams, kinds_ordered_sparams by (try apply seg_P; try apply seg_VA; try apply seg_KP; try apply seg_VK).
  rewrite <- mk_params_sparams. unfold mk_params.
  rewrite defaults_ok_pos; [| intro; apply defaults_ok_rest | lia | discriminate].
  simpl. apply forallb_forall. intros p Hp. apply negb_true_iff. apply Nat.eqb_neq. intro E.
  apply NZ. rewrite <- E. unfold func_names.
  rewrite <- (mk_params_names (d_get (f_annotations f)) (f_args f) (odflt (f_defaults f)) (f_varargs f)
               (f_kwonly f) (odflt (f_kwdefaults f)) (f_varkw f)).
  apply in_map. exact Hp.
Qed.

(* ---- what the model observes on a case -------------------------------------------------------- *)
Definition model_build (f : pyfunc) (inj : list name) (exp : list (name * option value))
           (fwd : bool) (calls : list call) : res built_obs :=
  match update_wrapper f inj exp with
  | Raise e => Raise e
  | Ok g =>
      Ok (mkBO (match sig_of (b_func g) with Ok s => s | Raise _ => mkSig [] None end)
               (f_name (b_func g)) (f_doc (b_func g)) (f_module (b_func g))
               (b_wrapped_is_func g) (f_async (b_func g))
               (map (call_built f g fwd) calls))
  end.

Definition model_case f inj exp fwd calls : c13_case :=
  mkCase f inj exp fwd calls (func_sig f) (f_async f) (map (call_func f) calls)
         (model_build f inj exp fwd calls).

(* per call: what [calls_ok] asks of the model *)
Section Calls.
  Variables (f : pyfunc) (g : built) (b2 : fbuilder) (fwd : bool).
  Hypothesis WF : wf_func f.
  Hypothesis G2 : good b2.
  Hypothesis SG : sig_of (b_func g) = Ok (fb_sig b2).
  Hypothesis IV : b_inv g = inv_of_params (sg_params (fb_sig b2)).
  (* a forwarding wrapper only with plain wraps *)
  Hypothesis PLAIN : fwd = true -> fb_sig b2 = func_sig f.

  Lemma model_call_ok c : NoDup (keys (c_kw c)) ->
    let '(saw, out) := call_built f g fwd c in
    is_type_error out = true /\
    is_ok out = accepts (sg_params (fb_sig b2)) c /\
    (match saw with Some _ => true | None => false end) = is_ok out /\
    (fwd = true -> out = call_func f c).
  Proof.
    intro NDk. unfold call_built, accepts.
    assert (CG : call_func (b_func g) c = bind (sg_params (fb_sig b2)) c) by (unfold call_func; rewrite SG; reflexivity).
    rewrite CG.
    destruct (bind (sg_params (fb_sig b2)) c) as [env|e] eqn:B.
    - (* accepted by the own signature: the invocation evaluates *)
      assert (FW : exists c', eval_inv (b_inv g) env = Ok c' /\ bind (sg_params (fb_sig b2)) c' = Ok env).
      { rewrite IV. unfold fb_sig, mk_sig in *. cbn [sg_params] in *. rewrite mk_params_sparams in *.
        rewrite inv_of_params_structured by (try apply seg_P; try apply seg_VA; try apply seg_KP; try apply seg_VK).
        destruct (forward_structured _ _ _ _ c env
                    (seg_P (d_get (fb_annotations b2)) (fb_args b2) (odflt (fb_defaults b2)))
                    (seg_VA (d_get (fb_annotations b2)) (fb_varargs b2))
                    (seg_KP (d_get (fb_annotations b2)) (fb_kwonly b2) (fb_kwdefaults b2))
                    (seg_VK (d_get (fb_annotations b2)) (fb_varkw b2))) as [c' [EV [B' _]]].
        - rewrite <- mk_params_sparams, mk_params_names. exact (g_nodup b2 G2).
        - exact NDk.
        - exact B.
        - exists c'. split; assumption. }
      destruct FW as [c' [EV B']]. rewrite EV.
      destruct fwd eqn:F.
      + (* plain wraps: f binds the forwarded call to the same frame *)
        assert (CF : forall x, call_func f x = bind (sg_params (fb_sig b2)) x).
        { intro x. unfold call_func. rewrite (sig_of_func_sig f (wf_len f WF)), (PLAIN eq_refl). reflexivity. }
        rewrite (CF c'), B'. repeat split; try reflexivity. intros _. rewrite (CF c), B. reflexivity.
      + repeat split; try reflexivity. discriminate.
    - apply bind_raises_type_error in B as E. subst e. repeat split; try reflexivity.
      intro F. unfold call_func. rewrite (sig_of_func_sig f (wf_len f WF)), <- (PLAIN F), B. reflexivity.
  Qed.
End Calls.

Lemma calls_ok_model f g b2 fwd k :
  wf_func f -> good b2 -> sig_of (b_func g) = Ok (fb_sig b2) ->
  b_inv g = inv_of_params (sg_params (fb_sig b2)) ->
  (fwd = true -> fb_sig b2 = func_sig f) ->
  k_forward k = fwd ->
  forall calls, Forall (fun c => NoDup (keys (c_kw c))) calls ->
  calls_ok k (fb_sig b2) calls (map (call_func f) calls) (map (call_built f g fwd) calls) = true.
Proof.
  intros WF G2 SG IV PL KF. induction calls as [|c r IH]; intro ND; [reflexivity|].
  inversion ND as [|c0 r0 NDc NDr]; subst c0 r0. cbn [map calls_ok].
  pose proof (model_call_ok f g b2 fwd WF G2 SG IV PL c NDc) as H.
  destruct (call_built f g fwd c) as [saw out]. destruct H as [H1 [H2 [H3 H4]]].
  rewrite H1, H2, bool_eqb_refl, H3, H2, bool_eqb_refl, (IH NDr), KF. simpl.
  destruct fwd.
  - rewrite (H4 eq_refl), rb_eqb_refl. destruct (plain k); reflexivity.
  - rewrite andb_false_r. reflexivity.
Qed.

(* THE MAIN REFINEMENT: for every well-formed function, injected/expected lists
   and calls, the model's observation satisfies the Spec predicate [holds]. *)
Theorem model_holds f inj exp fwd calls :
  wf_func f -> Forall (fun nd => fst nd <> 0) exp ->
  Forall (fun c => NoDup (keys (c_kw c))) calls ->
  (fwd = true -> inj = [] /\ exp = []) ->
  holds (model_case f inj exp fwd calls) = true.
Proof.
  intros WF NZ NDc PL. unfold holds, model_case.
  cbn [k_f k_fsig k_fasync k_calls k_direct k_injected k_expected k_forward k_build].
  rewrite (func_sig_wf f WF).
  assert (DIR : map (bind (sg_params (func_sig f))) calls = map (call_func f) calls).
  { apply map_ext. intro c. unfold call_func. rewrite (sig_of_func_sig f (wf_len f WF)). reflexivity. }
  rewrite DIR, (list_eqb_refl _ rb_eqb_refl). cbn [andb].
  assert (PS : fwd = true -> spec_wraps (func_sig f) inj exp = Ok (func_sig f)).
  { intro F. destruct (PL F) as [-> ->]. reflexivity. }
  pose proof (update_wrapper_refines_strong f inj exp WF NZ) as R.
  unfold model_build.
  destruct (update_wrapper f inj exp) as [g|e]; destruct (spec_wraps (func_sig f) inj exp) as [s|e'] eqn:SW;
    try (exfalso; exact R).
  - destruct R as [SG [N [Dc [M [A [W [IV [b2 [G2 ES]]]]]]]]]. subst s.
    cbn [bo_sig bo_name bo_doc bo_module bo_wrapped bo_async bo_calls].
    rewrite SG, sig_eqb_refl, N, Nat.eqb_refl, Dc, M, !(option_eqb_refl Nat.eqb Nat.eqb_refl), W, A, bool_eqb_refl.
    cbn [andb].
    apply (calls_ok_model f g b2 fwd _ WF G2 SG IV); [|reflexivity|exact NDc].
    intro F. specialize (PS F). congruence.
  - destruct R as [->| ->]; reflexivity.
Qed.

(* ... and the comparison with the model accepts the model's own observation *)
Theorem model_agrees f inj exp fwd calls :
  wf_func f -> Forall (fun nd => fst nd <> 0) exp ->
  agree (model_case f inj exp fwd calls) = true.
Proof.
  intros WF NZ. unfold agree, model_case, model_build.
  cbn [k_f k_fsig k_fasync k_calls k_direct k_injected k_expected k_forward k_build].
  rewrite (sig_of_func_sig f (wf_len f WF)). cbn [res_eqb]. rewrite sig_eqb_refl, bool_eqb_refl.
  rewrite (list_eqb_refl _ rb_eqb_refl). cbn [andb].
  pose proof (update_wrapper_refines_strong f inj exp WF NZ) as R.
  destruct (update_wrapper f inj exp) as [g|e]; [|apply exn_eqb_refl].
  cbn [bo_sig bo_name bo_doc bo_module bo_wrapped bo_async bo_calls].
  destruct (spec_wraps (func_sig f) inj exp) as [s|e']; [|exfalso; exact R].
  destruct R as [SG _]. rewrite SG. cbn [res_eqb].
  rewrite sig_eqb_refl, Nat.eqb_refl, !(option_eqb_refl Nat.eqb Nat.eqb_refl), !bool_eqb_refl.
  rewrite (list_eqb_refl _ call_obs_eqb_refl). reflexivity.
Qed.
