(* C13: the model's own observations satisfy the predicate [holds] that the
   correspondence run evaluates on the implementation's observations
   (Check.C13_Check), for every well-formed function, every injected/expected
   list and every list of calls with distinct keywords.  Hence on a run where
   [agree] holds, the theorems about the model are theorems about what the
   implementation did. *)
From Boltons Require Import Lib.Prelude Spec.C13_Spec Model.C13_Model Check.C13_Check
     Proofs.C13_Dict Proofs.C13_Bind Proofs.C13_Shape Proofs.C13_Realign Proofs.C13_Sig Proofs.C13_Main.
From Coq Require Import Lia.

(* ---- reflexivity of the boolean equalities ------------------------------------------- *)
Lemma list_eqb_refl {A} (eqb : A -> A -> bool) : (forall a, eqb a a = true) -> forall l, list_eqb eqb l l = true.
Proof. intros H l. induction l as [|x r IH]; simpl; [reflexivity|]. rewrite H, IH. reflexivity. Qed.
Lemma option_eqb_refl {A} (eqb : A -> A -> bool) : (forall a, eqb a a = true) -> forall o, option_eqb eqb o o = true.
Proof. intros H [a|]; simpl; [apply H | reflexivity]. Qed.
Lemma pair_eqb_refl {A B} (ea : A -> A -> bool) (eb : B -> B -> bool) :
  (forall a, ea a a = true) -> (forall b, eb b b = true) -> forall p, pair_eqb ea eb p p = true.
Proof. intros HA HB [a b]. unfold pair_eqb. simpl. rewrite HA, HB. reflexivity. Qed.

Lemma kind_eqb_refl k : kind_eqb k k = true.
Proof. destruct k; reflexivity. Qed.
Lemma param_eqb_refl p : param_eqb p p = true.
Proof.
  unfold param_eqb. rewrite Nat.eqb_refl, kind_eqb_refl, !(option_eqb_refl Nat.eqb Nat.eqb_refl). reflexivity.
Qed.
Lemma sig_eqb_refl s : sig_eqb s s = true.
Proof. unfold sig_eqb. rewrite (list_eqb_refl _ param_eqb_refl), (option_eqb_refl Nat.eqb Nat.eqb_refl). reflexivity. Qed.
Lemma nv_eqb_refl e : nv_eqb e e = true.
Proof. apply pair_eqb_refl; apply Nat.eqb_refl. Qed.
Lemma call_eqb_refl c : call_eqb c c = true.
Proof. unfold call_eqb. rewrite (list_eqb_refl _ Nat.eqb_refl), (list_eqb_refl _ nv_eqb_refl). reflexivity. Qed.
Lemma bval_eqb_refl b : bval_eqb b b = true.
Proof. destruct b; simpl; [apply Nat.eqb_refl | apply (list_eqb_refl _ Nat.eqb_refl) | apply (list_eqb_refl _ nv_eqb_refl)]. Qed.
Lemma binding_eqb_refl b : binding_eqb b b = true.
Proof. apply list_eqb_refl. apply pair_eqb_refl; [apply Nat.eqb_refl | apply bval_eqb_refl]. Qed.
Lemma exn_eqb_refl e : exn_eqb e e = true.
Proof. destruct e; simpl; try reflexivity; apply Nat.eqb_refl. Qed.
Lemma rb_eqb_refl r : rb_eqb r r = true.
Proof. destruct r; simpl; [apply binding_eqb_refl | apply exn_eqb_refl]. Qed.
Lemma call_obs_eqb_refl x : call_obs_eqb x x = true.
Proof. unfold call_obs_eqb. rewrite (option_eqb_refl _ call_eqb_refl), rb_eqb_refl. reflexivity. Qed.
Lemma bool_eqb_refl b : Bool.eqb b b = true.
Proof. destruct b; reflexivity. Qed.
Lemma dict_equiv_refl d : dict_equiv d d = true.
Proof.
  unfold dict_equiv. rewrite Nat.eqb_refl. apply forallb_forall. intros x _.
  apply (option_eqb_refl Nat.eqb Nat.eqb_refl).
Qed.



(* ---- the signature of a well-formed function is a well-formed signature ------------------- *)
Definition rank_ok (p q : param) : bool :=
  let a := kind_rank (p_kind p) in
  let b := kind_rank (p_kind q) in
  Nat.ltb a b || (Nat.eqb a b && (Nat.eqb a 0 || Nat.eqb a 2)).

Lemma kinds_ordered_cons2 p q r : kinds_ordered (p :: q :: r) = rank_ok p q && kinds_ordered (q :: r).
Proof. reflexivity. Qed.

Lemma kinds_ordered_cons p r :
  match r with [] => True | q :: _ => rank_ok p q = true end ->
  kinds_ordered r = true -> kinds_ordered (p :: r) = true.
Proof.
  destruct r as [|q r']; intros H1 H2; [reflexivity|].
  rewrite kinds_ordered_cons2, H1, H2. reflexivity.
Qed.

Lemma head_kw_or_varkw Kp vk q r' :
  all_kind KwOnly Kp = true -> okind VarKw vk = true -> Kp ++ olist vk = q :: r' ->
  p_kind q = KwOnly \/ p_kind q = VarKw.
Proof.
  intros AK AVK E. destruct Kp as [|q0 r0]; simpl in E.
  - destruct vk as [v|]; simpl in E; [|discriminate]. inversion E; subst. right.
    simpl in AVK. apply kind_eqb_eq in AVK. exact AVK.
  - inversion E; subst. simpl in AK. apply andb_true_iff in AK as [AK _]. apply kind_eqb_eq in AK. left. exact AK.
Qed.

Lemma kinds_ordered_kw Kp vk :
  all_kind KwOnly Kp = true -> okind VarKw vk = true -> kinds_ordered (Kp ++ olist vk) = true.
Proof.
  induction Kp as [|p r IH]; intros A V.
  - destruct vk; reflexivity.
  - pose proof A as A0. simpl in A. apply andb_true_iff in A as [A1 A2]. apply kind_eqb_eq in A1.
    specialize (IH A2 V). simpl. apply kinds_ordered_cons; [|exact IH].
    destruct (r ++ olist vk) as [|q r'] eqn:E; [exact I|].
    destruct (head_kw_or_varkw r vk q r' A2 V E) as [Kq|Kq]; unfold rank_ok; rewrite A1, Kq; reflexivity.
Qed.

Lemma kinds_ordered_sparams P va Kp vk :
  all_kind PosOrKw P = true -> okind VarPos va = true ->
  all_kind KwOnly Kp = true -> okind VarKw vk = true ->
  kinds_ordered (sparams P va Kp vk) = true.
Proof.
  intros AP AVA AK AVK. unfold sparams.
  assert (T : kinds_ordered (olist va ++ Kp ++ olist vk) = true).
  { destruct va as [p|]; simpl; [|apply kinds_ordered_kw; assumption].
    simpl in AVA. apply kind_eqb_eq in AVA.
    pose proof (kinds_ordered_kw Kp vk AK AVK) as H.
    apply kinds_ordered_cons; [|exact H].
    destruct (Kp ++ olist vk) as [|q r'] eqn:E; [exact I|].
    destruct (head_kw_or_varkw Kp vk q r' AK AVK E) as [Kq|Kq]; unfold rank_ok; rewrite AVA, Kq; reflexivity. }
  induction P as [|p r IH]; [exact T|].
  simpl in AP. apply andb_true_iff in AP as [A1 A2]. apply kind_eqb_eq in A1.
  simpl. apply kinds_ordered_cons; [|apply IH; exact A2].
  destruct (r ++ olist va ++ Kp ++ olist vk) as [|q r'] eqn:E; [exact I|].
  unfold rank_ok. rewrite A1. destruct (p_kind q); reflexivity.
Qed.

Lemma defaults_ok_rest an va kwonly kwd vk : forall sd,
  defaults_ok sd (map (fun n => mkP n VarPos None (an n)) (olist va)
                  ++ map (fun n => mkP n KwOnly (d_get kwd n) (an n)) kwonly
                  ++ map (fun n => mkP n VarKw None (an n)) (olist vk)) = true.
Proof.
  intro sd. destruct va as [v|]; simpl.
  - induction kwonly as [|k r IH]; simpl; [destruct vk; reflexivity | exact IH].
  - induction kwonly as [|k r IH]; simpl; [destruct vk; reflexivity | exact IH].
Qed.

Lemma defaults_ok_pos an rest (HR : forall sd, defaults_ok sd rest = true) :
  forall args skip D sd, skip + length D = length args -> (sd = true -> skip = 0) ->
  defaults_ok sd (pos_params an args skip D ++ rest) = true.
Proof.
  induction args as [|a r IH]; intros skip D sd L S.
  - simpl. apply HR.
  - simpl. destruct skip as [|k].
    + destruct D as [|d ds]; [simpl in L; discriminate|].
      simpl. apply IH; [simpl in L; lia | reflexivity].
    + simpl. destruct sd; [specialize (S eq_refl); discriminate|]. simpl.
      apply IH; [simpl in L; lia | discriminate].
Qed.

Lemma func_sig_wf f : wf_func f -> wf_params (sg_params (func_sig f)) = true.
Proof.
  intros [ND NZ L]. unfold wf_params, func_sig, mk_sig. cbn [sg_params].
  rewrite mk_params_names. fold (func_names f).
  rewrite (proj2 (nodup_b_NoDup _) ND).
  rewrite mk_params_sparams, kinds_ordered_sparams by (try apply seg_P; try apply seg_VA; try apply seg_KP; try apply seg_VK).
  rewrite <- mk_params_sparams. unfold mk_params.
  rewrite defaults_ok_pos; [| intro; apply defaults_ok_rest | lia | discriminate].
  simpl. apply forallb_forall. intros p Hp. apply negb_true_iff. apply Nat.eqb_neq. intro E.
  apply NZ. rewrite <- E. unfold func_names.
  rewrite <- (mk_params_names (d_get (f_annotations f)) (f_args f) (odflt (f_defaults f)) (f_varargs f)
               (f_kwonly f) (odflt (f_kwdefaults f)) (f_varkw f)).
  apply in_map. exact Hp.
Qed.

(* ---- what the model observes on a case -------------------------------------------------------- *)
Definition obs_of_built (g : built) : built_obs :=
  mkBO (match sig_of (b_func g) with Ok s => s | Raise _ => mkSig [] None end)
       (f_name (b_func g)) (f_doc (b_func g)) (f_module (b_func g))
       (f_dict (b_func g)) (f_async (b_func g)).

Definition model_case (f : pyfunc) (steps : list step) (fwd : bool) (partial : nat) (kinds : list wkind)
           (calls : list call) : c13_case :=
  mkCase f steps fwd partial kinds calls (func_sig f) (f_async f) (map (call_func f) calls)
         (func_sig f) (f_dict f) (model_again f)
         (map obs_of_built (fst (run_steps f steps))) (snd (run_steps f steps))
         (match snd (run_steps f steps) with
          | None => map (call_top f (rev (fst (run_steps f steps))) fwd partial) calls
          | Some _ => []
          end)
         (match snd (run_steps f steps) with
          | None => if existsb (fun o => is_ok (snd o))
                               (map (call_top f (rev (fst (run_steps f steps))) fwd partial) calls)
                    then extra_awaits f (fst (run_steps f steps)) kinds else 0
          | Some _ => 0
          end)
         (match snd (run_steps f steps) with
          | None => map (lower_saws (rev (fst (run_steps f steps))) fwd partial) calls
          | Some _ => []
          end).

Definition steps_nonzero (steps : list step) : Prop :=
  Forall (fun st => Forall (fun nd : name * option value => fst nd <> 0) (s_expected st)) steps.

Definition same_meta_func (base h : pyfunc) : Prop :=
  f_name h = f_name base /\ f_doc h = f_doc base /\ f_module h = f_module base /\ f_async h = f_async base.

(* a level that passes its parameters on under the signature [s] *)
Definition passes_on (s : signature) (g : built) : Prop :=
  sig_of (b_func g) = Ok s /\ b_inv g = inv_of_params (sg_params s).

Lemma run_steps_cons h st r :
  run_steps h (st :: r) =
  match update_wrapper_opt (s_options st) (s_id st) h (s_injected st) (s_expected st) with
  | Raise e => ([], Some e)
  | Ok g => (g :: fst (run_steps (b_func g) r), snd (run_steps (b_func g) r))
  end.
Proof.
  cbn [run_steps]. destruct (update_wrapper_opt _ _ _ _ _) as [g|e]; [|reflexivity].
  destruct (run_steps (b_func g) r); reflexivity.
Qed.

(* THE STACK LEMMA: level by level the model's observations satisfy [levels_ok];
   the outermost level passes its own parameters on under a structured
   signature; in a stack of plain wraps every level has the base signature. *)
Lemma levels_model base : forall steps h,
  wf_func h -> same_meta_func base h -> steps_nonzero steps ->
  exists top,
    levels_ok base (f_async base) (func_sig h) (f_id h) steps
              (map obs_of_built (fst (run_steps h steps))) (snd (run_steps h steps)) = Some top /\
    (snd (run_steps h steps) = None ->
       (forall gtop below, rev (fst (run_steps h steps)) = gtop :: below ->
          passes_on top gtop /\ exists b2, good b2 /\ top = fb_sig b2) /\
       (forallb plain_step steps = true ->
          Forall (passes_on (func_sig h)) (fst (run_steps h steps)))).
Proof.
  induction steps as [|st r IH]; intros h WF MT NZ.
  - exists (func_sig h). split; [reflexivity|]. intros _. split.
    + intros gtop below E. destruct (@nil built); discriminate.
    + intros _. constructor.
  - inversion NZ as [|? ? NZ1 NZr]; subst. rewrite run_steps_cons. cbn [levels_ok].
    pose proof (update_wrapper_opt_refines (s_options st) (s_id st) h (s_injected st) (s_expected st) WF NZ1) as R.
    destruct (update_wrapper_opt (s_options st) (s_id st) h (s_injected st) (s_expected st)) as [g|e];
      destruct (spec_wraps_opt (o_inject_to_varkw (s_options st)) (func_sig h) (s_injected st) (s_expected st)) as [s'|e'] eqn:SW;
      try (exfalso; exact R).
    + destruct R as [SG [N [Dc [M [A [ID [DW [DS [IV [[WFg WDg] [b2 [G2 ES]]]]]]]]]]]].
      destruct MT as [MN [MD [MM MA]]].
      assert (FS : func_sig (b_func g) = s').
      { pose proof (sig_of_func_sig (b_func g) (wf_len _ WFg)) as X. rewrite SG in X. congruence. }
      destruct (IH (b_func g) WFg) as [top [LO REST]].
      { repeat split; congruence. }
      { exact NZr. }
      cbn [fst snd map]. exists top. split.
      * cbn [obs_of_built bo_sig bo_name bo_doc bo_module bo_dict bo_async].
        unfold obs_of_built at 1. cbn [bo_sig bo_name bo_doc bo_module bo_dict bo_async].
        rewrite SG, sig_eqb_refl, N, MN, Nat.eqb_refl, Dc, MD, M, MM, !(option_eqb_refl Nat.eqb Nat.eqb_refl).
        rewrite A, MA, bool_eqb_refl, DW, (option_eqb_refl Nat.eqb Nat.eqb_refl). cbn [andb].
        rewrite <- FS, <- ID. exact LO.
      * intro E. destruct (REST E) as [TOP PL]. split.
        -- intros gtop below RV. cbn [rev] in RV.
           destruct (rev (fst (run_steps (b_func g) r))) as [|g1 rest] eqn:RG.
           ++ simpl in RV. inversion RV; subst gtop below.
              (* g is the outermost level: r built nothing, so r = [] *)
              assert (fst (run_steps (b_func g) r) = []).
              { rewrite <- (rev_involutive (fst (run_steps (b_func g) r))), RG. reflexivity. }
              destruct r as [|st2 r2].
              ** simpl in LO. inversion LO; subst top. split; [split; [congruence | congruence]|].
                 exists b2. split; [exact G2 | congruence].
              ** exfalso. rewrite run_steps_cons in H, E.
                 destruct (update_wrapper_opt (s_options st2) (s_id st2) (b_func g) (s_injected st2) (s_expected st2));
                   [discriminate H | discriminate E].
           ++ simpl in RV. inversion RV; subst g1 below. apply (TOP gtop rest). reflexivity.
        -- intro PLN. cbn [forallb] in PLN. apply andb_true_iff in PLN as [P1 P2].
           assert (EQ : s' = func_sig h).
           { unfold plain_step in P1. destruct (s_injected st); [|discriminate]. destruct (s_expected st); [|discriminate].
             unfold spec_wraps_opt in SW. simpl in SW. congruence. }
           rewrite EQ in SG, IV, FS. constructor.
           ++ unfold passes_on. split; [exact SG | exact IV].
           ++ rewrite <- FS. apply PL. exact P2.
    + cbn [fst snd map]. exists (func_sig h). destruct R as [-> | ->]; (split; [reflexivity | discriminate]).
Qed.

(* ---- calls through a stack ---------------------------------------------------------------------- *)
(* one level that passes its parameters on under a structured signature *)
Lemma level_call b2 g c : good b2 -> passes_on (fb_sig b2) g -> NoDup (keys (c_kw c)) ->
  match bind (sg_params (fb_sig b2)) c with
  | Ok env => call_func (b_func g) c = Ok env /\
              exists c', eval_inv (b_inv g) env = Ok c' /\ bind (sg_params (fb_sig b2)) c' = Ok env /\
                         NoDup (keys (c_kw c'))
  | Raise e => call_func (b_func g) c = Raise e
  end.
Proof.
  intros G2 [SG IV] NDk.
  assert (CG : call_func (b_func g) c = bind (sg_params (fb_sig b2)) c) by (unfold call_func; rewrite SG; reflexivity).
  rewrite CG. destruct (bind (sg_params (fb_sig b2)) c) as [env|e] eqn:B; [|reflexivity].
  split; [reflexivity|]. rewrite IV.
  unfold fb_sig, mk_sig in *. cbn [sg_params] in *. rewrite mk_params_sparams in *.
  rewrite inv_of_params_structured by (try apply seg_P; try apply seg_VA; try apply seg_KP; try apply seg_VK).
  apply (forward_structured _ _ _ _ c env
           (seg_P (d_get (fb_annotations b2)) (fb_args b2) (odflt (fb_defaults b2)))
           (seg_VA (d_get (fb_annotations b2)) (fb_varargs b2))
           (seg_KP (d_get (fb_annotations b2)) (fb_kwonly b2) (fb_kwdefaults b2))
           (seg_VK (d_get (fb_annotations b2)) (fb_varkw b2))).
  - rewrite <- mk_params_sparams, mk_params_names. exact (g_nodup b2 G2).
  - exact NDk.
  - exact B.
Qed.

(* the signature of a well-formed function is a structured one *)
Lemma func_sig_structured f : wf_func f -> exists b2, good b2 /\ func_sig f = fb_sig b2.
Proof.
  intro WF. destruct (from_func_good f WF) as [b0 [_ [G0 [S0 _]]]]. exists b0. split; [exact G0 | symmetry; exact S0].
Qed.

(* a stack of levels that all pass their parameters on under f's signature
   hands f the frame it would have seen directly *)
Lemma chain_plain f : wf_func f -> forall gs c,
  Forall (passes_on (func_sig f)) gs -> NoDup (keys (c_kw c)) ->
  call_chain f gs c = call_func f c.
Proof.
  intros WF. destruct (func_sig_structured f WF) as [b2 [G2 FS]].
  assert (CF : forall x, call_func f x = bind (sg_params (fb_sig b2)) x).
  { intro x. unfold call_func. rewrite (sig_of_func_sig f (wf_len f WF)), FS. reflexivity. }
  induction gs as [|g below IH]; intros c FA NDk; [reflexivity|].
  inversion FA as [|? ? PG PB]; subst. rewrite FS in PG.
  pose proof (level_call b2 g c G2 PG NDk) as L. cbn [call_chain]. rewrite CF.
  destruct (bind (sg_params (fb_sig b2)) c) as [env|e].
  - destruct L as [L1 [c' [EV [B' ND']]]]. rewrite L1, EV. rewrite (IH c' PB ND'), CF. exact B'.
  - rewrite L. reflexivity.
Qed.

Lemma Forall_rev' {A} (P : A -> Prop) l : Forall P l -> Forall P (rev l).
Proof.
  intro H. apply Forall_forall. intros x Hx. apply in_rev in Hx. rewrite Forall_forall in H. apply H. exact Hx.
Qed.

(* [n] levels that pass their parameters on under one structured signature: a call that
   binds under it runs through all of them *)
Lemma chain_n_plain b2 : good b2 -> forall n gs c env,
  Forall (passes_on (fb_sig b2)) (firstn n gs) -> n <= length gs ->
  NoDup (keys (c_kw c)) -> bind (sg_params (fb_sig b2)) c = Ok env ->
  call_chain_n gs n c = Ok [].
Proof.
  intros G2. induction n as [|n IH]; intros gs c env FA LE NDk B; [reflexivity|].
  destruct gs as [|g below]; [simpl in LE; inversion LE|].
  cbn [firstn] in FA. inversion FA as [|? ? PG PB]; subst.
  pose proof (level_call b2 g c G2 PG NDk) as L. rewrite B in L.
  destruct L as [L1 [c' [EV [B' ND']]]]. cbn [call_chain_n]. rewrite L1, EV.
  apply (IH below c' env PB); [simpl in LE; apply le_S_n; exact LE | exact ND' | exact B'].
Qed.

Section TopCalls.
  Variables (f : pyfunc) (gtop : built) (below : list built) (b2 : fbuilder) (fwd : bool) (partial : nat).
  Hypothesis WF : wf_func f.
  Hypothesis G2 : good b2.
  Hypothesis PT : passes_on (fb_sig b2) gtop.
  (* wrappers forwarding all the way down only in a stack of plain wraps *)
  Hypothesis PLAIN : fwd = true -> fb_sig b2 = func_sig f /\ Forall (passes_on (func_sig f)) below.
  (* otherwise the levels that are entered have the outermost signature *)
  Hypothesis PARTIAL : fwd = false ->
    Forall (passes_on (fb_sig b2)) (firstn partial below) /\ partial <= length below.

  Lemma model_call_ok c : NoDup (keys (c_kw c)) ->
    let '(saw, out) := call_top f (gtop :: below) fwd partial c in
    is_type_error out = true /\
    is_ok out = accepts (sg_params (fb_sig b2)) c /\
    (match saw with Some _ => true | None => false end) = is_ok out /\
    saw = forwarded (sg_params (fb_sig b2)) c /\
    (fwd = true -> out = call_func f c).
  Proof.
    intro NDk. pose proof (level_call b2 gtop c G2 PT NDk) as L. unfold call_top, accepts, forwarded.
    assert (IVT : b_inv gtop = inv_of_params (sg_params (fb_sig b2))) by (destruct PT; assumption).
    destruct (bind (sg_params (fb_sig b2)) c) as [env|e] eqn:B.
    - destruct L as [L1 [c' [EV [B' ND']]]]. rewrite L1, EV. rewrite IVT in EV. rewrite EV.
      destruct fwd eqn:F.
      + destruct (PLAIN eq_refl) as [ES PB].
        assert (CF : forall x, call_func f x = bind (sg_params (fb_sig b2)) x).
        { intro x. unfold call_func. rewrite (sig_of_func_sig f (wf_len f WF)), ES. reflexivity. }
        rewrite (chain_plain f WF below c' PB ND'), (CF c'), B'.
        repeat split; try reflexivity. intros _. rewrite (CF c), B. reflexivity.
      + destruct (PARTIAL eq_refl) as [PF PLE].
        rewrite (chain_n_plain b2 G2 partial below c' env PF PLE ND' B').
        repeat split; try reflexivity. discriminate.
    - rewrite L. apply bind_raises_type_error in B as E. subst e. repeat split; try reflexivity.
      intro F. destruct (PLAIN F) as [ES _]. unfold call_func.
      rewrite (sig_of_func_sig f (wf_len f WF)), <- ES, B. reflexivity.
  Qed.
End TopCalls.

Lemma calls_ok_model f gtop below b2 fwd partial k :
  wf_func f -> good b2 -> passes_on (fb_sig b2) gtop ->
  (fwd = true -> fb_sig b2 = func_sig f /\ Forall (passes_on (func_sig f)) below) ->
  (fwd = false -> Forall (passes_on (fb_sig b2)) (firstn partial below) /\ partial <= length below) ->
  k_forward k = fwd ->
  forall calls, Forall (fun c => NoDup (keys (c_kw c))) calls ->
  calls_ok k (fb_sig b2) calls (map (call_func f) calls) (map (call_top f (gtop :: below) fwd partial) calls) = true.
Proof.
  intros WF G2 PT PL PA KF. induction calls as [|c r IH]; intro ND; [reflexivity|].
  inversion ND as [|c0 r0 NDc NDr]; subst c0 r0. cbn [map calls_ok].
  pose proof (model_call_ok f gtop below b2 fwd partial WF G2 PT PL PA c NDc) as H.
  destruct (call_top f (gtop :: below) fwd partial c) as [saw out]. destruct H as [H1 [H2 [H3 [H5 H4]]]].
  rewrite H1, H2, bool_eqb_refl, H3, H2, bool_eqb_refl, (IH NDr), KF, <- H5, (option_eqb_refl _ call_eqb_refl). simpl.
  destruct fwd.
  - rewrite (H4 eq_refl), rb_eqb_refl. destruct (plain k); reflexivity.
  - rewrite andb_false_r. reflexivity.
Qed.

(* ... and each of the entered levels hands its wrapper the call the outermost wrapper got *)
Lemma chain_saws_plain b2 : good b2 -> forall n gs c env c0,
  Forall (passes_on (fb_sig b2)) (firstn n gs) -> n <= length gs ->
  NoDup (keys (c_kw c)) -> bind (sg_params (fb_sig b2)) c = Ok env ->
  eval_inv (inv_of_params (sg_params (fb_sig b2))) env = Ok c0 ->
  chain_saws gs n c = repeat c0 n.
Proof.
  intros G2. induction n as [|n IH]; intros gs c env c0 FA LE NDk B EV0; [reflexivity|].
  destruct gs as [|g below]; [simpl in LE; inversion LE|].
  cbn [firstn] in FA. inversion FA as [|? ? PG PB]; subst.
  pose proof (level_call b2 g c G2 PG NDk) as L. rewrite B in L.
  destruct L as [L1 [c' [EV [B' ND']]]]. cbn [chain_saws repeat]. rewrite L1, EV.
  assert (c' = c0) by (destruct PG as [_ IVg]; rewrite IVg in EV; congruence). subst c'.
  f_equal. apply (IH below c0 env c0 PB); [simpl in LE; apply le_S_n; exact LE | exact ND' | exact B' | exact EV0].
Qed.

Lemma lower_ok_model f gtop below b2 fwd partial k :
  good b2 -> passes_on (fb_sig b2) gtop ->
  (fwd = false -> Forall (passes_on (fb_sig b2)) (firstn partial below) /\ partial <= length below) ->
  k_forward k = fwd -> k_partial k = partial ->
  forall calls, Forall (fun c => NoDup (keys (c_kw c))) calls ->
  lower_ok k (map (call_top f (gtop :: below) fwd partial) calls)
             (map (lower_saws (gtop :: below) fwd partial) calls) = true.
Proof.
  intros G2 PT PA KF KP. induction calls as [|c r IH]; intro ND; [reflexivity|].
  inversion ND as [|c0 r0 NDc NDr]; subst c0 r0. cbn [map].
  destruct (call_top f (gtop :: below) fwd partial c) as [saw out] eqn:CT. cbn [lower_ok].
  rewrite (IH NDr), andb_true_r, KF, KP.
  pose proof (level_call b2 gtop c G2 PT NDc) as L. unfold call_top in CT. unfold lower_saws.
  assert (IVT : b_inv gtop = inv_of_params (sg_params (fb_sig b2))) by (destruct PT; assumption).
  assert (CG : call_func (b_func gtop) c = bind (sg_params (fb_sig b2)) c).
  { destruct PT as [SG _]. unfold call_func. rewrite SG. reflexivity. }
  rewrite CG in *. destruct (bind (sg_params (fb_sig b2)) c) as [env|e] eqn:B.
  - destruct L as [_ [c' [EV [B' ND']]]]. rewrite EV in *. inversion CT; subst saw out.
    destruct fwd; [reflexivity|].
    destruct (PA eq_refl) as [PF PLE]. rewrite IVT in EV.
    rewrite (chain_saws_plain b2 G2 partial below c' env c' PF PLE ND' B' EV).
    apply (list_eqb_refl _ call_eqb_refl).
  - inversion CT; subst saw out. reflexivity.
Qed.

Lemma model_again_eq f : wf_func f -> model_again f = Some (func_sig f).
Proof.
  intro WF. unfold model_again. destruct (wraps_same_signature f WF) as [g [E [S _]]].
  rewrite E, S, (sig_of_func_sig f (wf_len f WF)). reflexivity.
Qed.

(* ---- splitting a stack: the top [partial] steps on top of the rest --------------------------------- *)
Definition last_func (h : pyfunc) (gs : list built) : pyfunc := last (map b_func gs) h.

Lemma last_cons {A} (l : list A) : forall x d, last (x :: l) d = last l x.
Proof.
  induction l as [|y r IH]; intros x d; [reflexivity|].
  change (last (x :: y :: r) d) with (last (y :: r) d). rewrite (IH y d), (IH y x). reflexivity.
Qed.

Lemma last_func_cons h g gs : last_func h (g :: gs) = last_func (b_func g) gs.
Proof. unfold last_func. cbn [map]. apply last_cons. Qed.

Lemma run_steps_app : forall l1 l2 h,
  run_steps h (l1 ++ l2) =
  match snd (run_steps h l1) with
  | Some e => (fst (run_steps h l1), Some e)
  | None => (fst (run_steps h l1) ++ fst (run_steps (last_func h (fst (run_steps h l1))) l2),
             snd (run_steps (last_func h (fst (run_steps h l1))) l2))
  end.
Proof.
  induction l1 as [|st r IH]; intros l2 h.
  - unfold last_func. simpl. destruct (run_steps h l2); reflexivity.
  - cbn [app]. rewrite !run_steps_cons.
    destruct (update_wrapper_opt (s_options st) (s_id st) h (s_injected st) (s_expected st)) as [g|e]; [|reflexivity].
    cbn [fst snd]. rewrite IH. destruct (snd (run_steps (b_func g) r)); [reflexivity|].
    rewrite last_func_cons. reflexivity.
Qed.

(* which [partial] are allowed: the top [partial] steps are plain and a level remains below them *)
Definition partial_ok (steps : list step) (partial : nat) : bool :=
  Nat.ltb partial (length steps) && forallb plain_step (skipn (length steps - partial) steps).

Lemma last_func_rev h gs g rest : rev gs = g :: rest -> last_func h gs = b_func g.
Proof.
  intro E. assert (gs = rev rest ++ [g]) by (rewrite <- (rev_involutive gs), E; reflexivity). subst gs.
  unfold last_func. rewrite map_app. simpl. apply last_last.
Qed.

Lemma run_steps_wf : forall steps h, wf_func h -> steps_nonzero steps ->
  Forall (fun g => wf_func (b_func g)) (fst (run_steps h steps)) /\
  (snd (run_steps h steps) = None -> length (fst (run_steps h steps)) = length steps).
Proof.
  induction steps as [|st r IH]; intros h WF NZ; [split; [constructor | reflexivity]|].
  inversion NZ as [|? ? NZ1 NZr]; subst. rewrite run_steps_cons.
  pose proof (update_wrapper_opt_refines (s_options st) (s_id st) h (s_injected st) (s_expected st) WF NZ1) as R.
  destruct (update_wrapper_opt (s_options st) (s_id st) h (s_injected st) (s_expected st)) as [g|e];
    [|split; [constructor | discriminate]].
  destruct (spec_wraps_opt (o_inject_to_varkw (s_options st)) (func_sig h) (s_injected st) (s_expected st)) as [s'|e']; [|exfalso; exact R].
  destruct R as [_ [_ [_ [_ [_ [_ [_ [_ [_ [[WFg _] _]]]]]]]]]].
  destruct (IH (b_func g) WFg NZr) as [F L]. cbn [fst snd]. split.
  - constructor; assumption.
  - intro E. simpl. f_equal. apply L. exact E.
Qed.

Lemma passes_on_sig_eq s1 s2 g : passes_on s1 g -> passes_on s2 g -> s1 = s2.
Proof. intros [A _] [B _]. congruence. Qed.

(* the levels entered by partially forwarding wrappers have the outermost signature *)
Lemma partial_levels f steps partial : wf_func f -> steps_nonzero steps ->
  partial_ok steps partial = true -> snd (run_steps f steps) = None ->
  forall gtop below b2, rev (fst (run_steps f steps)) = gtop :: below ->
  passes_on (fb_sig b2) gtop ->
  Forall (passes_on (fb_sig b2)) (firstn partial below) /\ partial <= length below.
Proof.
  intros WF NZ PO E gtop below b2 RV PT.
  unfold partial_ok in PO. apply andb_true_iff in PO as [PL1 PL2]. apply Nat.ltb_lt in PL1.
  destruct partial as [|p]; [split; [constructor | apply Nat.le_0_l]|].
  remember (firstn (length steps - S p) steps) as lower eqn:EL.
  remember (skipn (length steps - S p) steps) as upper eqn:EU.
  assert (ES : steps = lower ++ upper) by (subst; symmetry; apply firstn_skipn).
  assert (LU : length upper = S p) by (subst upper; rewrite skipn_length; lia).
  assert (LL : lower <> []).
  { intro H. assert (length lower = 0) by (rewrite H; reflexivity).
    subst lower. rewrite firstn_length in H0. lia. }
  assert (NZl : steps_nonzero lower /\ steps_nonzero upper).
  { unfold steps_nonzero in *. rewrite ES in NZ. apply Forall_app in NZ. exact NZ. }
  destruct NZl as [NZl NZu].
  (* split the run *)
  rewrite ES, run_steps_app in E, RV.
  destruct (snd (run_steps f lower)) as [e1|] eqn:E1; [cbn [snd] in E; discriminate E|].
  cbn [fst snd] in E, RV.
  set (gs_l := fst (run_steps f lower)) in *.
  set (h' := last_func f gs_l) in *.
  set (gs_u := fst (run_steps h' upper)) in *.
  (* the lower part built something; its outermost level is h' *)
  destruct (run_steps_wf lower f WF NZl) as [WFl LENl]. fold gs_l in WFl, LENl. specialize (LENl E1).
  destruct (rev gs_l) as [|g_l rest_l] eqn:RL.
  { exfalso. apply LL. assert (gs_l = []) by (rewrite <- (rev_involutive gs_l), RL; reflexivity).
    rewrite H in LENl. destruct lower; [reflexivity | discriminate LENl]. }
  assert (Hh : h' = b_func g_l) by (apply (last_func_rev f gs_l g_l rest_l RL)).
  assert (WFh : wf_func h').
  { rewrite Hh. rewrite Forall_forall in WFl. apply WFl. apply in_rev. rewrite RL. left. reflexivity. }
  (* the lower part's outermost level passes on its own signature = func_sig h' *)
  destruct (levels_model f lower f WF) as [top_l [_ RESTl]]; [repeat split | exact NZl |].
  destruct (RESTl E1) as [TOPl _]. fold gs_l in TOPl.
  destruct (TOPl g_l rest_l RL) as [PTl _].
  assert (PGL : passes_on (func_sig h') g_l).
  { destruct PTl as [A B]. pose proof (sig_of_func_sig h' (wf_len h' WFh)) as X. rewrite Hh in X.
    rewrite A in X. assert (top_l = func_sig (b_func g_l)) by congruence. subst top_l.
    rewrite Hh. split; assumption. }
  (* the upper part: plain wraps over h' *)
  destruct (levels_model h' upper h' WFh) as [top_u [_ RESTu]]; [repeat split | exact NZu |].
  destruct (RESTu E) as [_ PLNu]. fold gs_u in PLNu. specialize (PLNu PL2).
  destruct (run_steps_wf upper h' WFh NZu) as [_ LENu]. fold gs_u in LENu. specialize (LENu E). rewrite LU in LENu.
  (* shape of the reversed list *)
  rewrite rev_app_distr, RL in RV.
  destruct (rev gs_u) as [|g_t rest_u] eqn:RU.
  { exfalso. assert (gs_u = []) by (rewrite <- (rev_involutive gs_u), RU; reflexivity). rewrite H in LENu. discriminate. }
  cbn [app] in RV. inversion RV; subst g_t below. clear RV.
  assert (LRU : length rest_u = p).
  { assert (length (rev gs_u) = S p) by (rewrite rev_length; exact LENu). rewrite RU in H. simpl in H. lia. }
  assert (PU : Forall (passes_on (func_sig h')) (gtop :: rest_u)).
  { rewrite <- RU. apply Forall_rev'. exact PLNu. }
  inversion PU as [|x0 l0 PGT PRU]; subst x0 l0.
  assert (EQ : fb_sig b2 = func_sig h') by (eapply passes_on_sig_eq; eassumption).
  rewrite EQ. split.
  - rewrite firstn_app, LRU. replace (S p - p) with 1 by lia.
    rewrite firstn_all2 by lia. cbn [firstn]. apply Forall_app. split; [exact PRU | constructor; [exact PGL | constructor]].
  - rewrite app_length. simpl. lia.
Qed.

(* ---- awaiting: no coroutine layer is left over ---------------------------------------------------- *)
Lemma run_steps_async : forall steps h, wf_func h -> steps_nonzero steps ->
  Forall (fun g => f_async (b_func g) = f_async h) (fst (run_steps h steps)).
Proof.
  induction steps as [|st r IH]; intros h WF NZ; [constructor|].
  inversion NZ as [|? ? NZ1 NZr]; subst. rewrite run_steps_cons.
  pose proof (update_wrapper_opt_refines (s_options st) (s_id st) h (s_injected st) (s_expected st) WF NZ1) as R.
  destruct (update_wrapper_opt (s_options st) (s_id st) h (s_injected st) (s_expected st)) as [g|e]; [|constructor].
  destruct (spec_wraps_opt (o_inject_to_varkw (s_options st)) (func_sig h) (s_injected st) (s_expected st)) as [s'|e']; [|exfalso; exact R].
  destruct R as [_ [_ [_ [_ [A [_ [_ [_ [_ [[WFg _] _]]]]]]]]]].
  cbn [fst]. constructor; [exact A|].
  eapply Forall_impl; [|apply (IH (b_func g) WFg NZr)]. intros g0 H. simpl in H. congruence.
Qed.

(* which wrappers make sense: one per step; an async def wrapper only around an async function *)
Definition kinds_ok (f : pyfunc) (steps : list step) (kinds : list wkind) : Prop :=
  length kinds = length steps /\ (f_async f = false -> Forall (fun k => k = WSync) kinds).

Lemma stack_layers_same a : forall gs kinds,
  Forall (fun g => f_async (b_func g) = a) gs -> length kinds = length gs ->
  (a = false -> Forall (fun k => k = WSync) kinds) ->
  stack_layers (if a then 1 else 0) gs kinds = Some (if a then 1 else 0).
Proof.
  induction gs as [|g r IH]; intros kinds FA LN SY; [reflexivity|].
  destruct kinds as [|k ks]; [discriminate LN|].
  inversion FA as [|x0 l0 A1 A2]; subst x0 l0. cbn [stack_layers]. rewrite <- A1.
  assert (STEP : built_layers (f_async (b_func g)) (wrapper_layers k (if f_async (b_func g) then 1 else 0))
                 = Some (if f_async (b_func g) then 1 else 0)).
  { destruct (f_async (b_func g)) eqn:AS.
    - destruct k; reflexivity.
    - specialize (SY (eq_sym A1)). inversion SY; subst. reflexivity. }
  rewrite STEP, A1. apply IH; [exact A2 | simpl in LN; congruence |].
  intro F. specialize (SY F). inversion SY; assumption.
Qed.

Theorem no_extra_awaits f steps kinds : wf_func f -> steps_nonzero steps -> kinds_ok f steps kinds ->
  snd (run_steps f steps) = None ->
  extra_awaits f (fst (run_steps f steps)) kinds = 0.
Proof.
  intros WF NZ [LN SY] E. unfold extra_awaits, func_layers.
  destruct (run_steps_wf steps f WF NZ) as [_ LEN]. specialize (LEN E).
  rewrite (stack_layers_same (f_async f) _ kinds (run_steps_async steps f WF NZ)); [apply Nat.sub_diag | congruence | exact SY].
Qed.

(* THE MAIN REFINEMENT: for every well-formed base function, every non-empty
   stack of wraps steps and all calls with distinct keywords, the model's
   observation satisfies the Spec predicate [holds]. *)
Theorem model_holds f steps fwd partial kinds calls :
  wf_func f -> steps <> [] -> steps_nonzero steps -> kinds_ok f steps kinds ->
  Forall (fun c => NoDup (keys (c_kw c))) calls ->
  (fwd = true -> forallb plain_step steps = true) ->
  (fwd = false -> partial_ok steps partial = true) ->
  holds (model_case f steps fwd partial kinds calls) = true.
Proof.
  intros WF NE NZ KO NDc PL PA. unfold holds, model_case.
  cbn [k_f k_fsig k_fasync k_calls k_direct k_steps k_forward k_partial k_levels k_fail k_top_calls k_lower_saws k_fsig_after k_fdict_after k_again k_wkinds k_extra].
  rewrite (func_sig_wf f WF).
  assert (DIR : map (bind (sg_params (func_sig f))) calls = map (call_func f) calls).
  { apply map_ext. intro c. unfold call_func. rewrite (sig_of_func_sig f (wf_len f WF)). reflexivity. }
  rewrite DIR, (list_eqb_refl _ rb_eqb_refl), sig_eqb_refl, dict_equiv_refl, (model_again_eq f WF). cbn [option_eqb].
  rewrite sig_eqb_refl. cbn [andb].
  destruct (levels_model f steps f WF) as [top [LO REST]].
  { repeat split. }
  { exact NZ. }
  rewrite LO.
  pose proof (no_extra_awaits f steps kinds WF NZ KO) as NX.
  destruct (snd (run_steps f steps)) as [e|] eqn:E; [reflexivity|].
  rewrite (NX eq_refl). replace (if existsb _ _ then 0 else 0) with 0 by (destruct (existsb _ _); reflexivity).
  cbn [Nat.eqb andb].
  destruct (REST eq_refl) as [TOP PLN].
  destruct (rev (fst (run_steps f steps))) as [|gtop below] eqn:RV.
  - (* a non-empty stack that did not stop built at least one level *)
    exfalso. destruct steps as [|st r]; [apply NE; reflexivity|].
    rewrite run_steps_cons in RV, E.
    destruct (update_wrapper_opt (s_options st) (s_id st) f (s_injected st) (s_expected st)) as [g0|e0]; [|discriminate E].
    simpl in RV. destruct (rev (fst (run_steps (b_func g0) r))); discriminate RV.
  - destruct (TOP gtop below eq_refl) as [PT [b2 [G2 ET]]]. subst top.
    assert (PAR : fwd = false -> Forall (passes_on (fb_sig b2)) (firstn partial below) /\ partial <= length below).
    { intro F. apply (partial_levels f steps partial WF NZ (PA F) E gtop below b2 RV PT). }
    apply andb_true_iff. split.
    + apply (calls_ok_model f gtop below b2 fwd partial _ WF G2 PT); [|exact PAR|reflexivity|exact NDc].
      intro F. specialize (PLN (PL F)). apply Forall_rev' in PLN. rewrite RV in PLN.
      inversion PLN as [|? ? P1 P2]; subst. split; [|exact P2].
      destruct PT as [S1 _]. destruct P1 as [S2 _]. congruence.
    + apply (lower_ok_model f gtop below b2 fwd partial _ G2 PT PAR); [reflexivity | reflexivity | exact NDc].
Qed.

(* ... and the comparison with the model accepts the model's own observation *)
Lemma forall2b_level_agree gs :
  Forall (fun g => exists s, sig_of (b_func g) = Ok s) gs -> forall2b level_agree gs (map obs_of_built gs) = true.
Proof.
  induction gs as [|g r IH]; intro H; [reflexivity|]. inversion H as [|? ? [s Hs] Hr]; subst.
  cbn [map forall2b]. rewrite (IH Hr), andb_true_r. unfold level_agree, obs_of_built.
  cbn [bo_sig bo_name bo_doc bo_module bo_dict bo_async]. rewrite Hs. cbn [res_eqb].
  unfold dict_rel. rewrite sig_eqb_refl, Nat.eqb_refl, !(option_eqb_refl Nat.eqb Nat.eqb_refl), bool_eqb_refl. reflexivity.
Qed.

Lemma run_steps_sigs : forall steps h, wf_func h -> steps_nonzero steps ->
  Forall (fun g => exists s, sig_of (b_func g) = Ok s) (fst (run_steps h steps)).
Proof.
  induction steps as [|st r IH]; intros h WF NZ; [constructor|].
  inversion NZ as [|? ? NZ1 NZr]; subst. rewrite run_steps_cons.
  pose proof (update_wrapper_opt_refines (s_options st) (s_id st) h (s_injected st) (s_expected st) WF NZ1) as R.
  destruct (update_wrapper_opt (s_options st) (s_id st) h (s_injected st) (s_expected st)) as [g|e]; [|constructor].
  destruct (spec_wraps_opt (o_inject_to_varkw (s_options st)) (func_sig h) (s_injected st) (s_expected st)) as [s'|e']; [|exfalso; exact R].
  destruct R as [SG [_ [_ [_ [_ [_ [_ [_ [_ [[WFg _] _]]]]]]]]]].
  cbn [fst]. constructor; [exists s'; exact SG | apply IH; assumption].
Qed.

Theorem model_agrees f steps fwd partial kinds calls :
  wf_func f -> steps_nonzero steps ->
  agree (model_case f steps fwd partial kinds calls) = true.
Proof.
  intros WF NZ. unfold agree, model_case.
  cbn [k_f k_fsig k_fasync k_calls k_direct k_steps k_forward k_partial k_levels k_fail k_top_calls k_lower_saws k_fsig_after k_fdict_after k_again k_wkinds k_extra].
  rewrite (sig_of_func_sig f (wf_len f WF)). cbn [res_eqb]. rewrite sig_eqb_refl, bool_eqb_refl.
  rewrite (list_eqb_refl _ rb_eqb_refl), dict_equiv_refl, (option_eqb_refl _ sig_eqb_refl). cbn [andb].
  pose proof (run_steps_sigs steps f WF NZ) as SG.
  destruct (run_steps f steps) as [gs e]. cbn [fst snd] in *.
  rewrite (forall2b_level_agree gs SG), (option_eqb_refl _ exn_eqb_refl). cbn [andb].
  destruct e; [reflexivity|]. rewrite Nat.eqb_refl, (list_eqb_refl _ call_obs_eqb_refl). apply (list_eqb_refl _ (list_eqb_refl _ call_eqb_refl)).
Qed.
