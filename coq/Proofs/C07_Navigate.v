(* The model of URL.navigate refines RFC 3986 5.2.2 (normalised): for every
   well-formed absolute base and every well-formed relative reference (as URL
   objects), the rendered result is the RFC target of the rendered inputs. *)
From Boltons Require Import Lib.Prelude Lib.C07_Str Spec.C07_Spec Gen.C07_Gen Model.C07_Model
     Proofs.C07_StrLemmas Proofs.C07_Rds Proofs.C07_Resolve Proofs.C07_Parse.
Open Scope N_scope.

(* ---- character classes: "needs no quoting in this component" -------------------- *)
Definition path_char (c : N) : bool := not_in gen_path_delims c.
Definition query_char (c : N) : bool := not_in gen_query_delims c.
Definition frag_char (c : N) : bool := not_in gen_fragment_delims c.

Lemma quote_with_id delims s : forallb (not_in delims) s = true -> quote_with delims s = s.
Proof.
  induction s as [|c s IH]; intro H; [reflexivity|].
  cbn [forallb] in H. apply andb_true_iff in H as [Hc Hs].
  unfold quote_with in *. cbn [flat_map]. unfold not_in in Hc. apply negb_true_iff in Hc.
  rewrite Hc, (IH Hs). reflexivity.
Qed.

Lemma mem_subset small big : forallb (fun d => mem d big) small = true ->
  forall c, not_in big c = true -> not_in small c = true.
Proof.
  intros H c Hc. unfold not_in in *. apply negb_true_iff in Hc. apply negb_true_iff.
  destruct (mem c small) eqn:E; [|reflexivity].
  unfold mem in E. apply existsb_exists in E as (d & Hd & Ed). apply N.eqb_eq in Ed. subst d.
  rewrite forallb_forall in H. rewrite (H c Hd) in Hc. discriminate.
Qed.

(* obligations over the regenerated tables: the characters the parser splits
   on are among the ones to_text() quotes in that component *)
Lemma path_delims_cover : forall c, path_char c = true -> not_in [SL; QM; HASH] c = true.
Proof. apply mem_subset. reflexivity. Qed.
Lemma query_delims_cover : forall c, query_char c = true -> not_in [HASH; AMP; EQS] c = true.
Proof. apply mem_subset. reflexivity. Qed.

Definition seg_ok (s : str) : Prop := forallb path_char s = true.

Lemma seg_ok_noslash s : seg_ok s -> noslash s.
Proof.
  unfold seg_ok, noslash. apply forallb_impl. intros c Hc. apply path_delims_cover in Hc.
  unfold not_in, mem, not_slash in *. cbn [existsb] in Hc. apply negb_true_iff in Hc.
  apply orb_false_iff in Hc as [H _]. rewrite H. reflexivity.
Qed.

Lemma seg_ok_path_chars s : seg_ok s -> forallb (not_in [QM; HASH]) s = true.
Proof.
  unfold seg_ok. apply forallb_impl. intros c Hc. apply path_delims_cover in Hc.
  unfold not_in, mem in *. cbn [existsb] in *. apply negb_true_iff in Hc. apply negb_true_iff.
  apply orb_false_iff in Hc as [_ H]. exact H.
Qed.

Lemma seg_ok_nil : seg_ok []. Proof. reflexivity. Qed.

(* ---- rendering of the path ------------------------------------------------------------ *)
Lemma map_quote_id parts : Forall seg_ok parts -> map quote_path_part parts = parts.
Proof.
  induction 1 as [|s l Hs _ IH]; [reflexivity|]. cbn [map]. rewrite IH.
  unfold quote_path_part. rewrite (quote_with_id _ s Hs). reflexivity.
Qed.

Lemma path_text_join u : Forall seg_ok (u_path u) -> path_text u = join [SL] (u_path u).
Proof. intro H. unfold path_text. rewrite (map_quote_id _ H). reflexivity. Qed.

Lemma abs_path_chars (P : N -> bool) segs : P SL = true -> Forall (fun s => forallb P s = true) segs ->
  forallb P (abs_path segs) = true.
Proof.
  intros HP H. induction H as [|s l Hs _ IH]; [reflexivity|].
  rewrite abs_path_cons. cbn [forallb]. rewrite HP, forallb_app', Hs, IH. reflexivity.
Qed.

(* ---- rendering of the query ------------------------------------------------------------ *)
Definition kv_ok (kv : str * option str) : Prop :=
  fst kv <> [] /\ forallb query_char (fst kv) = true /\
  match snd kv with Some v => forallb query_char v = true | None => True end.

Definition kv_text (kv : str * option str) : str :=
  match snd kv with
  | None => quote_query_part (fst kv)
  | Some v => quote_query_part (fst kv) ++ EQS :: quote_query_part v
  end.

Lemma query_text_eq q : query_text q = join [AMP] (map kv_text q).
Proof. reflexivity. Qed.

Lemma query_char_nohash c : query_char c = true -> not_in [HASH] c = true.
Proof.
  intro H. apply query_delims_cover in H. unfold not_in, mem in *. cbn [existsb] in *.
  apply negb_true_iff in H. apply negb_true_iff. apply orb_false_iff in H as [H _]. rewrite H. reflexivity.
Qed.

Lemma kv_text_ok kv : kv_ok kv -> kv_text kv <> [] /\ forallb (not_in [HASH]) (kv_text kv) = true.
Proof.
  intros (Hne & Hk & Hv). unfold kv_text, quote_query_part. destruct (snd kv) as [v|].
  - rewrite (quote_with_id _ _ Hk), (quote_with_id _ _ Hv). split.
    + destruct (fst kv); [contradiction|discriminate].
    + rewrite forallb_app'. cbn [forallb].
      rewrite (forallb_impl _ _ _ query_char_nohash Hk), (forallb_impl _ _ _ query_char_nohash Hv). reflexivity.
  - rewrite (quote_with_id _ _ Hk). split; [assumption|].
    exact (forallb_impl _ _ _ query_char_nohash Hk).
Qed.

Lemma forallb_cons {A} (f : A -> bool) x l : forallb f (x :: l) = f x && forallb f l.
Proof. reflexivity. Qed.

Lemma amp_parts_ok l : Forall kv_ok l ->
  forallb (forallb (not_in [HASH])) (map (app [AMP]) (map kv_text l)) = true.
Proof.
  induction 1 as [|kv l Hkv _ IH]; [reflexivity|].
  cbn [map]. rewrite forallb_cons, IH. change ([AMP] ++ kv_text kv) with (AMP :: kv_text kv).
  rewrite forallb_cons. destruct (kv_text_ok kv Hkv) as [_ Hc]. rewrite Hc. reflexivity.
Qed.

Lemma query_text_ok q : Forall kv_ok q ->
  nonempty (query_text q) = nonempty q /\ forallb (not_in [HASH]) (query_text q) = true.
Proof.
  intro H. rewrite query_text_eq. destruct H as [|kv l Hkv Hl]; [split; reflexivity|].
  cbn [map join]. destruct (kv_text_ok kv Hkv) as [Hne Hc]. split.
  - destruct (kv_text kv); [contradiction|reflexivity].
  - rewrite forallb_app', Hc, forallb_concat, (amp_parts_ok l Hl). reflexivity.
Qed.

(* ---- URL object -> RFC components --------------------------------------------------- *)
Definition opt (s : str) : option str := if nonempty s then Some s else None.

Definition uri_of (u : url) : uri :=
  mkUri (opt (u_scheme u)) (opt (authority_text u)) (path_text u)
        (opt (query_text (u_query u))) (opt (quote_fragment_part (u_frag u))).

Lemma opt_render (pre : N) s :
  (if nonempty s then pre :: s else []) = match opt s with Some x => pre :: x | None => [] end.
Proof. unfold opt. destruct (nonempty s); reflexivity. Qed.

(* to_text of a URL with scheme, authority and a rooted (or empty) path *)
Lemma to_text_abs u :
  nonempty (u_scheme u) = true -> nonempty (authority_text u) = true ->
  (path_text u = [] \/ exists t, path_text u = SL :: t) ->
  to_text u = recompose (uri_of u).
Proof.
  intros Hs Ha Hp. unfold to_text, recompose, uri_of, opt. cbn [scheme authority path query fragment].
  cbv zeta. rewrite Hs, Ha. cbn [andb]. rewrite !opt_render. unfold opt.
  f_equal. f_equal.
  destruct Hp as [E|[t E]]; rewrite E; reflexivity.
Qed.

(* to_text of a URL without scheme and authority *)
Lemma to_text_rel u :
  u_scheme u = [] -> authority_text u = [] -> starts_with [SL; SL] (path_text u) = false ->
  to_text u = recompose (uri_of u).
Proof.
  intros Hs Ha Hss. unfold to_text, recompose, uri_of, opt. cbn [scheme authority path query fragment].
  cbv zeta. rewrite Hs, Ha, Hss. cbn [nonempty andb orb app]. rewrite !opt_render. unfold opt.
  destruct (nonempty (path_text u)) eqn:E; [reflexivity|].
  destruct (path_text u); [reflexivity|discriminate].
Qed.

(* ---- well-formed inputs ------------------------------------------------------------------ *)
(* an absolute base URL with an authority, lower-case scheme/host, whose
   components need no quoting; the path is rooted ([""] = empty path) *)
Record wf_base (b : url) : Prop := {
  wb_scheme_ne : u_scheme b <> [];
  wb_scheme_chars : forallb (not_in [COLON; SL; QM; HASH]) (u_scheme b) = true;
  wb_scheme_lower : lower (u_scheme b) = u_scheme b;
  wb_host_ne : u_host b <> [];
  wb_host_lower : lower (u_host b) = u_host b;
  wb_auth_chars : forallb (not_in [SL; QM; HASH]) (authority_text b) = true;
  wb_auth_lower : lower_host (authority_text b) = authority_text b;    (* host part lower case *)
  wb_rooted : exists segs, u_path b = [] :: segs;
  wb_segs : Forall seg_ok (u_path b);
  wb_query : Forall kv_ok (u_query b);
  wb_frag : forallb frag_char (u_frag b) = true }.

(* a relative reference without scheme and authority (RFC 3986 4.2:
   relative-ref with path-absolute / path-noscheme / path-empty) *)
Record wf_ref (r : url) : Prop := {
  wr_scheme : u_scheme r = [];
  wr_user : u_user r = [];
  wr_pass : u_pass r = [];
  wr_host : u_host r = [];
  wr_port : u_port r = None;
  wr_segs : Forall seg_ok (u_path r);
  wr_no_ss : starts_with [SL; SL] (join [SL] (u_path r)) = false;      (* not "//..." *)
  wr_no_colon : first_seg_no_colon (join [SL] (u_path r)) = true;      (* path-noscheme *)
  wr_query : Forall kv_ok (u_query r);
  wr_frag : forallb frag_char (u_frag r) = true }.

Lemma authority_nonempty b : u_host b <> [] -> nonempty (authority_text b) = true.
Proof.
  intro H. unfold authority_text. rewrite nonempty_app. destruct (u_host b) as [|c h]; [contradiction|].
  cbn [nonempty]. destruct (mem COLON (c :: h)); cbn; apply orb_true_r.
Qed.

Lemma nonempty_true {A} (l : list A) : l <> [] -> nonempty l = true.
Proof. destruct l; [contradiction|reflexivity]. Qed.

Lemma opt_some s : s <> [] -> opt s = Some s.
Proof. intro H. unfold opt. rewrite (nonempty_true _ H). reflexivity. Qed.

Lemma opt_spec s : match opt s with Some x => x = s /\ s <> [] | None => s = [] end.
Proof. unfold opt. destruct s; cbn; [reflexivity | split; [reflexivity|discriminate]]. Qed.

Lemma quote_frag_id f : forallb frag_char f = true -> quote_fragment_part f = f.
Proof. apply quote_with_id. Qed.

Lemma opt_query_wf q : Forall kv_ok q ->
  match opt (query_text q) with Some x => forallb (not_in [HASH]) x = true | None => True end.
Proof.
  intro H. pose proof (opt_spec (query_text q)) as S. destruct (opt (query_text q)); [|exact I].
  destruct S as [-> _]. apply query_text_ok. exact H.
Qed.

Lemma base_facts b : wf_base b ->
  exists segs, u_path b = [] :: segs /\ Forall seg_ok segs /\
    uri_of b = mkUri (Some (u_scheme b)) (Some (authority_text b)) (abs_path segs)
                     (opt (query_text (u_query b))) (opt (u_frag b)) /\
    to_text b = recompose (uri_of b) /\ wf_uri (uri_of b).
Proof.
  intro W. destruct (wb_rooted b W) as [segs Hp]. exists segs.
  pose proof (wb_segs b W) as Hsegs. rewrite Hp in Hsegs. inversion Hsegs as [|? ? _ Hs]; subst.
  assert (Hpt : path_text b = abs_path segs).
  { rewrite path_text_join by (rewrite Hp; exact Hsegs). rewrite Hp. apply join_rooted. }
  assert (Hu : uri_of b = mkUri (Some (u_scheme b)) (Some (authority_text b)) (abs_path segs)
                     (opt (query_text (u_query b))) (opt (u_frag b))).
  { unfold uri_of. rewrite Hpt, (quote_frag_id _ (wb_frag b W)), (opt_some _ (wb_scheme_ne b W)).
    unfold opt at 1. rewrite (authority_nonempty b (wb_host_ne b W)). reflexivity. }
  split; [exact Hp|]. split; [exact Hs|]. split; [exact Hu|]. split.
  - apply to_text_abs.
    + apply nonempty_true, (wb_scheme_ne b W).
    + apply authority_nonempty, (wb_host_ne b W).
    + rewrite Hpt. destruct (tail_ok_abs segs) as [E|[t E]]; [left|right; exists t]; exact E.
  - rewrite Hu. constructor; cbn [scheme authority path query fragment].
    + split; [exact (wb_scheme_ne b W) | exact (wb_scheme_chars b W)].
    + exact (wb_auth_chars b W).
    + apply abs_path_chars; [reflexivity|]. eapply Forall_impl; [|exact Hs]. apply seg_ok_path_chars.
    + destruct (tail_ok_abs segs) as [E|[t E]]; [left|right; exists t]; exact E.
    + exact I.
    + apply opt_query_wf, (wb_query b W).
Qed.

Lemma ref_authority r : wf_ref r -> authority_text r = [].
Proof.
  intro W. unfold authority_text. rewrite (wr_user r W), (wr_pass r W), (wr_host r W). reflexivity.
Qed.

Lemma join_chars (P : N -> bool) parts : P SL = true -> Forall (fun s => forallb P s = true) parts ->
  forallb P (join [SL] parts) = true.
Proof.
  intros HP H. destruct H as [|x l Hx Hl]; [reflexivity|].
  cbn [join]. rewrite forallb_app', Hx. cbn [andb]. exact (abs_path_chars P l HP Hl).
Qed.

Lemma ref_facts r : wf_ref r ->
  uri_of r = mkUri None None (join [SL] (u_path r)) (opt (query_text (u_query r))) (opt (u_frag r)) /\
  to_text r = recompose (uri_of r) /\ wf_uri (uri_of r).
Proof.
  intro W.
  assert (Hu : uri_of r = mkUri None None (join [SL] (u_path r)) (opt (query_text (u_query r))) (opt (u_frag r))).
  { unfold uri_of. rewrite (path_text_join r (wr_segs r W)), (quote_frag_id _ (wr_frag r W)),
      (ref_authority r W), (wr_scheme r W). reflexivity. }
  split; [exact Hu|]. split.
  - apply to_text_rel; [exact (wr_scheme r W) | exact (ref_authority r W) |].
    rewrite (path_text_join r (wr_segs r W)). exact (wr_no_ss r W).
  - rewrite Hu. constructor; cbn [scheme authority path query fragment]; try exact I.
    + apply join_chars; [reflexivity|]. eapply Forall_impl; [|exact (wr_segs r W)]. apply seg_ok_path_chars.
    + exact (wr_no_ss r W).
    + exact (wr_no_colon r W).
    + apply opt_query_wf, (wr_query r W).
Qed.

(* ---- what navigate_rel computes, branch by branch ------------------------------------ *)
Definition nav_segs (segs rp : list str) : list str :=
  match rp with
  | [] => segs
  | [] :: [] => segs
  | [] :: rsegs => rsegs
  | _ => removelast segs ++ rp
  end.

Definition nav_query (b r : url) : list (str * option str) :=
  match u_path r with
  | [] | [] :: [] => if is_nil (u_query r) then u_query b else u_query r
  | _ => u_query r
  end.

Lemma seg_ok_first_not_slash c x : seg_ok (c :: x) -> (SL =? c) = false.
Proof.
  intro H. apply seg_ok_noslash, noslash_cons in H as [H _]. apply N.eqb_neq. congruence.
Qed.

Lemma navigate_rel_eq b r segs : wf_base b -> wf_ref r -> u_path b = [] :: segs ->
  navigate_rel b r =
  mkUrl (u_scheme b) false (u_user b) (u_pass b) (u_host b) (u_port b)
        (resolve_path_parts ([] :: nav_segs segs (u_path r))) (nav_query b r) (u_frag r).
Proof.
  intros Wb Wr Hp. unfold navigate_rel.
  rewrite (path_text_join r (wr_segs r Wr)).
  rewrite (wr_scheme r Wr), (wr_user r Wr), (wr_pass r Wr), (wr_host r Wr), (wr_port r Wr).
  cbn [or_str or_port nonempty]. rewrite (nonempty_true _ (wb_host_ne b Wb)). cbn [andb].
  unfold nav_query, nav_segs. pose proof (wr_segs r Wr) as Hsegs.
  unfold normalize, from_parts. cbn [u_scheme u_host u_path u_sep u_user u_pass u_port u_query u_frag].
  rewrite (wb_scheme_lower b Wb), (wb_host_lower b Wb), Hp.
  destruct (u_path r) as [|x rest] eqn:Hr.
  - reflexivity.
  - destruct x as [|c x'].
    + destruct rest as [|s rest']; reflexivity.
    + inversion Hsegs as [|? ? Hx _]; subst.
      change (join [SL] ((c :: x') :: rest)) with (c :: x' ++ abs_path rest).
      unfold starts_with. cbn [strip_prefix]. rewrite (seg_ok_first_not_slash c x' Hx).
      destruct segs as [|s segs']; reflexivity.
Qed.

(* ---- closure: the result is again a well-formed base --------------------------------- *)
Lemma nav_segs_ok segs rp : Forall seg_ok segs -> Forall seg_ok rp -> Forall seg_ok (nav_segs segs rp).
Proof.
  intros Hs Hr. unfold nav_segs. destruct rp as [|x rest]; [exact Hs|].
  destruct x as [|c x'].
  - destruct rest; [exact Hs|]. inversion Hr; assumption.
  - apply Forall_app. split; [apply Forall_removelast; exact Hs | exact Hr].
Qed.

Lemma nav_query_ok b r : Forall kv_ok (u_query b) -> Forall kv_ok (u_query r) -> Forall kv_ok (nav_query b r).
Proof.
  intros Hb Hr. unfold nav_query. destruct (u_path r) as [|x rest]; [destruct (is_nil _); assumption|].
  destruct x; [|assumption]. destruct rest; [destruct (is_nil _)|]; assumption.
Qed.

Theorem navigate_rel_wf b r : wf_base b -> wf_ref r -> wf_base (navigate_rel b r).
Proof.
  intros Wb Wr. destruct (base_facts b Wb) as (segs & Hp & Hsegs & _).
  rewrite (navigate_rel_eq b r segs Wb Wr Hp).
  constructor; cbn [u_scheme u_host u_path u_query u_frag].
  - exact (wb_scheme_ne b Wb).
  - exact (wb_scheme_chars b Wb).
  - exact (wb_scheme_lower b Wb).
  - exact (wb_host_ne b Wb).
  - exact (wb_host_lower b Wb).
  - exact (wb_auth_chars b Wb).
  - exact (wb_auth_lower b Wb).
  - apply resolve_stays_rooted.
  - apply resolve_incl; [exact seg_ok_nil|]. constructor; [exact seg_ok_nil|].
    apply nav_segs_ok; [exact Hsegs | exact (wr_segs r Wr)].
  - apply nav_query_ok; [exact (wb_query b Wb) | exact (wr_query r Wr)].
  - exact (wr_frag r Wr).
Qed.

Lemma nav_uri b r segs : wf_base b -> wf_ref r -> u_path b = [] :: segs ->
  uri_of (navigate_rel b r) =
  mkUri (Some (u_scheme b)) (Some (authority_text b))
        (join [SL] (resolve_path_parts ([] :: nav_segs segs (u_path r))))
        (opt (query_text (nav_query b r))) (opt (u_frag r)).
Proof.
  intros Wb Wr Hp. pose proof (navigate_rel_wf b r Wb Wr) as Wn.
  destruct (base_facts _ Wn) as (segs' & Hp' & _ & Hu & _).
  rewrite Hu. rewrite (navigate_rel_eq b r segs Wb Wr Hp) in *. cbn [u_scheme u_path u_query u_frag] in *.
  rewrite Hp', join_rooted. reflexivity.
Qed.

(* ---- the RFC transformation computes the same components ---------------------------- *)
Lemma rds_abs_path segs : Forall seg_ok segs ->
  remove_dot_segments (abs_path segs) = Some (join [SL] (resolve_path_parts ([] :: segs))).
Proof.
  intro H. rewrite <- join_rooted. apply rds_seg_str.
  eapply Forall_impl; [|exact H]. apply seg_ok_noslash.
Qed.

Lemma up_to_last_slash_abs segs : segs <> [] -> Forall noslash segs ->
  up_to_last_slash (abs_path segs) = abs_path (removelast segs) ++ [SL].
Proof.
  intros Hne H. destruct (list_last_case segs) as [->|(l & a & ->)]; [contradiction|].
  rewrite removelast_last, abs_path_snoc. unfold up_to_last_slash.
  rewrite rev_app_distr. cbn [rev]. rewrite <- app_assoc. cbn [app].
  apply Forall_app in H as [_ Ha]. inversion Ha as [|? ? Ha' _]; subst.
  rewrite (span_all not_slash (rev a) (SL :: rev (abs_path l))).
  - cbn [snd rev]. rewrite rev_involutive. reflexivity.
  - rewrite forallb_rev. exact Ha'.
  - reflexivity.
Qed.

Lemma query_opt_or qb qr : Forall kv_ok qr ->
  match opt (query_text qr) with Some q => Some q | None => opt (query_text qb) end =
  opt (query_text (if is_nil qr then qb else qr)).
Proof.
  intro H. destruct (query_text_ok qr H) as [Hne _]. destruct qr as [|kv l]; [reflexivity|].
  cbn [is_nil]. unfold opt. rewrite Hne. reflexivity.
Qed.

Theorem nav_transform b r : wf_base b -> wf_ref r ->
  transform (uri_of b) (uri_of r) = Some (uri_of (navigate_rel b r)).
Proof.
  intros Wb Wr. destruct (base_facts b Wb) as (segs & Hp & Hsegs & Hub & _).
  destruct (ref_facts r Wr) as (Hur & _).
  rewrite (nav_uri b r segs Wb Wr Hp), Hub, Hur.
  unfold transform, transform_gen. cbn [scheme authority path query fragment].
  unfold nav_query, nav_segs. pose proof (wr_segs r Wr) as Hrs.
  destruct (u_path r) as [|x rest] eqn:Hr.
  - cbn [join]. rewrite (rds_abs_path segs Hsegs), (query_opt_or _ _ (wr_query r Wr)). reflexivity.
  - destruct x as [|c x'].
    + destruct rest as [|s rest'].
      * cbn [join map concat app]. rewrite (rds_abs_path segs Hsegs), (query_opt_or _ _ (wr_query r Wr)).
        reflexivity.
      * change (join [SL] ([] :: s :: rest')) with (abs_path (s :: rest')).
        rewrite abs_path_cons at 1. change (SL =? SL) with true. cbn iota.
        inversion Hrs as [|? ? _ Hrs']; subst.
        rewrite (rds_abs_path (s :: rest') Hrs'). reflexivity.
    + inversion Hrs as [|? ? Hx Hrest]; subst.
      change (join [SL] ((c :: x') :: rest)) with (c :: x' ++ abs_path rest).
      cbv iota beta. rewrite N.eqb_sym, (seg_ok_first_not_slash c x' Hx).
      assert (Hm : merge {| scheme := Some (u_scheme b); authority := Some (authority_text b);
                            path := abs_path segs; query := opt (query_text (u_query b));
                            fragment := opt (u_frag b) |} (c :: x' ++ abs_path rest)
                   = abs_path (removelast segs ++ (c :: x') :: rest)).
      { unfold merge. cbn [authority path]. destruct segs as [|s segs'].
        - reflexivity.
        - rewrite abs_path_cons at 1. rewrite <- abs_path_cons.
          rewrite up_to_last_slash_abs; [|discriminate|].
          + rewrite abs_path_app, <- app_assoc. reflexivity.
          + eapply Forall_impl; [|exact Hsegs]. apply seg_ok_noslash. }
      rewrite Hm, rds_abs_path; [reflexivity|].
      apply Forall_app. split; [apply Forall_removelast; exact Hsegs | exact Hrs].
Qed.

(* ---- the main theorem --------------------------------------------------------------------- *)
Lemma canon_recompose u : wf_uri u -> canon (recompose u) = recompose (root_if_empty u).
Proof. intro W. unfold canon. rewrite (parse_recompose u W). reflexivity. Qed.

Lemma strict_implies base ref result :
  spec_navigate_strict base ref result = true -> spec_navigate base ref result = true.
Proof.
  unfold spec_navigate_strict, spec_navigate. destruct (target base ref); [|discriminate].
  intro H. apply str_eqb_eq in H. rewrite H. apply str_eqb_refl.
Qed.

Theorem navigate_refines_rfc_strict b r : wf_base b -> wf_ref r ->
  spec_navigate_strict (to_text b) (to_text r) (to_text (navigate_rel b r)) = true.
Proof.
  intros Wb Wr. pose proof (navigate_rel_wf b r Wb Wr) as Wn.
  destruct (base_facts b Wb) as (_ & _ & _ & _ & Tb & Ub).
  destruct (base_facts _ Wn) as (_ & _ & _ & _ & Tn & Un).
  destruct (ref_facts r Wr) as (_ & Tr & Ur).
  unfold spec_navigate_strict, target. rewrite Tb, Tr, Tn.
  rewrite (parse_recompose _ Ub), (parse_recompose _ Ur), (nav_transform b r Wb Wr).
  rewrite (canon_recompose _ Un). apply str_eqb_refl.
Qed.

Theorem navigate_refines_rfc b r : wf_base b -> wf_ref r ->
  spec_navigate (to_text b) (to_text r) (to_text (navigate_rel b r)) = true.
Proof. intros Wb Wr. apply strict_implies, navigate_refines_rfc_strict; assumption. Qed.

Corollary navigate_target b r : wf_base b -> wf_ref r ->
  target (to_text b) (to_text r) = Some (canon (to_text (navigate_rel b r))).
Proof.
  intros Wb Wr. pose proof (navigate_refines_rfc_strict b r Wb Wr) as H. unfold spec_navigate_strict in H.
  destruct (target (to_text b) (to_text r)) as [t|]; [|discriminate].
  apply str_eqb_eq in H. congruence.
Qed.

(* the result is clean: no dot segments, rooted *)
Theorem navigate_clean b r : wf_base b -> wf_ref r ->
  exists segs, u_path (navigate_rel b r) = [] :: segs /\
               Forall (fun s => is_dot_seg s = false) (u_path (navigate_rel b r)).
Proof.
  intros Wb Wr. destruct (base_facts b Wb) as (segs & Hp & _).
  rewrite (navigate_rel_eq b r segs Wb Wr Hp). cbn [u_path].
  destruct (resolve_stays_rooted (nav_segs segs (u_path r))) as [s' E].
  exists s'. split; [exact E | apply resolve_clean].
Qed.

(* ---- absolute destination: replaces the base entirely, normalised ------------------- *)
Definition navigate_url (self dest : url) : url :=
  if is_absolute_dest dest then normalize dest else navigate_rel self dest.

Lemma navigate_text_url self t :
  navigate self t false =
  match url_of_text t with Some dest => Some (navigate_url self dest) | None => None end.
Proof.
  unfold navigate, navigate_url. destruct (url_of_text t) as [d|]; [|reflexivity].
  destruct (is_absolute_dest d); reflexivity.
Qed.

Lemma authority_text_normalize d : wf_base d -> authority_text (normalize d) = authority_text d.
Proof.
  intro W. unfold authority_text, normalize. cbn [u_user u_pass u_host u_port u_scheme].
  rewrite (wb_scheme_lower d W), (wb_host_lower d W). reflexivity.
Qed.

Theorem normalize_wf d : wf_base d -> wf_base (normalize d).
Proof.
  intro W. destruct (base_facts d W) as (segs & Hp & Hsegs & _).
  constructor; try rewrite (authority_text_normalize d W);
    unfold normalize; cbn [u_scheme u_host u_path u_query u_frag];
    rewrite ?(wb_scheme_lower d W), ?(wb_host_lower d W).
  - exact (wb_scheme_ne d W).
  - exact (wb_scheme_chars d W).
  - reflexivity.
  - exact (wb_host_ne d W).
  - reflexivity.
  - exact (wb_auth_chars d W).
  - exact (wb_auth_lower d W).
  - rewrite Hp. apply resolve_stays_rooted.
  - apply resolve_incl; [exact seg_ok_nil | exact (wb_segs d W)].
  - exact (wb_query d W).
  - exact (wb_frag d W).
Qed.

Lemma normalize_uri d segs : wf_base d -> u_path d = [] :: segs ->
  uri_of (normalize d) =
  mkUri (Some (u_scheme d)) (Some (authority_text d)) (join [SL] (resolve_path_parts ([] :: segs)))
        (opt (query_text (u_query d))) (opt (u_frag d)).
Proof.
  intros W Hp. destruct (base_facts _ (normalize_wf d W)) as (segs' & Hp' & _ & Hu & _).
  rewrite Hu, (authority_text_normalize d W). unfold normalize in *.
  cbn [u_scheme u_path u_query u_frag] in *. rewrite (wb_scheme_lower d W).
  rewrite Hp in Hp'. rewrite Hp', join_rooted. reflexivity.
Qed.

Theorem navigate_abs_refines_rfc_strict b d : wf_base b -> wf_base d ->
  spec_navigate_strict (to_text b) (to_text d) (to_text (normalize d)) = true.
Proof.
  intros Wb Wd. pose proof (normalize_wf d Wd) as Wn.
  destruct (base_facts b Wb) as (_ & _ & _ & _ & Tb & Ub).
  destruct (base_facts d Wd) as (segs & Hp & Hsegs & Hud & Td & Ud).
  destruct (base_facts _ Wn) as (_ & _ & _ & _ & Tn & Un).
  unfold spec_navigate_strict, target. rewrite Tb, Td, Tn.
  rewrite (parse_recompose _ Ub), (parse_recompose _ Ud), (canon_recompose _ Un).
  rewrite (normalize_uri d segs Wd Hp), Hud.
  unfold transform, transform_gen. cbn [scheme authority path query fragment].
  rewrite (rds_abs_path segs Hsegs). apply str_eqb_refl.
Qed.

Lemma wf_base_absolute d : wf_base d -> is_absolute_dest d = true.
Proof.
  intro W. unfold is_absolute_dest.
  rewrite (nonempty_true _ (wb_scheme_ne d W)), (nonempty_true _ (wb_host_ne d W)). reflexivity.
Qed.

Lemma wf_ref_relative r : wf_ref r -> is_absolute_dest r = false.
Proof. intro W. unfold is_absolute_dest. rewrite (wr_scheme r W). reflexivity. Qed.

Theorem navigate_url_refines_rfc_strict b d : wf_base b -> wf_ref d \/ wf_base d ->
  spec_navigate_strict (to_text b) (to_text d) (to_text (navigate_url b d)) = true.
Proof.
  intros Wb [Wd|Wd]; unfold navigate_url.
  - rewrite (wf_ref_relative d Wd). apply navigate_refines_rfc_strict; assumption.
  - rewrite (wf_base_absolute d Wd). apply navigate_abs_refines_rfc_strict; assumption.
Qed.

Theorem navigate_url_refines_rfc b d : wf_base b -> wf_ref d \/ wf_base d ->
  spec_navigate (to_text b) (to_text d) (to_text (navigate_url b d)) = true.
Proof. intros Wb Wd. apply strict_implies, navigate_url_refines_rfc_strict; assumption. Qed.

Theorem navigate_url_wf b d : wf_base b -> wf_ref d \/ wf_base d -> wf_base (navigate_url b d).
Proof.
  intros Wb [Wd|Wd]; unfold navigate_url.
  - rewrite (wf_ref_relative d Wd). apply navigate_rel_wf; assumption.
  - rewrite (wf_base_absolute d Wd). apply normalize_wf; assumption.
Qed.

(* ---- chaining: navigate(r1).navigate(r2) = resolving step by step -------------------- *)
(* the same URL with "/" written for an empty path *)
Definition rootify (u : url) : url :=
  match u_path u with
  | [] :: [] => mkUrl (u_scheme u) (u_sep u) (u_user u) (u_pass u) (u_host u) (u_port u)
                      [[]; []] (u_query u) (u_frag u)
  | _ => u
  end.

Lemma rootify_wf u : wf_base u -> wf_base (rootify u).
Proof.
  intro W. unfold rootify. destruct (u_path u) as [|x rest] eqn:Hp; [exact W|].
  destruct x; [|exact W]. destruct rest; [|exact W].
  constructor; cbn [u_scheme u_host u_path u_query u_frag].
  - exact (wb_scheme_ne u W).
  - exact (wb_scheme_chars u W).
  - exact (wb_scheme_lower u W).
  - exact (wb_host_ne u W).
  - exact (wb_host_lower u W).
  - exact (wb_auth_chars u W).
  - exact (wb_auth_lower u W).
  - eexists; reflexivity.
  - repeat constructor.
  - exact (wb_query u W).
  - exact (wb_frag u W).
Qed.

Lemma rootify_text u : wf_base u -> to_text (rootify u) = canon (to_text u).
Proof.
  intro W. pose proof (rootify_wf u W) as Wr.
  destruct (base_facts u W) as (segs & Hp & _ & Hu & Tu & Uu).
  destruct (base_facts _ Wr) as (segs' & Hp' & _ & Hu' & Tr & _).
  rewrite Tr, Tu, (canon_recompose _ Uu), Hu', Hu. unfold rootify in *. rewrite Hp in *.
  destruct segs as [|s segs1].
  - cbn [u_path u_scheme u_query u_frag] in *. inversion Hp'; subst. reflexivity.
  - rewrite Hp in Hp'. inversion Hp'; subst. reflexivity.
Qed.

Lemma navigate_rootify u r : wf_base u -> wf_ref r ->
  canon (to_text (navigate_rel (rootify u) r)) = canon (to_text (navigate_rel u r)).
Proof.
  intros W Wr. pose proof (rootify_wf u W) as Wu'.
  destruct (base_facts u W) as (segs & Hp & _).
  unfold rootify in *. rewrite Hp in *. destruct segs as [|s segs1]; [|reflexivity].
  set (u' := mkUrl (u_scheme u) (u_sep u) (u_user u) (u_pass u) (u_host u) (u_port u)
                   [[]; []] (u_query u) (u_frag u)) in *.
  pose proof (navigate_rel_wf u r W Wr) as Wn. pose proof (navigate_rel_wf u' r Wu' Wr) as Wn'.
  destruct (base_facts _ Wn) as (_ & _ & _ & _ & Tn & Un).
  destruct (base_facts _ Wn') as (_ & _ & _ & _ & Tn' & Un').
  rewrite Tn, Tn', (canon_recompose _ Un), (canon_recompose _ Un').
  rewrite (nav_uri u r [] W Wr Hp), (nav_uri u' r [[]] Wu' Wr eq_refl).
  change (authority_text u') with (authority_text u). unfold nav_query.
  cbn [u_scheme u_query u_frag u_path u']. unfold nav_segs.
  destruct (u_path r) as [|x rest]; [reflexivity|].
  destruct x as [|c x']; [destruct rest; reflexivity|reflexivity].
Qed.

Theorem navigate_chain b r1 r2 : wf_base b -> wf_ref r1 -> wf_ref r2 ->
  spec_chain (to_text b) (to_text r1) (to_text r2)
             (to_text (navigate_rel (navigate_rel b r1) r2)) = true.
Proof.
  intros Wb W1 W2. pose proof (navigate_rel_wf b r1 Wb W1) as Wn1.
  unfold spec_chain. rewrite (navigate_target b r1 Wb W1), <- (rootify_text _ Wn1).
  unfold spec_navigate. rewrite (navigate_target _ r2 (rootify_wf _ Wn1) W2).
  rewrite (navigate_rootify _ r2 Wn1 W2). apply str_eqb_refl.
Qed.
