(* C09: the split_iter scanner = str.split on lists (explicit separators and
   sep=None grouping), for every maxsplit. *)
From Boltons Require Import Lib.Prelude Spec.C09_Spec Model.C09_Model.

Definition msub (m : option nat) (cnt : nat) : option nat :=
  match m with None => None | Some k => Some (k - cnt) end.

Lemma can_split_msub m cnt : can_split (msub m cnt) = negb (limit_reached m cnt).
Proof.
  destruct m as [k|]; cbn [msub can_split limit_reached negb]; [|reflexivity].
  destruct (k <=? cnt) eqn:E.
  - apply Nat.leb_le in E. replace (k - cnt) with 0 by lia. reflexivity.
  - apply Nat.leb_gt in E. destruct (k - cnt) eqn:E2; [lia|reflexivity].
Qed.

Lemma dec_split_msub m cnt : dec_split (msub m cnt) = msub m (S cnt).
Proof. destruct m as [k|]; cbn [msub dec_split]; [|reflexivity]. f_equal. lia. Qed.

Lemma msub_0 m : msub m 0 = m.
Proof. destruct m; cbn [msub]; [|reflexivity]. f_equal. lia. Qed.

(* ======================== explicit separators ============================ *)
Section Explicit.
  Variable sepf : K -> bool.
  Variable m : option nat.

  Lemma py_split_nonempty : forall mm l, py_split sepf mm l <> [].
  Proof.
    intros mm l. revert mm. induction l as [|x r IH]; intro mm; cbn [py_split]; [discriminate|].
    destruct (sepf x && can_split mm); [discriminate|].
    destruct (py_split sepf mm r); discriminate.
  Qed.

  Lemma py_split_off : forall mm l, can_split mm = false -> py_split sepf mm l = [l].
  Proof.
    intros mm l H. induction l as [|x r IH]; cbn [py_split]; [reflexivity|].
    rewrite H, andb_false_r, IH. reflexivity.
  Qed.

  Lemma split_off : forall l active cur cnt,
    limit_reached m cnt = true ->
    split_loop sepf false m active cur cnt l = [cur ++ l].
  Proof.
    induction l as [|s r IH]; intros active cur cnt H; cbn [split_loop].
    - rewrite orb_true_r, app_nil_r. reflexivity.
    - rewrite H. cbn [negb]. rewrite orb_true_r. cbn [andb].
      rewrite IH by exact H. rewrite <- app_assoc. reflexivity.
  Qed.

  Definition prepend (cur : list K) (gs : list (list K)) : list (list K) :=
    match gs with g :: gs' => (cur ++ g) :: gs' | [] => [cur] end.

  Lemma split_loop_explicit : forall l cur cnt,
    split_loop sepf false m true cur cnt l = prepend cur (py_split sepf (msub m cnt) l).
  Proof.
    induction l as [|s r IH]; intros cur cnt.
    - cbn [split_loop py_split prepend]. rewrite orb_true_r. rewrite app_nil_r. reflexivity.
    - destruct (limit_reached m cnt) eqn:L.
      + rewrite split_off by exact L.
        rewrite py_split_off by (rewrite can_split_msub, L; reflexivity). reflexivity.
      + cbn [split_loop py_split]. rewrite L. cbn [andb].
        rewrite can_split_msub, L. cbn [negb]. rewrite andb_true_r.
        destruct (sepf s) eqn:Hs.
        * cbn [andb]. rewrite IH, dec_split_msub. cbn [prepend]. rewrite app_nil_r.
          destruct (py_split sepf (msub m (S cnt)) r) eqn:E.
          -- exfalso. exact (py_split_nonempty _ _ E).
          -- reflexivity.
        * rewrite IH.
          destruct (py_split sepf (msub m cnt) r) eqn:E.
          -- exfalso. exact (py_split_nonempty _ _ E).
          -- cbn [prepend]. rewrite <- app_assoc. reflexivity.
  Qed.
End Explicit.

(* ======================== sep=None grouping ============================== *)
Section Whitespace.
  Variable sepf : K -> bool.
  Variable m : option nat.
  Let nonsep := fun x => negb (sepf x).

  Lemma dropwhile_length_le {A} (p : A -> bool) l : length (dropwhile p l) <= length l.
  Proof. induction l as [|x r IH]; cbn [dropwhile length]; [lia|]. destruct (p x); cbn [length]; lia. Qed.

  Lemma dropwhile_head_false {A} (p : A -> bool) l y r : dropwhile p l = y :: r -> p y = false.
  Proof.
    induction l as [|x l IH]; cbn [dropwhile]; [discriminate|].
    destruct (p x) eqn:E; [exact IH|]. intro H. injection H as <- _. exact E.
  Qed.

  Lemma ws_fuel_irrel : forall f1 f2 mm l,
    length l < f1 -> length l < f2 ->
    py_split_ws_fuel f1 sepf mm l = py_split_ws_fuel f2 sepf mm l.
  Proof.
    induction f1 as [|f1 IH]; intros f2 mm l H1 H2; [lia|].
    destruct f2 as [|f2]; [lia|]. cbn [py_split_ws_fuel].
    destruct (dropwhile sepf l) as [|y rest] eqn:E; [reflexivity|].
    destruct (can_split mm); [|reflexivity]. f_equal.
    pose proof (dropwhile_head_false _ _ _ _ E) as Hy.
    pose proof (dropwhile_length_le sepf l) as Hl. rewrite E in Hl. cbn [length] in Hl.
    assert (Hd : length (dropwhile (fun x => negb (sepf x)) (y :: rest)) <= length rest).
    { cbn [dropwhile]. rewrite Hy. cbn [negb]. apply dropwhile_length_le. }
    apply IH; lia.
  Qed.

  (* one unfolding of the reference, free of fuel *)
  Lemma ws_unfold mm l :
    py_split_ws sepf mm l =
    match dropwhile sepf l with
    | [] => []
    | rest => if can_split mm
              then takewhile nonsep rest :: py_split_ws sepf (dec_split mm) (dropwhile nonsep rest)
              else [rest]
    end.
  Proof.
    unfold py_split_ws at 1. cbn [py_split_ws_fuel].
    destruct (dropwhile sepf l) as [|y rest] eqn:E; [reflexivity|].
    destruct (can_split mm); [|reflexivity]. f_equal. unfold py_split_ws.
    pose proof (dropwhile_head_false _ _ _ _ E) as Hy.
    pose proof (dropwhile_length_le sepf l) as Hl. rewrite E in Hl. cbn [length] in Hl.
    assert (Hd : length (dropwhile nonsep (y :: rest)) <= length rest).
    { cbn [dropwhile]. unfold nonsep at 1. rewrite Hy. cbn [negb]. apply dropwhile_length_le. }
    apply ws_fuel_irrel; fold nonsep; lia.
  Qed.

  Lemma ws_nil mm : py_split_ws sepf mm [] = [].
  Proof. reflexivity. Qed.

  Lemma ws_skip mm s r : sepf s = true -> py_split_ws sepf mm (s :: r) = py_split_ws sepf mm r.
  Proof. intro H. rewrite (ws_unfold mm (s :: r)), (ws_unfold mm r). cbn [dropwhile]. rewrite H. reflexivity. Qed.

  (* limit reached and the last group has begun: everything else is appended *)
  Lemma ws_off : forall l active cur cnt,
    cur <> [] -> limit_reached m cnt = true ->
    split_loop sepf true m active cur cnt l = [cur ++ l].
  Proof.
    induction l as [|s r IH]; intros active cur cnt Hc H; cbn [split_loop].
    - destruct cur; [congruence|]. cbn [is_nil negb orb]. rewrite app_nil_r. reflexivity.
    - rewrite H. destruct cur as [|c cs]; [congruence|]. cbn [is_nil negb orb andb].
      rewrite IH; [|destruct cs; discriminate|exact H].
      rewrite <- app_assoc. reflexivity.
  Qed.

  Lemma split_loop_ws : forall l,
    (forall cnt, split_loop sepf true m true [] cnt l = py_split_ws sepf (msub m cnt) l)
    /\ (forall cnt cur, cur <> [] -> limit_reached m cnt = false ->
          split_loop sepf true m true cur cnt l
          = (cur ++ takewhile nonsep l) :: py_split_ws sepf (msub m (S cnt)) (dropwhile nonsep l)).
  Proof.
    unfold nonsep.
    induction l as [|s r [IHA IHB]]; split.
    - intro cnt. reflexivity.
    - intros cnt cur Hc _. cbn [split_loop takewhile dropwhile]. destruct cur; [congruence|].
      cbn [is_nil negb orb]. rewrite app_nil_r, ws_nil. reflexivity.
    - (* A, s :: r *)
      intro cnt. cbn [split_loop is_nil negb orb]. rewrite andb_false_r.
      destruct (sepf s) eqn:Hs.
      + cbn [andb]. rewrite IHA, ws_skip by exact Hs. reflexivity.
      + cbn [andb app]. rewrite (ws_unfold (msub m cnt) (s :: r)). cbn [dropwhile]. rewrite Hs.
        rewrite can_split_msub. destruct (limit_reached m cnt) eqn:L; cbn [negb].
        * rewrite ws_off; [reflexivity|discriminate|exact L].
        * rewrite IHB; [|discriminate|exact L].
          unfold nonsep. cbn [takewhile dropwhile]. rewrite Hs. cbn [negb].
          rewrite dec_split_msub. reflexivity.
    - (* B, s :: r *)
      intros cnt cur Hc L. cbn [split_loop]. rewrite L. cbn [andb].
      destruct cur as [|c cs]; [congruence|]. cbn [is_nil andb].
      cbn [takewhile dropwhile].
      destruct (sepf s) eqn:Hs; cbn [negb].
      + rewrite IHA, ws_skip by exact Hs. rewrite app_nil_r. reflexivity.
      + rewrite IHB; [|destruct cs; discriminate|exact L].
        rewrite <- app_assoc. reflexivity.
  Qed.
End Whitespace.

(* ======================== the public function ============================ *)
Lemma m_split_spec sep m src : m_split sep m src = spec_split sep m src.
Proof.
  unfold m_split, spec_split.
  destruct sep as [|v|vs|vs].
  - destruct (split_loop_ws (sep_pred SepNone) m src) as [A _].
    rewrite A, msub_0. reflexivity.
  - rewrite split_loop_explicit, msub_0. unfold prepend.
    destruct (py_split _ m src) eqn:E; [exfalso; exact (py_split_nonempty _ _ _ E)|reflexivity].
  - rewrite split_loop_explicit, msub_0. unfold prepend.
    destruct (py_split _ m src) eqn:E; [exfalso; exact (py_split_nonempty _ _ _ E)|reflexivity].
  - rewrite split_loop_explicit, msub_0. unfold prepend.
    destruct (py_split _ m src) eqn:E; [exfalso; exact (py_split_nonempty _ _ _ E)|reflexivity].
Qed.

(* ======================== laws of the reference ========================== *)
(* Without maxsplit the pieces contain no separator and, concatenated, are the
   input with the separators removed: elements and order are conserved. *)
Section Laws.
  Variable sepf : K -> bool.
  Let nonsep := fun x => negb (sepf x).

  Lemma py_split_concat : forall l, concat (py_split sepf None l) = filter nonsep l.
  Proof.
    induction l as [|x r IH]; [reflexivity|].
    cbn [py_split can_split dec_split filter]. rewrite andb_true_r. unfold nonsep at 1.
    destruct (sepf x); cbn [negb].
    - cbn [concat app]. exact IH.
    - destruct (py_split sepf None r) eqn:E; [exfalso; exact (py_split_nonempty _ _ _ E)|].
      cbn [concat app] in *. rewrite IH. reflexivity.
  Qed.

  Lemma py_split_no_sep : forall l, forallb (forallb nonsep) (py_split sepf None l) = true.
  Proof.
    induction l as [|x r IH]; [reflexivity|].
    cbn [py_split can_split dec_split]. rewrite andb_true_r.
    destruct (sepf x) eqn:Hs.
    - cbn [forallb]. exact IH.
    - destruct (py_split sepf None r) eqn:E; [exfalso; exact (py_split_nonempty _ _ _ E)|].
      cbn [forallb] in *. unfold nonsep at 1. rewrite Hs. exact IH.
  Qed.

  (* one more piece than there are separators *)
  Lemma py_split_count : forall l,
    length (py_split sepf None l) = S (length (filter sepf l)).
  Proof.
    induction l as [|x r IH]; [reflexivity|].
    cbn [py_split can_split dec_split filter]. rewrite andb_true_r.
    destruct (sepf x).
    - cbn [length]. rewrite IH. reflexivity.
    - destruct (py_split sepf None r) eqn:E; [exfalso; exact (py_split_nonempty _ _ _ E)|].
      cbn [length] in *. exact IH.
  Qed.

  (* maxsplit bounds the number of cuts *)
  Lemma py_split_maxsplit : forall l k, length (py_split sepf (Some k) l) <= S k.
  Proof.
    induction l as [|x r IH]; intro k; [cbn; lia|].
    cbn [py_split]. destruct (sepf x && can_split (Some k)) eqn:E.
    - apply andb_true_iff in E as [_ E]. destruct k as [|k]; [discriminate|].
      cbn [dec_split pred length]. specialize (IH k). lia.
    - destruct (py_split sepf (Some k) r) eqn:E2; [cbn; lia|].
      specialize (IH k). rewrite E2 in IH. cbn [length] in *. lia.
  Qed.

  (* whatever maxsplit, nothing but separators is lost and order is kept:
     the non-separators of the pieces are the non-separators of the input *)
  Lemma py_split_conserves : forall l mm,
    filter nonsep (concat (py_split sepf mm l)) = filter nonsep l.
  Proof.
    induction l as [|x r IH]; intro mm; [reflexivity|].
    cbn [py_split]. destruct (sepf x && can_split mm) eqn:E.
    - apply andb_true_iff in E as [E _]. cbn [concat app filter]. unfold nonsep at 2. rewrite E.
      cbn [negb]. apply IH.
    - destruct (py_split sepf mm r) eqn:E2; [exfalso; exact (py_split_nonempty _ _ _ E2)|].
      specialize (IH mm). rewrite E2 in IH. cbn [concat app filter] in *.
      destruct (nonsep x); [f_equal|]; exact IH.
  Qed.
End Laws.
