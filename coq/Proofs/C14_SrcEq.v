(* (T) tie: the Gallina text regenerated from the current source of
   strutils.format_int_list (Gen/C14_Src.v, harness/translators/c14_src.py)
   computes the same function as the hand-written model the theorems are about. *)
From Boltons Require Import Lib.Prelude Lib.C14_Text Model.C14_Model Gen.C14_Src.
Open Scope Z_scope.

(* boolean comparisons in the context -> propositions for lia *)
Ltac b2p := repeat match goal with
  | H : (_ =? _) = true |- _ => apply Z.eqb_eq in H
  | H : (_ =? _) = false |- _ => apply Z.eqb_neq in H
  | H : (_ <? _) = true |- _ => apply Z.ltb_lt in H
  | H : (_ <? _) = false |- _ => apply Z.ltb_ge in H
  | H : (_ <=? _) = true |- _ => apply Z.leb_le in H
  | H : (_ <=? _) = false |- _ => apply Z.leb_gt in H
  | H : (_ >? _) = true |- _ => rewrite Z.gtb_ltb in H; apply Z.ltb_lt in H
  | H : (_ >? _) = false |- _ => rewrite Z.gtb_ltb in H; apply Z.ltb_ge in H
  | H : (_ >=? _) = true |- _ => rewrite Z.geb_leb in H; apply Z.leb_le in H
  | H : (_ >=? _) = false |- _ => rewrite Z.geb_leb in H; apply Z.leb_gt in H
  end.
(* split on every test of either side, then the two sides are syntactically equal or the
   combination of tests is contradictory: tolerant to equivalent re-spellings of the
   comparisons in the source *)
Ltac split_ifs := repeat match goal with |- context [if ?c then _ else _] => destruct c eqn:? end.

Section SrcEq.
  Variables delim rdelim : text.

  (* the model loop as a fold *)
  Definition mstep (st : list Z * list text) (x : Z) : list Z * list text :=
    let '(contig, output) := st in
    match contig with
    | [] => ([x], output)
    | [a] =>
        let delta := x - a in
        if delta =? 1 then ([a; x], output)
        else if 1 <? delta then ([x], output ++ [decZ a])
        else (contig, output)
    | _ =>
        let delta := x - last contig 0 in
        if delta =? 1 then (contig ++ [x], output)
        else if 1 <? delta then ([x], output ++ [range_substr rdelim contig])
        else (contig, output)
    end.

  Definition mfinal (st : list Z * list text) : list text :=
    let '(contig, output) := st in
    match contig with
    | [] => output
    | [a] => output ++ [decZ a]
    | _ => output ++ [range_substr rdelim contig]
    end.

  Lemma fmt_loop_fold xs : forall c o, fmt_loop rdelim xs c o = mfinal (fold_left mstep xs (c, o)).
  Proof.
    induction xs as [|x r IH]; intros c o.
    - destruct c as [|a [|b t]]; reflexivity.
    - cbn [fold_left]. destruct c as [|a [|b t]].
      + cbn [fmt_loop mstep]. apply IH.
      + cbn [fmt_loop mstep]. destruct (x - a =? 1); [apply IH|]. destruct (1 <? x - a); apply IH.
      + cbn [fmt_loop mstep]. destruct (x - last (a :: b :: t) 0 =? 1); [apply IH|].
        destruct (1 <? x - last (a :: b :: t) 0); apply IH.
  Qed.

  Lemma nth_last (l : list Z) d : l <> [] -> nth (length l - 1) l d = last l d.
  Proof.
    induction l as [|a t IH]; intro H; [congruence|].
    destruct t as [|b t']; [reflexivity|].
    specialize (IH ltac:(discriminate)).
    change (last (a :: b :: t') d) with (last (b :: t') d). rewrite <- IH.
    cbn [length]. replace (S (S (length t')) - 1)%nat with (S (length t')) by lia.
    replace (S (length t') - 1)%nat with (length t') by lia. reflexivity.
  Qed.

  Lemma src_idx_last l : l <> [] -> src_idx l (- 1) = last l 0.
  Proof. intro H. unfold src_idx. cbn. apply nth_last. exact H. Qed.

  Lemma src_len2 a b t :
    (src_len (a :: b :: t) <? 1) = false /\ (src_len (a :: b :: t) >? 1) = true /\ (src_len (a :: b :: t) =? 1) = false.
  Proof.
    unfold src_len. cbn [length]. repeat split.
    - apply Z.ltb_ge. lia.
    - rewrite Z.gtb_ltb. apply Z.ltb_lt. lia.
    - apply Z.eqb_neq. lia.
  Qed.

  Theorem src_format_int_list_eq L space :
    src_format_int_list L delim rdelim space = format_int_list delim rdelim L space.
  Proof.
    unfold src_format_int_list, format_int_list.
    rewrite fmt_loop_fold.
    match goal with |- context [fold_left ?f (sortZ L) ?i] => set (F := f); set (I0 := i) end.
    assert (Hstep : forall xs st,
               (let '(c', _, o') := fold_left F xs st in (c', o')) = fold_left mstep xs (fst (fst st), snd st)).
    { induction xs as [|x r IH]; intros [[c rs] o]; [reflexivity|]. cbn [fst snd].
      cbn [fold_left].
      assert (E : exists rs', F (c, rs, o) x = (fst (mstep (c, o) x), rs', snd (mstep (c, o) x))).
      { destruct c as [|a [|b t]]; subst F; cbn [mstep fst snd]; cbv beta iota zeta;
          unfold src_len, src_hd, range_substr; cbn [length hd tl app];
          try rewrite src_idx_last by discriminate;
          split_ifs; first [eexists; reflexivity | exfalso; b2p; lia]. }
      destruct E as [rs' E]. rewrite E. rewrite IH. cbn [fst snd]. destruct (mstep (c, o) x). reflexivity. }
    specialize (Hstep (sortZ L) I0).
    destruct (fold_left F (sortZ L) I0) as [[c rs] o]. subst I0. cbn [fst snd] in Hstep.
    match goal with |- _ = join _ (mfinal ?st) => replace st with (c, o) by exact Hstep end.
    cbn [mfinal].
    destruct c as [|a [|b t]]; cbv beta iota zeta; unfold src_len, src_hd, range_substr; cbn [length hd tl app];
      split_ifs; first [reflexivity | exfalso; b2p; lia].
  Qed.
End SrcEq.
