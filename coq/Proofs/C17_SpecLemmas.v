(* Reflection lemmas for the boolean Spec (C17) and the bridge between the
   Spec's relations and the model's dictionaries. *)
From Coq Require Import Permutation.
From Boltons Require Import Lib.Prelude Model.C17_Model Spec.C17_Spec Proofs.C17_Dict.

Definition EqSet (a b : rel) : Prop := forall p, In p a <-> In p b.

Lemma EqSet_refl a : EqSet a a.
Proof. intro p. tauto. Qed.
Lemma EqSet_sym a b : EqSet a b -> EqSet b a.
Proof. intros H p. symmetry. apply H. Qed.
Lemma EqSet_trans a b c : EqSet a b -> EqSet b c -> EqSet a c.
Proof. intros H1 H2 p. rewrite (H1 p). apply H2. Qed.

Lemma existsb_EqSet (f : pair -> bool) a b : EqSet a b -> existsb f a = existsb f b.
Proof.
  intro H. destruct (existsb f b) eqn:E.
  - apply existsb_exists in E. destruct E as [x [Hx Fx]]. apply existsb_exists. exists x. split; trivial. now apply H.
  - destruct (existsb f a) eqn:E2; trivial. apply existsb_exists in E2. destruct E2 as [x [Hx Fx]].
    assert (existsb f b = true); [|congruence]. apply existsb_exists. exists x. split; trivial. now apply H.
Qed.

Lemma pair_eq_true a b : pair_eq a b = true <-> a = b.
Proof.
  unfold pair_eq. rewrite andb_true_iff, !Nat.eqb_eq. destruct a, b; simpl. split.
  - intros [-> ->]. reflexivity.
  - intros [= -> ->]. auto.
Qed.

Lemma pair_eq_refl a : pair_eq a a = true.
Proof. now apply pair_eq_true. Qed.

Lemma r_mem_In p r : r_mem p r = true <-> In p r.
Proof.
  unfold r_mem. rewrite existsb_exists. split.
  - intros [q [H E]]. apply pair_eq_true in E. now subst.
  - intro H. exists p. split; trivial. apply pair_eq_refl.
Qed.

Lemma r_incl_true a b : r_incl a b = true <-> incl a b.
Proof.
  unfold r_incl. rewrite forallb_forall. unfold incl. split; intros H p Hp.
  - apply r_mem_In. now apply H.
  - apply r_mem_In. now apply H.
Qed.

Lemma same_set_true a b : same_set a b = true <-> EqSet a b.
Proof.
  unfold same_set, EqSet. rewrite andb_true_iff, !r_incl_true. unfold incl. split.
  - intros [H1 H2] p. split; auto.
  - intro H. split; intros p Hp; now apply H.
Qed.

Lemma same_set_refl a : same_set a a = true.
Proof. apply same_set_true, EqSet_refl. Qed.

Lemma nodup_b_true l : nodup_b l = true <-> NoDup l.
Proof.
  induction l as [|x r IH]; simpl.
  - split; [constructor|trivial].
  - rewrite andb_true_iff, negb_true_iff, IH. split.
    + intros [H1 H2]. constructor; trivial. intro Hin.
      assert (existsb (Nat.eqb x) r = true); [|congruence].
      apply existsb_exists. exists x. split; trivial. apply Nat.eqb_refl.
    + intro H. inversion H; subst. split; trivial.
      destruct (existsb (Nat.eqb x) r) eqn:E; trivial.
      apply existsb_exists in E. destruct E as [y [Hy E]]. apply Nat.eqb_eq in E. subst. tauto.
Qed.

Lemma list_eqb_refl {A} (eqb : A -> A -> bool) (H : forall a, eqb a a = true) l : list_eqb eqb l l = true.
Proof. induction l; simpl; trivial. now rewrite H, IHl. Qed.

Lemma oview_eqb_refl w : oview_eqb w w = true.
Proof.
  unfold oview_eqb. rewrite !(list_eqb_refl pair_eq pair_eq_refl). simpl. destruct (snd w); reflexivity.
Qed.

Lemma oviews_eqb_refl l : list_eqb oview_eqb l l = true.
Proof. apply list_eqb_refl, oview_eqb_refl. Qed.

(* the Spec's lookups coincide with the dictionary's *)
Lemma r_lookup_get (r : rel) k : r_lookup r k = d_get r k.
Proof.
  unfold r_lookup. induction r as [|[a b] r IH]; simpl; trivial.
  destruct (Nat.eqb k a); trivial.
Qed.

Lemma r_has_key_get (r : rel) k : r_has_key r k = match d_get r k with Some _ => true | None => false end.
Proof.
  unfold r_has_key. induction r as [|[a b] r IH]; simpl; trivial.
  destruct (Nat.eqb k a); trivial.
Qed.

Lemma r_del_key_rm (r : rel) k : r_del_key r k = d_rm r k.
Proof. reflexivity. Qed.

Lemma transpose_flip (r : rel) : transpose r = flip r.
Proof. reflexivity. Qed.

Lemma in_cons_iff {A} (x y : A) l : In y (x :: l) <-> x = y \/ In y l.
Proof. reflexivity. Qed.

Lemma In_r_del_val r v p : In p (r_del_val r v) <-> In p r /\ snd p <> v.
Proof.
  unfold r_del_val. rewrite filter_In, negb_true_iff, Nat.eqb_neq. intuition.
Qed.

Lemma In_r_del_key (r : rel) k p : In p (r_del_key r k) <-> In p r /\ fst p <> k.
Proof. exact (In_rm r k p). Qed.

Lemma In_r_set r k v a b :
  In (a, b) (r_set r k v) <-> (a = k /\ b = v) \/ (In (a, b) r /\ a <> k /\ b <> v).
Proof.
  unfold r_set. rewrite (in_cons_iff (k, v)), In_r_del_val, In_r_del_key. simpl. split.
  - intros [[= <- <-]|[[H1 H2] H3]]; auto.
  - intros [[-> ->]|[H1 [H2 H3]]]; auto.
Qed.

Lemma r_set_EqSet r1 r2 k v : EqSet r1 r2 -> EqSet (r_set r1 k v) (r_set r2 k v).
Proof. intros H [a b]. rewrite !In_r_set, (H (a, b)). tauto. Qed.

Lemma r_update_EqSet kvs : forall r1 r2, EqSet r1 r2 -> EqSet (r_update r1 kvs) (r_update r2 kvs).
Proof.
  unfold r_update. induction kvs as [|[k v] r IH]; simpl; intros r1 r2 H; trivial.
  apply IH. now apply r_set_EqSet.
Qed.

(* NoDup of values from injectivity *)
Lemma nodup_snd_of_inj (l : rel) :
  NoDup (map fst l) -> (forall a a' b, In (a, b) l -> In (a', b) l -> a = a') -> NoDup (map snd l).
Proof.
  induction l as [|[a b] r IH]; simpl; intros ND Hinj; constructor.
  - intro Hin. apply in_map_iff in Hin. destruct Hin as [[a' b'] [Hb Hin]]. simpl in Hb. subst b'.
    assert (a = a') by (eapply Hinj; [now left|right; exact Hin]). subst a'.
    inversion ND; subst. apply H1. apply in_map_iff. now exists (a, b).
  - apply IH.
    + now inversion ND.
    + intros x x' y H1 H2. eapply Hinj; right; eauto.
Qed.

Lemma NoDup_pairs_of_keys (l : rel) : NoDup (map fst l) -> NoDup l.
Proof.
  induction l as [|[a b] r IH]; simpl; intro H; constructor; inversion H; subst.
  - intro Hin. apply H2. apply in_map_iff. now exists (a, b).
  - now apply IH.
Qed.

Lemma EqSet_perm (a b : rel) : NoDup (map fst a) -> NoDup (map fst b) -> EqSet a b -> Permutation a b.
Proof.
  intros A B H. apply NoDup_Permutation; trivial; now apply NoDup_pairs_of_keys.
Qed.

(* two duplicate-free dictionaries with the same lookups hold the same pairs *)
Lemma EqSet_of_get (a b : rel) : NoDup (map fst a) -> NoDup (map fst b) ->
  (forall k, d_get a k = d_get b k) -> EqSet a b.
Proof.
  intros A B H [k v]. split; intro Hin; apply get_In; [rewrite <- H|rewrite H]; now apply In_get.
Qed.
