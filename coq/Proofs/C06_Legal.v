(* C06: the fully quoted rendering of a URL of the round-trip class is a well-formed RFC 3986
   URI: every character is legal at the position where it stands (Spec.wf_ref false). *)
From Boltons Require Import Lib.Prelude Lib.C06_Text Spec.C06_Spec Model.C06_Model
  Proofs.C06_Codec Proofs.C06_Utf8 Proofs.C06_Quote Proofs.C06_Lists Proofs.C06_Round.
From Coq Require Import ZifyBool.
Open Scope N_scope.

(* ---- legal: concatenation, weakening ------------------------------------------------------ *)
Lemma legal_app ok a : forall b, legal ok a = true -> legal ok (a ++ b) = legal ok b.
Proof.
  remember (length a) as n eqn:Hn. revert a Hn.
  induction n as [n IH] using lt_wf_ind. intros a Hn b H.
  destruct a as [|c r]; [reflexivity|].
  cbn [legal] in H. cbn [app legal]. destruct (c =? 37).
  - destruct r as [|x [|y r']]; try discriminate. cbn [app].
    destruct (hexval2 x y); [|discriminate].
    apply (IH (length r')); [subst n; cbn [length]; lia|reflexivity|exact H].
  - apply andb_true_iff in H as [H1 H2]. rewrite H1. cbn [andb].
    apply (IH (length r)); [subst n; cbn [length]; lia|reflexivity|exact H2].
Qed.

Lemma legal_app_true ok a b : legal ok a = true -> legal ok b = true -> legal ok (a ++ b) = true.
Proof. intros A B. rewrite (legal_app ok a b A). exact B. Qed.

Lemma legal_weaken (ok ok' : N -> bool) :
  (forall c, ok c = true -> ok' c = true) -> forall a, legal ok a = true -> legal ok' a = true.
Proof.
  intros W a. remember (length a) as n eqn:Hn. revert a Hn.
  induction n as [n IH] using lt_wf_ind. intros a Hn H.
  destruct a as [|c r]; [reflexivity|].
  cbn [legal] in *. destruct (c =? 37).
  - destruct r as [|x [|y r']]; try discriminate.
    destruct (hexval2 x y); [|discriminate].
    apply (IH (length r')); [subst n; cbn [length]; lia|reflexivity|exact H].
  - apply andb_true_iff in H as [H1 H2]. rewrite (W c H1). cbn [andb].
    apply (IH (length r)); [subst n; cbn [length]; lia|reflexivity|exact H2].
Qed.

Lemma legal_cons ok c r : (c =? 37) = false -> ok c = true -> legal ok r = true -> legal ok (c :: r) = true.
Proof. intros E H L. cbn [legal]. rewrite E, H, L. reflexivity. Qed.

Lemma legal_join ok c l :
  (c =? 37) = false -> ok c = true -> Forall (fun x => legal ok x = true) l -> legal ok (join [c] l) = true.
Proof.
  intros E H F. induction l as [|x r IH]; [reflexivity|].
  inversion F as [|? ? Hx Hr]; subst. destruct r as [|y r'].
  - exact Hx.
  - rewrite join_nonempty_head. apply legal_app_true; [exact Hx|].
    apply legal_cons; [exact E|exact H|]. apply IH. exact Hr.
Qed.

(* ---- the per-component classes are inside the per-URL-part classes ------------------------- *)
Lemma user_in_userinfo c : ok_at PUser c = true -> ok_userinfo false c = true.
Proof. cbn [ok_at]. unfold ok_userinfo. intro H. rewrite H. reflexivity. Qed.

Lemma seg_in_path c : ok_at PPath c = true -> ok_path false c = true.
Proof. cbn [ok_at]. unfold ok_path. intro H. rewrite H. reflexivity. Qed.

Lemma qpart_in_qf c : ok_at PQuery c = true -> ok_qf false c = true.
Proof. cbn [ok_at]. intro H. apply andb_true_iff in H as [H _]. exact H. Qed.

(* ---- Appendix-B split of a text of the rendered shape ---------------------------------------- *)
Lemma rfc_split_shape scheme auth pathtxt qs fr :
  forallb (nin [58; 47; 63; 35]) scheme = true ->
  forallb (nin [47; 63; 35]) auth = true ->
  (pathtxt = [] \/ exists p', pathtxt = 47 :: p') -> forallb (nin [63; 35]) pathtxt = true ->
  forallb (nin [35]) qs = true ->
  rfc_split (sprefix scheme ++ [47; 47] ++ auth ++ pathtxt ++ qpart qs ++ fpart fr)
  = (some_if scheme, Some auth, pathtxt, some_if qs, some_if fr).
Proof.
  intros Hs Ha Hp0 Hp Hq.
  assert (S2 : stops (nin [47; 63; 35]) (pathtxt ++ qpart qs ++ fpart fr) = true).
  { destruct Hp0 as [->|[p' ->]]; [|reflexivity]. cbn [app]. unfold qpart, fpart.
    destruct (nonempty qs); [reflexivity|]. destruct (nonempty fr); reflexivity. }
  assert (S3 : stops (nin [63; 35]) (qpart qs ++ fpart fr) = true).
  { unfold qpart, fpart. destruct (nonempty qs); [reflexivity|]. destruct (nonempty fr); reflexivity. }
  assert (TAIL : forall sch : option text,
            (let '(au, s2) := let '(a, r') := span (nin [47; 63; 35]) (auth ++ pathtxt ++ qpart qs ++ fpart fr) in (Some a, r') in
             let '(path, s3) := span (nin [63; 35]) s2 in
             let '(q, s4) := match s3 with
                             | 63 :: r => let '(a, r') := span (nin [35]) r in (Some a, r')
                             | _ => (None, s3)
                             end in
             let f := match s4 with 35 :: r => Some r | _ => None end in
             (sch, au, path, q, f)) = (sch, Some auth, pathtxt, some_if qs, some_if fr)).
  { intro sch. rewrite (span_stop _ auth _ Ha S2). rewrite (span_stop _ pathtxt _ Hp S3).
    unfold qpart, fpart, some_if. destruct (nonempty qs) eqn:Q.
    - cbn [app]. assert (S4 : stops (nin [35]) (if nonempty fr then 35 :: fr else []) = true)
        by (destruct (nonempty fr); reflexivity).
      rewrite (span_stop _ qs _ Hq S4). destruct (nonempty fr); reflexivity.
    - cbn [app]. destruct (nonempty fr) eqn:Fr; reflexivity. }
  unfold rfc_split, sprefix. destruct scheme as [|s0 sr].
  - cbn [nonempty app span]. change (nin [58; 47; 63; 35] 47) with false. cbn iota. apply (TAIL None).
  - cbn [nonempty]. rewrite <- app_assoc. rewrite (span_stop _ (s0 :: sr) _ Hs) by reflexivity.
    cbn [app]. apply (TAIL (Some (s0 :: sr))).
Qed.

Lemma count_char_none c s : memN c s = false -> count_char c s = O.
Proof.
  induction s as [|x r IH]; intro H; [reflexivity|].
  cbn [memN] in H. apply orb_false_iff in H as [H1 H2].
  unfold count_char in *. cbn [filter]. rewrite H1. apply IH. exact H2.
Qed.

Lemma count_char_app c a b : count_char c (a ++ b) = (count_char c a + count_char c b)%nat.
Proof. unfold count_char. rewrite filter_app, app_length. reflexivity. Qed.

Section HostLegal.
Variables (ptxt : text) (pres : option Z).
Hypothesis port_ok :
  (ptxt = [] /\ pres = None) \/
  (exists ds p, ptxt = 58 :: ds /\ pres = Some p /\ py_int ds = Some p /\ all_ascii ds = true /\
                forallb (not_in [64; 47; 63; 35; 93]) ds = true /\ forallb is_digit ds = true).

(* a reg-name (IPv4 included) followed by the rendered port *)
Lemma hostport_legal_plain h :
  h <> [] -> forallb (not_in [58; 64; 47; 63; 35]) h = true -> legal (ok_regname false) h = true ->
  hostport_ok false (h ++ ptxt) = true.
Proof.
  intros NE HC HL. unfold hostport_ok.
  destruct h as [|h0 hr]; [contradiction|]. cbn [app].
  assert (B : (h0 =? 91) = false).
  { cbn [legal] in HL. destruct (h0 =? 91) eqn:B; [|reflexivity]. apply N.eqb_eq in B. subst h0. discriminate. }
  rewrite B. change (h0 :: hr ++ ptxt) with ((h0 :: hr) ++ ptxt).
  unfold regname_port_ok.
  assert (H58 : forallb (nin [58]) (h0 :: hr) = true).
  { apply (forallb_weaken [58; 64; 47; 63; 35] [58]); [|exact HC].
    intros c Hc. cbn [memN] in *. rewrite orb_false_r in Hc. rewrite Hc. reflexivity. }
  destruct port_ok as [[-> _]|[ds [p [-> [_ [_ [_ [_ D]]]]]]]].
  - rewrite (span_stop _ (h0 :: hr) [] H58) by reflexivity. rewrite HL. reflexivity.
  - rewrite (span_stop _ (h0 :: hr) (58 :: ds) H58) by reflexivity. rewrite HL. exact D.
Qed.

(* '[' h ']' followed by the rendered port, h made of hex digits, ':' and '.' *)
Lemma hostport_legal_v6 h :
  h <> [] -> forallb (fun c => hexdig c || memN c [58; 46]) h = true -> memN 58 h = true ->
  hostport_ok false (([91] ++ h ++ [93]) ++ ptxt) = true.
Proof.
  intros NE HC H58. unfold hostport_ok. cbn [app]. rewrite N.eqb_refl.
  unfold ipliteral_port_ok.
  assert (H93 : forallb (nin [93]) h = true).
  { rewrite forallb_forall in *. intros c Hc. specialize (HC c Hc). unfold nin. cbn [memN].
    destruct (c =? 93) eqn:E; [|reflexivity]. apply N.eqb_eq in E. subst c. discriminate. }
  replace ((h ++ [93]) ++ ptxt) with (h ++ 93 :: ptxt) by (rewrite <- app_assoc; reflexivity).
  rewrite (span_stop _ h (93 :: ptxt) H93) by reflexivity.
  destruct h as [|h0 hr]; [contradiction|]. rewrite HC, H58. cbn [andb].
  destruct port_ok as [[-> _]|[ds [p [-> [_ [_ [_ [_ D]]]]]]]]; [reflexivity|].
  rewrite N.eqb_refl. exact D.
Qed.
End HostLegal.

Section Legal.
Variable T : tables.
Variable O : oracles.
Hypothesis TOK : tables_ok T = true.
Let nfc := o_nfc O.
Let qf := quote_full T O.
Variable ht : text.
Hypothesis ht_ne : ht <> [].
Hypothesis ht_chars : forallb (not_in [64; 47; 63; 35]) ht = true.
Variables (ptxt : text) (pres : option Z).
Hypothesis port_ok :
  (ptxt = [] /\ pres = None) \/
  (exists ds p, ptxt = 58 :: ds /\ pres = Some p /\ py_int ds = Some p /\ all_ascii ds = true /\
                forallb (not_in [64; 47; 63; 35; 93]) ds = true /\ forallb is_digit ds = true).

Hypothesis hostport_legal : hostport_ok false (ht ++ ptxt) = true.

Lemma qf_legal_at c s : scalar_nfc O s -> legal (ok_at (position_of c)) (qf c s) = true.
Proof. intro S. apply (quote_full_legal T O TOK c s S). Qed.

Lemma userinfo_at user pw :
  scalar_nfc O user -> scalar_nfc O pw ->
  authority_ok false (authority T O ht ptxt user pw) = true.
Proof.
  intros Su Sp. unfold authority_ok, authority, userinfo.
  assert (HP64 : memN 64 (ht ++ ptxt) = false) by (apply (hostinfo_no_at ht ht_chars ptxt pres port_ok)).
  destruct (nonempty user || nonempty pw).
  - set (ui := quote_full T O CUser user ++ (if nonempty pw then 58 :: quote_full T O CUser pw else [])).
    assert (U64 : memN 64 ui = false).
    { unfold ui. rewrite memN_app, (quser_no T O TOK 64 user Su eq_refl).
      destruct (nonempty pw); [|reflexivity]. cbn [memN]. rewrite (quser_no T O TOK 64 pw Sp eq_refl). reflexivity. }
    replace ((quote_full T O CUser user ++ (if nonempty pw then 58 :: quote_full T O CUser pw else []) ++ [64]) ++ ht ++ ptxt)
      with (ui ++ 64 :: (ht ++ ptxt)) by (unfold ui; rewrite <- !app_assoc; reflexivity).
    rewrite count_char_app, (count_char_none 64 ui U64). cbn [plus].
    unfold count_char. cbn [filter]. rewrite N.eqb_refl. cbn [length].
    fold (count_char 64 (ht ++ ptxt)). rewrite (count_char_none 64 _ HP64).
    rewrite (partition_app 64 ui _ U64). rewrite hostport_legal, andb_true_r.
    unfold ui. apply legal_app_true.
    + apply (legal_weaken _ _ user_in_userinfo). apply (qf_legal_at CUser user Su).
    + destruct (nonempty pw); [|reflexivity]. apply legal_cons; [reflexivity|reflexivity|].
      apply (legal_weaken _ _ user_in_userinfo). apply (qf_legal_at CUser pw Sp).
  - cbn [app]. rewrite (count_char_none 64 _ HP64). apply hostport_legal.
Qed.

Theorem rendered_wf scheme user pw rest q frag :
  (scheme = [] \/ scheme_ok scheme = true) -> forallb (not_in [58; 47; 63; 35]) scheme = true -> nfc [] = [] ->
  scalar_nfc O user -> scalar_nfc O pw -> Forall (scalar_nfc O) rest -> Forall (pair_ok O) q -> scalar_nfc O frag ->
  wf_ref false (rendered T O ht ptxt scheme user pw ([] :: rest) q frag) = true.
Proof.
  intros SO Hs N0 Su Sp Fp Fq Sf. unfold wf_ref, rendered.
  assert (Fpath : Forall (scalar_nfc O) ([] :: rest)).
  { constructor; [unfold scalar_nfc; fold nfc; rewrite N0; reflexivity|exact Fp]. }
  assert (P0 : join [47] (map (quote_full T O CPath) ([] :: rest)) = []
               \/ exists p', join [47] (map (quote_full T O CPath) ([] :: rest)) = 47 :: p').
  { assert (Q0 : quote_full T O CPath [] = []).
    { unfold quote_full. fold nfc. rewrite N0. reflexivity. }
    destruct rest as [|y r']; cbn [map].
    - left. cbn [join]. exact Q0.
    - right. rewrite join_nonempty_head, Q0. cbn [app]. eauto. }
  rewrite (rfc_split_shape scheme _ _ _ (quote_full T O CFrag frag) Hs
             (authority_chars T O TOK ht ht_chars ptxt pres port_ok user pw Su Sp) P0
             (path_chars T O TOK _ Fpath) (query_chars T O TOK q Fq)).
  assert (SO' : match some_if scheme with Some s0 => scheme_ok s0 | None => true end = true).
  { unfold some_if. destruct SO as [->|SO]; [reflexivity|]. destruct (nonempty scheme); [exact SO|reflexivity]. }
  rewrite SO', (userinfo_at user pw Su Sp). cbn [andb].
  assert (LP : legal (ok_path false) (join [47] (map (quote_full T O CPath) ([] :: rest))) = true).
  { apply legal_join; [reflexivity|reflexivity|].
    apply Forall_forall. intros y Hy. apply in_map_iff in Hy as [x [<- Hx]].
    apply (legal_weaken _ _ seg_in_path). apply (qf_legal_at CPath x).
    rewrite Forall_forall in Fpath. apply Fpath. exact Hx. }
  rewrite LP. cbn [andb].
  assert (LQ : legal (ok_qf false) (join [38] (map (rp T O) q)) = true).
  { apply legal_join; [reflexivity|reflexivity|].
    apply Forall_forall. intros y Hy. apply in_map_iff in Hy as [[k v] [<- Hx]].
    rewrite Forall_forall in Fq. specialize (Fq _ Hx). destruct Fq as [Pk Pv]. cbn [rp].
    destruct v as [v|].
    - apply legal_app_true; [apply (legal_weaken _ _ qpart_in_qf); apply (qf_legal_at CQuery k Pk)|].
      cbn [app]. apply legal_cons; [reflexivity|reflexivity|].
      apply (legal_weaken _ _ qpart_in_qf). apply (qf_legal_at CQuery v Pv).
    - apply (legal_weaken _ _ qpart_in_qf). apply (qf_legal_at CQuery k Pk). }
  unfold some_if. destruct (nonempty _); [rewrite LQ|]; cbn [andb];
    (destruct (nonempty _); [apply (qf_legal_at CFrag frag Sf)|reflexivity]).
Qed.
End Legal.

(* the text that to_text(full_quote=True) produces for a URL of the round-trip class is a
   well-formed RFC 3986 URI *)
Theorem rendered_legal T O :
  tables_ok T = true ->
  forall scheme sep user pw fam host port rest q frag ht,
  let nfc := o_nfc O in
  let u := mkU scheme sep user pw fam host port ([] :: rest) q frag in
  (scheme = [] \/ scheme_ok scheme = true) -> forallb (not_in [58; 47; 63; 35]) scheme = true ->
  nfc [] = [] ->
  all_scalar (nfc user) = true -> all_scalar (nfc pw) = true -> all_scalar (nfc frag) = true ->
  Forall (fun s => all_scalar (nfc s) = true) rest ->
  Forall (C06_Round.pair_ok O) q ->
  host <> [] -> (fam =? 6) = false -> memN 58 host = false -> o_idna_enc O host = MOk ht ->
  ht <> [] -> forallb (not_in [58; 64; 47; 63; 35]) ht = true -> legal (ok_regname false) ht = true ->
  port_wf port = true ->
  forall full, to_text T O true u = MOk full -> wf_ref false full = true.
Proof.
  intros TOK scheme sep user pw fam host port rest q frag ht nfc u
         SO Hs N0 Su Sp Sf Fr Fq HNE F6 M58 ENC HTNE HTC HTL PV full R.
  pose proof (port_text_ok T u PV) as PO.
  pose proof (get_authority_plain T O ht (port_text T u) scheme sep user pw fam host port ([] :: rest) q frag
                HNE F6 M58 ENC eq_refl) as GA.
  pose proof (to_text_rendered T O ht HTNE (port_text T u) scheme sep user pw fam host port rest q frag N0 GA) as R0.
  pose proof (eq_trans (eq_sym R0) R) as EF. inversion EF as [EF'].
  apply (rendered_wf T O TOK ht (weaken_host_chars ht HTC) (port_text T u) (port_back T u) PO
           (hostport_legal_plain (port_text T u) (port_back T u) PO ht HTNE HTC HTL)
           scheme user pw rest q frag SO Hs N0 Su Sp Fr Fq Sf).
Qed.

Theorem rendered_legal_v6 T O :
  tables_ok T = true ->
  forall scheme sep user pw fam host port rest q frag,
  let nfc := o_nfc O in
  let u := mkU scheme sep user pw fam host port ([] :: rest) q frag in
  (scheme = [] \/ scheme_ok scheme = true) -> forallb (not_in [58; 47; 63; 35]) scheme = true ->
  nfc [] = [] ->
  all_scalar (nfc user) = true -> all_scalar (nfc pw) = true -> all_scalar (nfc frag) = true ->
  Forall (fun s => all_scalar (nfc s) = true) rest ->
  Forall (C06_Round.pair_ok O) q ->
  (* an IPv6 literal: hex digits, ':' and '.', at least one ':' *)
  memN 58 host = true -> forallb (fun c => hexdig c || memN c [58; 46]) host = true ->
  port_wf port = true ->
  forall full, to_text T O true u = MOk full -> wf_ref false full = true.
Proof.
  intros TOK scheme sep user pw fam host port rest q frag nfc u
         SO Hs N0 Su Sp Sf Fr Fq H58 HC PV full R.
  assert (HNE : host <> []) by (destruct host; discriminate).
  pose proof (port_text_ok T u PV) as PO.
  set (ht := [91] ++ host ++ [93]).
  assert (HTNE : ht <> []) by discriminate.
  assert (HTC : forallb (not_in [64; 47; 63; 35]) ht = true).
  { unfold ht. rewrite !forallb_app. cbn [forallb].
    change (not_in [64; 47; 63; 35] 91) with true. change (not_in [64; 47; 63; 35] 93) with true.
    cbn [andb]. rewrite andb_true_r.
    apply forallb_forall. intros c Hc. rewrite forallb_forall in HC. specialize (HC c Hc). unfold not_in.
    destruct (memN c [64; 47; 63; 35]) eqn:M; [|reflexivity].
    cbn [memN] in M. repeat rewrite orb_false_r in M.
    repeat (apply orb_true_iff in M as [M|M]); apply N.eqb_eq in M; subst c; discriminate. }
  assert (F6 : (fam =? 6) || memN 58 host = true) by (rewrite H58; apply orb_true_r).
  pose proof (get_authority_v6 T O ht (port_text T u) scheme sep user pw fam host port ([] :: rest) q frag
                HNE F6 eq_refl eq_refl) as GA.
  pose proof (to_text_rendered T O ht HTNE (port_text T u) scheme sep user pw fam host port rest q frag N0 GA) as R0.
  pose proof (eq_trans (eq_sym R0) R) as EF. inversion EF as [EF'].
  apply (rendered_wf T O TOK ht HTC (port_text T u) (port_back T u) PO
           (hostport_legal_v6 (port_text T u) (port_back T u) PO host HNE HC H58)
           scheme user pw rest q frag SO Hs N0 Su Sp Fr Fq Sf).
Qed.
