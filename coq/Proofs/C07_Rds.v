(* remove_dot_segments (RFC 3986 5.2.4, the character-level buffer algorithm of
   the Spec) on an absolute path  =  resolve_path_parts (the model of the
   boltons function) on its segment list.  By induction on the segment list,
   with the invariant  "output buffer = rendering of the segment stack". *)
From Boltons Require Import Lib.Prelude Lib.C07_Str Spec.C07_Spec Gen.C07_Gen Model.C07_Model
     Proofs.C07_StrLemmas.
Open Scope N_scope.

Definition noslash (s : str) : Prop := forallb not_slash s = true.

(* "/s1/s2/.../sn" *)
Definition abs_path (segs : list str) : str := concat (map (app [SL]) segs).

Lemma join_rooted segs : join [SL] ([] :: segs) = abs_path segs.
Proof. reflexivity. Qed.

Lemma abs_path_cons s segs : abs_path (s :: segs) = SL :: s ++ abs_path segs.
Proof. reflexivity. Qed.

Lemma abs_path_snoc segs s : abs_path (segs ++ [s]) = abs_path segs ++ SL :: s.
Proof. unfold abs_path. rewrite concat_map_app_last. reflexivity. Qed.

Lemma abs_path_app a b : abs_path (a ++ b) = abs_path a ++ abs_path b.
Proof. unfold abs_path. rewrite map_app, concat_app. reflexivity. Qed.

(* what can follow a segment inside an absolute path: nothing, or "/..." *)
Definition tail_ok (t : str) : Prop := t = [] \/ exists t', t = SL :: t'.

Lemma tail_ok_abs segs : tail_ok (abs_path segs).
Proof. destruct segs; [left; reflexivity | right; eexists; apply abs_path_cons]. Qed.

Lemma tail_ok_stops t : tail_ok t -> stops not_slash t.
Proof. intros [->|[t' ->]]; cbn; reflexivity. Qed.

Lemma noslash_cons c s : noslash (c :: s) -> c <> SL /\ noslash s.
Proof.
  unfold noslash. cbn [forallb]. intro H. apply andb_true_iff in H as [H1 H2]. split; [|exact H2].
  unfold not_slash in H1. apply negb_true_iff in H1. apply N.eqb_neq in H1. exact H1.
Qed.

(* ---- matching "<d>/" and "<d>" against "<s><tail>" ------------------------------ *)
Lemma strip_seg d : forall s tail, noslash d -> noslash s -> tail_ok tail ->
  strip_prefix (d ++ [SL]) (s ++ tail) =
  if str_eqb s d then match tail with [] => None | _ :: t => Some t end else None.
Proof.
  induction d as [|x d IH]; intros s tail Hd Hs Ht.
  - destruct s as [|c s]; cbn [app strip_prefix].
    + destruct Ht as [->|[t ->]]; reflexivity.
    + apply noslash_cons in Hs as [Hc _]. apply N.eqb_neq in Hc. rewrite N.eqb_sym, Hc. reflexivity.
  - apply noslash_cons in Hd as [Hx Hd]. destruct s as [|c s]; cbn [app strip_prefix].
    + destruct Ht as [->|[t ->]]; [reflexivity|]. apply N.eqb_neq in Hx. rewrite Hx. reflexivity.
    + apply noslash_cons in Hs as [Hc Hs]. unfold str_eqb. cbn [list_eqb].
      rewrite (N.eqb_sym c x). destruct (x =? c); [|reflexivity].
      cbn [andb]. apply IH; assumption.
Qed.

Lemma eq_seg d : forall s tail, noslash d -> tail_ok tail ->
  str_eqb (s ++ tail) d = str_eqb s d && is_nil tail.
Proof.
  induction d as [|x d IH]; intros s tail Hd Ht.
  - destruct s as [|c s]; [|reflexivity]. destruct tail; reflexivity.
  - apply noslash_cons in Hd as [Hx Hd]. destruct s as [|c s]; cbn [app].
    + destruct Ht as [->|[t ->]]; [reflexivity|]. unfold str_eqb. cbn [list_eqb].
      apply N.eqb_neq in Hx. rewrite N.eqb_sym, Hx. reflexivity.
    + unfold str_eqb. cbn [list_eqb]. destruct (c =? x); [|reflexivity]. cbn [andb]. apply IH; assumption.
Qed.

Lemma noslash_dot : noslash [DOT]. Proof. reflexivity. Qed.
Lemma noslash_dotdot : noslash [DOT; DOT]. Proof. reflexivity. Qed.

(* ---- one iteration of the loop on an absolute input buffer --------------------- *)
Lemma rds_step_abs s tail out : noslash s -> tail_ok tail ->
  rds_step (SL :: s ++ tail) out =
  if str_eqb s [DOT] then (match tail with [] => [SL] | _ :: t => SL :: t end, out)
  else if str_eqb s [DOT; DOT]
       then (match tail with [] => [SL] | _ :: t => SL :: t end, remove_last_segment out)
       else (tail, out ++ SL :: s).
Proof.
  intros Hs Ht. unfold rds_step.
  change (strip_prefix [DOT; DOT; SL] (SL :: s ++ tail)) with (@None str).
  change (strip_prefix [DOT; SL] (SL :: s ++ tail)) with (@None str).
  change (strip_prefix [SL; DOT; SL] (SL :: s ++ tail)) with (strip_prefix ([DOT] ++ [SL]) (s ++ tail)).
  change (strip_prefix [SL; DOT; DOT; SL] (SL :: s ++ tail))
    with (strip_prefix ([DOT; DOT] ++ [SL]) (s ++ tail)).
  change (str_eqb (SL :: s ++ tail) [SL; DOT]) with (str_eqb (s ++ tail) [DOT]).
  change (str_eqb (SL :: s ++ tail) [SL; DOT; DOT]) with (str_eqb (s ++ tail) [DOT; DOT]).
  change (str_eqb (SL :: s ++ tail) [DOT]) with false.
  change (str_eqb (SL :: s ++ tail) [DOT; DOT]) with false.
  rewrite (strip_seg [DOT] s tail noslash_dot Hs Ht).
  rewrite (strip_seg [DOT; DOT] s tail noslash_dotdot Hs Ht).
  rewrite (eq_seg [DOT] s tail noslash_dot Ht), (eq_seg [DOT; DOT] s tail noslash_dotdot Ht).
  destruct (str_eqb s [DOT]) eqn:E1.
  - destruct tail; reflexivity.
  - destruct (str_eqb s [DOT; DOT]) eqn:E2.
    + destruct tail; reflexivity.
    + cbn [andb orb]. unfold first_segment.
      rewrite (span_all not_slash s tail Hs (tail_ok_stops _ Ht)). reflexivity.
Qed.

(* ---- "remove the last segment and its preceding /" on a rendered stack ---------- *)
Lemma list_last_case {A} (l : list A) : l = [] \/ exists l' a, l = l' ++ [a].
Proof. induction l using rev_ind; [left; reflexivity | right; eauto]. Qed.

Lemma remove_last_segment_abs stack : Forall noslash stack ->
  remove_last_segment (abs_path stack) = abs_path (removelast stack).
Proof.
  intro H. destruct (list_last_case stack) as [->|(st & s & ->)].
  - reflexivity.
  - rewrite removelast_last, abs_path_snoc. unfold remove_last_segment.
    rewrite rev_app_distr. cbn [rev]. rewrite <- app_assoc. cbn [app].
    apply Forall_app in H as [_ Hs]. inversion Hs as [|? ? Hs' _]; subst.
    rewrite (span_all not_slash (rev s) (SL :: rev (abs_path st))).
    + cbn [snd]. apply rev_involutive.
    + rewrite forallb_rev. exact Hs'.
    + reflexivity.
Qed.

(* ---- the segment-level reading of 5.2.4 ------------------------------------------- *)
Fixpoint seg_loop (segs stack : list str) : list str :=
  match segs with
  | [] => stack
  | s :: rest =>
      if is_dot s then
        match rest with [] => stack ++ [[]] | _ => seg_loop rest stack end
      else if is_dotdot s then
        match rest with [] => removelast stack ++ [[]] | _ => seg_loop rest (removelast stack) end
      else seg_loop rest (stack ++ [s])
  end.

Lemma Forall_removelast {A} (P : A -> Prop) l : Forall P l -> Forall P (removelast l).
Proof.
  intro H. destruct (list_last_case l) as [->|(l' & a & ->)]; [exact H|].
  rewrite removelast_last. apply Forall_app in H. tauto.
Qed.

Lemma rds_step_slash out : rds_step [SL] out = ([], out ++ [SL]).
Proof. exact (rds_step_abs [] [] out eq_refl (or_introl eq_refl)). Qed.

Lemma rds_abs segs : forall stack fuel,
  Forall noslash segs -> Forall noslash stack ->
  (length (abs_path segs) < fuel)%nat ->
  rds_loop fuel (abs_path segs) (abs_path stack) = Some (abs_path (seg_loop segs stack)).
Proof.
  induction segs as [|s rest IH]; intros stack fuel Hsegs Hstack Hfuel.
  - destruct fuel; reflexivity.
  - inversion Hsegs as [|? ? Hs Hrest]; subst.
    rewrite abs_path_cons in *. destruct fuel as [|f]; [cbn in Hfuel; lia|].
    cbn [rds_loop]. rewrite (rds_step_abs s (abs_path rest) _ Hs (tail_ok_abs rest)).
    cbn [length] in Hfuel. rewrite app_length in Hfuel.
    cbn [seg_loop]. unfold is_dot, is_dotdot.
    destruct (str_eqb s [DOT]) eqn:E1; [|destruct (str_eqb s [DOT; DOT]) eqn:E2].
    + (* "." *)
      destruct rest as [|s' rest'].
      * apply str_eqb_eq in E1. subst s. cbn in Hfuel.
        destruct f as [|f]; [lia|]. cbn [abs_path concat map rds_loop].
        rewrite rds_step_slash. destruct f; cbn [rds_loop]; rewrite abs_path_snoc; reflexivity.
      * rewrite abs_path_cons. rewrite <- abs_path_cons. apply IH; try assumption. lia.
    + (* ".." *)
      rewrite (remove_last_segment_abs stack Hstack).
      destruct rest as [|s' rest'].
      * apply str_eqb_eq in E2. subst s. cbn in Hfuel.
        destruct f as [|f]; [lia|]. cbn [abs_path concat map rds_loop].
        rewrite rds_step_slash. destruct f; cbn [rds_loop]; rewrite abs_path_snoc; reflexivity.
      * rewrite abs_path_cons. rewrite <- abs_path_cons.
        apply IH; try assumption; [apply Forall_removelast; assumption | lia].
    + (* an ordinary segment *)
      rewrite <- abs_path_snoc. apply IH; try assumption; [|lia].
      apply Forall_app. split; [assumption | constructor; [assumption | constructor]].
Qed.

(* ---- the model's loop on a rooted list ------------------------------------------------- *)
Fixpoint rpp_seg (segs stack : list str) : list str :=
  match segs with
  | [] => stack
  | s :: rest =>
      if is_dot s then rpp_seg rest stack
      else if is_dotdot s then rpp_seg rest (removelast stack)
      else rpp_seg rest (stack ++ [s])
  end.

Lemma rpp_loop_rooted segs : forall stack,
  rpp_loop segs ([] :: stack) = [] :: rpp_seg segs stack.
Proof.
  induction segs as [|s rest IH]; intro stack; [reflexivity|].
  cbn [rpp_loop rpp_seg]. destruct (is_dot s); [apply IH|]. destruct (is_dotdot s).
  - destruct stack as [|x stack'].
    + cbn. apply IH.
    + match goal with |- context [if ?c then _ else _] => assert (C : c = true) end.
      { cbn [nonempty andb hd orb length]. rewrite orb_false_r. apply N.ltb_lt. lia. }
      rewrite C.
      change (removelast ([] :: x :: stack')) with ([] :: removelast (x :: stack')). apply IH.
  - change (([] :: stack) ++ [s]) with ([] :: (stack ++ [s])). apply IH.
Qed.

Lemma ends_with_dots_cons s rest : rest <> [] -> ends_with_dots (s :: rest) = ends_with_dots rest.
Proof.
  intro H. destruct (list_last_case rest) as [->|(l & a & ->)]; [contradiction|].
  unfold ends_with_dots. cbn [rev]. rewrite rev_app_distr. reflexivity.
Qed.

Lemma ends_with_dots_one s : ends_with_dots [s] = is_dot s || is_dotdot s.
Proof. reflexivity. Qed.

Lemma seg_loop_rpp segs : forall stack,
  seg_loop segs stack = rpp_seg segs stack ++ (if ends_with_dots segs then [[]] else []).
Proof.
  induction segs as [|s rest IH]; intro stack.
  - cbn. rewrite app_nil_r. reflexivity.
  - cbn [seg_loop rpp_seg]. destruct rest as [|s' rest'].
    + rewrite ends_with_dots_one. destruct (is_dot s); [reflexivity|]. destruct (is_dotdot s); [reflexivity|].
      cbn. rewrite app_nil_r. reflexivity.
    + rewrite ends_with_dots_cons by discriminate.
      destruct (is_dot s); [apply IH|]. destruct (is_dotdot s); apply IH.
Qed.

Lemma resolve_rooted segs :
  resolve_path_parts ([] :: segs) = [] :: seg_loop segs [].
Proof.
  unfold resolve_path_parts. cbv zeta.
  change (rpp_loop ([] :: segs) []) with (rpp_loop segs [[]]).
  rewrite (rpp_loop_rooted segs []), seg_loop_rpp.
  destruct segs as [|s rest]; [reflexivity|].
  rewrite ends_with_dots_cons by discriminate.
  destruct (ends_with_dots (s :: rest)); [reflexivity|]. rewrite app_nil_r. reflexivity.
Qed.

(* ---- the string-level theorem ------------------------------------------------------------ *)
Theorem rds_seg_str segs : Forall noslash segs ->
  remove_dot_segments (join [SL] ([] :: segs)) = Some (join [SL] (resolve_path_parts ([] :: segs))).
Proof.
  intro H. rewrite resolve_rooted, !join_rooted. unfold remove_dot_segments.
  apply (rds_abs segs [] _ H (Forall_nil _)). lia.
Qed.

(* totality of the fuelled loop, for every input (relative paths included) *)
Lemma rds_step_shrinks inp out : inp <> [] -> (length (fst (rds_step inp out)) < length inp)%nat.
Proof.
  intro Hne. unfold rds_step.
  assert (SP : forall p s r, strip_prefix p s = Some r -> (length s = length p + length r)%nat).
  { induction p as [|x p IHp]; intros s r E; cbn in E.
    - inversion E. reflexivity.
    - destruct s as [|y s]; [discriminate|]. destruct (x =? y); [|discriminate].
      apply IHp in E. cbn. lia. }
  destruct (strip_prefix [DOT; DOT; SL] inp) eqn:A1; [apply SP in A1; cbn in *; lia|].
  destruct (strip_prefix [DOT; SL] inp) eqn:A2; [apply SP in A2; cbn in *; lia|].
  destruct (strip_prefix [SL; DOT; SL] inp) eqn:B1; [apply SP in B1; cbn in *; lia|].
  destruct (str_eqb inp [SL; DOT]) eqn:B2; [apply str_eqb_eq in B2; subst; cbn; lia|].
  destruct (strip_prefix [SL; DOT; DOT; SL] inp) eqn:C1; [apply SP in C1; cbn in *; lia|].
  destruct (str_eqb inp [SL; DOT; DOT]) eqn:C2; [apply str_eqb_eq in C2; subst; cbn; lia|].
  destruct (str_eqb inp [DOT] || str_eqb inp [DOT; DOT]) eqn:D.
  - destruct inp; [contradiction|]. cbn. lia.
  - destruct inp as [|c r]; [contradiction|]. unfold first_segment.
    pose proof (span_spec not_slash r) as (E & _ & _). destruct (span not_slash r) as [a b].
    cbn [fst snd] in *. subst r. cbn [length]. rewrite app_length. lia.
Qed.

Theorem rds_total : forall fuel inp out, (length inp < fuel)%nat -> rds_loop fuel inp out <> None.
Proof.
  induction fuel as [|f IH]; intros inp out H; [lia|].
  destruct inp as [|c r]; [discriminate|]. cbn [rds_loop].
  pose proof (rds_step_shrinks (c :: r) out ltac:(discriminate)) as S.
  destruct (rds_step (c :: r) out) as [i o]. cbn [fst] in S. apply IH. cbn [length] in *. lia.
Qed.

Corollary remove_dot_segments_total p : remove_dot_segments p <> None.
Proof. apply rds_total. lia. Qed.
