(* C01: reads that build a new OrderedMultiDict or compare two of them. *)
From Boltons Require Import Lib.Prelude Spec.C01_Spec Model.C01_Model Proofs.C01_Base
  Proofs.C01_Prim Proofs.C01_Refine Proofs.C01_Mut1.

Lemma items_from_pairs l : m_items (m_from_pairs l) = l.
Proof. apply (proj2 (from_pairs_ok l)). Qed.

Lemma pair_eqb_eq (p q : K * V) : pair_eqb Nat.eqb Nat.eqb p q = true <-> p = q.
Proof.
  destruct p as [a b], q as [c d]. unfold pair_eqb. simpl.
  rewrite andb_true_iff, !Nat.eqb_eq. split; [intros [-> ->]; reflexivity | intro H; inversion H; tauto].
Qed.

Lemma pairs_eqb_eq a b : pairs_eqb a b = true <-> a = b.
Proof. apply list_eqb_eq. apply pair_eqb_eq. Qed.

Lemma zip_eq_pairs_eqb a b : zip_eq a b = pairs_eqb a b.
Proof.
  revert b. induction a as [|p ra IH]; destruct b as [|q rb]; simpl; try reflexivity.
  rewrite IH. unfold pairs_eqb. simpl. destruct (pair_eqb Nat.eqb Nat.eqb p q); reflexivity.
Qed.

Lemma eq_omd_correct s o : StoreOk s -> StoreOk o -> m_eq_omd s o = pairs_eqb (abs s) (abs o).
Proof.
  intros Hs Ho. unfold m_eq_omd. rewrite zip_eq_pairs_eqb.
  destruct (Nat.eqb (length (store o)) (length (store s))) eqn:E; simpl; [reflexivity|].
  destruct (pairs_eqb (abs s) (abs o)) eqn:E2; [|reflexivity].
  apply pairs_eqb_eq in E2. apply Nat.eqb_neq in E. exfalso. apply E.
  rewrite (store_len s Hs), (store_len o Ho), E2. reflexivity.
Qed.

Ltac start := unfold refines_op, m_op; intros s o Hs Ho Hwf.

Lemma counts_refines : refines_op Counts.
Proof.
  start.
  assert (H : forall ks, (forall k, In k ks -> has_key (abs s) k = true) ->
            map_res (fun k => match d_get (store s) k with
                              | None => Raise KeyError
                              | Some vs => Ok (k, length vs)
                              end) ks
            = Ok (map (fun k => (k, length (vals_of (abs s) k))) ks)).
  { induction ks as [|k r IH]; intro H; [reflexivity|]. simpl.
    rewrite (store_get s k (proj1 Hs)), (H k (or_introl eq_refl)). simpl.
    rewrite IH; [reflexivity|]. intros k' Hk'. apply H. right. exact Hk'. }
  rewrite iterkeys_correct, H; [|intros k Hk; apply keys1_has_key; exact Hk].
  simpl. rewrite items_from_pairs. split; [exact Hs | reflexivity].
Qed.

Lemma inverted_refines : refines_op Inverted.
Proof.
  start. simpl. change (m_items s) with (abs s). destruct (existsb unhashable (map snd (abs s))).
  - reflexivity.
  - rewrite items_from_pairs. split; [exact Hs | reflexivity].
Qed.

Lemma sorted_refines f rv : refines_op (Sorted f rv).
Proof. start. simpl. rewrite items_from_pairs. split; [exact Hs | reflexivity]. Qed.

Lemma eqother_refines ne : refines_op (EqOther ne).
Proof.
  start. simpl. rewrite (eq_omd_correct s o (proj1 Hs) (proj1 Ho)). split; [exact Hs | reflexivity].
Qed.

Lemma eqpairs_refines ne l : refines_op (EqPairs ne l).
Proof.
  start. simpl. destruct (from_pairs_ok l) as [H1 H2].
  rewrite (eq_omd_correct s _ (proj1 Hs) (proj1 H1)), H2. split; [exact Hs | reflexivity].
Qed.

Lemma copycyc_refines c dst : refines_op (CopyCyc c dst).
Proof.
  start. simpl.
  destruct (from_pairs_ok (map (fun p => (fst p, remap_ref match c with CkDeepCopy | CkPickle => true | _ => false end dst (snd p))) (m_items o))) as [H1 H2].
  split; [exact H1|]. rewrite H2. reflexivity.
Qed.

Lemma copyother_refines c : refines_op (CopyOther c).
Proof.
  start. simpl. destruct (from_pairs_ok (m_items o)) as [H1 H2].
  split; [exact H1|]. rewrite (eq_omd_correct _ o (proj1 H1) (proj1 Ho)), H2.
  assert (pairs_eqb (m_items o) (abs o) = true) as -> by (apply pairs_eqb_eq; reflexivity).
  reflexivity.
Qed.
