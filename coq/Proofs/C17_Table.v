(* (T) obligation over data regenerated from the source on every run
   (coq/Gen/C17_Gen.v, written by harness/translators/c17_frozen.py): every
   mutating method of dict is overridden by FrozenDict, raises TypeError when
   called and leaves the object unchanged; these are exactly the operations the
   model (Model.C17_Model.fd_step / Proofs.C17_FD.is_mutator) treats as raising;
   no other inherited callable of dict is a mutator. *)
From Coq Require Import String List Bool.
From Boltons Require Import Gen.C17_Gen.
Import ListNotations.
Open Scope string_scope.

(* names of the dict methods behind the model's mutator constructors
   FSetitem FDelitem FUpdate FIor FSetdefault FPop FPopitem FClear *)
Definition model_mutators : list string :=
  ["__setitem__"; "__delitem__"; "update"; "__ior__"; "setdefault"; "pop"; "popitem"; "clear"].

Definition row_name (r : string * bool * bool * string * bool) : string :=
  match r with (n, _, _, _, _) => n end.

Definition row_ok (r : string * bool * bool * string * bool) : bool :=
  match r with
  | (n, is_mut, overridden, outcome, unchanged) =>
      Bool.eqb is_mut (existsb (String.eqb n) model_mutators) &&
      implb is_mut (overridden && String.eqb outcome "TypeError" && unchanged)
  end.

Definition fd_table_ok (t : list (string * bool * bool * string * bool)) : bool :=
  forallb row_ok t &&
  forallb (fun m => existsb (fun r => String.eqb (row_name r) m) t) model_mutators.

Lemma gen_fd_table_ok : fd_table_ok gen_fd_table = true.
Proof. vm_compute. reflexivity. Qed.

(* OneToOne: every mutating method of dict is overridden (an inherited mutator
   writes the forward dict only and breaks the mirror - the |= defect). *)
Definition oto_row_ok (r : string * bool * bool) : bool :=
  match r with
  | (n, is_mut, overridden) =>
      Bool.eqb is_mut (existsb (String.eqb n) model_mutators) && implb is_mut overridden
  end.

Definition oto_table_ok (t : list (string * bool * bool)) : bool :=
  forallb oto_row_ok t &&
  forallb (fun m => existsb (fun r => String.eqb (fst (fst r)) m) t) model_mutators.

Lemma gen_oto_table_ok : oto_table_ok gen_oto_table = true.
Proof. vm_compute. reflexivity. Qed.
