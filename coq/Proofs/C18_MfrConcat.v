(* MultiFileReader in the property's own words: the reads, put together, give the
   concatenation of the members' contents in order, every element exactly once. *)
From Coq Require Import ZifyBool.
From Boltons Require Import Lib.Prelude Spec.C18_Spec Model.C18_Model
  Proofs.C18_Lines Proofs.C18_Bytes Proofs.C18_Mfr.

(* everything the calls returned, in order *)
Fixpoint out_data (os : list fobs) : list N :=
  match os with
  | [] => []
  | OData d :: r => d ++ out_data r
  | _ :: r => out_data r
  end.

Definition is_read (op : mop) : bool := match op with MRead _ => true | MSeek0 => false end.
Definition is_unsized (op : mop) : bool := match op with MRead None => true | _ => false end.

Fixpoint mref_final (f : rfile) (ops : list mop) : rfile :=
  match ops with [] => f | op :: r => mref_final (fst (mref_step f op)) r end.

Lemma read_splits f amt : mref_pre (MRead amt) = true ->
  let '(f', o) := mref_step f (MRead amt) in
  exists d, o = OData d /\ d ++ rest f' = rest f /\ (amt = None -> rest f' = []) /\ (rest f = [] -> rest f' = []).
Proof.
  intro P. destruct amt as [n|]; cbn [mref_step ref_step].
  - exists (firstn n (rest f)). rewrite rest_advance, skipn_firstn_len. split; [reflexivity|].
    split; [apply firstn_skipn|]. split; [discriminate|]. intro E. rewrite E. now rewrite skipn_nil.
  - exists (rest f). rewrite rest_advance, skipn_all. split; [reflexivity|].
    split; [apply app_nil_r|]. auto.
Qed.

Lemma reads_concat ops : forall f r, forallb is_read ops = true -> mref_run f ops = Some r ->
  out_data r ++ rest (mref_final f ops) = rest f /\
  (rest f = [] \/ existsb is_unsized ops = true -> rest (mref_final f ops) = []).
Proof.
  induction ops as [|op ops IH]; intros f r Rd R; cbn [mref_run mref_final forallb existsb out_data] in *.
  - injection R as <-. cbn. split; [reflexivity|]. intros [E|E]; [exact E|discriminate].
  - apply andb_true_iff in Rd as [R1 R2].
    destruct (mref_pre op) eqn:P; [|discriminate].
    destruct op as [amt|]; [|discriminate].
    pose proof (read_splits f amt P) as S.
    destruct (mref_step f (MRead amt)) as [f' o]. destruct S as [d [-> [S1 [S2 S3]]]].
    destruct (mref_run f' ops) as [os|] eqn:R'; [|discriminate]. injection R as <-.
    destruct (IH f' os R2 R') as [I1 I2]. cbn [fst out_data]. split.
    + rewrite <- app_assoc, I1. exact S1.
    + intros [E|E]; apply I2.
      * left. now apply S3.
      * destruct amt as [n|]; [right; exact E|left; now apply S2].
Qed.

(* the model, through the refinement theorem *)
Theorem mfr_reads_are_a_prefix contents ops r :
  forallb is_read ops = true ->
  mref_run (mkRF (concat contents) 0) ops = Some r ->
  exists tail, out_data (mfr_run (mfr_init contents) ops) ++ tail = concat contents.
Proof.
  intros Rd R. rewrite (mfr_reads_concatenation contents ops r R).
  destruct (reads_concat ops _ r Rd R) as [A _]. eexists. exact A.
Qed.

Theorem mfr_reads_everything_once contents ops r :
  forallb is_read ops = true -> existsb is_unsized ops = true ->
  mref_run (mkRF (concat contents) 0) ops = Some r ->
  out_data (mfr_run (mfr_init contents) ops) = concat contents.
Proof.
  intros Rd U R. rewrite (mfr_reads_concatenation contents ops r R).
  destruct (reads_concat ops _ r Rd R) as [A B]. rewrite B in A by (right; exact U).
  now rewrite app_nil_r in A.
Qed.
