(* C05: the transfer principle.  If the model reproduces what was observed on the
   implementation (agree5) and the case is outside the guard of the open finding,
   the observations satisfy the boolean Spec (all clauses but the no-clobber one,
   whose input is not reproduced by the model). *)
From Boltons Require Import Lib.Prelude Model.C04_Model Spec.C04_Spec Check.C04_Check Spec.C05_Spec Check.C05_Check
     Proofs.C04_Hoare Proofs.C04_Inv Proofs.C04_Transfer Proofs.C05_Basic Proofs.C05_Inv Proofs.C05_Live Proofs.C05_Retry Proofs.C05_Intrude Proofs.C04_Abort Proofs.C05_Invalid.
Open Scope nat_scope.
Arguments upd {A} f k v x : simpl never.

Lemma cfile_eqb_eq (a b : bytes * N) : C04_Check.file_eqb a b = true -> a = b.
Proof.
  destruct a as [a1 a2], b as [b1 b2]. unfold C04_Check.file_eqb, pair_eqb. cbn. intro H.
  apply andb_true_iff in H as [H1 H2]. apply bytes_eqb_eq in H1. apply N.eqb_eq in H2. congruence.
Qed.

Lemma ofile_refl (x : option C05_Spec.file) : ofile_eqb x x = true.
Proof.
  destruct x as [[l m]|]; cbn; auto. unfold C05_Spec.file_eqb, pair_eqb. cbn. rewrite N.eqb_refl, andb_true_r.
  induction l; cbn; auto. rewrite N.eqb_refl. auto.
Qed.

Lemma content_refl (l : C05_Spec.content) : C05_Spec.content_eqb l l = true.
Proof. induction l; cbn; auto. unfold C05_Spec.content_eqb in *. cbn. rewrite N.eqb_refl. auto. Qed.

Lemma model_file_list l n : model_file (fs_of_list l) n = assoc n l.
Proof.
  induction l as [|[m [cnt md]] r IH]; cbn [fs_of_list assoc]; [reflexivity|].
  unfold model_file, fs_create. cbn [f_dir f_ino]. unfold upd at 1.
  destruct (Nat.eqb n m) eqn:E.
  - rewrite !upd_eq. reflexivity.
  - unfold model_file in IH. rewrite <- IH. destruct (f_dir (fs_of_list r) n) as [i|] eqn:Ei; [|reflexivity].
    pose proof (wf_fs_of_list r n i Ei) as Hlt. rewrite !upd_neq by lia. reflexivity.
Qed.

Lemma model_file_init b n :
  n <> c_part (k_cfg b) -> model_file (init_fs b) n = assoc n (k_init b).
Proof.
  intro Hn. rewrite <- model_file_list. unfold init_fs. destruct (k_partlink b); [|reflexivity].
  unfold model_file, set_name. cbn [f_dir f_ino]. rewrite upd_neq by exact Hn. reflexivity.
Qed.

Lemma model_file_init_part c :
  case_ok c = true ->
  model_file (init_fs (k5_base c)) (c_part (k_cfg (k5_base c))) = assoc (c_part (k_cfg (k5_base c))) (k_init (k5_base c)).
Proof.
  intro H. unfold case_ok in H. apply andb_true_iff in H as [H _].
  unfold init_fs. destruct (k_partlink (k5_base c)); [|apply model_file_list].
  cbn in H. unfold model_file, set_name. cbn [f_dir f_ino]. rewrite upd_eq.
  pose proof (model_file_list (k_init (k5_base c)) (c_dest (k_cfg (k5_base c)))) as Hd. unfold model_file in Hd. rewrite Hd.
  destruct (assoc (c_part (k_cfg (k5_base c))) (k_init (k5_base c))) as [x|], (assoc (c_dest (k_cfg (k5_base c))) (k_init (k5_base c))) as [y|];
    cbn in H; try discriminate; auto.
  apply cfile_eqb_eq in H. congruence.
Qed.

Lemma files_agree_file s obs cands n :
  files_agree s obs cands = true -> In n (cands ++ map fst obs) -> assoc n obs = model_file s n.
Proof.
  unfold files_agree. intros H Hin. apply andb_true_iff in H as [_ H].
  rewrite forallb_forall in H. specialize (H n Hin).
  destruct (assoc n obs) as [x|], (model_file s n) as [y|]; cbn in H; try discriminate; auto.
  apply cfile_eqb_eq in H. congruence.
Qed.

Lemma existsb_rev {A} (f : A -> bool) l : existsb f (rev l) = existsb f l.
Proof.
  induction l as [|x l IH]; cbn; auto. rewrite existsb_app, IH. cbn. rewrite orb_false_r. apply orb_comm.
Qed.

Lemma unlink_failed_rev p t : unlink_failed p (rev t) = unlink_failed p t.
Proof. unfold unlink_failed. apply existsb_rev. Qed.

Lemma present_model s n : @present C05_Spec.file (model_file s n) = match f_dir s n with Some _ => true | None => false end.
Proof. unfold model_file. destruct (f_dir s n); reflexivity. Qed.

Lemma assoc_in {A} n (l : list (name * A)) x : assoc n l = Some x -> In n (map fst l).
Proof.
  induction l as [|[m a] r IH]; cbn; [discriminate|]. destruct (Nat.eqb n m) eqn:E.
  - apply Nat.eqb_eq in E. auto.
  - auto.
Qed.

Section Clauses.
  Variable g : cfg.
  Variable s0 : fs.
  Variable sched : list (nat * action).
  Variable s : fs.                      (* the file system after the run *)
  Notation d := (c_dest g).
  Notation p := (c_part g).
  Hypothesis Hwf : wf s0.

  Lemma appeared_files_in k cnt m : In (k, AAppear cnt m) sched -> In (cnt, m) (appeared_files sched).
  Proof. intro H. unfold appeared_files. apply in_flat_map. exists (k, AAppear cnt m). split; [exact H|]. cbn. auto. Qed.

  Lemma cfile_refl (x : C05_Spec.file) : C05_Spec.file_eqb x x = true.
  Proof. pose proof (ofile_refl (Some x)) as H. exact H. Qed.

  Lemma cl_dest_unchanged :
    dest_old g s0 sched s ->
    dest_unchanged (model_file s0 d) (appeared_files sched) (model_file s d) = true.
  Proof.
    unfold dest_old, dest_unchanged, model_file. destruct (f_dir s d) as [j|].
    - intros [(H0 & Hi) | (H0 & (k & cnt & m & Hin & Hx))].
      + rewrite H0, Hi. rewrite ofile_refl. reflexivity.
      + rewrite H0, Hx. cbn [i_vol i_mode present negb andb]. apply orb_true_iff. right.
        apply existsb_exists. exists (cnt, m). split; [eapply appeared_files_in; eauto|apply cfile_refl].
    - intros ->. reflexivity.
  Qed.

  Lemma same_binding n :
    olds_same g s0 s -> f_dir s n = f_dir s0 n -> model_file s n = model_file s0 n.
  Proof.
    intros (_ & Hi & _) Hb. unfold model_file. rewrite Hb. destruct (f_dir s0 n) as [j|] eqn:E; [|reflexivity].
    rewrite (Hi j (Hwf _ _ E)). reflexivity.
  Qed.

  Lemma cl_cleaned tr :
    olds_same g s0 s -> FailCase g s0 s tr ->
    cleaned_up (c_overwrite g) (c_overwrite_part g) (c_rm_part_on_exc g)
               (model_file s0 d) (model_file s0 p) (model_file s p) (unlink_failed p tr) = true.
  Proof.
    intros Ho Hf. unfold cleaned_up.
    destruct Hf as [(Hs & _ & How & Hd) | [(Hb & Hu) | [(Hn & _) | [(Hb & Hn0 & Howp) | (_ & Hc)]]]].
    - subst s. rewrite How. rewrite !present_model. destruct (f_dir s0 d); [|contradiction].
      destruct (f_dir s0 p) eqn:E.
      + rewrite ofile_refl. cbn. rewrite !orb_true_r. reflexivity.
      + cbn. rewrite orb_true_r. reflexivity.
    - rewrite Hu. apply orb_true_r.
    - rewrite (present_model s p), Hn. cbn. rewrite orb_true_r. reflexivity.
    - rewrite (same_binding p Ho Hb), Howp, ofile_refl, present_model.
      destruct (f_dir s0 p); [|contradiction]. cbn. rewrite !orb_true_r. reflexivity.
    - destruct Hc as [A|[A|A]].
      + rewrite A. reflexivity.
      + rewrite (present_model s p), A. cbn. rewrite orb_true_r. reflexivity.
      + rewrite A. apply orb_true_r.
  Qed.

  Lemma cl_perms umask m :
    perms_ok_prop g s0 sched umask m ->
    perms_ok (c_file_perms g) umask (model_file s0 d) (appeared_files sched) m = true.
  Proof.
    unfold perms_ok_prop, perms_ok, model_file. destruct (c_file_perms g) as [q|].
    - intros ->. apply N.eqb_refl.
    - destruct (f_dir s0 d) as [j|].
      + intros ->. apply N.eqb_refl.
      + intros [-> | (k & cnt & Hin)].
        * unfold RW_PERMS. rewrite N.eqb_refl. reflexivity.
        * apply orb_true_iff. right. apply existsb_exists. exists (cnt, m).
          split; [eapply appeared_files_in; eauto|apply N.eqb_refl].
  Qed.
End Clauses.

Lemma oobs_val o r : option_eqb oobs_eqb (oobs_of o) (Some r) = true ->
  match o with Val _ => r = OOk | Exc e => is_raise r = true | Crashed => False end.
Proof.
  destruct o as [x|e|]; cbn; [| |discriminate]; destruct r; cbn; try discriminate; auto.
Qed.

Theorem agree5_implies_holds5_core (c : c05_case) :
  c_dest (k_cfg (k5_base c)) <> c_part (k_cfg (k5_base c)) ->
  same_dir (c_part (k_cfg (k5_base c))) = true ->
  agree5 c = true -> known5 c = false -> holds5_core c = true.
Proof.
  intros Hdp Hpd Ha Hk.
  unfold agree5 in Ha. apply andb_true_iff in Ha as [Ha Hretry]. apply andb_true_iff in Ha as [Hcase Hagree].
  unfold holds5_core. rewrite (agree_implies_holds _ Hdp Hpd Hagree), andb_true_r.
  set (b := k5_base c) in *. set (g := k_cfg b) in *.
  assert (Hwf : wf (init_fs b)) by apply wf_init_fs.
  unfold agree in Hagree. apply andb_true_iff in Hagree as [Hagree _]. apply andb_true_iff in Hagree as [Hrun _].
  unfold agree_run in Hrun. destruct (run_model b None) as [o w] eqn:Er0.
  apply andb_true_iff in Hrun as [Hrun Hint]. apply andb_true_iff in Hrun as [Hrun Hf]. apply andb_true_iff in Hrun as [Ho Ht]. apply trace_eqb_eq in Ht.
  pose proof Er0 as Er. unfold run_model in Er. fold g in Er.
  pose proof (fault_partial_lemma g _ _ _ _ _ o w Hdp Hpd Hwf Er) as HF.
  pose proof (oobs_val _ _ Ho) as Hout.
  (* the observed files are the model's *)
  assert (HFn : forall n, In n (cands b ++ map fst (r_files (k_run b))) ->
                          assoc n (r_files (k_run b)) = model_file (w_fs w) n).
  { intros n Hn. eapply files_agree_file; eauto. }
  assert (Hd1 : assoc (c_dest g) (r_files (k_run b)) = model_file (w_fs w) (c_dest g)).
  { apply HFn. apply in_or_app. left. unfold cands. left. reflexivity. }
  assert (Hp1 : assoc (c_part g) (r_files (k_run b)) = model_file (w_fs w) (c_part g)).
  { apply HFn. apply in_or_app. left. unfold cands. right. left. reflexivity. }
  assert (Hd0 : assoc (c_dest g) (k_init b) = model_file (init_fs b) (c_dest g)).
  { symmetry. apply model_file_init. exact Hdp. }
  assert (Hp0 : assoc (c_part g) (k_init b) = model_file (init_fs b) (c_part g)).
  { symmetry. apply (model_file_init_part c Hcase). }
  assert (Hguard : link_then_unlink_failed (w_trace w) = false).
  { unfold known5 in Hk. fold b in Hk. rewrite <- Ht, rev_involutive in Hk. exact Hk. }
  assert (Hols : olds_same g (init_fs b) (w_fs w)).
  { destruct o as [x|e|]; [|  |contradiction]; [destruct HF as (_ & _ & _ & _ & _ & H)|destruct HF as (H & _)]; exact H. }
  unfold spec5_core. fold b. fold g. rewrite Hd1, Hp1, Hd0, Hp0. rewrite <- Ht, unlink_failed_rev.
  unfold c05_core.
  (* clause: other directory entries *)
  assert (C4 : others_same b (r_files (k_run b)) = true).
  { unfold others_same. fold g. apply forallb_forall. intros n Hn.
    destruct (Nat.eqb n (c_dest g)) eqn:E1; [reflexivity|]. destruct (Nat.eqb n (c_part g)) eqn:E2; [reflexivity|].
    apply Nat.eqb_neq in E1. apply Nat.eqb_neq in E2. cbn [orb].
    assert (Hin : In n (cands b ++ map fst (r_files (k_run b)))).
    { apply in_app_or in Hn as [Hn|Hn]; apply in_or_app; [right; exact Hn|left; unfold cands; right; right; exact Hn]. }
    rewrite (HFn n Hin).
    rewrite (same_binding g (init_fs b) (w_fs w) Hwf n Hols); [|apply Hols; auto].
    rewrite (model_file_init b n E2). exact (ofile_refl _). }
  (* clause: stale part file *)
  assert (C2 : stale_part_respected (c_overwrite_part g) (model_file (init_fs b) (c_part g))
                 (is_raise (r_outcome (k_run b))) (model_file (w_fs w) (c_part g)) = true).
  { unfold stale_part_respected. rewrite present_model.
    destruct (f_dir (init_fs b) (c_part g)) as [j|] eqn:Ej; [|reflexivity].
    destruct (c_overwrite_part g) eqn:Eo; [reflexivity|]. cbn [negb orb].
    destruct (part_reuse_lemma g _ _ _ _ _ o w j Hdp Hpd Hwf Er Ej Eo) as ((e & ->) & Hb & Hi).
    rewrite Hout. cbn [andb]. unfold model_file. rewrite Hb, Ej, Hi. apply ofile_refl. }
  (* clause: refusal *)
  assert (C3 : refusal_ok (c_overwrite g) (model_file (init_fs b) (c_dest g)) (model_file (init_fs b) (c_part g))
                 (is_raise (r_outcome (k_run b))) (model_file (w_fs w) (c_part g)) = true).
  { unfold refusal_ok. rewrite present_model.
    destruct (c_overwrite g) eqn:Eo; [reflexivity|].
    destruct (f_dir (init_fs b) (c_dest g)) as [j|] eqn:Ej; [|reflexivity]. cbn [negb orb].
    pose proof (refuse_lemma g (k_body b) (k_raises b) (init_fs b) (k_umask b) None (k_sched b) j Eo Ej) as Hr.
    rewrite Er in Hr. inversion Hr; subst o w. cbn [w_fs init_world]. rewrite Hout. cbn [andb]. apply ofile_refl. }
  rewrite C2, C3, C4, !andb_true_r.
  (* clause: failed / completed *)
  destruct o as [x|e|]; [| |contradiction].
  - (* completed *)
    rewrite Hout. cbn [is_raise].
    destruct (c_fdopen_invalid g) eqn:Hval; [exfalso; eapply (invalid_never_val g Hval); exact Er|].
    cbn [negb]. rewrite andb_true_r.
    destruct HF as (Hk1 & _ & Hpn & (m & Hm & Hpm) & _ & _).
    unfold completed_ok. rewrite present_model, Hpn. cbn [negb]. rewrite andb_true_r.
    unfold content_kill, mode_of in *. unfold model_file at 1.
    destruct (f_dir (w_fs w) (c_dest g)) as [j|]; [|discriminate].
    injection Hk1 as Hk1'. injection Hm as Hm'. rewrite Hk1', Hm'.
    rewrite content_refl. cbn [andb]. apply cl_perms. exact Hpm.
  - (* failed *)
    rewrite Hout. destruct HF as (_ & Hfc & Hdo). specialize (Hdo Hguard).
    unfold failed_ok.
    rewrite (cl_dest_unchanged g (init_fs b) (k_sched b) (w_fs w) Hdo).
    rewrite (cl_cleaned g (init_fs b) (w_fs w) Hwf (w_trace w) Hols Hfc). cbn [andb].
    (* retry *)
    unfold retry_ok. destruct (k5_retry c) as [[ops' r2]|] eqn:Ek; [|reflexivity].
    unfold retry_model in Hretry. fold b in Hretry. fold g in Hretry.
    unfold case_ok in Hcase. rewrite Ek in Hcase. fold b in Hcase. apply andb_true_iff in Hcase as [_ Hcase].
    apply andb_true_iff in Hcase as [Hor Hnew]. apply bytes_eqb_eq in Hnew.
    destruct (run_save g ops' false (w_fs w) (k_umask b) None []) as [o2 w2] eqn:Er2.
    apply andb_true_iff in Hretry as [Hretry Hf2]. apply andb_true_iff in Hretry as [Ho2 _].
    pose proof (oobs_val _ _ Ho2) as Hout2.
    assert (Hd2 : assoc (c_dest g) (r_files r2) = model_file (w_fs w2) (c_dest g)).
    { eapply files_agree_file; eauto. apply in_or_app. left. unfold cands. left. reflexivity. }
    assert (Hp2 : assoc (c_part g) (r_files r2) = model_file (w_fs w2) (c_part g)).
    { eapply files_agree_file; eauto. apply in_or_app. left. unfold cands. right. left. reflexivity. }
    rewrite Hd2, Hp2, !present_model.
    pose proof (final_wf g _ _ _ _ None _ _ w Hdp Hpd Hwf Er) as Hwf2.
    destruct (c_fdopen_invalid g) eqn:Hval.
    { (* arguments the io layer rejects: the retry fails the same way and leaves things as they are *)
      assert (Hexc : is_raise (r_outcome r2) = true).
      { destruct o2 as [x2|e2|]; [exfalso; eapply (invalid_never_val g Hval); exact Er2|exact Hout2|contradiction]. }
      assert (Hdest : ofile_eqb (model_file (w_fs w2) (c_dest g)) (model_file (w_fs w) (c_dest g)) = true).
      { destruct (run_safe g ops' false (w_fs w) (k_umask b) None [] Hdp Hpd Hwf2) as [(Hs & _) _].
        rewrite Er2 in Hs. cbn [snd] in Hs.
        pose proof (invalid_np g Hval ops' false (w_fs w) (k_umask b) None []) as Hnp. rewrite Er2 in Hnp. cbn [snd] in Hnp.
        pose proof (np_not_published g w2 Hnp) as Hpub.
        assert (Hold : dest_old g (w_fs w) [] (w_fs w2)).
        { destruct Hs as [((_ & H & _) & _) | (_ & _ & _ & _ & Hp')]; [exact H|congruence]. }
        pose proof (cl_dest_unchanged g (w_fs w) [] (w_fs w2) Hold) as Hdu.
        unfold dest_unchanged in Hdu. cbn [appeared_files flat_map existsb] in Hdu.
        destruct (model_file (w_fs w2) (c_dest g)); rewrite ?andb_false_r, ?orb_false_r in Hdu; exact Hdu. }
      rewrite Hexc, Hdest. cbn [andb].
      destruct (negb (c_overwrite g) && match f_dir (w_fs w) (c_dest g) with Some _ => true | None => false end); [reflexivity|].
      destruct (c_rm_part_on_exc g) eqn:Hrm; [|apply orb_true_r].
      destruct (f_dir (w_fs w) (c_part g)) eqn:Ejp; [cbn [negb]; rewrite orb_false_r, orb_true_r; reflexivity|].
      pose proof (invalid_run_part g ops' (w_fs w) (k_umask b) Hdp Hval Hrm Ejp) as Hpn. rewrite Er2 in Hpn. cbn [snd] in Hpn.
      rewrite Hpn. reflexivity. }
    destruct (c_overwrite g) eqn:Eow; cbn [negb andb].
    + (* overwrite: the retry must go through unless a stale part file blocks it *)
      destruct (f_dir (w_fs w) (c_part g)) as [jp|] eqn:Ejp.
      * destruct (c_overwrite_part g) eqn:Eowp; cbn [negb andb]; [|reflexivity].
        destruct (retry_completes_lemma g ops' (w_fs w) (k_umask b) Hdp Hval (or_introl Eow) (or_introl Eowp) Hor) as (w' & Hr').
        rewrite Er2 in Hr'. inversion Hr'; subst o2 w2. rewrite Hout2. cbn [is_raise negb andb].
        pose proof (final_wf g _ _ _ _ None _ _ w Hdp Hpd Hwf Er) as Hwf'.
        destruct (normal_exit_lemma g ops' false (w_fs w) (k_umask b) None [] tt w' Hdp Hpd Hwf' Er2) as (Hn & _).
        unfold normal_exit_ok in Hn. apply andb_true_iff in Hn as [H1 H2].
        unfold model_file. unfold content_kill in H1.
        destruct (f_dir (w_fs w') (c_dest g)); [|discriminate]. cbn in H1. rewrite <- Hnew.
        unfold ocontent_eqb in H1. cbn in H1. change (C05_Spec.content_eqb (i_vol (f_ino (w_fs w') n)) (new_content ops') = true) in H1.
        rewrite H1. cbn [andb]. destruct (f_dir (w_fs w') (c_part g)); [discriminate|reflexivity].
      * cbn [andb].
        destruct (retry_completes_lemma g ops' (w_fs w) (k_umask b) Hdp Hval (or_introl Eow) (or_intror Ejp) Hor) as (w' & Hr').
        rewrite Er2 in Hr'. inversion Hr'; subst o2 w2. rewrite Hout2. cbn [is_raise negb andb].
        pose proof (final_wf g _ _ _ _ None _ _ w Hdp Hpd Hwf Er) as Hwf'.
        destruct (normal_exit_lemma g ops' false (w_fs w) (k_umask b) None [] tt w' Hdp Hpd Hwf' Er2) as (Hn & _).
        unfold normal_exit_ok in Hn. apply andb_true_iff in Hn as [H1 H2].
        unfold model_file. unfold content_kill in H1.
        destruct (f_dir (w_fs w') (c_dest g)); [|discriminate]. cbn in H1. rewrite <- Hnew.
        change (C05_Spec.content_eqb (i_vol (f_ino (w_fs w') n)) (new_content ops') = true) in H1.
        rewrite H1. cbn [andb]. destruct (f_dir (w_fs w') (c_part g)); [discriminate|reflexivity].
    + (* no-clobber *)
      destruct (f_dir (w_fs w) (c_dest g)) as [jd|] eqn:Ejd.
      * (* a destination exists: the retry is refused, nothing changes *)
        pose proof (refuse_lemma g ops' false (w_fs w) (k_umask b) None [] jd Eow Ejd) as Hr'.
        rewrite Er2 in Hr'. inversion Hr'; subst o2 w2. rewrite Hout2. cbn [andb init_world w_fs]. apply ofile_refl.
      * destruct (f_dir (w_fs w) (c_part g)) as [jp|] eqn:Ejp.
        -- destruct (c_overwrite_part g) eqn:Eowp; cbn [negb andb]; [|reflexivity].
           destruct (retry_completes_lemma g ops' (w_fs w) (k_umask b) Hdp Hval (or_intror Ejd) (or_introl Eowp) Hor) as (w' & Hr').
           rewrite Er2 in Hr'. inversion Hr'; subst o2 w2. rewrite Hout2. cbn [is_raise negb andb].
           pose proof (final_wf g _ _ _ _ None _ _ w Hdp Hpd Hwf Er) as Hwf'.
           destruct (normal_exit_lemma g ops' false (w_fs w) (k_umask b) None [] tt w' Hdp Hpd Hwf' Er2) as (Hn & _).
           unfold normal_exit_ok in Hn. apply andb_true_iff in Hn as [H1 H2].
           unfold model_file. unfold content_kill in H1.
           destruct (f_dir (w_fs w') (c_dest g)); [|discriminate]. cbn in H1. rewrite <- Hnew.
           change (C05_Spec.content_eqb (i_vol (f_ino (w_fs w') n)) (new_content ops') = true) in H1.
           rewrite H1. cbn [andb]. destruct (f_dir (w_fs w') (c_part g)); [discriminate|reflexivity].
        -- cbn [andb].
           destruct (retry_completes_lemma g ops' (w_fs w) (k_umask b) Hdp Hval (or_intror Ejd) (or_intror Ejp) Hor) as (w' & Hr').
           rewrite Er2 in Hr'. inversion Hr'; subst o2 w2. rewrite Hout2. cbn [is_raise negb andb].
           pose proof (final_wf g _ _ _ _ None _ _ w Hdp Hpd Hwf Er) as Hwf'.
           destruct (normal_exit_lemma g ops' false (w_fs w) (k_umask b) None [] tt w' Hdp Hpd Hwf' Er2) as (Hn & _).
           unfold normal_exit_ok in Hn. apply andb_true_iff in Hn as [H1 H2].
           unfold model_file. unfold content_kill in H1.
           destruct (f_dir (w_fs w') (c_dest g)); [|discriminate]. cbn in H1. rewrite <- Hnew.
           change (C05_Spec.content_eqb (i_vol (f_ino (w_fs w') n)) (new_content ops') = true) in H1.
           rewrite H1. cbn [andb]. destruct (f_dir (w_fs w') (c_part g)); [discriminate|reflexivity].
Qed.

(* ... and the no-clobber clause: the model reproduces whether the other process got in *)
Theorem agree5_implies_holds5 (c : c05_case) :
  c_dest (k_cfg (k5_base c)) <> c_part (k_cfg (k5_base c)) ->
  same_dir (c_part (k_cfg (k5_base c))) = true ->
  agree5 c = true -> known5 c = false -> holds5 c = true.
Proof.
  intros Hdp Hpd Ha Hk. unfold holds5.
  rewrite (agree5_implies_holds5_core c Hdp Hpd Ha Hk). cbn [andb].
  unfold agree5 in Ha. apply andb_true_iff in Ha as [Ha _]. apply andb_true_iff in Ha as [_ Hagree].
  unfold agree in Hagree. apply andb_true_iff in Hagree as [Hagree _]. apply andb_true_iff in Hagree as [Hrun _].
  unfold agree_run in Hrun. destruct (run_model (k5_base c) None) as [o w] eqn:Er.
  apply andb_true_iff in Hrun as [Hrun Hint]. apply andb_true_iff in Hrun as [Hrun _]. apply andb_true_iff in Hrun as [Ho _].
  pose proof (oobs_val _ _ Ho) as Hout. apply Bool.eqb_prop in Hint.
  unfold noclobber_ok. destruct (c_overwrite (k_cfg (k5_base c))) eqn:How; [reflexivity|]. cbn [orb].
  destruct o as [x|e|]; [| |contradiction].
  - unfold run_model in Er.
    rewrite <- Hint, (no_intrusion_lemma _ _ _ _ _ _ _ x w Hdp How Er). reflexivity.
  - rewrite Hout. apply orb_true_r.
Qed.
