(* C13: the property-level statements, assembled from C13_Bind / C13_Shape /
   C13_Sig. *)
From Boltons Require Import Lib.Prelude Spec.C13_Spec Model.C13_Model
     Proofs.C13_Dict Proofs.C13_Bind Proofs.C13_Shape Proofs.C13_Realign Proofs.C13_Sig.
From Coq Require Import Lia.

(* ---- plain wraps: same signature, same metadata ----------------------------------------- *)
Theorem wraps_same_signature f : wf_func f ->
  exists g, update_wrapper f [] [] = Ok g /\
    sig_of (b_func g) = sig_of f /\
    f_name (b_func g) = f_name f /\ f_doc (b_func g) = f_doc f /\
    f_module (b_func g) = f_module f /\ f_async (b_func g) = f_async f /\
    d_get (f_dict (b_func g)) K_WRAPPED = Some (f_id f) /\
    b_inv g = inv_of_params (sg_params (func_sig f)).
Proof.
  intro WF. pose proof (update_wrapper_refines f [] [] WF (Forall_nil _)) as R.
  unfold spec_wraps, spec_wraps_opt in R. cbn [spec_injects_opt spec_expects] in R.
  match type of R with match ?u with _ => _ end => destruct u as [g|e] eqn:E end; [|exfalso; exact R].
  exists g. split; [first [exact E | reflexivity]|].
  destruct R as [S [N [Dc [M [A [W I]]]]]].
  rewrite (sig_of_func_sig f (wf_len f WF)). repeat split; assumption.
Qed.

(* ---- plain wraps: same calls accepted, same frame seen by the wrapped function ------------ *)
Theorem wraps_call_equiv f g c : wf_func f -> NoDup (keys (c_kw c)) ->
  update_wrapper f [] [] = Ok g ->
  match call_func f c with
  | Ok env =>   (* accepted: the wrapper is reached with a call that binds f to the same frame *)
      exists c', call_built f g true c = (Some c', Ok env) /\ call_func f c' = Ok env
  | Raise e =>  (* rejected, before the wrapper is reached, with the same error *)
      call_built f g true c = (None, Raise e)
  end.
Proof.
  intros WF NDk E. destruct (wraps_same_signature f WF) as [g' [E' [S [_ [_ [_ [_ [_ IV]]]]]]]].
  rewrite E in E'. inversion E'; subst g'. clear E'.
  assert (CG : call_func (b_func g) c = call_func f c) by (unfold call_func; rewrite S; reflexivity).
  unfold call_built. rewrite CG.
  pose proof (sig_of_func_sig f (wf_len f WF)) as SF.
  destruct (call_func f c) as [env|e] eqn:CF; [|reflexivity].
  unfold call_func in CF. rewrite SF in CF.
  (* forwarding on the structured signature *)
  unfold func_sig, mk_sig in CF, IV. cbn [sg_params] in CF, IV. rewrite mk_params_sparams in CF, IV.
  rewrite inv_of_params_structured in IV by (try apply seg_P; try apply seg_VA; try apply seg_KP; try apply seg_VK).
  set (an := d_get (f_annotations f)) in *. set (args := f_args f) in *. set (D := odflt (f_defaults f)) in *.
  set (va := f_varargs f) in *. set (kwonly := f_kwonly f) in *. set (kwd := odflt (f_kwdefaults f)) in *.
  set (vk := f_varkw f) in *.
  destruct (forward_structured _ _ _ _ c env (seg_P an args D) (seg_VA an va) (seg_KP an kwonly kwd) (seg_VK an vk)) as [c' [EV [B' _]]].
  - rewrite <- mk_params_sparams, mk_params_names. exact (wf_nodup f WF).
  - exact NDk.
  - exact CF.
  - exists c'. rewrite IV, EV. split.
    + f_equal. unfold call_func. rewrite SF. unfold func_sig, mk_sig. cbn [sg_params].
      rewrite mk_params_sparams. exact B'.
    + unfold call_func. rewrite SF. unfold func_sig, mk_sig. cbn [sg_params].
      rewrite mk_params_sparams. exact B'.
Qed.

(* every call the interpreter rejects is a TypeError *)
Lemma bind_go_raises ps : forall pos kw e, bind_go ps pos kw = Raise e -> e = TypeError.
Proof.
  induction ps as [|p r IH]; intros pos kw e H; [discriminate|].
  cbn [bind_go] in H.
  assert (BC : forall n bv pos0 kw0, bcons n bv (bind_go r pos0 kw0) = Raise e -> e = TypeError).
  { intros n bv pos0 kw0 HB. destruct (bind_go r pos0 kw0) as [[[b p'] k']|e'] eqn:G; [discriminate|].
    simpl in HB. inversion HB; subst. eapply IH; exact G. }
  destruct (p_kind p).
  - destruct pos as [|v pos'].
    + destruct (kw_take (p_name p) kw) as [[v kw']|]; [eapply BC; exact H|].
      destruct (p_default p); [eapply BC; exact H | inversion H; reflexivity].
    + destruct (kw_mem (p_name p) kw); [inversion H; reflexivity | eapply BC; exact H].
  - eapply BC; exact H.
  - destruct (kw_take (p_name p) kw) as [[v kw']|]; [eapply BC; exact H|].
    destruct (p_default p); [eapply BC; exact H | inversion H; reflexivity].
  - eapply BC; exact H.
Qed.

Theorem bind_raises_type_error ps c e : bind ps c = Raise e -> e = TypeError.
Proof.
  unfold bind. destruct (bind_go ps (c_pos c) (c_kw c)) as [[[b pos] kw]|e'] eqn:G.
  - destruct pos; [destruct kw|]; intro H; inversion H; reflexivity.
  - intro H. inversion H; subst. eapply bind_go_raises; exact G.
Qed.

(* ---- the reference transformations change the signature by exactly one parameter ------------ *)
Lemma insert_pos_In q ps : In q (insert_pos q ps).
Proof.
  induction ps as [|p r IH]; simpl; [left; reflexivity|].
  destruct (p_kind p); try (left; reflexivity). right. exact IH.
Qed.

Lemma insert_pos_remove q ps :
  p_kind q = PosOrKw -> existsb (is_named (p_name q)) ps = false ->
  filter (fun p => negb (removable (p_name q) p)) (insert_pos q ps) = ps.
Proof.
  intros Kq. induction ps as [|p r IH]; intro H.
  - simpl. unfold removable, is_named. rewrite Nat.eqb_refl, Kq. reflexivity.
  - simpl in H. apply orb_false_iff in H as [H1 H2].
    assert (Keep : negb (removable (p_name q) p) = true) by (unfold removable; rewrite H1; reflexivity).
    assert (Drop : negb (removable (p_name q) q) = false) by (unfold removable, is_named; rewrite Nat.eqb_refl, Kq; reflexivity).
    assert (Rest : filter (fun p0 => negb (removable (p_name q) p0)) r = r).
    { apply filter_true. intros x Hx. unfold removable.
      rewrite (proj1 (existsb_false_iff _ r) H2 x Hx). reflexivity. }
    simpl. destruct (p_kind p); simpl; rewrite ?Drop, ?Keep; simpl; rewrite ?Keep; f_equal; try exact Rest.
    apply IH. exact H2.
Qed.

Theorem spec_expect_exact n d s s' :
  spec_expect (n, d) s = Ok s' ->
  In (mkP n PosOrKw d None) (sg_params s') /\ sig_remove n s' = s.
Proof.
  unfold spec_expect. destruct (existsb (is_named n) (sg_params s)) eqn:E; [discriminate|].
  destruct (match d with None => has_pos_default s | Some _ => false end); [discriminate|].
  intro H. inversion H; subst s'. clear H. split.
  - apply insert_pos_In.
  - unfold sig_remove. cbn [sg_params sg_ret].
    pose proof (insert_pos_remove (mkP n PosOrKw d None) (sg_params s) eq_refl E) as X.
    cbn [p_name] in X. rewrite X. destruct s; reflexivity.
Qed.

Theorem spec_inject_exact n s s' :
  spec_inject n s = Ok s' ->
  sg_ret s' = sg_ret s /\
  sg_params s' = filter (fun p => negb (removable n p)) (sg_params s).
Proof.
  unfold spec_inject, spec_inject_opt. destruct (existsb (removable n) (sg_params s)) eqn:E.
  - intro H. inversion H; subst. split; reflexivity.
  - cbn [andb]. destruct (has_varkw s); [|discriminate]. intro H. inversion H; subst. split; [reflexivity|].
    symmetry. apply filter_true. intros p Hp. rewrite (proj1 (existsb_false_iff _ _) E p Hp). reflexivity.
Qed.

(* ---- corollaries in the shape the property text uses ------------------------------------------ *)
Corollary wraps_outcome f g c : wf_func f -> NoDup (keys (c_kw c)) ->
  update_wrapper f [] [] = Ok g ->
  snd (call_built f g true c) = call_func f c /\
  (fst (call_built f g true c) = None <-> exists e, call_func f c = Raise e).
Proof.
  intros WF ND E. pose proof (wraps_call_equiv f g c WF ND E) as H.
  destruct (call_func f c) as [env|e].
  - destruct H as [c' [H _]]. rewrite H. split; [reflexivity|].
    split; [discriminate | intros [e He]; discriminate].
  - rewrite H. split; [reflexivity|]. split; [intros _; exists e; reflexivity | reflexivity].
Qed.

Corollary inject_one f n s' : wf_func f -> spec_inject n (func_sig f) = Ok s' ->
  exists g, update_wrapper f [n] [] = Ok g /\ sig_of (b_func g) = Ok s' /\
            sg_ret s' = sg_ret (func_sig f) /\
            sg_params s' = filter (fun p => negb (removable n p)) (sg_params (func_sig f)).
Proof.
  intros WF SI. pose proof (update_wrapper_refines f [n] [] WF (Forall_nil _)) as R.
  unfold spec_wraps, spec_wraps_opt in R. cbn [spec_injects_opt spec_expects] in R. unfold spec_inject in SI. rewrite SI in R.
  match type of R with match ?u with _ => _ end => destruct u as [g|e] eqn:E end; [|exfalso; exact R].
  exists g. split; [first [exact E | reflexivity]|]. destruct R as [S _]. split; [exact S|].
  apply spec_inject_exact. exact SI.
Qed.

Corollary expect_one f n d s' : wf_func f -> n <> 0 -> spec_expect (n, d) (func_sig f) = Ok s' ->
  exists g, update_wrapper f [] [(n, d)] = Ok g /\ sig_of (b_func g) = Ok s' /\
            In (mkP n PosOrKw d None) (sg_params s') /\ sig_remove n s' = func_sig f.
Proof.
  intros WF Hn SE.
  assert (NZ : Forall (fun nd : name * option value => fst nd <> 0) [(n, d)]) by (constructor; [exact Hn | constructor]).
  pose proof (update_wrapper_refines f [] [(n, d)] WF NZ) as R.
  unfold spec_wraps, spec_wraps_opt in R. cbn [spec_injects_opt spec_expects] in R. rewrite SE in R.
  match type of R with match ?u with _ => _ end => destruct u as [g|e] eqn:E end; [|exfalso; exact R].
  exists g. split; [first [exact E | reflexivity]|]. destruct R as [S _]. split; [exact S|].
  apply spec_expect_exact. exact SE.
Qed.

(* a positional parameter without default cannot follow defaulted ones: refused *)
Corollary expect_refused f n : wf_func f -> n <> 0 ->
  has_pos_default (func_sig f) = true ->
  exists e, update_wrapper f [] [(n, None)] = Raise e.
Proof.
  intros WF Hn HD.
  assert (NZ : Forall (fun nd : name * option value => fst nd <> 0) [(n, None)]) by (constructor; [exact Hn | constructor]).
  pose proof (update_wrapper_refines f [] [(n, None)] WF NZ) as R.
  unfold spec_wraps, spec_wraps_opt in R. cbn [spec_injects_opt spec_expects] in R.
  assert (SE : exists e, spec_expect (n, None) (func_sig f) = Raise e).
  { unfold spec_expect. destruct (existsb (is_named n) (sg_params (func_sig f))); [eexists; reflexivity|].
    rewrite HD. eexists. reflexivity. }
  destruct SE as [e' SE]. rewrite SE in R.
  match type of R with match ?u with _ => _ end => destruct u as [g|e] eqn:E end; [exfalso; exact R|].
  exists e. reflexivity.
Qed.

(* ---- examples: the hypotheses are inhabited by non-trivial states ------------------------------ *)
(* def f(a: A1, b=V7, c=V8, *args, d, e: A3 = V9, **kw) -> A2 *)
(* ... which already carries attributes: a tag and a __wrapped__ pointing elsewhere (function 90) *)
Definition ex_f : pyfunc :=
  mkF 0 (Some 1) (Some 1) [1; 2; 3] (Some 6) [4; 5] (Some 11)
      (Some [7; 8]) (Some [(5, 9)]) [(1, 1); (5, 3); (RET, 2)] false 100 [(3, 5); (K_WRAPPED, 90)].

Lemma ex_f_wf : wf_func ex_f.
Proof.
  constructor.
  - apply nodup_b_NoDup. reflexivity.
  - intro H. simpl in H. repeat destruct H as [H|H]; try discriminate; exact H.
  - simpl. lia.
Qed.

(* f(10, 20, 30, 40, d=50, z=60): accepted; f(10, a=20): rejected *)
Definition ex_call : call := mkCall [10; 20; 30; 40] [(4, 50); (14, 60)].
Definition ex_bad_call : call := mkCall [10] [(1, 20)].

Lemma ex_call_nodup : NoDup (keys (c_kw ex_call)).
Proof. apply nodup_b_NoDup. reflexivity. Qed.

Lemma ex_call_binds :
  call_func ex_f ex_call =
  Ok [(1, BV 10); (2, BV 20); (3, BV 30); (6, BTuple [40]); (4, BV 50); (5, BV 9); (11, BDict [(14, 60)])]
  /\ call_func ex_f ex_bad_call = Raise TypeError.
Proof. split; reflexivity. Qed.

Lemma ex_wf_params : wf_params (sg_params (func_sig ex_f)) = true.
Proof. reflexivity. Qed.

Lemma ex_wrapped :
  match update_wrapper ex_f [] [] with
  | Ok g => sig_of (b_func g) = sig_of ex_f /\
            d_get (f_dict (b_func g)) K_WRAPPED = Some 100 /\ d_get (f_dict (b_func g)) 3 = Some 5 /\
            call_built ex_f g true ex_call =
              (Some (mkCall [10; 20; 30; 40] [(4, 50); (5, 9); (14, 60)]), call_func ex_f ex_call)
  | Raise _ => False
  end.
Proof. vm_compute. repeat split; reflexivity. Qed.

(* injected=['b', 'd']: (a: A1, c=V8, *args, e: A3 = V9, **kw) -> A2 *)
Lemma ex_inject :
  match update_wrapper ex_f [2; 4] [] with
  | Ok g => sig_of (b_func g) =
            Ok (mkSig [mkP 1 PosOrKw None (Some 1); mkP 3 PosOrKw (Some 8) None; mkP 6 VarPos None None;
                       mkP 5 KwOnly (Some 9) (Some 3); mkP 11 VarKw None None] (Some 2))
  | Raise _ => False
  end.
Proof. vm_compute. reflexivity. Qed.

(* expected=[('z', V33)]: (a, b=V7, c=V8, z=V33, *args, d, e=V9, **kw); expected=['z'] is refused *)
Lemma ex_expect :
  spec_expect (14, Some 33) (func_sig ex_f) =
    Ok (mkSig [mkP 1 PosOrKw None (Some 1); mkP 2 PosOrKw (Some 7) None; mkP 3 PosOrKw (Some 8) None;
               mkP 14 PosOrKw (Some 33) None; mkP 6 VarPos None None; mkP 4 KwOnly None None;
               mkP 5 KwOnly (Some 9) (Some 3); mkP 11 VarKw None None] (Some 2))
  /\ update_wrapper ex_f [] [(14, None)] = Raise ValueError
  /\ has_pos_default (func_sig ex_f) = true.
Proof. repeat split; reflexivity. Qed.

(* ---- the pinned code (before fix 972310d), for the record ------------------------------------------- *)
(* add_arg as it was: the new name is appended and the defaults tuple left alone,
   so that re-attaching it from the end moves the defaults one parameter to the right *)
Definition add_arg_pinned (b : fbuilder) (n : name) (d : option value) : res fbuilder :=
  if mem n (fb_args b) then Raise ValueError
  else if mem n (fb_kwonly b) then Raise ValueError
  else Ok (mkFB (fb_name b) (fb_doc b) (fb_module b) (fb_args b ++ [n]) (fb_varargs b) (fb_varkw b)
                (match d with
                 | Some v => Some (odflt (fb_defaults b) ++ [v])
                 | None => fb_defaults b
                 end)
                (fb_kwonly b) (fb_kwdefaults b) (fb_annotations b) (fb_async b) (fb_dict b)).

(* def f(a, b=V7) + expected=['c']  gave  (a, b, c=V7): DESIGN Appendix B #24 *)
Lemma pinned_expect_refuted :
  exists f n, wf_func f /\ n <> 0 /\
    match from_func f with
    | Ok b0 => match add_arg_pinned b0 n None with
               | Ok b1 => match get_func b1 0 true with
                          | Ok g => sig_of g = Ok (mkSig [mkP 1 PosOrKw None None; mkP 2 PosOrKw None None;
                                                          mkP 3 PosOrKw (Some 7) None] None)
                          | Raise _ => False
                          end
               | Raise _ => False
               end
    | Raise _ => False
    end.
Proof.
  exists (mkF 0 None None [1; 2] None [] None (Some [7]) None [] false 100 []), 3.
  split; [|split; [discriminate | vm_compute; reflexivity]].
  constructor.
  - apply nodup_b_NoDup. reflexivity.
  - intro H. simpl in H. repeat destruct H as [H|H]; try discriminate; exact H.
  - simpl. lia.
Qed.
