(* C10 - heapq as written (heappush/heappop, _siftdown/_siftup) keeps the heap order and the
   content, its root is a least entry; hence HeapPriorityQueue over it refines the reference. *)
From Boltons Require Import Lib.Prelude Spec.C10_Spec Model.C10_Model Proofs.C10_Queue.
From Coq Require Import Permutation.
Local Open Scope nat_scope.

(* ---- index arithmetic ------------------------------------------------------------- *)
Definition parent (i : nat) : nat := Nat.div (i - 1) 2.

Lemma parent_lt i : 0 < i -> parent i < i.
Proof.
  intro H. unfold parent. pose proof (Nat.div_mod (i - 1) 2 ltac:(lia)).
  pose proof (Nat.mod_upper_bound (i - 1) 2 ltac:(lia)). lia.
Qed.

Lemma parent_children p i : 0 < i -> parent i = p -> i = 2 * p + 1 \/ i = 2 * p + 2.
Proof.
  intros H E. unfold parent in E. pose proof (Nat.div_mod (i - 1) 2 ltac:(lia)).
  pose proof (Nat.mod_upper_bound (i - 1) 2 ltac:(lia)). lia.
Qed.

Lemma parent_left p : parent (2 * p + 1) = p.
Proof. unfold parent. replace (2 * p + 1 - 1) with (p * 2) by lia. apply Nat.div_mul. lia. Qed.

Lemma parent_right p : parent (2 * p + 2) = p.
Proof.
  unfold parent. replace (2 * p + 2 - 1) with (1 + p * 2) by lia.
  rewrite Nat.div_add by lia. reflexivity.
Qed.

(* ---- list updates ------------------------------------------------------------------ *)
Section Upd.
  Context {A : Type}.

  Lemma set_nth_length (l : list A) i v : length (set_nth i v l) = length l.
  Proof. revert i. induction l as [|a l IH]; intros [|i]; simpl; auto. Qed.

  Lemma nth_set_nth (l : list A) i v j :
    nth_error (set_nth i v l) j =
    if Nat.eqb j i then (if i <? length l then Some v else None) else nth_error l j.
  Proof.
    revert i j. induction l as [|a l IH]; intros i j.
    - simpl. destruct i, j; simpl; try reflexivity. destruct (Nat.eqb j i); reflexivity.
    - destruct i as [|i], j as [|j]; simpl; try reflexivity.
      rewrite IH. destruct (Nat.eqb j i); [|reflexivity].
      change (S i <? S (length l)) with (i <? length l). reflexivity.
  Qed.

  Lemma nth_set_same (l : list A) i v : i < length l -> nth_error (set_nth i v l) i = Some v.
  Proof. intro H. rewrite nth_set_nth, Nat.eqb_refl. apply Nat.ltb_lt in H. now rewrite H. Qed.

  Lemma nth_set_other (l : list A) i v j : j <> i -> nth_error (set_nth i v l) j = nth_error l j.
  Proof. intro H. rewrite nth_set_nth. apply Nat.eqb_neq in H. now rewrite H. Qed.

  (* writing x where v was, after copying v elsewhere, is a swap *)
  Lemma perm_head_set (r : list A) j v x :
    nth_error r j = Some v -> Permutation (v :: set_nth j x r) (x :: r).
  Proof.
    revert j. induction r as [|b r IH]; intros [|j] H; simpl in *; try discriminate.
    - inversion H; subst. apply perm_swap.
    - eapply Permutation_trans; [apply perm_swap|].
      eapply Permutation_trans; [apply perm_skip, IH, H|]. apply perm_swap.
  Qed.

  Lemma perm_set_head (r : list A) i v x :
    i < length r -> Permutation (x :: set_nth i v r) (v :: set_nth i x r).
  Proof.
    revert i. induction r as [|b r IH]; intros [|i] H; simpl in *; try lia.
    - apply perm_swap.
    - eapply Permutation_trans; [apply perm_swap|].
      eapply Permutation_trans; [apply perm_skip, IH; lia|]. apply perm_swap.
  Qed.

  Lemma perm_swap_set (l : list A) i j v x :
    i <> j -> i < length l -> nth_error l j = Some v ->
    Permutation (set_nth j x (set_nth i v l)) (set_nth i x l).
  Proof.
    revert i j. induction l as [|a l IH]; intros i j Hne Hi Hj; [simpl in Hi; lia|].
    destruct i as [|i], j as [|j]; simpl in *; try lia.
    - now apply perm_head_set.
    - inversion Hj; subst. apply perm_set_head. lia.
    - apply perm_skip. apply IH; [lia|lia|exact Hj].
  Qed.
End Upd.

Section HeapFacts.
  Context {A : Type}.
  Variable ltb : A -> A -> bool.
  Hypothesis ltb_irrefl : forall x, ltb x x = false.
  Hypothesis ltb_asym : forall x y, ltb x y = true -> ltb y x = false.
  (* x <= y <= z  ->  x <= z   (a <= b  :=  ltb b a = false) *)
  Hypothesis le_trans : forall x y z, ltb y x = false -> ltb z y = false -> ltb z x = false.

  Definition pair_ok (h : list A) (i : nat) : Prop :=
    forall x y, nth_error h i = Some x -> nth_error h (parent i) = Some y -> ltb x y = false.
  Definition heap_ok (h : list A) : Prop := forall i, 0 < i -> pair_ok h i.

  Lemma lk (h : list A) pos v k :
    pos < length h ->
    nth_error (set_nth pos v h) k = if Nat.eqb k pos then Some v else nth_error h k.
  Proof. intro H. rewrite nth_set_nth. apply Nat.ltb_lt in H. now rewrite H. Qed.

  Lemma nth_error_app1_some (l1 l2 : list A) k v :
    nth_error l1 k = Some v -> nth_error (l1 ++ l2) k = Some v.
  Proof.
    intro H. rewrite nth_error_app1; [exact H|]. apply nth_error_Some. congruence.
  Qed.

  Lemma in_range (h : list A) k : k < length h -> exists v, nth_error h k = Some v.
  Proof.
    intro H. destruct (nth_error h k) eqn:E; [eauto|]. apply nth_error_None in E. lia.
  Qed.

  Lemma hq_siftdown_eq fuel (h : list A) startpos pos newitem :
    hq_siftdown ltb fuel h startpos pos newitem =
    if startpos <? pos then
      match fuel with
      | O => Raise OutOfFuel
      | S f =>
          match nth_error h (parent pos) with
          | None => Raise IndexError
          | Some par =>
              if ltb newitem par
              then hq_siftdown ltb f (set_nth pos par h) startpos (parent pos) newitem
              else Ok (set_nth pos newitem h)
          end
      end
    else Ok (set_nth pos newitem h).
  Proof. destruct fuel; reflexivity. Qed.

  (* _siftdown towards the root restores the heap when only the pair (pos, parent pos)
     may be out of order and pos's children are not below pos's parent *)
  Lemma siftdown_ok : forall fuel (h : list A) pos newitem,
    pos <= fuel -> pos < length h ->
    (forall i, 0 < i -> i <> pos -> pair_ok (set_nth pos newitem h) i) ->
    (0 < pos -> forall c vc g, 0 < c -> parent c = pos ->
       nth_error (set_nth pos newitem h) c = Some vc ->
       nth_error (set_nth pos newitem h) (parent pos) = Some g -> ltb vc g = false) ->
    exists h', hq_siftdown ltb fuel h 0 pos newitem = Ok h' /\ heap_ok h' /\
               Permutation h' (set_nth pos newitem h).
  Proof.
    induction fuel as [|f IH]; intros h pos x Hf Hlen Ha Hb; rewrite hq_siftdown_eq.
    - assert (pos = 0) by lia. subst pos. simpl. eexists. split; [reflexivity|]. split; [|apply Permutation_refl].
      intros i Hi. apply Ha; lia.
    - destruct (Nat.ltb_spec 0 pos) as [Hpos|Hz].
      2:{ assert (pos = 0) by lia. subst pos. eexists. split; [reflexivity|]. split; [|apply Permutation_refl].
          intros i Hi. apply Ha; lia. }
      pose proof (parent_lt pos Hpos) as Hpp.
      destruct (in_range h (parent pos) ltac:(lia)) as [par Epar]. rewrite Epar.
      destruct (ltb x par) eqn:Lt.
      + (* move the parent down, continue from its place *)
        set (h2 := set_nth pos par h).
        assert (Hl2 : length h2 = length h) by apply set_nth_length.
        destruct (IH h2 (parent pos) x ltac:(lia) ltac:(lia)) as (h' & E & OK & Pm).
        * (* (a2) *)
          intros i Hi Hne y z. unfold h2. rewrite !lk by (rewrite ?set_nth_length; lia).
          destruct (Nat.eqb_spec i (parent pos)) as [->|Hipp]; [lia|].
          pose proof (parent_lt i Hi) as Hpi.
          destruct (Nat.eqb_spec i pos) as [->|Hip].
          -- (* i = pos: the parent now sits below the new item *)
             rewrite Nat.eqb_refl. intros [= <-] [= <-]. now apply ltb_asym.
          -- destruct (Nat.eqb_spec (parent i) (parent pos)) as [Epp|Npp].
             ++ (* sibling of pos *)
                intros Ey [= <-]. 
                assert (Hs : ltb y par = false).
                { apply (Ha i Hi Hip y par).
                  - rewrite lk by lia. apply Nat.eqb_neq in Hip. now rewrite Hip.
                  - rewrite lk by lia. rewrite Epp.
                    assert (Hn : Nat.eqb (parent pos) pos = false) by (apply Nat.eqb_neq; lia).
                    now rewrite Hn. }
                eapply le_trans; [|exact Hs]. now apply ltb_asym.
             ++ destruct (Nat.eqb_spec (parent i) pos) as [Epos|Npos].
                ** (* child of pos: it now hangs below pos's old parent *)
                   intros Ey [= <-]. apply (Hb Hpos i y par Hi Epos).
                   --- rewrite lk by lia. apply Nat.eqb_neq in Hip. now rewrite Hip.
                   --- rewrite lk by lia.
                       assert (Hn : Nat.eqb (parent pos) pos = false) by (apply Nat.eqb_neq; lia).
                       now rewrite Hn.
                ** (* untouched pair *)
                   intros Ey Ez. apply (Ha i Hi Hip y z).
                   --- rewrite lk by lia. apply Nat.eqb_neq in Hip. now rewrite Hip.
                   --- rewrite lk by lia. apply Nat.eqb_neq in Npos. now rewrite Npos.
        * (* (b2) *)
          intros Hpp0 c vc g Hc Epc. unfold h2. rewrite !lk by (rewrite ?set_nth_length; lia).
          pose proof (parent_lt c Hc) as Hpc. pose proof (parent_lt (parent pos) Hpp0) as Hgp.
          assert (Hn1 : Nat.eqb c (parent pos) = false) by (apply Nat.eqb_neq; lia).
          assert (Hn2 : Nat.eqb (parent (parent pos)) (parent pos) = false) by (apply Nat.eqb_neq; lia).
          assert (Hn3 : Nat.eqb (parent (parent pos)) pos = false) by (apply Nat.eqb_neq; lia).
          rewrite Hn1, Hn2, Hn3.
          (* the grandparent is not above the parent *)
          assert (Hg : forall g, nth_error h (parent (parent pos)) = Some g -> ltb par g = false).
          { intros g0 Eg. apply (Ha (parent pos) Hpp0 ltac:(lia) par g0).
            - rewrite lk by lia. assert (Hn : Nat.eqb (parent pos) pos = false) by (apply Nat.eqb_neq; lia).
              now rewrite Hn.
            - rewrite lk by lia. now rewrite Hn3. }
          destruct (Nat.eqb_spec c pos) as [->|Hcp].
          -- intros [= <-] Eg. now apply Hg.
          -- intros Ec Eg. specialize (Hg g Eg).
             assert (Hs : ltb vc par = false).
             { apply (Ha c Hc Hcp vc par).
               - rewrite lk by lia. apply Nat.eqb_neq in Hcp. now rewrite Hcp.
               - rewrite lk by lia. rewrite Epc.
                 assert (Hn : Nat.eqb (parent pos) pos = false) by (apply Nat.eqb_neq; lia). now rewrite Hn. }
             eapply le_trans; [exact Hg|exact Hs].
        * exists h'. split; [exact E|]. split; [exact OK|].
          eapply Permutation_trans; [exact Pm|]. unfold h2.
          apply perm_swap_set; [lia|lia|exact Epar].
      + (* the new item stays here *)
        eexists. split; [reflexivity|]. split; [|apply Permutation_refl].
        intros i Hi. destruct (Nat.eq_dec i pos) as [->|Hne]; [|now apply Ha].
        intros y z. rewrite !lk by lia. rewrite Nat.eqb_refl.
        assert (Hn : Nat.eqb (parent pos) pos = false) by (apply Nat.eqb_neq; lia). rewrite Hn.
        intros [= <-] Ez. rewrite Epar in Ez. inversion Ez; subst. exact Lt.
  Qed.

  Lemma set_nth_same_id (l : list A) i v : nth_error l i = Some v -> set_nth i v l = l.
  Proof.
    revert i. induction l as [|a l IH]; intros [|i] H; simpl in *; try discriminate.
    - now inversion H.
    - f_equal. now apply IH.
  Qed.

  (* ---- heappush ---------------------------------------------------------------------- *)
  Lemma hq_push_ok (h : list A) (x : A) :
    heap_ok h -> exists h', hq_push ltb h x = Ok h' /\ heap_ok h' /\ Permutation h' (x :: h).
  Proof.
    intro OK. unfold hq_push, hq_siftdown_at.
    rewrite app_length. simpl. replace (length h + 1 - 1) with (length h) by lia.
    assert (Ex : nth_error (h ++ [x]) (length h) = Some x).
    { rewrite nth_error_app2 by lia. now rewrite Nat.sub_diag. }
    rewrite Ex.
    assert (Eid : set_nth (length h) x (h ++ [x]) = h ++ [x]) by now apply set_nth_same_id.
    destruct (siftdown_ok (length h) (h ++ [x]) (length h) x (le_n _)) as (h' & E & OK' & Pm).
    - rewrite app_length. simpl. lia.
    - rewrite Eid. intros i Hi Hne y z Ey Ez.
      assert (Hlt : i < length h).
      { assert (i < length (h ++ [x])) by (apply nth_error_Some; congruence).
        rewrite app_length in H. simpl in H. lia. }
      pose proof (parent_lt i Hi).
      rewrite nth_error_app1 in Ey, Ez by lia. exact (OK i Hi y z Ey Ez).
    - rewrite Eid. intros Hpos c vc g Hc Epc Ec _.
      assert (c < length (h ++ [x])) by (apply nth_error_Some; congruence).
      rewrite app_length in H. simpl in H. pose proof (parent_lt c Hc). lia.
    - exists h'. split; [exact E|]. split; [exact OK'|].
      rewrite Eid in Pm. eapply Permutation_trans; [exact Pm|].
      apply Permutation_sym, Permutation_cons_append.
  Qed.

  (* ---- _siftup ------------------------------------------------------------------------ *)
  Lemma hq_siftup_loop_eq fuel (h : list A) endpos pos :
    hq_siftup_loop ltb fuel h endpos pos =
    if 2 * pos + 1 <? endpos then
      match fuel with
      | O => Raise OutOfFuel
      | S f =>
          match nth_error h (2 * pos + 1) with
          | None => Raise IndexError
          | Some c =>
              match (if 2 * pos + 1 + 1 <? endpos
                     then match nth_error h (2 * pos + 1 + 1) with
                          | Some r => if negb (ltb c r) then Ok (2 * pos + 1 + 1) else Ok (2 * pos + 1)
                          | None => Raise IndexError
                          end
                     else Ok (2 * pos + 1)) with
              | Raise e => Raise e
              | Ok cp => match nth_error h cp with
                         | None => Raise IndexError
                         | Some v => hq_siftup_loop ltb f (set_nth pos v h) endpos cp
                         end
              end
          end
      end
    else Ok (h, pos).
  Proof. destruct fuel; reflexivity. Qed.

  (* all pairs are in order, except the root's children while the hole is the root *)
  Definition hole_ok (h : list A) (pos : nat) : Prop :=
    forall i, 0 < i -> (pos = 0 -> parent i <> 0) -> pair_ok h i.

  Lemma siftup_loop_ok : forall fuel (h : list A) pos x,
    length h - pos <= fuel -> pos < length h -> hole_ok h pos ->
    exists h' pos', hq_siftup_loop ltb fuel h (length h) pos = Ok (h', pos') /\
      length h' = length h /\ pos' < length h /\ length h <= 2 * pos' + 1 /\
      heap_ok h' /\ Permutation (set_nth pos' x h') (set_nth pos x h).
  Proof.
    induction fuel as [|f IH]; intros h pos x Hf Hlen HO; rewrite hq_siftup_loop_eq.
    - lia.
    - destruct (Nat.ltb_spec (2 * pos + 1) (length h)) as [Hc|Hleaf].
      2:{ exists h, pos. split; [reflexivity|]. repeat split; try lia; [|apply Permutation_refl].
          intros i Hi. destruct (Nat.eq_dec pos 0) as [->|Hn0]; [|apply HO; [exact Hi|intro; contradiction]].
          (* pos = 0 is a leaf: the list has one element, no pair exists *)
          intros y z Ey _. assert (i < length h) by (apply nth_error_Some; congruence). lia. }
      destruct (in_range h (2 * pos + 1) Hc) as [c Ec]. rewrite Ec.
      (* the chosen child cp and what is known about the other one *)
      assert (Hpick : exists cp v,
        (if 2 * pos + 1 + 1 <? length h
         then match nth_error h (2 * pos + 1 + 1) with
              | Some r => if negb (ltb c r) then Ok (2 * pos + 1 + 1) else Ok (2 * pos + 1)
              | None => Raise IndexError
              end
         else Ok (2 * pos + 1)) = Ok cp /\
        (cp = 2 * pos + 1 \/ cp = 2 * pos + 2) /\ cp < length h /\ nth_error h cp = Some v /\
        (forall i y, (i = 2 * pos + 1 \/ i = 2 * pos + 2) -> nth_error h i = Some y -> ltb y v = false)).
      { destruct (Nat.ltb_spec (2 * pos + 1 + 1) (length h)) as [Hr|Hnr].
        - destruct (in_range h (2 * pos + 1 + 1) Hr) as [r Er]. rewrite Er.
          destruct (ltb c r) eqn:Lcr; cbn [negb].
          + exists (2 * pos + 1), c. split; [reflexivity|]. split; [now left|]. split; [lia|]. split; [exact Ec|].
            intros i y [-> | ->] Ey.
            * rewrite Ec in Ey. inversion Ey; subst. apply ltb_irrefl.
            * replace (2 * pos + 2) with (2 * pos + 1 + 1) in Ey by lia. rewrite Er in Ey. inversion Ey; subst.
              now apply ltb_asym.
          + exists (2 * pos + 1 + 1), r. split; [reflexivity|]. split; [right; lia|]. split; [lia|]. split; [exact Er|].
            intros i y [-> | ->] Ey.
            * rewrite Ec in Ey. inversion Ey; subst. exact Lcr.
            * replace (2 * pos + 2) with (2 * pos + 1 + 1) in Ey by lia. rewrite Er in Ey. inversion Ey; subst.
              apply ltb_irrefl.
        - exists (2 * pos + 1), c. split; [reflexivity|]. split; [now left|]. split; [lia|]. split; [exact Ec|].
          intros i y [-> | ->] Ey.
          + rewrite Ec in Ey. inversion Ey; subst. apply ltb_irrefl.
          + assert (2 * pos + 2 < length h) by (apply nth_error_Some; congruence). lia. }
      destruct Hpick as (cp & v & Epick & Hcp & Hcplen & Ev & Hother).
      rewrite Epick, Ev.
      set (h1 := set_nth pos v h).
      assert (Hl1 : length h1 = length h) by apply set_nth_length.
      assert (Hpc : parent cp = pos) by (destruct Hcp as [-> | ->]; [apply parent_left|apply parent_right]).
      destruct (IH h1 cp x) as (h' & pos' & E & L' & P' & Leaf & OK' & Pm).
      + rewrite Hl1. lia.
      + rewrite Hl1. exact Hcplen.
      + (* every pair of h1 is in order *)
        intros i Hi _ y z. unfold h1. rewrite !lk by lia.
        pose proof (parent_lt i Hi) as Hpi.
        destruct (Nat.eqb_spec i pos) as [->|Hip].
        * (* the moved-up child against pos's parent *)
          assert (Hn : Nat.eqb (parent pos) pos = false) by (apply Nat.eqb_neq; lia). rewrite Hn.
          intros [= <-] Ez.
          destruct (in_range h pos Hlen) as [vp Evp].
          assert (H1 : ltb vp z = false).
          { apply (HO pos Hi ltac:(lia) vp z Evp Ez). }
          assert (H2 : ltb v vp = false).
          { assert (0 < cp) by lia. apply (HO cp H ltac:(lia) v vp Ev). now rewrite Hpc. }
          eapply le_trans; [exact H1|exact H2].
        * destruct (Nat.eqb_spec (parent i) pos) as [Epi|Npi].
          -- intros Ey [= <-]. apply (Hother i y); [|exact Ey]. now apply parent_children.
          -- intros Ey Ez. apply (HO i Hi ltac:(intros ->; exact Npi) y z Ey Ez).
      + rewrite Hl1 in *. exists h', pos'. split; [exact E|]. repeat split; try lia; [exact OK'|].
        eapply Permutation_trans; [exact Pm|]. unfold h1.
        apply perm_swap_set; [lia|lia|exact Ev].
  Qed.

  Lemma hq_siftup_ok (h : list A) (x : A) :
    nth_error h 0 = Some x -> hole_ok h 0 ->
    exists h', hq_siftup ltb h 0 = Ok h' /\ heap_ok h' /\ Permutation h' h.
  Proof.
    intros Ex HO. unfold hq_siftup. rewrite Ex.
    assert (Hlen : 0 < length h) by (apply nth_error_Some; congruence).
    destruct (siftup_loop_ok (length h) h 0 x ltac:(lia) Hlen HO)
      as (h' & pos' & E & L' & P' & Leaf & OK' & Pm).
    rewrite E. unfold hq_siftdown_at.
    rewrite nth_set_same by lia.
    destruct (siftdown_ok pos' (set_nth pos' x h') pos' x (le_n _)) as (h2 & E2 & OK2 & Pm2).
    - rewrite set_nth_length. lia.
    - intros i Hi Hne y z. rewrite !lk by (rewrite ?set_nth_length; lia).
      apply Nat.eqb_neq in Hne. rewrite Hne.
      destruct (Nat.eqb_spec (parent i) pos') as [Epi|Npi].
      + intros Ey _.
        assert (i < length h') by (apply nth_error_Some; congruence).
        destruct (parent_children pos' i Hi Epi); lia.
      + apply Nat.eqb_neq in Npi. rewrite ?Npi. apply (OK' i Hi).
    - intros Hpos c vc g Hc Epc Ec _.
      assert (c < length (set_nth pos' x (set_nth pos' x h'))) by (apply nth_error_Some; congruence).
      rewrite !set_nth_length in H. destruct (parent_children pos' c Hc Epc); lia.
    - exists h2. split; [exact E2|]. split; [exact OK2|].
      eapply Permutation_trans; [exact Pm2|].
      assert (Eidem : set_nth pos' x (set_nth pos' x h') = set_nth pos' x h').
      { apply set_nth_same_id. apply nth_set_same. lia. }
      rewrite Eidem. eapply Permutation_trans; [exact Pm|].
      rewrite (set_nth_same_id h 0 x Ex). apply Permutation_refl.
  Qed.

  (* ---- the root is a least element -------------------------------------------------------- *)
  Lemma root_least (h : list A) r :
    heap_ok h -> nth_error h 0 = Some r -> forall i x, nth_error h i = Some x -> ltb x r = false.
  Proof.
    intros OK Er i. induction i as [i IH] using lt_wf_ind. intros x Ex.
    destruct i as [|i]; [rewrite Er in Ex; inversion Ex; subst; apply ltb_irrefl|].
    pose proof (parent_lt (S i) ltac:(lia)) as Hp.
    assert (Hlt : S i < length h) by (apply nth_error_Some; congruence).
    destruct (in_range h (parent (S i)) ltac:(lia)) as [y Ey].
    eapply le_trans; [exact (IH _ Hp y Ey)|]. apply (OK (S i) ltac:(lia) x y Ex Ey).
  Qed.

  (* ---- heappop ------------------------------------------------------------------------------ *)
  Lemma hq_pop_ok (h : list A) :
    heap_ok h -> h <> [] ->
    exists r h2, nth_error h 0 = Some r /\ hq_pop ltb h = Ok (r, h2) /\ heap_ok h2 /\
                 Permutation h (r :: h2) /\ (forall x, In x h -> ltb x r = false).
  Proof.
    intros OK Hne. unfold hq_pop.
    destruct (length h) as [|n] eqn:El; [destruct h; [congruence|discriminate]|].
    destruct (in_range h n ltac:(lia)) as [lastelt El2]. rewrite El2.
    assert (Hsplit : h = firstn n h ++ [lastelt]).
    { rewrite <- (firstn_skipn n h) at 1. f_equal.
      assert (Hs : length (skipn n h) = 1) by (rewrite skipn_length; lia).
      assert (Hn0 : nth_error (skipn n h) 0 = Some lastelt).
      { rewrite <- El2. rewrite <- (firstn_skipn n h) at 2.
        rewrite nth_error_app2; rewrite firstn_length; [|lia]. f_equal. lia. }
      destruct (skipn n h) as [|a [|b t]]; simpl in *; try lia. now inversion Hn0. }
    assert (Hleast : forall r, nth_error h 0 = Some r -> forall x, In x h -> ltb x r = false).
    { intros r Er x Hx. apply In_nth_error in Hx as [i Hi]. eapply root_least; eauto. }
    destruct (firstn n h) as [|r rest] eqn:Ef.
    - (* a single element *)
      simpl in Hsplit. exists lastelt, []. rewrite Hsplit. simpl.
      split; [reflexivity|]. split; [reflexivity|]. split.
      + intros i Hi y z Ey. destruct i; discriminate.
      + split; [apply Permutation_refl|]. intros x [<-|[]]. apply ltb_irrefl.
    - assert (Er : nth_error h 0 = Some r) by (rewrite Hsplit; reflexivity).
      destruct (hq_siftup_ok (lastelt :: rest) lastelt eq_refl) as (h2 & E2 & OK2 & Pm2).
      + (* pairs not hanging from the root are those of h *)
        intros i Hi Hp y z Ey Ez. specialize (Hp eq_refl).
        pose proof (parent_lt i Hi) as Hpi.
        destruct i as [|i]; [lia|]. destruct (parent (S i)) as [|pi] eqn:Epi; [congruence|].
        simpl in Ey, Ez. apply (OK (S i) ltac:(lia) y z).
        * rewrite Hsplit. simpl. apply nth_error_app1_some. exact Ey.
        * rewrite Epi, Hsplit. simpl. apply nth_error_app1_some. exact Ez.
      + rewrite E2. exists r, h2. split; [exact Er|]. split; [reflexivity|]. split; [exact OK2|].
        split; [|now apply Hleast].
        rewrite Hsplit at 1. simpl. apply perm_skip.
        eapply Permutation_trans; [apply Permutation_sym, Permutation_cons_append|].
        now apply Permutation_sym.
  Qed.
End HeapFacts.

(* ---- the queue over the concrete heapq refines the reference -------------------------- *)
Lemma entry_ge_trans x y z :
  entry_ltb y x = false -> entry_ltb z y = false -> entry_ltb z x = false.
Proof.
  intros H1 H2. destruct (entry_ltb z x) eqn:E; [|reflexivity].
  apply entry_ltb_iff in E.
  assert (N1 : ~ ((e_prio y < e_prio x)%Z \/ (e_prio y = e_prio x /\ e_cnt y < e_cnt x)))
    by (rewrite <- entry_ltb_iff; congruence).
  assert (N2 : ~ ((e_prio z < e_prio y)%Z \/ (e_prio z = e_prio y /\ e_cnt z < e_cnt y)))
    by (rewrite <- entry_ltb_iff; congruence).
  lia.
Qed.

Definition eheap_ok := heap_ok entry_ltb.

Theorem heapq_refines_spec ops :
  q_run heapq_backend (q_init heapq_backend) ops = spec_run [] ops.
Proof.
  apply (queue_refines_spec heapq_backend (fun h => h) eheap_ok).
  - split; [|reflexivity]. intros i Hi y z Ey. destruct i; discriminate.
  - intros b _. destruct b; reflexivity.
  - intros b _. reflexivity.
  - intros b e OK _.
    destruct (hq_push_ok entry_ltb entry_ltb_asym entry_ge_trans b e OK) as (h' & E & OK' & Pm).
    exists h'. auto.
  - intros b OK ND Hne.
    destruct (hq_pop_ok entry_ltb entry_ltb_irrefl entry_ltb_asym entry_ge_trans b OK Hne)
      as (r & h2 & Er & E & OK2 & Pm & Hleast).
    exists r, h2. split; [cbv [b_first heapq_backend]; now rewrite Er|]. split; [exact E|]. split; [exact OK2|].
    split; [exact Pm|].
    intros e' He'.
    assert (NDp : NoDup (map e_cnt (r :: h2))).
    { eapply Permutation_NoDup; [apply Permutation_map; exact Pm|exact ND]. }
    inversion NDp as [|? ? Hn _]; subst.
    assert (Hc : e_cnt r <> e_cnt e').
    { intro Ec. apply Hn. rewrite Ec. now apply in_map. }
    destruct (entry_ltb_total r e' Hc) as [T|T]; [exact T|].
    rewrite (Hleast e') in T; [discriminate|].
    apply (Permutation_in _ (Permutation_sym Pm)). now right.
  - intros b c OK. split; [|reflexivity]. simpl.
    intros i Hi y z Ey Ez. rewrite nth_error_map in Ey, Ez.
    destruct (nth_error b i) as [y0|] eqn:E1; [|discriminate].
    destruct (nth_error b (parent i)) as [z0|] eqn:E2; [|discriminate].
    simpl in Ey, Ez. inversion Ey; inversion Ez; subst.
    rewrite entry_ltb_tomb. exact (OK i Hi y0 z0 E1 E2).
Qed.

Corollary heapq_sorted_equiv (limit : nat -> nat) ops :
  q_run heapq_backend (q_init heapq_backend) ops =
  q_run (sorted_backend limit) (q_init (sorted_backend limit)) ops.
Proof. now rewrite heapq_refines_spec, sorted_refines_spec. Qed.
