(* The StreamReader over the UTF-8 stream: invariant and the contract of
   read(size, chars) for the ways boltons calls it. *)
From Coq Require Import ZifyBool.
From Boltons Require Import Lib.Prelude Spec.C18_Spec Model.C18_Model
  Proofs.C18_Lines Proofs.C18_Bytes Proofs.C18_Mfr Proofs.C18_Utf8.

(* characters decoded but not yet handed out *)
Definition pending (rd : sreader) : list N :=
  match rd_lines rd with Some ls => concat ls | None => rd_chars rd end.

Definition complete_line (l : list N) : Prop := exists b, l = b ++ [10%N] /\ ~ In 10%N b.

Definition lines_ok (rd : sreader) : Prop :=
  match rd_lines rd with
  | None => True
  | Some ls => 2 <= length ls /\ Forall complete_line (removelast ls)
  end.

(* RI C k e: the stream holds the encoding of the text C; k characters have been
   handed out; what follows them in C is the pending characters, then the
   characters R whose encoding is the undecoded bytes plus the unread stream *)
Definition RI (C : list N) (k : nat) (e : encfile) : Prop :=
  rd_ok (ef_rd e) = true /\ k <= length C /\
  rf_data (ef_stream e) = utf8_enc C /\ wf (ef_stream e) /\ lines_ok (ef_rd e) /\
  exists R, skipn k C = pending (ef_rd e) ++ R /\
            utf8_enc R = rd_bytes (ef_rd e) ++ rest (ef_stream e).

Definition nd (size : option nat) (f : rfile) : list N :=
  match size with Some n => firstn n (rest f) | None => rest f end.

Lemma call_read f size : call_data f (Read size) = (advance f (length (nd size f)), nd size f).
Proof. destruct size; reflexivity. Qed.

Lemma nd_split size f : rest f = nd size f ++ rest (advance f (length (nd size f))).
Proof.
  rewrite rest_advance. destruct size as [n|]; cbn [nd].
  - rewrite skipn_firstn_len. symmetry. apply firstn_skipn.
  - rewrite skipn_all. now rewrite app_nil_r.
Qed.

Lemma nd_nil size f : nd size f = [] -> rest f = [] \/ size = Some 0.
Proof.
  destruct size as [[|n]|]; cbn [nd]; auto. destruct (rest f); [auto|discriminate].
Qed.

Lemma advance_wf f k : wf f -> k <= length (rest f) -> wf (advance f k).
Proof. unfold wf, advance. intros W K. rewrite rest_length in K by exact W. cbn. lia. Qed.

Lemma nd_length size f : length (nd size f) <= length (rest f).
Proof. destruct size; cbn [nd]; [rewrite firstn_length|]; lia. Qed.

Lemma Forall_skipn {A} (P : A -> Prop) n l : Forall P l -> Forall P (skipn n l).
Proof.
  revert l; induction n; intros l H; [exact H|]. destruct l; [constructor|]. inversion H; subst. now apply IHn.
Qed.
Lemma Forall_app_r {A} (P : A -> Prop) a b : Forall P (a ++ b) -> Forall P b.
Proof. intro H. apply Forall_app in H. tauto. Qed.

Lemma nonempty_false {A} (l : list A) : nonempty l = false -> l = [].
Proof. destruct l; [reflexivity|discriminate]. Qed.

(* ---- the loop of read() ------------------------------------------------------ *)
Lemma rd_loop_spec C k : forall fuel stream bb cb size R,
  length (rest stream) + 2 <= fuel ->
  wf stream -> skipn k C = cb ++ R -> utf8_enc R = bb ++ rest stream -> Forall uvalid R ->
  exists stream' bb' cb' R',
    rd_loop fuel stream bb cb true size size = (stream', bb', cb', true) /\
    rf_data stream' = rf_data stream /\ wf stream' /\
    skipn k C = cb' ++ R' /\ utf8_enc R' = bb' ++ rest stream' /\
    (match size with Some c => c <= length cb' | None => False end \/ R' = []).
Proof.
  induction fuel as [|fuel IH]; intros stream bb cb size R F W S E V; [lia|].
  cbn [rd_loop].
  destruct (match size with Some c => c <=? length cb | None => false end) eqn:Q.
  { exists stream, bb, cb, R. repeat split; auto. left. destruct size; [|discriminate]. lia. }
  rewrite call_read. set (newdata := nd size stream). set (stream' := advance stream (length newdata)).
  assert (W' : wf stream') by (apply advance_wf; [exact W|apply nd_length]).
  assert (Sp : rest stream = newdata ++ rest stream') by apply nd_split.
  assert (D' : rf_data stream' = rf_data stream) by reflexivity.
  destruct (nonempty (bb ++ newdata)) eqn:NEd.
  2:{ (* nothing buffered, nothing read *)
    apply nonempty_false in NEd. apply app_eq_nil in NEd as [-> Enew].
    assert (Rs : rest stream = []).
    { destruct (nd_nil _ _ Enew) as [H|H]; [exact H|]. subst size. cbn in Q. discriminate. }
    exists stream', [], cb, R. repeat split; auto.
    + rewrite E, Sp. cbn. now rewrite Enew.
    + right. apply enc_nil_inv. rewrite E, Rs. reflexivity. }
  destruct (nonempty newdata) eqn:NEn.
  2:{ (* stream exhausted: what is buffered is the whole rest *)
    apply nonempty_false in NEn.
    assert (Rs : rest stream = []).
    { destruct (nd_nil _ _ NEn) as [H|H]; [exact H|]. subst size. cbn in Q. discriminate. }
    rewrite NEn, app_nil_r. rewrite Rs, app_nil_r in E. rewrite <- E, dec_enc by exact V.
    exists stream', [], (cb ++ R), []. cbn [andb]. repeat split; auto.
    * now rewrite app_nil_r.
    * rewrite Sp in Rs. apply app_eq_nil in Rs as [_ Rs]. now rewrite Rs. }
  assert (Enc : utf8_enc R = (bb ++ newdata) ++ rest stream') by (rewrite E, Sp; now rewrite app_assoc).
  destruct (dec_prefix R V _ _ Enc) as [j [tail [Dd Dp]]].
  rewrite Dd. cbn [andb].
  assert (Enc' : utf8_enc (skipn j R) = tail ++ rest stream').
  { rewrite <- (firstn_skipn j R) in Enc at 1. rewrite enc_app, Dp, <- !app_assoc in Enc.
    apply app_inv_head in Enc. exact Enc. }
  destruct (IH stream' tail (cb ++ firstn j R) size (skipn j R)) as [s2 [b2 [c2 [R2 [L [D2 [W2 [S2 [E2 X2]]]]]]]]].
  * assert (length newdata <> 0) by (destruct newdata; [discriminate|cbn; lia]).
    apply (f_equal (@length N)) in Sp. rewrite app_length in Sp. lia.
  * exact W'.
  * rewrite <- app_assoc, firstn_skipn. exact S.
  * exact Enc'.
  * now apply Forall_skipn.
  * exists s2, b2, c2, R2. repeat split; auto; congruence.
Qed.

(* ---- read(size, chars) as boltons calls it: chars omitted or equal to size ---- *)
Lemma skipn_add {A} a b (l : list A) : skipn (a + b) l = skipn b (skipn a l).
Proof. now rewrite skipn_skipn'. Qed.

Lemma skipn_length_le {A} k (C : list A) : k <= length C -> length (skipn k C) = length C - k.
Proof. intros. apply skipn_length. Qed.

Lemma rd_read_spec C k e size chars :
  Forall uvalid C -> RI C k e -> (chars = None \/ chars = size) ->
  snd (rd_read e size chars) = match size with Some c => firstn c (skipn k C) | None => skipn k C end /\
  RI C (k + length (snd (rd_read e size chars))) (fst (rd_read e size chars)) /\
  rd_lines (ef_rd (fst (rd_read e size chars))) = None.
Proof.
  intros V [Ok [K [D [W [LO [R [Sk E]]]]]]] Hc.
  unfold rd_read.
  replace (match chars with None => size | Some _ => chars end) with size
    by (destruct Hc as [->| ->]; [reflexivity|now destruct size]).
  fold (pending (ef_rd e)). rewrite Ok.
  assert (VR : Forall uvalid R).
  { apply (Forall_app_r _ (pending (ef_rd e))). rewrite <- Sk. now apply Forall_skipn. }
  destruct (rd_loop_spec C k (S (S (length (rest (ef_stream e))))) (ef_stream e) (rd_bytes (ef_rd e))
              (pending (ef_rd e)) size R ltac:(lia) W Sk E VR)
    as [s' [b' [c' [R' [L [D' [W' [S' [E' X]]]]]]]]].
  rewrite L.
  destruct size as [c|]; cbn [fst snd ef_rd ef_stream rd_lines].
  - assert (Hret : firstn c c' = firstn c (skipn k C)).
    { rewrite S'. destruct X as [X| ->]; [|now rewrite app_nil_r].
      rewrite firstn_app. replace (c - length c') with 0 by lia. cbn. now rewrite app_nil_r. }
    split; [exact Hret|]. split; [|reflexivity].
    unfold RI. cbn [ef_rd ef_stream rd_ok rd_bytes]. unfold lines_ok, pending. cbn [rd_lines rd_chars].
    assert (Kl : length (firstn c c') <= length (skipn k C)).
    { rewrite Hret, firstn_length. lia. }
    rewrite skipn_length_le in Kl by exact K.
    repeat split; auto; try lia; try congruence.
    exists R'. split; [|exact E'].
    rewrite skipn_add, S'.
    destruct X as [X| ->]; [|now rewrite !app_nil_r, skipn_firstn_len].
    rewrite firstn_length, Nat.min_l by lia.
    rewrite skipn_app. replace (c - length c') with 0 by lia. reflexivity.
  - destruct X as [[]| ->]. rewrite app_nil_r in S'. subst c'.
    split; [reflexivity|]. split; [|reflexivity].
    unfold RI. cbn [ef_rd ef_stream rd_ok rd_bytes]. unfold lines_ok, pending. cbn [rd_lines rd_chars].
    rewrite skipn_length_le by exact K.
    repeat split; auto; try lia; try congruence.
    exists []. split; [|exact E'].
    rewrite skipn_all2 by lia. reflexivity.
Qed.

(* after StreamRecoder.seek(0): nothing handed out, nothing buffered *)
Lemma ef_seek0_RI C e : rf_data (ef_stream e) = utf8_enc C -> rd_ok (ef_rd e) = true ->
  RI C 0 (ef_seek e 0 0).
Proof.
  intros D Ok. unfold ef_seek, RI. cbn [ef_rd ef_stream].
  change (f_seek (f_seek (ef_stream e) 0 0) 0 0) with (mkRF (rf_data (ef_stream e)) 0).
  unfold rd_reset, lines_ok, pending, wf, rest. cbn. repeat split; auto; try lia.
  exists C. now rewrite D.
Qed.
