(* From URL objects to the texts navigate() is called with: the text-level
   model function [navigate] (the one the correspondence run evaluates), the
   guard of the recorded finding, the refutation of the unguarded statement,
   and concrete inhabitants of the hypotheses. *)
From Coq Require Import String.
From Boltons Require Import Lib.Prelude Lib.C07_Str Spec.C07_Spec Gen.C07_Gen Model.C07_Model
     Proofs.C07_StrLemmas Proofs.C07_Rds Proofs.C07_Resolve Proofs.C07_Parse Proofs.C07_Navigate
     Proofs.C07_RfcExamples.
Open Scope N_scope.
Open Scope list_scope.

(* navigate(dest_text), dest passed as str or as URL object, when the text is
   what the URL type itself would print for it (its normal form) *)
Lemma navigate_normal_form self t d as_url : url_of_text t = Some d -> to_text d = t ->
  navigate self t as_url = Some (navigate_url self d).
Proof.
  intros Hd Ht. unfold navigate, navigate_url. rewrite Hd.
  destruct (is_absolute_dest d); reflexivity.
Qed.

Theorem navigate_text_refines_rfc b t d as_url n :
  wf_base b -> url_of_text t = Some d -> to_text d = t -> wf_ref d \/ wf_base d ->
  navigate b t as_url = Some n ->
  spec_navigate (to_text b) t (to_text n) = true /\ wf_base n.
Proof.
  intros Wb Hd Ht Wd Hn. rewrite (navigate_normal_form b t d as_url Hd Ht) in Hn.
  inversion Hn; subst n. split.
  - rewrite <- Ht. apply navigate_url_refines_rfc; assumption.
  - apply navigate_url_wf; assumption.
Qed.

(* the normal-form hypothesis covers the guard of the recorded finding: a
   reference in normal form never has an empty query / fragment marker *)
Lemma kv_text_not_amp kv : kv_ok kv -> forallb (fun c => c =? AMP) (kv_text kv) = false.
Proof.
  intros (Hne & Hk & _). unfold kv_text, quote_query_part. 
  assert (E : forall rest, forallb (fun c => c =? AMP) (quote_with gen_query_delims (fst kv) ++ rest) = false).
  { intro rest. rewrite (quote_with_id _ _ Hk). destruct (fst kv) as [|c k]; [contradiction|].
    cbn [forallb app]. cbn [forallb] in Hk. apply andb_true_iff in Hk as [Hc _].
    apply query_delims_cover in Hc. unfold not_in, mem in Hc. cbn [existsb] in Hc.
    apply negb_true_iff, orb_false_iff in Hc as [_ Hc]. apply orb_false_iff in Hc as [Hc _].
    rewrite Hc. reflexivity. }
  destruct (snd kv); [apply E|]. rewrite <- (app_nil_r (quote_with _ _)). apply E.
Qed.

Theorem normal_form_excludes_marker r : wf_ref r -> ref_has_empty_marker (to_text r) = false.
Proof.
  intro W. destruct (ref_facts r W) as (Hu & Tr & Ur).
  unfold ref_has_empty_marker. rewrite Tr, (parse_recompose _ Ur), Hu.
  cbn [query fragment]. apply orb_false_iff. split.
  - pose proof (opt_spec (query_text (u_query r))) as S.
    destruct (opt (query_text (u_query r))) as [x|]; [|reflexivity]. destruct S as [-> Hne].
    pose proof (wr_query r W) as Hq. rewrite query_text_eq in *.
    destruct Hq as [|kv l Hkv _]; [contradiction|]. cbn [map join].
    rewrite forallb_app', (kv_text_not_amp kv Hkv). reflexivity.
  - pose proof (opt_spec (u_frag r)) as S. destruct (opt (u_frag r)) as [x|]; [|reflexivity].
    destruct S as [-> Hne]. destruct (u_frag r); [contradiction|reflexivity].
Qed.

(* ---- the unguarded text-level statement is false: the recorded finding --------------- *)
Definition or_dummy (o : option url) : url :=
  match o with Some u => u | None => mkUrl [] false [] [] [] None [] [] [] end.

Definition rf_base_t : str := codes "http://a/b/c/d;p?q".
Definition rf_base : url := or_dummy (url_of_text rf_base_t).

Ltac wf_concrete :=
  constructor; vm_compute;
  repeat first [ discriminate | reflexivity | exact I | (eexists; reflexivity) | split | constructor ].

Lemma rf_base_wf : wf_base rf_base.
Proof. wf_concrete. Qed.

(* "?" : the base query must go (RFC 3986 5.2.2), the model (like the code) keeps it;
   "#" : the empty fragment marker is dropped *)
Theorem navigate_empty_marker_refuted :
  wf_base rf_base /\
  (exists t n, ref_has_empty_marker t = true /\ navigate rf_base t false = Some n /\
               spec_navigate (to_text rf_base) t (to_text n) = false) /\
  (exists t n, ref_has_empty_marker t = true /\ navigate rf_base t true = Some n /\
               spec_navigate (to_text rf_base) t (to_text n) = false).
Proof.
  split; [exact rf_base_wf|]. split.
  - exists (codes "?"), (or_dummy (navigate rf_base (codes "?") false)). vm_compute. repeat split; reflexivity.
  - exists (codes "#"), (or_dummy (navigate rf_base (codes "#") true)). vm_compute. repeat split; reflexivity.
Qed.

(* ---- inhabitants: a non-trivial base and references meeting the hypotheses ---------- *)
Definition ex_base_t : str := codes "http://u:p@h.x:8080/b/c/../d;p/.?q=1&k#f".
Definition ex_ref1_t : str := codes "../.././g//h/..?y=2#s".
Definition ex_ref2_t : str := codes "/x/./y/../../../z/".
Definition ex_abs_t : str := codes "https://example.com/a/../b/./c/..?k=v".
Definition ex_base : url := or_dummy (url_of_text ex_base_t).
Definition ex_ref1 : url := or_dummy (url_of_text ex_ref1_t).
Definition ex_ref2 : url := or_dummy (url_of_text ex_ref2_t).
Definition ex_abs : url := or_dummy (url_of_text ex_abs_t).

Lemma ex_base_wf : wf_base ex_base. Proof. wf_concrete. Qed.
Lemma ex_ref1_wf : wf_ref ex_ref1. Proof. wf_concrete. Qed.
Lemma ex_ref2_wf : wf_ref ex_ref2. Proof. wf_concrete. Qed.
Lemma ex_abs_wf : wf_base ex_abs. Proof. wf_concrete. Qed.

Lemma ex_texts :
  url_of_text ex_base_t = Some ex_base /\ to_text ex_base = ex_base_t /\
  url_of_text ex_ref1_t = Some ex_ref1 /\ to_text ex_ref1 = ex_ref1_t /\
  url_of_text ex_ref2_t = Some ex_ref2 /\ to_text ex_ref2 = ex_ref2_t /\
  url_of_text ex_abs_t = Some ex_abs /\ to_text ex_abs = ex_abs_t /\
  to_text (navigate_rel ex_base ex_ref1) = codes "http://u:p@h.x:8080/g//?y=2#s" /\
  to_text (navigate_rel (navigate_rel ex_base ex_ref1) ex_ref2) = codes "http://u:p@h.x:8080/z/" /\
  to_text (navigate_url ex_base ex_abs) = codes "https://example.com/b/?k=v".
Proof. vm_compute. repeat split; reflexivity. Qed.
