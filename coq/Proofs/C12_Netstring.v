(* C12, netstrings: write_ns puts the frames on the wire; read_ns, repeated
   after Timeout, returns exactly the payloads, for any payload bytes, any
   chunking of the wire and any placement of time-outs. *)
From Coq Require Import Wf_nat.
From Boltons Require Import Lib.Prelude Lib.C12_Base Spec.C12_Spec Model.C12_Model
  Proofs.C12_Find Proofs.C12_Recv Proofs.C12_Send Proofs.C12_Main.

(* ---- decimal notation --------------------------------------------------------------- *)
Lemma dec_fuel_acc : forall f n acc, dec_fuel f n acc = dec_fuel f n [] ++ acc.
Proof.
  induction f as [|f IH]; intros n acc; cbn [dec_fuel]; [reflexivity|].
  destruct (Nat.ltb n 10); [reflexivity|].
  rewrite IH. rewrite (IH _ [_]). rewrite <- app_assoc. reflexivity.
Qed.

Lemma dec_fuel_irrel : forall f g n acc, n < f -> n < g -> dec_fuel f n acc = dec_fuel g n acc.
Proof.
  induction f as [|f IH]; intros g n acc Hf Hg; [lia|].
  destruct g as [|g]; [lia|]. cbn [dec_fuel].
  destruct (Nat.ltb n 10) eqn:E; [reflexivity|]. apply Nat.ltb_ge in E.
  assert (n / 10 < n) by (apply Nat.div_lt; lia).
  apply IH; lia.
Qed.

Lemma dec_eqn n :
  dec n = if Nat.ltb n 10 then [digit_byte n] else dec (n / 10) ++ [digit_byte (n mod 10)].
Proof.
  unfold dec at 1. cbn [dec_fuel]. destruct (Nat.ltb n 10) eqn:E.
  - apply Nat.ltb_lt in E. rewrite Nat.mod_small by assumption. reflexivity.
  - apply Nat.ltb_ge in E. rewrite dec_fuel_acc. f_equal.
    assert (n / 10 < n) by (apply Nat.div_lt; lia).
    apply dec_fuel_irrel; lia.
Qed.

Lemma dec_nonempty n : dec n <> [].
Proof.
  rewrite dec_eqn. destruct (Nat.ltb n 10); [discriminate|].
  intro H. apply app_eq_nil in H as [_ H]. discriminate.
Qed.

Lemma digit_val_digit d : d < 10 -> digit_val (digit_byte d) = Some d.
Proof.
  intro H. unfold digit_val, digit_byte.
  rewrite (proj2 (N.leb_le _ _)) by lia. rewrite (proj2 (N.leb_le _ _)) by lia. cbn [andb].
  rewrite Nnat.Nat2N.id. f_equal. lia.
Qed.

Lemma digit_not_colon d : d < 10 -> digit_byte d <> 58%N.
Proof. intro H. unfold digit_byte. lia. Qed.

Lemma int_acc_app : forall l c a,
  int_acc (l ++ [c]) a =
  match int_acc l a with
  | Some v => match digit_val c with Some d => Some (v * 10 + d) | None => None end
  | None => None
  end.
Proof.
  induction l as [|x l IH]; intros c a; cbn [app int_acc].
  - destruct (digit_val c); reflexivity.
  - destruct (digit_val x); [apply IH|reflexivity].
Qed.

Lemma int_dec n : int_acc (dec n) 0 = Some n.
Proof.
  induction n as [n IH] using lt_wf_ind. rewrite dec_eqn.
  destruct (Nat.ltb n 10) eqn:E.
  - apply Nat.ltb_lt in E. cbn [int_acc]. rewrite digit_val_digit by assumption. reflexivity.
  - apply Nat.ltb_ge in E. rewrite int_acc_app.
    rewrite IH by (apply Nat.div_lt; lia).
    rewrite digit_val_digit by (apply Nat.mod_upper_bound; lia).
    f_equal. pose proof (Nat.div_mod n 10 ltac:(lia)). lia.
Qed.

Lemma py_int_dec n : py_int (dec n) = Some n.
Proof.
  unfold py_int. pose proof (dec_nonempty n). pose proof (int_dec n).
  destruct (dec n); [congruence|assumption].
Qed.

Lemma dec_no_colon n : Forall (fun c => c <> 58%N) (dec n).
Proof.
  induction n as [n IH] using lt_wf_ind. rewrite dec_eqn.
  destruct (Nat.ltb n 10) eqn:E.
  - apply Nat.ltb_lt in E. constructor; [apply digit_not_colon; assumption|constructor].
  - apply Nat.ltb_ge in E. apply Forall_app. split.
    + apply IH. apply Nat.div_lt; lia.
    + constructor; [|constructor]. apply digit_not_colon. apply Nat.mod_upper_bound. lia.
Qed.

Lemma dec_len_mono : forall m n, n <= m -> length (dec n) <= length (dec m).
Proof.
  induction m as [m IH] using lt_wf_ind. intros n Hn. rewrite (dec_eqn n), (dec_eqn m).
  destruct (Nat.ltb m 10) eqn:Em.
  - apply Nat.ltb_lt in Em. rewrite (proj2 (Nat.ltb_lt n 10)) by lia. cbn. lia.
  - apply Nat.ltb_ge in Em. rewrite app_length. cbn [length].
    destruct (Nat.ltb n 10) eqn:En; [cbn; lia|]. apply Nat.ltb_ge in En.
    rewrite app_length. cbn [length].
    assert (length (dec (n / 10)) <= length (dec (m / 10))).
    { apply IH; [apply Nat.div_lt; lia|]. apply Nat.div_le_mono; lia. }
    lia.
Qed.

(* ---- searching for a single byte ------------------------------------------------------------ *)
Lemma first_occ_single c : forall pre rest,
  Forall (fun x => x <> c) pre -> first_occ [c] (pre ++ c :: rest) = Some (length pre).
Proof.
  induction pre as [|x pre IH]; intros rest H; cbn [app first_occ is_prefix length].
  - rewrite N.eqb_refl. reflexivity.
  - inversion H; subst. assert (E : N.eqb c x = false) by (apply N.eqb_neq; congruence).
    rewrite E. cbn [andb]. rewrite IH by assumption. reflexivity.
Qed.

Lemma firstn_app_cons {A} (pre : list A) c rest m :
  length pre + 1 <= m -> firstn m (pre ++ c :: rest) = pre ++ c :: firstn (m - length pre - 1) rest.
Proof.
  intro H. rewrite firstn_app. rewrite firstn_all2 by lia. f_equal.
  destruct (m - length pre) as [|j] eqn:E; [lia|]. cbn [firstn].
  replace (S j - 1) with j by lia. reflexivity.
Qed.

(* ---- write side ------------------------------------------------------------------------------ *)
Lemma frame_model p : py_str (length p) ++ 58%N :: p ++ [44%N] = frame p.
Proof. reflexivity. Qed.

Lemma frame_app p rest : frame p ++ rest = dec (length p) ++ 58%N :: p ++ 44%N :: rest.
Proof. unfold frame. rewrite <- app_assoc. cbn [app]. rewrite <- app_assoc. reflexivity. Qed.

Lemma write_ns_ok x p :
  length p <= ns_maxsize x -> sintrs (script (ns_bs x)) = [] -> concat (sbuf (ns_bs x)) = [] ->
  exists x', write_ns x p = (ONone, x') /\
    wire (ns_bs x') = wire (ns_bs x) ++ frame p /\ concat (sbuf (ns_bs x')) = [] /\
    sintrs (script (ns_bs x')) = [] /\ ns_maxsize x' = ns_maxsize x.
Proof.
  intros Hp Hs Hb. unfold write_ns. rewrite (proj2 (Nat.ltb_ge _ _)) by assumption.
  rewrite frame_model.
  destruct (send (ns_bs x) (frame p)) as [o s'] eqn:E. pose proof (send_gen _ _ _ _ E) as (_ & sent & Hw & Hc & Hcase).
  destruct o as [|n| |e]; try contradiction.
  - destruct Hcase as (Hsb & _ & Hst). eexists. split; [reflexivity|]. cbn [ns_bs with_bs ns_maxsize].
    rewrite Hsb, Hb, !app_nil_r in Hc. repeat split; auto. congruence.
  - rewrite Hs in Hcase. discriminate.
Qed.

Lemma ns_run_writes : forall ps x obs w,
  Forall (fun p => length p <= ns_maxsize x) ps ->
  sintrs (script (ns_bs x)) = [] -> concat (sbuf (ns_bs x)) = [] ->
  ns_run true 0 x (map WriteNs ps) = (obs, w) ->
  wire (ns_bs w) = wire (ns_bs x) ++ concat (map frame ps) /\ getsendbuffer (ns_bs w) = [] /\
  map (fun y => o_out (snd y)) obs = map (fun _ => ONone) ps.
Proof.
  induction ps as [|p ps IH]; intros x obs w Hall Hs Hb H; cbn [map ns_run] in H.
  - inversion H; subst. cbn. rewrite app_nil_r. auto.
  - inversion Hall as [|? ? Hp Hrest]; subst.
    cbn [ns_step] in H. destruct (write_ns_ok x p Hp Hs Hb) as (x1 & E & Hw & Hb1 & Hs1 & Hm).
    rewrite E in H. destruct (ns_run true 0 x1 (map WriteNs ps)) as [obs' w'] eqn:E2.
    inversion H; subst; clear H.
    apply IH in E2; auto; [|rewrite Hm; assumption].
    destruct E2 as (H1 & H2 & H3). cbn [map concat o_out snd]. rewrite H1, Hw, <- app_assoc, H3. auto.
Qed.

Theorem write_ns_frames wmax sc ps :
  sintrs sc = [] -> Forall (fun p => length p <= wmax) ps ->
  let '(obs, w) := ns_run true 0 (ns_init wmax [] sc) (map WriteNs ps) in
  wire (ns_bs w) = concat (map frame ps) /\ getsendbuffer (ns_bs w) = [] /\
  map (fun x => o_out (snd x)) obs = map (fun _ => ONone) ps.
Proof.
  intros Hs Hall. destruct (ns_run true 0 (ns_init wmax [] sc) (map WriteNs ps)) as [obs w] eqn:E.
  apply ns_run_writes in E; auto.
Qed.

(* ---- read side --------------------------------------------------------------------------------- *)
Record ns_inv (x : ns) : Prop := mkNsInv {
  I_wf : wf_net (nt (ns_bs x)) = true;
  I_rs : 1 <= recvsize (ns_bs x);
  I_msg : ns_msgsize_maxsize x = length (dec (ns_maxsize x)) + 1
}.

Definition ns_rem (x : ns) : bytes := remaining (ns_bs x).
Definition ns_tmo (x : ns) : list exn := intrs (nt (ns_bs x)).

Lemma spec_recv_one c rest dd :
  spec_recv_ok (c :: rest) 1 dd = true -> dd = [c].
Proof.
  unfold spec_recv_ok. intro H. apply andb_true_iff in H as [H H3].
  apply andb_true_iff in H as [H1 H2]. apply Nat.leb_le in H2.
  destruct dd as [|a [|b dd]]; cbn in *; try lia; try discriminate.
  apply andb_true_iff in H1 as [H1 _]. apply N.eqb_eq in H1. congruence.
Qed.

Lemma read_ns_ok x p rest out x' :
  ns_inv x -> length p <= ns_maxsize x -> ns_rem x = frame p ++ rest ->
  read_ns x None = (out, x') ->
  ns_inv x' /\ ns_maxsize x' = ns_maxsize x /\
  ((exists e, out = OExn e /\ ns_rem x' = ns_rem x /\ ns_tmo x = e :: ns_tmo x') \/
   (out = OBytes p /\ ns_rem x' = rest /\ ns_tmo x' = ns_tmo x)).
Proof.
  intros [W R M] Hp Hrem H. unfold ns_rem, ns_tmo in *. unfold read_ns in H.
  set (k := length (dec (length p))).
  assert (Hk : k + 1 <= ns_msgsize_maxsize x).
  { rewrite M. pose proof (dec_len_mono _ _ Hp). unfold k. lia. }
  (* phase 1: the size prefix *)
  destruct (recv_until (ns_bs x) [58%N] (MVal (ns_msgsize_maxsize x)) false) as [o1 s1] eqn:E1.
  pose proof (recv_until_ok _ _ _ _ _ _ W R E1) as (W1 & SR1 & _ & C1).
  assert (Rs1 : 1 <= recvsize s1) by (destruct SR1 as (_ & -> & _); assumption).
  destruct C1 as [(e & -> & Hr1 & Ht1)|(_ & Ht1 & C1)].
  { inversion H; subst; clear H. cbn [ns_bs with_bs ns_maxsize ns_msgsize_maxsize].
    split; [constructor; assumption|]. split; [reflexivity|]. left. exists e. auto. }
  cbn [spec_framing resolve lim_take] in C1. rewrite Hrem in C1.
  assert (F1 : first_occ [58%N] (firstn (ns_msgsize_maxsize x) (frame p ++ rest)) = Some k).
  { unfold frame. rewrite <- app_assoc. cbn [app]. rewrite firstn_app_cons by (fold k; lia).
    apply first_occ_single. apply dec_no_colon. }
  rewrite F1 in C1. inversion C1 as [[Ho1 Hrem1]]; clear C1.
  assert (Hpre : firstn k (frame p ++ rest) = dec (length p)).
  { unfold frame. rewrite <- app_assoc. rewrite firstn_app_le by (fold k; lia). apply firstn_all. }
  assert (Hrest1 : skipn (k + 1) (frame p ++ rest) = p ++ 44%N :: rest).
  { unfold frame. rewrite <- app_assoc. cbn [app]. rewrite <- app_assoc. cbn [app].
    rewrite skipn_app.
    rewrite skipn_all2 by (fold k; lia). cbn [app].
    replace (k + 1 - length (dec (length p))) with 1 by (unfold k; lia). reflexivity. }
  rewrite Hpre in Ho1. rewrite Hrest1 in Hrem1. subst o1.
  rewrite py_int_dec in H. rewrite (proj2 (Nat.ltb_ge _ _)) in H by assumption.
  (* phase 2: the payload *)
  destruct (recv_size s1 (length p)) as [o2 s2] eqn:E2.
  pose proof (recv_size_ok _ _ _ _ W1 Rs1 E2) as (W2 & SR2 & _ & C2).
  assert (Rs2 : 1 <= recvsize s2) by (destruct SR2 as (_ & -> & _); assumption).
  destruct C2 as [(e & -> & Hr2 & Ht2)|(_ & Ht2 & C2)].
  { inversion H; subst; clear H. cbn [ns_bs with_bs ns_maxsize ns_msgsize_maxsize nt rbuf set_recv].
    split; [constructor; assumption|]. split; [reflexivity|]. left. exists e. split; [reflexivity|].
    split; [|congruence].
    rewrite remaining_set_recv, <- app_assoc. change (rbuf s2 ++ flat (nt s2)) with (remaining s2).
    rewrite Hr2, <- Hrem1, Hrem, frame_app, <- app_assoc. reflexivity. }
  cbn [spec_framing] in C2. rewrite <- Hrem1 in C2.
  assert (Hc2 : Nat.leb (length p) (length (p ++ 44%N :: rest)) && negb (is_nil (p ++ 44%N :: rest)) = true).
  { rewrite (proj2 (Nat.leb_le _ _)) by (rewrite app_length; lia). destruct p; reflexivity. }
  rewrite Hc2 in C2. inversion C2 as [[Ho2 Hrem2]]; clear C2.
  rewrite firstn_app_le, firstn_all in Ho2 by lia.
  rewrite skipn_app, skipn_all, Nat.sub_diag in Hrem2. cbn [app skipn] in Hrem2. subst o2.
  (* phase 3: the trailing comma *)
  destruct (recv s2 1) as [o3 s3] eqn:E3.
  pose proof (recv_ok _ _ _ _ W2 Rs2 E3) as (W3 & SR3 & _ & C3).
  assert (Rs3 : 1 <= recvsize s3) by (destruct SR3 as (_ & -> & _); assumption).
  destruct C3 as [(e & -> & Hr3 & Ht3)|(_ & Ht3 & (dd & -> & Hok & Hr3))].
  { inversion H; subst; clear H. cbn [ns_bs with_bs ns_maxsize ns_msgsize_maxsize nt rbuf set_recv].
    split; [constructor; assumption|]. split; [reflexivity|]. left. exists e. split; [reflexivity|].
    split; [|congruence].
    rewrite remaining_set_recv, <- app_assoc. change (rbuf s3 ++ flat (nt s3)) with (remaining s3).
    rewrite Hr3, <- Hrem2, Hrem, frame_app, <- app_assoc. reflexivity. }
  rewrite <- Hrem2 in Hok, Hr3. apply spec_recv_one in Hok. subst dd. cbn [length skipn] in Hr3.
  change (bytes_eqb [44%N] [44%N]) with true in H. cbv iota in H.
  inversion H; subst; clear H. cbn [ns_bs with_bs ns_maxsize ns_msgsize_maxsize].
  split; [constructor; assumption|]. split; [reflexivity|]. right. repeat split; congruence.
Qed.

Lemma read_ns_retry_ok : forall fuel x p rest out x',
  ns_inv x -> length p <= ns_maxsize x -> ns_rem x = frame p ++ rest -> length (ns_tmo x) <= fuel ->
  read_ns_retry fuel x None = (out, x') ->
  ns_inv x' /\ ns_maxsize x' = ns_maxsize x /\ out = OBytes p /\ ns_rem x' = rest.
Proof.
  induction fuel as [|f IH]; intros x p rest out x' I Hp Hrem F H; cbn [read_ns_retry] in H;
    destruct (read_ns x None) as [o1 x1] eqn:E;
    destruct (read_ns_ok _ _ _ _ _ I Hp Hrem E) as (I1 & Hm & [(e & -> & Hr & Ht)|(-> & Hr & Ht)]).
  - rewrite Ht in F. cbn in F. lia.
  - cbn in H. inversion H; subst. auto.
  - cbn [is_interrupt] in H. unfold ns_tmo in Ht. rewrite (intrs_head _ _ _ Ht) in H.
    apply IH with (p := p) (rest := rest) in H; try congruence.
    unfold ns_tmo in F. rewrite Ht in F. cbn in F. unfold ns_tmo. lia.
  - cbn in H. inversion H; subst. auto.
Qed.

Lemma ns_read_retry_ok : forall ps x,
  ns_inv x -> Forall (fun p => length p <= ns_maxsize x) ps -> ns_rem x = concat (map frame ps) ->
  ns_read_retry x (length ps) = map OBytes ps.
Proof.
  induction ps as [|p ps IH]; intros x I Hall Hrem; [reflexivity|].
  inversion Hall as [|? ? Hp Hrest]; subst. cbn [length ns_read_retry map].
  destruct (read_ns_retry (timeouts (nt (ns_bs x))) x None) as [out x'] eqn:E.
  cbn [map concat] in Hrem.
  apply read_ns_retry_ok with (p := p) (rest := concat (map frame ps)) in E; auto;
    try (unfold ns_tmo, timeouts; apply le_n).
  destruct E as (I' & Hm & -> & Hr). f_equal. apply IH; auto. rewrite Hm. assumption.
Qed.

Theorem netstring_roundtrip rmax ps n :
  wf_net n = true -> flat n = concat (map frame ps) ->
  Forall (fun p => length p <= rmax) ps ->
  ns_read_retry (ns_init rmax n []) (length ps) = map OBytes ps.
Proof.
  intros W Hf Hall. apply ns_read_retry_ok; auto.
  constructor; cbn [ns_init ns_bs bs_init nt recvsize ns_msgsize_maxsize ns_maxsize]; auto.
  apply Nat.ltb_lt. vm_compute. reflexivity.
Qed.
