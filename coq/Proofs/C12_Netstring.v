(* C12, netstrings: write_ns puts the frames on the wire; read_ns, repeated
   after Timeout, returns exactly the payloads, for any payload bytes, any
   chunking of the wire and any placement of time-outs. *)
From Coq Require Import Wf_nat.
From Boltons Require Import Lib.Prelude Lib.C12_Base Spec.C12_Spec Model.C12_Model
  Proofs.C12_Find Proofs.C12_Recv Proofs.C12_Send Proofs.C12_Main.

(* ---- decimal notation --------------------------------------------------------------- *)
Lemma dec_fuel_acc : forall f n acc, dec_fuel f n acc = dec_fuel f n [] ++ acc.
Proof.
  induction f as [|f IH]; intros n acc; cbn [dec_fuel]; [reflexivity|].
  destruct (Nat.ltb n 10); [reflexivity|].
  rewrite IH. rewrite (IH _ [_]). rewrite <- app_assoc. reflexivity.
Qed.

Lemma dec_fuel_irrel : forall f g n acc, n < f -> n < g -> dec_fuel f n acc = dec_fuel g n acc.
Proof.
  induction f as [|f IH]; intros g n acc Hf Hg; [lia|].
  destruct g as [|g]; [lia|]. cbn [dec_fuel].
  destruct (Nat.ltb n 10) eqn:E; [reflexivity|]. apply Nat.ltb_ge in E.
  assert (n / 10 < n) by (apply Nat.div_lt; lia).
  apply IH; lia.
Qed.

Lemma dec_eqn n :
  dec n = if Nat.ltb n 10 then [digit_byte n] else dec (n / 10) ++ [digit_byte (n mod 10)].
Proof.
  unfold dec at 1. cbn [dec_fuel]. destruct (Nat.ltb n 10) eqn:E.
  - apply Nat.ltb_lt in E. rewrite Nat.mod_small by assumption. reflexivity.
  - apply Nat.ltb_ge in E. rewrite dec_fuel_acc. f_equal.
    assert (n / 10 < n) by (apply Nat.div_lt; lia).
    apply dec_fuel_irrel; lia.
Qed.

Lemma dec_nonempty n : dec n <> [].
Proof.
  rewrite dec_eqn. destruct (Nat.ltb n 10); [discriminate|].
  intro H. apply app_eq_nil in H as [_ H]. discriminate.
Qed.

Lemma digit_val_digit d : d < 10 -> digit_val (digit_byte d) = Some d.
Proof.
  intro H. unfold digit_val, digit_byte.
  rewrite (proj2 (N.leb_le _ _)) by lia. rewrite (proj2 (N.leb_le _ _)) by lia. cbn [andb].
  rewrite Nnat.Nat2N.id. f_equal. lia.
Qed.

Lemma digit_not_colon d : d < 10 -> digit_byte d <> 58%N.
Proof. intro H. unfold digit_byte. lia. Qed.

Lemma int_acc_app : forall l c a,
  int_acc (l ++ [c]) a =
  match int_acc l a with
  | Some v => match digit_val c with Some d => Some (v * 10 + d) | None => None end
  | None => None
  end.
Proof.
  induction l as [|x l IH]; intros c a; cbn [app int_acc].
  - destruct (digit_val c); reflexivity.
  - destruct (digit_val x); [apply IH|reflexivity].
Qed.

Lemma int_dec n : int_acc (dec n) 0 = Some n.
Proof.
  induction n as [n IH] using lt_wf_ind. rewrite dec_eqn.
  destruct (Nat.ltb n 10) eqn:E.
  - apply Nat.ltb_lt in E. cbn [int_acc]. rewrite digit_val_digit by assumption. reflexivity.
  - apply Nat.ltb_ge in E. rewrite int_acc_app.
    rewrite IH by (apply Nat.div_lt; lia).
    rewrite digit_val_digit by (apply Nat.mod_upper_bound; lia).
    f_equal. pose proof (Nat.div_mod n 10 ltac:(lia)). lia.
Qed.

(* every byte of a decimal numeral is a digit *)
Definition isdig (c : N) : bool := match digit_val c with Some _ => true | None => false end.

Lemma dec_isdig n : Forall (fun c => isdig c = true) (dec n).
Proof.
  induction n as [n IH] using lt_wf_ind. rewrite dec_eqn.
  destruct (Nat.ltb n 10) eqn:E.
  - apply Nat.ltb_lt in E. constructor; [|constructor]. unfold isdig. rewrite digit_val_digit by assumption.
    reflexivity.
  - apply Nat.ltb_ge in E. apply Forall_app. split.
    + apply IH. apply Nat.div_lt; lia.
    + constructor; [|constructor]. unfold isdig.
      rewrite digit_val_digit by (apply Nat.mod_upper_bound; lia). reflexivity.
Qed.

Lemma isdig_range c : isdig c = true -> (48 <= c <= 57)%N.
Proof.
  unfold isdig, digit_val. destruct (N.leb 48 c && N.leb c 57) eqn:E; [|discriminate].
  apply andb_true_iff in E as [E1 E2]. apply N.leb_le in E1, E2. lia.
Qed.

Lemma isdig_not_ws c : isdig c = true -> is_ws c = false.
Proof.
  intro H. apply isdig_range in H. unfold is_ws.
  assert (E1 : N.eqb c 32 = false) by (apply N.eqb_neq; lia).
  assert (E2 : N.leb c 13 = false) by (apply N.leb_gt; lia).
  rewrite E1, E2, andb_false_r. reflexivity.
Qed.

Lemma isdig_neq c k : isdig c = true -> (k < 48 \/ 57 < k)%N -> N.eqb c k = false.
Proof. intros H Hk. apply isdig_range in H. apply N.eqb_neq. lia. Qed.

Lemma lstrip_ws_digits l : Forall (fun c => isdig c = true) l -> lstrip_ws l = l.
Proof.
  destruct l as [|c r]; intro H; [reflexivity|]. inversion H; subst. cbn [lstrip_ws].
  rewrite isdig_not_ws by assumption. reflexivity.
Qed.

Lemma strip_ws_digits l : Forall (fun c => isdig c = true) l -> strip_ws l = l.
Proof.
  intro H. unfold strip_ws. rewrite (lstrip_ws_digits l H).
  rewrite lstrip_ws_digits by (apply Forall_rev; exact H). apply rev_involutive.
Qed.

Lemma us_ok_digits : forall l, Forall (fun c => isdig c = true) l -> us_ok l false = true.
Proof.
  induction l as [|c r IH]; intro H; [reflexivity|]. inversion H as [|? ? Hc Hr]; subst. cbn [us_ok].
  unfold isdig in Hc. destruct (digit_val c); [apply IH; assumption|discriminate].
Qed.

Lemma filter_us_digits l :
  Forall (fun c => isdig c = true) l -> filter (fun c => negb (N.eqb c 95)) l = l.
Proof.
  induction l as [|c r IH]; intro H; [reflexivity|]. inversion H as [|? ? Hc Hr]; subst. cbn [filter].
  rewrite (isdig_neq c 95 Hc) by lia. cbn [negb]. rewrite IH by assumption. reflexivity.
Qed.

Lemma py_int_dec n : py_int (dec n) = Some (Z.of_nat n).
Proof.
  pose proof (dec_isdig n) as Hd. pose proof (dec_nonempty n) as Hne. pose proof (int_dec n) as Hi.
  unfold py_int. rewrite strip_ws_digits by assumption.
  destruct (dec n) as [|c r] eqn:E; [congruence|].
  inversion Hd as [|? ? Hc Hr]; subst.
  rewrite (isdig_neq c 43 Hc) by lia. rewrite (isdig_neq c 45 Hc) by lia.
  cbn [us_ok]. unfold isdig in Hc. destruct (digit_val c) eqn:Ec; [|discriminate].
  rewrite us_ok_digits by assumption.
  rewrite filter_us_digits by (constructor; [unfold isdig; rewrite Ec; reflexivity|assumption]).
  rewrite Hi. reflexivity.
Qed.

Lemma dec_no_colon n : Forall (fun c => c <> 58%N) (dec n).
Proof.
  induction n as [n IH] using lt_wf_ind. rewrite dec_eqn.
  destruct (Nat.ltb n 10) eqn:E.
  - apply Nat.ltb_lt in E. constructor; [apply digit_not_colon; assumption|constructor].
  - apply Nat.ltb_ge in E. apply Forall_app. split.
    + apply IH. apply Nat.div_lt; lia.
    + constructor; [|constructor]. apply digit_not_colon. apply Nat.mod_upper_bound. lia.
Qed.

Lemma dec_len_mono : forall m n, n <= m -> length (dec n) <= length (dec m).
Proof.
  induction m as [m IH] using lt_wf_ind. intros n Hn. rewrite (dec_eqn n), (dec_eqn m).
  destruct (Nat.ltb m 10) eqn:Em.
  - apply Nat.ltb_lt in Em. rewrite (proj2 (Nat.ltb_lt n 10)) by lia. cbn. lia.
  - apply Nat.ltb_ge in Em. rewrite app_length. cbn [length].
    destruct (Nat.ltb n 10) eqn:En; [cbn; lia|]. apply Nat.ltb_ge in En.
    rewrite app_length. cbn [length].
    assert (length (dec (n / 10)) <= length (dec (m / 10))).
    { apply IH; [apply Nat.div_lt; lia|]. apply Nat.div_le_mono; lia. }
    lia.
Qed.

(* ---- searching for a single byte ------------------------------------------------------------ *)
Lemma first_occ_single c : forall pre rest,
  Forall (fun x => x <> c) pre -> first_occ [c] (pre ++ c :: rest) = Some (length pre).
Proof.
  induction pre as [|x pre IH]; intros rest H; cbn [app first_occ is_prefix length].
  - rewrite N.eqb_refl. reflexivity.
  - inversion H; subst. assert (E : N.eqb c x = false) by (apply N.eqb_neq; congruence).
    rewrite E. cbn [andb]. rewrite IH by assumption. reflexivity.
Qed.

Lemma firstn_app_cons {A} (pre : list A) c rest m :
  length pre + 1 <= m -> firstn m (pre ++ c :: rest) = pre ++ c :: firstn (m - length pre - 1) rest.
Proof.
  intro H. rewrite firstn_app. rewrite firstn_all2 by lia. f_equal.
  destruct (m - length pre) as [|j] eqn:E; [lia|]. cbn [firstn].
  replace (S j - 1) with j by lia. reflexivity.
Qed.

(* ---- write side ------------------------------------------------------------------------------ *)
Lemma frame_model p : py_str (length p) ++ 58%N :: p ++ [44%N] = frame p.
Proof. reflexivity. Qed.

Lemma frame_app p rest : frame p ++ rest = dec (length p) ++ 58%N :: p ++ 44%N :: rest.
Proof. unfold frame. rewrite <- app_assoc. cbn [app]. rewrite <- app_assoc. reflexivity. Qed.

(* ---- read side --------------------------------------------------------------------------------- *)
Record ns_inv (x : ns) : Prop := mkNsInv {
  I_wf : wf_net (nt (ns_bs x)) = true;
  I_rs : 1 <= recvsize (ns_bs x);
  I_msg : ns_msgsize_maxsize x = length (dec (ns_maxsize x)) + 1;
  I_dl : dl (ns_bs x) = true      (* BufferedSocket(sock) always has a (default) timeout *)
}.

Definition ns_rem (x : ns) : bytes := remaining (ns_bs x).
Definition ns_tmo (x : ns) : list exn := intrs (nt (ns_bs x)).
Definition ns_net (x : ns) : net := nt (ns_bs x).
(* read_ns can be interrupted by the network or by a deadline (the inner BufferedSocket always has one) *)
Definition ns_intr_by (e : exn) (x x' : ns) : Prop := intr_by true e (ns_net x) (ns_net x').

Lemma spec_recv_one c rest dd :
  spec_recv_ok (c :: rest) 1 dd = true -> dd = [c].
Proof.
  unfold spec_recv_ok. intro H. apply andb_true_iff in H as [H H3].
  apply andb_true_iff in H as [H1 H2]. apply Nat.leb_le in H2.
  destruct dd as [|a [|b dd]]; cbn in *; try lia; try discriminate.
  apply andb_true_iff in H1 as [H1 _]. apply N.eqb_eq in H1. congruence.
Qed.

