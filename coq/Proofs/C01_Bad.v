(* C01: dict-inherited | and the malformed-argument operations. *)
From Boltons Require Import Lib.Prelude Spec.C01_Spec Model.C01_Model Proofs.C01_Base
  Proofs.C01_Prim Proofs.C01_Refine Proofs.C01_Mut1 Proofs.C01_Reads1 Proofs.C01_Mut2.

Ltac start := unfold refines_op, m_op; intros s o Hs Ho Hwf.

Lemma ormap_refines m : refines_op (OrMap m).
Proof. start. rewrite (items1_correct s (proj1 Hs)). simpl. split; [exact Hs | reflexivity]. Qed.

Lemma rormap_refines m : refines_op (ROrMap m).
Proof. start. rewrite (items1_correct s (proj1 Hs)). simpl. split; [exact Hs | reflexivity]. Qed.

Lemma viewkeys_refines : refines_op ViewKeys.
Proof. start. rewrite iterkeys_correct. split; [exact Hs | reflexivity]. Qed.

Lemma viewvalues_refines : refines_op ViewValues.
Proof. start. rewrite (items1_correct s (proj1 Hs)). simpl. split; [exact Hs | reflexivity]. Qed.

Lemma viewitems_refines : refines_op ViewItems.
Proof. start. rewrite (items1_correct s (proj1 Hs)). simpl. split; [exact Hs | reflexivity]. Qed.

Lemma dictof_refines : refines_op DictOf.
Proof. start. rewrite (items1_correct s (proj1 Hs)). simpl. split; [exact Hs | reflexivity]. Qed.

Lemma truth_refines : refines_op Truth.
Proof.
  start. split; [exact Hs|]. simpl. do 3 f_equal.
  pose proof (store_len s (proj1 Hs)) as H. unfold keys1 in H.
  destruct (store s), (abs s) as [|[k v] r]; simpl in *; try reflexivity; discriminate.
Qed.

Lemma updatebad_refines l b : refines_op (UpdateBad l b).
Proof.
  start. destruct (upd_pairs_ok l s [] (abs s) [] Hs) as [s1 [E1 [Hs1 Ha1]]].
  - simpl. rewrite remove_keys_nil, app_nil_r. reflexivity.
  - simpl. tauto.
  - rewrite E1. simpl. simpl in Ha1. split; [exact Hs1|]. unfold replace_with. rewrite Ha1. reflexivity.
Qed.

Lemma updateextendbad_refines l b : refines_op (UpdateExtendBad l b).
Proof.
  start. destruct (add_all_ok l s Hs) as [H1 H2]. split; [exact H1|]. simpl. rewrite H2. reflexivity.
Qed.

Lemma addlistbad_refines k : refines_op (AddListBad k).
Proof. start. split; [exact Hs | reflexivity]. Qed.

Lemma badkey_refines n : refines_op (BadKey n).
Proof. start. split; [exact Hs | reflexivity]. Qed.
