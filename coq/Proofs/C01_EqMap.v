(* C01: __eq__ against a plain mapping: the transcribed loop computes eq_map_spec. *)
From Boltons Require Import Lib.Prelude Spec.C01_Spec Model.C01_Model Proofs.C01_Base.

Definition eqm_test (l m : pairs) (k : K) : bool :=
  opt_eqb_v (d_get m k) (Some (visible l k)).

Lemma eq_map_loop_correct s m ks : StoreOk s ->
  (forall k, In k ks -> has_key (abs s) k = true) ->
  eq_map_loop s m ks = Ok (forallb (eqm_test (abs s) m) ks).
Proof.
  intro Hs. induction ks as [|k r IH]; intro Hk; simpl; [reflexivity|].
  unfold eqm_test at 1. destruct (d_get m k) as [ov|] eqn:E; simpl; [|reflexivity].
  rewrite (getitem_correct s k Hs), (Hk k (or_introl eq_refl)). simpl.
  destruct (Nat.eqb ov (visible (abs s) k)); simpl; [|reflexivity].
  apply IH. intros k' H. apply Hk. right. exact H.
Qed.

Lemma lookup_present l k : has_key l k = true -> lookup l k = Some (visible l k).
Proof. intro H. unfold lookup. rewrite H. reflexivity. Qed.

Lemma eqm_test_In l m k : eqm_test l m k = true -> In k (map fst m).
Proof.
  unfold eqm_test, opt_eqb_v. intro H. apply d_get_Some_In.
  destruct (d_get m k) as [v|]; [eexists; reflexivity | simpl in H; discriminate].
Qed.

Lemma eq_map_bool l m : NoDup (map fst m) ->
  (Nat.eqb (length m) (length (keys1 l)) && forallb (eqm_test l m) (keys1 l))%bool
  = eq_map_spec l m.
Proof.
  intro Hm. apply Bool.eq_iff_eq_true. unfold eq_map_spec.
  rewrite andb_true_iff, Nat.eqb_eq, !forallb_forall. split.
  - intros [Hlen Hall].
    assert (Hincl : incl (keys1 l) (map fst m)).
    { intros k Hk. apply (eqm_test_In l m k). apply Hall. exact Hk. }
    assert (Hincl' : incl (map fst m) (keys1 l)).
    { apply NoDup_length_incl; [apply keys1_NoDup | rewrite map_length; lia | exact Hincl]. }
    intros k Hk.
    assert (Hk1 : In k (keys1 l)).
    { apply in_app_or in Hk as [Hk|Hk]; [apply Hincl'; exact Hk | apply keys1_In; exact Hk]. }
    rewrite (lookup_present l k) by (apply keys1_has_key; exact Hk1).
    apply Hall. exact Hk1.
  - intro Hall.
    assert (Hall' : forall k, In k (keys1 l) -> eqm_test l m k = true).
    { intros k Hk. unfold eqm_test.
      rewrite <- (lookup_present l k) by (apply keys1_has_key; exact Hk).
      apply Hall. apply in_or_app. right. apply keys1_In. exact Hk. }
    split; [|exact Hall'].
    rewrite <- (map_length fst m). apply NoDup_same_length; [exact Hm | apply keys1_NoDup |].
    intro k. split; intro Hk.
    + apply keys1_has_key.
      assert (H := Hall k (in_or_app _ _ _ (or_introl Hk))).
      apply d_get_Some_In in Hk as [v Hv]. rewrite Hv in H.
      unfold lookup in H. destruct (has_key l k); [reflexivity | simpl in H; discriminate].
    + apply (eqm_test_In l m k). apply Hall'. exact Hk.
Qed.

Lemma eq_map_correct : forall s m, StoreOk s -> NoDup (map fst m) ->
  m_eq_map s m = Ok (eq_map_spec (abs s) m).
Proof.
  intros s m Hs Hm. unfold m_eq_map.
  rewrite <- (eq_map_bool (abs s) m Hm), (store_len s Hs), (iterkeys_correct s).
  destruct (Nat.eqb (length m) (length (keys1 (abs s)))); simpl; [|reflexivity].
  apply eq_map_loop_correct; [exact Hs|]. intros k Hk. apply keys1_has_key. exact Hk.
Qed.

Print Assumptions eq_map_correct.
