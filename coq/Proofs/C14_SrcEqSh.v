(* (T) tie: the Gallina text regenerated from the current source of
   strutils.args2sh (Gen/C14_Src.v) computes the same function as the model,
   for every safe class (the class itself is the regenerated table). *)
From Boltons Require Import Lib.Prelude Lib.C14_Text Model.C14_Model Gen.C14_Src.
Open Scope N_scope.

Theorem src_args2sh_eq safe args sep : src_args2sh safe args sep = args2sh safe args.
Proof.
  unfold src_args2sh, src_args2sh_pieces, args2sh. f_equal.
  match goal with |- fold_left ?f args ?i = _ => set (F := f) end.
  assert (H : forall xs acc, fold_left F xs acc = acc ++ map (sh_piece safe) xs).
  { induction xs as [|a xs IH]; intro acc; [cbn; rewrite app_nil_r; reflexivity|].
    cbn [fold_left map]. rewrite IH.
    assert (E : F acc a = acc ++ [sh_piece safe a]).
    { subst F. cbv beta iota zeta. unfold sh_piece. destruct a as [|c r].
      - reflexivity.
      - cbn [src_nonempty negb]. destruct (all_safe safe (c :: r)); reflexivity. }
    rewrite E, <- app_assoc. reflexivity. }
  rewrite H. reflexivity.
Qed.
