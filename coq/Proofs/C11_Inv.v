(* C11: the representation invariant of the model and its preservation by
   add / remove / pop / _cull / _compact / sort / reverse. *)
From Boltons Require Import Lib.Prelude Lib.C11_Iface Spec.C11_Spec Model.C11_Model
     Proofs.C11_Lists Proofs.C11_Dead.

(* ---- pydict ------------------------------------------------------------------- *)
Section Dict.
  Context {B : Type}.
  Implicit Type d : tdict B.

  Lemma d_get_set d k v k' : d_get (d_set d k v) k' = if N.eqb k' k then Some v else d_get d k'.
  Proof.
    induction d as [|[k0 v0] d IH]; simpl.
    - destruct (N.eqb k' k); reflexivity.
    - destruct (N.eqb k k0) eqn:E; simpl.
      + apply N.eqb_eq in E. subst k0. destruct (N.eqb k' k); reflexivity.
      + rewrite IH. destruct (N.eqb k' k0) eqn:E2; [|reflexivity].
        apply N.eqb_eq in E2. subst k0. rewrite N.eqb_sym, E. reflexivity.
  Qed.

  Lemma d_get_none_keys d k : d_get d k = None <-> ~ In k (d_keys d).
  Proof.
    induction d as [|[k0 v0] d IH]; simpl; [tauto|].
    destruct (N.eqb k k0) eqn:E.
    - apply N.eqb_eq in E. subst. split; [discriminate|]. intros H. exfalso. apply H. left. reflexivity.
    - apply N.eqb_neq in E. rewrite IH. unfold d_keys. simpl. split; intros H.
      + intros [H1|H1]; [congruence|]. apply H. exact H1.
      + intros H1. apply H. right. exact H1.
  Qed.

  Lemma d_get_del d k k' : NoDup (d_keys d) ->
    d_get (d_del d k) k' = if N.eqb k' k then None else d_get d k'.
  Proof.
    induction d as [|[k0 v0] d IH]; simpl; intros ND.
    - destruct (N.eqb k' k); reflexivity.
    - inversion ND as [|? ? N1 N2]; subst. destruct (N.eqb k k0) eqn:E.
      + apply N.eqb_eq in E. subst k0. destruct (N.eqb k' k) eqn:E2; [|reflexivity].
        apply N.eqb_eq in E2. subst k'. apply d_get_none_keys. exact N1.
      + simpl. rewrite (IH N2). destruct (N.eqb k' k0) eqn:E2; [|reflexivity].
        apply N.eqb_eq in E2. subst k0. rewrite N.eqb_sym, E. reflexivity.
  Qed.

  Lemma d_keys_set d k v : d_keys (d_set d k v) = if d_mem d k then d_keys d else d_keys d ++ [k].
  Proof.
    unfold d_mem, d_keys. induction d as [|[k0 v0] d IH]; simpl; [reflexivity|].
    destruct (N.eqb k k0) eqn:E; simpl; [reflexivity|].
    rewrite IH. destruct (d_get d k); reflexivity.
  Qed.

  Lemma d_mem_keys d k : d_mem d k = true <-> In k (d_keys d).
  Proof.
    unfold d_mem. destruct (d_get d k) eqn:E.
    - split; [intros _|reflexivity]. destruct (in_dec N.eq_dec k (d_keys d)) as [H|H]; [exact H|].
      apply d_get_none_keys in H. congruence.
    - apply d_get_none_keys in E. split; [discriminate|contradiction].
  Qed.

  Lemma d_set_nodup d k v : NoDup (d_keys d) -> NoDup (d_keys (d_set d k v)).
  Proof.
    intros ND. rewrite d_keys_set. destruct (d_mem d k) eqn:E; [exact ND|].
    apply NoDup_snoc; [exact ND|]. intros H. apply d_mem_keys in H. congruence.
  Qed.

  Lemma d_set_length d k v : length (d_set d k v) = if d_mem d k then length d else S (length d).
  Proof.
    pose proof (d_keys_set d k v) as H. unfold d_keys in H.
    rewrite <- (map_length fst (d_set d k v)), H. destruct (d_mem d k); [apply map_length|].
    rewrite app_length, map_length. simpl. lia.
  Qed.

  Lemma d_del_keys_incl d k x : In x (d_keys (d_del d k)) -> In x (d_keys d).
  Proof.
    unfold d_keys. induction d as [|[k0 v0] d IH]; simpl; [tauto|].
    destruct (N.eqb k k0); simpl; [auto|]. intros [H|H]; auto.
  Qed.

  Lemma d_del_nodup d k : NoDup (d_keys d) -> NoDup (d_keys (d_del d k)).
  Proof.
    unfold d_keys. induction d as [|[k0 v0] d IH]; simpl; intros ND; [constructor|].
    inversion ND as [|? ? N1 N2]; subst. destruct (N.eqb k k0); [exact N2|].
    simpl. constructor; [|apply IH; exact N2]. intros H. apply N1. apply (d_del_keys_incl d k). exact H.
  Qed.

  Lemma d_del_length d k : d_mem d k = true -> S (length (d_del d k)) = length d.
  Proof.
    unfold d_mem. induction d as [|[k0 v0] d IH]; simpl; [discriminate|].
    destruct (N.eqb k k0); simpl; [reflexivity|]. intros H. rewrite IH by exact H. reflexivity.
  Qed.
End Dict.

(* ---- the invariant ------------------------------------------------------------- *)
Definition map_ok (its : list (option K)) (m : tdict nat) : Prop :=
  forall x i, d_get m x = Some i <-> nth_error its i = Some (Some x).

Record Inv0 (s : iset) : Prop := mkInv0 {
  inv_layout : layout 0 (dead s) (items s);          (* dead_indices = exactly the runs of tombstones *)
  inv_map : map_ok (items s) (imap s);               (* item_index_map = real slot of every live item *)
  inv_nodup : NoDup (d_keys (imap s));
  inv_len : length (imap s) = length (m_live s)
}.

Definition lastlive (its : list (option K)) : Prop := its = [] \/ exists x, last its None = Some x.

Definition Inv (s : iset) : Prop := Inv0 s /\ lastlive (items s).

Lemma Inv_empty : Inv m_empty.
Proof.
  split; [constructor; simpl|left; reflexivity].
  - constructor.
  - intros x i. simpl. destruct i; split; discriminate.
  - constructor.
  - reflexivity.
Qed.

Lemma map_ok_inj its m i j x : map_ok its m ->
  nth_error its i = Some (Some x) -> nth_error its j = Some (Some x) -> i = j.
Proof. intros H A B. apply H in A. apply H in B. congruence. Qed.

Lemma live_nodup_inj its :
  (forall i j x, nth_error its i = Some (Some x) -> nth_error its j = Some (Some x) -> i = j) ->
  NoDup (live_of its).
Proof.
  induction its as [|[y|] its IH]; intros H; simpl.
  - constructor.
  - constructor.
    + intros Hin. apply In_live_of in Hin. apply In_nth_error in Hin. destruct Hin as [j Hj].
      specialize (H 0 (S j) y eq_refl Hj). discriminate.
    + apply IH. intros i j x A B. specialize (H (S i) (S j) x A B). lia.
  - apply IH. intros i j x A B. specialize (H (S i) (S j) x A B). lia.
Qed.

Lemma Inv0_nodup s : Inv0 s -> NoDup (m_live s).
Proof. intros H. apply live_nodup_inj. intros i j x. apply map_ok_inj with (m := imap s). apply H. Qed.

Lemma l_mem_In x l : l_mem x l = true <-> In x l.
Proof.
  unfold l_mem. rewrite existsb_exists. split.
  - intros [y [H1 H2]]. apply N.eqb_eq in H2. subst. exact H1.
  - intros H. exists x. split; [exact H|apply N.eqb_refl].
Qed.

Lemma bool_eq_iff (a b : bool) : (a = true <-> b = true) -> a = b.
Proof. destruct a, b; intuition congruence. Qed.

Lemma map_ok_mem its m x : map_ok its m -> (d_mem m x = true <-> In x (live_of its)).
Proof.
  intros H. unfold d_mem. rewrite In_live_of. split.
  - destruct (d_get m x) as [i|] eqn:E; [intros _|discriminate].
    apply H in E. eapply nth_error_In. exact E.
  - intros Hin. apply In_nth_error in Hin. destruct Hin as [i Hi]. apply H in Hi. rewrite Hi. reflexivity.
Qed.

Lemma contains_eq s x : Inv0 s -> m_contains s x = l_mem x (m_live s).
Proof.
  intros H. apply bool_eq_iff. rewrite l_mem_In. unfold m_contains. apply map_ok_mem. apply H.
Qed.

Lemma live_split its r x : nth_error its r = Some (Some x) ->
  live_of its = live_of (firstn r its) ++ x :: live_of (skipn (S r) its).
Proof.
  intros E. rewrite (nth_error_split r _ its E) at 1. rewrite live_of_app. reflexivity.
Qed.

Lemma live_set_none its r x : nth_error its r = Some (Some x) ->
  live_of (set_nth r None its) = live_of (firstn r its) ++ live_of (skipn (S r) its).
Proof.
  intros E. rewrite (set_nth_split r None _ its E). rewrite live_of_app. reflexivity.
Qed.

(* ---- reference-side list facts ------------------------------------------------ *)
Lemma l_remove_app x A B : ~ In x A -> l_remove x (A ++ x :: B) = A ++ B.
Proof.
  induction A as [|y A IH]; simpl; intros N.
  - rewrite N.eqb_refl. reflexivity.
  - destruct (N.eqb x y) eqn:E.
    + apply N.eqb_eq in E. subst. exfalso. apply N. left. reflexivity.
    + f_equal. apply IH. intros H. apply N. right. exact H.
Qed.

Lemma l_remove_notin x l : ~ In x l -> l_remove x l = l.
Proof.
  induction l as [|y l IH]; simpl; intros N; [reflexivity|].
  destruct (N.eqb x y) eqn:E.
  - apply N.eqb_eq in E. subst. exfalso. apply N. left. reflexivity.
  - f_equal. apply IH. intros H. apply N. right. exact H.
Qed.

Lemma l_delete_app (A B : list K) x j : length A = j -> l_delete j (A ++ x :: B) = A ++ B.
Proof.
  intros <-. unfold l_delete. induction A as [|y A IH]; simpl; [reflexivity|].
  f_equal. exact IH.
Qed.

Lemma nth_app_mid (A B : list K) x j : length A = j -> nth j (A ++ x :: B) 0%N = x.
Proof. intros <-. rewrite app_nth2 by lia. rewrite Nat.sub_diag. reflexivity. Qed.

Lemma l_index_app x A B : ~ In x A -> l_index x (A ++ x :: B) = Some (length A).
Proof.
  induction A as [|y A IH]; simpl; intros N.
  - rewrite N.eqb_refl. reflexivity.
  - destruct (N.eqb x y) eqn:E.
    + apply N.eqb_eq in E. subst. exfalso. apply N. left. reflexivity.
    + rewrite IH; [reflexivity|]. intros H. apply N. right. exact H.
Qed.

Lemma l_index_none x l : ~ In x l -> l_index x l = None.
Proof.
  induction l as [|y l IH]; simpl; intros N; [reflexivity|].
  destruct (N.eqb x y) eqn:E.
  - apply N.eqb_eq in E. subst. exfalso. apply N. left. reflexivity.
  - rewrite IH; [reflexivity|]. intros H. apply N. right. exact H.
Qed.

(* ---- add ------------------------------------------------------------------------ *)
Lemma add_inv s x : Inv s -> Inv (m_add s x) /\ m_live (m_add s x) = l_add (m_live s) x.
Proof.
  intros [H HL]. unfold m_add, l_add. rewrite <- (contains_eq s x H). unfold m_contains.
  destruct (d_mem (imap s) x) eqn:M; [split; [split; assumption|reflexivity]|].
  destruct H as [H1 H2 H3 H4]. unfold m_live in *. simpl.
  split; [split; [constructor; simpl|]|].
  - apply layout_app_live. exact H1.
  - intros y i. rewrite d_get_set. destruct (N.eqb y x) eqn:E.
    + apply N.eqb_eq in E. subst y. split.
      * intros [= <-]. rewrite nth_error_app2 by lia. rewrite Nat.sub_diag. reflexivity.
      * intros Hn. destruct (Nat.lt_ge_cases i (length (items s))) as [L|L].
        -- rewrite nth_error_app1 in Hn by lia. apply H2 in Hn. unfold d_mem in M. rewrite Hn in M. discriminate.
        -- f_equal. assert (i < length (items s ++ [Some x])) by (apply nth_error_Some; congruence).
           rewrite app_length in H. simpl in H. lia.
    + apply N.eqb_neq in E. destruct (Nat.lt_ge_cases i (length (items s))) as [L|L].
      * rewrite nth_error_app1 by lia. apply H2.
      * split; intros Hn.
        -- apply H2 in Hn. assert (i < length (items s)) by (apply nth_error_Some; congruence). lia.
        -- rewrite nth_error_app2 in Hn by lia. destruct (i - length (items s)) as [|k]; simpl in Hn.
           ++ congruence.
           ++ destruct k; discriminate.
  - apply d_set_nodup. exact H3.
  - unfold m_live; simpl. rewrite d_set_length, M, live_of_app, app_length, H4. simpl. lia.
  - simpl. right. exists x. apply last_last.
  - unfold m_live; simpl. apply live_of_app.
Qed.

(* ---- turning a live slot into a tombstone (remove, pop(i)) ---------------------- *)
Lemma kill_inv0 s r x :
  Inv0 s -> nth_error (items s) r = Some (Some x) ->
  let s1 := mkIS (set_nth r None (items s)) (d_del (imap s) x) (add_dead (dead s) r) in
  Inv0 s1 /\ m_live s1 = live_of (firstn r (items s)) ++ live_of (skipn (S r) (items s)).
Proof.
  intros [H1 H2 H3 H4] E. cbn zeta.
  assert (Lr : r < length (items s)) by (apply nth_error_Some; congruence).
  assert (Hx : d_get (imap s) x = Some r) by (apply H2; exact E).
  split; [constructor; simpl|unfold m_live; simpl; apply (live_set_none _ _ x); exact E].
  - apply (layout_add_dead 0 _ _ r x); assumption.
  - intros y i. rewrite (d_get_del _ _ _ H3), nth_error_set_nth.
    destruct (N.eqb y x) eqn:Ey.
    + apply N.eqb_eq in Ey. subst y. split; [discriminate|].
      destruct (Nat.eqb i r) eqn:Ei.
      * replace (r <? length (items s)) with true by (symmetry; apply Nat.ltb_lt; lia). discriminate.
      * apply Nat.eqb_neq in Ei. intros Hn. apply H2 in Hn. congruence.
    + apply N.eqb_neq in Ey. destruct (Nat.eqb i r) eqn:Ei.
      * apply Nat.eqb_eq in Ei. subst i.
        replace (r <? length (items s)) with true by (symmetry; apply Nat.ltb_lt; lia).
        split; [|discriminate]. intros Hn. apply H2 in Hn. congruence.
      * apply H2.
  - apply d_del_nodup. exact H3.
  - unfold m_live in *; simpl. rewrite (live_set_none _ _ x E).
    assert (M : d_mem (imap s) x = true) by (unfold d_mem; rewrite Hx; reflexivity).
    pose proof (d_del_length _ _ M) as L. rewrite (live_split _ _ _ E) in H4.
    rewrite app_length in H4. rewrite app_length. cbn [length] in H4. lia.
Qed.

(* ---- rebuilding from a list (compaction, sort, reverse) -------------------------- *)
Lemma l_index_nth x xs j : NoDup xs -> (l_index x xs = Some j <-> nth_error xs j = Some x).
Proof.
  revert j; induction xs as [|y xs IH]; intros j ND; simpl.
  - destruct j; split; discriminate.
  - inversion ND as [|? ? N1 N2]; subst. destruct (N.eqb x y) eqn:E.
    + apply N.eqb_eq in E. subst y. split.
      * intros [= <-]. reflexivity.
      * destruct j; [reflexivity|]. simpl. intros Hn. apply nth_error_In in Hn. contradiction.
    + apply N.eqb_neq in E. destruct j; simpl.
      * destruct (l_index x xs); split; try discriminate; congruence.
      * specialize (IH j N2). destruct (l_index x xs) as [i|].
        -- split; [intros [= <-]; apply IH; reflexivity|intros Hn; apply IH in Hn; congruence].
        -- split; [discriminate|intros Hn; apply IH in Hn; discriminate].
Qed.

Lemma remap_get : forall xs k m x, NoDup xs ->
  d_get (fold_left (fun m ix => d_set m (snd ix) (fst ix)) (enumerate_from k xs) m) x =
  match l_index x xs with Some j => Some (k + j) | None => d_get m x end.
Proof.
  induction xs as [|y xs IH]; intros k m x ND; simpl; [reflexivity|].
  inversion ND as [|? ? N1 N2]; subst. rewrite (IH (S k) _ x N2).
  destruct (N.eqb x y) eqn:E.
  - apply N.eqb_eq in E. subst y. rewrite (l_index_none x xs N1).
    rewrite d_get_set, N.eqb_refl. f_equal. lia.
  - destruct (l_index x xs) as [j|]; [f_equal; lia|].
    rewrite d_get_set, E. reflexivity.
Qed.

Lemma remap_keys : forall xs k (m : tdict nat), (forall x, In x xs -> d_mem m x = true) ->
  d_keys (fold_left (fun m ix => d_set m (snd ix) (fst ix)) (enumerate_from k xs) m) = d_keys m.
Proof.
  induction xs as [|y xs IH]; intros k m H; simpl; [reflexivity|].
  rewrite IH.
  - rewrite d_keys_set, (H y (or_introl eq_refl)). reflexivity.
  - intros x Hx. apply d_mem_keys. rewrite d_keys_set, (H y (or_introl eq_refl)).
    apply d_mem_keys. apply H. right. exact Hx.
Qed.

Lemma last_map_some (xs : list K) : lastlive (map Some xs).
Proof.
  destruct xs as [|x xs]; [left; reflexivity|right].
  revert x; induction xs as [|y xs IH]; intros x; [exists x; reflexivity|].
  destruct (IH y) as [z Hz]. exists z. exact Hz.
Qed.

Lemma rebuild_inv (m : tdict nat) xs :
  NoDup xs -> NoDup (d_keys m) -> (forall x, In x xs <-> d_mem m x = true) -> length m = length xs ->
  Inv (mkIS (map Some xs) (remap m xs) []) /\ m_live (mkIS (map Some xs) (remap m xs) []) = xs.
Proof.
  intros ND NK HK HL. unfold m_live; simpl. rewrite live_of_map_some.
  split; [|reflexivity]. split; [constructor; simpl|apply last_map_some].
  - apply Forall_forall. intros o Ho. apply in_map_iff in Ho. destruct Ho as [x [<- _]]. discriminate.
  - intros x i. unfold remap. rewrite (remap_get xs 0 m x ND). simpl.
    rewrite nth_error_map. destruct (l_index x xs) as [j|] eqn:E.
    + apply (l_index_nth x xs j ND) in E. split.
      * intros [= <-]. rewrite E. reflexivity.
      * destruct (nth_error xs i) as [y|] eqn:E2; simpl; [|discriminate]. intros [= ->].
        f_equal. apply (proj1 (NoDup_nth_error xs) ND); [apply nth_error_Some; congruence|congruence].
    + assert (N : ~ In x xs).
      { intros Hin. apply In_nth_error in Hin. destruct Hin as [j Hj].
        apply (l_index_nth x xs j ND) in Hj. congruence. }
      assert (G : d_get m x = None).
      { destruct (d_get m x) eqn:G; [|reflexivity]. exfalso. apply N. apply HK. unfold d_mem. rewrite G. reflexivity. }
      rewrite G. split; [discriminate|].
      destruct (nth_error xs i) as [y|] eqn:E2; simpl; [|discriminate]. intros [= ->].
      exfalso. apply N. eapply nth_error_In. exact E2.
  - unfold remap. rewrite remap_keys; [exact NK|]. intros x Hx. apply HK. exact Hx.
  - unfold m_live; simpl. rewrite live_of_map_some.
    rewrite <- HL. rewrite <- (map_length fst (remap m xs)), <- (map_length fst m).
    f_equal. apply remap_keys. intros x Hx. apply HK. exact Hx.
Qed.

Lemma Inv0_keys s x : Inv0 s -> (In x (m_live s) <-> d_mem (imap s) x = true).
Proof. intros H. symmetry. apply map_ok_mem. apply H. Qed.

(* ---- _compact --------------------------------------------------------------------- *)
Lemma overwrite_firstn : forall vals l, length vals <= length l ->
  firstn (length vals) (overwrite l vals) = map Some vals /\ length (overwrite l vals) = length l.
Proof.
  induction vals as [|v vals IH]; intros l H.
  - destruct l; split; reflexivity.
  - destruct l as [|o l]; simpl in *; [lia|].
    destruct (IH l ltac:(lia)) as [A B]. rewrite A, B. split; reflexivity.
Qed.

Lemma layout_has_none off a b t its : layout off ((a, b) :: t) its -> In None its.
Proof.
  simpl. intros (H1 & H2 & H3 & H4 & H5 & H6).
  destruct (nth_error its (a - off)) as [o|] eqn:E.
  - assert (E2 : nth_error (firstn (b - a) (skipn (a - off) its)) 0 = Some o).
    { rewrite nth_error_firstn by lia. rewrite nth_error_skipn, Nat.add_0_r. exact E. }
    apply (Forall_nth_error _ _ _ _ H5) in E2. unfold deadp in E2. subst o.
    eapply nth_error_In. exact E.
  - apply nth_error_None in E. lia.
Qed.

Lemma compact_inv s : Inv0 s -> Inv (m_compact s) /\ m_live (m_compact s) = m_live s.
Proof.
  intros H. unfold m_compact. destruct (dead s) as [|[a b] t] eqn:D.
  - split; [|reflexivity]. split; [exact H|].
    destruct H as [H1 _ _ _]. rewrite D in H1. simpl in H1.
    destruct (items s) as [|o its] eqn:I; [left; reflexivity|right].
    assert (Hin : In (last (o :: its) None) (o :: its)).
    { clear. revert o. induction its as [|y its IH]; intros o; [left; reflexivity|].
      right. apply IH. }
    rewrite Forall_forall in H1. specialize (H1 _ Hin).
    destruct (last (o :: its) None) as [x|]; [exists x; reflexivity|].
    exfalso. apply H1. reflexivity.
  - pose proof H as [H1 H2 H3 H4]. rewrite D in H1.
    pose proof (live_of_has_none _ (layout_has_none _ _ _ _ _ H1)) as Lt.
    fold (m_live s) in Lt.
    pose proof (live_of_length_le (items s)) as Le.
    destruct (overwrite_firstn (m_live s) (items s) Le) as [O1 O2].
    unfold dead_count. rewrite H4, O2.
    replace (length (items s) - length (m_live s) =? 0) with false by (symmetry; apply Nat.eqb_neq; lia).
    replace (length (items s) - (length (items s) - length (m_live s))) with (length (m_live s)) by lia.
    rewrite O1. apply rebuild_inv.
    + apply Inv0_nodup. exact H.
    + exact H3.
    + intros x. apply Inv0_keys. exact H.
    + exact H4.
Qed.

(* ---- _cull --------------------------------------------------------------------------- *)
Lemma last_default_irrelevant {A} (l : list A) d d' : l <> [] -> last l d = last l d'.
Proof.
  induction l as [|x l IH]; [contradiction|]. intros _. destruct l; [reflexivity|].
  change (last (x :: a :: l) d) with (last (a :: l) d). change (last (x :: a :: l) d') with (last (a :: l) d').
  apply IH. discriminate.
Qed.

Lemma last_nth_error {A} (l : list A) d y : nth_error l (length l - 1) = Some y -> last l d = y.
Proof.
  induction l as [|x l IH]; [discriminate|]. destruct l as [|z l].
  - simpl. congruence.
  - change (last (x :: z :: l) d) with (last (z :: l) d). intros H. apply IH.
    simpl in *. rewrite Nat.sub_0_r in *. exact H.
Qed.

Lemma cull_inv c s : Inv0 s -> Inv (m_cull c s) /\ m_live (m_cull c s) = m_live s.
Proof.
  intros H. unfold m_cull.
  destruct (dead s) as [|[a b] t] eqn:D.
  { (* nothing dead: compact_inv's first case shows the last slot is live *)
    pose proof (compact_inv s H) as C. unfold m_compact in C. rewrite D in C. exact C. }
  destruct (length (imap s) =? 0) eqn:C0.
  { apply Nat.eqb_eq in C0. pose proof H as [H1 H2 H3 H4]. rewrite C0 in H4.
    assert (E : m_live s = []) by (destruct (m_live s); [reflexivity|discriminate]).
    assert (Em : imap s = []) by (destruct (imap s); [reflexivity|discriminate]).
    rewrite Em, E. split; [|reflexivity]. apply Inv_empty. }
  destruct (max_dead_intervals c <? length ((a, b) :: t)); [apply compact_inv; exact H|].
  destruct (length (items s) <? compaction_factor c * dead_count s); [apply compact_inv; exact H|].
  destruct (last (items s) (Some 0%N)) as [y|] eqn:EL.
  { split; [|reflexivity]. split; [exact H|].
    destruct (items s) as [|o its] eqn:I; [left; reflexivity|right]. exists y.
    rewrite (last_default_irrelevant (o :: its) None (Some 0%N)) by discriminate. exact EL. }
  (* right-trim *)
  cbn zeta.
  destruct (trailing_none_split (items s)) as (T1 & T2 & T3).
  set (nd := leading_none (rev (items s))) in *.
  set (n := length (items s) - nd) in *.
  assert (Ln : length (firstn n (items s)) = n) by (rewrite firstn_length; lia).
  change (length (firstn n (items s))) with (length (firstn n (items s))) in Ln.
  generalize Ln. generalize (length (firstn n (items s))). intros n' ->. clear Ln.
  pose proof H as [H1 H2 H3 H4]. rewrite D in H1.
  assert (LV : live_of (firstn n (items s)) = live_of (items s)).
  { rewrite T1 at 2. rewrite live_of_app. rewrite (live_of_all_none (repeat None nd)).
    - symmetry. apply app_nil_r.
    - apply Forall_forall. intros o Ho. apply repeat_spec in Ho. exact Ho. }
  unfold m_live; simpl. split; [|exact LV]. split; [constructor; simpl|].
  - rewrite (drop_trailing_dead_filter 0 _ n (layout_sorted _ _ _ H1)).
    apply (layout_cut _ 0 (items s) n H1); [lia|].
    apply (no_straddle_after_live 0 _ (items s) n H1). destruct T3 as [T3|[_ T3]]; [left|right]; exact T3.
  - intros x i. split.
    + intros G. apply H2 in G. assert (Li : i < n).
      { destruct (Nat.lt_ge_cases i n) as [L|L]; [exact L|exfalso].
        assert (G' : nth_error (firstn n (items s) ++ repeat None nd) i = Some (Some x)) by (rewrite <- T1; exact G).
        rewrite nth_error_app2 in G' by (rewrite firstn_length; lia).
        apply nth_error_In in G'. apply repeat_spec in G'. discriminate. }
      rewrite nth_error_firstn by exact Li. exact G.
    + intros G. apply nth_error_firstn_some in G. apply H2. tauto.
  - exact H3.
  - unfold m_live; simpl. rewrite LV. exact H4.
  - cbn [items]. destruct T3 as [T3|[Tn [x T3]]]; [left; rewrite T3; reflexivity|right]. exists x.
    apply last_nth_error. cbn [items]. rewrite firstn_length. replace (Init.Nat.min n (length (items s))) with n by lia.
    rewrite nth_error_firstn by lia. exact T3.
Qed.

(* ---- remove / discard ---------------------------------------------------------------- *)
Lemma remove_inv c s x : Inv s ->
  Inv (fst (m_remove c s x)) /\
  m_live (fst (m_remove c s x)) = l_remove x (m_live s) /\
  snd (m_remove c s x) = (if l_mem x (m_live s) then Ok RNone else Raise KeyError).
Proof.
  intros [H HL]. unfold m_remove. rewrite <- (contains_eq s x H). unfold m_contains, d_mem.
  destruct (d_get (imap s) x) as [r|] eqn:G; simpl.
  - assert (E : nth_error (items s) r = Some (Some x)) by (apply H; exact G).
    destruct (kill_inv0 s r x H E) as [K1 K2].
    destruct (cull_inv c _ K1) as [C1 C2].
    split; [exact C1|]. split; [|reflexivity]. rewrite C2, K2.
    unfold m_live. rewrite (live_split _ _ _ E). symmetry. apply l_remove_app.
    (* x does not occur before its own slot *)
    intros Hin. apply In_live_of in Hin. apply In_nth_error in Hin. destruct Hin as [j Hj].
    apply nth_error_firstn_some in Hj. destruct Hj as [Lj Hj].
    pose proof (map_ok_inj _ _ _ _ _ (inv_map s H) Hj E). lia.
  - split; [split; assumption|]. split; [|reflexivity].
    symmetry. apply l_remove_notin. intros Hin. apply (Inv0_keys s x H) in Hin.
    unfold d_mem in Hin. rewrite G in Hin. discriminate.
Qed.

Lemma discard_inv c s x : Inv s ->
  Inv (m_discard c s x) /\ m_live (m_discard c s x) = l_remove x (m_live s).
Proof. intros H. destruct (remove_inv c s x H) as (A & B & _). split; assumption. Qed.

(* ---- positional reads ------------------------------------------------------------------ *)
Lemma norm_index_spec len i j : norm_index len i = Some j ->
  j < len /\ (if (i <? 0)%Z then (i + Z.of_nat len)%Z else i) = Z.of_nat j.
Proof.
  unfold norm_index.
  destruct (0 <=? i)%Z eqn:A; destruct (i <? Z.of_nat len)%Z eqn:B; simpl;
  destruct (i <? 0)%Z eqn:C; destruct (- Z.of_nat len <=? i)%Z eqn:D; simpl;
  intros [= <-]; lia.
Qed.

Lemma real_index_ok s i j : Inv0 s -> norm_index (length (m_live s)) i = Some j ->
  exists r x, m_real_index s i = Ok r /\ nth_error (items s) r = Some (Some x) /\
              length (live_of (firstn r (items s))) = j.
Proof.
  intros H N. apply norm_index_spec in N. destruct N as [Lj N].
  destruct (real_loop_spec (dead s) 0 (items s) j (inv_layout s H) Lj) as (r & x & R1 & R2 & R3).
  exists r, x. split; [|split; assumption].
  unfold m_real_index, norm_neg, m_len. rewrite (inv_len s H). rewrite N.
  replace (Z.of_nat j <? 0)%Z with false by (symmetry; apply Z.ltb_ge; lia).
  rewrite Nat2Z.id. f_equal. exact R1.
Qed.

Lemma getitem_ok s i j : Inv0 s -> norm_index (length (m_live s)) i = Some j ->
  m_getitem s i = Ok (nth j (m_live s) 0%N).
Proof.
  intros H N. unfold m_getitem.
  assert (N2 : norm_index (length (m_live s)) (norm_neg s i) = Some j).
  { pose proof (norm_index_spec _ _ _ N) as [Lj E]. unfold norm_neg, m_len. rewrite (inv_len s H), E.
    unfold norm_index. replace (0 <=? Z.of_nat j)%Z with true by (symmetry; apply Z.leb_le; lia).
    replace (Z.of_nat j <? Z.of_nat (length (m_live s)))%Z with true by (symmetry; apply Z.ltb_lt; lia).
    simpl. rewrite Nat2Z.id. reflexivity. }
  destruct (real_index_ok s _ j H N2) as (r & x & R1 & R2 & R3).
  rewrite R1, R2. f_equal. unfold m_live. rewrite (live_split _ _ _ R2). symmetry. apply nth_app_mid. exact R3.
Qed.

Lemma index_ok s x : Inv0 s ->
  m_index s x = match l_index x (m_live s) with Some i => Ok i | None => Raise ValueError end.
Proof.
  intros H. unfold m_index. destruct (d_get (imap s) x) as [r|] eqn:G.
  - assert (E : nth_error (items s) r = Some (Some x)) by (apply H; exact G).
    unfold m_live. rewrite (live_split _ _ _ E). rewrite l_index_app.
    + f_equal.
      pose proof (apparent_loop_spec (dead s) 0 (items s) r x r (inv_layout s H) E) as A.
      simpl in A. rewrite A by lia.
      pose proof (live_of_length_le (firstn r (items s))) as L. rewrite firstn_length in L. lia.
    + intros Hin. apply In_live_of in Hin. apply In_nth_error in Hin. destruct Hin as [j Hj].
      apply nth_error_firstn_some in Hj. destruct Hj as [Lj Hj].
      pose proof (map_ok_inj _ _ _ _ _ (inv_map s H) Hj E). lia.
  - rewrite l_index_none; [reflexivity|]. intros Hin. apply (Inv0_keys s x H) in Hin.
    unfold d_mem in Hin. rewrite G in Hin. discriminate.
Qed.

(* ---- pop --------------------------------------------------------------------------------- *)
Lemma rev_cons_split {A} (l : list A) y r : rev l = y :: r -> l = rev r ++ [y].
Proof. intros H. rewrite <- (rev_involutive l), H. reflexivity. Qed.

Lemma pop_end_inv0 s its' x :
  Inv0 s -> items s = its' ++ [Some x] ->
  let s1 := mkIS its' (d_del (imap s) x) (dead s) in
  Inv0 s1 /\ m_live s = m_live s1 ++ [x].
Proof.
  intros [H1 H2 H3 H4] E. cbn zeta. unfold m_live in *. rewrite E in *. simpl.
  assert (LV : live_of (its' ++ [Some x]) = live_of its' ++ [x]) by (rewrite live_of_app; reflexivity).
  split; [constructor; simpl|exact LV].
  - eapply layout_removelast. exact H1.
  - assert (Ex : nth_error (its' ++ [Some x]) (length its') = Some (Some x)).
    { rewrite nth_error_app2 by lia. rewrite Nat.sub_diag. reflexivity. }
    intros y i. rewrite (d_get_del _ _ _ H3). destruct (N.eqb y x) eqn:Ey.
    + apply N.eqb_eq in Ey. subst y. split; [discriminate|]. intros G.
      assert (Li : i < length its') by (apply nth_error_Some; congruence).
      assert (G2 : nth_error (its' ++ [Some x]) i = Some (Some x)) by (rewrite nth_error_app1 by lia; exact G).
      pose proof (map_ok_inj _ _ _ _ _ H2 G2 Ex). lia.
    + apply N.eqb_neq in Ey. split.
      * intros G. apply H2 in G. destruct (Nat.lt_ge_cases i (length its')) as [L|L].
        -- rewrite nth_error_app1 in G by lia. exact G.
        -- rewrite nth_error_app2 in G by lia. destruct (i - length its') as [|k]; simpl in G; [congruence|].
           destruct k; discriminate.
      * intros G. apply H2. assert (Li : i < length its') by (apply nth_error_Some; congruence).
        rewrite nth_error_app1 by lia. exact G.
  - apply d_del_nodup. exact H3.
  - assert (M : d_mem (imap s) x = true).
    { apply (map_ok_mem _ _ x H2). rewrite LV. apply in_or_app. right. left. reflexivity. }
    pose proof (d_del_length _ _ M) as L. rewrite LV, app_length in H4. simpl in H4.
    unfold m_live; simpl. lia.
Qed.

Lemma lastlive_rev its : lastlive its -> rev its = [] \/ exists x r, rev its = Some x :: r.
Proof.
  intros [->|[x Hx]]; [left; reflexivity|].
  destruct (rev its) as [|o r] eqn:E; [left; reflexivity|right].
  apply rev_cons_split in E. subst its. rewrite last_last in Hx. subst o. eauto.
Qed.

Lemma pop_inv c s i : Inv s ->
  valid_op (m_live s) (Pop i) = true ->
  Inv (fst (m_pop c s i)) /\
  m_live (fst (m_pop c s i)) = fst (spec_step1 (m_live s) (Pop i)) /\
  snd (m_pop c s i) = snd (spec_step1 (m_live s) (Pop i)).
Proof.
  intros [H HL] V. unfold m_pop.
  set (at_end := match i with None => true
                 | Some i => ((i =? -1) || (i =? Z.of_nat (m_len s) - 1))%Z end).
  assert (Hlen : m_len s = length (m_live s)) by (apply (inv_len s H)).
  destruct at_end eqn:AE.
  - (* list.pop() *)
    destruct (lastlive_rev _ HL) as [R|(x & r & R)].
    + rewrite R. assert (E : items s = []) by (rewrite <- (rev_involutive (items s)), R; reflexivity).
      assert (EL : m_live s = []) by (unfold m_live; rewrite E; reflexivity).
      split; [split; assumption|]. cbn [fst snd]. rewrite EL in *. destruct i as [i|]; simpl.
      * simpl in V. destruct (norm_index 0 i) eqn:N; [|discriminate].
        apply norm_index_spec in N. lia.
      * split; reflexivity.
    + rewrite R. pose proof (rev_cons_split _ _ _ R) as E.
      destruct (pop_end_inv0 s (rev r) x H E) as [P1 P2].
      rewrite E, removelast_last.
      destruct (cull_inv c _ P1) as [C1 C2]. cbn [fst snd].
      split; [exact C1|]. rewrite C2. rewrite P2.
      set (A := m_live {| items := rev r; imap := d_del (imap s) x; dead := dead s |}) in *.
      destruct i as [i|]; cbn [spec_step1].
      * cbn [valid_op] in V. destruct (norm_index (length (m_live s)) i) as [j|] eqn:N; [|discriminate].
        rewrite P2 in N. rewrite N.
        assert (Ej : j = length A).
        { apply norm_index_spec in N. destruct N as [Lj N]. rewrite app_length in *. simpl in *.
          subst at_end. rewrite Hlen, P2, app_length in AE. simpl in AE.
          apply orb_true_iff in AE. destruct AE as [AE|AE]; apply Z.eqb_eq in AE; subst i.
          - replace (-1 <? 0)%Z with true in N by reflexivity. lia.
          - destruct (Z.of_nat (length A + 1) - 1 <? 0)%Z eqn:C; lia. }
        subst j. cbn [fst snd]. rewrite (l_delete_app A [] x (length A) eq_refl), app_nil_r.
        rewrite (nth_app_mid A [] x (length A) eq_refl). split; reflexivity.
      * rewrite rev_app_distr. simpl. rewrite removelast_last. split; reflexivity.
  - (* pop(i) away from the end *)
    destruct i as [i|]; [|subst at_end; discriminate].
    cbn [valid_op] in V. destruct (norm_index (length (m_live s)) i) as [j|] eqn:N; [|discriminate].
    destruct (real_index_ok s i j H N) as (r & x & R1 & R2 & R3).
    rewrite R1, R2.
    destruct (kill_inv0 s r x H R2) as [K1 K2].
    destruct (cull_inv c _ K1) as [C1 C2]. cbn [fst snd spec_step1]. rewrite N. cbn [fst snd].
    split; [exact C1|]. rewrite C2, K2. unfold m_live. rewrite (live_split _ _ _ R2).
    rewrite (l_delete_app _ _ x j R3), (nth_app_mid _ _ x j R3). split; reflexivity.
Qed.
