(* C06 (T) tie of the function bodies: the Gallina text regenerated from boltons/urlutils.py
   (Gen/C06_Src.v) computes the same functions as the hand-written model (Model/C06_Model.v),
   for all arguments, tables and oracles. *)
From Boltons Require Import Lib.Prelude Lib.PySrc Lib.C06_Text Model.C06_Model Lib.C06_PySrc
  Gen.C06_Src Gen.C06_Gen Proofs.C06_Codec Proofs.C06_Lists.
Open Scope N_scope.

Section SrcEq.
Variable T : tables.
Variable O : oracles.

(* ---- quote_*_part -------------------------------------------------------------------------- *)
Lemma concat_map_flat {A B} (f : A -> list B) l : concat (map f l) = flat_map f l.
Proof. symmetry. apply flat_map_concat_map. Qed.

Theorem src_quote_path_part_eq s full : src_quote_path_part T O s full = quote T O full CPath s.
Proof. unfold src_quote_path_part, quote, quote_full, quote_min, quote_bytes. destruct full; cbv beta iota zeta; rewrite <- flat_map_concat_map; reflexivity. Qed.

Theorem src_quote_query_part_eq s full : src_quote_query_part T O s full = quote T O full CQuery s.
Proof. unfold src_quote_query_part, quote, quote_full, quote_min, quote_bytes. destruct full; cbv beta iota zeta; rewrite <- flat_map_concat_map; reflexivity. Qed.

Theorem src_quote_fragment_part_eq s full : src_quote_fragment_part T O s full = quote T O full CFrag s.
Proof. unfold src_quote_fragment_part, quote, quote_full, quote_min, quote_bytes. destruct full; cbv beta iota zeta; rewrite <- flat_map_concat_map; reflexivity. Qed.

Theorem src_quote_userinfo_part_eq s full : src_quote_userinfo_part T O s full = quote T O full CUser s.
Proof. unfold src_quote_userinfo_part, quote, quote_full, quote_min, quote_bytes. destruct full; cbv beta iota zeta; rewrite <- flat_map_concat_map; reflexivity. Qed.

(* ---- unquote_to_bytes ------------------------------------------------------------------------ *)
Lemma join_split c s : join [c] (split_on c s) = s.
Proof.
  induction s as [|x r IH]; [reflexivity|]. cbn [split_on].
  destruct (split_on_nonnil c r) as [h [t S]]. rewrite S in *.
  destruct (x =? c) eqn:E.
  - apply N.eqb_eq in E. subst x.
    change (join [c] ([] :: h :: t)) with ([] ++ c :: join [c] (h :: t)). rewrite IH. reflexivity.
  - destruct t as [|h2 t2].
    + cbn [join] in *. subst r. reflexivity.
    + change (join [c] ((x :: h) :: h2 :: t2)) with (x :: (h ++ c :: join [c] (h2 :: t2))).
      change (join [c] (h :: h2 :: t2)) with (h ++ c :: join [c] (h2 :: t2)) in IH. rewrite IH. reflexivity.
Qed.

Lemma unq_pieces item :
  concat (match hex_key (t_hex T) item with
          | Some v => [[v]] ++ [skipn 2 item]
          | None => [[37]] ++ [item]
          end) = unq_item T item.
Proof.
  unfold hex_key, unq_item. destruct item as [|a [|b rest]]; try reflexivity.
  destruct (hex_lookup (t_hex T) a b); cbn; rewrite ?app_nil_r; reflexivity.
Qed.

Lemma fold_pieces items : forall acc,
  concat (fold_left (fun res item =>
                       match hex_key (t_hex T) item with
                       | Some v => res ++ [[v]] ++ [skipn 2 item]
                       | None => res ++ [[37]] ++ [item]
                       end) items acc)
  = concat acc ++ flat_map (unq_item T) items.
Proof.
  induction items as [|it r IH]; intro acc; cbn [fold_left flat_map]; [rewrite app_nil_r; reflexivity|].
  rewrite IH. rewrite <- (unq_pieces it).
  destruct (hex_key (t_hex T) it); rewrite concat_app, app_assoc; reflexivity.
Qed.

Theorem src_unquote_to_bytes_eq s : src_unquote_to_bytes T s = unquote_to_bytes T s.
Proof.
  unfold src_unquote_to_bytes, unquote_to_bytes.
  destruct s as [|x r]; [reflexivity|]. cbn [nonempty negb].
  destruct (split_on 37 (x :: r)) as [|first items] eqn:S.
  { pose proof (join_split 37 (x :: r)) as J. rewrite S in J. discriminate. }
  destruct items as [|i1 ir].
  - cbn. pose proof (join_split 37 (x :: r)) as J. rewrite S in J. cbn in J. subst first.
    rewrite app_nil_r. reflexivity.
  - assert (L : (zlen (first :: i1 :: ir) =? 1)%Z = false).
    { unfold zlen. cbn [length]. apply Z.eqb_neq. lia. }
    rewrite L. cbn [py_first tl]. rewrite (fold_pieces (i1 :: ir) [first]). cbn [concat]. rewrite app_nil_r. reflexivity.
Qed.
Lemma fold_left_ext2 {A B} (f g : A -> B -> A) l : (forall a x, f a x = g a x) -> forall a, fold_left f l a = fold_left g l a.
Proof. intro H. induction l as [|x r IH]; intro a; cbn [fold_left]; [reflexivity|]. rewrite H. apply IH. Qed.

(* ---- unquote ------------------------------------------------------------------------------------------ *)
Fixpoint alternating (rs : list (bool * text)) : bool :=
  match rs with
  | (a, _) :: (((b, _) :: _) as t) => negb (Bool.eqb a b) && alternating t
  | _ => true
  end.

Lemma ascii_runs_alternating s : alternating (ascii_runs s) = true.
Proof.
  induction s as [|c r IH]; [reflexivity|]. cbn [ascii_runs].
  destruct (ascii_runs r) as [|[a run] q] eqn:R; [reflexivity|].
  destruct (Bool.eqb a (is_ascii c)) eqn:E.
  - destruct q as [|[b run2] q2]; [reflexivity|]. exact IH.
  - change (alternating ((is_ascii c, [c]) :: (a, run) :: q))
      with (negb (Bool.eqb (is_ascii c) a) && alternating ((a, run) :: q)).
    rewrite IH, andb_true_r. destruct a, (is_ascii c); try reflexivity; discriminate.
Qed.

Definition dec_run (x : bool * text) : text :=
  let '(a, run) := x in if (a : bool) then utf8_dec (unquote_to_bytes T run) else run.

Definition dec_pair (p : text * text) : text := utf8_dec (unquote_to_bytes T (fst p)) ++ snd p.

Lemma bits_from_cons rs : exists b0 B, bits_from rs = b0 :: B.
Proof. destruct rs as [|[[|] x] [|[f r] rest']]; cbn; eauto. Qed.

Lemma bits_decode : forall n rs, (length rs <= n)%nat -> alternating rs = true ->
  py_first (bits_from rs) ++ flat_map dec_pair (py_pairs (tl (bits_from rs))) = flat_map dec_run rs.
Proof.
  induction n as [|n IH]; intros rs L A.
  { destruct rs; [reflexivity|cbn in L; lia]. }
  destruct rs as [|[[|] x] rest]; [reflexivity| |].
  - (* an ASCII run first *)
    cbn [bits_from py_first tl app flat_map dec_run].
    assert (A' : alternating rest = true).
    { cbn [alternating] in A. destruct rest as [|[b y] t]; [reflexivity|]. apply andb_true_iff in A as [_ A]. exact A. }
    destruct (bits_from_cons rest) as [b0 [B E]]. rewrite E. cbn [py_pairs flat_map dec_pair fst snd].
    rewrite <- (IH rest) by (cbn in L; try lia; exact A'). rewrite E. cbn [py_first tl]. unfold dec_pair at 1. cbn [fst snd]. rewrite <- app_assoc. reflexivity.
  - destruct rest as [|[f r] rest'].
    + cbn. rewrite app_nil_r. reflexivity.
    + assert (F : f = true).
      { cbn [alternating] in A. apply andb_true_iff in A as [A _]. destruct f; [reflexivity|discriminate]. }
      subst f.
      assert (A' : alternating rest' = true).
      { cbn [alternating] in A. apply andb_true_iff in A as [_ A]. destruct rest' as [|[b y] t]; [reflexivity|].
        apply andb_true_iff in A as [_ A]. exact A. }
      cbn [bits_from py_first tl flat_map dec_run].
      destruct (bits_from_cons rest') as [b0 [B E]]. rewrite E. cbn [py_pairs flat_map dec_pair fst snd].
      rewrite <- (IH rest') by (cbn in L; try lia; exact A'). rewrite E. cbn [py_first tl]. unfold dec_pair at 1. cbn [fst snd]. rewrite <- !app_assoc. reflexivity.
Qed.

Lemma fold_pairs ps : forall acc,
  concat (fold_left (fun res '(a, b) => (res ++ [utf8_dec (unquote_to_bytes T a)]) ++ [b]) ps acc)
  = concat acc ++ flat_map dec_pair ps.
Proof.
  induction ps as [|[a b] r IH]; intro acc; cbn [fold_left flat_map]; [rewrite app_nil_r; reflexivity|].
  rewrite IH. rewrite !concat_app. unfold dec_pair at 2. cbn [concat fst snd]. rewrite !app_nil_r, <- !app_assoc. reflexivity.
Qed.

Theorem src_unquote_eq s : src_unquote T s = unquote T s.
Proof.
  unfold src_unquote, unquote. cbv zeta. destruct (memN 37 s) eqn:E; cbn [negb]; [|reflexivity].
  rewrite (fold_left_ext2 _ (fun res '(a, b) => (res ++ [utf8_dec (unquote_to_bytes T a)]) ++ [b])).
  - rewrite fold_pairs. cbn [concat]. rewrite app_nil_r. unfold py_pairs1, ascii_bits.
    apply (bits_decode (length (ascii_runs s)) (ascii_runs s) (le_n _) (ascii_runs_alternating s)).
  - intros res [a b]. rewrite src_unquote_to_bytes_eq. reflexivity.
Qed.

(* ---- parse_qsl ------------------------------------------------------------------------------- *)
Lemma fold_filter_map {A B} (keep : A -> bool) (g : A -> B) l : forall acc,
  fold_left (fun ret x => if negb (keep x) then ret else ret ++ [g x]) l acc = acc ++ map g (filter keep l).
Proof.
  induction l as [|x r IH]; intro acc; cbn [fold_left filter map]; [rewrite app_nil_r; reflexivity|].
  destruct (keep x); cbn [negb map]; rewrite IH; [rewrite <- app_assoc; reflexivity|reflexivity].
Qed.

Lemma nonempty_match (p : text) : nonempty p = match p with [] => false | _ => true end.
Proof. destruct p; reflexivity. Qed.



Theorem src_parse_qsl_eq qs : src_parse_qsl T qs = parse_qsl T qs.
Proof.
  unfold src_parse_qsl, parse_qsl. cbv zeta.
  assert (P : flat_map (fun s1 => map (fun s2 => s2) (split_on 59 s1)) (split_on 38 qs)
              = flat_map (split_on 59) (split_on 38 qs)).
  { apply flat_map_ext. intro a. apply map_id. }
  rewrite P.
  rewrite (fold_left_ext2 _ (fun ret x => if negb (nonempty x) then ret else ret ++ [qsl_pair T x])).
  - rewrite (fold_filter_map nonempty (qsl_pair T)). cbn [app]. reflexivity.
  - intros ret pair. destruct (negb (nonempty pair)); [reflexivity|]. f_equal. f_equal.
    unfold qsl_pair, py_partition3. destruct (partition 61 pair) as [[key sep] value].
    destruct value as [|v0 vr]; destruct sep; reflexivity.
Qed.

(* ---- QueryParamDict.to_text --------------------------------------------------------------------- *)
Lemma fold_append_map {A B} (g : A -> B) l : forall acc,
  fold_left (fun ret x => ret ++ [g x]) l acc = acc ++ map g l.
Proof.
  induction l as [|x r IH]; intro acc; cbn [fold_left map]; [rewrite app_nil_r; reflexivity|].
  rewrite IH, <- app_assoc. reflexivity.
Qed.

Theorem src_query_to_text_eq q full : src_query_to_text T O q full = query_to_text T O full q.
Proof.
  unfold src_query_to_text, query_to_text. cbv zeta.
  rewrite (fold_left_ext2 _ (fun ret x => ret ++ [(fun '(k, v) =>
             match v with
             | None => quote T O full CQuery k
             | Some v => quote T O full CQuery k ++ [61] ++ quote T O full CQuery v
             end) x])).
  - rewrite fold_append_map. reflexivity.
  - intros ret [k [v|]]; cbn [opt_is_none opt_text]; rewrite !src_quote_query_part_eq; reflexivity.
Qed.
(* ---- parse_url: userinfo, sep, hostinfo = au_text.rpartition('@') ... -------------------------------- *)
Theorem src_split_userinfo_eq au : src_split_userinfo au = split_userinfo au.
Proof.
  unfold src_split_userinfo, split_userinfo, py_rpartition3, py_partition3. cbv zeta.
  destruct au as [|a0 ar]; [reflexivity|]. cbn [nonempty].
  destruct (rpartition 64 (a0 :: ar)) as [[ui hi]|]; [|reflexivity].
  cbn [nonempty]. destruct (partition 58 ui) as [[u f] p]. reflexivity.
Qed.

(* ... host, sep, port_str = hostinfo.partition(':'), bracket repair, int(port_str) *)
Theorem src_split_hostport_eq hi :
  (let '(h, p) := src_split_hostport O hi in do p' <- p; MOk (h, p')) = split_hostport O hi.
Proof.
  unfold src_split_hostport, split_hostport, py_partition3. cbv zeta.
  destruct hi as [|c0 cr]; [reflexivity|]. cbn [nonempty].
  destruct (partition 58 (c0 :: cr)) as [[host sep] port_str].
  destruct sep; [|reflexivity]. cbn [nonempty].
  assert (H0 : (nonempty host && (py_char0 host =? 91)) = match host with h0 :: _ => h0 =? 91 | [] => false end)
    by (destruct host; reflexivity).
  rewrite H0. destruct (match host with h0 :: _ => h0 =? 91 | [] => false end && memN 93 port_str).
  - destruct (partition 93 port_str) as [[hr f] ps]. rewrite <- !app_assoc.
    assert (P : (if nonempty ps && (py_char0 ps =? 58) then tl ps else ps) = match ps with 58 :: r => r | _ => ps end).
    { destruct ps as [|q qr]; [reflexivity|]. cbn [nonempty py_char0 andb tl].
      destruct (q =? 58) eqn:E; [apply N.eqb_eq in E; subst q; reflexivity|].
      destruct q as [|pq]; [reflexivity|]. repeat (destruct pq as [pq|pq|]; try reflexivity; try discriminate). }
    rewrite P. reflexivity.
  - reflexivity.
Qed.
(* ---- parse_host ------------------------------------------------------------------------------------ *)
Theorem src_parse_host_eq h : src_parse_host O h = parse_host O h.
Proof.
  unfold src_parse_host, parse_host. cbv zeta.
  destruct h as [|h0 hr]; [reflexivity|]. cbn [nonempty negb py_char0].
  assert (L : (py_char_last (h0 :: hr) =? 93) = last_is 93 (h0 :: hr))
    by (unfold py_char_last, last_is; destruct (rev (h0 :: hr)); reflexivity).
  rewrite L. unfold py_strip1.
  destruct (memN 58 (h0 :: hr) && (h0 =? 91) && last_is 93 (h0 :: hr)).
  - destruct (o_inet6 O (removelast (tl (h0 :: hr)))) as [[| |]|e|w]; cbn [mbind]; try reflexivity.
    destruct (o_inet4 O (removelast (tl (h0 :: hr)))) as [b|e|w]; reflexivity.
  - destruct (o_inet4 O (h0 :: hr)) as [b|e|w]; reflexivity.
Qed.

(* ---- URL.get_authority(full_quote, with_userinfo=True) ------------------------------------------------- *)
Variable enc : text -> text.       (* the idna codec on the host, where it answers *)

Lemma concat2 (a b : text) : concat [a; b] = a ++ b.
Proof. cbn. rewrite app_nil_r. reflexivity. Qed.

Ltac finish_parts :=
  cbv zeta; cbn [nonempty orb andb negb app concat mbind oz_truthy oz_get];
  rewrite ?app_nil_r, <- ?app_assoc; cbn [app]; rewrite ?app_nil_r, <- ?app_assoc; reflexivity.

Theorem src_get_authority_eq u full :
  o_idna_enc O (u_host u) = MOk (enc (u_host u)) ->
  get_authority T O full u = MOk (src_get_authority T O enc u full).
Proof.
  intro ENC. unfold src_get_authority, get_authority, port_text.
  rewrite !src_quote_userinfo_part_eq. unfold quote.
  destruct u as [scheme sep user pw fam host port path q frag].
  cbn [u_user u_pass u_host u_family u_port] in *.
  set (dp := default_port T _).
  destruct host as [|h0 hr].
  { destruct user as [|u0 ur]; destruct pw as [|p0 pr]; finish_parts. }
  destruct ((fam =? 6) || memN 58 (h0 :: hr)) eqn:B.
  - destruct user as [|u0 ur]; destruct pw as [|p0 pr]; destruct port as [p|];
      try destruct (negb (p =? 0)%Z && negb (optZ_eqb (Some p) dp)) eqn:C;
      cbv zeta; cbn [nonempty orb andb negb oz_truthy oz_get]; rewrite ?B, ?C; finish_parts.
  - destruct full.
    + rewrite ENC.
      destruct user as [|u0 ur]; destruct pw as [|p0 pr]; destruct port as [p|];
        try destruct (negb (p =? 0)%Z && negb (optZ_eqb (Some p) dp)) eqn:C;
        cbv zeta; cbn [nonempty orb andb negb oz_truthy oz_get]; rewrite ?B, ?C; finish_parts.
    + destruct user as [|u0 ur]; destruct pw as [|p0 pr]; destruct port as [p|];
        try destruct (negb (p =? 0)%Z && negb (optZ_eqb (Some p) dp)) eqn:C;
        cbv zeta; cbn [nonempty orb andb negb oz_truthy oz_get]; rewrite ?B, ?C; finish_parts.
Qed.
(* ---- URL.to_text ----------------------------------------------------------------------------------- *)
Lemma starts2_eq (path : text) :
  text_eqb (firstn 2 path) [47; 47] = match path with 47 :: 47 :: _ => true | _ => false end.
Proof.
  destruct path as [|a [|b r]]; try reflexivity.
  - cbn. destruct a as [|pa]; [reflexivity|]. repeat (destruct pa as [pa|pa|]; try reflexivity).
  - cbn [firstn text_eqb]. destruct (a =? 47) eqn:Ea.
    + apply N.eqb_eq in Ea. subst a. destruct (b =? 47) eqn:Eb.
      * apply N.eqb_eq in Eb. subst b. reflexivity.
      * cbn. destruct b as [|pb]; [reflexivity|]. repeat (destruct pb as [pb|pb|]; try reflexivity; try discriminate).
    + cbn. destruct a as [|pa]; [reflexivity|]. repeat (destruct pa as [pa|pa|]; try reflexivity; try discriminate).
Qed.

Lemma starts1_eq (path : text) :
  text_eqb (firstn 1 path) [47] = match path with 47 :: _ => true | _ => false end.
Proof.
  destruct path as [|a r]; [reflexivity|]. cbn [firstn text_eqb]. destruct (a =? 47) eqn:Ea.
  - apply N.eqb_eq in Ea. subst a. reflexivity.
  - cbn. destruct a as [|pa]; [reflexivity|]. repeat (destruct pa as [pa|pa|]; try reflexivity; try discriminate).
Qed.

Lemma empty_or_slash_eq (path : text) :
  existsb (text_eqb (firstn 1 path)) [[]; [47]] = match path with [] => true | 47 :: _ => true | _ => false end.
Proof.
  cbn [existsb]. rewrite starts1_eq, orb_false_r. destruct path as [|a r]; [reflexivity|]. reflexivity.
Qed.

Theorem src_to_text_eq u full :
  o_idna_enc O (u_host u) = MOk (enc (u_host u)) ->
  to_text T O full u = MOk (src_to_text T O enc u full).
Proof.
  intro ENC. unfold src_to_text, to_text. rewrite (src_get_authority_eq u full ENC). cbn [mbind].
  rewrite src_query_to_text_eq, src_quote_fragment_part_eq.
  rewrite (map_ext (fun p => src_quote_path_part T O p full) (quote T O full CPath)
             (fun p => src_quote_path_part_eq p full)).
  cbv zeta. unfold text in *.
  generalize (u_scheme u); intro scheme.
  match goal with |- context [nonempty (join [47] ?m)] => generalize (join [47] m); intro path end.
  generalize (src_get_authority T O enc u full); intro authority.
  generalize (query_to_text T O full (u_query u)); intro qs.
  generalize (quote T O full CFrag (u_frag u)); intro fragment.
  rewrite starts2_eq, starts1_eq, empty_or_slash_eq.
  f_equal.
  destruct (nonempty scheme); destruct (nonempty authority); destruct (nonempty path);
    destruct (nonempty qs); destruct (nonempty fragment);
    destruct (match path with 47 :: 47 :: _ => true | _ => false end);
    destruct (match path with [] => true | 47 :: _ => true | _ => false end);
    destruct (match path with 47 :: _ => true | _ => false end);
    destruct (uses_netloc T u);
    cbn [orb andb negb app concat]; rewrite ?app_nil_r, <- ?app_assoc; cbn [app]; rewrite ?app_nil_r, <- ?app_assoc; reflexivity.
Qed.
End SrcEq.

(* the four quote maps regenerated from the imported module are what the regenerated body of
   _make_quote_map builds from the four regenerated *_SAFE sets (closed computation, 4 x 256 entries) *)
Theorem src_make_quote_map_eq :
  gen_user_map = src_make_quote_map gen_user_safe /\ gen_path_map = src_make_quote_map gen_path_safe /\
  gen_query_map = src_make_quote_map gen_query_safe /\ gen_frag_map = src_make_quote_map gen_frag_safe.
Proof. repeat split; vm_compute; reflexivity. Qed.
