(* C06 (T) tie of the function bodies: the Gallina text regenerated from boltons/urlutils.py
   (Gen/C06_Src.v) computes the same functions as the hand-written model (Model/C06_Model.v),
   for all arguments, tables and oracles. *)
From Boltons Require Import Lib.Prelude Lib.PySrc Lib.C06_Text Model.C06_Model Lib.C06_PySrc
  Gen.C06_Src Proofs.C06_Codec Proofs.C06_Lists.
Open Scope N_scope.

Section SrcEq.
Variable T : tables.
Variable O : oracles.

(* ---- quote_*_part -------------------------------------------------------------------------- *)
Lemma concat_map_flat {A B} (f : A -> list B) l : concat (map f l) = flat_map f l.
Proof. symmetry. apply flat_map_concat_map. Qed.

Theorem src_quote_path_part_eq s full : src_quote_path_part T O s full = quote T O full CPath s.
Proof. unfold src_quote_path_part, quote, quote_full, quote_min, quote_bytes. destruct full; cbv beta iota zeta; rewrite <- flat_map_concat_map; reflexivity. Qed.

Theorem src_quote_query_part_eq s full : src_quote_query_part T O s full = quote T O full CQuery s.
Proof. unfold src_quote_query_part, quote, quote_full, quote_min, quote_bytes. destruct full; cbv beta iota zeta; rewrite <- flat_map_concat_map; reflexivity. Qed.

Theorem src_quote_fragment_part_eq s full : src_quote_fragment_part T O s full = quote T O full CFrag s.
Proof. unfold src_quote_fragment_part, quote, quote_full, quote_min, quote_bytes. destruct full; cbv beta iota zeta; rewrite <- flat_map_concat_map; reflexivity. Qed.

Theorem src_quote_userinfo_part_eq s full : src_quote_userinfo_part T O s full = quote T O full CUser s.
Proof. unfold src_quote_userinfo_part, quote, quote_full, quote_min, quote_bytes. destruct full; cbv beta iota zeta; rewrite <- flat_map_concat_map; reflexivity. Qed.

(* ---- unquote_to_bytes ------------------------------------------------------------------------ *)
Lemma join_split c s : join [c] (split_on c s) = s.
Proof.
  induction s as [|x r IH]; [reflexivity|]. cbn [split_on].
  destruct (split_on_nonnil c r) as [h [t S]]. rewrite S in *.
  destruct (x =? c) eqn:E.
  - apply N.eqb_eq in E. subst x.
    change (join [c] ([] :: h :: t)) with ([] ++ c :: join [c] (h :: t)). rewrite IH. reflexivity.
  - destruct t as [|h2 t2].
    + cbn [join] in *. subst r. reflexivity.
    + change (join [c] ((x :: h) :: h2 :: t2)) with (x :: (h ++ c :: join [c] (h2 :: t2))).
      change (join [c] (h :: h2 :: t2)) with (h ++ c :: join [c] (h2 :: t2)) in IH. rewrite IH. reflexivity.
Qed.

Lemma unq_pieces item :
  concat (match hex_key (t_hex T) item with
          | Some v => [[v]] ++ [skipn 2 item]
          | None => [[37]] ++ [item]
          end) = unq_item T item.
Proof.
  unfold hex_key, unq_item. destruct item as [|a [|b rest]]; try reflexivity.
  destruct (hex_lookup (t_hex T) a b); cbn; rewrite ?app_nil_r; reflexivity.
Qed.

Lemma fold_pieces items : forall acc,
  concat (fold_left (fun res item =>
                       match hex_key (t_hex T) item with
                       | Some v => res ++ [[v]] ++ [skipn 2 item]
                       | None => res ++ [[37]] ++ [item]
                       end) items acc)
  = concat acc ++ flat_map (unq_item T) items.
Proof.
  induction items as [|it r IH]; intro acc; cbn [fold_left flat_map]; [rewrite app_nil_r; reflexivity|].
  rewrite IH. rewrite <- (unq_pieces it).
  destruct (hex_key (t_hex T) it); rewrite concat_app, app_assoc; reflexivity.
Qed.

Theorem src_unquote_to_bytes_eq s : src_unquote_to_bytes T s = unquote_to_bytes T s.
Proof.
  unfold src_unquote_to_bytes, unquote_to_bytes.
  destruct s as [|x r]; [reflexivity|]. cbn [nonempty negb].
  destruct (split_on 37 (x :: r)) as [|first items] eqn:S.
  { pose proof (join_split 37 (x :: r)) as J. rewrite S in J. discriminate. }
  destruct items as [|i1 ir].
  - cbn. pose proof (join_split 37 (x :: r)) as J. rewrite S in J. cbn in J. subst first.
    rewrite app_nil_r. reflexivity.
  - assert (L : (zlen (first :: i1 :: ir) =? 1)%Z = false).
    { unfold zlen. cbn [length]. apply Z.eqb_neq. lia. }
    rewrite L. cbn [py_first tl]. rewrite (fold_pieces (i1 :: ir) [first]). cbn [concat]. rewrite app_nil_r. reflexivity.
Qed.
End SrcEq.
