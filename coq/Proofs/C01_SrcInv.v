(* C01: the invariant under which the regenerated source programs are compared with the model. *)
From Boltons Require Import Lib.Prelude Spec.C01_Spec Model.C01_Model Model.C01_Ptr Model.C01_PModel
  Proofs.C01_Base Proofs.C01_PSimDefs.

(* well-formed heap + cell map in step (Good), and dict storage in step with the cell list *)
Definition PInv (p : pomd) : Prop := Good p /\ StoreOk (lift p).
